(* Proofs/C14_fasta.v — round 6: the indexed-FASTA fetch (IndexedFasta._get_interval_sequences_fast, one turn of its
   loop) returns exactly seq[a:b] for every record wrapped to any line width w > 0, every sequence and every interval:
   the seek/read window computed from the .fai fields and the computed line-break positions that np.delete removes
   are right for unbounded sizes.  Proved by induction over the lines of the record. *)
From Coq Require Import ZArith List Bool Lia.
From BNP Require Import Base.Prims Base.PrimsFacts Model.C14.
Import ListNotations.
Open Scope Z_scope.

Definition nlidx (w m k : Z) : list Z := map (fun j => (w + 1) * (j + 1) - 1 - m) (arange k).
Definition fetch0 (w : Z) (F : list Z) (a b : Z) : list Z :=
  np_delete (slice ((a / w) * (w + 1) + a mod w) ((b / w) * (w + 1) + b mod w) F)
            (nlidx w (a mod w) (b / w - a / w)).

Lemma np_delete_filter r idx : np_delete r (filter (fun i => i <? len r) idx) = np_delete r idx.
Proof.
  unfold np_delete. apply delete_from_ext. intros j Hj. rewrite filter_In, Z.ltb_lt.
  split; [tauto|]. intros H; split; [exact H|lia].
Qed.
Lemma np_delete_nil_idx r : np_delete r [] = r.
Proof. unfold np_delete. apply delete_from_none. intros j []. Qed.

Lemma fa_fetch_fetch0 pre F rlen w a b : 0 < w -> 0 <= a -> 0 <= b ->
  fa_fetch (pre ++ F) (rlen, len pre, w, w + 1) a b = fetch0 w F a b.
Proof.
  intros Hw Ha Hb. unfold fa_fetch, fetch0. cbv zeta.
  pose proof (Z.div_pos a w Ha Hw). pose proof (Z.mod_pos_bound a w Hw).
  set (so := a / w * (w + 1) + a mod w). set (eo := b / w * (w + 1) + b mod w).
  assert (Hso : 0 <= so) by (unfold so; nia).
  assert (E : firstn (Z.to_nat (eo - so)) (skipn (Z.to_nat (len pre + so)) (pre ++ F)) = slice so eo F).
  { unfold slice. f_equal. rewrite skipn_app. rewrite skipn_all2 by (unfold len; lia). simpl. f_equal. unfold len. lia. }
  rewrite E. rewrite np_delete_filter. reflexivity.
Qed.

Lemma fa_body_cons w seq : 0 < w -> seq <> [] ->
  fa_body w seq = firstn (Z.to_nat w) seq ++ 10 :: fa_body w (skipn (Z.to_nat w) seq).
Proof.
  intros Hw Hs. unfold fa_body. rewrite chunks_of_cons by (try assumption; lia).
  cbn [map concat]. rewrite <- app_assoc. reflexivity.
Qed.

Lemma div_shift x w : 0 < w -> (x - w) / w = x / w - 1.
Proof. intros Hw. replace (x - w) with (x + (-1) * w) by lia. rewrite Z.div_add by lia. lia. Qed.
Lemma mod_shift x w : 0 < w -> (x - w) mod w = x mod w.
Proof. intros Hw. replace (x - w) with (x + (-1) * w) by lia. apply Z_mod_plus_full. Qed.

Lemma nlidx_ge w m k j : 0 < w -> In j (nlidx w m k) -> w - m <= j.
Proof.
  intros Hw H. unfold nlidx in H. apply in_map_iff in H. destruct H as [i [E Hi]]. apply In_arange in Hi. subst j. nia.
Qed.
Lemma nlidx_first w m k : 0 < k -> In (w - m) (nlidx w m k).
Proof.
  intros Hk. unfold nlidx. apply in_map_iff. exists 0. split; [ring|]. apply In_arange. lia.
Qed.
Lemma nlidx_tail w m k j : 0 < w -> 0 <= j ->
  (In j (map (fun j => j - (w - m + 1)) (nlidx w m (k + 1))) <-> In j (nlidx w 0 k)).
Proof.
  intros Hw Hj. unfold nlidx. rewrite map_map. rewrite !in_map_iff. split.
  - intros [i [E Hi]]. apply In_arange in Hi. exists (i - 1). split; [rewrite <- E; ring|]. apply In_arange.
    assert (i <> 0) by (intros ->; lia). lia.
  - intros [i [E Hi]]. apply In_arange in Hi. exists (i + 1). split; [rewrite <- E; ring|]. apply In_arange. lia.
Qed.

Lemma fetch0_body w : 0 < w -> forall n seq, (length seq <= n)%nat -> forall a b post, 0 <= a <= b -> b <= len seq ->
  fetch0 w (fa_body w seq ++ post) a b = slice a b seq.
Proof.
  intros Hw. induction n as [|n IH]; intros seq Hn a b post Hab Hb.
  - destruct seq; [|simpl in Hn; lia]. rewrite len_nil in Hb. assert (a = b) by lia. subst b.
    unfold fetch0. rewrite !slice_empty by lia. reflexivity.
  - destruct (Z.eq_dec a b) as [->|Hne].
    { unfold fetch0. rewrite !slice_empty by lia. reflexivity. }
    assert (Hs : seq <> []) by (intros ->; rewrite len_nil in Hb; lia).
    rewrite (fa_body_cons w seq Hw Hs).
    set (l0 := firstn (Z.to_nat w) seq). set (seq' := skipn (Z.to_nat w) seq).
    assert (Hseq : seq = l0 ++ seq') by (symmetry; apply firstn_skipn).
    assert (Hl0 : len l0 = Z.min w (len seq)) by (unfold l0; rewrite len_firstn; lia).
    assert (Hn' : (length seq' <= n)%nat).
    { unfold seq'. rewrite skipn_length. assert (length seq <> 0)%nat by (destruct seq; [congruence|simpl; lia]). lia. }
    assert (Hlen' : len seq = len l0 + len seq') by (rewrite Hseq at 1; apply len_app).
    pose proof (len_nonneg seq').
    rewrite <- app_assoc. cbn [app].
    set (F' := fa_body w seq' ++ post).
    destruct (Z_le_gt_dec w a) as [Hwa|Hwa].
    + (* the interval starts after the first line: drop that line *)
      assert (Hl0w : len l0 = w) by lia.
      assert (E : fetch0 w (l0 ++ 10 :: F') a b = fetch0 w F' (a - w) (b - w)).
      { unfold fetch0. rewrite !div_shift, !mod_shift by lia.
        replace (b / w - 1 - (a / w - 1)) with (b / w - a / w) by lia. f_equal.
        change (l0 ++ 10 :: F') with (l0 ++ [10] ++ F'). rewrite app_assoc.
        assert (Hp : len (l0 ++ [10]) = w + 1) by (rewrite len_app, Hl0w; reflexivity).
        pose proof (Z.div_pos (a - w) w ltac:(lia) Hw) as D. rewrite div_shift in D by lia.
        pose proof (Z.mod_pos_bound a w Hw).
        rewrite slice_app_r by (rewrite Hp; nia). rewrite Hp. f_equal; ring. }
      rewrite E. unfold F'. rewrite IH by (try assumption; lia).
      unfold seq'. rewrite slice_skipn by lia. f_equal; lia.
    + destruct (Z_le_gt_dec w b) as [Hwb|Hwb].
      * (* starts on the first line, ends on a later one *)
        assert (Hl0w : len l0 = w) by lia.
        assert (Da : a / w = 0) by (apply Z.div_small; lia).
        assert (Ma : a mod w = a) by (apply Z.mod_small; lia).
        pose proof (Z.div_pos (b - w) w ltac:(lia) Hw) as D. 
        pose proof (Z.mod_pos_bound b w Hw) as Mb.
        set (k := (b - w) / w) in *.
        assert (Db : b / w = k + 1) by (unfold k; rewrite div_shift by lia; lia).
        assert (E0 : fetch0 w F' 0 (b - w) = np_delete (slice 0 (k * (w + 1) + b mod w) F') (nlidx w 0 k)).
        { unfold fetch0. rewrite mod_shift by lia. rewrite Z.div_0_l, Zmod_0_l by lia. fold k.
          replace (0 * (w + 1) + 0) with 0 by lia. replace (k - 0) with k by lia. reflexivity. }
        unfold fetch0. rewrite Da, Ma, Db.
        replace (0 * (w + 1) + a) with a by lia. replace (k + 1 - 0) with (k + 1) by lia.
        rewrite slice_app_split by (rewrite Hl0w; nia). rewrite Hl0w.
        replace ((k + 1) * (w + 1) + b mod w - w) with (1 + (k * (w + 1) + b mod w)) by ring.
        rewrite slice_cons0 by nia.
        set (x := skipn (Z.to_nat a) l0). set (r' := slice 0 (k * (w + 1) + b mod w) F').
        assert (Hx : len x = w - a) by (unfold x; rewrite len_skipn, Hl0w; lia).
        unfold np_delete. rewrite delete_from_app.
        rewrite delete_from_none by (intros j Hj; apply nlidx_ge in Hj; lia).
        change (10 :: r') with ([10] ++ r'). rewrite delete_from_app.
        rewrite Z.add_0_l, Hx. rewrite delete_from_hit by (apply nlidx_first; lia).
        cbn [app]. change (len [10]) with 1.
        replace (w - a + 1) with (0 + (w - a + 1)) by lia. rewrite delete_from_shift.
        rewrite (delete_from_ext 0 _ (nlidx w 0 k)) by (intros j Hj; apply nlidx_tail; lia).
        fold (np_delete r' (nlidx w 0 k)). unfold r'. rewrite <- E0. unfold F'. rewrite IH by (try assumption; lia).
        replace (slice a b seq) with (slice a b (l0 ++ seq')) by (rewrite <- Hseq; reflexivity). rewrite slice_app_split by lia. rewrite Hl0w. reflexivity.
      * (* inside the first line *)
        assert (Da : a / w = 0) by (apply Z.div_small; lia).
        assert (Ma : a mod w = a) by (apply Z.mod_small; lia).
        assert (Db : b / w = 0) by (apply Z.div_small; lia).
        assert (Mb : b mod w = b) by (apply Z.mod_small; lia).
        unfold fetch0. rewrite Da, Ma, Db, Mb. change (nlidx w a (0 - 0)) with (@nil Z).
        rewrite np_delete_nil_idx. replace (0 * (w + 1) + a) with a by lia. replace (0 * (w + 1) + b) with b by lia.
        rewrite slice_app_l by lia. replace (slice a b seq) with (slice a b (l0 ++ seq')) by (rewrite <- Hseq; reflexivity). rewrite slice_app_l by lia. reflexivity.
Qed.

(* the fetch of one interval from a file in which the record body (wrapped to width w, every line terminated) sits at the
   offset the index names, whatever precedes and follows it *)
Theorem fa_fetch_slice : forall w seq pre post rlen a b, 0 < w -> 0 <= a <= b -> b <= len seq ->
  fa_fetch (pre ++ fa_body w seq ++ post) (rlen, len pre, w, w + 1) a b = slice a b seq.
Proof.
  intros w seq pre post rlen a b Hw Hab Hb. rewrite fa_fetch_fetch0 by lia.
  apply (fetch0_body w Hw (length seq) seq (le_n _)); assumption.
Qed.

(* ---------- the whole file: several records, each wrapped to its own width, and its standard index ---------- *)
Lemma fa_file_split : forall recs pos c r, nth_error recs c = Some r ->
  exists pre post,
    concat (map fa_record recs) = pre ++ fa_body (fa_w r) (fa_seq r) ++ post
    /\ nth_error (fa_index_from pos recs) c
       = Some (len (fa_seq r), pos + len pre, Z.min (fa_w r) (len (fa_seq r)), Z.min (fa_w r) (len (fa_seq r)) + 1).
Proof.
  induction recs as [|r0 recs IH]; intros pos c r Hc; [destruct c; discriminate|].
  destruct c as [|c]; cbn [nth_error] in Hc.
  - inversion Hc; subst r0. exists (62 :: fa_name r ++ [10]), (concat (map fa_record recs)). split.
    + cbn [map concat]. unfold fa_record. cbn [app]. rewrite <- !app_assoc. reflexivity.
    + cbn [fa_index_from nth_error]. rewrite len_cons, len_app. change (len [10]) with 1.
      replace (pos + (1 + (len (fa_name r) + 1))) with (pos + len (fa_name r) + 2) by lia. reflexivity.
  - destruct (IH (pos + len (fa_name r0) + 2 + len (fa_body (fa_w r0) (fa_seq r0))) c r Hc) as [pre [post [E1 E2]]].
    exists (fa_record r0 ++ pre), post. split.
    + cbn [map concat]. rewrite E1. rewrite <- app_assoc. reflexivity.
    + cbn [fa_index_from nth_error]. rewrite E2.
      assert (HL : pos + len (fa_record r0 ++ pre)
                   = pos + len (fa_name r0) + 2 + len (fa_body (fa_w r0) (fa_seq r0)) + len pre)
        by (unfold fa_record; rewrite len_app, len_cons, len_app, len_cons; lia).
      rewrite HL. reflexivity.
Qed.

Lemma fa_body_min w seq : 0 < w -> seq <> [] -> fa_body (Z.min w (len seq)) seq = fa_body w seq.
Proof.
  intros Hw Hs. destruct (Z_le_gt_dec w (len seq)) as [H|H].
  - rewrite Z.min_l by lia. reflexivity.
  - rewrite Z.min_r by lia. unfold fa_body. rewrite !chunks_of_single by (try assumption; unfold len in *; lia). reflexivity.
Qed.

Theorem fa_fetch_file : forall recs c r a b s,
  nth_error recs c = Some r -> 0 < fa_w r -> 0 <= a <= b -> b <= len (fa_seq r) ->
  fa_fetch_iv (fa_file recs true) (fa_index_from 0 recs) (Z.of_nat c, a, b, s) = slice a b (fa_seq r).
Proof.
  intros recs c r a b s Hc Hw Hab Hb.
  destruct (Z.eq_dec a b) as [->|Hne].
  - destruct (fa_file_split recs 0 c r Hc) as [pre [post [E1 E2]]].
    unfold fa_fetch_iv. rewrite Nat2Z.id. rewrite (nth_error_nth _ _ _ E2).
    unfold fa_fetch. cbv zeta. rewrite Z.sub_diag. cbn [Z.to_nat firstn]. rewrite slice_empty by lia. reflexivity.
  - assert (Hs : fa_seq r <> []) by (intros E; rewrite E, len_nil in Hb; lia).
    destruct (fa_file_split recs 0 c r Hc) as [pre [post [E1 E2]]].
    unfold fa_fetch_iv. rewrite Nat2Z.id. rewrite (nth_error_nth _ _ _ E2).
    unfold fa_file. rewrite E1. rewrite <- (fa_body_min _ _ Hw Hs). rewrite Z.add_0_l.
    assert (0 < len (fa_seq r)) by lia.
    apply fa_fetch_slice; lia.
Qed.

(* Proofs/C12_e2e.v — end-to-end statements for the configuration that is the code at /repo HEAD
   (FIXED_ORDER = AHEAD = true, SYNC_AHEAD = false): chunk stream -> groupby/join -> synchronisation -> pull machine. *)
From Coq Require Import ZArith List Bool Lia Arith.
From BNP Require Import Base.Prims Model.C12 Proofs.C12 Proofs.C12_groupby Proofs.C12_pull Proofs.C12_fol.
Import ListNotations.

Lemma stream_guard_pass {A} (t : trace (list Z)) (r : res A) : t <> ([], Stop) -> stream_guard t r = r.
Proof. destruct t as [[|y ys] [|c]]; simpl; intros H; try reflexivity. congruence. Qed.

(* what the consumers of the genome route return for a trace that meets the spec early *)
Lemma genome_consumers (incl : list bname) (sizes : list Z) (t : trace ids) (exp : option (list ids)) :
  incl <> [] -> length sizes = length incl ->
  (forall a, exp = Some a -> length a = length incl) ->
  trace_meets_early (length incl) t exp ->
  match exp with
  | Some a => api_rows bname incl t = Done (labelled incl a) /\ api_flat t = Done (concat a)
              /\ api_sum t = Done (len (concat a))
              /\ machine_rows incl sizes t = Done (labelled incl a) /\ machine_flat sizes t = Done (concat a)
  | None => (exists c, api_rows bname incl t = Err c) /\ (exists c, api_flat t = Err c) /\ (exists c, api_sum t = Err c)
            /\ (exists c, machine_rows incl sizes t = Err c) /\ (exists c, machine_flat sizes t = Err c)
  end.
Proof.
  intros Hne Hs Hlen H.
  assert (Hmax : Nat.max 1 (length incl) = length incl). { destruct incl; [congruence|simpl; lia]. }
  destruct exp as [a|]; simpl in H.
  - subst t. specialize (Hlen a eq_refl).
    assert (Ha : (a, Stop) <> (@nil ids, Stop)). { destruct a; [destruct incl; simpl in *; congruence|discriminate]. }
    assert (R : api_rows bname incl (a, Stop) = Done (labelled incl a)).
    { unfold api_rows. rewrite stream_guard_pass by exact Ha. rewrite Hmax, <- Hlen.
      unfold pull_n. simpl. rewrite Nat.leb_refl, firstn_all. reflexivity. }
    assert (F : api_flat (a, Stop) = Done (concat a)).
    { unfold api_flat. rewrite stream_guard_pass by exact Ha. reflexivity. }
    repeat split; auto.
    + unfold api_sum. rewrite F. reflexivity.
    + rewrite machine_rows_is_api_rows; auto.
    + rewrite machine_flat_is_api_flat; auto. simpl. lia.
  - destruct H as [ys [c [-> Hl]]].
    assert (Ha : (ys, Raise c) <> (@nil ids, Stop)) by discriminate.
    assert (R : api_rows bname incl (ys, Raise c) = Err c).
    { unfold api_rows. rewrite stream_guard_pass by exact Ha. rewrite Hmax. unfold pull_n. simpl. unfold ids in *.
      destruct (length incl <=? length ys)%nat eqn:E; [apply Nat.leb_le in E; lia|reflexivity]. }
    assert (F : api_flat (ys, Raise c) = Err c).
    { unfold api_flat. rewrite stream_guard_pass by exact Ha. reflexivity. }
    repeat split.
    + exists c; exact R.
    + exists c; exact F.
    + exists c. unfold api_sum. rewrite F. reflexivity.
    + exists c. rewrite machine_rows_is_api_rows; auto.
    + exists c. rewrite machine_flat_is_api_flat; auto. simpl. lia.
Qed.

(* the genome route at HEAD, from the chunk stream to every consumer *)
Theorem head_genome_end_to_end (keepall : bool) (genome extra : list bname) (chunks : list (list (bname * Z))) (sizes : list Z) :
  NoDup genome -> Forall (fun c => c <> []) chunks -> contiguous bname (bkeys (concat chunks)) ->
  let incl := ctx_included bname zlist_eqb has_underscore keepall genome extra in
  let ign := ctx_ignored bname has_underscore keepall genome extra in
  let D := runs bname zlist_eqb (concat chunks) in
  let t := genome_trace_head keepall genome extra chunks in
  incl <> [] -> length sizes = length incl ->
  match spec_sync bname zlist_eqb ids [] incl ign D with
  | Some a => api_rows bname incl t = Done (labelled incl a) /\ api_flat t = Done (concat a)
              /\ api_sum t = Done (len (concat a))
              /\ machine_rows incl sizes t = Done (labelled incl a) /\ machine_flat sizes t = Done (concat a)
  | None => (exists c, api_rows bname incl t = Err c) /\ (exists c, api_flat t = Err c) /\ (exists c, api_sum t = Err c)
            /\ (exists c, machine_rows incl sizes t = Err c) /\ (exists c, machine_flat sizes t = Err c)
  end.
Proof.
  intros Hg Hne Hc incl ign D t Hi Hs.
  assert (Ht : t = iter_chrom_ahead bname zlist_eqb ids [] incl incl ign D).
  { unfold t, genome_trace_head, genome_trace, FIXED_ORDER, AHEAD, chrom_order_fixed. fold incl. fold ign.
    rewrite (grouped_chunk_invariant bname zlist_eqb zlist_eqb_eq chunks Hne Hc). reflexivity. }
  rewrite Ht. apply genome_consumers; auto.
  - intros a Ha. eapply spec_sync_length. exact Ha.
  - apply iter_chrom_ahead_early; auto.
    + exact zlist_eqb_eq.
    + apply ctx_included_NoDup. exact Hg.
    + apply (runs_names_NoDup bname zlist_eqb zlist_eqb_eq). exact Hc.
Qed.

(* MultiStream BEFORE notes/C12.fix-4.diff (pinned history, shape 0 = plain for-loop): run to the end = full property;
   as second stream of a zip = guarded *)
Theorem pinned_multistream_end_to_end (order : list bname) (chunks : list (list (bname * Z))) :
  NoDup order -> Forall (fun c => c <> []) chunks -> contiguous bname (bkeys (concat chunks)) ->
  let D := runs bname zlist_eqb (concat chunks) in
  let t := synched_by_shape 0 order (grouped bname zlist_eqb chunks) in
  match spec_sync bname zlist_eqb ids [] order [] D with
  | Some a => pull_all t = Done a
              /\ forall ya sizes, length ya = length sizes -> length sizes = length order ->
                   machine_zip_second (ya, Stop) sizes t = Done a
  | None => exists c, pull_all t = Err c
  end.
Proof.
  intros Ho Hne Hc D t.
  assert (Ht : t = synched bname zlist_eqb ids [] order D).
  { unfold t, synched_by_shape. simpl. rewrite (grouped_chunk_invariant bname zlist_eqb zlist_eqb_eq chunks Hne Hc). reflexivity. }
  assert (HD : NoDup (map fst D)) by (apply (runs_names_NoDup bname zlist_eqb zlist_eqb_eq); exact Hc).
  pose proof (multistream_exhaustive bname zlist_eqb zlist_eqb_eq ids [] order D Ho HD) as H.
  rewrite Ht. destruct (spec_sync bname zlist_eqb ids [] order [] D) as [a|] eqn:Es; simpl in H.
  - split; [exact H|]. intros ya sizes H1 H2. rewrite machine_zip_second_is_pull_n by exact H1. rewrite H2.
    apply (multistream_npull_good bname zlist_eqb zlist_eqb_eq ids [] order D a Ho HD Es).
  - exact H.
Qed.

(* MultiStream at HEAD (with notes/C12.fix-4.diff): EVERY consumer — the attribute run to its end, a consumer of any pull
   depth, the second stream of forbes/jaccard's zip as the pull machine computes it — gets the exact per-contig
   assignment, or an exception.  No guard on the data. *)
Theorem head_multistream_end_to_end (order : list bname) (chunks : list (list (bname * Z))) :
  NoDup order -> order <> [] -> Forall (fun c => c <> []) chunks -> contiguous bname (bkeys (concat chunks)) ->
  let D := runs bname zlist_eqb (concat chunks) in
  let t := synched_head order (grouped bname zlist_eqb chunks) in
  match spec_sync bname zlist_eqb ids [] order [] D with
  | Some a => pull_all t = Done a
              /\ (forall k, pull_n k t = Done (firstn k a))
              /\ forall ya sizes, length ya = length sizes -> length sizes = length order ->
                   machine_zip_second (ya, Stop) sizes t = Done a
  | None => (exists c, pull_all t = Err c)
            /\ (forall k, (length order <= k)%nat -> exists c, pull_n k t = Err c)
            /\ forall ya sizes, length ya = length sizes -> length sizes = length order ->
                   exists c, machine_zip_second (ya, Stop) sizes t = Err c
  end.
Proof.
  intros Ho H0 Hne Hc D t.
  assert (Ht : t = synched_fol bname zlist_eqb ids [] order D).
  { unfold t. change (synched_head order) with (synched_fol bname zlist_eqb ids [] order).
    rewrite (grouped_chunk_invariant bname zlist_eqb zlist_eqb_eq chunks Hne Hc). reflexivity. }
  assert (HD : NoDup (map fst D)) by (apply (runs_names_NoDup bname zlist_eqb zlist_eqb_eq); exact Hc).
  pose proof (multistream_fol_any_depth bname zlist_eqb zlist_eqb_eq ids [] order D Ho HD H0) as H.
  pose proof (multistream_fol_npull bname zlist_eqb zlist_eqb_eq ids [] order D Ho HD H0) as Hn.
  rewrite Ht. destruct (spec_sync bname zlist_eqb ids [] order [] D) as [a|] eqn:Es.
  - destruct H as [H1 H2]. split; [exact H1|]. split; [exact H2|].
    intros ya sizes L1 L2. rewrite machine_zip_second_is_pull_n by exact L1. rewrite L2. exact Hn.
  - destruct H as [H1 H2]. split; [exact H1|]. split; [exact H2|].
    intros ya sizes L1 L2. rewrite machine_zip_second_is_pull_n by exact L1. rewrite L2. exact Hn.
Qed.

(* ---------- the second stream of a zip may lose entries (known finding) but never misattributes them ---------- *)
Section Slots.
Variable name : Type.
Variable neqb : name -> name -> bool.
Hypothesis neqb_eq : forall a b, neqb a b = true <-> a = b.
Variable P : Type.
Variable empty : P.
Notation lookup := (lookup name neqb P empty).
Notation sync := (sync name neqb P empty).
Notation sync_skip := (sync_skip name neqb).

(* a delivered slot holds the empty table or exactly the table the data carries under that contig's name *)
Definition slot_ok (G0 : list (name * P)) (c : name) (y : P) : Prop := y = empty \/ y = lookup c G0.

Lemma slots_empty G0 l : Forall2 (slot_ok G0) l (map (fun _ => empty) l).
Proof. induction l; simpl; constructor; auto. left; reflexivity. Qed.
Lemma slots_repeat G0 l : Forall2 (slot_ok G0) l (repeat empty (length l)).
Proof. induction l; simpl; constructor; auto. left; reflexivity. Qed.
Lemma sync_skip_gen n : forall rest seen,
  (exists pre rest' seen', rest = pre ++ n :: rest' /\ sync_skip n rest seen = (length pre, Some (rest', seen')))
  \/ sync_skip n rest seen = (length rest, None).
Proof.
  induction rest as [|c rest IH]; intros seen; [right; reflexivity|].
  simpl. destruct (neqb n c) eqn:E.
  - apply neqb_eq in E. subst c. left. exists [], rest, (seen ++ [n]). split; reflexivity.
  - destruct (IH (seen ++ [c])) as [[pre [rest' [seen' [-> Hs]]]]|Hs]; rewrite Hs.
    + left. exists (c :: pre), rest', seen'. split; reflexivity.
    + right. reflexivity.
Qed.
Lemma sync_slots order G0 : forall gs rest seen,
  (forall n p, In (n, p) gs -> lookup n G0 = p) ->
  Forall2 (slot_ok G0) (firstn (length (fst (sync order rest seen gs))) rest) (fst (sync order rest seen gs)).
Proof.
  induction gs as [|[n p] gs IH]; intros rest seen HG.
  - simpl. rewrite map_length, firstn_all. apply slots_empty.
  - simpl. destruct (mem name neqb n seen); [constructor|].
    destruct (negb (mem name neqb n order)); [constructor|].
    destruct (sync_skip_gen n rest seen) as [[pre [rest' [seen' [-> Hs]]]]|Hs]; rewrite Hs.
    + specialize (IH rest' seen' (fun n0 p0 H => HG n0 p0 (or_intror H))).
      destruct (sync order rest' seen' gs) as [ys' e'] eqn:Et. simpl in *.
      rewrite !app_length, repeat_length. simpl.
      replace (length pre + 1 + length ys')%nat with (length pre + S (length ys'))%nat by lia.
      rewrite firstn_app_2. simpl. rewrite <- app_assoc. simpl.
      apply Forall2_app; [apply slots_repeat|]. constructor; [|exact IH].
      right. symmetry. apply HG. left; reflexivity.
    + simpl. rewrite repeat_length, firstn_all. apply slots_repeat.
Qed.
Lemma lookup_in_nodup gs : NoDup (map fst gs) -> forall n p, In (n, p) gs -> lookup n gs = p.
Proof.
  induction gs as [|[m q] gs IH]; intros Hnd n p Hin; [contradiction|]. simpl in *. inversion Hnd; subst.
  destruct Hin as [Hin|Hin].
  - inversion Hin; subst. assert (neqb n n = true) as -> by (apply neqb_eq; reflexivity). reflexivity.
  - assert (neqb n m = false) as ->; [|apply IH; auto].
    destruct (neqb n m) eqn:E; auto. apply neqb_eq in E. subst m. exfalso. apply H1. apply in_map_iff. exists (n, p). auto.
Qed.
Lemma Forall2_firstn {A B} (R : A -> B -> Prop) k : forall l1 l2, Forall2 R l1 l2 -> Forall2 R (firstn k l1) (firstn k l2).
Proof. induction k; intros l1 l2 H; simpl; [constructor|]. destruct H; constructor; auto. Qed.

Theorem synched_never_misattributes order gs k ys :
  NoDup (map fst gs) ->
  pull_n k (synched name neqb P empty order gs) = Done ys ->
  Forall2 (slot_ok gs) (firstn (length ys) order) ys.
Proof.
  intros Hnd Hp. pose proof (sync_slots order gs gs order [] (lookup_in_nodup gs Hnd)) as H.
  unfold synched in Hp. destruct (sync order order [] gs) as [Y e] eqn:Et. simpl in H.
  unfold pull_n, pull_all in Hp. simpl in Hp. destruct (k <=? length Y)%nat eqn:E.
  - inversion Hp; subst. apply Nat.leb_le in E. rewrite firstn_length, Nat.min_l by exact E.
    apply (Forall2_firstn _ k) in H. rewrite firstn_firstn, Nat.min_l in H by exact E. exact H.
  - destruct e; inversion Hp; subst. exact H.
Qed.
End Slots.

(* ---------- a table held in memory is the one-chunk stream of itself ---------- *)
Theorem table_is_one_chunk_stream (order : list bname) (chunks : list (list (bname * Z))) :
  Forall (fun c => c <> []) chunks -> contiguous bname (bkeys (concat chunks)) ->
  grouped bname zlist_eqb (table_chunks chunks) = grouped bname zlist_eqb chunks
  /\ multistream_table_trace order chunks = multistream_trace order chunks.
Proof.
  intros Hne Hc.
  assert (G : grouped bname zlist_eqb (table_chunks chunks) = grouped bname zlist_eqb chunks).
  { rewrite (grouped_chunk_invariant bname zlist_eqb zlist_eqb_eq chunks Hne Hc).
    unfold table_chunks, grouped. simpl. rewrite app_nil_r.
    rewrite (group_chunk_runs bname zlist_eqb zlist_eqb_eq) by exact Hc. apply (join_runs bname zlist_eqb zlist_eqb_eq). }
  split; [exact G|]. unfold multistream_table_trace, multistream_trace. rewrite G. reflexivity.
Qed.

(* Proofs/C02_misc.v — header skipping, the missing-value wrapper, coordinate conventions, and the refutations
   (with concrete witnesses) of the full statements that the code at /repo HEAD does not satisfy. *)
From Coq Require Import ZArith List Bool Lia Arith.
From BNP Require Import Base.Prims Base.PrimsFacts Base.C02Lib Model.C02 Proofs.C02_int.
Import ListNotations.
Open Scope Z_scope.

(* ---------- T3: the leading comment block never reaches the parser ---------- *)
Lemma skip_comment_line c l rest : ~ In 10 l -> skip_hdr c true (l ++ 10 :: rest) = skip_hdr c false rest.
Proof.
  induction l as [|x l IH]; intros H.
  - reflexivity.
  - simpl. destruct (Z.eqb_spec x 10) as [E|N]; [exfalso; apply H; left; exact E|].
    simpl. apply IH. intro Hin. apply H. right. exact Hin.
Qed.
Theorem skip_header_correct : forall (c : Z) (crlf : bool) (hs : list (list Z)) (body : list Z),
  c <> 0 ->
  (forall h, In h hs -> hd0 h = c /\ ~ In 10 h) ->
  hd0 body <> c ->
  skip_header c (lay (eol_of crlf) hs ++ body) = body.
Proof.
  intros c crlf hs body Hc Hh Hb. unfold skip_header. destruct (Z.eqb_spec c 0); [congruence|].
  induction hs as [|h hs IH].
  - simpl. destruct body as [|x r]; [reflexivity|]. simpl in Hb. simpl.
    destruct (Z.eqb_spec x c); [congruence|reflexivity].
  - destruct (Hh h (or_introl eq_refl)) as [H0 H10].
    destruct h as [|x h]; [simpl in H0; congruence|]. simpl in H0. subst x.
    unfold lay. simpl. rewrite Z.eqb_refl.
    assert (E : ((h ++ eol_of crlf) ++ concat (map (fun l => l ++ eol_of crlf) hs)) ++ body
                = (h ++ (if crlf then [13] else [])) ++ 10 :: (lay (eol_of crlf) hs ++ body)).
    { unfold lay. destruct crlf; simpl; rewrite <- !app_assoc; reflexivity. }
    rewrite E.
    rewrite skip_comment_line.
    + apply IH. intros g Hg. apply Hh. right. exact Hg.
    + intro Hin. apply in_app_or in Hin. destruct Hin as [Hin|Hin].
      * apply H10. right. exact Hin.
      * destruct crlf; simpl in Hin; [destruct Hin as [E'|[]]; discriminate|contradiction].
Qed.

(* ---------- Optional[int]: what holds of the code as it is, what does not, and the repaired wrapper ---------- *)
Lemma numeral_not_dot t : numeral t = true -> zlist_eqb t [46] = false /\ (0 <? len t) = true.
Proof.
  intros H. destruct t as [|c r]; [discriminate|]. split.
  - destruct (zlist_eqb (c :: r) [46]) eqn:E; [|reflexivity].
    unfold zlist_eqb in E. simpl in E. apply andb_true_iff in E. destruct E as [E1 E2].
    apply Z.eqb_eq in E1. subst c. destruct r; [|discriminate]. discriminate.
  - rewrite len_cons. pose proof (len_nonneg r). destruct (Z.ltb_spec 0 (1 + len r)); [reflexivity|lia].
Qed.
Theorem optint_partial : forall txts,
  (forall t, In t txts -> numeral t = true) ->
  parse_with_missing 0 str_to_int_auto txts = mapM int_of_text txts.
Proof.
  intros txts H. unfold parse_with_missing.
  destruct txts as [|t0 txts]; [reflexivity|].
  destruct (numeral_not_dot t0 (H t0 (or_introl eq_refl))) as [Hd _].
  replace (forallb (fun t => zlist_eqb t [46]) (t0 :: txts)) with false by (simpl; rewrite Hd; reflexivity).
  rewrite andb_false_r. apply mapM_ext_in. intros t Ht.
  destruct (numeral_not_dot t (H t Ht)) as [_ Hl]. rewrite Hl. apply auto_correct. apply H. exact Ht.
Qed.
Theorem optint_all_missing : forall txts,
  (forall t, In t txts -> t = [46]) -> parse_with_missing 0 str_to_int_auto txts = Some (map (fun _ => 0) txts).
Proof.
  intros txts H. unfold parse_with_missing.
  replace (forallb (fun t => len t =? 1) txts) with true.
  - replace (forallb (fun t => zlist_eqb t [46]) txts) with true; [reflexivity|].
    symmetry. apply forallb_forall. intros t Ht. rewrite (H t Ht). reflexivity.
  - symmetry. apply forallb_forall. intros t Ht. rewrite (H t Ht). reflexivity.
Qed.
(* the value the format assigns to a score / scalar Integer text: "." is missing (0), otherwise the numeral *)
Definition optint_value (t : list Z) : option Z := if zlist_eqb t [46] then Some 0 else int_of_text t.
Theorem optint_refuted : exists txts,
  (forall t, In t txts -> t = [46] \/ numeral t = true)
  /\ parse_with_missing 0 str_to_int_auto txts <> mapM optint_value txts.
Proof.
  exists [[46]; [53]]. split.
  - intros t [E|[E|[]]]; subst; [left; reflexivity|right; reflexivity].
  - vm_compute. discriminate.
Qed.
Theorem optint_fixed_correct : forall txts,
  (forall t, In t txts -> t = [46] \/ numeral t = true) ->
  parse_with_missing_fixed 0 str_to_int_auto txts = mapM optint_value txts.
Proof.
  intros txts H. unfold parse_with_missing_fixed. apply mapM_ext_in. intros t Ht. unfold optint_value.
  destruct (H t Ht) as [E|Hn].
  - subst t. reflexivity.
  - destruct (numeral_not_dot t Hn) as [Hd Hl]. rewrite Hd.
    replace (len t =? 0) with false by (destruct (Z.eqb_spec (len t) 0); [apply Z.ltb_lt in Hl; lia|reflexivity]).
    simpl. apply auto_correct. exact Hn.
Qed.

(* ---------- list columns ---------- *)
(* BED12 blockSizes of two records, written with the trailing comma the format allows: "10,20," and "10," *)
Theorem intlist_refuted : exists fields : list (list Z),
  mapM (fun f => mapM int_of_text (list_items f)) fields = Some [[10; 20]; [10]]
  /\ parse_split str_to_int_auto (map (fun f => f ++ [9]) fields) = Some [[10; 20; 10]; []].
Proof. exists [[49; 48; 44; 50; 48; 44]; [49; 48; 44]]. split; vm_compute; reflexivity. Qed.
Theorem intlist_fixed_witness :
  parse_split_fixed str_to_int_auto (map (fun f => f ++ [9]) [[49; 48; 44; 50; 48; 44]; [49; 48; 44]]) = Some [[10; 20]; [10]].
Proof. vm_compute. reflexivity. Qed.

(* ---------- identifier columns and short INFO columns ---------- *)
(* before /repo 58b75b9 a column of only-empty identifiers raised (history; the model of that code is sid_col_pinned) *)
Theorem sid_all_empty_refuted : exists txts, txts <> [] /\ sid_col_pinned txts <> Col (map CBytes txts).
Proof. exists [[]]. split; [discriminate|]. vm_compute. discriminate. Qed.
(* since the repair: an identifier column is its texts, whatever they are *)
Theorem sid_correct : forall txts, sid_col txts = Col (map CBytes txts).
Proof. reflexivity. Qed.
(* a one-record VCF whose INFO is "." and a declared scalar key AC *)
Theorem info_short_refuted :
  let rows := [[46; 10]] in
  all_ignored (concat rows) [65; 67] (item_table 0 rows) = true   (* the pinned has_field_mask then raised IndexError *)
  /\ spec_info_cell ([65; 67], IInteger, false) [46] = Some (CInt 0).
Proof. split; vm_compute; reflexivity. Qed.

(* ---------- T4: coordinate conventions ---------- *)
Theorem position_shift_only_vcf : forall f j,
  In (j, TIntM1) (schema f) -> j = 1 /\ (f = Fvcf \/ f = Fvcfgt \/ f = Fvcfph \/ f = Fvcfhap \/ f = Fvcf2).
Proof.
  intros f j H. destruct f; simpl in H;
    repeat match goal with
           | H : _ \/ _ |- _ => destruct H
           | H : False |- _ => contradiction
           | H : (_, _) = (_, _) |- _ => inversion H; clear H
           end; subst; (split; [reflexivity|tauto]).
Qed.
Theorem vcf_position_shift : forall t j,
  typed_col t j TIntM1 = match typed_col t j TInt with
                         | Col c => Col (map (fun x => match x with CInt v => CInt (v - 1) | y => y end) c)
                         | ColErr => ColErr end.
Proof.
  intros. unfold typed_col, opt_col. destruct (parse_int_col (t_data t) (bounds t j)); [|reflexivity].
  rewrite map_map. reflexivity.
Qed.

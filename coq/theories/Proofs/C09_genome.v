(* Proofs/C09_genome.v — genome-level statements: local records -> global coordinates -> per-chromosome arrays. *)
From Coq Require Import ZArith List Bool Lia Arith.
From BNP Require Import Base.Prims Base.PrimsFacts Model.C09 Proofs.C09 Proofs.C09_depth.
Import ListNotations.
Open Scope Z_scope.

(* ---------- offsets ---------- *)
Definition off (sizes : list Z) (c : Z) : Z := nthZ (offsets sizes) c.

Lemma all_pos_nth : forall sizes (c : nat), all_pos sizes = true -> (c < length sizes)%nat -> 0 < nth c sizes 0.
Proof.
  induction sizes as [|x l IH]; intros c H Hc; [simpl in Hc; lia|].
  cbn [all_pos] in H. apply andb_prop in H. destruct H as [Hx Hl]. apply Z.ltb_lt in Hx.
  destruct c; [exact Hx|]. cbn [nth]. apply IH; [exact Hl|simpl in Hc; lia].
Qed.
Lemma sumZ_firstn_S : forall (l : list Z) (c : nat), (c < length l)%nat ->
  sumZ (firstn (S c) l) = sumZ (firstn c l) + nth c l 0.
Proof.
  induction l as [|x l IH]; intros c Hc; [simpl in Hc; lia|].
  destruct c as [|c]; [cbn [firstn nth]; rewrite !sumZ_cons, !sumZ_nil; lia|].
  change (firstn (S (S c)) (x :: l)) with (x :: firstn (S c) l). change (firstn (S c) (x :: l)) with (x :: firstn c l).
  rewrite !sumZ_cons. cbn [nth]. rewrite IH by (simpl in Hc; lia). lia.
Qed.
Lemma off_sum sizes c : 0 <= c <= len sizes -> off sizes c = sumZ (firstn (Z.to_nat c) sizes).
Proof.
  intros H. unfold off, nthZ, offsets, insert0, cumsum. rewrite nth_cumsum by (unfold len in H; lia). lia.
Qed.
Lemma off_0 sizes : off sizes 0 = 0.
Proof. rewrite off_sum by (pose proof (len_nonneg sizes); lia). reflexivity. Qed.
Lemma off_succ sizes c : 0 <= c < len sizes -> off sizes (c + 1) = off sizes c + nthZ sizes c.
Proof.
  intros H. rewrite !off_sum by lia. replace (Z.to_nat (c + 1)) with (S (Z.to_nat c)) by lia.
  rewrite sumZ_firstn_S by (unfold len in H; lia). reflexivity.
Qed.
Lemma off_total sizes : off sizes (len sizes) = total_size sizes.
Proof.
  rewrite off_sum by (pose proof (len_nonneg sizes); lia). unfold len, total_size. rewrite Nat2Z.id, firstn_all. reflexivity.
Qed.
Lemma off_mono sizes : all_pos sizes = true -> forall (d : nat) c, 0 <= c -> c + Z.of_nat d <= len sizes ->
  off sizes c <= off sizes (c + Z.of_nat d).
Proof.
  intros Hp. induction d as [|d IH]; intros c Hc Hd; [replace (c + Z.of_nat 0) with c by lia; lia|].
  replace (c + Z.of_nat (S d)) with ((c + Z.of_nat d) + 1) by lia. rewrite off_succ by lia.
  specialize (IH c Hc ltac:(lia)).
  pose proof (all_pos_nth sizes (Z.to_nat (c + Z.of_nat d)) Hp ltac:(unfold len in Hd; lia)). unfold nthZ. lia.
Qed.
Lemma off_le sizes c c' : all_pos sizes = true -> 0 <= c <= c' -> c' <= len sizes -> off sizes c <= off sizes c'.
Proof.
  intros Hp H1 H2. replace c' with (c + Z.of_nat (Z.to_nat (c' - c))) by lia. apply off_mono; [exact Hp|lia|lia].
Qed.
Lemma size_pos sizes c : all_pos sizes = true -> 0 <= c < len sizes -> 0 < nthZ sizes c.
Proof. intros Hp H. unfold nthZ. apply all_pos_nth; [exact Hp|unfold len in H; lia]. Qed.
(* the next chromosome starts where this one ends; everything is inside [0, total] *)
Lemma off_next_le sizes c c' : all_pos sizes = true -> 0 <= c < c' -> c' <= len sizes ->
  off sizes c + nthZ sizes c <= off sizes c'.
Proof. intros Hp H1 H2. rewrite <- off_succ by lia. apply off_le; [exact Hp|lia|lia]. Qed.
Lemma off_end_le_total sizes c : all_pos sizes = true -> 0 <= c < len sizes -> off sizes c + nthZ sizes c <= total_size sizes.
Proof. intros Hp H. rewrite <- off_total. apply off_next_le; [exact Hp|lia|lia]. Qed.
Lemma off_nonneg sizes c : all_pos sizes = true -> 0 <= c <= len sizes -> 0 <= off sizes c.
Proof. intros Hp H. rewrite <- (off_0 sizes). apply off_le; [exact Hp|lia|lia]. Qed.

(* ---------- local -> global records ---------- *)
Definition glob (sizes : list Z) (recs : list (Z * Z * Z * (Z * Z))) : list (Z * Z * (Z * Z)) :=
  map (fun '(c, s, e, v) => (m_go_shift s (off sizes c), m_go_shift e (off sizes c), v)) recs.
Definition rec_in (sizes : list Z) (r : Z * Z * Z * (Z * Z)) : Prop :=
  let '(c, s, e, _) := r in 0 <= c < len sizes /\ 0 <= s /\ e <= nthZ sizes c.

(* a global base of chromosome c is covered by the shifted record iff the record is on c and covers the local base *)
Lemma covers_global sizes c p r : all_pos sizes = true -> rec_in sizes r -> 0 <= c < len sizes -> 0 <= p < nthZ sizes c ->
  covers (off sizes c + p) (let '(c', s, e, v) := r in (m_go_shift s (off sizes c'), m_go_shift e (off sizes c'), v))
  = (let '(c', _, _, _) := r in c' =? c) && covers p (let '(_, s, e, v) := r in (s, e, v)).
Proof.
  intros Hp Hr Hc Hpp. destruct r as [[[c' s] e] v]. destruct Hr as (Hc' & Hs & He). unfold covers, m_go_shift.
  destruct (Z.eqb_spec c' c) as [E|E].
  - subst c'. cbn [andb]. f_equal; [destruct (Z.leb_spec s p), (Z.leb_spec (s + off sizes c) (off sizes c + p)); try reflexivity; lia|].
    destruct (Z.ltb_spec p e), (Z.ltb_spec (off sizes c + p) (e + off sizes c)); try reflexivity; lia.
  - cbn [andb]. apply andb_false_iff. destruct (Z_lt_ge_dec c' c) as [L|L].
    + right. apply Z.ltb_ge. pose proof (off_next_le sizes c' c Hp ltac:(lia) ltac:(lia)). lia.
    + left. apply Z.leb_gt. pose proof (off_next_le sizes c c' Hp ltac:(lia) ltac:(lia)). lia.
Qed.

Section Pointwise.
  Variable sizes : list Z.
  Variable c p : Z.
  Hypothesis Hp : all_pos sizes = true.
  Hypothesis Hc : 0 <= c < len sizes.
  Hypothesis Hpp : 0 <= p < nthZ sizes c.

  Lemma cover_at_global fill : forall recs, (forall r, In r recs -> rec_in sizes r) ->
    cover_at fill (glob sizes recs) (off sizes c + p) = cover_at fill (on_chrom c recs) p.
  Proof.
    induction recs as [|r recs IH]; intros Hin; [reflexivity|].
    assert (Hr : rec_in sizes r) by (apply Hin; left; reflexivity).
    assert (IH' := IH (fun r0 H0 => Hin r0 (or_intror H0))). clear IH.
    pose proof (covers_global sizes c p r Hp Hr Hc Hpp) as Hcov.
    destruct r as [[[c' s] e] v]. unfold glob, on_chrom in *. cbn [map filter]. unfold cover_at in *. cbn [find].
    rewrite Hcov. destruct (Z.eqb_spec c' c) as [E|E]; cbn [andb].
    - cbn [map find]. destruct (covers p (s, e, v)); [reflexivity|exact IH'].
    - exact IH'.
  Qed.
  Lemma any_at_global : forall recs, (forall r, In r recs -> rec_in sizes r) ->
    any_at (glob sizes recs) (off sizes c + p) = any_at (on_chrom c recs) p.
  Proof.
    induction recs as [|r recs IH]; intros Hin; [reflexivity|].
    assert (Hr : rec_in sizes r) by (apply Hin; left; reflexivity).
    assert (IH' := IH (fun r0 H0 => Hin r0 (or_intror H0))). clear IH.
    pose proof (covers_global sizes c p r Hp Hr Hc Hpp) as Hcov.
    destruct r as [[[c' s] e] v]. unfold glob, on_chrom, any_at in *. cbn [map filter existsb].
    rewrite Hcov. destruct (Z.eqb_spec c' c) as [E|E]; cbn [andb].
    - cbn [map existsb]. destruct (covers p (s, e, v)); [reflexivity|exact IH'].
    - exact IH'.
  Qed.
  Lemma count_at_global : forall recs, (forall r, In r recs -> rec_in sizes r) ->
    count_at (glob sizes recs) (off sizes c + p) = count_at (on_chrom c recs) p.
  Proof.
    induction recs as [|r recs IH]; intros Hin; [reflexivity|].
    assert (Hr : rec_in sizes r) by (apply Hin; left; reflexivity).
    assert (IH' := IH (fun r0 H0 => Hin r0 (or_intror H0))). clear IH.
    pose proof (covers_global sizes c p r Hp Hr Hc Hpp) as Hcov.
    destruct r as [[[c' s] e] v]. unfold glob, on_chrom, count_at in *. cbn [map filter].
    rewrite Hcov. injection IH' as IH'. destruct (Z.eqb_spec c' c) as [E|E]; cbn [andb].
    - cbn [map filter]. destruct (covers p (s, e, v)); [|rewrite IH'; reflexivity].
      cbn [map]. rewrite !sumZ_cons, IH'. reflexivity.
    - rewrite IH'. reflexivity.
  Qed.
End Pointwise.

(* ---------- records in genome order: chromosome index non-decreasing, inside a chromosome sorted and
   non-overlapping (touching allowed), every record non-empty and inside its chromosome ---------- *)
Fixpoint grecs_valid (sizes : list Z) (c_lo lo : Z) (recs : list (Z * Z * Z * (Z * Z))) : bool :=
  match recs with
  | [] => true
  | (c, s, e, _) :: r =>
      (c_lo <=? c) && (c <? len sizes) && ((if c =? c_lo then lo else 0) <=? s) && (s <? e) && (e <=? nthZ sizes c)
      && grecs_valid sizes c e r
  end.
Lemma grecs_valid_cons sizes c_lo lo c s e v r : grecs_valid sizes c_lo lo ((c, s, e, v) :: r) = true ->
  c_lo <= c /\ c < len sizes /\ (if c =? c_lo then lo else 0) <= s /\ s < e /\ e <= nthZ sizes c /\ grecs_valid sizes c e r = true.
Proof.
  cbn [grecs_valid]. intros H.
  apply andb_prop in H. destruct H as [H H6]. apply andb_prop in H. destruct H as [H H5].
  apply andb_prop in H. destruct H as [H H4]. apply andb_prop in H. destruct H as [H H3].
  apply andb_prop in H. destruct H as [H1 H2].
  apply Z.leb_le in H1. apply Z.ltb_lt in H2. apply Z.leb_le in H3. apply Z.ltb_lt in H4. apply Z.leb_le in H5.
  repeat split; assumption.
Qed.
Lemma grecs_valid_in sizes : forall recs c_lo lo, 0 <= c_lo -> 0 <= lo -> grecs_valid sizes c_lo lo recs = true ->
  forall r, In r recs -> rec_in sizes r.
Proof.
  induction recs as [|[[[c s] e] v] recs IH]; intros c_lo lo Hc Hl H r Hin; [destruct Hin|].
  apply grecs_valid_cons in H. destruct H as (H1 & H2 & H3 & H4 & H5 & H6).
  assert (0 <= s) by (destruct (c =? c_lo); lia).
  destruct Hin as [<-|Hin]; [unfold rec_in; lia|]. apply (IH c e); try assumption; lia.
Qed.
Lemma to_global_valid sizes : forall recs c_lo lo, 0 <= c_lo -> 0 <= lo -> grecs_valid sizes c_lo lo recs = true ->
  to_global sizes recs = Some (glob sizes recs).
Proof.
  intros recs c_lo lo Hc Hl H. unfold to_global.
  replace (all_true _) with true; [reflexivity|]. symmetry.
  revert c_lo lo Hc Hl H. induction recs as [|[[[c s] e] v] recs IH]; intros c_lo lo Hc Hl H; [reflexivity|].
  apply grecs_valid_cons in H. destruct H as (H1 & H2 & H3 & H4 & H5 & H6).
  assert (0 <= s) by (destruct (c =? c_lo); lia).
  cbn [map all_true]. rewrite (IH c e) by (try assumption; lia). rewrite andb_true_r.
  unfold m_go_start_bad, m_go_start_negative, m_go_stop_ok.
  repeat (apply andb_true_intro; split); try apply Z.leb_le; try apply Z.ltb_lt; try lia.
Qed.
Lemma glob_sorted sizes : all_pos sizes = true -> forall recs c_lo lo,
  0 <= c_lo -> 0 <= lo -> (c_lo < len sizes -> lo <= nthZ sizes c_lo) -> grecs_valid sizes c_lo lo recs = true ->
  sorted_disjoint (off sizes c_lo + lo) (glob sizes recs) = true /\ all_le (total_size sizes) (glob sizes recs) = true.
Proof.
  intros Hp. induction recs as [|[[[c s] e] v] recs IH]; intros c_lo lo Hc Hl Hb H; [split; reflexivity|].
  apply grecs_valid_cons in H. destruct H as (H1 & H2 & H3 & H4 & H5 & H6).
  destruct (IH c e ltac:(lia) ltac:(destruct (c =? c_lo); lia) ltac:(intros _; exact H5) H6) as [I1 I2].
  unfold glob, m_go_shift in *. cbn [map sorted_disjoint all_le].
  replace (e + off sizes c) with (off sizes c + e) by lia. rewrite I1, I2, !andb_true_r. split.
  - apply andb_true_intro. split; [apply Z.leb_le|apply Z.ltb_lt; lia].
    destruct (Z.eqb_spec c c_lo) as [E|E]; [subst; lia|].
    pose proof (off_next_le sizes c_lo c Hp ltac:(lia) ltac:(lia)). specialize (Hb ltac:(lia)). lia.
  - apply Z.leb_le. pose proof (off_end_le_total sizes c Hp ltac:(lia)). lia.
Qed.

(* ---------- to_dict, entry by entry ---------- *)
Lemma In_combine_arange : forall (l : list Z) a c n, In (c, n) (combine (arange_from a (length l)) l) ->
  a <= c < a + len l /\ n = nth (Z.to_nat (c - a)) l 0.
Proof.
  induction l as [|x l IH]; intros a c n H; [destruct H|].
  cbn [length arange_from combine] in H. rewrite len_cons. destruct H as [H|H].
  - injection H as <- <-. replace (Z.to_nat (a - a)) with O by lia. pose proof (len_nonneg l). split; [lia|reflexivity].
  - apply IH in H. destruct H as [H1 H2]. split; [lia|]. replace (Z.to_nat (c - a)) with (S (Z.to_nat (c - (a + 1)))) by lia.
    exact H2.
Qed.
Lemma slice_tabulate {A} (f : Z -> A) a n total : 0 <= a -> 0 <= n -> a + n <= total ->
  slice a (a + n) (tabulate f 0 total) = tabulate (fun p => f (a + p)) 0 n.
Proof.
  intros Ha Hn Ht.
  replace total with (total - 0) by lia. rewrite (tabulate_split3 f 0 a (a + n) total) by lia.
  rewrite slice_app_r by (rewrite tabulate_length; lia). rewrite tabulate_length.
  replace (a - Z.max 0 (a - 0)) with 0 by lia. replace (a + n - Z.max 0 (a - 0)) with n by lia.
  rewrite slice_app_l by (rewrite ?tabulate_length; lia). rewrite slice_full by (rewrite tabulate_length; lia).
  replace (a + n - a) with n by lia. replace a with (0 + a) at 1 by lia. rewrite tabulate_shift.
  apply tabulate_ext. intros p Hp. f_equal. lia.
Qed.
Theorem to_dict_pointwise : forall sizes r (f : Z -> Z * Z),
  wf_rle r = true -> all_pos sizes = true -> rle_len r = total_size sizes -> expand r = tabulate f 0 (total_size sizes) ->
  model_to_dict sizes r = per_chrom (fun c n => tabulate (fun p => f (off sizes c + p)) 0 n) sizes.
Proof.
  intros sizes r f W Hp Hl He. unfold model_to_dict, chrom_slices, per_chrom, arange, m_slice_lo, m_slice_hi.
  replace (Z.to_nat (len sizes)) with (length sizes) by (unfold len; lia).
  rewrite map_map. apply map_ext_in. intros [c n] Hin. apply In_combine_arange in Hin. destruct Hin as [Hc Hn].
  replace (c - 0) with c in Hn by lia. fold (nthZ sizes c) in Hn. fold (off sizes c).
  pose proof (size_pos sizes c Hp ltac:(lia)). pose proof (off_nonneg sizes c Hp ltac:(lia)).
  pose proof (off_end_le_total sizes c Hp ltac:(lia)). subst n.
  destruct (to_dict_entry (off sizes c) (off sizes c + nthZ sizes c) r W ltac:(lia) ltac:(lia) ltac:(lia)) as [E _].
  rewrite E, He. apply slice_tabulate; lia.
Qed.

(* ---------- A: Genome.get_track(bedGraph).to_dict() = the dense arrays the local records describe ---------- *)
Theorem track_genome : forall ak k sizes recs,
  all_pos sizes = true -> recs <> [] -> grecs_valid sizes 0 0 recs = true ->
  exists g r k', to_global sizes recs = Some g
    /\ from_bedgraph_gen ak k g (total_size sizes) = Some (k', r)
    /\ wf_rle r = true /\ rle_len r = total_size sizes
    /\ model_to_dict sizes r = spec_track vzero sizes recs.
Proof.
  intros ak k sizes recs Hp Hne Hv.
  pose proof (to_global_valid sizes recs 0 0 ltac:(lia) ltac:(lia) Hv) as Hg.
  assert (Hb : 0 < len sizes -> 0 <= nthZ sizes 0) by (intros H; pose proof (size_pos sizes 0 Hp ltac:(lia)); lia).
  destruct (glob_sorted sizes Hp recs 0 0 ltac:(lia) ltac:(lia) Hb Hv) as [Hs Ha].
  rewrite off_0 in Hs. replace (0 + 0) with 0 in Hs by lia.
  assert (Hgne : glob sizes recs <> []) by (destruct recs; [congruence|discriminate]).
  destruct (from_bedgraph_dense ak k (glob sizes recs) (total_size sizes) Hgne Hs Ha) as (r & E & W & L & X).
  exists (glob sizes recs), r. eexists. split; [exact Hg|]. split; [exact E|]. split; [exact W|]. split; [exact L|].
  rewrite (to_dict_pointwise sizes r (cover_at vzero (glob sizes recs)) W Hp L X).
  unfold spec_track, per_chrom, dense_of, arange. apply map_ext_in. intros [c n] Hin.
  replace (Z.to_nat (len sizes)) with (length sizes) in Hin by (unfold len; lia).
  apply In_combine_arange in Hin. destruct Hin as [Hc Hn]. replace (c - 0) with c in Hn by lia. fold (nthZ sizes c) in Hn. subst n.
  apply tabulate_ext. intros p Hpp. apply cover_at_global; try assumption; try lia.
  apply (grecs_valid_in sizes recs 0 0); [lia|lia|exact Hv].
Qed.
Theorem track_genome_empty : forall ak k sizes, all_pos sizes = true -> sizes <> [] ->
  exists r, to_global sizes [] = Some [] /\ from_bedgraph_gen ak k [] (total_size sizes) = Some (KI, r)
    /\ model_to_dict sizes r = spec_track vzero sizes [].
Proof.
  intros ak k sizes Hp Hne.
  assert (Ht : 0 < total_size sizes).
  { destruct sizes as [|x l]; [congruence|]. pose proof (off_end_le_total (x :: l) 0 Hp ltac:(rewrite len_cons; pose proof (len_nonneg l); lia)).
    pose proof (size_pos (x :: l) 0 Hp ltac:(rewrite len_cons; pose proof (len_nonneg l); lia)). rewrite off_0 in H. lia. }
  destruct (from_bedgraph_empty ak k (total_size sizes) Ht) as (r & E & W & L & X).
  exists r. split; [reflexivity|]. split; [exact E|].
  rewrite (to_dict_pointwise sizes r (cover_at vzero []) W Hp L X). reflexivity.
Qed.

(* masks and pileups: whatever array expands to the flat any_at / count_at array, its to_dict is the per-chromosome one *)
Theorem mask_genome : forall sizes recs r,
  all_pos sizes = true -> (forall x, In x recs -> rec_in sizes x) ->
  wf_rle r = true -> rle_len r = total_size sizes -> expand r = tabulate (any_at (glob sizes recs)) 0 (total_size sizes) ->
  model_to_dict sizes r = spec_mask sizes recs.
Proof.
  intros sizes recs r Hp Hin W L X. rewrite (to_dict_pointwise sizes r _ W Hp L X).
  unfold spec_mask, per_chrom, arange. apply map_ext_in. intros [c n] H.
  replace (Z.to_nat (len sizes)) with (length sizes) in H by (unfold len; lia).
  apply In_combine_arange in H. destruct H as [Hc Hn]. replace (c - 0) with c in Hn by lia. fold (nthZ sizes c) in Hn. subst n.
  apply tabulate_ext. intros p Hpp. apply any_at_global; try assumption; lia.
Qed.
Theorem pileup_genome : forall sizes recs r,
  all_pos sizes = true -> (forall x, In x recs -> rec_in sizes x) ->
  wf_rle r = true -> rle_len r = total_size sizes -> expand r = tabulate (count_at (glob sizes recs)) 0 (total_size sizes) ->
  model_to_dict sizes r = spec_pileup sizes recs.
Proof.
  intros sizes recs r Hp Hin W L X. rewrite (to_dict_pointwise sizes r _ W Hp L X).
  unfold spec_pileup, per_chrom, arange. apply map_ext_in. intros [c n] H.
  replace (Z.to_nat (len sizes)) with (length sizes) in H by (unfold len; lia).
  apply In_combine_arange in H. destruct H as [Hc Hn]. replace (c - 0) with c in Hn by lia. fold (nthZ sizes c) in Hn. subst n.
  apply tabulate_ext. intros p Hpp. apply count_at_global; try assumption; lia.
Qed.

(* ---------- get_mask end to end: intervals in any order on any chromosomes ---------- *)
Definition iv_in (sizes : list Z) (r : Z * Z * Z * (Z * Z)) : Prop :=
  let '(c, s, e, _) := r in 0 <= c < len sizes /\ 0 <= s < nthZ sizes c /\ e <= nthZ sizes c.
Lemma iv_in_rec_in sizes r : iv_in sizes r -> rec_in sizes r.
Proof. destruct r as [[[c s] e] v]. unfold iv_in, rec_in. lia. Qed.
Lemma to_global_in sizes : forall recs, (forall r, In r recs -> iv_in sizes r) -> to_global sizes recs = Some (glob sizes recs).
Proof.
  intros recs H. unfold to_global. replace (all_true _) with true; [reflexivity|]. symmetry.
  induction recs as [|[[[c s] e] v] recs IH]; [reflexivity|]. cbn [map all_true].
  rewrite IH by (intros x Hx; apply H; right; exact Hx). rewrite andb_true_r.
  pose proof (H _ (or_introl eq_refl)) as Hr. unfold iv_in in Hr. unfold m_go_start_bad, m_go_start_negative, m_go_stop_ok.
  repeat (apply andb_true_intro; split); try apply Z.leb_le; try apply Z.ltb_lt; try lia.
Qed.
Theorem mask_genome_full : forall sizes recs,
  all_pos sizes = true -> sizes <> [] -> (forall r, In r recs -> iv_in sizes r) ->
  let g := glob sizes recs in
  let m := filter (fun '(s, e) => negb (s =? e)) (merge_sorted (sort_by_start g)) in
  sorted_disjoint 0 (iv_recs vone m) = true -> all_le (total_size sizes) (iv_recs vone m) = true ->
  (forall p, any_at (iv_recs vone m) p = any_at g p) ->
  exists r, to_global sizes recs = Some g /\ boolean_mask g (total_size sizes) = Some (KB, r)
            /\ model_to_dict sizes r = spec_mask sizes recs.
Proof.
  intros sizes recs Hp Hne Hin g m Hs Hle Hcov.
  assert (Ht : 0 < total_size sizes).
  { destruct sizes as [|x l]; [congruence|]. pose proof (off_end_le_total (x :: l) 0 Hp ltac:(rewrite len_cons; pose proof (len_nonneg l); lia)).
    pose proof (size_pos (x :: l) 0 Hp ltac:(rewrite len_cons; pose proof (len_nonneg l); lia)). rewrite off_0 in H. lia. }
  assert (Hen : forall r, In r g -> en r <= total_size sizes).
  { intros r Hr. unfold g, glob in Hr. apply in_map_iff in Hr. destruct Hr as [[[[c s] e] v] [<- Hx]].
    specialize (Hin _ Hx). unfold iv_in in Hin. unfold en, m_go_shift. cbn [fst snd].
    pose proof (off_end_le_total sizes c Hp ltac:(lia)). lia. }
  destruct (mask_flat g (total_size sizes) Ht Hen Hs Hle Hcov) as (r & E & W & L & X).
  exists r. split; [apply to_global_in; exact Hin|]. split; [exact E|].
  apply mask_genome; try assumption. intros x Hx. apply iv_in_rec_in. apply Hin. exact Hx.
Qed.

(* ---------- get_data over the whole genome ---------- *)
Definition block (k : kind) (c : Z) (s : list Z * list (Z * Z)) : list (Z * Z * Z * (Z * Z)) :=
  let recs := runs_records c 0 (runs_of s) in
  match k with KB => filter (fun '(_, _, _, v) => vtruth v) recs | _ => recs end.
Lemma get_data_blocks sizes k r :
  model_get_data sizes k r = concat (map (fun '(c, s) => block k c s) (combine (arange (len sizes)) (chrom_slices sizes r))).
Proof. reflexivity. Qed.
Lemma runs_records_chrom c : forall rs pos x, In x (runs_records c pos rs) -> fst (fst (fst x)) = c.
Proof.
  induction rs as [|[e v] rs IH]; intros pos x H; [destruct H|]. cbn [runs_records] in H.
  destruct H as [<-|H]; [reflexivity|]. apply (IH e). exact H.
Qed.
Lemma block_chrom k c s x : In x (block k c s) -> fst (fst (fst x)) = c.
Proof.
  unfold block. destruct k; intros H; try (apply filter_In in H; destruct H as [H _]); apply (runs_records_chrom c _ 0 x H).
Qed.
Lemma on_chrom_app c a b : on_chrom c (a ++ b) = on_chrom c a ++ on_chrom c b.
Proof. unfold on_chrom. rewrite filter_app, map_app. reflexivity. Qed.
Lemma on_chrom_same c l : (forall x, In x l -> fst (fst (fst x)) = c) -> on_chrom c l = strip l.
Proof.
  intros H. unfold on_chrom, strip. f_equal. induction l as [|[[[c' s] e] v] l IH]; [reflexivity|].
  cbn [filter]. pose proof (H _ (or_introl eq_refl)) as E. cbn [fst] in E. subst c'. rewrite Z.eqb_refl. f_equal.
  apply IH. intros x Hx. apply H. right. exact Hx.
Qed.
Lemma on_chrom_other c c' l : c' <> c -> (forall x, In x l -> fst (fst (fst x)) = c') -> on_chrom c l = [].
Proof.
  intros Hne H. unfold on_chrom. induction l as [|[[[c2 s] e] v] l IH]; [reflexivity|].
  cbn [filter]. pose proof (H _ (or_introl eq_refl)) as E. cbn [fst] in E. subst c2.
  replace (c' =? c) with false by (symmetry; apply Z.eqb_neq; exact Hne). apply IH. intros x Hx. apply H. right. exact Hx.
Qed.
(* the rows of chromosome c0 in the concatenation are exactly its block *)
Lemma on_chrom_blocks k : forall ss a c0, a <= c0 < a + len ss ->
  on_chrom c0 (concat (map (fun '(c, s) => block k c s) (combine (arange_from a (length ss)) ss)))
  = strip (block k c0 (nth (Z.to_nat (c0 - a)) ss ([], []))).
Proof.
  assert (Later : forall ss a c0, c0 < a ->
            on_chrom c0 (concat (map (fun '(c, s) => block k c s) (combine (arange_from a (length ss)) ss))) = []).
  { induction ss as [|s0 ss IH]; intros a c0 H; [reflexivity|]. cbn [length arange_from combine map concat].
    rewrite on_chrom_app, (IH (a + 1) c0) by lia. rewrite app_nil_r.
    apply (on_chrom_other c0 a); [lia|]. intros x Hx. apply (block_chrom k a s0). exact Hx. }
  induction ss as [|s0 ss IH]; intros a c0 H; [rewrite len_nil in H; lia|].
  rewrite len_cons in H. cbn [length arange_from combine map concat]. rewrite on_chrom_app.
  destruct (Z.eq_dec c0 a) as [E|E].
  - subst c0. rewrite Later by lia. rewrite app_nil_r. replace (Z.to_nat (a - a)) with O by lia. cbn [nth].
    apply on_chrom_same. intros x Hx. apply (block_chrom k a s0). exact Hx.
  - rewrite (on_chrom_other c0 a) by (try lia; intros x Hx; apply (block_chrom k a s0); exact Hx). cbn [app].
    rewrite (IH (a + 1) c0) by lia. replace (Z.to_nat (c0 - a)) with (S (Z.to_nat (c0 - (a + 1)))) by lia. reflexivity.
Qed.
(* chromosome indices of the concatenation: non-decreasing, inside the genome *)
Fixpoint chroms_from (lo : Z) (recs : list (Z * Z * Z * (Z * Z))) : bool :=
  match recs with [] => true | (c, _, _, _) :: r => (lo <=? c) && chroms_from c r end.
Lemma chroms_from_sorted lo recs : chroms_from lo recs = true -> chroms_sorted recs = true.
Proof.
  revert lo. induction recs as [|[[[c s] e] v] r IH]; intros lo H; [reflexivity|].
  cbn [chroms_from] in H. apply andb_prop in H. destruct H as [_ H]. destruct r as [|[[[c2 s2] e2] v2] r']; [reflexivity|].
  cbn [chroms_sorted]. pose proof H as H'. cbn [chroms_from] in H'. apply andb_prop in H'. destruct H' as [H1 _].
  rewrite H1. apply (IH c). exact H.
Qed.
Lemma chroms_from_app lo a b c : (forall x, In x a -> fst (fst (fst x)) = c) -> lo <= c -> chroms_from c b = true ->
  chroms_from lo (a ++ b) = true.
Proof.
  intros Ha Hl Hb. revert lo Hl. induction a as [|[[[c' s] e] v] a IH]; intros lo Hl.
  - cbn [app]. destruct b as [|[[[c2 s2] e2] v2] b']; [reflexivity|]. cbn [chroms_from] in *.
    apply andb_prop in Hb. destruct Hb as [H1 H2]. apply Z.leb_le in H1. rewrite H2, andb_true_r. apply Z.leb_le. lia.
  - pose proof (Ha _ (or_introl eq_refl)) as E. cbn [fst] in E. subst c'. cbn [app chroms_from].
    rewrite (IH (fun x Hx => Ha x (or_intror Hx)) c) by lia. rewrite andb_true_r. apply Z.leb_le. exact Hl.
Qed.
Lemma chroms_from_blocks k : forall ss a,
  chroms_from a (concat (map (fun '(c, s) => block k c s) (combine (arange_from a (length ss)) ss))) = true.
Proof.
  induction ss as [|s0 ss IH]; intros a; [reflexivity|]. cbn [length arange_from combine map concat].
  apply (chroms_from_app a _ _ a); [intros x Hx; apply (block_chrom k a s0); exact Hx|lia|].
  specialize (IH (a + 1)). revert IH. generalize (concat (map (fun '(c, s) => block k c s) (combine (arange_from (a + 1) (length ss)) ss))).
  intros l. destruct l as [|[[[c s] e] v] l]; [reflexivity|]. cbn [chroms_from]. intros H. apply andb_prop in H. destruct H as [H1 H2].
  apply Z.leb_le in H1. rewrite H2, andb_true_r. apply Z.leb_le. lia.
Qed.
Lemma nth_arange_from : forall (n : nat) a (i : nat), (i < n)%nat -> nth i (arange_from a n) 0 = a + Z.of_nat i.
Proof.
  induction n as [|n IH]; intros a i H; [lia|]. destruct i as [|i]; [cbn [arange_from nth]; lia|].
  cbn [arange_from nth]. rewrite IH by lia. lia.
Qed.
Lemma arange_from_length : forall n a, length (arange_from a n) = n.
Proof. induction n as [|n IH]; intros a; [reflexivity|]. cbn [arange_from length]. rewrite IH. reflexivity. Qed.
Lemma nth_chrom_slices sizes r c : 0 <= c < len sizes ->
  nth (Z.to_nat c) (chrom_slices sizes r) ([], []) = slice_rle (off sizes c) (off sizes c + nthZ sizes c) r.
Proof.
  intros Hc. unfold chrom_slices, per_chrom, arange, m_slice_lo, m_slice_hi.
  replace (Z.to_nat (len sizes)) with (length sizes) by (unfold len; lia).
  set (f := fun '(c0, n) => slice_rle (nthZ (offsets sizes) c0) (nthZ (offsets sizes) c0 + n) r).
  assert (Ed : ([], []) = f (len sizes + 1, 0) \/ True) by (right; exact I). clear Ed.
  rewrite (nth_indep _ ([], []) (f (0, 0))) by (rewrite map_length, combine_length, arange_from_length; unfold len in Hc; lia).
  rewrite map_nth. rewrite combine_nth by (apply arange_from_length).
  rewrite nth_arange_from by (unfold len in Hc; lia). unfold f, off, nthZ. rewrite Z2Nat.id by lia. rewrite Z.add_0_l. reflexivity.
Qed.

(* bool-valued run-length arrays *)
Definition bool_valued (r : list Z * list (Z * Z)) : Prop := forall v, In v (snd r) -> v = vzero \/ v = vone.
Lemma In_drop_runs a : forall rs x, In x (drop_runs a rs) -> In x rs.
Proof. induction rs as [|[e v] rs IH]; intros x H; [destruct H|]. cbn [drop_runs] in H. destruct (e <=? a); [right; apply IH; exact H|exact H]. Qed.
Lemma In_take_runs_val b : forall rs e v, In (e, v) (take_runs b rs) -> exists e', In (e', v) rs.
Proof.
  induction rs as [|[e0 v0] rs IH]; intros e v H; [destruct H|]. cbn [take_runs] in H. destruct (e0 <? b).
  - destruct H as [H|H]; [injection H as <- <-; exists e0; left; reflexivity|]. destruct (IH e v H) as [e' He']. exists e'. right. exact He'.
  - destruct H as [H|[]]. injection H as <- <-. exists e0. left. reflexivity.
Qed.
Lemma bool_valued_slice a b r : wf_rle r = true -> bool_valued r -> bool_valued (slice_rle a b r).
Proof.
  intros W Hb v Hv. unfold slice_rle, of_runs, slice_runs in Hv. cbn [snd] in Hv. destruct (a <? b); [|destruct Hv].
  apply in_map_iff in Hv. destruct Hv as [[e v'] [<- Hin]]. cbn [snd]. unfold shift_runs in Hin.
  apply in_map_iff in Hin. destruct Hin as [[e2 v2] [E Hin]]. injection E as _ <-.
  apply In_take_runs_val in Hin. destruct Hin as [e' Hin]. apply In_drop_runs in Hin. apply (Hb v2). apply (In_runs_of e'). exact Hin.
Qed.

Theorem get_data_genome : forall sizes k r,
  wf_rle r = true -> all_pos sizes = true -> rle_len r = total_size sizes -> (k = KB -> bool_valued r) ->
  let recs := model_get_data sizes k r in
  chroms_sorted recs = true
  /\ (forall c, 0 <= c < len sizes ->
        sorted_disjoint 0 (on_chrom c recs) = true /\ all_le (nthZ sizes c) (on_chrom c recs) = true)
  /\ spec_track vzero sizes recs = model_to_dict sizes r.
Proof.
  intros sizes k r W Hp Hl Hb recs. unfold recs. rewrite get_data_blocks.
  assert (Hlen : length (chrom_slices sizes r) = length sizes).
  { unfold chrom_slices, per_chrom, arange. rewrite map_length, combine_length, arange_from_length. unfold len. lia. }
  assert (Earange : arange (len sizes) = arange_from 0 (length (chrom_slices sizes r))).
  { unfold arange. rewrite Hlen. f_equal. unfold len. lia. }
  rewrite Earange.
  (* one chromosome *)
  assert (One : forall c, 0 <= c < len sizes ->
            let s := slice_rle (off sizes c) (off sizes c + nthZ sizes c) r in
            on_chrom c (concat (map (fun '(c0, s0) => block k c0 s0) (combine (arange_from 0 (length (chrom_slices sizes r))) (chrom_slices sizes r))))
            = strip (block k c s)
            /\ sorted_disjoint 0 (strip (block k c s)) = true /\ all_le (nthZ sizes c) (strip (block k c s)) = true
            /\ dense_of vzero (strip (block k c s)) (nthZ sizes c) = to_array s).
  { intros c Hc s.
    pose proof (size_pos sizes c Hp Hc). pose proof (off_nonneg sizes c Hp ltac:(lia)). pose proof (off_end_le_total sizes c Hp Hc).
    destruct (slice_rle_spec (off sizes c) (off sizes c + nthZ sizes c) r W ltac:(lia) ltac:(lia) ltac:(lia)) as (S1 & S2 & S3).
    fold s in S1, S2, S3. replace (off sizes c + nthZ sizes c - off sizes c) with (nthZ sizes c) in S2 by lia.
    split.
    - rewrite (on_chrom_blocks k (chrom_slices sizes r) 0 c) by (unfold len in *; lia).
      replace (c - 0) with c by lia. rewrite nth_chrom_slices by exact Hc. reflexivity.
    - rewrite (to_array_expand s S1). unfold block. destruct k.
      + pose proof (get_data_roundtrip_bool c s S1 (bool_valued_slice _ _ r W (Hb eq_refl))) as X. cbv zeta in X.
        rewrite S2 in X. exact X.
      + pose proof (get_data_roundtrip c s S1) as X. cbv zeta in X. rewrite S2 in X. exact X.
      + pose proof (get_data_roundtrip c s S1) as X. cbv zeta in X. rewrite S2 in X. exact X. }
  split; [|split].
  - apply (chroms_from_sorted 0). apply chroms_from_blocks.
  - intros c Hc. destruct (One c Hc) as (E & S & A & _). rewrite E. split; assumption.
  - unfold spec_track, model_to_dict, per_chrom.
    unfold chrom_slices at 3. unfold per_chrom, m_slice_lo, m_slice_hi. rewrite map_map. apply map_ext_in. intros [c n] Hin.
    unfold arange in Hin. replace (Z.to_nat (len sizes)) with (length sizes) in Hin by (unfold len; lia).
    apply In_combine_arange in Hin. destruct Hin as [Hc Hn]. replace (c - 0) with c in Hn by lia. fold (nthZ sizes c) in Hn. subst n.
    destruct (One c ltac:(lia)) as (E & _ & _ & D). rewrite E. exact D.
Qed.

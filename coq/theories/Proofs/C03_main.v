(* Proofs/C03_main.v — assembly: every from_data call is the canonical serialisation of its table, hence
   (with the writer state machine of Proofs/C03.v) any history of writes produces header-once ++
   serialise (all rows). *)
From Coq Require Import ZArith List Bool Lia Arith.
From BNP Require Import Base.Prims Base.PrimsFacts Model.C03.
From BNP Require Import Proofs.C03 Proofs.C03_int Proofs.C03_scatter Proofs.C03_fasta.
Import ListNotations.
Open Scope Z_scope.

(* a rectangular table with at least one column *)
Definition rect (rows : list row) : Prop :=
  exists n : nat, (1 <= n)%nat /\ Forall (fun r => length r = n) rows.
Definition cells_small (rows : list row) : Prop := Forall (Forall fld_small) rows.

(* the tables each format's writer is claimed for (code as it is) *)
Definition table_ok (f : fmt) (rows : list row) : Prop :=
  match f with
  | Delim => rect rows /\ cells_small rows
  | Vcf => rect rows /\ cells_small (map (vcf_shift 1) rows)
  | VcfU => rows = []
  | VcfL => True
  | Fasta w => 1 <= w /\ Forall (fun r => exists n s, r = [n; s] /\ fld_small n /\ fld_small s /\ print_fld s <> []) rows
  | Fastq => Forall (fun r => exists n s q, r = [n; s; q] /\ fld_small n /\ fld_small s /\ fld_small q) rows
  end.

Lemma map_col_text r : Forall fld_small r -> map col_text r = map print_fld r.
Proof.
  intros H. apply map_ext_in. intros f Hf. rewrite Forall_forall in H. apply col_text_print, H, Hf.
Qed.

Lemma delim_canonical rows : rows <> [] -> rect rows -> cells_small rows ->
  delim_from_data rows = concat (map ser_delim rows).
Proof.
  intros Hne [n [Hn Hrect]] Hsmall. unfold delim_from_data.
  assert (Hhd : length (hd [] rows) = n).
  { destruct rows as [|r rows]; [congruence|]. apply (Forall_inv Hrect). }
  rewrite Hhd. replace (length rows) with (length (map (map col_text) rows)) by apply map_length.
  rewrite join_columns_rows.
  - rewrite map_map. f_equal. apply map_ext_in. intros r Hr.
    unfold text_line, ser_delim. rewrite map_col_text; [reflexivity|].
    unfold cells_small in Hsmall. rewrite Forall_forall in Hsmall. apply Hsmall, Hr.
  - exact Hn.
  - apply Forall_forall. intros t Ht. apply in_map_iff in Ht. destruct Ht as [r [<- Hr]].
    rewrite map_length. rewrite Forall_forall in Hrect. apply Hrect, Hr.
Qed.

Lemma vcf_shift_length d r : length (vcf_shift d r) = length r.
Proof. destruct r as [|c [|[s|p|l|q|t a b] rest]]; reflexivity. Qed.

Theorem from_data_canonical f rows : rows <> [] -> table_ok f rows ->
  from_data f rows = (0, serialise f rows).
Proof.
  intros Hne Hok. destruct f as [| | | |w|]; cbn [table_ok] in Hok.
  - (* Delim *) destruct Hok as [Hr Hs]. cbn [from_data]. rewrite delim_canonical by assumption. reflexivity.
  - (* Vcf *) destruct Hok as [[n [Hn Hr]] Hs]. cbn [from_data]. rewrite delim_canonical.
    + unfold serialise. rewrite map_map. reflexivity.
    + destruct rows; [congruence|discriminate].
    + exists n. split; [exact Hn|]. apply Forall_forall. intros r' Hr'. apply in_map_iff in Hr'.
      destruct Hr' as [r [<- Hin]]. rewrite vcf_shift_length. rewrite Forall_forall in Hr. apply Hr, Hin.
    + exact Hs.
  - congruence.
  - reflexivity.
  - (* Fasta *) destruct Hok as [Hw Hrows]. cbn [from_data].
    rewrite (fasta_from_data_layout w Hw).
    + f_equal. unfold serialise. rewrite map_map. f_equal. apply map_ext_in. intros r Hr.
      rewrite Forall_forall in Hrows. destruct (Hrows r Hr) as [n [s [-> [Hn [Hs _]]]]].
      unfold fasta_rec. cbn [fst snd ser_row]. rewrite !col_text_print by assumption. reflexivity.
    + apply Forall_forall. intros e He. apply in_map_iff in He. destruct He as [r [<- Hr]].
      rewrite Forall_forall in Hrows. destruct (Hrows r Hr) as [n [s [-> [Hn [Hs Hne']]]]].
      unfold good. cbn [snd]. rewrite col_text_print by assumption. exact Hne'.
  - (* Fastq *) cbn [from_data]. unfold fastq_from_data, fastq_texts, m_fastq_plus, m_fastq_n_lines, m_fastq_offsets, m_fastq_header, m_newline.
    match goal with |- context [scatter _ (columns 4 ?t) _] =>
      replace (length rows) with (length t) by apply map_length end.
    rewrite fastq_join_rows.
    + f_equal. unfold serialise. rewrite map_map. f_equal. apply map_ext_in. intros r Hr.
      rewrite Forall_forall in Hok. destruct (Hok r Hr) as [n [s [q [-> [Hn [Hs Hq]]]]]].
      cbn [nth ser_row]. unfold fastq_rec. rewrite !col_text_print by assumption. reflexivity.
    + apply Forall_forall. intros t Ht. apply in_map_iff in Ht. destruct Ht as [r [<- Hr]].
      rewrite Forall_forall in Hok. destruct (Hok r Hr) as [n [s [q [-> _]]]].
      eexists; eexists; eexists; reflexivity.
Qed.

(* ---------- whole histories ---------- *)
Definition hist_ok (f : fmt) (h : list session) : Prop :=
  Forall (fun s => Forall (fun c => Forall (table_ok f) (c_chunks c)) (s_calls s)) h.

Lemma hist_ok_canon f h : hist_ok f h -> canon_hist f h.
Proof.
  unfold hist_ok, canon_hist. intros H.
  eapply Forall_impl; [|exact H]. intros s Hs.
  eapply Forall_impl; [|exact Hs]. intros c Hc.
  eapply Forall_impl; [|exact Hc]. intros ch Hch Hne. apply from_data_canonical; assumption.
Qed.

Theorem write_history_partial f header gz h :
  hist_ok f h -> tail_appends h -> (header = [] \/ has_header f = true) ->
  (gz = false \/ header = []) ->
  match h with s :: _ => first_session_sees s | [] => True end ->
  run_hist_pinned f header gz h = (0, spec_file f header h).
Proof. intros Hh. apply write_pieces_partial, hist_ok_canon, Hh. Qed.
Theorem write_history_current f header gz h :
  hist_ok f h -> tail_appends h -> (header = [] \/ has_header f = true) ->
  (gz = false \/ header = []) ->
  match h with s :: _ => first_session_sees s | [] => True end ->
  run_hist f header gz h = (0, spec_file f header h).
Proof. intros Hh. apply write_pieces_current, hist_ok_canon, Hh. Qed.

Theorem write_history_fixed_writer f header gz h :
  hist_ok f h -> tail_appends h -> (header = [] \/ has_header f = true) ->
  run_hist_fixed f header gz h = (0, spec_file f header h).
Proof. intros Hh. apply write_pieces_fixed, hist_ok_canon, Hh. Qed.

(* refutations of the full statement for the code as it is *)
Definition one_row : row := [FS [99]; FI 4; FS [46]].
Lemma gzip_append_header_refuted :
  exists h, hist_ok Vcf h /\ tail_appends h /\
    run_hist_pinned Vcf [35; 10] true h <> (0, spec_file Vcf [35; 10] h).
Proof.
  exists [ {| s_append := false; s_calls := [ {| c_stream := false; c_chunks := [[one_row]] |} ] |};
           {| s_append := true;  s_calls := [ {| c_stream := false; c_chunks := [[one_row]] |} ] |} ].
  split; [|split].
  - repeat constructor; exists 3%nat; (split; [lia|repeat constructor]).
  - repeat constructor.
  - vm_compute. discriminate.
Qed.
Lemma stream_of_empty_chunks_refuted :
  exists h, hist_ok Vcf h /\ tail_appends h /\
    run_hist_pinned Vcf [35; 10] false h <> (0, spec_file Vcf [35; 10] h).
Proof.
  exists [ {| s_append := false; s_calls := [ {| c_stream := true; c_chunks := [[]] |} ] |} ].
  split; [|split].
  - repeat constructor; exists 1%nat; (split; [lia|constructor]).
  - constructor.
  - vm_compute. discriminate.
Qed.

(* ---------- link to the correspondence verdicts ---------- *)
From BNP Require Import Corr.C03.

Lemma zlist_eqb_eq a b : zlist_eqb a b = true -> a = b.
Proof.
  revert b; induction a as [|x a IH]; intros [|y b] H; cbn in H; try discriminate; [reflexivity|].
  apply andb_true_iff in H. destruct H as [H1 H2]. apply Z.eqb_eq in H1. subst. f_equal. apply IH, H2.
Qed.

(* when the implementation agrees with the model on a well-formed history, what it wrote IS the
   canonical file and nothing was raised — the byte half of spec_ok *)
Theorem model_ok_written (c : case) :
  hist_ok (k_fmt c) (k_hist c) -> tail_appends (k_hist c) ->
  (k_header c = [] \/ has_header (k_fmt c) = true) ->
  (k_gz c = false \/ k_header c = []) ->
  match k_hist c with s :: _ => first_session_sees s | [] => True end ->
  model_ok c = true ->
  k_err c = 0 /\ k_written c = spec_file (k_fmt c) (k_header c) (k_hist c).
Proof.
  intros Hh Ht Hhd Hgz Hfirst Hm. unfold model_ok in Hm.
  rewrite (write_history_current _ _ _ _ Hh Ht Hhd Hgz Hfirst) in Hm.
  apply andb_true_iff in Hm. destruct Hm as [Hm _].
  apply andb_true_iff in Hm. destruct Hm as [He Hw].
  apply Z.eqb_eq in He. apply zlist_eqb_eq in Hw. split; [symmetry; exact He|symmetry; exact Hw].
Qed.

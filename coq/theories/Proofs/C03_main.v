(* Proofs/C03_main.v — assembly: every from_data call is the canonical serialisation of its table, hence
   (with the writer state machine of Proofs/C03.v) any history of writes produces header-once ++
   serialise (all rows). *)
From Coq Require Import ZArith List Bool Lia Arith.
From BNP Require Import Base.Prims Base.PrimsFacts Model.C03.
From BNP Require Import Proofs.C03 Proofs.C03_int Proofs.C03_scatter Proofs.C03_fasta Proofs.C03_sam.
Import ListNotations.
Open Scope Z_scope.

(* a rectangular table with at least one column *)
Definition rect (rows : list row) : Prop :=
  exists n : nat, (1 <= n)%nat /\ Forall (fun r => length r = n) rows.
Definition cells_small (rows : list row) : Prop := Forall (Forall fld_small) rows.

(* the tables each format's writer is claimed for (code as it is) *)
Definition table_ok (f : fmt) (rows : list row) : Prop :=
  match f with
  | Delim => rect rows /\ cells_small rows
  | Vcf => rect rows /\ cells_small (map (vcf_shift 1) rows)
  | VcfU => rect rows /\ cells_small (map (vcf_shift 1) rows)      (* writable since /repo cb3a6ef *)
  | VcfL => True
  | DelimL => True
  | Sam => (exists n : nat, (2 <= n)%nat /\ Forall (fun r => length r = n) rows) /\ cells_small rows
  | Fasta w => 1 <= w /\ Forall (fun r => exists n s, r = [n; s] /\ fld_small n /\ fld_small s) rows   (* empty sequences too *)
  | Fastq => Forall (fun r => exists n s q, r = [n; s; q] /\ fld_small n /\ fld_small s /\ fld_small q) rows
  end.

Lemma map_col_text r : Forall fld_small r -> map col_text r = map print_fld r.
Proof.
  intros H. apply map_ext_in. intros f Hf. rewrite Forall_forall in H. apply col_text_print, H, Hf.
Qed.

Lemma delim_canonical rows : rows <> [] -> rect rows -> cells_small rows ->
  delim_from_data rows = concat (map ser_delim rows).
Proof.
  intros Hne [n [Hn Hrect]] Hsmall. unfold delim_from_data.
  assert (Hhd : length (hd [] rows) = n).
  { destruct rows as [|r rows]; [congruence|]. apply (Forall_inv Hrect). }
  rewrite Hhd. replace (length rows) with (length (map (map col_text) rows)) by apply map_length.
  rewrite join_columns_rows.
  - rewrite map_map. f_equal. apply map_ext_in. intros r Hr.
    unfold text_line, ser_delim. rewrite map_col_text; [reflexivity|].
    unfold cells_small in Hsmall. rewrite Forall_forall in Hsmall. apply Hsmall, Hr.
  - exact Hn.
  - apply Forall_forall. intros t Ht. apply in_map_iff in Ht. destruct Ht as [r [<- Hr]].
    rewrite map_length. rewrite Forall_forall in Hrect. apply Hrect, Hr.
Qed.

Lemma vcf_shift_length d r : length (vcf_shift d r) = length r.
Proof. destruct r as [|c [|[s|p|l|q|t a b] rest]]; reflexivity. Qed.

Theorem from_data_canonical f rows : rows <> [] -> table_ok f rows ->
  from_data f rows = (0, serialise f rows).
Proof.
  intros Hne Hok. destruct f as [| | | | | |w|]; cbn [table_ok] in Hok.
  - (* Delim *) destruct Hok as [Hr Hs]. cbn [from_data]. rewrite delim_canonical by assumption. reflexivity.
  - (* DelimL *) reflexivity.
  - (* Sam *) destruct Hok as [[n [Hn Hr]] Hs]. cbn [from_data]. change m_sam_eager_joins_fields with true. cbn iota.
    unfold sam_from_data.
    assert (Hhd : length (hd [] rows) = n).
    { destruct rows as [|r rows]; [congruence|]. apply (Forall_inv Hr). }
    rewrite Hhd. replace (length rows) with (length (map (map col_text) rows)) by apply map_length.
    rewrite sam_join_fields_rows.
    + f_equal. unfold serialise. rewrite map_map. f_equal. apply map_ext_in. intros r Hin.
      cbn [ser_row]. unfold ser_sam, sam_text_line. rewrite map_col_text; [reflexivity|].
      unfold cells_small in Hs. rewrite Forall_forall in Hs. apply Hs, Hin.
    + exact Hn.
    + apply Forall_forall. intros t Ht. apply in_map_iff in Ht. destruct Ht as [r [<- Hin]].
      rewrite map_length. rewrite Forall_forall in Hr. apply Hr, Hin.
  - (* Vcf *) destruct Hok as [[n [Hn Hr]] Hs]. cbn [from_data]. rewrite delim_canonical.
    + unfold serialise. rewrite map_map. reflexivity.
    + destruct rows; [congruence|discriminate].
    + exists n. split; [exact Hn|]. apply Forall_forall. intros r' Hr'. apply in_map_iff in Hr'.
      destruct Hr' as [r [<- Hin]]. rewrite vcf_shift_length. rewrite Forall_forall in Hr. apply Hr, Hin.
    + exact Hs.
  - (* VcfU *) destruct Hok as [[n [Hn Hr]] Hs]. cbn [from_data]. change union_info_writable with true. cbn iota.
    rewrite delim_canonical.
    + unfold serialise. rewrite map_map. reflexivity.
    + destruct rows; [congruence|discriminate].
    + exists n. split; [exact Hn|]. apply Forall_forall. intros r' Hr'. apply in_map_iff in Hr'.
      destruct Hr' as [r [<- Hin]]. rewrite vcf_shift_length. rewrite Forall_forall in Hr. apply Hr, Hin.
    + exact Hs.
  - reflexivity.
  - (* Fasta *) destruct Hok as [Hw Hrows]. cbn [from_data].
    unfold fasta_from_data. rewrite (fasta_fixed_layout w Hw).
    f_equal. unfold serialise. rewrite map_map. f_equal. apply map_ext_in. intros r Hr.
    rewrite Forall_forall in Hrows. destruct (Hrows r Hr) as [n [s [-> [Hn Hs]]]].
    unfold fasta_rec. cbn [fst snd ser_row]. rewrite !col_text_print by assumption. reflexivity.
  - (* Fastq *) cbn [from_data]. unfold fastq_from_data, fastq_texts, m_fastq_plus, m_fastq_n_lines, m_fastq_offsets, m_fastq_header, m_newline.
    match goal with |- context [scatter _ (columns 4 ?t) _] =>
      replace (length rows) with (length t) by apply map_length end.
    rewrite fastq_join_rows.
    + f_equal. unfold serialise. rewrite map_map. f_equal. apply map_ext_in. intros r Hr.
      rewrite Forall_forall in Hok. destruct (Hok r Hr) as [n [s [q [-> [Hn [Hs Hq]]]]]].
      cbn [nth ser_row]. unfold fastq_rec. rewrite !col_text_print by assumption. reflexivity.
    + apply Forall_forall. intros t Ht. apply in_map_iff in Ht. destruct Ht as [r [<- Hr]].
      rewrite Forall_forall in Hok. destruct (Hok r Hr) as [n [s [q [-> _]]]].
      eexists; eexists; eexists; reflexivity.
Qed.

(* ---------- whole histories ---------- *)
Definition hist_ok (f : fmt) (h : list session) : Prop :=
  Forall (fun s => Forall (fun c => Forall (table_ok f) (c_chunks c)) (s_calls s)) h.

Lemma hist_ok_canon f h : hist_ok f h -> canon_hist f h.
Proof.
  unfold hist_ok, canon_hist. intros H.
  eapply Forall_impl; [|exact H]. intros s Hs.
  eapply Forall_impl; [|exact Hs]. intros c Hc.
  eapply Forall_impl; [|exact Hc]. intros ch Hch Hne. apply from_data_canonical; assumption.
Qed.

Theorem write_history_partial f header gz h :
  hist_ok f h -> tail_appends h -> (header = [] \/ has_header f = true) ->
  (gz = false \/ header = []) ->
  match h with s :: _ => first_session_sees s | [] => True end ->
  run_hist_pinned f header gz h = (0, spec_file f header h).
Proof. intros Hh. apply write_pieces_partial, hist_ok_canon, Hh. Qed.
Theorem write_history_current f header gz h :
  hist_ok f h -> tail_appends h -> (header = [] \/ has_header f = true) ->
  (gz = false \/ header = []) ->
  match h with s :: _ => first_session_sees s | [] => True end ->
  run_hist f header gz h = (0, spec_file f header h).
Proof. intros Hh. apply write_pieces_current, hist_ok_canon, Hh. Qed.

Theorem write_history_fixed_writer f header gz h :
  hist_ok f h -> tail_appends h -> (header = [] \/ has_header f = true) ->
  run_hist_fixed f header gz h = (0, spec_file f header h).
Proof. intros Hh. apply write_pieces_fixed, hist_ok_canon, Hh. Qed.

(* refutations of the full statement for the code as it is *)
Definition one_row : row := [FS [99]; FI 4; FS [46]].
Lemma gzip_append_header_refuted :
  exists h, hist_ok Vcf h /\ tail_appends h /\
    run_hist_pinned Vcf [35; 10] true h <> (0, spec_file Vcf [35; 10] h).
Proof.
  exists [ {| s_append := false; s_calls := [ {| c_stream := false; c_chunks := [[one_row]] |} ] |};
           {| s_append := true;  s_calls := [ {| c_stream := false; c_chunks := [[one_row]] |} ] |} ].
  split; [|split].
  - repeat constructor; exists 3%nat; (split; [lia|repeat constructor]).
  - repeat constructor.
  - vm_compute. discriminate.
Qed.
Lemma stream_of_empty_chunks_refuted :
  exists h, hist_ok Vcf h /\ tail_appends h /\
    run_hist_pinned Vcf [35; 10] false h <> (0, spec_file Vcf [35; 10] h).
Proof.
  exists [ {| s_append := false; s_calls := [ {| c_stream := true; c_chunks := [[]] |} ] |} ].
  split; [|split].
  - repeat constructor; exists 1%nat; (split; [lia|constructor]).
  - constructor.
  - vm_compute. discriminate.
Qed.

(* ---------- link to the correspondence verdicts ---------- *)
From BNP Require Import Corr.C03.

Lemma zlist_eqb_eq a b : zlist_eqb a b = true -> a = b.
Proof.
  revert b; induction a as [|x a IH]; intros [|y b] H; cbn in H; try discriminate; [reflexivity|].
  apply andb_true_iff in H. destruct H as [H1 H2]. apply Z.eqb_eq in H1. subst. f_equal. apply IH, H2.
Qed.

(* when the implementation agrees with the model on a well-formed history, what it wrote IS the
   canonical file and nothing was raised — the byte half of spec_ok *)
Theorem model_ok_written (c : case) :
  hist_ok (k_fmt c) (k_hist c) -> tail_appends (k_hist c) ->
  (k_header c = [] \/ has_header (k_fmt c) = true) ->
  (k_gz c = false \/ k_header c = []) ->
  match k_hist c with s :: _ => first_session_sees s | [] => True end ->
  model_ok c = true ->
  k_err c = 0 /\ k_written c = spec_file (k_fmt c) (k_header c) (k_hist c).
Proof.
  intros Hh Ht Hhd Hgz Hfirst Hm. unfold model_ok in Hm.
  rewrite (write_history_current _ _ _ _ Hh Ht Hhd Hgz Hfirst) in Hm.
  apply andb_true_iff in Hm. destruct Hm as [Hm _].
  apply andb_true_iff in Hm. destruct Hm as [Hm _].
  apply andb_true_iff in Hm. destruct Hm as [He Hw].
  apply Z.eqb_eq in He. apply zlist_eqb_eq in Hw. split; [symmetry; exact He|symmetry; exact Hw].
Qed.

(* =====================================================================================
   Phase 3: end-to-end statements — write a history, read the file back, get the table
   ===================================================================================== *)
From BNP Require Import Proofs.C03_read.

(* the writer at /repo HEAD (the switch [run_hist] selects the repaired writer): every history over tables in the
   writer's domain, plain or gzip, appended or not — no further guard *)
Theorem write_history_head f header gz h :
  hist_ok f h -> tail_appends h -> (header = [] \/ has_header f = true) ->
  run_hist f header gz h = (0, spec_file f header h).
Proof. exact (write_history_fixed_writer f header gz h). Qed.

(* per format *)
Corollary write_pieces_vcf (hls : list (list Z)) gz h :
  hist_ok Vcf h -> tail_appends h ->
  run_hist Vcf (header_of hls) gz h = (0, spec_header (header_of hls) h ++ serialise Vcf (rows_of_hist h)).
Proof. intros Hh Ht. apply write_history_head; auto. Qed.
Corollary write_pieces_delim gz h :
  hist_ok Delim h -> tail_appends h -> run_hist Delim [] gz h = (0, serialise Delim (rows_of_hist h)).
Proof.
  intros Hh Ht. rewrite write_history_head by auto. unfold spec_file, spec_header.
  destruct h as [|s t]; [reflexivity|]. destruct (s_append s); [reflexivity|]. destruct (existsb _ _); reflexivity.
Qed.
Corollary write_pieces_fasta w gz h :
  hist_ok (Fasta w) h -> tail_appends h -> run_hist (Fasta w) [] gz h = (0, serialise (Fasta w) (rows_of_hist h)).
Proof.
  intros Hh Ht. rewrite write_history_head by auto. unfold spec_file, spec_header.
  destruct h as [|s t]; [reflexivity|]. destruct (s_append s); [reflexivity|]. destruct (existsb _ _); reflexivity.
Qed.
Corollary write_pieces_fastq gz h :
  hist_ok Fastq h -> tail_appends h -> run_hist Fastq [] gz h = (0, serialise Fastq (rows_of_hist h)).
Proof.
  intros Hh Ht. rewrite write_history_head by auto. unfold spec_file, spec_header.
  destruct h as [|s t]; [reflexivity|]. destruct (s_append s); [reflexivity|]. destruct (existsb _ _); reflexivity.
Qed.

(* ---- round trips: the reference reader on what the model writer produced ---- *)
Theorem roundtrip_delim pf schema gz h :
  hist_ok Delim h -> tail_appends h -> Forall (row_ok pf schema) (rows_of_hist h) ->
  parse_raw_with pf Delim schema (snd (run_hist Delim [] gz h)) = Some (rows_of_hist h).
Proof. intros Hh Ht Hr. rewrite write_pieces_delim by assumption. apply parse_serialise_delim_rows, Hr. Qed.

Lemma spec_header_cases header h : spec_header header h = header \/ spec_header header h = [].
Proof.
  unfold spec_header. destruct h as [|s t]; [right; reflexivity|].
  destruct (s_append s); [right; reflexivity|]. destruct (existsb _ _); [left|right]; reflexivity.
Qed.
Theorem roundtrip_vcf pf schema hls gz h :
  hist_ok Vcf h -> tail_appends h -> Forall (header_line_ok) hls -> Forall (vcf_row_ok pf schema) (rows_of_hist h) ->
  parse_raw_with pf Vcf schema (snd (run_hist Vcf (header_of hls) gz h)) = Some (rows_of_hist h).
Proof.
  intros Hh Ht Hl Hr. rewrite write_pieces_vcf by assumption. cbn [snd].
  destruct (spec_header_cases (header_of hls) h) as [-> | ->].
  - apply parse_serialise_vcf; assumption.
  - apply (parse_serialise_vcf pf schema [] (rows_of_hist h)); [constructor|assumption].
Qed.
Theorem roundtrip_fasta w schema gz h :
  1 <= w -> hist_ok (Fasta w) h -> tail_appends h -> Forall fasta_row_ok (rows_of_hist h) ->
  parse_raw (Fasta w) schema (snd (run_hist (Fasta w) [] gz h)) = Some (rows_of_hist h).
Proof. intros Hw Hh Ht Hr. rewrite write_pieces_fasta by assumption. apply parse_serialise_fasta; assumption. Qed.
Theorem roundtrip_fastq schema gz h :
  hist_ok Fastq h -> tail_appends h -> Forall fastq_row_ok (rows_of_hist h) ->
  parse_raw Fastq schema (snd (run_hist Fastq [] gz h)) = Some (rows_of_hist h).
Proof. intros Hh Ht Hr. rewrite write_pieces_fastq by assumption. apply parse_serialise_fastq, Hr. Qed.

(* ---- VCF POS: the eager path and the lazy path with a replaced POS column write the same bytes ---- *)
Theorem vcf_pos_paths_agree rows : from_data_lazy_pos rows = snd (from_data Vcf rows).
Proof. reflexivity. Qed.
Theorem vcf_lazy_pos_canonical rows : rows <> [] -> table_ok Vcf rows ->
  from_data_lazy_pos rows = serialise Vcf rows.
Proof. intros Hne Hok. rewrite vcf_pos_paths_agree, (from_data_canonical Vcf rows Hne Hok). reflexivity. Qed.

(* ---- model_ok => spec_ok ---- *)
Fixpoint float_free_row (r : row) : bool :=
  match r with [] => true | FF _ _ _ :: _ => false | _ :: r' => float_free_row r' end.
Lemma fld_eqb_strict a b : (match a with FF _ _ _ => false | _ => true end) = true ->
  fld_eqb false a b = true -> fld_eqb true a b = true.
Proof. destruct a, b; cbn; try discriminate; auto. Qed.
Lemma row_eqb_strict a : float_free_row a = true -> forall b, row_eqb false a b = true -> row_eqb true a b = true.
Proof.
  induction a as [|x a IH]; intros Hf b H; destruct b as [|y b]; cbn in *; try discriminate; [reflexivity|].
  apply andb_true_iff in H. destruct H as [H1 H2]. apply andb_true_iff. split.
  - apply fld_eqb_strict; [destruct x; try reflexivity; discriminate|exact H1].
  - apply IH; [destruct x; try exact Hf; discriminate|exact H2].
Qed.
Lemma rows_eqb_strict a : forallb float_free_row a = true -> forall b, rows_eqb false a b = true -> rows_eqb true a b = true.
Proof.
  induction a as [|x a IH]; intros Hf b H; destruct b as [|y b]; cbn in *; try discriminate; [reflexivity|].
  apply andb_true_iff in Hf. destruct Hf as [Hf1 Hf2].
  apply andb_true_iff in H. destruct H as [H1 H2]. apply andb_true_iff. split.
  - apply row_eqb_strict; assumption.
  - apply IH; assumption.
Qed.
Lemma zlist_eqb_refl a : zlist_eqb a a = true.
Proof. induction a as [|x a IH]; [reflexivity|]. cbn. rewrite Z.eqb_refl, IH. reflexivity. Qed.

(* if the reference reader returns the table from the canonical file (the read-back theorems give that per
   format), agreement with the model implies the whole property on that case — for float-free tables *)
Theorem model_ok_spec_ok (c : case) :
  hist_ok (k_fmt c) (k_hist c) -> tail_appends (k_hist c) ->
  (k_header c = [] \/ has_header (k_fmt c) = true) ->
  parse_file (k_fmt c) (k_schema c) (spec_file (k_fmt c) (k_header c) (k_hist c)) = Some (rows_of_hist (k_hist c)) ->
  (k_alt_file c = [] \/ parse_file (k_fmt c) (k_schema c) (k_alt_file c) = Some (rows_of_hist (k_hist c))) ->
  forallb float_free_row (rows_of_hist (k_hist c)) = true ->
  model_ok c = true -> spec_ok c = true.
Proof.
  intros Hh Ht Hhd Hparse Halt Hff Hm. unfold model_ok in Hm.
  rewrite (write_history_head _ _ _ _ Hh Ht Hhd) in Hm.
  apply andb_true_iff in Hm. destruct Hm as [Hm Haltm].
  apply andb_true_iff in Hm. destruct Hm as [Hm Hread].
  apply andb_true_iff in Hm. destruct Hm as [He Hw].
  apply Z.eqb_eq in He. apply zlist_eqb_eq in Hw. cbn [Z.eqb negb orb] in Hread.
  rewrite <- Hw, Hparse in Hread. apply andb_true_iff in Hread. destruct Hread as [Hok Heq].
  unfold spec_ok. rewrite <- He, <- Hw, Hok. cbn [Z.eqb andb]. rewrite zlist_eqb_refl. cbn [andb].
  rewrite (rows_eqb_strict _ Hff _ Heq). cbn [andb].
  destruct (k_alt_file c) as [|x l] eqn:E; [reflexivity|].
  destruct Halt as [Ha|Ha]; [discriminate|]. rewrite Ha in Haltm.
  apply andb_true_iff in Haltm. destruct Haltm as [Hok2 Heq2]. rewrite Hok2. cbn [andb].
  apply rows_eqb_strict; assumption.
Qed.

Lemma spec_file_headerless f h : spec_file f [] h = serialise f (rows_of_hist h).
Proof.
  unfold spec_file, spec_header. destruct h as [|s t]; [reflexivity|].
  destruct (s_append s); [reflexivity|]. destruct (existsb _ _); reflexivity.
Qed.

(* per format: delimited tables without float columns (BED3/6/12, GTF, SAM incl. the tags column) *)
Theorem model_ok_spec_ok_delim (c : case) :
  k_fmt c = Delim -> k_header c = [] -> k_alt_file c = [] ->
  hist_ok Delim (k_hist c) -> tail_appends (k_hist c) ->
  Forall (row_ok no_float_value (k_schema c)) (rows_of_hist (k_hist c)) ->
  forallb float_free_row (rows_of_hist (k_hist c)) = true ->
  model_ok c = true -> spec_ok c = true.
Proof.
  intros Hf Hhd Ha Hh Ht Hr Hff. apply model_ok_spec_ok; rewrite ?Hf, ?Hhd; auto.
  rewrite spec_file_headerless. apply parse_file_serialise_delim; assumption.
Qed.
Theorem model_ok_spec_ok_fasta (c : case) w :
  k_fmt c = Fasta w -> k_header c = [] -> k_alt_file c = [] -> 1 <= w ->
  hist_ok (Fasta w) (k_hist c) -> tail_appends (k_hist c) ->
  Forall fasta_row_ok (rows_of_hist (k_hist c)) ->
  model_ok c = true -> spec_ok c = true.
Proof.
  intros Hf Hhd Ha Hw Hh Ht Hr. apply model_ok_spec_ok; rewrite ?Hf, ?Hhd; auto.
  - rewrite spec_file_headerless. unfold parse_file. rewrite parse_serialise_fasta by assumption. reflexivity.
  - apply forallb_forall. intros r Hin. rewrite Forall_forall in Hr. destruct (Hr r Hin) as [n [s [-> _]]]. reflexivity.
Qed.
Theorem model_ok_spec_ok_fastq (c : case) :
  k_fmt c = Fastq -> k_header c = [] -> k_alt_file c = [] ->
  hist_ok Fastq (k_hist c) -> tail_appends (k_hist c) ->
  Forall fastq_row_ok (rows_of_hist (k_hist c)) ->
  model_ok c = true -> spec_ok c = true.
Proof.
  intros Hf Hhd Ha Hh Ht Hr. apply model_ok_spec_ok; rewrite ?Hf, ?Hhd; auto.
  - rewrite spec_file_headerless. unfold parse_file. rewrite parse_serialise_fastq by assumption. reflexivity.
  - apply forallb_forall. intros r Hin. rewrite Forall_forall in Hr. destruct (Hr r Hin) as [n [s [q [-> _]]]]. reflexivity.
Qed.
Theorem model_ok_spec_ok_vcf (c : case) hls :
  k_fmt c = Vcf -> k_header c = header_of hls -> k_alt_file c = [] -> Forall header_line_ok hls ->
  hist_ok Vcf (k_hist c) -> tail_appends (k_hist c) ->
  Forall (vcf_row_ok no_float_value (k_schema c)) (rows_of_hist (k_hist c)) ->
  forallb float_free_row (rows_of_hist (k_hist c)) = true ->
  model_ok c = true -> spec_ok c = true.
Proof.
  intros Hf Hhd Ha Hl Hh Ht Hr Hff. apply model_ok_spec_ok; rewrite ?Hf, ?Hhd; auto.
  unfold parse_file, parse_raw, spec_file.
  destruct (spec_header_cases (header_of hls) (k_hist c)) as [-> | ->].
  - rewrite parse_serialise_vcf by assumption. reflexivity.
  - change (@nil Z) with (header_of []).
    rewrite (parse_serialise_vcf no_float_value (k_schema c) [] _ ltac:(constructor) Hr). reflexivity.
Qed.

(* ---------- SAM (in-memory SAMEntry tables; SAMBuffer.from_data = join_fields since /repo 81bde1f) ---------- *)
Corollary write_pieces_sam gz h :
  hist_ok Sam h -> tail_appends h -> run_hist Sam [] gz h = (0, serialise Sam (rows_of_hist h)).
Proof.
  intros Hh Ht. rewrite write_history_head by auto. unfold spec_file, spec_header.
  destruct h as [|s t]; [reflexivity|]. destruct (s_append s); [reflexivity|]. destruct (existsb _ _); reflexivity.
Qed.
Theorem roundtrip_sam pf ks gz h :
  ks <> [] -> hist_ok Sam h -> tail_appends h -> Forall (sam_row_ok pf ks) (rows_of_hist h) ->
  parse_raw_with pf Sam (ks ++ [5]) (snd (run_hist Sam [] gz h)) = Some (rows_of_hist h).
Proof. intros Hk Hh Ht Hr. rewrite write_pieces_sam by assumption. apply parse_serialise_sam; assumption. Qed.

(* the old eager spelling (TAB before an empty tags cell) of the same table, as the harness writes it into k_alt_file *)
Definition sam_old_spelling (rows : list row) : list Z := serialise Delim rows.
Theorem model_ok_spec_ok_sam (c : case) ks :
  k_fmt c = Sam -> k_header c = [] -> k_schema c = ks ++ [5] -> ks <> [] ->
  (k_alt_file c = [] \/ k_alt_file c = sam_old_spelling (rows_of_hist (k_hist c))) ->
  hist_ok Sam (k_hist c) -> tail_appends (k_hist c) ->
  Forall (sam_row_ok no_float_value ks) (rows_of_hist (k_hist c)) ->
  forallb float_free_row (rows_of_hist (k_hist c)) = true ->
  model_ok c = true -> spec_ok c = true.
Proof.
  intros Hf Hhd Hs Hk Halt Hh Ht Hr Hff. apply model_ok_spec_ok; rewrite ?Hf, ?Hhd, ?Hs; auto.
  - rewrite spec_file_headerless. unfold parse_file, parse_raw. apply parse_serialise_sam; assumption.
  - destruct Halt as [Ha|Ha]; [left; exact Ha|right]. rewrite Ha. unfold parse_file, parse_raw, sam_old_spelling.
    change (parse_raw_with no_float_value Sam (ks ++ [5]) (serialise Delim (rows_of_hist (k_hist c))))
      with (parse_raw_with no_float_value Delim (ks ++ [5]) (serialise Delim (rows_of_hist (k_hist c)))).
    apply parse_serialise_delim_rows.
    eapply Forall_impl; [|exact Hr]. intros r [fs [e [-> [Hc He]]]]. right. exists ks, fs, e. auto.
Qed.

(* Proofs/C11.v — chunk-wise reductions equal the reduction of the concatenated data (mean, bincount,
   histogram, k-mer counts), for every list of chunks. *)
From Coq Require Import ZArith List Bool Lia Arith.
From BNP Require Import Base.Prims Base.PrimsFacts Model.C11.
Import ListNotations.
Open Scope Z_scope.

(* ---------- generic list facts ---------- *)
Lemma sumZ_app a b : sumZ (a ++ b) = sumZ a + sumZ b.
Proof. induction a as [|x a IH]; simpl; [reflexivity|]. unfold sumZ in *. simpl. rewrite IH. lia. Qed.

Lemma countZ_app v a b : countZ v (a ++ b) = countZ v a + countZ v b.
Proof. unfold countZ. rewrite filter_app, len_app. reflexivity. Qed.
Lemma countZ_nonneg v a : 0 <= countZ v a.
Proof. unfold countZ. apply len_nonneg. Qed.
Lemma countZ_notin v a : ~ In v a -> countZ v a = 0.
Proof.
  unfold countZ. induction a as [|x a IH]; intros H; [reflexivity|].
  simpl. destruct (Z.eqb_spec v x) as [->|Hne]; [exfalso; apply H; left; reflexivity|].
  apply IH. intros Hin. apply H. right. exact Hin.
Qed.

Lemma arange_from_length s n : length (arange_from s n) = n.
Proof. revert s. induction n; intros s; simpl; [reflexivity|]. rewrite IHn. reflexivity. Qed.
Lemma arange_from_nth s n i : (i < n)%nat -> nth i (arange_from s n) 0 = s + Z.of_nat i.
Proof.
  revert s i. induction n as [|n IH]; intros s i H; [lia|].
  destruct i as [|i]; simpl; [lia|]. rewrite IH by lia. lia.
Qed.
Lemma arange_from_app s n m : arange_from s (n + m) = arange_from s n ++ arange_from (s + Z.of_nat n) m.
Proof.
  revert s. induction n as [|n IH]; intros s.
  - simpl. f_equal. lia.
  - cbn [Nat.add arange_from app]. f_equal. rewrite IH. do 2 f_equal. lia.
Qed.

(* ---------- count vectors ---------- *)
Definition countvec (K : Z) (xs : list Z) : list Z := map (fun b => countZ b xs) (arange K).

Lemma vadd_map2 {A} (f g : A -> Z) l : vadd (map f l) (map g l) = map (fun x => f x + g x) l.
Proof. induction l as [|x l IH]; simpl; [reflexivity|]. rewrite IH. reflexivity. Qed.

Lemma countvec_app K a b : countvec K (a ++ b) = vadd (countvec K a) (countvec K b).
Proof.
  unfold countvec. rewrite vadd_map2. apply map_ext. intros v. apply countZ_app.
Qed.

(* fold of a homomorphism over chunks *)
Lemma fold_left_hom {A B} (F : list A -> B) (op : B -> B -> B) :
  (forall a b, F (a ++ b) = op (F a) (F b)) ->
  forall cs acc, fold_left op (map F cs) (F acc) = F (acc ++ concat cs).
Proof.
  intros Hhom cs. induction cs as [|c cs IH]; intros acc; simpl.
  - rewrite app_nil_r. reflexivity.
  - rewrite <- Hhom. rewrite IH. rewrite app_assoc. reflexivity.
Qed.

Lemma reduce1_hom {A B} (F : list A -> B) (op : B -> B -> B) :
  (forall a b, F (a ++ b) = op (F a) (F b)) ->
  forall cs, cs <> [] -> reduce1 op (map F cs) = Some (F (concat cs)).
Proof.
  intros Hhom cs Hne. destruct cs as [|c cs]; [congruence|].
  simpl. f_equal. apply fold_left_hom. exact Hhom.
Qed.

(* ---------- T1: (sum, n) ---------- *)
Lemma sum_and_n_app a b : sum_and_n (a ++ b) = pair_add (sum_and_n a) (sum_and_n b).
Proof. unfold sum_and_n, pair_add. simpl. rewrite sumZ_app, len_app. reflexivity. Qed.

Theorem mean_chunked : forall cs : list (list Z), stream_sum_n cs = spec_sum_n (concat cs).
Proof.
  intros cs. unfold stream_sum_n, spec_sum_n.
  change (0, 0) with (sum_and_n []).
  rewrite (fold_left_hom sum_and_n pair_add sum_and_n_app). reflexivity.
Qed.

(* ---------- T3: histogram with fixed bins and range ---------- *)
Lemma spec_hist_countvec k lo hi l : spec_hist k lo hi l = countvec k (map (bin_of k lo hi) l).
Proof. reflexivity. Qed.

Lemma spec_hist_app k lo hi a b :
  spec_hist k lo hi (a ++ b) = vadd (spec_hist k lo hi a) (spec_hist k lo hi b).
Proof. rewrite !spec_hist_countvec, map_app. apply countvec_app. Qed.

Lemma vadd_comm a b : vadd a b = vadd b a.
Proof.
  revert b. induction a as [|x a IH]; intros [|y b]; simpl; try reflexivity.
  rewrite IH. f_equal. lia.
Qed.

Theorem histogram_chunked : forall k lo hi (cs : list (list Z)), cs <> [] ->
  stream_hist k lo hi cs = Some (spec_hist k lo hi (concat cs)).
Proof.
  intros k lo hi cs Hne. unfold stream_hist.
  destruct cs as [|c1 cs]; [congruence|]. cbn [map]. f_equal.
  destruct cs as [|c2 cs]; cbn [map concat].
  - rewrite app_nil_r. reflexivity.
  - rewrite vadd_comm.
    rewrite (fold_left_hom (spec_hist k lo hi) vadd (spec_hist_app k lo hi)).
    rewrite <- spec_hist_app. reflexivity.
Qed.

(* ---------- T4: k-mer counts (chunks split between sequences) ---------- *)
Lemma spec_kmer_counts_app k a b :
  spec_kmer_counts k (a ++ b) = vadd (spec_kmer_counts k a) (spec_kmer_counts k b).
Proof.
  unfold spec_kmer_counts. rewrite map_app, concat_app.
  apply (countvec_app (4 ^ Z.of_nat k)).
Qed.

Theorem kmer_count_chunked : forall k (cs : list (list (list Z))), cs <> [] ->
  stream_kmer_counts k cs = Some (spec_kmer_counts k (concat cs)).
Proof.
  intros k cs Hne. unfold stream_kmer_counts, chunk_kmer_counts.
  apply (reduce1_hom (spec_kmer_counts k) vadd (spec_kmer_counts_app k)). exact Hne.
Qed.

(* ---------- T2: bincount with padded addition ---------- *)
Lemma nth_add_prefix long short i :
  (length short <= length long)%nat ->
  nth i (add_prefix long short) 0 = nth i long 0 + nth i short 0.
Proof.
  revert short i. induction long as [|x l IH]; intros short i H.
  - destruct short; [|simpl in H; lia]. destruct i; reflexivity.
  - destruct short as [|y s].
    + simpl. destruct i; lia.
    + simpl in H. destruct i as [|i]; simpl; [reflexivity|]. apply IH. lia.
Qed.
Lemma length_add_prefix long short :
  (length short <= length long)%nat -> length (add_prefix long short) = length long.
Proof.
  revert short. induction long as [|x l IH]; intros short H.
  - destruct short; reflexivity.
  - destruct short as [|y s]; [reflexivity|]. simpl in *. rewrite IH by lia. reflexivity.
Qed.

Lemma nth_bincount_reduce a b i :
  nth i (bincount_reduce a b) 0 = nth i a 0 + nth i b 0.
Proof.
  unfold bincount_reduce, m_br_cond. destruct (Nat.leb_spec (length b) (length a)).
  - apply nth_add_prefix. exact H.
  - rewrite nth_add_prefix by lia. lia.
Qed.
Lemma length_bincount_reduce a b :
  length (bincount_reduce a b) = Nat.max (length a) (length b).
Proof.
  unfold bincount_reduce, m_br_cond. destruct (Nat.leb_spec (length b) (length a)).
  - rewrite length_add_prefix by exact H. lia.
  - rewrite length_add_prefix by lia. lia.
Qed.

Lemma maxZ_ge_m1 l : -1 <= maxZ l.
Proof. induction l as [|x l IH]; simpl; lia. Qed.
Lemma maxZ_app a b : maxZ (a ++ b) = Z.max (maxZ a) (maxZ b).
Proof.
  induction a as [|x a IH]; simpl.
  - pose proof (maxZ_ge_m1 b). unfold maxZ in *. lia.
  - unfold maxZ in *. simpl. rewrite IH. lia.
Qed.
Lemma maxZ_bound l v : In v l -> v <= maxZ l.
Proof.
  induction l as [|x l IH]; intros H; [contradiction|].
  unfold maxZ in *. simpl. destruct H as [->|H]; [lia|]. specialize (IH H). lia.
Qed.

Lemma length_spec_bincount l : length (spec_bincount l) = Z.to_nat (maxZ l + 1).
Proof. unfold spec_bincount, arange. rewrite map_length, arange_from_length. reflexivity. Qed.

Lemma nth_map_lt {A B} (f : A -> B) l i d d' : (i < length l)%nat -> nth i (map f l) d = f (nth i l d').
Proof.
  revert i. induction l as [|x l IH]; intros i H; simpl in H; [lia|].
  destruct i; simpl; [reflexivity|]. apply IH. lia.
Qed.

(* every position of the bincount is the count of that value; beyond the end the count is 0 anyway *)
Lemma nth_spec_bincount l i : Forall (fun v => 0 <= v) l ->
  nth i (spec_bincount l) 0 = countZ (Z.of_nat i) l.
Proof.
  intros Hpos. unfold spec_bincount, arange.
  destruct (Nat.ltb_spec i (Z.to_nat (maxZ l + 1))) as [Hlt|Hge].
  - rewrite (nth_map_lt _ _ _ 0 0) by (rewrite arange_from_length; exact Hlt).
    rewrite arange_from_nth by exact Hlt. f_equal.
  - rewrite nth_overflow by (rewrite map_length, arange_from_length; exact Hge).
    symmetry. apply countZ_notin. intros Hin.
    pose proof (maxZ_bound l _ Hin). lia.
Qed.

Lemma list_ext_nth (a b : list Z) : length a = length b -> (forall i, nth i a 0 = nth i b 0) -> a = b.
Proof.
  revert b. induction a as [|x a IH]; intros [|y b] Hlen Hnth; simpl in Hlen; try lia; [reflexivity|].
  f_equal; [exact (Hnth O)|]. apply IH; [lia|]. intros i. exact (Hnth (S i)).
Qed.

Lemma spec_bincount_app a b : Forall (fun v => 0 <= v) a -> Forall (fun v => 0 <= v) b ->
  spec_bincount (a ++ b) = bincount_reduce (spec_bincount a) (spec_bincount b).
Proof.
  intros Ha Hb. apply list_ext_nth.
  - rewrite length_bincount_reduce, !length_spec_bincount, maxZ_app.
    pose proof (maxZ_ge_m1 a). pose proof (maxZ_ge_m1 b). lia.
  - intros i. rewrite nth_bincount_reduce.
    rewrite !nth_spec_bincount; [apply countZ_app|exact Hb|exact Ha|].
    apply Forall_app. split; assumption.
Qed.

Lemma fold_left_bincount cs : Forall (Forall (fun v => 0 <= v)) cs ->
  forall acc, Forall (fun v => 0 <= v) acc ->
  fold_left bincount_reduce (map spec_bincount cs) (spec_bincount acc) = spec_bincount (acc ++ concat cs).
Proof.
  induction cs as [|c cs IH]; intros Hcs acc Hacc; simpl.
  - rewrite app_nil_r. reflexivity.
  - inversion Hcs as [|? ? Hc Hrest]; subst.
    rewrite <- spec_bincount_app by assumption.
    rewrite IH; [rewrite app_assoc; reflexivity|exact Hrest|].
    apply Forall_app. split; assumption.
Qed.

Theorem bincount_chunked : forall cs : list (list Z), cs <> [] ->
  Forall (Forall (fun v => 0 <= v)) cs ->
  stream_bincount cs = Some (spec_bincount (concat cs)).
Proof.
  intros cs Hne Hpos. unfold stream_bincount. destruct cs as [|c cs]; [congruence|].
  inversion Hpos as [|? ? Hc Hrest]; subst.
  simpl. f_equal. apply fold_left_bincount; assumption.
Qed.

(* ---------- streamable without reduction: a row-local function mapped over the chunks ---------- *)
Theorem streamable_map_chunked {A B} (f : list A -> list B) :
  f [] = [] -> (forall a b, f (a ++ b) = f a ++ f b) ->
  forall cs, concat (stream_map f cs) = f (concat cs).
Proof.
  intros Hnil Happ cs. unfold stream_map. induction cs as [|c cs IH]; simpl; [symmetry; exact Hnil|].
  rewrite IH, Happ. reflexivity.
Qed.
Theorem streamable_rows_chunked {A B} (g : A -> B) (cs : list (list A)) :
  concat (stream_map (map g) cs) = map g (concat cs) /\ map (@length B) (stream_map (map g) cs) = map (@length A) cs.
Proof.
  split.
  - apply streamable_map_chunked; [reflexivity|intros; apply map_app].
  - unfold stream_map. rewrite map_map. apply map_ext. intros c. apply map_length.
Qed.

(* Proofs/C16_r6.v — round 6: the auxiliary (TAG) area is carried and skipped, never interpreted; files made of
   several gzip members (BGZF blocks) read like the concatenation of the members' payloads for every split. *)
From Coq Require Import ZArith List Bool Lia Arith.
From BNP Require Import Base.Prims Base.PrimsFacts Model.C16 Proofs.C16 Corr.C16 Proofs.C16_link Proofs.C16_depth.
Import ListNotations.
Open Scope Z_scope.

(* ================================================================= A. auxiliary area *)
Lemma with_tags_valid B r t : rec_valid B r -> fits (with_tags r t) -> rec_valid B (with_tags r t).
Proof. intros [] Hf. constructor; cbn; assumption. Qed.

Lemma spec_orec_with_tags v r t names : spec_orec v (with_tags r t) names = spec_orec v r names.
Proof. reflexivity. Qed.
Lemma spec_oiv_with_tags v r t names : spec_oiv v (with_tags r t) names = spec_oiv v r names.
Proof. reflexivity. Qed.

(* the nine fields and the interval of a record do not depend on its auxiliary area, nor on where it lies *)
Lemma tags_irrelevant pre post pre' post' r t names : rec_valid 65536 r -> fits (with_tags r t) ->
  decode_at repaired names (pre ++ encode_rec (with_tags r t) ++ post) (len pre)
  = decode_at repaired names (pre' ++ encode_rec r ++ post') (len pre')
  /\ interval_at repaired names (pre ++ encode_rec (with_tags r t) ++ post) (len pre)
     = interval_at repaired names (pre' ++ encode_rec r ++ post') (len pre')
  /\ tags_region repaired (pre ++ encode_rec (with_tags r t) ++ post) (len pre)
       (len pre + len (encode_rec (with_tags r t))) = t.
Proof.
  intros Hv Hf. pose proof (with_tags_valid 65536 r t Hv Hf) as Hv'.
  split; [|split].
  - rewrite (decode_at_correct repaired 65536 (Z.le_refl _) cb_repaired pre post _ Hv' names).
    rewrite (decode_at_correct repaired 65536 (Z.le_refl _) cb_repaired pre' post' _ Hv names).
    apply spec_orec_with_tags.
  - rewrite (interval_at_correct repaired 65536 (Z.le_refl _) cb_repaired pre post _ Hv' names).
    rewrite (interval_at_correct repaired 65536 (Z.le_refl _) cb_repaired pre' post' _ Hv names).
    apply spec_oiv_with_tags.
  - apply (tags_at repaired 65536 (Z.le_refl _) cb_repaired pre post _ Hv').
Qed.

(* block_size counts the auxiliary bytes: the chain step at a record's start lands exactly behind its auxiliary area,
   whatever its length *)
Lemma len_with_tags r t : len (encode_rec (with_tags r t)) = len (encode_rec (with_tags r [])) + len t.
Proof. rewrite !len_varpart. cbn [with_tags b_name b_seq b_qual b_tags]. unfold cigar_bytes. cbn [with_tags b_cigar]. rewrite len_nil. lia. Qed.

Lemma chain_skips_tags pre post r t : fits (with_tags r t) ->
  find_next (pre ++ encode_rec (with_tags r t) ++ post) (len pre)
  = len pre + len (encode_rec (with_tags r [])) + len t.
Proof. intros Hf. rewrite block_size_at by assumption. rewrite len_with_tags. lia. Qed.

(* ================================================================= B. gzip members *)
Lemma raw_read_spec size : forall ms got ms', raw_read size ms = (got, ms') ->
  got ++ concat ms' = concat ms /\ (length got <= size)%nat
  /\ ((0 < size)%nat -> got = [] -> concat ms = [] /\ concat ms' = []).
Proof.
  induction ms as [|m rest IH]; intros got ms' H.
  - cbn in H. inversion H; subst. cbn. repeat split; auto; lia.
  - destruct m as [|x m].
    + cbn [raw_read] in H. cbn [concat app]. apply IH. exact H.
    + cbn [raw_read] in H. inversion H; subst; clear H.
      cbn [concat]. rewrite app_assoc, firstn_skipn.
      split; [reflexivity|]. split; [apply firstn_le_length|].
      intros Hs Hg. destruct size; [lia|]. cbn in Hg. discriminate.
Qed.

Lemma buffered_read_spec : forall fuel n ms, (n <= fuel)%nat ->
  exists ms', buffered_read fuel n ms = Some (firstn n (concat ms), ms') /\ concat ms' = skipn n (concat ms).
Proof.
  induction fuel as [|f IH]; intros n ms Hn.
  - assert (n = 0%nat) by lia. subst. exists ms. cbn. split; reflexivity.
  - destruct n as [|n'].
    + exists ms. cbn. split; reflexivity.
    + cbn [buffered_read].
      destruct (raw_read (S n') ms) as [got ms1] eqn:Hr.
      destruct (raw_read_spec _ _ _ _ Hr) as (Hcat & Hlen & Hempty).
      destruct got as [|g got'].
      * destruct (Hempty ltac:(lia) eq_refl) as [He He1]. exists ms1. rewrite He, He1. rewrite firstn_nil, skipn_nil. split; reflexivity.
      * set (got := g :: got') in *.
        assert (0 < length got)%nat as Hpos by (subst got; cbn; lia).
        destruct (IH (S n' - length got)%nat ms1 ltac:(lia)) as (ms2 & Hb & Hc).
        rewrite Hb. exists ms2. rewrite <- Hcat. split.
        -- rewrite firstn_app. rewrite (firstn_all2 got) by lia. reflexivity.
        -- rewrite Hc. rewrite skipn_app. rewrite (skipn_all2 got) by lia. reflexivity.
Qed.

(* file_obj.read(n) returns exactly the next n bytes of the concatenated payloads (fewer only at the end of the last
   member) and leaves the rest, wherever the member borders lie and however many empty members there are *)
Lemma stream_read_spec n ms :
  exists ms', stream_read n ms = Some (firstn (Z.to_nat n) (concat ms), ms')
              /\ concat ms' = skipn (Z.to_nat n) (concat ms).
Proof. unfold stream_read. apply buffered_read_spec. lia. Qed.

Lemma read_chunks_members_eq : forall fuel k ms prepend,
  read_chunks_members_fuel fuel k ms prepend = read_chunks_fuel fuel k (concat ms) prepend.
Proof.
  induction fuel as [|f IH]; intros k ms prepend; [reflexivity|].
  cbn [read_chunks_members_fuel read_chunks_fuel].
  destruct (stream_read_spec k ms) as (ms' & Hs & Hc).
  rewrite Hs. cbv beta iota zeta. rewrite <- Hc.
  destruct (len (firstn (Z.to_nat k) (concat ms)) =? 0); [reflexivity|].
  destruct (from_raw_buffer _) as [b|]; [|reflexivity].
  destruct (bf_starts b); [reflexivity|]. rewrite (IH k ms'). reflexivity.
Qed.

Lemma read_chunks_members_concat k ms : read_chunks_members k ms = read_chunks k (concat ms).
Proof. unfold read_chunks_members, read_chunks. apply read_chunks_members_eq. Qed.

(* a BAM file stored as ANY sequence of gzip members: the header reads consume exactly the header, and the chunk
   reader then yields a partition of the records in order, whole records only *)
Lemma members_file ms text refs rs k : header_valid text refs -> Forall fits rs -> 0 < k ->
  Forall (fun r => len (encode_rec r) <= k) rs ->
  concat ms = encode_file text refs rs ->
  read_file (concat ms) = Some (map fst refs, encode_header text refs, buf_of rs)
  /\ exists ms', stream_read (len (encode_header text refs)) ms = Some (encode_header text refs, ms')
       /\ concat ms' = encode_recs rs
       /\ exists groups, concat groups = rs /\ Forall (fun g => g <> []) groups
            /\ read_chunks_members k ms' = Some (map buf_of groups).
Proof.
  intros Hh Hf Hk Hle Hc. split.
  - rewrite Hc. apply read_file_correct; assumption.
  - destruct (stream_read_spec (len (encode_header text refs)) ms) as (ms' & Hs & Hr).
    exists ms'. rewrite Hs, Hr, Hc. unfold encode_file.
    rewrite firstn_len_app by reflexivity. rewrite skipn_len_app by reflexivity.
    split; [reflexivity|]. split; [reflexivity|].
    destruct (read_chunks_correct k Hk rs Hf Hle) as (groups & Hg1 & Hg2 & Hg3).
    exists groups. split; [assumption|]. split; [assumption|].
    rewrite read_chunks_members_concat. rewrite Hr, Hc. unfold encode_file. rewrite skipn_len_app by reflexivity. exact Hg3.
Qed.

(* any sequence of reads (the header parser's read(4) / read(1) / read(l_text) calls) returns the successive pieces of
   the concatenated payloads and leaves the rest: member borders are invisible to every reader built on file.read *)
Fixpoint pieces (ns : list Z) (l : list Z) : list (list Z) :=
  match ns with [] => [] | n :: r => firstn (Z.to_nat n) l :: pieces r (skipn (Z.to_nat n) l) end.
Fixpoint drop_all (ns : list Z) (l : list Z) : list Z :=
  match ns with [] => l | n :: r => drop_all r (skipn (Z.to_nat n) l) end.
Lemma stream_reads_spec : forall ns ms,
  exists ms', stream_reads ns ms = Some (pieces ns (concat ms), ms') /\ concat ms' = drop_all ns (concat ms).
Proof.
  induction ns as [|n r IH]; intros ms.
  - exists ms. split; reflexivity.
  - cbn [stream_reads pieces drop_all].
    destruct (stream_read_spec n ms) as (ms1 & -> & Hc).
    destruct (IH ms1) as (ms2 & -> & Hc2). exists ms2. rewrite <- Hc. split; [reflexivity|exact Hc2].
Qed.
Lemma skipn_skipn' {A} : forall (b a : nat) (l : list A), skipn a (skipn b l) = skipn (b + a) l.
Proof.
  induction b as [|b IH]; intros a l; [reflexivity|].
  destruct l as [|x l]; [rewrite !skipn_nil; reflexivity|]. cbn [skipn Nat.add]. apply IH.
Qed.
Lemma pieces_concat : forall ns l, Forall (fun n => 0 <= n) ns -> sumZ ns <= len l ->
  concat (pieces ns l) = firstn (Z.to_nat (sumZ ns)) l /\ drop_all ns l = skipn (Z.to_nat (sumZ ns)) l.
Proof.
  induction ns as [|n r IH]; intros l Hn Hs.
  - cbn. split; reflexivity.
  - inversion Hn as [|? ? Hn0 Hnr]; subst.
    change (sumZ (n :: r)) with (n + sumZ r) in *. cbn [pieces drop_all concat].
    assert (Hr : 0 <= sumZ r).
    { clear -Hnr. induction Hnr as [|x xs Hx _ IHx]; [cbn; lia|]. change (sumZ (x :: xs)) with (x + sumZ xs). lia. }
    destruct (IH (skipn (Z.to_nat n) l) Hnr) as [H1 H2].
    { unfold len in *. rewrite skipn_length. lia. }
    rewrite H1, H2. replace (Z.to_nat (n + sumZ r)) with (Z.to_nat n + Z.to_nat (sumZ r))%nat by lia.
    split.
    + rewrite <- (firstn_skipn (Z.to_nat n) l) at 3. rewrite firstn_app.
      rewrite firstn_length_le by (unfold len in *; lia).
      rewrite firstn_firstn. replace (Nat.min (Z.to_nat n + Z.to_nat (sumZ r)) (Z.to_nat n)) with (Z.to_nat n) by lia.
      replace (Z.to_nat n + Z.to_nat (sumZ r) - Z.to_nat n)%nat with (Z.to_nat (sumZ r)) by lia. reflexivity.
    + rewrite skipn_skipn'. reflexivity.
Qed.
Lemma stream_reads_compose ms ns : Forall (fun n => 0 <= n) ns -> sumZ ns <= len (concat ms) ->
  exists ms', stream_reads ns ms = Some (pieces ns (concat ms), ms')
    /\ concat (pieces ns (concat ms)) = firstn (Z.to_nat (sumZ ns)) (concat ms)
    /\ concat ms' = skipn (Z.to_nat (sumZ ns)) (concat ms).
Proof.
  intros Hn Hs. destruct (stream_reads_spec ns ms) as (ms' & H1 & H2).
  destruct (pieces_concat ns (concat ms) Hn Hs) as [H3 H4].
  exists ms'. split; [exact H1|]. split; [exact H3|]. rewrite H2. exact H4.
Qed.

(* ================================================================= C. selection, then decode *)
Lemma map_select {A B} (f : A -> B) (l : list A) idx : map f (select l idx) = select (map f l) idx.
Proof.
  unfold select. induction idx as [|i idx IH]; [reflexivity|].
  cbn [flat_map]. rewrite map_app, IH, nth_error_map.
  destruct (nth_error l (Z.to_nat i)); reflexivity.
Qed.
(* decode o select = select o decode, for the extractor model, any buffer (valid or not), any index list *)
Lemma decode_select_commute v names b idx :
  decode_buf v names (select_buf b idx) = select (decode_buf v names b) idx
  /\ intervals_buf v names (select_buf b idx) = select (intervals_buf v names b) idx.
Proof. unfold decode_buf, intervals_buf, select_buf. cbn [bf_data bf_starts]. split; apply map_select. Qed.

Lemma decode_selected_as_buf v names b idx : Forall (fun i => 0 <= i < len (bf_starts b)) idx ->
  decode_selected v names b idx = Some (decode_buf v names (select_buf b idx)).
Proof.
  intros Hidx. unfold decode_selected, decode_buf, select_buf, select. cbn [bf_data bf_starts].
  induction Hidx as [|i idx Hi _ IH]; [reflexivity|].
  cbn [map all_some flat_map].
  destruct (nth_error (bf_starts b) (Z.to_nat i)) as [s|] eqn:E.
  - replace i with (Z.of_nat (Z.to_nat i)) at 1 by lia. rewrite (py_index_nat _ _ _ E). cbn [option_map].
    rewrite IH. reflexivity.
  - apply nth_error_None in E. unfold len in Hi. lia.
Qed.

(* on a valid file: every column of a selection (and of a selection of a selection) is the spec value of exactly the
   selected records in the selection's order *)
Lemma nth_select {A} (l : list A) a : Forall (fun i => 0 <= i < len l) a ->
  forall n, nth_error (select l a) n
            = match nth_error a n with Some i => nth_error l (Z.to_nat i) | None => None end.
Proof.
  intros Ha. induction Ha as [|i a Hi _ IH]; intros n.
  - destruct n; reflexivity.
  - unfold select. cbn [flat_map]. fold (select l a).
    destruct (nth_error l (Z.to_nat i)) as [x|] eqn:E; [|apply nth_error_None in E; unfold len in Hi; lia].
    destruct n as [|n]; cbn [app nth_error]; [symmetry; exact E|apply IH].
Qed.
Lemma select_app {A} (l : list A) x y : select l (x ++ y) = select l x ++ select l y.
Proof. unfold select. apply flat_map_app. Qed.
Lemma select_select {A} (l : list A) a c : Forall (fun i => 0 <= i < len l) a ->
  select (select l a) c = select l (select a c).
Proof.
  intros Ha. induction c as [|j c IH]; [reflexivity|].
  change (select (select l a) (j :: c))
    with ((match nth_error (select l a) (Z.to_nat j) with Some x => [x] | None => [] end) ++ select (select l a) c).
  change (select a (j :: c))
    with ((match nth_error a (Z.to_nat j) with Some x => [x] | None => [] end) ++ select a c).
  rewrite IH, select_app. f_equal.
  rewrite (nth_select l a Ha).
  destruct (nth_error a (Z.to_nat j)) as [i|]; [|reflexivity].
  unfold select. cbn [flat_map]. rewrite app_nil_r. reflexivity.
Qed.

Lemma selection_decodes v B (HB : B <= 65536) (Hcb : forall n, 0 <= n < B -> v_cigar_bytes v n = 4 * n) names rs a c :
  Forall (rec_valid B) rs -> Forall (fun i => 0 <= i < len rs) a ->
  decode_buf v names (select_buf (buf_of rs) a) = map (fun r => spec_orec v r names) (select rs a)
  /\ intervals_buf v names (select_buf (buf_of rs) a) = map (fun r => spec_oiv v r names) (select rs a)
  /\ decode_buf v names (select_buf (select_buf (buf_of rs) a) c)
     = map (fun r => spec_orec v r names) (select (select rs a) c)
  /\ intervals_buf v names (select_buf (select_buf (buf_of rs) a) c)
     = map (fun r => spec_oiv v r names) (select (select rs a) c).
Proof.
  intros Hv Ha.
  destruct (decode_select_commute v names (buf_of rs) a) as [D1 I1].
  destruct (decode_select_commute v names (select_buf (buf_of rs) a) c) as [D2 I2].
  rewrite D2, I2, D1, I1.
  rewrite (decode_buf_correct v B HB Hcb names rs Hv), (intervals_buf_correct v B HB Hcb names rs Hv).
  rewrite !map_select. repeat split; reflexivity.
Qed.

(* Proofs/C02.v — placeholder, replaced below in the session *)
From Coq Require Import ZArith List Bool Lia.
From BNP Require Import Base.Prims Base.PrimsFacts Model.C02.
Import ListNotations.
Open Scope Z_scope.
Lemma vcf_position_shift : forall t j, typed_col t j TIntM1 = match typed_col t j TInt with Col c => Col (map (fun x => match x with CInt v => CInt (v - 1) | y => y end) c) | ColErr => ColErr end.
Proof. intros. unfold typed_col, opt_col. destruct (parse_int_col (t_data t) (bounds t j)); [|reflexivity]. rewrite map_map. reflexivity. Qed.

(* Proofs/C02.v — gathers the C02 proof files. *)
From BNP Require Export Proofs.C02_table Proofs.C02_int Proofs.C02_misc Proofs.C02_e2e Proofs.C02_fmt Proofs.C02_lines Proofs.C02_sam Proofs.C02_info Proofs.C02_geno Proofs.C02_fasta Proofs.C02_fasta_nf Proofs.C02_ic Proofs.C02_infolist Proofs.C02_genocodes Proofs.C02_select.

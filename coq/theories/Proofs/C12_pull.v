(* Proofs/C12_pull.v — what the pull machine (argument nodes asked in list order, stop at the first StopIteration)
   delivers for the source orders the public calls use: a data source asked FIRST is run to its end (pull_all);
   a data source asked after a finite source of N items is asked at most N times (pull_n N).  Hence the consumer
   observations of Model/C12.v (api_rows, api_flat, second stream of a zip) are what the machine computes. *)
From Coq Require Import ZArith List Bool Lia Arith.
From BNP Require Import Base.Prims Model.C12.
Import ListNotations.

Section Lockstep.
Variable U : Type.
Notation lockstep := (lockstep U).

Lemma lockstep_first1 : forall ys e fuel, (fuel > length ys)%nat ->
  lockstep fuel [(ys, e)] = match e with Stop => Done (map (fun y => [y]) ys) | Raise c => Err c end.
Proof.
  induction ys as [|y ys IH]; intros e fuel Hf; (destruct fuel as [|f]; [simpl in Hf; lia|]).
  - simpl. destruct e; reflexivity.
  - simpl. rewrite IH by (simpl in Hf; lia). destruct e; reflexivity.
Qed.
Lemma lockstep_first2 : forall ys e ss fuel, (length ys <= length ss)%nat -> (fuel > length ys)%nat ->
  lockstep fuel [(ys, e); (ss, Stop)]
  = match e with Stop => Done (map (fun p => [fst p; snd p]) (combine ys ss)) | Raise c => Err c end.
Proof.
  induction ys as [|y ys IH]; intros e ss fuel Hl Hf; (destruct fuel as [|f]; [simpl in Hf; lia|]).
  - simpl. destruct e; reflexivity.
  - destruct ss as [|s ss]; [simpl in Hl; lia|]. simpl. rewrite IH by (simpl in *; lia). destruct e; reflexivity.
Qed.
Lemma pull_n_cons {A} k (y : A) ys e : pull_n (S k) (y :: ys, e) = res_map (cons y) (pull_n k (ys, e)).
Proof.
  unfold pull_n, pull_all. simpl. destruct (k <=? length ys)%nat; [reflexivity|]. destruct e; reflexivity.
Qed.
Lemma lockstep_second3 : forall ns ys e ss fuel, (length ns <= length ss)%nat -> (fuel > length ns)%nat ->
  lockstep fuel [(ns, Stop); (ys, e); (ss, Stop)]
  = match pull_n (length ns) (ys, e) with
    | Done ys' => Done (map (fun p => [fst p; fst (snd p); snd (snd p)]) (combine ns (combine ys' ss)))
    | Err c => Err c
    end.
Proof.
  induction ns as [|n ns IH]; intros ys e ss fuel Hl Hf; (destruct fuel as [|f]; [simpl in Hf; lia|]).
  - reflexivity.
  - destruct ys as [|y ys].
    + simpl. unfold pull_n, pull_all. simpl. destruct e; reflexivity.
    + destruct ss as [|s ss]; [simpl in Hl; lia|].
      simpl length. rewrite pull_n_cons. simpl lockstep. rewrite IH by (simpl in *; lia).
      destruct (pull_n (length ns) (ys, e)); reflexivity.
Qed.
End Lockstep.

Lemma pull_n_map {A B} (f : A -> B) k ys e : pull_n k (map f ys, e) = res_map (map f) (pull_n k (ys, e)).
Proof.
  unfold pull_n, pull_all. simpl. rewrite map_length. destruct (k <=? length ys)%nat.
  - simpl. rewrite firstn_map. reflexivity.
  - destruct e; reflexivity.
Qed.
Lemma pull_n_length {A} k (t : trace A) ys : pull_n k t = Done ys -> (length ys <= k)%nat.
Proof.
  unfold pull_n, pull_all. destruct t as [l e]. simpl. destruct (k <=? length l)%nat eqn:E.
  - intros H. inversion H. rewrite firstn_length. lia.
  - apply Nat.leb_gt in E. destruct e; intros H; inversion H; subst. lia.
Qed.

(* decoding the rows the machine produced *)
Lemma decode_rows_spec : forall (names : list bname) (ys : list ids) (sizes : list Z),
  (length names <= length sizes)%nat ->
  decode_rows (map (fun p => [fst p; fst (snd p); snd (snd p)])
                   (combine (map IName names) (combine (map ITable ys) (map ISize sizes))))
  = flat_map (fun '(l, i) => map (pair l) i) (combine names ys).
Proof.
  induction names as [|n names IH]; intros ys sizes Hl; [reflexivity|].
  destruct ys as [|y ys]; [reflexivity|]. destruct sizes as [|s sizes]; [simpl in Hl; lia|].
  simpl. unfold decode_rows in *. simpl. f_equal. apply IH. simpl in Hl. lia.
Qed.
Lemma tables_of_pairs : forall (ys : list ids) (sizes : list Z), (length ys <= length sizes)%nat ->
  map row_table (map (fun p => [fst p; snd p]) (combine (map ITable ys) (map ISize sizes))) = ys.
Proof.
  induction ys as [|y ys IH]; intros sizes Hl; [reflexivity|]. destruct sizes as [|s sizes]; [simpl in Hl; lia|].
  simpl. f_equal. apply IH. simpl in Hl. lia.
Qed.
Lemma tables_of_triples : forall (ya ys : list ids) (sizes : list Z),
  (length ys <= length ya)%nat -> (length ya <= length sizes)%nat ->
  map row_table (map (fun p => [fst p; fst (snd p); snd (snd p)])
                     (combine (map IRef ya) (combine (map ITable ys) (map ISize sizes)))) = ys.
Proof.
  induction ya as [|a ya IH]; intros ys sizes H1 H2.
  - destruct ys; [reflexivity|simpl in H1; lia].
  - destruct ys as [|y ys]; [reflexivity|]. destruct sizes as [|s sizes]; [simpl in H2; lia|].
    simpl. f_equal. apply IH; simpl in *; lia.
Qed.

(* ---------- the consumer observations of the model are what the machine computes ---------- *)
(* get_data: names first.  N >= 1 included contigs, one size per contig. *)
Theorem machine_rows_is_api_rows : forall (names : list bname) (sizes : list Z) (t : trace ids),
  length sizes = length names -> names <> [] ->
  machine_rows names sizes t = api_rows bname names t.
Proof.
  intros names sizes [ys e] Hl Hn. unfold machine_rows, api_rows. f_equal.
  unfold run_machine, m_pull_order_get_data, source_of, SRC_NAMES, SRC_DATA, SRC_SIZES, SRC_FIRST. cbn [map Z.eqb Pos.eqb fst snd].
  rewrite lockstep_second3 by (rewrite !map_length; lia).
  rewrite map_length. rewrite pull_n_map.
  assert (Nat.max 1 (length names) = length names) as ->. { destruct names; [congruence|simpl; lia]. }
  unfold ids in *. destruct (pull_n (length names) (ys, e)) as [ys'|c]; simpl; [|reflexivity].
  f_equal. apply decode_rows_spec. lia.
Qed.
(* np.sum / gi.start: data first; the walk yields at most one table per included contig *)
Theorem machine_flat_is_api_flat : forall (sizes : list Z) (t : trace ids),
  (length (fst t) <= length sizes)%nat -> machine_flat sizes t = api_flat t.
Proof.
  intros sizes [ys e] Hl. simpl in Hl. unfold machine_flat, api_flat. f_equal.
  unfold run_machine, m_pull_order_reduce, source_of, SRC_NAMES, SRC_DATA, SRC_SIZES, SRC_FIRST. cbn [map Z.eqb Pos.eqb fst snd].
  rewrite lockstep_first2 by (rewrite !map_length; lia).
  unfold pull_all. simpl. destruct e; simpl; [|reflexivity].
  f_equal. f_equal. apply tables_of_pairs. exact Hl.
Qed.
(* zip(ms.a, ms.b, ms.lengths) with a first stream that delivers one table per contig and ends *)
Theorem machine_zip_second_is_pull_n : forall (ya : list ids) (sizes : list Z) (t : trace ids),
  length ya = length sizes ->
  machine_zip_second (ya, Stop) sizes t = pull_n (length sizes) t.
Proof.
  intros ya sizes [ys e] Hl. unfold machine_zip_second, run_machine, m_pull_order_zip, source_of, SRC_NAMES, SRC_DATA, SRC_SIZES, SRC_FIRST. cbn [map Z.eqb Pos.eqb fst snd].
  rewrite lockstep_second3 by (rewrite !map_length; lia).
  rewrite map_length, Hl. rewrite pull_n_map.
  unfold ids in *. destruct (pull_n (length sizes) (ys, e)) as [ys'|c] eqn:E; simpl; [|reflexivity].
  f_equal. apply pull_n_length in E. apply tables_of_triples; unfold ids in *; lia.
Qed.
Lemma tables_of_singles : forall ys : list ids, map row_table (map (fun y => [y]) (map ITable ys)) = ys.
Proof. induction ys as [|y ys IH]; [reflexivity|]. simpl. f_equal. exact IH. Qed.
Theorem machine_field_is_api_flat : forall t : trace ids, machine_field t = api_flat t.
Proof.
  intros [ys e]. unfold machine_field, api_flat. f_equal.
  unfold m_pull_order_field, source_of, SRC_NAMES, SRC_DATA, SRC_SIZES, SRC_FIRST. cbn [map Z.eqb Pos.eqb fst snd].
  rewrite lockstep_first1 by (rewrite map_length; lia).
  unfold pull_all. simpl. destruct e; simpl; [|reflexivity]. f_equal. f_equal. apply tables_of_singles.
Qed.

(* Proofs/C03_read.v — reading back: the reference reader applied to the canonical serialisation returns
   the table (delimited formats with text / int / int-list columns; FASTQ). *)
From Coq Require Import ZArith List Bool Lia Arith.
From BNP Require Import Base.Prims Base.PrimsFacts Model.C03.
From BNP Require Import Proofs.C03_int.
Import ListNotations.
Open Scope Z_scope.

(* ---------- split_on / lines ---------- *)
Lemma split_on_nonempty sep l : split_on sep l <> [].
Proof.
  induction l as [|x l IH]; cbn; [discriminate|].
  destruct (x =? sep); [discriminate|]. destruct (split_on sep l); discriminate.
Qed.
Lemma split_on_nosep sep a : ~ In sep a -> split_on sep a = [a].
Proof.
  induction a as [|x a IH]; intros H; [reflexivity|].
  cbn [split_on]. destruct (Z.eqb_spec x sep) as [->|Hne]; [exfalso; apply H; left; reflexivity|].
  rewrite IH by (intros Hin; apply H; right; exact Hin). reflexivity.
Qed.
Lemma split_on_app sep a b : ~ In sep a -> split_on sep (a ++ sep :: b) = a :: split_on sep b.
Proof.
  induction a as [|x a IH]; intros H.
  - cbn [app split_on]. rewrite Z.eqb_refl. reflexivity.
  - cbn [app split_on]. destruct (Z.eqb_spec x sep) as [->|Hne]; [exfalso; apply H; left; reflexivity|].
    rewrite IH by (intros Hin; apply H; right; exact Hin). reflexivity.
Qed.

Lemma split_lines (ls : list (list Z)) : Forall (fun l => ~ In 10 l) ls ->
  split_on 10 (concat (map (fun l => l ++ [10]) ls)) = ls ++ [[]].
Proof.
  induction 1 as [|l ls Hl _ IH]; [reflexivity|].
  cbn [map concat]. rewrite <- app_assoc. cbn [app]. rewrite split_on_app by exact Hl.
  rewrite IH. reflexivity.
Qed.
Theorem lines_terminated (ls : list (list Z)) : Forall (fun l => ~ In 10 l) ls ->
  lines (concat (map (fun l => l ++ [10]) ls)) = ls.
Proof.
  intros H. unfold lines. rewrite split_lines by exact H.
  rewrite rev_app_distr. cbn [rev app]. apply rev_involutive.
Qed.

Lemma intercalate_cons2 sep (x y : list Z) r :
  intercalate sep (x :: y :: r) = x ++ sep ++ intercalate sep (y :: r).
Proof. reflexivity. Qed.

Theorem split_intercalate sep (ts : list (list Z)) : ts <> [] -> Forall (fun t => ~ In sep t) ts ->
  split_on sep (intercalate [sep] ts) = ts.
Proof.
  intros Hne H. induction H as [|t ts Ht Hts IH]; [congruence|].
  destruct ts as [|t' ts].
  - cbn [intercalate]. apply split_on_nosep, Ht.
  - rewrite intercalate_cons2. cbn [app]. rewrite split_on_app by exact Ht. rewrite IH by discriminate. reflexivity.
Qed.

(* ---------- characters of the canonical numeral ---------- *)
Lemma dec_chars n : Forall (fun c => c = 45 \/ 48 <= c <= 57) (dec n).
Proof.
  assert (Hnat : forall m, 0 <= m -> Forall (fun c => c = 45 \/ 48 <= c <= 57) (dec_nat m)).
  { intros m Hm. destruct (dec_nat_digits m Hm) as [k [_ [He _]]]. rewrite He.
    apply Forall_forall. intros c Hc. apply in_map_iff in Hc. destruct Hc as [i [<- _]].
    right. unfold digit. pose proof (Z.mod_pos_bound (m / 10 ^ i) 10 ltac:(lia)). lia. }
  unfold dec. destruct (Z.ltb_spec n 0).
  - constructor; [left; reflexivity|]. apply Hnat. lia.
  - apply Hnat. lia.
Qed.
Lemma dec_nonempty n : dec n <> [].
Proof.
  unfold dec. destruct (Z.ltb_spec n 0); [discriminate|].
  destruct (dec_nat_digits n ltac:(lia)) as [k [Hk [He _]]]. rewrite He.
  destruct k; [lia|]. rewrite arange_from_snoc, rev_app_distr. discriminate.
Qed.
Lemma dec_no c n : c <> 45 -> ~ (48 <= c <= 57) -> ~ In c (dec n).
Proof.
  intros H1 H2 Hin. pose proof (dec_chars n) as H. rewrite Forall_forall in H.
  destruct (H c Hin); [congruence|tauto].
Qed.

(* ---------- cells ---------- *)
(* a cell that the reference reader returns unchanged under column kind k *)
Definition cell_ok (k : Z) (f : fld) : Prop :=
  match f with
  | FS s => (k = 0 \/ k = 6) /\ ~ In 9 s /\ ~ In 10 s
  | FI _ => k = 1
  | FL _ => k = 2
  | FQ q => k = 4 /\ Forall (fun x => 0 <= x) q
  | FF _ _ _ => False
  end.

Lemma all_some_map_parse l : all_some (map parse_int (map dec l)) = Some l.
Proof.
  induction l as [|x l IH]; [reflexivity|].
  cbn [map all_some]. rewrite parse_int_dec, IH. reflexivity.
Qed.

Lemma print_no_sep k f : cell_ok k f -> ~ In 9 (print_fld f) /\ ~ In 10 (print_fld f).
Proof.
  destruct f as [s|n|l|q|t a b]; cbn [cell_ok print_fld]; intros H.
  - tauto.
  - split; apply dec_no; lia.
  - assert (Hc : forall c, c <> 44 -> c <> 45 -> ~ (48 <= c <= 57) -> ~ In c (intercalate [44] (map dec l))).
    { intros c H1 H2 H3. induction l as [|x l IH]; [cbn; tauto|].
      destruct l as [|y l].
      - cbn [map intercalate]. apply dec_no; assumption.
      - cbn [map]. rewrite intercalate_cons2. cbn [map] in IH. intros Hin.
        apply in_app_or in Hin. destruct Hin as [Hin|Hin]; [revert Hin; apply dec_no; assumption|].
        cbn [app] in Hin. destruct Hin as [Hin|Hin]; [congruence|]. exact (IH Hin). }
    split; apply Hc; lia.
  - destruct H as [_ Hq]. split; intros Hin; apply in_map_iff in Hin; destruct Hin as [x [Hx Hin]];
      rewrite Forall_forall in Hq; specialize (Hq x Hin); lia.
  - contradiction.
Qed.

Lemma parse_print k f : cell_ok k f -> parse_fld k (print_fld f) = Some f.
Proof.
  destruct f as [s|n|l|q|t a b]; cbn [cell_ok print_fld]; intros H.
  - destruct H as [[->| ->] _]; reflexivity.
  - subst k. unfold parse_fld. cbn [Z.eqb Pos.eqb]. rewrite parse_int_dec. reflexivity.
  - subst k. unfold parse_fld. cbn [Z.eqb Pos.eqb].
    destruct l as [|x l]; [reflexivity|].
    assert (Hne : intercalate [44] (map dec (x :: l)) <> []).
    { cbn [map]. destruct (map dec l); [cbn [intercalate]; apply dec_nonempty|].
      rewrite intercalate_cons2. intros E. apply app_eq_nil in E. destruct E as [E _]. exact (dec_nonempty x E). }
    destruct (intercalate [44] (map dec (x :: l))) eqn:E; [congruence|]. rewrite <- E.
    rewrite split_intercalate.
    + rewrite all_some_map_parse. reflexivity.
    + discriminate.
    + apply Forall_forall. intros t Ht. apply in_map_iff in Ht. destruct Ht as [y [<- _]].
      apply dec_no; lia.
  - destruct H as [-> _]. unfold parse_fld. cbn [Z.eqb Pos.eqb]. rewrite map_map.
    rewrite (map_ext (fun x => x + 33 - 33) (fun x => x)) by (intros; lia). rewrite map_id. reflexivity.
  - contradiction.
Qed.

Lemma parse_fields_print : forall (schema : list Z) (r : row),
  Forall2 cell_ok schema r -> parse_fields schema (map print_fld r) = Some r.
Proof.
  induction 1 as [|k f ks r Hkf _ IH]; [reflexivity|].
  cbn [map parse_fields].
  assert (Hk5 : (k =? 5) = false).
  { apply Z.eqb_neq. destruct f; cbn in Hkf; lia. }
  rewrite Hk5. cbn [andb]. rewrite (parse_print k f Hkf), IH. reflexivity.
Qed.

(* ---------- delimited files ---------- *)
Theorem parse_serialise_delim (schema : list Z) (rows : list row) :
  schema <> [] -> Forall (Forall2 cell_ok schema) rows ->
  parse_raw Delim schema (serialise Delim rows) = Some rows.
Proof.
  intros Hs Hrows. cbn [parse_raw]. unfold serialise. cbn [ser_row].
  unfold ser_delim.
  rewrite <- (map_map (fun r => intercalate [9] (map print_fld r)) (fun l => l ++ [10])).
  rewrite lines_terminated.
  - rewrite map_map. induction Hrows as [|r rows Hr _ IH]; [reflexivity|].
    cbn [map all_some]. rewrite IH. unfold parse_line at 1.
    rewrite split_intercalate.
    + rewrite (parse_fields_print schema r Hr). reflexivity.
    + destruct Hr; [congruence|discriminate].
    + apply Forall_forall. intros t Ht. apply in_map_iff in Ht. destruct Ht as [f [<- Hf]].
      assert (exists k, cell_ok k f) as [k Hk].
      { clear -Hr Hf. induction Hr as [|k f' ks r Hkf _ IH]; [contradiction|].
        destruct Hf as [->|Hf]; [exists k; exact Hkf|apply IH, Hf]. }
      apply (print_no_sep k f Hk).
  - apply Forall_forall. intros t Ht. apply in_map_iff in Ht. destruct Ht as [r [<- Hr]].
    rewrite Forall_forall in Hrows. specialize (Hrows r Hr).
    clear -Hrows. induction Hrows as [|k f ks r Hkf _ IH]; [cbn; tauto|].
    destruct r as [|f' r].
    + cbn [map intercalate]. apply (print_no_sep k f Hkf).
    + cbn [map]. rewrite intercalate_cons2. cbn [map] in IH. intros Hin.
      apply in_app_or in Hin. destruct Hin as [Hin|Hin]; [exact (proj2 (print_no_sep k f Hkf) Hin)|].
      cbn [app] in Hin. destruct Hin as [Hin|Hin]; [discriminate|]. exact (IH Hin).
Qed.

(* the reader as it is additionally needs a non-empty cell in every identifier column *)
Theorem parse_file_serialise_delim (schema : list Z) (rows : list row) :
  schema <> [] -> Forall (Forall2 cell_ok schema) rows -> id_cols_ok schema rows = true ->
  parse_file Delim schema (serialise Delim rows) = Some rows.
Proof.
  intros Hs Hrows Hid. unfold parse_file. rewrite parse_serialise_delim by assumption.
  rewrite Hid, orb_true_r. reflexivity.
Qed.

(* ---------- FASTQ ---------- *)
Definition fastq_row_ok (r : row) : Prop :=
  exists n s q, r = [FS n; FS s; FQ q] /\ ~ In 10 n /\ ~ In 10 s /\ Forall (fun x => 0 <= x) q.
Definition fastq_lines (r : row) : list (list Z) :=
  match r with
  | [n; s; q] => [64 :: print_fld n; print_fld s; [43]; print_fld q]
  | _ => []
  end.

Lemma parse_fastq_lines rows : Forall fastq_row_ok rows -> forall fuel, (length rows <= fuel)%nat ->
  parse_fastq fuel (flat_map fastq_lines rows) = Some rows.
Proof.
  induction 1 as [|r rows Hr _ IH]; intros fuel Hf.
  - destruct fuel; reflexivity.
  - destruct fuel as [|fuel]; [cbn in Hf; lia|].
    destruct Hr as [n [s [q [-> [Hn [Hs Hq]]]]]].
    cbn [flat_map fastq_lines app parse_fastq print_fld]. rewrite Z.eqb_refl.
    change (zlist_eqb [43] [43]) with true. cbn [andb].
    rewrite IH by (cbn in Hf; lia). cbn [option_map].
    rewrite map_map. rewrite (map_ext (fun x => x + 33 - 33) (fun x => x)) by (intros; lia). rewrite map_id. reflexivity.
Qed.

Theorem parse_serialise_fastq (schema : list Z) (rows : list row) : Forall fastq_row_ok rows ->
  parse_raw Fastq schema (serialise Fastq rows) = Some rows.
Proof.
  intros Hrows. cbn [parse_raw].
  assert (E : serialise Fastq rows = concat (map (fun l => l ++ [10]) (flat_map fastq_lines rows))).
  { unfold serialise. induction Hrows as [|r rows Hr _ IH]; [reflexivity|].
    destruct Hr as [n [s [q [-> _]]]].
    cbn [map concat flat_map fastq_lines]. rewrite map_app, concat_app, <- IH.
    cbn [ser_row map concat app print_fld]. repeat (rewrite <- ?app_assoc; cbn [app]). rewrite ?app_nil_r. reflexivity. }
  rewrite E, lines_terminated.
  - apply parse_fastq_lines; [exact Hrows|].
    clear E. induction Hrows as [|r rows Hr _ IH]; [cbn; lia|].
    destruct Hr as [n [s [q [-> _]]]]. cbn [flat_map fastq_lines app length]. cbn [length] in IH. lia.
  - apply Forall_forall. intros l Hl. apply in_flat_map in Hl. destruct Hl as [r [Hr Hl]].
    rewrite Forall_forall in Hrows. destruct (Hrows r Hr) as [n [s [q [-> [Hn [Hs Hq]]]]]].
    cbn [fastq_lines print_fld] in Hl.
    destruct Hl as [<-|[<-|[<-|[<-|[]]]]].
    + intros [H|H]; [discriminate|tauto].
    + exact Hs.
    + intros [H|[]]; discriminate.
    + intros Hin. apply in_map_iff in Hin. destruct Hin as [x [Hx Hin]].
      rewrite Forall_forall in Hq. specialize (Hq x Hin). lia.
Qed.

(* Proofs/C03_read.v — reading back: the reference reader applied to the canonical serialisation returns
   the table (delimited formats with text / int / int-list columns; FASTQ). *)
From Coq Require Import ZArith List Bool Lia Arith.
From BNP Require Import Base.Prims Base.PrimsFacts Model.C03.
From BNP Require Import Proofs.C03_int.
Import ListNotations.
Open Scope Z_scope.

(* ---------- split_on / lines ---------- *)
Lemma split_on_nonempty sep l : split_on sep l <> [].
Proof.
  induction l as [|x l IH]; cbn; [discriminate|].
  destruct (x =? sep); [discriminate|]. destruct (split_on sep l); discriminate.
Qed.
Lemma split_on_nosep sep a : ~ In sep a -> split_on sep a = [a].
Proof.
  induction a as [|x a IH]; intros H; [reflexivity|].
  cbn [split_on]. destruct (Z.eqb_spec x sep) as [->|Hne]; [exfalso; apply H; left; reflexivity|].
  rewrite IH by (intros Hin; apply H; right; exact Hin). reflexivity.
Qed.
Lemma split_on_app sep a b : ~ In sep a -> split_on sep (a ++ sep :: b) = a :: split_on sep b.
Proof.
  induction a as [|x a IH]; intros H.
  - cbn [app split_on]. rewrite Z.eqb_refl. reflexivity.
  - cbn [app split_on]. destruct (Z.eqb_spec x sep) as [->|Hne]; [exfalso; apply H; left; reflexivity|].
    rewrite IH by (intros Hin; apply H; right; exact Hin). reflexivity.
Qed.

Lemma split_lines (ls : list (list Z)) : Forall (fun l => ~ In 10 l) ls ->
  split_on 10 (concat (map (fun l => l ++ [10]) ls)) = ls ++ [[]].
Proof.
  induction 1 as [|l ls Hl _ IH]; [reflexivity|].
  cbn [map concat]. rewrite <- app_assoc. cbn [app]. rewrite split_on_app by exact Hl.
  rewrite IH. reflexivity.
Qed.
Theorem lines_terminated (ls : list (list Z)) : Forall (fun l => ~ In 10 l) ls ->
  lines (concat (map (fun l => l ++ [10]) ls)) = ls.
Proof.
  intros H. unfold lines. rewrite split_lines by exact H.
  rewrite rev_app_distr. cbn [rev app]. apply rev_involutive.
Qed.

Lemma intercalate_cons2 sep (x y : list Z) r :
  intercalate sep (x :: y :: r) = x ++ sep ++ intercalate sep (y :: r).
Proof. reflexivity. Qed.

Theorem split_intercalate sep (ts : list (list Z)) : ts <> [] -> Forall (fun t => ~ In sep t) ts ->
  split_on sep (intercalate [sep] ts) = ts.
Proof.
  intros Hne H. induction H as [|t ts Ht Hts IH]; [congruence|].
  destruct ts as [|t' ts].
  - cbn [intercalate]. apply split_on_nosep, Ht.
  - rewrite intercalate_cons2. cbn [app]. rewrite split_on_app by exact Ht. rewrite IH by discriminate. reflexivity.
Qed.

(* ---------- characters of the canonical numeral ---------- *)
Lemma dec_chars n : Forall (fun c => c = 45 \/ 48 <= c <= 57) (dec n).
Proof.
  assert (Hnat : forall m, 0 <= m -> Forall (fun c => c = 45 \/ 48 <= c <= 57) (dec_nat m)).
  { intros m Hm. destruct (dec_nat_digits m Hm) as [k [_ [He _]]]. rewrite He.
    apply Forall_forall. intros c Hc. apply in_map_iff in Hc. destruct Hc as [i [<- _]].
    right. unfold digit. pose proof (Z.mod_pos_bound (m / 10 ^ i) 10 ltac:(lia)). lia. }
  unfold dec. destruct (Z.ltb_spec n 0).
  - constructor; [left; reflexivity|]. apply Hnat. lia.
  - apply Hnat. lia.
Qed.
Lemma dec_nonempty n : dec n <> [].
Proof.
  unfold dec. destruct (Z.ltb_spec n 0); [discriminate|].
  destruct (dec_nat_digits n ltac:(lia)) as [k [Hk [He _]]]. rewrite He.
  destruct k; [lia|]. rewrite arange_from_snoc, rev_app_distr. discriminate.
Qed.
Lemma dec_no c n : c <> 45 -> ~ (48 <= c <= 57) -> ~ In c (dec n).
Proof.
  intros H1 H2 Hin. pose proof (dec_chars n) as H. rewrite Forall_forall in H.
  destruct (H c Hin); [congruence|tauto].
Qed.

(* ---------- more on split_on / intercalate ---------- *)
Lemma intercalate_split sep (l : list Z) : intercalate [sep] (split_on sep l) = l.
Proof.
  induction l as [|x l IH]; [reflexivity|].
  cbn [split_on]. destruct (Z.eqb_spec x sep) as [->|Hne].
  - pose proof (split_on_nonempty sep l) as Hn. destruct (split_on sep l) as [|h t] eqn:E; [congruence|].
    rewrite intercalate_cons2, IH. reflexivity.
  - pose proof (split_on_nonempty sep l) as Hn. destruct (split_on sep l) as [|h t] eqn:E; [congruence|].
    destruct t as [|h' t].
    + cbn [intercalate] in *. rewrite IH. reflexivity.
    + rewrite intercalate_cons2. rewrite intercalate_cons2 in IH. rewrite <- IH. reflexivity.
Qed.
(* the last piece may itself contain separators (the SAM tags column) *)
Lemma split_intercalate_last sep (ts : list (list Z)) (e : list Z) : Forall (fun t => ~ In sep t) ts ->
  split_on sep (intercalate [sep] (ts ++ [e])) = ts ++ split_on sep e.
Proof.
  induction 1 as [|t ts Ht _ IH]; [reflexivity|].
  cbn [app]. destruct (ts ++ [e]) as [|y r] eqn:E; [destruct ts; discriminate|].
  rewrite intercalate_cons2. cbn [app]. rewrite split_on_app by exact Ht. rewrite IH. reflexivity.
Qed.
Lemma not_in_intercalate c sep (ts : list (list Z)) : c <> sep -> Forall (fun t => ~ In c t) ts ->
  ~ In c (intercalate [sep] ts).
Proof.
  intros Hc. induction 1 as [|t ts Ht _ IH]; [cbn; tauto|].
  destruct ts as [|y r]; [exact Ht|]. rewrite intercalate_cons2. intros Hin.
  apply in_app_or in Hin. destruct Hin as [Hin|Hin]; [exact (Ht Hin)|].
  cbn [app] in Hin. destruct Hin as [Hin|Hin]; [congruence|exact (IH Hin)].
Qed.

(* ---------- cells ---------- *)
Section Read.
(* how the text of a float cell is read back as an exact rational: a parameter *)
Variable pf : list Z -> option (Z * Z).

(* a cell that the reference reader returns unchanged under column kind k *)
Definition cell_ok (k : Z) (f : fld) : Prop :=
  match f with
  | FS s => (k = 0 \/ k = 6) /\ ~ In 9 s /\ ~ In 10 s
  | FI _ => k = 1
  | FL _ => k = 2
  | FQ q => k = 4 /\ Forall (fun x => 0 <= x) q
  | FF t n d => k = 3 /\ pf t = Some (n, d) /\ ~ In 9 t /\ ~ In 10 t
  end.

Lemma all_some_map_parse l : all_some (map parse_int (map dec l)) = Some l.
Proof.
  induction l as [|x l IH]; [reflexivity|].
  cbn [map all_some]. rewrite parse_int_dec, IH. reflexivity.
Qed.

Lemma print_no_sep k f : cell_ok k f -> ~ In 9 (print_fld f) /\ ~ In 10 (print_fld f).
Proof.
  destruct f as [s|n|l|q|t a b]; cbn [cell_ok print_fld]; intros H.
  - tauto.
  - split; apply dec_no; lia.
  - split; apply not_in_intercalate; try lia; apply Forall_forall; intros t Ht;
      apply in_map_iff in Ht; destruct Ht as [x [<- _]]; apply dec_no; lia.
  - destruct H as [_ Hq]. split; intros Hin; apply in_map_iff in Hin; destruct Hin as [x [Hx Hin]];
      rewrite Forall_forall in Hq; specialize (Hq x Hin); lia.
  - tauto.
Qed.

Lemma cell_kind_not_rest k f : cell_ok k f -> (k =? 5) = false.
Proof. intros H. apply Z.eqb_neq. destruct f; cbn in H; lia. Qed.

Lemma parse_print k f : cell_ok k f -> parse_fld_with pf k (print_fld f) = Some f.
Proof.
  destruct f as [s|n|l|q|t a b]; cbn [cell_ok print_fld]; intros H.
  - destruct H as [[->| ->] _]; reflexivity.
  - subst k. unfold parse_fld_with. cbn [Z.eqb Pos.eqb]. rewrite parse_int_dec. reflexivity.
  - subst k. unfold parse_fld_with. cbn [Z.eqb Pos.eqb].
    destruct l as [|x l]; [reflexivity|].
    assert (Hne : intercalate [44] (map dec (x :: l)) <> []).
    { cbn [map]. destruct (map dec l); [cbn [intercalate]; apply dec_nonempty|].
      rewrite intercalate_cons2. intros E. apply app_eq_nil in E. destruct E as [E _]. exact (dec_nonempty x E). }
    destruct (intercalate [44] (map dec (x :: l))) eqn:E; [congruence|]. rewrite <- E.
    rewrite split_intercalate.
    + rewrite all_some_map_parse. reflexivity.
    + discriminate.
    + apply Forall_forall. intros t Ht. apply in_map_iff in Ht. destruct Ht as [y [<- _]].
      apply dec_no; lia.
  - destruct H as [-> _]. unfold parse_fld_with. cbn [Z.eqb Pos.eqb]. rewrite map_map.
    rewrite (map_ext (fun x => x + 33 - 33) (fun x => x)) by (intros; lia). rewrite map_id. reflexivity.
  - destruct H as [-> [Hp _]]. unfold parse_fld_with. cbn [Z.eqb Pos.eqb]. rewrite Hp. reflexivity.
Qed.

Lemma parse_fields_print : forall (schema : list Z) (r : row),
  Forall2 cell_ok schema r -> parse_fields_with pf schema (map print_fld r) = Some r.
Proof.
  induction 1 as [|k f ks r Hkf _ IH]; [reflexivity|].
  cbn [map parse_fields_with]. rewrite (cell_kind_not_rest k f Hkf). cbn [andb].
  rewrite (parse_print k f Hkf), IH. reflexivity.
Qed.
(* rest-of-line column: the remaining pieces are glued back with TABs *)
Lemma parse_fields_rest : forall (ks : list Z) (fs : row) (pieces : list (list Z)),
  Forall2 cell_ok ks fs -> pieces <> [] ->
  parse_fields_with pf (ks ++ [5]) (map print_fld fs ++ pieces) = Some (fs ++ [FS (intercalate [9] pieces)]).
Proof.
  induction 1 as [|k f ks r Hkf _ IH]; intros Hp.
  - cbn [app map parse_fields_with]. destruct pieces; [congruence|]. reflexivity.
  - cbn [app map parse_fields_with]. rewrite (cell_kind_not_rest k f Hkf). cbn [andb].
    rewrite (parse_print k f Hkf), (IH Hp). reflexivity.
Qed.
(* ... and a line that stops before that column has an empty one *)
Lemma parse_fields_missing_rest : forall (ks : list Z) (fs : row),
  Forall2 cell_ok ks fs ->
  parse_fields_with pf (ks ++ [5]) (map print_fld fs) = Some (fs ++ [FS []]).
Proof.
  induction 1 as [|k f ks r Hkf _ IH]; [reflexivity|].
  cbn [app map parse_fields_with]. rewrite (cell_kind_not_rest k f Hkf). cbn [andb].
  rewrite (parse_print k f Hkf), IH. reflexivity.
Qed.

(* a row the reader returns unchanged: typed cells, optionally followed by a rest-of-line text cell *)
Definition row_ok (schema : list Z) (r : row) : Prop :=
  (schema <> [] /\ Forall2 cell_ok schema r)
  \/ (exists ks fs e, schema = ks ++ [5] /\ r = fs ++ [FS e] /\ Forall2 cell_ok ks fs /\ ~ In 10 e).

Definition line_of (r : row) : list Z := intercalate [9] (map print_fld r).

Lemma Forall2_cells_no c (Hc : c = 9 \/ c = 10) ks fs :
  Forall2 cell_ok ks fs -> Forall (fun t => ~ In c t) (map print_fld fs).
Proof.
  induction 1 as [|k f ks r Hkf _ IH]; [constructor|].
  cbn [map]. constructor; [|exact IH].
  destruct Hc as [-> | ->]; apply (print_no_sep k f Hkf).
Qed.

Lemma line_no_newline schema r : row_ok schema r -> ~ In 10 (line_of r).
Proof.
  unfold line_of. intros [[_ H]|[ks [fs [e [-> [-> [H He]]]]]]].
  - apply not_in_intercalate; [lia|]. apply (Forall2_cells_no 10 (or_intror eq_refl) _ _ H).
  - apply not_in_intercalate; [lia|]. rewrite map_app. apply Forall_app. split.
    + apply (Forall2_cells_no 10 (or_intror eq_refl) _ _ H).
    + constructor; [exact He|constructor].
Qed.

Theorem parse_line_print schema r : row_ok schema r -> parse_line_with pf schema (line_of r) = Some r.
Proof.
  unfold parse_line_with, line_of. intros [[Hs H]|[ks [fs [e [-> [-> [H He]]]]]]].
  - rewrite split_intercalate.
    + apply parse_fields_print, H.
    + destruct H; [congruence|discriminate].
    + apply (Forall2_cells_no 9 (or_introl eq_refl) _ _ H).
  - rewrite map_app. cbn [map print_fld]. rewrite split_intercalate_last
      by apply (Forall2_cells_no 9 (or_introl eq_refl) _ _ H).
    rewrite parse_fields_rest; [|exact H|apply split_on_nonempty].
    rewrite intercalate_split. reflexivity.
Qed.

(* the SAM-standard spelling of "no optional tags" (no trailing TAB, written by the lazy path) reads back as the
   same row as the 12-column spelling of the eager writer (trailing TAB) *)
Theorem parse_line_empty_rest_spellings ks fs : ks <> [] -> Forall2 cell_ok ks fs ->
  parse_line_with pf (ks ++ [5]) (line_of fs) = Some (fs ++ [FS []])
  /\ parse_line_with pf (ks ++ [5]) (line_of (fs ++ [FS []])) = Some (fs ++ [FS []]).
Proof.
  intros Hk H. split.
  - unfold parse_line_with, line_of. rewrite split_intercalate.
    + apply parse_fields_missing_rest, H.
    + destruct H; [congruence|discriminate].
    + apply (Forall2_cells_no 9 (or_introl eq_refl) _ _ H).
  - apply parse_line_print. right. exists ks, fs, []. repeat split; auto.
Qed.

(* ---------- delimited files ---------- *)
Lemma serialise_delim_lines rows : serialise Delim rows = concat (map (fun l => l ++ [10]) (map line_of rows)).
Proof. unfold serialise. rewrite map_map. reflexivity. Qed.

Lemma parse_lines schema rows : Forall (row_ok schema) rows ->
  all_some (map (parse_line_with pf schema) (map line_of rows)) = Some rows.
Proof.
  induction 1 as [|r rows Hr _ IH]; [reflexivity|].
  cbn [map all_some]. rewrite (parse_line_print schema r Hr), IH. reflexivity.
Qed.
Lemma lines_no_newline schema rows : Forall (row_ok schema) rows -> Forall (fun l => ~ In 10 l) (map line_of rows).
Proof.
  intros H. apply Forall_forall. intros l Hl. apply in_map_iff in Hl. destruct Hl as [r [<- Hr]].
  rewrite Forall_forall in H. apply (line_no_newline schema r (H r Hr)).
Qed.

Theorem parse_serialise_delim_rows (schema : list Z) (rows : list row) :
  Forall (row_ok schema) rows -> parse_raw_with pf Delim schema (serialise Delim rows) = Some rows.
Proof.
  intros H. cbn [parse_raw_with]. rewrite serialise_delim_lines, lines_terminated by (apply (lines_no_newline schema), H).
  apply parse_lines, H.
Qed.

(* ---------- VCF: '#' header lines are skipped, POS is read back 0-based ---------- *)
Definition header_of (hls : list (list Z)) : list Z := concat (map (fun l => l ++ [10]) hls).
Definition header_line_ok (l : list Z) : Prop := is_comment l = true /\ ~ In 10 l.
Definition vcf_row_ok (schema : list Z) (r : row) : Prop :=
  schema <> [] /\ Forall2 cell_ok schema r /\ exists c s rest, r = FS (c :: s) :: rest /\ c <> 35.

Lemma vcf_shift_inv r : vcf_shift (-1) (vcf_shift 1 r) = r.
Proof. destruct r as [|c [|[s|p|l|q|t a b] rest]]; try reflexivity. cbn. do 2 f_equal. f_equal. lia. Qed.
Lemma vcf_shift_cells schema r d : Forall2 cell_ok schema r -> Forall2 cell_ok schema (vcf_shift d r).
Proof.
  intros H. destruct H as [|k c ks r Hc H]; [constructor|].
  destruct H as [|k' f ks r Hf H]; [repeat constructor; assumption|].
  destruct f; cbn [vcf_shift]; constructor; try assumption; constructor; assumption.
Qed.
Lemma drop_comments_header hls body : Forall header_line_ok hls ->
  Forall (fun l => is_comment l = false) body -> drop_comments (hls ++ body) = body.
Proof.
  induction 1 as [|l hls [Hl _] _ IH]; intros Hb.
  - destruct Hb as [|b body Hb _]; [reflexivity|]. cbn [app drop_comments]. rewrite Hb. reflexivity.
  - cbn [app drop_comments]. rewrite Hl. apply IH, Hb.
Qed.

Theorem parse_serialise_vcf (schema : list Z) (hls : list (list Z)) (rows : list row) :
  Forall header_line_ok hls -> Forall (vcf_row_ok schema) rows ->
  parse_raw_with pf Vcf schema (header_of hls ++ serialise Vcf rows) = Some rows.
Proof.
  intros Hh Hr. cbn [parse_raw_with].
  assert (Hshift : Forall (row_ok schema) (map (vcf_shift 1) rows)).
  { apply Forall_forall. intros r' Hr'. apply in_map_iff in Hr'. destruct Hr' as [r [<- Hin]].
    rewrite Forall_forall in Hr. destruct (Hr r Hin) as [Hs [Hc _]]. left. split; [exact Hs|].
    apply vcf_shift_cells, Hc. }
  assert (E : header_of hls ++ serialise Vcf rows
              = concat (map (fun l => l ++ [10]) (hls ++ map line_of (map (vcf_shift 1) rows)))).
  { unfold header_of, serialise. rewrite map_app, concat_app. f_equal. rewrite !map_map. reflexivity. }
  rewrite E, lines_terminated.
  - rewrite drop_comments_header.
    + rewrite (parse_lines schema _ Hshift). cbn [option_map]. f_equal.
      rewrite map_map. rewrite (map_ext _ (fun r => r)) by apply vcf_shift_inv. apply map_id.
    + exact Hh.
    + apply Forall_forall. intros l Hl. apply in_map_iff in Hl. destruct Hl as [r' [<- Hr']].
      apply in_map_iff in Hr'. destruct Hr' as [r [<- Hin]].
      rewrite Forall_forall in Hr. destruct (Hr r Hin) as [_ [_ [c [s [rest [-> Hc]]]]]].
      unfold line_of. destruct rest as [|f rest].
      * cbn. apply Z.eqb_neq, Hc.
      * assert (Ex : exists f' rest', vcf_shift 1 (FS (c :: s) :: f :: rest) = FS (c :: s) :: f' :: rest').
        { destruct f; cbn [vcf_shift]; eauto. }
        destruct Ex as [f' [rest' ->]]. cbn [map print_fld]. rewrite intercalate_cons2. cbn. apply Z.eqb_neq, Hc.
  - apply Forall_app. split.
    + eapply Forall_impl; [|exact Hh]. intros l [_ H]. exact H.
    + apply (lines_no_newline schema), Hshift.
Qed.
End Read.


(* ---------- the SAM-standard spelling of a whole file: no TAB before an empty tags cell ---------- *)
Definition sam_std_line (fs : row) (e : list Z) : list Z :=
  match e with [] => line_of fs | _ => line_of (fs ++ [FS e]) end.
Theorem parse_sam_std pf (ks : list Z) (recs : list (row * list Z)) :
  ks <> [] -> Forall (fun p => Forall2 (cell_ok pf) ks (fst p) /\ ~ In 10 (snd p)) recs ->
  parse_raw_with pf Delim (ks ++ [5]) (concat (map (fun p => sam_std_line (fst p) (snd p) ++ [10]) recs))
  = Some (map (fun p => fst p ++ [FS (snd p)]) recs).
Proof.
  intros Hk H. cbn [parse_raw_with].
  rewrite <- (map_map (fun p => sam_std_line (fst p) (snd p)) (fun l => l ++ [10])).
  rewrite lines_terminated.
  - rewrite map_map. induction H as [|[fs e] recs [Hc He] _ IH]; [reflexivity|].
    cbn [map all_some fst snd]. rewrite IH.
    assert (E : parse_line_with pf (ks ++ [5]) (sam_std_line fs e) = Some (fs ++ [FS e])).
    { destruct e as [|x e].
      - apply (parse_line_empty_rest_spellings pf ks fs Hk Hc).
      - apply parse_line_print. right. exists ks, fs, (x :: e). repeat split; auto. }
    rewrite E. reflexivity.
  - apply Forall_forall. intros l Hl. apply in_map_iff in Hl. destruct Hl as [[fs e] [<- Hin]].
    rewrite Forall_forall in H. destruct (H _ Hin) as [Hc He]. cbn [fst snd] in *.
    destruct e as [|x e].
    + apply (line_no_newline pf ks fs). left. split; [exact Hk|exact Hc].
    + apply (line_no_newline pf (ks ++ [5])). right. exists ks, fs, (x :: e). repeat split; auto.
Qed.


(* the canonical SAM line (Spec) is the SAM-standard spelling *)
Lemma ser_sam_std (fs : row) (e : list Z) : ser_sam (fs ++ [FS e]) = sam_std_line fs e ++ [10].
Proof.
  unfold ser_sam, sam_std_line, line_of. rewrite map_app. cbn [map print_fld].
  rewrite last_last, removelast_last. destruct e; reflexivity.
Qed.
(* SAM tables: eleven (any number >= 1 of) typed cells and the tags cell; reader o serialise = id *)
Definition sam_row_ok pf (ks : list Z) (r : row) : Prop :=
  exists fs e, r = fs ++ [FS e] /\ Forall2 (cell_ok pf) ks fs /\ ~ In 10 e.
Theorem parse_serialise_sam pf (ks : list Z) (rows : list row) :
  ks <> [] -> Forall (sam_row_ok pf ks) rows ->
  parse_raw_with pf Sam (ks ++ [5]) (serialise Sam rows) = Some rows.
Proof.
  intros Hk Hrows.
  assert (Hex : exists recs : list (row * list Z),
             rows = map (fun p => fst p ++ [FS (snd p)]) recs
             /\ Forall (fun p => Forall2 (cell_ok pf) ks (fst p) /\ ~ In 10 (snd p)) recs).
  { induction Hrows as [|r rows [fs [e [-> [Hc He]]]] _ [recs [-> Hall]]].
    - exists []. split; [reflexivity|constructor].
    - exists ((fs, e) :: recs). split; [reflexivity|]. constructor; [split; assumption|exact Hall]. }
  destruct Hex as [recs [-> Hall]].
  etransitivity; [|apply (parse_sam_std pf ks recs Hk Hall)].
  cbn [parse_raw_with]. do 3 f_equal.
  unfold serialise. rewrite map_map. f_equal. apply map_ext. intros p. cbn [ser_row]. apply ser_sam_std.
Qed.

(* the instance used by the correspondence (float values not recomputed) *)
Theorem parse_file_serialise_delim (schema : list Z) (rows : list row) :
  Forall (row_ok no_float_value schema) rows ->
  parse_file Delim schema (serialise Delim rows) = Some rows.
Proof. intros Hrows. unfold parse_file, parse_raw. apply parse_serialise_delim_rows, Hrows. Qed.

(* float tables under an explicit printer: if the reader inverts the printer (round-trip hypothesis) and the
   printer emits no TAB / LF, a table whose float cells carry the printer's text is read back unchanged *)
Definition cell_ok_printer (pr : Z -> Z -> list Z) (pf : list Z -> option (Z * Z)) (k : Z) (f : fld) : Prop :=
  match f with
  | FF t n d => k = 3 /\ t = pr n d
  | _ => cell_ok pf k f
  end.
Theorem parse_serialise_floats (pr : Z -> Z -> list Z) (pf : list Z -> option (Z * Z)) :
  (forall n d, pf (pr n d) = Some (n, d)) ->
  (forall n d, ~ In 9 (pr n d) /\ ~ In 10 (pr n d)) ->
  forall (schema : list Z) (rows : list row), schema <> [] ->
    Forall (Forall2 (cell_ok_printer pr pf) schema) rows ->
    parse_raw_with pf Delim schema (serialise Delim rows) = Some rows.
Proof.
  intros Hrt Hsep schema rows Hs Hrows. apply parse_serialise_delim_rows.
  eapply Forall_impl; [|exact Hrows]. intros r Hr. left. split; [exact Hs|].
  clear Hs Hrows. induction Hr as [|k f ks r' Hkf _ IH]; constructor; [|exact IH].
  destruct f; try exact Hkf.
  destruct Hkf as [-> ->]. cbn [cell_ok]. split; [reflexivity|]. split; [apply Hrt|apply Hsep].
Qed.

(* ---------- FASTQ ---------- *)
Definition fastq_row_ok (r : row) : Prop :=
  exists n s q, r = [FS n; FS s; FQ q] /\ ~ In 10 n /\ ~ In 10 s /\ Forall (fun x => 0 <= x) q.
Definition fastq_lines (r : row) : list (list Z) :=
  match r with
  | [n; s; q] => [64 :: print_fld n; print_fld s; [43]; print_fld q]
  | _ => []
  end.

Lemma parse_fastq_lines rows : Forall fastq_row_ok rows -> forall fuel, (length rows <= fuel)%nat ->
  parse_fastq fuel (flat_map fastq_lines rows) = Some rows.
Proof.
  induction 1 as [|r rows Hr _ IH]; intros fuel Hf.
  - destruct fuel; reflexivity.
  - destruct fuel as [|fuel]; [cbn in Hf; lia|].
    destruct Hr as [n [s [q [-> [Hn [Hs Hq]]]]]].
    cbn [flat_map fastq_lines app parse_fastq print_fld]. rewrite Z.eqb_refl.
    change (zlist_eqb [43] [43]) with true. cbn [andb].
    rewrite IH by (cbn in Hf; lia). cbn [option_map].
    rewrite map_map. rewrite (map_ext (fun x => x + 33 - 33) (fun x => x)) by (intros; lia). rewrite map_id. reflexivity.
Qed.

Theorem parse_serialise_fastq (schema : list Z) (rows : list row) : Forall fastq_row_ok rows ->
  parse_raw Fastq schema (serialise Fastq rows) = Some rows.
Proof.
  intros Hrows. unfold parse_raw. cbn [parse_raw_with].
  assert (E : serialise Fastq rows = concat (map (fun l => l ++ [10]) (flat_map fastq_lines rows))).
  { unfold serialise. induction Hrows as [|r rows Hr _ IH]; [reflexivity|].
    destruct Hr as [n [s [q [-> _]]]].
    cbn [map concat flat_map fastq_lines]. rewrite map_app, concat_app, <- IH.
    cbn [ser_row map concat app print_fld]. repeat (rewrite <- ?app_assoc; cbn [app]). rewrite ?app_nil_r. reflexivity. }
  rewrite E, lines_terminated.
  - apply parse_fastq_lines; [exact Hrows|].
    clear E. induction Hrows as [|r rows Hr _ IH]; [cbn; lia|].
    destruct Hr as [n [s [q [-> _]]]]. cbn [flat_map fastq_lines app length]. cbn [length] in IH. lia.
  - apply Forall_forall. intros l Hl. apply in_flat_map in Hl. destruct Hl as [r [Hr Hl]].
    rewrite Forall_forall in Hrows. destruct (Hrows r Hr) as [n [s [q [-> [Hn [Hs Hq]]]]]].
    cbn [fastq_lines print_fld] in Hl.
    destruct Hl as [<-|[<-|[<-|[<-|[]]]]].
    + intros [H|H]; [discriminate|tauto].
    + exact Hs.
    + intros [H|[]]; discriminate.
    + intros Hin. apply in_map_iff in Hin. destruct Hin as [x [Hx Hin]].
      rewrite Forall_forall in Hq. specialize (Hq x Hin). lia.
Qed.

(* ---------- FASTA: wrapped sequence lines are concatenated back; empty sequences included ---------- *)
Lemma wrap_fuel_chunks w : forall f s,
  wrap_fuel f w s = concat (map (fun l => l ++ [10]) (chunks_of_fuel f w s)).
Proof.
  induction f as [|f IH]; intros s; [reflexivity|].
  cbn [wrap_fuel chunks_of_fuel]. destruct s as [|x s]; [reflexivity|].
  cbn [map concat]. rewrite IH, <- app_assoc. reflexivity.
Qed.
Lemma wrap_chunks w s : wrap w s = concat (map (fun l => l ++ [10]) (chunks_of (Z.to_nat w) s)).
Proof. apply wrap_fuel_chunks. Qed.

Lemma chunks_fuel_facts w : (1 <= w)%nat -> forall f (s : list Z), (length s <= f)%nat ->
  concat (chunks_of_fuel f w s) = s
  /\ Forall (fun c => c <> [] /\ forall x : Z, In x c -> In x s) (chunks_of_fuel f w s).
Proof.
  intros Hw. induction f as [|f IH]; intros s Hf.
  - destruct s; [|cbn in Hf; lia]. split; [reflexivity|constructor].
  - cbn [chunks_of_fuel]. destruct s as [|x s]; [split; [reflexivity|constructor]|].
    destruct (IH (skipn w (x :: s))) as [Hc Hall].
    { rewrite skipn_length. cbn [length] in *. lia. }
    split.
    + cbn [concat]. rewrite Hc. apply firstn_skipn.
    + constructor.
      * split.
        -- destruct w; [lia|]. discriminate.
        -- intros y Hy. rewrite <- (firstn_skipn w (x :: s)). apply in_or_app. left. exact Hy.
      * eapply Forall_impl; [|exact Hall]. intros c [Hne Hin]. split; [exact Hne|].
        intros y Hy. rewrite <- (firstn_skipn w (x :: s)). apply in_or_app. right. apply Hin, Hy.
Qed.

Definition fasta_row_ok (r : row) : Prop :=
  exists n s, r = [FS n; FS s] /\ ~ In 10 n /\ ~ In 10 s /\ ~ In 62 s.
Definition fasta_lines (w : Z) (r : row) : list (list Z) :=
  match r with
  | [n; s] => (62 :: print_fld n) :: chunks_of (Z.to_nat w) (print_fld s)
  | _ => []
  end.

Lemma serialise_fasta_lines w rows : Forall fasta_row_ok rows ->
  serialise (Fasta w) rows = concat (map (fun l => l ++ [10]) (flat_map (fasta_lines w) rows)).
Proof.
  unfold serialise. induction 1 as [|r rows Hr _ IH]; [reflexivity|].
  destruct Hr as [n [s [-> _]]].
  cbn [map concat flat_map fasta_lines print_fld ser_row]. rewrite map_app, concat_app, <- IH.
  cbn [map concat]. rewrite wrap_chunks. repeat (rewrite <- ?app_assoc; cbn [app]). reflexivity.
Qed.

(* sequence lines accumulate into the open record *)
Lemma parse_fasta_chunks n : forall chunks acc b rest,
  Forall (fun c => c <> [] /\ ~ In 62 c) chunks ->
  parse_fasta (Some (n, acc, b)) (chunks ++ rest)
  = parse_fasta (Some (n, acc ++ concat chunks, b || nonempty chunks)) rest.
Proof.
  induction chunks as [|c chunks IH]; intros acc b rest H.
  - cbn. rewrite app_nil_r, orb_false_r. reflexivity.
  - inversion H as [|? ? [Hne H62] H']; subst. cbn [app parse_fasta].
    destruct c as [|x c]; [congruence|].
    destruct (Z.eqb_spec x 62) as [->|_]; [exfalso; apply H62; left; reflexivity|].
    rewrite IH by exact H'. cbn [concat nonempty]. rewrite <- app_assoc, orb_true_r.
    destruct (nonempty chunks); rewrite ?orb_true_r; reflexivity.
Qed.

Lemma parse_fasta_rows w : (1 <= w) -> forall rows, Forall fasta_row_ok rows -> forall cur,
  parse_fasta cur (flat_map (fasta_lines w) rows)
  = match close_rec cur with Some a => Some (a ++ rows) | None => None end.
Proof.
  intros Hw. induction 1 as [|r rows Hr _ IH]; intros cur.
  - cbn. destruct (close_rec cur); [rewrite app_nil_r|]; reflexivity.
  - destruct Hr as [n [s [-> [Hn [Hs H62]]]]].
    cbn [flat_map fasta_lines print_fld app]. cbn [parse_fasta]. rewrite Z.eqb_refl.
    destruct (chunks_fuel_facts (Z.to_nat w) ltac:(lia) (length s) s (le_n _)) as [Hc Hall].
    fold (chunks_of (Z.to_nat w) s) in Hc, Hall.
    rewrite parse_fasta_chunks.
    + rewrite IH. cbn [app]. rewrite Hc.
      assert (Hclose : close_rec (Some (n, s, false || nonempty (chunks_of (Z.to_nat w) s))) = Some [[FS n; FS s]]).
      { destruct (false || nonempty (chunks_of (Z.to_nat w) s)); reflexivity. }
      rewrite Hclose. destruct (close_rec cur); reflexivity.
    + eapply Forall_impl; [|exact Hall]. intros c [Hne Hin]. split; [exact Hne|].
      intros H. apply H62, Hin, H.
Qed.

Theorem parse_serialise_fasta (w : Z) (schema : list Z) (rows : list row) :
  1 <= w -> Forall fasta_row_ok rows ->
  parse_raw (Fasta w) schema (serialise (Fasta w) rows) = Some rows.
Proof.
  intros Hw Hrows. unfold parse_raw. cbn [parse_raw_with].
  rewrite serialise_fasta_lines by exact Hrows. rewrite lines_terminated.
  - rewrite (parse_fasta_rows w Hw rows Hrows None). reflexivity.
  - apply Forall_forall. intros l Hl. apply in_flat_map in Hl. destruct Hl as [r [Hr Hl]].
    rewrite Forall_forall in Hrows. destruct (Hrows r Hr) as [n [s [-> [Hn [Hs _]]]]].
    cbn [fasta_lines print_fld] in Hl. destruct Hl as [<-|Hl].
    + intros [H|H]; [discriminate|exact (Hn H)].
    + destruct (chunks_fuel_facts (Z.to_nat w) ltac:(lia) (length s) s (le_n _)) as [_ Hall].
      fold (chunks_of (Z.to_nat w) s) in Hall. rewrite Forall_forall in Hall.
      intros H. apply Hs. apply (proj2 (Hall l Hl)), H.
Qed.

(* ---------- non-vacuity of the float hypothesis: an exact printer/reader pair ("num/den") ---------- *)
Definition ratio_print (n d : Z) : list Z := dec n ++ [47] ++ dec d.
Definition ratio_read (t : list Z) : option (Z * Z) :=
  match split_on 47 t with
  | [a; b] => match parse_int a, parse_int b with Some n, Some d => Some (n, d) | _, _ => None end
  | _ => None
  end.
Lemma ratio_roundtrip n d : ratio_read (ratio_print n d) = Some (n, d).
Proof.
  unfold ratio_read, ratio_print. cbn [app]. rewrite split_on_app by (apply dec_no; lia).
  rewrite split_on_nosep by (apply dec_no; lia). rewrite !parse_int_dec. reflexivity.
Qed.
Lemma ratio_no_sep n d : ~ In 9 (ratio_print n d) /\ ~ In 10 (ratio_print n d).
Proof.
  unfold ratio_print. split; intros H; apply in_app_or in H; destruct H as [H|H];
    try (revert H; apply dec_no; lia); cbn [app] in H; destruct H as [H|H]; try discriminate;
    revert H; apply dec_no; lia.
Qed.

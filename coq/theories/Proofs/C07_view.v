(* Proofs/C07_view.v — the ragged view algebra: what a (buffer, starts, lengths, column step) view of npstructures
   denotes after row indexing, column slicing, reversal and ravel() is the list-of-rows meaning that g_step uses —
   for contiguous and non-contiguous views alike (no assumption relates starts to each other or to the lengths). *)
From Coq Require Import ZArith List Bool Lia Arith.
From BNP Require Import Base.Prims Base.PrimsFacts Model.C07 Proofs.C07.
Import ListNotations.
Open Scope Z_scope.
Ltac Zify.zify_post_hook ::= Z.to_euclidean_division_equations.

(* ---------- arange, gather ---------- *)
Lemma nth_error_arange_from : forall n a k, (k < n)%nat -> nth_error (arange_from a n) k = Some (a + Z.of_nat k).
Proof.
  induction n as [|n IH]; intros a k H; [lia|].
  destruct k as [|k]; simpl.
  - f_equal. lia.
  - rewrite IH by lia. f_equal. lia.
Qed.
Lemma nth_error_map_arange {A} (f : Z -> A) L p : 0 <= p < L ->
  nth_error (map f (arange L)) (Z.to_nat p) = Some (f p).
Proof.
  intros H. unfold arange. rewrite nth_error_map, nth_error_arange_from by lia. simpl. f_equal. f_equal. lia.
Qed.
Lemma gather_map_arange {A} (f : Z -> A) (g : Z -> Z) L : forall l,
  (forall k, In k l -> 0 <= g k < L) ->
  gather (map f (arange L)) (map g l) = map (fun k => f (g k)) l.
Proof.
  induction l as [|k l IH]; intros H; [reflexivity|].
  unfold gather in *. simpl. rewrite nth_error_map_arange by (apply H; left; reflexivity).
  simpl. f_equal. apply IH. intros k' Hk'. apply H. right. exact Hk'.
Qed.
Lemma len_arange L : len (arange L) = Z.max 0 L.
Proof. unfold len, arange. rewrite length_arange_from. lia. Qed.
Lemma len_rv_row data step s l : len (rv_row data step s l) = Z.max 0 l.
Proof. unfold rv_row, len. rewrite map_length. fold (len (arange l)). apply len_arange. Qed.

Lemma nth_error_map2 {A B C} (f : A -> B -> C) : forall a b n, length a = length b ->
  nth_error (map2 f a b) n = match nth_error a n, nth_error b n with Some x, Some y => Some (f x y) | _, _ => None end.
Proof.
  induction a as [|x a IH]; intros [|y b] n H; simpl in H; try discriminate.
  - destruct n; reflexivity.
  - destruct n; simpl; [reflexivity|]. apply IH. lia.
Qed.
Lemma gather_map2 {A B C} (f : A -> B -> C) a b : length a = length b -> forall pos,
  gather (map2 f a b) pos = map2 f (gather a pos) (gather b pos).
Proof.
  intros H. induction pos as [|p pos IH]; [reflexivity|].
  unfold gather in *. simpl. rewrite nth_error_map2 by exact H.
  destruct (nth_error a (Z.to_nat p)) as [x|] eqn:Ea; destruct (nth_error b (Z.to_nat p)) as [y|] eqn:Eb; simpl.
  - f_equal. exact IH.
  - exfalso. apply nth_error_None in Eb. assert (nth_error a (Z.to_nat p) <> None) by congruence.
    apply nth_error_Some in H0. lia.
  - exfalso. apply nth_error_None in Ea. assert (nth_error b (Z.to_nat p) <> None) by congruence.
    apply nth_error_Some in H0. lia.
  - exact IH.
Qed.
Lemma gather_length_eq {A B} (a : list A) (b : list B) : length a = length b -> forall pos,
  length (gather a pos) = length (gather b pos).
Proof.
  intros H. induction pos as [|p pos IH]; [reflexivity|].
  unfold gather in *. simpl. rewrite !app_length, IH. f_equal.
  destruct (nth_error a (Z.to_nat p)) eqn:Ea; destruct (nth_error b (Z.to_nat p)) eqn:Eb; try reflexivity; exfalso.
  - apply nth_error_None in Eb. assert (nth_error a (Z.to_nat p) <> None) by congruence. apply nth_error_Some in H0. lia.
  - apply nth_error_None in Ea. assert (nth_error b (Z.to_nat p) <> None) by congruence. apply nth_error_Some in H0. lia.
Qed.
Lemma map2_length {A B C} (f : A -> B -> C) : forall a b, length a = length b -> length (map2 f a b) = length a.
Proof. induction a; intros [|y b] H; simpl in *; try discriminate; [reflexivity|]. rewrite IHa by lia. reflexivity. Qed.
Lemma map2_ext_in {A B C} (f g : A -> B -> C) : forall a b,
  (forall x y, In x a -> In y b -> f x y = g x y) -> map2 f a b = map2 g a b.
Proof.
  induction a as [|x a IH]; intros [|y b] H; simpl; try reflexivity.
  rewrite H by (left; reflexivity). f_equal. apply IH. intros; apply H; right; assumption.
Qed.
Lemma map_map2 {A B C D} (g : C -> D) (f : A -> B -> C) : forall a b, map g (map2 f a b) = map2 (fun x y => g (f x y)) a b.
Proof. induction a; intros [|y b]; simpl; try reflexivity. rewrite IHa. reflexivity. Qed.
Lemma map2_map_l {A A' B C} (f : A' -> B -> C) (h : A -> A') : forall a b, map2 f (map h a) b = map2 (fun x y => f (h x) y) a b.
Proof. induction a; intros [|y b]; simpl; try reflexivity. rewrite IHa. reflexivity. Qed.
Lemma map2_map2_l {A B C D} (f : C -> B -> D) (h : A -> B -> C) : forall a b,
  map2 f (map2 h a b) b = map2 (fun x y => f (h x y) y) a b.
Proof. induction a; intros [|y b]; simpl; try reflexivity. rewrite IHa. reflexivity. Qed.

(* ---------- rows: indexing the (start, length) table ---------- *)
Theorem view_rowsel_rows : forall v s v', rv_wf v -> v_rowsel v s = Some v' ->
  sel_rows (rv_rows v) s = Some (rv_rows v') /\ rv_wf v'.
Proof.
  intros v s v' [Hl Hp] H. unfold v_rowsel in H. unfold sel_rows, rv_rows.
  assert (E : len (map2 (rv_row (rv_data v) (rv_step v)) (rv_starts v) (rv_lens v)) = len (rv_starts v))
    by (unfold len; rewrite map2_length by exact Hl; reflexivity).
  rewrite E. destruct (sel_pos (len (rv_starts v)) s) as [pos|]; [|discriminate].
  inversion H; subst v'; simpl. split.
  - rewrite gather_map2 by exact Hl. reflexivity.
  - split; [apply gather_length_eq; exact Hl|].
    apply Forall_forall. intros x Hx. unfold gather in Hx. apply in_flat_map in Hx. destruct Hx as [p [_ Hx]].
    destruct (nth_error (rv_lens v) (Z.to_nat p)) eqn:En; [|destruct Hx].
    destruct Hx as [Hx|[]]. subst. rewrite Forall_forall in Hp. apply Hp. eapply nth_error_In. exact En.
Qed.

(* ---------- columns: positive step ---------- *)
Lemma pos_count a b st L : 0 < st -> 0 <= L ->
  let start := pcs_start a L in let stop := pcs_stop b L in
  slice_indices L a b (Some st)
  = map (fun k => start + k * st) (arange (Z.max 0 ((stop - start + (st - 1)) / st)))
  /\ 0 <= start /\ stop <= L.
Proof.
  intros Hst HL start stop. unfold slice_indices.
  replace (st =? 0) with false by (symmetry; apply Z.eqb_neq; lia).
  replace (0 <? st) with true by (symmetry; apply Z.ltb_lt; lia).
  replace (st <? 0) with false by (symmetry; apply Z.ltb_ge; lia).
  assert (Es : match a with None => 0 | Some x => if x <? 0 then Z.max (x + L) 0 else Z.min x L end = start).
  { unfold start, pcs_start. destruct a as [x|]; [|reflexivity].
    destruct (Z.ltb_spec x 0); destruct (Z.leb_spec 0 x); lia. }
  assert (Ee : match b with None => L | Some x => if x <? 0 then Z.max (x + L) 0 else Z.min x L end = stop).
  { unfold stop, pcs_stop. destruct b as [x|]; [|reflexivity]. destruct (Z.ltb_spec x 0); lia. }
  rewrite Es, Ee.
  assert (B1 : 0 <= start) by (unfold start, pcs_start; destruct a as [x|]; [destruct (Z.leb_spec 0 x); lia|lia]).
  assert (B2 : stop <= L) by (unfold stop, pcs_stop; destruct b as [x|]; [destruct (Z.ltb_spec x 0); lia|lia]).
  split; [|split; assumption].
  f_equal. f_equal. destruct (start <? stop) eqn:E.
  - apply Z.ltb_lt in E. replace (stop - start + st - 1) with (stop - start + (st - 1)) by lia.
    assert (0 <= (stop - start + (st - 1)) / st) by (apply Z.div_pos; lia). lia.
  - apply Z.ltb_ge in E. assert ((stop - start + (st - 1)) / st <= 0); [|lia].
    assert ((stop - start + (st - 1)) / st < 1); [|lia]. apply Z.div_lt_upper_bound; lia.
Qed.
Lemma pos_row data step s L a b st : 0 < st -> 0 <= L ->
  rv_row data (step * st) (s + step * pcs_start a L) (Z.max 0 ((pcs_stop b L - pcs_start a L + (st - 1)) / st))
  = col_slice a b (Some st) (rv_row data step s L).
Proof.
  intros Hst HL. unfold col_slice. rewrite len_rv_row. replace (Z.max 0 L) with L by lia.
  destruct (pos_count a b st L Hst HL) as [E [B1 B2]]. rewrite E. unfold rv_row at 2.
  set (cnt := Z.max 0 ((pcs_stop b L - pcs_start a L + (st - 1)) / st)) in *.
  rewrite gather_map_arange.
  - unfold rv_row. apply map_ext. intros k. f_equal. ring.
  - intros k Hk. apply In_arange in Hk. split; [nia|].
    assert (cnt * st <= pcs_stop b L - pcs_start a L + (st - 1)).
    { unfold cnt. destruct (Z.max_spec 0 ((pcs_stop b L - pcs_start a L + (st - 1)) / st)) as [[_ Em]|[Hm Em]]; rewrite Em.
      - rewrite Z.mul_comm. apply Z.mul_div_le. lia.
      - lia. }
    nia.
Qed.
Theorem view_colslice_pos_rows : forall v a b st, rv_wf v -> 0 < st ->
  rv_rows (v_colslice_pos v a b st) = map (col_slice a b (Some st)) (rv_rows v) /\ rv_wf (v_colslice_pos v a b st).
Proof.
  intros v a b st [Hl Hp] Hst. unfold rv_rows, v_colslice_pos. simpl. split.
  - rewrite map_map2. rewrite map2_map_r. rewrite map2_map2_l.
    apply map2_ext_in. intros s L _ HL. rewrite Forall_forall in Hp. apply pos_row; [exact Hst|apply Hp; exact HL].
  - unfold rv_wf. simpl. split; [rewrite map2_length by exact Hl; rewrite map_length; exact Hl|].
    apply Forall_forall. intros x Hx. apply in_map_iff in Hx. destruct Hx as [L [E _]]. subst. lia.
Qed.

(* ---------- columns: reversal ---------- *)
Lemma rev_row data step s L : 0 <= L ->
  rv_row data (-1 * step) (s + step * ncs_start None L) (ncs_len None None (-1) L)
  = col_slice None None (Some (-1)) (rv_row data step s L).
Proof.
  intros HL. unfold col_slice. rewrite len_rv_row. replace (Z.max 0 L) with L by lia.
  assert (El : ncs_len None None (-1) L = L).
  { unfold ncs_len. cbv zeta. change (Z.abs (-1)) with 1. rewrite Z.div_1_r. change (Z.sgn (-1)) with (-1).
    repeat match goal with
           | |- context [Z.ltb ?a ?b] => destruct (Z.ltb_spec a b)
           | |- context [Z.leb ?a ?b] => destruct (Z.leb_spec a b)
           | |- context [Z.eqb ?a ?b] => destruct (Z.eqb_spec a b)
           end; cbn [negb orb andb]; lia. }
  assert (Es : ncs_start None L = Z.max (L - 1) 0) by (unfold ncs_start; lia).
  assert (Ei : slice_indices L None None (Some (-1)) = map (fun k => (L - 1) + k * -1) (arange L)).
  { unfold slice_indices. simpl. f_equal. f_equal.
    destruct (-1 <? L - 1) eqn:E; [apply Z.ltb_lt in E|apply Z.ltb_ge in E].
    - replace (L - 1 - -1 - -1 - 1) with L by lia. apply Z.div_1_r.
    - lia. }
  rewrite El, Es, Ei. unfold rv_row at 2. rewrite gather_map_arange.
  - unfold rv_row. apply map_ext_in. intros k Hk. apply In_arange in Hk. f_equal.
    replace (Z.max (L - 1) 0) with (L - 1) by lia. ring.
  - intros k Hk. apply In_arange in Hk. lia.
Qed.
Theorem view_reverse_rows : forall v, rv_wf v ->
  rv_rows (v_colslice_neg v None None (-1)) = map (col_slice None None (Some (-1))) (rv_rows v)
  /\ rv_wf (v_colslice_neg v None None (-1)).
Proof.
  intros v [Hl Hp]. unfold rv_rows, v_colslice_neg. simpl rv_data. simpl rv_starts. simpl rv_lens. simpl rv_step. split.
  - rewrite map_map2. rewrite map2_map_r. rewrite map2_map2_l.
    apply map2_ext_in. intros s L _ HL. rewrite Forall_forall in Hp. apply rev_row. apply Hp. exact HL.
  - unfold rv_wf. simpl rv_starts. simpl rv_lens. split; [rewrite map2_length by exact Hl; rewrite map_length; exact Hl|].
    apply Forall_forall. intros x Hx. apply in_map_iff in Hx. destruct Hx as [L [E HL]]. subst.
    rewrite Forall_forall in Hp. specialize (Hp L HL). unfold ncs_len. cbv zeta.
    destruct (Z.eq_dec L 0) as [E0|E0]; [subst; simpl; lia|].
    destruct (negb _ || _ || _ || _ || _); [lia|].
    assert (0 <= (Z.abs (Z.max (Z.min (-1) (L - 1)) (-1) - Z.max (Z.min (L - 1) (L - 1)) 0) - 1) / Z.abs (-1)); [|lia].
    apply Z.div_pos; lia.
Qed.
(* a general negative-step column slice as npstructures computes it is NOT Python's slice when a row is empty and
   the start is given: the empty row comes back with one element (finding C07-nps-negstep-empty-row) *)
Theorem view_colslice_neg_refuted : exists v a b st, rv_wf v /\ st < 0 /\
  rv_rows (v_colslice_neg v a b st) <> map (col_slice a b (Some st)) (rv_rows v).
Proof.
  exists (rv_of_rows [[]; [65; 67; 71]]), (Some 0), None, (-1). split; [|split; [lia|]].
  - split; [reflexivity|]. repeat constructor; unfold len; simpl; lia.
  - vm_compute. discriminate.
Qed.

(* ---------- a fresh array, and ravel() ---------- *)
Lemma rv_of_rows_gen : forall rows pre post,
  map2 (rv_row (pre ++ concat rows ++ post) 1) (starts_from (len pre) (map len rows)) (map len rows) = rows.
Proof.
  induction rows as [|r rows IH]; intros pre post; [reflexivity|].
  simpl map. simpl starts_from. simpl map2. f_equal.
  - unfold rv_row. simpl concat. rewrite <- app_assoc.
    transitivity (map (nthZ (pre ++ r ++ concat rows ++ post)) (arange_from (len pre) (length r))).
    + unfold arange. rewrite Z2N_len.
      transitivity (map (fun k => nthZ (pre ++ r ++ concat rows ++ post) (len pre + k)) (arange_from 0 (length r))).
      * apply map_ext. intros k. f_equal. ring.
      * rewrite map_shift. rewrite Z.add_0_r. reflexivity.
    + apply map_nth_arange_from.
  - simpl concat. replace (pre ++ (r ++ concat rows) ++ post) with ((pre ++ r) ++ concat rows ++ post)
      by (rewrite <- !app_assoc; reflexivity).
    replace (len pre + len r) with (len (pre ++ r)) by apply len_app. apply IH.
Qed.
Theorem view_of_rows : forall rows, rv_rows (rv_of_rows rows) = rows /\ rv_wf (rv_of_rows rows).
Proof.
  intros rows. split.
  - unfold rv_rows, rv_of_rows. simpl. rewrite starts_of_from.
    pose proof (rv_of_rows_gen rows [] []) as H. simpl in H. rewrite app_nil_r in H. exact H.
  - split.
    + unfold rv_of_rows. simpl. rewrite starts_of_from. generalize 0.
      induction rows as [|r rows IH]; intros z; simpl; [reflexivity|]. rewrite IH. reflexivity.
    + unfold rv_of_rows. simpl. apply Forall_forall. intros x Hx. apply in_map_iff in Hx.
      destruct Hx as [r [E _]]. subst. apply len_nonneg.
Qed.

Lemma cumsum_from_app : forall a b acc, cumsum_from acc (a ++ b) = cumsum_from acc a ++ cumsum_from (acc + sumZ a) b.
Proof.
  induction a as [|x a IH]; intros b acc; simpl; [f_equal; lia|].
  rewrite IH. f_equal. f_equal. f_equal. lia.
Qed.
Lemma cumsum_from_repeat step : forall n acc,
  cumsum_from acc (repeat step n) = map (fun k => acc + k * step) (arange_from 1 n).
Proof.
  intros n acc. replace acc with (acc + 0 * step) at 1 by lia.
  replace (arange_from 1 n) with (arange_from (0 + 1) n) by reflexivity. generalize 0 as j.
  induction n as [|n IH]; intros j; [reflexivity|].
  simpl. f_equal; [lia|]. replace (acc + j * step + step) with (acc + (j + 1) * step) by lia. apply IH.
Qed.
Lemma sumZ_repeat step n : sumZ (repeat step n) = Z.of_nat n * step.
Proof. induction n; simpl sumZ; [lia|]. rewrite IHn. lia. Qed.
Lemma flat_indices_gen step : forall starts lens acc prev,
  (prev = Some acc \/ (prev = None /\ acc = 0)) ->
  cumsum_from acc (vb_builder step prev starts lens)
  = concat (map2 (fun s l => map (fun k => s + k * step) (arange l)) starts lens).
Proof.
  induction starts as [|s starts IH]; intros [|l lens] acc prev Hp; try reflexivity.
  simpl vb_builder. simpl map2. simpl concat. destruct (l <=? 0) eqn:El.
  - apply Z.leb_le in El. unfold arange at 1. replace (Z.to_nat l) with O by lia. simpl. apply IH. exact Hp.
  - apply Z.leb_gt in El. simpl cumsum_from.
    assert (Ea : acc + match prev with Some p => s - p | None => s end = s).
    { destruct Hp as [Hp|[Hp Hz]]; subst; lia. }
    rewrite Ea. rewrite cumsum_from_app, cumsum_from_repeat, sumZ_repeat.
    unfold arange at 1. replace (Z.to_nat l) with (S (Z.to_nat (l - 1))) by lia.
    simpl arange_from. simpl map.
    simpl app. f_equal; [lia|]. f_equal. rewrite Z2Nat.id by lia. apply IH. left. reflexivity.
Qed.
(* ravel() of any view (reordered, overlapping, strided rows, empty rows anywhere) is the concatenation of its rows *)
Theorem view_ravel : forall v, v_ravel v = concat (rv_rows v).
Proof.
  intros v. unfold v_ravel, v_flat_indices, cumsum, rv_rows.
  rewrite (flat_indices_gen (rv_step v) (rv_starts v) (rv_lens v) 0 None) by (right; split; reflexivity).
  rewrite concat_map. f_equal. rewrite map_map2. unfold rv_row.
  apply map2_ext_in. intros s l _ _. rewrite map_map. reflexivity.
Qed.

(* ---------- one program step, and programs, on views ---------- *)
Definition col_ok (a b s : option Z) : Prop :=
  match s with None => True | Some st => 0 < st \/ (st = -1 /\ a = None /\ b = None) end.
Definition view_op_ok (o : op) : Prop :=
  match o with ColSlice a b s | RC _ a b s => col_ok a b s | _ => True end.

Lemma view_colslice_rows : forall v a b s v', rv_wf v -> col_ok a b s -> v_colslice v a b s = Some v' ->
  rv_rows v' = map (col_slice a b s) (rv_rows v) /\ rv_wf v'.
Proof.
  intros v a b s v' Hwf Hok H. unfold v_colslice in H. destruct s as [st|]; simpl in Hok.
  - destruct Hok as [Hpos|[Hm [Ha Hb]]].
    + replace (st =? 0) with false in H by (symmetry; apply Z.eqb_neq; lia).
      replace (0 <? st) with true in H by (symmetry; apply Z.ltb_lt; lia).
      inversion H; subst. apply view_colslice_pos_rows; assumption.
    + subst. simpl in H. inversion H; subst. apply view_reverse_rows; assumption.
  - simpl in H. inversion H; subst. apply (view_colslice_pos_rows v a b 1 Hwf). lia.
Qed.

Theorem view_step_rows : forall P e v o v', rv_wf v -> view_op_ok o -> v_step v o = Some v' ->
  fst (g_step P (VR e (rv_rows v)) o) = VR e (rv_rows v') /\ rv_wf v'.
Proof.
  intros P e v o v' Hwf Hok H. destruct o; simpl in H; try discriminate.
  - (* RowSel *) destruct (view_rowsel_rows v s v' Hwf H) as [E W]. unfold g_step, step_ragged. rewrite E. split; [reflexivity|exact W].
  - (* ColSlice *) destruct (view_colslice_rows v a b s v' Hwf Hok H) as [E W]. unfold g_step, step_ragged, keep. cbn [fst]. rewrite E. split; [reflexivity|exact W].
  - (* RC *) destruct rs as [i|a0 b0 s0|l|m]; try discriminate;
      (match type of H with match v_rowsel v ?rs with _ => _ end = _ =>
         destruct (v_rowsel v rs) as [v1|] eqn:E1; [|discriminate];
         destruct (view_rowsel_rows v rs v1 Hwf E1) as [Er W1];
         destruct (view_colslice_rows v1 a b s v' W1 Hok H) as [E W];
         unfold g_step, step_ragged; rewrite Er; unfold keep; cbn [fst]; rewrite E; split; [reflexivity|exact W] end).
Qed.

Fixpoint v_run (v : rview) (ops : list op) : option rview :=
  match ops with [] => Some v | o :: r => match v_step v o with Some v' => v_run v' r | None => None end end.
Fixpoint g_last (P : prims) (v : value) (ops : list op) : value :=
  match ops with [] => v | o :: r => g_last P (fst (g_step P v o)) r end.
(* T3: every finite sequence of row selections, column slices and reversals applied to a freshly built ragged array:
   the view that npstructures carries (never materialised in between) denotes the rows the list semantics gives *)
Theorem view_program_rows : forall P e ops v v', rv_wf v -> Forall view_op_ok ops -> v_run v ops = Some v' ->
  g_last P (VR e (rv_rows v)) ops = VR e (rv_rows v') /\ rv_wf v'.
Proof.
  intros P e. induction ops as [|o ops IH]; intros v v' Hwf Hok H; cbn [g_last v_run] in *.
  - inversion H; subst. split; [reflexivity|exact Hwf].
  - inversion Hok as [|? ? Ho Hr]; subst. destruct (v_step v o) as [v1|] eqn:E1; [|discriminate].
    destruct (view_step_rows P e v o v1 Hwf Ho E1) as [E W]. rewrite E. apply IH; assumption.
Qed.

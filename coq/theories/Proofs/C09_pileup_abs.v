(* Proofs/C09_pileup_abs.v — the abstract pileup model of Model/C09.v ([pileup]: events = the distinct interval end points
   together with 0 and size, value = coverage count at the run start), which the correspondence evaluates for interval sets
   of more than [pileup_row_limit] rows, also expands to the per-base coverage count; hence [pileup_in_force] does for
   every input. *)
From Coq Require Import ZArith List Bool Lia Arith.
From BNP Require Import Base.Prims Base.PrimsFacts Model.C09 Model.C09_pileup Proofs.C09 Proofs.C09_depth Proofs.C09_genome Proofs.C09_pileup.
Import ListNotations.
Open Scope Z_scope.

(* ---------- sort_uniq: same elements, strictly increasing ---------- *)
Lemma insert_z_In x : forall l y, In y (insert_z x l) <-> y = x \/ In y l.
Proof.
  induction l as [|z t IH]; intros y; cbn [insert_z].
  - cbn [In]. intuition.
  - destruct (Z.ltb_spec x z); [cbn [In]; intuition|]. destruct (Z.eqb_spec x z) as [E|E].
    + subst z. cbn [In]. intuition.
    + cbn [In]. rewrite IH. intuition.
Qed.
Lemma insert_z_inc x : forall l lo, lo < x -> increasing_from lo l = true -> increasing_from lo (insert_z x l) = true.
Proof.
  induction l as [|z t IH]; intros lo Hlo H; cbn [insert_z].
  - cbn [increasing_from]. rewrite andb_true_r. apply Z.ltb_lt. exact Hlo.
  - cbn [increasing_from] in H. apply andb_prop in H. destruct H as [H1 H2]. apply Z.ltb_lt in H1.
    destruct (Z.ltb_spec x z).
    + cbn [increasing_from]. rewrite H2, andb_true_r. apply andb_true_intro. split; apply Z.ltb_lt; lia.
    + destruct (Z.eqb_spec x z) as [E|E].
      * cbn [increasing_from]. rewrite H2, andb_true_r. apply Z.ltb_lt. lia.
      * cbn [increasing_from]. rewrite (IH z) by (try assumption; lia). rewrite andb_true_r. apply Z.ltb_lt. lia.
Qed.
Lemma sort_uniq_In : forall l y, In y (sort_uniq l) <-> In y l.
Proof.
  induction l as [|x l IH]; intros y; [reflexivity|]. unfold sort_uniq in *. cbn [fold_right]. rewrite insert_z_In, IH. cbn [In]. intuition.
Qed.
Lemma sort_uniq_inc : forall l lo, (forall y, In y l -> lo < y) -> increasing_from lo (sort_uniq l) = true.
Proof.
  induction l as [|x l IH]; intros lo H; [reflexivity|]. unfold sort_uniq in *. cbn [fold_right].
  apply insert_z_inc; [apply H; left; reflexivity|]. apply IH. intros y Hy. apply H. right. exact Hy.
Qed.
Lemma inc_lt : forall l lo y, increasing_from lo l = true -> In y l -> lo < y.
Proof.
  induction l as [|x l IH]; intros lo y H Hy; [destruct Hy|]. cbn [increasing_from] in H. apply andb_prop in H. destruct H as [H1 H2].
  apply Z.ltb_lt in H1. destruct Hy as [<-|Hy]; [exact H1|]. specialize (IH x y H2 Hy). lia.
Qed.
Lemma inc_le_last : forall l lo y, increasing_from lo l = true -> In y l -> y <= last l lo.
Proof.
  induction l as [|x l IH]; intros lo y H Hy; [destruct Hy|]. cbn [increasing_from] in H. apply andb_prop in H. destruct H as [H1 H2].
  rewrite last_cons. destruct Hy as [<-|Hy]; [|apply IH; assumption].
  destruct l as [|z l']; [cbn; lia|]. pose proof (IH x z H2 (or_introl eq_refl)) as Hz. pose proof (inc_lt _ x z H2 (or_introl eq_refl)). lia.
Qed.
Lemma last_In : forall (l : list Z) d, l <> [] -> In (last l d) l.
Proof.
  induction l as [|x l IH]; intros d H; [congruence|]. rewrite last_cons. destruct l as [|z l']; [left; reflexivity|].
  right. apply IH. discriminate.
Qed.

(* ---------- a function that is constant between events expands run by run ---------- *)
Lemma expand_const_between (f : Z -> Z * Z) : forall rest e0, increasing_from e0 rest = true ->
  (forall a p, e0 <= a <= p -> (forall q, In q rest -> ~ (a < q <= p)) -> f p = f a) ->
  expand_from e0 rest (map f (removelast (e0 :: rest))) = tabulate f e0 (last rest e0 - e0).
Proof.
  induction rest as [|e1 rest IH]; intros e0 Hi H.
  - cbn [last]. rewrite tabulate_nil by lia. reflexivity.
  - cbn [increasing_from] in Hi. apply andb_prop in Hi. destruct Hi as [H1 H2]. apply Z.ltb_lt in H1.
    change (removelast (e0 :: e1 :: rest)) with (e0 :: removelast (e1 :: rest)). cbn [map expand_from].
    rewrite (IH e1 H2).
    2:{ intros a p Hap Hq. apply H; [lia|]. intros q [<-|Hin]; [lia|apply Hq; exact Hin]. }
    rewrite last_cons.
    assert (Hl : e1 <= last rest e1).
    { destruct rest as [|z r']; [cbn; lia|]. pose proof (inc_le_last _ e1 z H2 (or_introl eq_refl)). pose proof (inc_lt _ e1 z H2 (or_introl eq_refl)). lia. }
    replace (last rest e1 - e0) with ((e1 - e0) + (last rest e1 - e1)) by lia.
    rewrite tabulate_app by lia. replace (e0 + (e1 - e0)) with e1 by lia. f_equal.
    symmetry. apply tabulate_const. intros p Hp. apply H; [lia|].
    intros q [<-|Hin]; [lia|]. pose proof (inc_lt _ e1 q H2 Hin). lia.
Qed.

(* ---------- the abstract pileup ---------- *)
Theorem pileup_abs_spec : forall recs size, 0 < size -> (forall r, In r recs -> 0 <= st r /\ st r <= en r /\ en r <= size) ->
  exists r, pileup recs size = Some (KI, r) /\ wf_rle r = true /\ rle_len r = size
            /\ expand r = tabulate (count_at recs) 0 size.
Proof.
  intros recs size Hsize Hok. unfold pileup.
  set (pts := 0 :: size :: map (fun '(s, _, _) => s) recs ++ map (fun '(_, e, _) => e) recs).
  assert (Hpts : forall y, In y pts -> 0 <= y <= size).
  { intros y [<-|[<-|Hy]]; [lia|lia|]. apply in_app_or in Hy. destruct Hy as [Hy|Hy]; apply in_map_iff in Hy; destruct Hy as [[[s e] v] [<- Hr]];
      specialize (Hok _ Hr); unfold st, en in Hok; cbn [fst snd] in Hok; lia. }
  pose proof (sort_uniq_inc pts (-1) ltac:(intros y Hy; specialize (Hpts y Hy); lia)) as Hinc.
  pose proof (sort_uniq_In pts) as HIn. set (ev := sort_uniq pts) in *.
  destruct ev as [|e0 rest] eqn:Eev.
  { exfalso. apply (proj2 (HIn 0)). left. reflexivity. }
  cbn [increasing_from] in Hinc. apply andb_prop in Hinc. destruct Hinc as [_ Hinc].
  assert (He0 : e0 = 0).
  { assert (0 <= e0) by (apply Hpts; apply HIn; left; reflexivity).
    destruct (proj2 (HIn 0) (or_introl eq_refl)) as [E|Hin]; [lia|]. pose proof (inc_lt _ e0 0 Hinc Hin). lia. }
  subst e0.
  assert (Hlast : last rest 0 = size).
  { assert (Hs : In size (0 :: rest)) by (apply HIn; right; left; reflexivity). destruct Hs as [E|Hs]; [lia|].
    pose proof (inc_le_last _ 0 size Hinc Hs). assert (Hne : rest <> []) by (intros E; rewrite E in Hs; destruct Hs).
    pose proof (last_In rest 0 Hne) as Hl. assert (last rest 0 <= size) by (apply Hpts; apply HIn; right; exact Hl). lia. }
  assert (Hlen : length (map (count_at recs) (removelast (0 :: rest))) = length rest).
  { rewrite map_length. destruct rest as [|z r']; [reflexivity|]. rewrite removelast_firstn_len. cbn [length]. rewrite firstn_length. cbn [length]. lia. }
  unfold mk_rle, wf_rle. cbn [fst snd]. rewrite Hinc.
  replace (len rest =? len (map (count_at recs) (removelast (0 :: rest)))) with true by (symmetry; apply Z.eqb_eq; unfold len; lia).
  cbn [Z.eqb andb]. eexists. split; [reflexivity|].
  split; [cbn [fst snd]; rewrite Hinc; cbn [Z.eqb andb]; apply Z.eqb_eq; unfold len; lia|].
  split; [unfold rle_len; cbn [fst]; rewrite last_cons; exact Hlast|].
  unfold expand. cbn [fst snd]. rewrite (expand_const_between (count_at recs) rest 0 Hinc).
  - rewrite Hlast, Z.sub_0_r. reflexivity.
  - (* the coverage count does not change where no interval end point lies *)
    intros a p Hap Hq. unfold count_at. f_equal. f_equal. f_equal. apply filter_ext_in. intros [[s e] v] Hr. unfold covers.
    assert (Hs : ~ (a < s <= p)).
    { destruct (Z.eq_dec s 0) as [->|Hs0]; [lia|]. apply Hq.
      assert (Hin : In s (0 :: rest)) by (apply HIn; right; right; apply in_or_app; left; apply in_map_iff; exists (s, e, v); split; [reflexivity|exact Hr]).
      destruct Hin as [E|Hin]; [congruence|exact Hin]. }
    assert (He : ~ (a < e <= p)).
    { destruct (Z.eq_dec e 0) as [->|He0]; [lia|]. apply Hq.
      assert (Hin : In e (0 :: rest)) by (apply HIn; right; right; apply in_or_app; right; apply in_map_iff; exists (s, e, v); split; [reflexivity|exact Hr]).
      destruct Hin as [E|Hin]; [congruence|exact Hin]. }
    destruct (Z.leb_spec s p), (Z.leb_spec s a), (Z.ltb_spec p e), (Z.ltb_spec a e); try reflexivity; lia.
Qed.

(* ---------- the model the correspondence evaluates, for every input ---------- *)
Theorem pileup_in_force_spec : forall recs size, 0 < size -> (forall r, In r recs -> row_ok size r) ->
  exists r, pileup_in_force recs size = Some (KI, r) /\ wf_rle r = true /\ rle_len r = size
            /\ expand r = tabulate (count_at recs) 0 size.
Proof.
  intros recs size Hsize Hok. unfold pileup_in_force. destruct (n_rows recs <=? pileup_row_limit).
  - apply pileup_events_spec; assumption.
  - apply pileup_abs_spec; [exact Hsize|]. intros r Hr. destruct (Hok r Hr) as (A & B & C & _). repeat split; assumption.
Qed.

Theorem pileup_in_force_end_to_end : forall sizes recs,
  all_pos sizes = true -> sizes <> [] -> (forall r, In r recs -> prow_ok sizes r) ->
  exists r, to_global sizes recs = Some (glob sizes recs)
            /\ pileup_in_force (glob sizes recs) (total_size sizes) = Some (KI, r)
            /\ wf_rle r = true /\ rle_len r = total_size sizes
            /\ model_to_dict sizes r = spec_pileup sizes recs.
Proof.
  intros sizes recs Hp Hne Hin.
  assert (Ht : 0 < total_size sizes).
  { destruct sizes as [|x l]; [congruence|]. pose proof (off_end_le_total (x :: l) 0 Hp ltac:(rewrite len_cons; pose proof (len_nonneg l); lia)).
    pose proof (size_pos (x :: l) 0 Hp ltac:(rewrite len_cons; pose proof (len_nonneg l); lia)). rewrite off_0 in H. lia. }
  assert (Hiv : forall r, In r recs -> iv_in sizes r).
  { intros r Hr. specialize (Hin r Hr). destruct r as [[[c s] e] v]. unfold prow_ok in Hin. unfold iv_in. lia. }
  assert (Hg : forall r, In r (glob sizes recs) -> row_ok (total_size sizes) r).
  { intros r Hr. unfold glob in Hr. apply in_map_iff in Hr. destruct Hr as [[[[c s] e] v] [<- Hx]].
    specialize (Hin _ Hx). unfold prow_ok in Hin. unfold row_ok, st, en, mult_of, m_go_shift. cbn [fst snd].
    pose proof (off_end_le_total sizes c Hp ltac:(lia)). pose proof (off_nonneg sizes c Hp ltac:(lia)). lia. }
  destruct (pileup_in_force_spec (glob sizes recs) (total_size sizes) Ht Hg) as (r & E & W & L & X).
  exists r. split; [apply to_global_in; exact Hiv|]. split; [exact E|]. split; [exact W|]. split; [exact L|].
  apply pileup_genome; try assumption. intros x Hx. apply iv_in_rec_in. apply Hiv. exact Hx.
Qed.

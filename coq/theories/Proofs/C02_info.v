(* Proofs/C02_info.v — T6: typed INFO lookup.  For a column of well-formed INFO texts (items separated by ';', each
   item a bare flag or key=value) the item table denotes the items, and looking a key up returns the text after
   "key=" in the rows that have it and the empty text elsewhere — also when the key is a prefix or a suffix of
   other keys of the same row. *)
From Coq Require Import ZArith List Bool Lia Arith.
From BNP Require Import Base.Prims Base.PrimsFacts Base.C02Lib Model.C02 Proofs.C02_table Proofs.C02_int Proofs.C02_misc
  Proofs.C02_e2e Proofs.C02_fmt.
Import ListNotations.
Open Scope Z_scope.

(* one INFO text with the byte kept after it: items i1;i2;...;ik then d *)
Definition info_cells (items : list (list Z)) (d : Z) : list fcell :=
  map (fun it => (it, 59)) (removelast items) ++ [(last items [], d)].
Fixpoint itab (o : Z) (ps : list fcell) : list (Z * Z) :=
  match ps with [] => [] | p :: r => (o, len (fst p)) :: itab (o + len (fst p) + 1) r end.

Lemma items_from_cons2 start cur x y l :
  items_from start cur (x :: y :: l)
  = if x =? 59 then (start, cur - start) :: items_from (cur + 1) (cur + 1) (y :: l) else items_from start (cur + 1) (y :: l).
Proof. reflexivity. Qed.
Lemma items_from_sep start cur rest : rest <> [] ->
  items_from start cur (59 :: rest) = (start, cur - start) :: items_from (cur + 1) (cur + 1) rest.
Proof. destruct rest as [|y l]; [congruence|]. intros _. rewrite items_from_cons2. reflexivity. Qed.
Lemma items_from_skip it : ~ In 59 it -> forall start cur rest, rest <> [] ->
  items_from start cur (it ++ rest) = items_from start (cur + len it) rest.
Proof.
  induction it as [|x it IH]; intros H start cur rest Hr.
  - simpl. rewrite len_nil. f_equal. lia.
  - simpl app. assert (Hne : it ++ rest <> []) by (destruct it; [exact Hr|discriminate]).
    destruct (it ++ rest) as [|y l] eqn:E; [congruence|].
    rewrite items_from_cons2. destruct (Z.eqb_spec x 59) as [E59|_]; [exfalso; apply H; left; exact E59|].
    rewrite <- E, IH by (try exact Hr; intro Hin; apply H; right; exact Hin).
    rewrite len_cons. f_equal. lia.
Qed.
Lemma items_from_cells ps : forall o,
  ps <> [] -> (forall p, In p ps -> ~ In 59 (fst p)) ->
  (forall p, In p (removelast ps) -> snd p = 59) ->
  items_from o o (flatten ps) = itab o ps.
Proof.
  induction ps as [|p ps IH]; intros o Hne H59 Hd; [congruence|].
  rewrite flatten_cons. destruct ps as [|q ps].
  - change (flatten []) with (@nil Z). rewrite app_nil_r.
    rewrite items_from_skip by (try discriminate; apply H59; left; reflexivity).
    cbn [items_from itab]. f_equal. f_equal. lia.
  - rewrite items_from_skip by (try discriminate; apply H59; left; reflexivity).
    assert (E : snd p = 59) by (apply Hd; left; reflexivity). rewrite E.
    assert (Hq : flatten (q :: ps) <> []) by (rewrite flatten_cons; destruct (fst q); discriminate).
    change ([59] ++ flatten (q :: ps)) with (59 :: flatten (q :: ps)).
    rewrite items_from_sep by exact Hq.
    change (itab o (p :: q :: ps)) with ((o, len (fst p)) :: itab (o + len (fst p) + 1) (q :: ps)).
    f_equal; [f_equal; lia|].
    apply IH; [discriminate|intros x Hx; apply H59; right; exact Hx|].
    intros x Hx. apply Hd. change (removelast (p :: q :: ps)) with (p :: removelast (q :: ps)). right. exact Hx.
Qed.

(* the item table of a column: rows of cells *)
Fixpoint itab_rows (o : Z) (crows : list (list fcell)) : list (list (Z * Z)) :=
  match crows with [] => [] | c :: cs => itab o c :: itab_rows (o + len (flatten c)) cs end.
Definition crow_ok (c : list fcell) : Prop :=
  c <> [] /\ (forall p, In p c -> ~ In 59 (fst p)) /\ (forall p, In p (removelast c) -> snd p = 59).
Lemma item_table_cells crows : (forall c, In c crows -> crow_ok c) -> forall o,
  item_table o (map flatten crows) = itab_rows o crows.
Proof.
  induction crows as [|c cs IH]; intros H o; [reflexivity|]. simpl. f_equal.
  - destruct (H c (or_introl eq_refl)) as [A [B C]]. apply items_from_cells; assumption.
  - apply IH. intros q Hq. apply H. right. exact Hq.
Qed.

(* ---------- looking a key up ---------- *)
Definition has_prefix (key x : list Z) : bool := match strip_prefix (key ++ [61]) x with Some _ => true | None => false end.
Lemma strip_prefix_some P x v : strip_prefix P x = Some v -> x = P ++ v.
Proof.
  revert x. induction P as [|c P IH]; intros x H; [simpl in H; inversion H; reflexivity|].
  destruct x as [|y x]; [discriminate|]. simpl in H. destruct (Z.eqb_spec c y); [|discriminate]. subst y.
  simpl. f_equal. apply IH. exact H.
Qed.
Lemma zlist_eqb_refl l : zlist_eqb l l = true.
Proof. unfold zlist_eqb. induction l as [|x l IH]; [reflexivity|]. simpl. rewrite Z.eqb_refl, IH. reflexivity. Qed.
Lemma firstn_prefix_none P : forall x d b, strip_prefix P x = None -> (forall c, In c P -> c <> d) ->
  zlist_eqb (firstn (length P) (x ++ d :: b)) P = false.
Proof.
  unfold zlist_eqb. induction P as [|c P IH]; intros x d b H Hd; [discriminate|].
  destruct x as [|y x].
  - simpl. destruct (Z.eqb_spec d c) as [E|_]; [exfalso; apply (Hd c (or_introl eq_refl)); congruence|reflexivity].
  - simpl in H. simpl. destruct (Z.eqb_spec c y) as [E|N].
    + subst y. rewrite Z.eqb_refl. simpl. apply IH; [exact H|]. intros z Hz. apply Hd. right. exact Hz.
    + destruct (Z.eqb_spec y c); [congruence|reflexivity].
Qed.
Lemma slice_firstn (a rest : list Z) n : 0 <= n -> slice (len a) (len a + n) (a ++ rest) = firstn (Z.to_nat n) rest.
Proof.
  intros Hn. rewrite slice_app_r by lia. replace (len a - len a) with 0 by lia. replace (len a + n - len a) with n by lia.
  apply slice_0_firstn.
Qed.

Section Lookup.
Variable key : list Z.
Let P := key ++ [61].
Let L := m_line_len (len key).
Lemma L_len : L = len P.
Proof. unfold L, P, m_line_len. rewrite len_app, len_single. reflexivity. Qed.

(* one item: the comparison at its start says whether it is "key=..." *)
Lemma mask_item a x d b : (forall c, In c P -> c <> d) ->
  key_mask (a ++ x ++ d :: b) key (len a, len x) = has_prefix key x.
Proof.
  intros Hd. unfold key_mask, has_prefix. cbn [fst snd]. fold L. fold P.
  pose proof (len_nonneg P) as HP.
  rewrite L_len, slice_firstn by exact HP. replace (Z.to_nat (len P)) with (length P) by (unfold len; lia).
  destruct (strip_prefix P x) as [v|] eqn:E.
  - apply strip_prefix_some in E. subst x.
    rewrite <- app_assoc, firstn_app, Nat.sub_diag, firstn_all. simpl. rewrite app_nil_r, zlist_eqb_refl, andb_true_r.
    unfold m_ignored. fold L. rewrite L_len. rewrite !len_app, len_cons.
    pose proof (len_nonneg v). pose proof (len_nonneg b). pose proof (len_nonneg a).
    rewrite Z.geb_leb. apply negb_true_iff, Z.leb_gt. lia.
  - rewrite (firstn_prefix_none P x d b E Hd). apply andb_false_r.
Qed.
Lemma value_item a v d b (keep : bool) :
  let x := P ++ v in let st := m_value_start (len a) (len key) in
  slice st (st + m_value_len (len x) (len key) false) (a ++ x ++ d :: b) = v.
Proof.
  intros x st. unfold st, m_value_start, m_value_len, x. fold L. rewrite L_len, len_app.
  replace (len P + len v - len P + 0) with (len v) by lia.
  replace (a ++ (P ++ v) ++ d :: b) with ((a ++ P) ++ v ++ d :: b) by (rewrite <- !app_assoc; reflexivity).
  rewrite <- len_app. apply slice_mid.
Qed.

Definition found (c : list fcell) : list Z := match info_value key (map fst c) with Some v => v | None => [] end.
Definition text_at_item (flat : list Z) (its : list (Z * Z)) : list Z :=
  match its with
  | it :: _ => let st := m_value_start (fst it) (len key) in slice st (st + m_value_len (snd it) (len key) false) flat
  | [] => []
  end.
Lemma row_lookup c : forall pre post, (forall p, In p c -> forall z, In z P -> z <> snd p) ->
  let flat := pre ++ flatten c ++ post in
  text_at_item flat (filter (key_mask flat key) (itab (len pre) c)) = found c
  /\ len (filter (key_mask flat key) (itab (len pre) c)) = len (filter (has_prefix key) (map fst c)).
Proof.
  induction c as [|p c IH]; intros pre post Hd flat; [split; reflexivity|].
  assert (Eflat : flat = pre ++ fst p ++ snd p :: (flatten c ++ post)).
  { unfold flat. rewrite flatten_cons, <- !app_assoc. reflexivity. }
  assert (Hm : key_mask flat key (len pre, len (fst p)) = has_prefix key (fst p)).
  { rewrite Eflat. apply mask_item. intros z Hz. apply (Hd p (or_introl eq_refl) z Hz). }
  cbn [itab filter map]. rewrite Hm.
  unfold found. cbn [map info_value]. fold P.
  specialize (IH (pre ++ fst p ++ [snd p]) post (fun q Hq => Hd q (or_intror Hq))).
  replace (len (pre ++ fst p ++ [snd p])) with (len pre + len (fst p) + 1) in IH by (rewrite !len_app, len_single; lia).
  replace ((pre ++ fst p ++ [snd p]) ++ flatten c ++ post) with flat in IH by (unfold flat; rewrite flatten_cons, <- !app_assoc; reflexivity).
  destruct IH as [IH1 IH2].
  destruct (strip_prefix P (fst p)) as [v|] eqn:E.
  - assert (Hhp : has_prefix key (fst p) = true) by (unfold has_prefix; fold P; rewrite E; reflexivity).
    rewrite !Hhp. split.
    + cbn [text_at_item fst snd]. apply strip_prefix_some in E. rewrite Eflat, E. apply (value_item pre v (snd p) _ false).
    + rewrite !len_cons, IH2. reflexivity.
  - assert (Hhp : has_prefix key (fst p) = false) by (unfold has_prefix; fold P; rewrite E; reflexivity).
    rewrite !Hhp. split; [exact IH1|exact IH2].
Qed.
End Lookup.

(* ---------- a whole column ---------- *)
Lemma flatten_concat crows : concat (map flatten crows) = flatten (concat crows).
Proof. induction crows as [|c cs IH]; [reflexivity|]. simpl. rewrite flatten_app, IH. reflexivity. Qed.
Lemma rows_lookup key crows : forall pre post,
  (forall c, In c crows -> forall p, In p c -> forall z, In z (key ++ [61]) -> z <> snd p) ->
  let flat := pre ++ flatten (concat crows) ++ post in
  map (fun its => text_at_item key flat (filter (key_mask flat key) its)) (itab_rows (len pre) crows) = map (found key) crows
  /\ map (fun its => len (filter (key_mask flat key) its)) (itab_rows (len pre) crows)
     = map (fun c => len (filter (has_prefix key) (map fst c))) crows.
Proof.
  induction crows as [|c cs IH]; intros pre post Hd flat; [split; reflexivity|].
  assert (Eflat : flat = pre ++ flatten c ++ (flatten (concat cs) ++ post)).
  { unfold flat. simpl concat. rewrite flatten_app, <- !app_assoc. reflexivity. }
  destruct (row_lookup key c pre (flatten (concat cs) ++ post) (Hd c (or_introl eq_refl))) as [R1 R2].
  rewrite <- Eflat in R1, R2.
  specialize (IH (pre ++ flatten c) post (fun q Hq => Hd q (or_intror Hq))). rewrite len_app in IH.
  replace ((pre ++ flatten c) ++ flatten (concat cs) ++ post) with flat in IH by (rewrite Eflat, <- !app_assoc; reflexivity).
  destruct IH as [I1 I2]. cbn [itab_rows map]. rewrite R1, R2, I1, I2. split; reflexivity.
Qed.

(* T6: the text looked up for a key.  Every row is a list of items each followed by its delimiter (';' inside the
   row, the byte after the INFO field at its end); the key and '=' never equal a delimiter; no row holds the key twice.
   Then the lookup succeeds and row by row returns the text after "key=" of the first (only) item that starts with
   "key=", and the empty text where there is none — whatever other keys (longer, shorter, sharing a prefix or a
   suffix with this one) the row contains. *)
Theorem info_lookup_correct : forall (key : list Z) (crows : list (list fcell)),
  (forall c, In c crows -> crow_ok c /\ forall p, In p c -> forall z, In z (key ++ [61]) -> z <> snd p) ->
  (forall c, In c crows -> len (filter (has_prefix key) (map fst c)) <= 1) ->
  let rows := map flatten crows in
  info_texts false (concat rows) key (item_table 0 rows) = Some (map (found key) crows).
Proof.
  intros key crows H Hone rows. unfold info_texts, rows.
  change (short_buffer_raises && all_ignored (concat (map flatten crows)) key (item_table 0 (map flatten crows))) with false.
  cbv iota. rewrite item_table_cells by (intros c Hc; apply (H c Hc)). rewrite flatten_concat.
  destruct (rows_lookup key crows [] [] (fun c Hc => proj2 (H c Hc))) as [R1 R2].
  rewrite len_nil, app_nil_r in R1, R2. change ([] ++ flatten (concat crows)) with (flatten (concat crows)) in R1, R2.
  set (flat := flatten (concat crows)) in *.
  replace (existsb (fun row => 1 <? len (filter (key_mask flat key) row)) (itab_rows 0 crows)) with false.
  - f_equal. rewrite <- R1. apply map_ext. intros its. unfold text_at_item. destruct (filter (key_mask flat key) its); reflexivity.
  - symmetry. apply not_true_is_false. intro Hex. apply existsb_exists in Hex. destruct Hex as [its [Hin Hlt]].
    apply Z.ltb_lt in Hlt.
    assert (Hin' : In (len (filter (key_mask flat key) its)) (map (fun its => len (filter (key_mask flat key) its)) (itab_rows 0 crows)))
      by (apply in_map_iff; exists its; split; [reflexivity|exact Hin]).
    rewrite R2 in Hin'. apply in_map_iff in Hin'. destruct Hin' as [c [Ec Hc]]. specialize (Hone c Hc). lia.
Qed.

(* String-typed key: the column is exactly those texts *)
Theorem info_string_col_correct : forall (key : list Z) (lst : bool) (crows : list (list fcell)),
  (forall c, In c crows -> crow_ok c /\ forall p, In p c -> forall z, In z (key ++ [61]) -> z <> snd p) ->
  (forall c, In c crows -> len (filter (has_prefix key) (map fst c)) <= 1) ->
  let rows := map flatten crows in
  info_col (concat rows) (item_table 0 rows) (key, IString, lst) = Col (map (fun c => CBytes (found key c)) crows).
Proof.
  intros key lst crows H Hone rows. unfold info_col. unfold rows. rewrite info_lookup_correct by assumption.
  simpl. rewrite map_map. reflexivity.
Qed.
(* scalar Integer key: the value of the numeral, 0 where the key is absent or its value is "." *)
Theorem info_int_col_correct : forall (key : list Z) (crows : list (list fcell)),
  (forall c, In c crows -> crow_ok c /\ forall p, In p c -> forall z, In z (key ++ [61]) -> z <> snd p) ->
  (forall c, In c crows -> len (filter (has_prefix key) (map fst c)) <= 1) ->
  (forall c, In c crows -> found key c = [] \/ found key c = [46] \/ numeral (found key c) = true) ->
  let rows := map flatten crows in
  info_col (concat rows) (item_table 0 rows) (key, IInteger, false)
  = match mapM (fun c => if (len (found key c) =? 0) || zlist_eqb (found key c) [46] then Some 0 else int_of_text (found key c)) crows with
    | Some l => Col (map CInt l) | None => ColErr end.
Proof.
  intros key crows H Hone Hv rows. unfold info_col, rows. rewrite info_lookup_correct by assumption.
  unfold opt_bind, parse_with_missing_cur, parse_with_missing_fixed, opt_col. rewrite mapM_map.
  replace (mapM (fun x => if (len (found key x) =? 0) || zlist_eqb (found key x) [46] then Some 0 else str_to_int_auto (found key x)) crows)
    with (mapM (fun c => if (len (found key c) =? 0) || zlist_eqb (found key c) [46] then Some 0 else int_of_text (found key c)) crows); [reflexivity|].
  apply mapM_ext_in. intros c Hc. destruct (Hv c Hc) as [E|[E|E]]; [rewrite E; reflexivity|rewrite E; reflexivity|].
  destruct ((len (found key c) =? 0) || zlist_eqb (found key c) [46]); [reflexivity|]. symmetry. apply auto_correct. exact E.
Qed.

(* ---------- the link to the specification's reading of the INFO text ---------- *)
Lemma split_on_clean sep x : ~ In sep x -> split_on sep x = [x].
Proof.
  induction x as [|c x IH]; intros H; [reflexivity|]. simpl.
  destruct (Z.eqb_spec c sep) as [E|_]; [exfalso; apply H; left; exact E|].
  rewrite IH by (intro Hin; apply H; right; exact Hin). reflexivity.
Qed.
Lemma split_on_item sep x rest : ~ In sep x -> split_on sep (x ++ sep :: rest) = x :: split_on sep rest.
Proof.
  induction x as [|c x IH]; intros H.
  - simpl. rewrite Z.eqb_refl. reflexivity.
  - simpl. destruct (Z.eqb_spec c sep) as [E|_]; [exfalso; apply H; left; exact E|].
    rewrite IH by (intro Hin; apply H; right; exact Hin). reflexivity.
Qed.
Lemma split_on_intercalate sep items : items <> [] -> (forall it, In it items -> ~ In sep it) ->
  split_on sep (intercalate [sep] items) = items.
Proof.
  induction items as [|x items IH]; intros Hne H; [congruence|].
  destruct items as [|y items].
  - simpl. apply split_on_clean. apply H. left. reflexivity.
  - change (intercalate [sep] (x :: y :: items)) with (x ++ [sep] ++ intercalate [sep] (y :: items)).
    change (x ++ [sep] ++ intercalate [sep] (y :: items)) with (x ++ sep :: intercalate [sep] (y :: items)).
    rewrite split_on_item by (apply H; left; reflexivity). f_equal.
    apply IH; [discriminate|]. intros it Hit. apply H. right. exact Hit.
Qed.
Lemma info_cells_fst items d : items <> [] -> map fst (info_cells items d) = items.
Proof.
  intros H. unfold info_cells. rewrite map_app, map_map. simpl. rewrite map_id. apply removelast_last. exact H.
Qed.
Lemma info_cells_flat items d : items <> [] -> flatten (info_cells items d) = intercalate [59] items ++ [d].
Proof.
  induction items as [|x items IH]; intros H; [congruence|]. destruct items as [|y items].
  - unfold info_cells. simpl. apply flatten_single.
  - unfold info_cells in *. change (removelast (x :: y :: items)) with (x :: removelast (y :: items)).
    change (last (x :: y :: items) []) with (last (y :: items) []).
    rewrite map_cons, <- app_comm_cons, flatten_cons. rewrite IH by discriminate.
    change (intercalate [59] (x :: y :: items)) with (x ++ [59] ++ intercalate [59] (y :: items)).
    cbn [fst snd]. rewrite <- !app_assoc. reflexivity.
Qed.
(* what the library returns for a String key is what the specification reads off the INFO text *)
Theorem info_string_spec : forall (key : list Z) (lst : bool) (items : list (list Z)) (d : Z),
  items <> [] -> (forall it, In it items -> ~ In 59 it) ->
  spec_info_cell (key, IString, lst) (intercalate [59] items) = Some (CBytes (found key (info_cells items d))).
Proof.
  intros key lst items d Hne H. unfold spec_info_cell, found. rewrite info_cells_fst by exact Hne.
  unfold info_items. destruct (zlist_eqb (intercalate [59] items) [46]) eqn:E.
  - apply zlist_eqb_eq in E.
    assert (Ei : items = [[46]]).
    { rewrite <- (split_on_intercalate 59 items Hne H), E. reflexivity. }
    rewrite Ei. simpl. destruct (key ++ [61]) as [|c [|c2 P]] eqn:Ek; [destruct key; discriminate| |].
    + simpl. destruct (c =? 46); reflexivity.
    + simpl. destruct (c =? 46); reflexivity.
  - rewrite split_on_intercalate by assumption. reflexivity.
Qed.

(* ---------- Flag keys: True iff some item IS the key ---------- *)
Lemma zlist_eqb_sym a b : zlist_eqb a b = zlist_eqb b a.
Proof.
  destruct (zlist_eqb a b) eqn:E1; destruct (zlist_eqb b a) eqn:E2; try reflexivity.
  - apply zlist_eqb_eq in E1. subst. rewrite zlist_eqb_refl in E2. discriminate.
  - apply zlist_eqb_eq in E2. subst. rewrite zlist_eqb_refl in E1. discriminate.
Qed.
Lemma flag_item key a x d b :
  m_flag_len_match (len x) (len key) && zlist_eqb (slice (len a) (len a + len key) (a ++ x ++ d :: b)) key = zlist_eqb key x.
Proof.
  unfold m_flag_len_match. destruct (Z.eqb_spec (len x) (len key)) as [E|N].
  - rewrite <- E, slice_mid. apply zlist_eqb_sym.
  - simpl. symmetry. apply not_true_is_false. intro H. apply zlist_eqb_eq in H. subst. congruence.
Qed.
Definition flag_test (flat key : list Z) (it : Z * Z) : bool :=
  m_flag_len_match (snd it) (len key) && zlist_eqb (slice (fst it) (fst it + len key) flat) key.
Lemma row_flag key c : forall pre post,
  existsb (flag_test (pre ++ flatten c ++ post) key) (itab (len pre) c) = existsb (zlist_eqb key) (map fst c).
Proof.
  induction c as [|p c IH]; intros pre post; [reflexivity|].
  cbn [itab existsb map]. f_equal.
  - unfold flag_test. cbn [fst snd]. rewrite flatten_cons, <- !app_assoc. apply flag_item.
  - specialize (IH (pre ++ fst p ++ [snd p]) post).
    replace (len (pre ++ fst p ++ [snd p])) with (len pre + len (fst p) + 1) in IH by (rewrite !len_app, len_single; lia).
    rewrite <- IH. rewrite flatten_cons, <- !app_assoc. reflexivity.
Qed.
Lemma rows_flag key crows : forall pre post,
  map (existsb (flag_test (pre ++ flatten (concat crows) ++ post) key)) (itab_rows (len pre) crows)
  = map (fun c => existsb (zlist_eqb key) (map fst c)) crows.
Proof.
  induction crows as [|c cs IH]; intros pre post; [reflexivity|].
  cbn [itab_rows map]. f_equal.
  - simpl concat. rewrite flatten_app, <- app_assoc. apply row_flag.
  - specialize (IH (pre ++ flatten c) post). rewrite len_app in IH. rewrite <- IH.
    simpl concat. rewrite flatten_app, <- !app_assoc. reflexivity.
Qed.
(* T6 for flags: a Flag key is reported for a record iff one of its ';'-separated items is exactly the key — not when
   the key is only a prefix, a suffix or an infix of an item, nor when it occurs as "key=value" *)
Theorem info_flag_correct : forall (key : list Z) (crows : list (list fcell)),
  (forall c, In c crows -> crow_ok c) ->
  let rows := map flatten crows in
  has_flag (concat rows) key (item_table 0 rows) = map (fun c => existsb (zlist_eqb key) (map fst c)) crows.
Proof.
  intros key crows H rows. unfold rows, has_flag. rewrite item_table_cells by exact H. rewrite flatten_concat.
  pose proof (rows_flag key crows [] []) as P. rewrite len_nil, app_nil_r in P.
  change ([] ++ flatten (concat crows)) with (flatten (concat crows)) in P. exact P.
Qed.
Theorem info_flag_col_correct : forall (key : list Z) (lst : bool) (crows : list (list fcell)),
  (forall c, In c crows -> crow_ok c) ->
  let rows := map flatten crows in
  info_col (concat rows) (item_table 0 rows) (key, IFlag, lst) = Col (map (fun c => CBool (existsb (zlist_eqb key) (map fst c))) crows).
Proof.
  intros key lst crows H rows. unfold info_col, rows. rewrite info_flag_correct by exact H. rewrite map_map. reflexivity.
Qed.
(* ... which is what the specification reads off the INFO text *)
Theorem info_flag_spec : forall (key : list Z) (lst : bool) (items : list (list Z)) (d : Z),
  items <> [] -> (forall it, In it items -> ~ In 59 it) -> key <> [46] ->
  spec_info_cell (key, IFlag, lst) (intercalate [59] items) = Some (CBool (existsb (zlist_eqb key) (map fst (info_cells items d)))).
Proof.
  intros key lst items d Hne H Hk. unfold spec_info_cell. rewrite info_cells_fst by exact Hne.
  unfold info_items. destruct (zlist_eqb (intercalate [59] items) [46]) eqn:E.
  - apply zlist_eqb_eq in E.
    assert (Ei : items = [[46]]) by (rewrite <- (split_on_intercalate 59 items Hne H), E; reflexivity).
    rewrite Ei. simpl. destruct (zlist_eqb key [46]) eqn:E2; [apply zlist_eqb_eq in E2; congruence|reflexivity].
  - rewrite split_on_intercalate by assumption. reflexivity.
Qed.

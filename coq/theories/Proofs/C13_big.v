(* Proofs/C13_big.v — counting 1-mers of very long rows given as (pattern, repetitions): the closed form
   big_counts is the count of the expanded rows, and is what count_kmers (model and spec) gives on them. *)
From Coq Require Import ZArith List Bool Lia Arith.
From BNP Require Import Base.Prims.
From BNP Require Import Base.PrimsFacts.
From BNP Require Import Model.C13.
From BNP Require Import Proofs.C13.
Import ListNotations.
Open Scope Z_scope.

Definition expand (pats : list (list Z)) (reps : list Z) : list (list Z) :=
  map (fun pr => tile (Z.to_nat (snd pr)) (fst pr)) (combine pats reps).

Lemma add_lists_map {A} (f g : A -> Z) l : add_lists (map f l) (map g l) = map (fun v => f v + g v) l.
Proof. induction l as [|x l IH]; [reflexivity|]. cbn [map add_lists]. rewrite IH. reflexivity. Qed.

Lemma bincount_app m a b : bincount m (a ++ b) = add_lists (bincount m a) (bincount m b).
Proof.
  unfold bincount. rewrite add_lists_map. apply map_ext. intros v.
  rewrite filter_app, len_app. reflexivity.
Qed.

Lemma bincount_tile m (r : nat) p : bincount m (tile r p) = map (Z.mul (Z.of_nat r)) (bincount m p).
Proof.
  induction r as [|r IH].
  - unfold tile, bincount. cbn [repeat concat filter]. rewrite map_map. apply map_ext. intros v. reflexivity.
  - unfold tile in *. cbn [repeat concat]. rewrite bincount_app, IH. unfold bincount.
    rewrite !map_map. rewrite add_lists_map. apply map_ext. intros v. rewrite Nat2Z.inj_succ. ring.
Qed.

Theorem big_counts_expand m pats : forall reps, Forall (fun r => 0 <= r) reps ->
  big_counts m pats reps = bincount m (concat (expand pats reps)).
Proof.
  unfold big_counts, expand. induction pats as [|p pats IH]; intros reps Hr; [reflexivity|].
  destruct reps as [|r reps]; [reflexivity|]. inversion Hr as [|? ? Hr0 Hrs]; subst.
  cbn [combine fold_right map concat fst snd]. rewrite bincount_app, bincount_tile. rewrite Z2Nat.id by exact Hr0.
  f_equal. apply IH. exact Hrs.
Qed.

(* k = 1: the windows of a row are its letters, and the code of a 1-letter window is the letter *)
Lemma windows_1 l : windows 1 l = map (fun x => [x]) l.
Proof.
  induction l as [|x l IH]; [reflexivity|]. rewrite windows_cons_ge by lia. cbn [firstn map]. rewrite IH. reflexivity.
Qed.
Lemma spec_kmers_1 n rows : spec_kmers n 1 rows = rows.
Proof.
  unfold spec_kmers, per_row. rewrite <- (map_id rows) at 2. apply map_ext. intros r.
  rewrite windows_1, map_map. rewrite <- (map_id r) at 2. apply map_ext. intros x. cbn [le_value]. lia.
Qed.

Lemma letters_ok_tile n r p : letters_ok n p -> letters_ok n (tile r p).
Proof.
  intros H. unfold tile. induction r as [|r IH]; [constructor|]. cbn [repeat concat]. apply Forall_app. split; assumption.
Qed.
Lemma letters_ok_expand n pats : forall reps, Forall (letters_ok n) pats -> letters_ok n (concat (expand pats reps)).
Proof.
  unfold expand. induction pats as [|p pats IH]; intros reps H; [constructor|].
  destruct reps as [|r reps]; [constructor|]. inversion H; subst.
  cbn [combine map concat fst snd]. apply Forall_app. split; [apply letters_ok_tile; assumption|apply IH; assumption].
Qed.

(* end to end: count_kmers(rows, 1) on the expanded rows — the library's algorithm (model) and the property's value
   (spec) — is the closed form, for every number of rows, every pattern and every repetition number *)
Theorem count_kmers_big n pats reps : Forall (fun r => 0 <= r) reps -> Forall (letters_ok n) pats ->
  count_kmers_flat_with stop_fixed n 1 (expand pats reps) = big_counts n pats reps
  /\ bincount (n ^ 1) (concat (spec_kmers n 1 (expand pats reps))) = big_counts n pats reps.
Proof.
  intros Hr Hp.
  assert (E : bincount (n ^ 1) (concat (spec_kmers n 1 (expand pats reps))) = big_counts n pats reps).
  { rewrite spec_kmers_1, Z.pow_1_r. symmetry. apply big_counts_expand. exact Hr. }
  split; [|exact E]. rewrite <- E.
  apply (count_flat_row_local stop_fixed n 1 (expand pats reps)); [lia|apply keeps_fixed; lia|].
  intros ->. split; [lia|]. apply letters_ok_expand. exact Hp.
Qed.

Theorem count_weighted_fixed n k rows weights : 1 <= k -> kmer_domain n k rows ->
  count_weighted_with stop_fixed n k rows weights = wbincount (n ^ k) (concat (spec_kmers n (Z.to_nat k) rows)) weights.
Proof. intros Hk Hd. unfold count_weighted_with. rewrite get_kmers_fixed by assumption. reflexivity. Qed.

(* Proofs/C05_b.v — phase 3: the eager implementation model versus the Spec, the composed lazy = eager statement,
   witnesses for the eager-side findings, and the round trip of the Spec writer / reader. *)
From Coq Require Import ZArith List Bool Arith Lia.
From BNP Require Import Base.Prims Model.C05 Proofs.C05.
Import ListNotations.
Open Scope nat_scope.

(* ================================================================ the eager implementation vs the Spec *)
Lemma set_nth_length {A} r (v : A) l : length (set_nth r v l) = length l.
Proof. revert r. induction l as [|x l IH]; intros [|r]; simpl; auto. Qed.

Lemma s_step_length F hdr regs o : length (fst (s_step F hdr regs o)) = length regs.
Proof.
  destruct o; simpl;
    repeat match goal with
           | |- context [match ?x with _ => _ end] => destruct x
           end; simpl; unfold set_reg; rewrite ?set_nth_length; reflexivity.
Qed.

Lemma map_fst_combine {A B} (a : list A) (b : list B) : length a = length b -> map fst (combine a b) = a.
Proof. revert b. induction a as [|x a IH]; intros [|y b] H; simpl in *; try discriminate; [reflexivity|]. f_equal. apply IH. lia. Qed.

Lemma e_step_spec F hdr regs o :
  eager_guard F hdr = true ->
  map fst (fst (e_step F hdr regs o)) = fst (s_step F hdr (map fst regs) o)
  /\ snd (e_step F hdr regs o) = snd (s_step F hdr (map fst regs) o).
Proof.
  intros HG. unfold eager_guard in HG. apply andb_true_iff in HG. destruct HG as [HN HG]. apply negb_true_iff in HN.
  destruct hdr as [|h hdr]; [|discriminate].
  destruct (f_default_hdr F) as [|d ds] eqn:ED; [|discriminate].
  destruct o as [r|r f|r ix|r i|r srcs|r f vals|r|r|r r' ix|r].
  10:{ simpl. rewrite nth_error_map'. unfold etable in *. destruct (nth_error regs r) as [[t c]|]; simpl; [|split; reflexivity].
       rewrite HN. split; reflexivity. }
  8:{ simpl. rewrite nth_error_map'. unfold etable in *. destruct (nth_error regs r) as [[t c]|]; simpl; [|split; reflexivity].
      unfold e_write. simpl. rewrite ED, HN. destruct t, c; split; reflexivity. }
  all: unfold e_step;
       match goal with |- context [s_step ?FF ?hh ?rr ?op] =>
         pose proof (s_step_length FF hh rr op) as HL;
         destruct (s_step FF hh rr op) as [rs x] eqn:ES end;
       simpl in HL; rewrite map_length in HL; cbn [fst snd]; split; [|reflexivity];
       apply map_fst_combine;
       repeat match goal with |- context [match ?y with _ => _ end] => destruct y end;
       rewrite ?set_nth_length, map_length; exact HL.
Qed.

Theorem eager_is_spec F hdr prog : forall regs,
  eager_guard F hdr = true -> e_run F hdr regs prog = s_run F hdr (map fst regs) prog.
Proof.
  induction prog as [|o prog IH]; intros regs HG; simpl; [reflexivity|].
  destruct (e_step_spec F hdr regs o HG) as [H1 H2].
  destruct (e_step F hdr regs o) as [regs' x]. destruct (s_step F hdr (map fst regs) o) as [sregs' x'].
  simpl in H1, H2. subst. rewrite (IH regs' HG). reflexivity.
Qed.

(* the end-to-end statement of the property on the two MODELS of the code at HEAD: lazy run = eager run *)
Theorem lazy_is_eager_partial F hdr recs prog ctx :
  Forall (fun r => length (r_fields r) = nfields F) recs ->
  m_guard_fixed_run l_concat F hdr (start recs) prog = true ->   (* no step of the lazy run hits a listed lazy defect *)
  eager_guard F hdr = true ->                                    (* no header lines, no default header *)
  let lazy_obs := m_run l_concat F hdr (start recs) prog in
  let eager_obs := e_run F hdr [(rows_of_file F recs, ctx); (rows_of_file F recs, ctx)] prog in
  map erase lazy_obs = map erase eager_obs
  /\ (Forall (fun r => rec_canon F r = true) recs -> lazy_obs = eager_obs).
Proof.
  intros Hwf HG HE. cbv zeta. rewrite (eager_is_spec F hdr prog _ HE). cbn [map fst].
  exact (file_level_fixed F hdr recs prog Hwf HG).
Qed.

(* ---------- where the eager implementation is NOT the Spec (each a listed finding) ---------- *)
(* a derived table has lost the header: "#\nc\t1\t2\n", t[:] then write *)
Lemma eager_header_lost_refuted :
  exists F hdr recs prog ctx, wf F recs /\
    e_run F hdr [(rows_of_file F recs, ctx); (rows_of_file F recs, ctx)] prog
    <> s_run F hdr [rows_of_file F recs; rows_of_file F recs] prog.
Proof.
  exists W_bed3, [35; 10]%Z, [W_rec], [OIndex 0 (ISlice None None 1); OWrite 0], true.
  split; [exact W_rec_wf|]. vm_compute. discriminate.
Qed.
(* the eager writer refuses a table read from a file with header lines (VCF) *)
Definition W_vcf : fmt :=
  {| f_kinds := [KStr; KInt (-1)]; f_layout := LDelim; f_concat := true; f_nowrite := []; f_ragged := true;
     f_eager_write_fails := true; f_write_needs_context := false; f_default_hdr := [35; 35; 10]%Z; f_sid := [] |}.
Definition W_vcfrec : rawrec := {| r_fields := [[99%Z]; [53%Z]]; r_raw := [99; 9; 53; 10]%Z |}.
Lemma eager_write_fails_refuted :
  exists F hdr recs prog ctx, wf F recs /\
    map erase (e_run F hdr [(rows_of_file F recs, ctx); (rows_of_file F recs, ctx)] prog)
    <> map erase (s_run F hdr [rows_of_file F recs; rows_of_file F recs] prog).
Proof.
  exists W_vcf, [35; 10]%Z, [W_vcfrec], [OWrite 0], true.
  split; [split; repeat constructor|]. vm_compute. discriminate.
Qed.
(* ... and writes a default header for a derived table of a header-less file *)
Lemma eager_default_header_refuted :
  exists F hdr recs prog ctx, wf F recs /\ hdr = [] /\
    e_run F hdr [(rows_of_file F recs, ctx); (rows_of_file F recs, ctx)] prog
    <> s_run F hdr [rows_of_file F recs; rows_of_file F recs] prog.
Proof.
  exists W_vcf, [], [W_vcfrec], [OIndex 0 (ISlice None None 1); OWrite 0], true.
  split; [split; repeat constructor|]. split; [reflexivity|]. vm_compute. discriminate.
Qed.
(* row access on a lazily read table with a ragged column always raises *)
Lemma at_ragged_refuted :
  exists F hdr recs prog, wf F recs /\
    map erase (m_run l_concat F hdr (start recs) prog)
    <> map erase (s_run F hdr [rows_of_file F recs; rows_of_file F recs] prog).
Proof.
  exists W_vcf, [], [W_vcfrec], [OAt 0 0].
  split; [split; repeat constructor|]. vm_compute. discriminate.
Qed.

(* ================================================================ the Spec's writer and reader are inverse *)
Open Scope Z_scope.
Lemma digits_val_app a b : digits_val (a ++ b) = fold_left (fun acc c => 10 * acc + (c - 48)) b (digits_val a).
Proof. unfold digits_val. apply fold_left_app. Qed.

Lemma digits_fuel_ok fuel : forall n, 0 <= n -> Z.log2 n < Z.of_nat fuel ->
  digits_val (digits_fuel fuel n) = n
  /\ (exists d r, digits_fuel fuel n = d :: r /\ 48 <= d <= 57).
Proof.
  induction fuel as [|fuel IH]; intros n Hn Hl.
  - pose proof (Z.log2_nonneg n). lia.
  - cbn [digits_fuel]. destruct (n <? 10) eqn:E.
    + apply Z.ltb_lt in E. split; [unfold digits_val; cbn [fold_left]; lia|]. exists (48 + n), []. split; [reflexivity|lia].
    + apply Z.ltb_ge in E.
      assert (Hq : 0 <= n / 10) by (apply Z.div_pos; lia).
      assert (Hq1 : 1 <= n / 10) by (apply Z.div_le_lower_bound; lia).
      assert (Hlq : Z.log2 (n / 10) < Z.of_nat fuel).
      { assert (2 * (n / 10) <= n).
        { pose proof (Z.mul_div_le n 10 ltac:(lia)). lia. }
        assert (Z.log2 (2 * (n / 10)) <= Z.log2 n) by (apply Z.log2_le_mono; lia).
        rewrite Z.log2_double in H0 by lia. lia. }
      destruct (IH (n / 10) Hq Hlq) as [Hv [d [r [Hd Hr]]]]. split.
      * rewrite digits_val_app, Hv. cbn [fold_left].
        pose proof (Z.div_mod n 10 ltac:(lia)). lia.
      * exists d, (r ++ [48 + n mod 10]). rewrite Hd. split; [reflexivity|exact Hr].
Qed.

Lemma parse_print_nat n : 0 <= n -> parse_int (print_nat n) = n.
Proof.
  intros Hn. unfold print_nat.
  assert (Hl : Z.log2 n < Z.of_nat (S (Z.to_nat (Z.log2 n)))) by (pose proof (Z.log2_nonneg n); lia).
  destruct (digits_fuel_ok _ n Hn Hl) as [Hv [d [r [Hd Hr]]]].
  unfold parse_int. rewrite Hd in *.
  destruct (Z.eq_dec d 45) as [->|]; [lia|]. destruct (Z.eq_dec d 43) as [->|]; [lia|].
  destruct d as [|p|p]; try lia.
  repeat (destruct p as [p|p|]; try lia; try exact Hv).
Qed.

Lemma digits_val_print_nat n : 0 <= n -> digits_val (print_nat n) = n.
Proof.
  intros Hn. unfold print_nat.
  assert (Hl : Z.log2 n < Z.of_nat (S (Z.to_nat (Z.log2 n)))) by (pose proof (Z.log2_nonneg n); lia).
  exact (proj1 (digits_fuel_ok _ n Hn Hl)).
Qed.
Lemma parse_print_int z : parse_int (print_int z) = z.
Proof.
  unfold print_int. destruct (z <? 0) eqn:E.
  - apply Z.ltb_lt in E. cbn [parse_int]. rewrite digits_val_print_nat by lia. lia.
  - apply Z.ltb_ge in E. apply parse_print_nat. exact E.
Qed.

Definition well_kinded (k : kind) (v : value) : Prop :=
  match k, v with KStr, VS _ => True | KInt _, VI _ => True | _, _ => False end.
Lemma parse_print k v : well_kinded k v -> parse k (print k v) = v.
Proof.
  destruct k as [|off], v as [z|s]; simpl; try contradiction; intros _; [reflexivity|].
  rewrite parse_print_int. f_equal. lia.
Qed.
Lemma parse_print_row ks row : Forall2 well_kinded ks row -> parse_row ks (print_row ks row) = row.
Proof. induction 1 as [|k v ks row H _ IH]; simpl; [reflexivity|]. rewrite (parse_print k v H), IH. reflexivity. Qed.
Lemma zlist_eqb_refl a : zlist_eqb a a = true.
Proof. unfold zlist_eqb. induction a as [|x a IH]; simpl; [reflexivity|]. rewrite Z.eqb_refl. exact IH. Qed.
Lemma print_row_canon ks row : Forall2 well_kinded ks row -> cells_canon ks (print_row ks row) = true.
Proof.
  induction 1 as [|k v ks row H _ IH]; simpl; [reflexivity|].
  rewrite (parse_print k v H), zlist_eqb_refl. exact IH.
Qed.
Lemma print_row_length ks row : Forall2 well_kinded ks row -> length (print_row ks row) = length ks.
Proof. induction 1; simpl; [reflexivity|]. f_equal. assumption. Qed.

(* what the eager writer lays out for a row, read as a record of the file *)
Definition rec_of_row (F : fmt) (row : list value) : rawrec :=
  {| r_fields := print_row (f_kinds F) row; r_raw := render (f_layout F) (print_row (f_kinds F) row) |}.
(* every table of well-kinded rows has a canonically spelled file: the one the Spec's writer produces; reading it
   gives the table back, so the Spec's `rows_of_file` and `s_write` are inverse on it *)
Theorem spec_roundtrip F (t : rows) :
  Forall (Forall2 well_kinded (f_kinds F)) t ->
  let recs := map (rec_of_row F) t in
  rows_of_file F recs = t
  /\ Forall (fun r => rec_canon F r = true) recs
  /\ Forall (fun r => length (r_fields r) = nfields F) recs
  /\ forall hdr, s_write F hdr (rows_of_file F recs) = hdr ++ concat (map r_raw recs).
Proof.
  intros H. cbv zeta.
  assert (H1 : rows_of_file F (map (rec_of_row F) t) = t).
  { unfold rows_of_file. rewrite map_map. simpl. rewrite <- (map_id t) at 2. apply map_ext_in. intros row Hr.
    rewrite Forall_forall in H. apply parse_print_row. apply H. exact Hr. }
  split; [exact H1|]. split; [|split].
  - apply Forall_forall. intros r Hr. apply in_map_iff in Hr. destruct Hr as [row [<- Hin]].
    rewrite Forall_forall in H. unfold rec_canon, rec_of_row. simpl.
    rewrite (print_row_canon _ _ (H row Hin)), zlist_eqb_refl. reflexivity.
  - apply Forall_forall. intros r Hr. apply in_map_iff in Hr. destruct Hr as [row [<- Hin]].
    rewrite Forall_forall in H. simpl. apply print_row_length. apply H. exact Hin.
  - intros hdr. rewrite H1. unfold s_write. rewrite map_map. reflexivity.
Qed.

(* a writer whose header comes from the table's context (BAM) cannot write ANY derived eager table *)
Definition W_bam : fmt :=
  {| f_kinds := [KStr; KInt 0]; f_layout := LDelim; f_concat := false; f_nowrite := []; f_ragged := false;
     f_eager_write_fails := false; f_write_needs_context := true; f_default_hdr := []; f_sid := [] |}.
Lemma eager_needs_context_refuted :
  exists F hdr recs prog ctx, wf F recs /\
    e_run F hdr [(rows_of_file F recs, ctx); (rows_of_file F recs, ctx)] prog
    <> s_run F hdr [rows_of_file F recs; rows_of_file F recs] prog.
Proof.
  exists W_bam, [], [W_vcfrec], [OIndex 0 (ISlice None None 1%Z); OWriteRead 0], true.
  split; [split; repeat constructor|]. vm_compute. discriminate.
Qed.
(* the BAM scenario of 0f67f4c on the model: fields read before and after writing a selection, a second selection of the
   same parent written in turn — the lazy run observes what the Spec observes *)
Lemma bam_write_between_reads :
  let recs := [W_vcfrec; {| r_fields := [[100%Z]; [55%Z]]; r_raw := [1; 2; 3]%Z |}; {| r_fields := [[101%Z]; [57%Z]]; r_raw := [4; 5]%Z |}] in
  let prog := [OSel 0 1 (IMask [true; false; true]); OGet 0 0; OWriteRead 0; OGet 0 1; OSel 0 1 (ITake [2; 0; 2]%Z); OWriteRead 0;
               OGet 0 0; OWriteRead 1; OGet 1 1] in
  m_guard_fixed_run l_concat W_bam [] (start recs) prog = true
  /\ m_run l_concat W_bam [] (start recs) prog = s_run W_bam [] [rows_of_file W_bam recs; rows_of_file W_bam recs] prog
  /\ nth 5 (m_run l_concat W_bam [] (start recs) prog) XErr = XRows [[VS [101%Z]; VI 9]; [VS [99%Z]; VI 5]; [VS [101%Z]; VI 9]].
Proof. vm_compute. repeat split; reflexivity. Qed.

(* Proofs/C02_fasta.v — wrapped (multi-line) FASTA: MultiLineFastaBuffer.from_raw_buffer + get_data (Model.fasta_cols).
   For every file made of records "'>' name LINE-END, then any number of sequence lines of any lengths" (0 lines and empty
   lines included), LF or CRLF, the parsed rows are exactly (name, concatenation of the record's sequence lines).
   Stage B (pure lists): header-line indices, lines per entry, header texts, sequence-line selection, grouping.
   Stage A (offsets): line-end table, next-byte scan for '>', cut, line starts / ends, CR adjustment, line texts. *)
From Coq Require Import ZArith List Bool Lia Arith.
From BNP Require Import Base.Prims Base.PrimsFacts Base.C02Lib Model.C02 Proofs.C02_table Proofs.C02_lines.
Import ListNotations.
Open Scope Z_scope.

Definition fa_rec := (list Z * list (list Z))%type.       (* name, sequence lines *)
Definition fa_lines (r : fa_rec) : list (list Z) := (62 :: fst r) :: snd r.
Definition isH (l : list Z) : bool := hd0 l =? 62.
Definition all_lines (recs : list fa_rec) : list (list Z) := concat (map fa_lines recs).
Fixpoint hpos (o : Z) (recs : list fa_rec) : list Z :=
  match recs with [] => [] | r :: rs => o :: hpos (o + 1 + len (snd r)) rs end.
Definition seq_ok (r : fa_rec) : Prop := forall l, In l (snd r) -> isH l = false.

Lemma all_lines_cons r rs : all_lines (r :: rs) = (62 :: fst r) :: snd r ++ all_lines rs.
Proof. reflexivity. Qed.
Lemma len_all_lines_cons r rs : len (all_lines (r :: rs)) = 1 + len (snd r) + len (all_lines rs).
Proof. rewrite all_lines_cons, len_cons, len_app. lia. Qed.

(* ---------- small list facts ---------- *)
Lemma fnz_shift l : forall o k, map (fun x => x + k) (flatnonzero_from o l) = flatnonzero_from (o + k) l.
Proof.
  induction l as [|b l IH]; intros o k; [reflexivity|]. simpl. rewrite map_app, IH.
  replace (o + 1 + k) with (o + k + 1) by lia. destruct b; reflexivity.
Qed.
Lemma fnz_ge l : forall o x, In x (flatnonzero_from o l) -> o <= x.
Proof.
  induction l as [|b l IH]; intros o x Hx; [contradiction|]. simpl in Hx. apply in_app_or in Hx. destruct Hx as [Hx|Hx].
  - destruct b; [destruct Hx as [E|[]]; lia|contradiction].
  - apply IH in Hx. lia.
Qed.
Lemma existsb_eqb_false i l : (forall x, In x l -> x <> i) -> existsb (Z.eqb i) l = false.
Proof.
  intros H. apply Bool.not_true_is_false. intro E. apply existsb_exists in E. destruct E as [x [Hx E]].
  apply Z.eqb_eq in E. subst x. exact (H i Hx eq_refl).
Qed.
Lemma filter_all {A} (f : A -> bool) l : (forall x, In x l -> f x = true) -> filter f l = l.
Proof.
  induction l as [|x l IH]; intros H; [reflexivity|]. simpl. rewrite (H x (or_introl eq_refl)). f_equal.
  apply IH. intros y Hy. apply H. right. exact Hy.
Qed.
Lemma firstn_length_app {A} (a b : list A) : firstn (length a) (a ++ b) = a.
Proof. induction a as [|x a IH]; simpl; [destruct b; reflexivity|]. rewrite IH. reflexivity. Qed.
Lemma skipn_length_app {A} (a b : list A) : skipn (length a) (a ++ b) = b.
Proof. induction a as [|x a IH]; simpl; [reflexivity|]. exact IH. Qed.
Lemma diff_cons a l : l <> [] -> diff (a :: l) = (hd 0 l - a) :: diff l.
Proof. destruct l as [|b l]; [congruence|]. reflexivity. Qed.
Lemma map_tl {A B} (f : A -> B) l : map f (tl l) = tl (map f l).
Proof. destruct l; reflexivity. Qed.
Lemma map_removelast {A B} (f : A -> B) l : map f (removelast l) = removelast (map f l).
Proof. induction l as [|x l IH]; [reflexivity|]. destruct l as [|y l]; [reflexivity|]. simpl in *. rewrite IH. reflexivity. Qed.

(* ---------- stage B ---------- *)
(* the header lines are exactly the lines that start with '>' *)
Lemma hpos_fnz recs : forall o, (forall r, In r recs -> seq_ok r) ->
  flatnonzero_from o (map isH (all_lines recs)) = hpos o recs.
Proof.
  induction recs as [|r rs IH]; intros o H; [reflexivity|].
  rewrite all_lines_cons. simpl map. simpl flatnonzero_from.
  change (isH (62 :: fst r)) with true. cbv iota. simpl app. simpl hpos. f_equal.
  rewrite map_app, flatnonzero_from_app, flatnonzero_from_false.
  - simpl app. rewrite len_map.
    apply IH. intros q Hq. apply H. right. exact Hq.
  - intros b Hb. apply in_map_iff in Hb. destruct Hb as [l [E Hl]]. subst b. apply (H r (or_introl eq_refl)). exact Hl.
Qed.

Lemma hd_hpos rs o : hd 0 (hpos o rs ++ [o + len (all_lines rs)]) = o.
Proof. destruct rs; simpl; [unfold all_lines, len; simpl; lia|reflexivity]. Qed.

(* lines per entry *)
Lemma hpos_counts recs : forall o,
  map m_fa_n_lines (diff (hpos o recs ++ [o + len (all_lines recs)])) = map (fun r => len (snd r)) recs.
Proof.
  induction recs as [|r rs IH]; intros o; [reflexivity|].
  simpl hpos. rewrite <- app_comm_cons.
  replace (o + len (all_lines (r :: rs))) with ((o + 1 + len (snd r)) + len (all_lines rs)) by (rewrite len_all_lines_cons; lia).
  rewrite diff_cons by (destruct (hpos (o + 1 + len (snd r)) rs); discriminate).
  rewrite hd_hpos. simpl map. f_equal; [unfold m_fa_n_lines; lia|]. apply IH.
Qed.

(* header texts *)
Lemma hpos_headers recs : forall pre,
  map (fun i => skipn 1 (nth (Z.to_nat i) (pre ++ all_lines recs) [])) (hpos (len pre) recs) = map fst recs.
Proof.
  induction recs as [|r rs IH]; intros pre; [reflexivity|].
  rewrite all_lines_cons. simpl hpos. simpl map. f_equal.
  - unfold len. rewrite Nat2Z.id, app_nth2, Nat.sub_diag by lia. reflexivity.
  - specialize (IH (pre ++ (62 :: fst r) :: snd r)).
    replace (len (pre ++ (62 :: fst r) :: snd r)) with (len pre + 1 + len (snd r)) in IH by (rewrite len_app, len_cons; lia).
    replace ((pre ++ (62 :: fst r) :: snd r) ++ all_lines rs) with (pre ++ (62 :: fst r) :: snd r ++ all_lines rs) in IH
      by (rewrite <- app_assoc; reflexivity).
    exact IH.
Qed.

(* the mask "not a header line", through index membership *)
Lemma filter_fnz (ls : list (list Z)) : forall o (extra : list Z), (forall x, In x extra -> x < o) ->
  map snd (filter (fun p => negb (existsb (Z.eqb (fst p)) (extra ++ flatnonzero_from o (map isH ls))))
                  (combine (arange_from o (length ls)) ls))
  = filter (fun l => negb (isH l)) ls.
Proof.
  induction ls as [|l ls IH]; intros o extra Hex; [reflexivity|].
  simpl length. simpl arange_from. simpl combine. simpl map. simpl flatnonzero_from.
  simpl filter. cbn [fst].
  assert (Htest : existsb (Z.eqb o) (extra ++ (if isH l then [o] else []) ++ flatnonzero_from (o + 1) (map isH ls)) = isH l).
  { rewrite !existsb_app. rewrite (existsb_eqb_false o extra) by (intros x Hx; apply Hex in Hx; lia).
    rewrite (existsb_eqb_false o (flatnonzero_from (o + 1) (map isH ls))) by (intros x Hx; apply fnz_ge in Hx; lia).
    destruct (isH l); simpl; [rewrite Z.eqb_refl; reflexivity|reflexivity]. }
  rewrite Htest. rewrite app_assoc.
  assert (Hex' : forall x, In x (extra ++ (if isH l then [o] else [])) -> x < o + 1).
  { intros x Hx. apply in_app_or in Hx. destruct Hx as [Hx|Hx]; [apply Hex in Hx; lia|].
    destruct (isH l); [destruct Hx as [E|[]]; lia|contradiction]. }
  specialize (IH (o + 1) _ Hex').
  destruct (isH l); simpl negb; cbv iota; [exact IH|]. simpl map. f_equal. exact IH.
Qed.

Lemma filter_seq recs : (forall r, In r recs -> seq_ok r) ->
  filter (fun l => negb (isH l)) (all_lines recs) = concat (map snd recs).
Proof.
  induction recs as [|r rs IH]; intros H; [reflexivity|].
  rewrite all_lines_cons. simpl filter. change (isH (62 :: fst r)) with true. simpl negb. cbv iota.
  rewrite filter_app, filter_all.
  - simpl map. simpl concat. f_equal. apply IH. intros q Hq. apply H. right. exact Hq.
  - intros x Hx. rewrite (H r (or_introl eq_refl) x Hx). reflexivity.
Qed.

Lemma group_by_concat (recs : list fa_rec) :
  group_by (map (fun r => len (snd r)) recs) (concat (map snd recs)) = map (fun r => concat (snd r)) recs.
Proof.
  induction recs as [|r rs IH]; [reflexivity|]. cbn [map concat group_by].
  replace (Z.to_nat (len (snd r))) with (length (snd r)) by (unfold len; rewrite Nat2Z.id; reflexivity).
  rewrite firstn_length_app, skipn_length_app, IH. reflexivity.
Qed.

Lemma hpos_length recs : forall o, length (hpos o recs) = length recs.
Proof. induction recs as [|r rs IH]; intros o; [reflexivity|]. simpl. rewrite IH. reflexivity. Qed.

(* ---------- stage A ---------- *)
(* one past every line break = the next line start; the last one is the end of the file *)
Lemma dpos_succ ps : forall o, ps <> [] ->
  map m_fa_next (dpos o ps) = tl (spos o ps) ++ [o + len (flatten ps)].
Proof.
  induction ps as [|p ps IH]; intros o H; [congruence|].
  destruct ps as [|q ps].
  - cbn [dpos spos map tl app]. rewrite len_flatten_cons. unfold m_fa_next. f_equal.
    change (flatten []) with (@nil Z). rewrite len_nil. lia.
  - remember (q :: ps) as ps' eqn:E. cbn [dpos spos map tl]. rewrite IH by (subst ps'; discriminate).
    rewrite (len_flatten_cons p ps'). subst ps'. cbn [spos tl app]. unfold m_fa_next.
    do 3 f_equal. lia.
Qed.

Lemma lay_flatten crlf ls : lay (eol_of crlf) ls = flatten (map raw (map (fun l => (@nil Z, l, suf_of crlf)) ls)).
Proof.
  induction ls as [|l ls IH]; [reflexivity|]. rewrite !map_cons, flatten_cons.
  change (lay (eol_of crlf) (l :: ls)) with ((l ++ eol_of crlf) ++ lay (eol_of crlf) ls). rewrite IH.
  unfold raw at 1 2, ta, tbody, tsuf. cbn [fst snd]. rewrite eol_suf. simpl app. rewrite <- !app_assoc. reflexivity.
Qed.

Lemma in_flatten c ps : In c (flatten ps) -> exists p, In p ps /\ (In c (fst p) \/ c = snd p).
Proof.
  unfold flatten. intros H. apply in_concat in H. destruct H as [x [Hx Hc]]. apply in_map_iff in Hx.
  destruct Hx as [p [E Hp]]. subst x. exists p. split; [exact Hp|]. apply in_app_or in Hc.
  destruct Hc as [Hc|[E|[]]]; [left; exact Hc|right; symmetry; exact E].
Qed.
Lemma py_get_in data i : In (py_get data i) data \/ py_get data i = 0.
Proof. unfold py_get. destruct (i <? 0); apply nthZ_In_or_0. Qed.

Theorem fasta_cols_correct : forall (crlf : bool) (recs : list fa_rec),
  recs <> [] ->
  (forall r, In r recs -> line_clean (fst r) /\ forall l, In l (snd r) -> line_clean l /\ hd0 l <> 62) ->
  fasta_cols (lay (eol_of crlf) (all_lines recs))
  = Some (len recs, [Col (map (fun r => CBytes (fst r)) recs); Col (map (fun r => CBytes (concat (snd r))) recs)]).
Proof.
  intros crlf recs Hne H.
  assert (Hseq : forall r, In r recs -> seq_ok r).
  { intros r Hr l Hl. destruct (H r Hr) as [_ Hs]. destruct (Hs l Hl) as [_ Hh]. unfold isH. apply Z.eqb_neq. exact Hh. }
  set (ls := all_lines recs).
  set (suf := suf_of crlf).
  set (tcs := map (fun l => (@nil Z, l, suf)) ls).
  set (cells := map raw tcs).
  rewrite (lay_flatten crlf ls). fold suf. fold tcs. fold cells. set (file := flatten cells).
  assert (Hlen_cells : length cells = length ls) by (unfold cells, tcs; rewrite !map_length; reflexivity).
  assert (Hls : exists n rest, ls = (62 :: n) :: rest).
  { unfold ls. destruct recs as [|r0 rs]; [congruence|]. rewrite all_lines_cons. eauto. }
  assert (Hlsne : ls <> []) by (destruct Hls as [n [rest E]]; rewrite E; discriminate).
  assert (Hcne : cells <> []) by (intro E; rewrite E in Hlen_cells; destruct ls; [congruence|discriminate]).
  assert (Hclean : forall l, In l ls -> line_clean l).
  { intros l Hl. unfold ls, all_lines in Hl. apply in_concat in Hl. destruct Hl as [x [Hx Hl]]. apply in_map_iff in Hx.
    destruct Hx as [r [E Hr]]. subst x. destruct (H r Hr) as [Hn Hs]. destruct Hl as [E|Hl].
    - subst l. intros c [E|Hc]; [subst c; split; discriminate|exact (Hn c Hc)].
    - exact (proj1 (Hs l Hl)). }
  assert (Hcell_in : forall p, In p cells -> exists l, In l ls /\ p = (l ++ suf, 10)).
  { intros p Hp. unfold cells, tcs in Hp. rewrite map_map in Hp. apply in_map_iff in Hp. destruct Hp as [l [E Hl]].
    exists l. split; [exact Hl|]. subst p. reflexivity. }
  assert (Hsuf13 : forall c, In c suf -> c = 13).
  { unfold suf. destruct crlf; simpl; intros c Hc; [destruct Hc as [E|[]]; auto|contradiction]. }
  assert (Hcellok : forall p, In p cells -> ~ In 10 (fst p) /\ snd p = 10).
  { intros p Hp. destruct (Hcell_in p Hp) as [l [Hl E]]. subst p. cbn [fst snd]. split; [|reflexivity]. intro Hin.
    apply in_app_or in Hin. destruct Hin as [Hin|Hin]; [exact (proj1 (Hclean l Hl 10 Hin) eq_refl)|].
    apply Hsuf13 in Hin. discriminate. }
  assert (Hpos : positions 10 file = dpos 0 cells) by (unfold positions, flatnonzero; apply nl_positions_cells; exact Hcellok).
  set (D := dpos 0 cells) in *.
  assert (HDlen : len D = len ls) by (unfold len, D; rewrite dpos_length, Hlen_cells; reflexivity).
  assert (HDne : D <> []) by (intro E; rewrite E in HDlen; unfold len in HDlen; destruct ls; [congruence|simpl in HDlen; lia]).
  assert (HDlast : last D 0 = len file - 1) by (unfold D; rewrite dpos_last by exact Hcne; unfold file; lia).
  assert (HD0 : exists e0 D', D = e0 :: D').
  { clear HDlen HDlast. unfold D in *. destruct (dpos 0 cells); [congruence|eauto]. }
  (* first byte *)
  assert (Hfirst : nthZ (file ++ [62]) 0 = 62).
  { destruct Hls as [n [rest E]]. unfold file, cells, tcs. rewrite E. reflexivity. }
  (* the byte after every line break *)
  assert (Hnext : map (fun p => nthZ (file ++ [62]) (m_fa_next p) =? 62) D = tl (map isH ls) ++ [true]).
  { rewrite <- (map_map m_fa_next (fun q => nthZ (file ++ [62]) q =? 62)). unfold D. rewrite dpos_succ by exact Hcne.
    rewrite map_app, map_tl. f_equal.
    - f_equal. pose proof (starts_bytes cells [] [62]) as S. change (len (@nil Z)) with 0 in S.
      change ([] ++ flatten cells ++ [62]) with (file ++ [62]) in S.
      rewrite <- (map_map (nthZ (file ++ [62])) (fun x => x =? 62)). rewrite S. rewrite map_map.
      unfold cells, tcs. rewrite !map_map. apply map_ext. intros l. unfold raw, ta, tbody, tsuf, isH. cbn [fst snd].
      destruct l as [|x l]; [|reflexivity]. unfold suf, suf_of. destruct crlf; reflexivity.
    - simpl map. f_equal. change (flatten cells) with file. rewrite (nthZ_mid file 62 []). reflexivity. }
  set (N := flatnonzero_from 0 (tl (map isH ls))).
  assert (Hne' : flatnonzero_from 0 (tl (map isH ls) ++ [true]) = N ++ [len ls - 1]).
  { rewrite flatnonzero_from_app. fold N. f_equal. simpl. f_equal. rewrite <- map_tl, len_map.
    destruct Hls as [n [rest E]]. rewrite E. simpl tl. rewrite len_cons. lia. }
  assert (HnthD : nthZ D (len ls - 1) = len file - 1) by (rewrite <- HDlen, nthZ_last by exact HDne; exact HDlast).
  assert (HNL : firstn (Z.to_nat (len ls - 1)) D = removelast D).
  { rewrite removelast_firstn_len. f_equal. unfold len in *. lia. }
  set (NL := removelast D) in *.
  assert (HLS : 0 :: map m_fa_line_start NL = spos 0 cells).
  { unfold NL. change m_fa_line_start with m_fa_next. rewrite map_removelast. unfold D. rewrite dpos_succ by exact Hcne.
    rewrite removelast_app_single. clear -Hcne. destruct cells; [congruence|reflexivity]. }
  assert (HLE : NL ++ [m_fa_last_end (len file)] = D).
  { unfold NL, m_fa_last_end. rewrite <- HDlast. apply removelast_last. exact HDne. }
  assert (HCR : (if existsb (fun e => py_get file (m_cr_probe e) =? m_cr_byte) (firstn (Z.to_nat m_fa_cr_window) D)
                 then map (fun e => m_cr_adjust e (py_get file (m_cr_probe e))) D else D) = tepos 0 tcs).
  { rewrite <- (tepos_row suf 0 tcs)
      by (intros c Hc; unfold tcs in Hc; apply in_map_iff in Hc; destruct Hc as [l [E _]]; subst c; reflexivity).
    fold cells. fold D. unfold m_cr_byte. destruct crlf.
    - assert (Hcr : forall x, In x D -> 1 <= x /\ nthZ file (x - 1) = 13).
      { apply cr_before_lf0. intros p Hp. destruct (Hcell_in p Hp) as [l [_ E]]. subst p. exists l. reflexivity. }
      assert (Hpg : forall x, In x D -> py_get file (m_cr_probe x) = 13).
      { intros x Hx. destruct (Hcr x Hx) as [A B]. unfold py_get, m_cr_probe. destruct (Z.ltb_spec (x - 1) 0); [lia|exact B]. }
      replace (existsb (fun e => py_get file (m_cr_probe e) =? 13) (firstn (Z.to_nat m_fa_cr_window) D)) with true.
      2:{ symmetry. apply existsb_exists. destruct HD0 as [e0 [D' E0]]. exists e0. split; [rewrite E0; simpl; left; reflexivity|].
          rewrite Hpg by (rewrite E0; left; reflexivity). reflexivity. }
      apply map_ext_in. intros x Hx. rewrite (Hpg x Hx). reflexivity.
    - replace (existsb (fun e => py_get file (m_cr_probe e) =? 13) (firstn (Z.to_nat m_fa_cr_window) D)) with false.
      2:{ symmetry. apply Bool.not_true_is_false. intro E. apply existsb_exists in E. destruct E as [e [_ E]]. apply Z.eqb_eq in E.
          destruct (py_get_in file (m_cr_probe e)) as [Hin|E0]; [|rewrite E0 in E; discriminate].
          rewrite E in Hin. apply in_flatten in Hin. destruct Hin as [p [Hp [Hin|Hin]]].
          - destruct (Hcell_in p Hp) as [l [Hl Ep]]. subst p. cbn [fst] in Hin. unfold suf in Hin. simpl in Hin.
            rewrite app_nil_r in Hin. exact (proj2 (Hclean l Hl 13 Hin) eq_refl).
          - destruct (Hcellok p Hp) as [_ E1]. rewrite E1 in Hin. discriminate. }
      rewrite <- (map_id D) at 1. apply map_ext. intros x. unfold suf. unfold len. simpl. lia. }
  assert (HL : map (text_at file) (combine (spos 0 cells) (tepos 0 tcs)) = ls).
  { pose proof (trimmed_texts tcs [] []) as T. change (len (@nil Z)) with 0 in T.
    rewrite (tspos_plain 0 tcs) in T
      by (intros c Hc; unfold tcs in Hc; apply in_map_iff in Hc; destruct Hc as [l [E _]]; subst c; reflexivity).
    rewrite app_nil_r in T. transitivity (map tbody tcs); [exact T|].
    unfold tcs. rewrite map_map. unfold tbody. cbn [fst snd]. apply map_id. }
  assert (Hhdr : 0 :: map m_fa_entry_line N = hpos 0 recs).
  { rewrite <- (hpos_fnz recs 0 Hseq). fold ls. destruct Hls as [n [rest E]]. unfold N. rewrite E. simpl map. simpl tl.
    simpl flatnonzero_from. change (isH (62 :: n)) with true. cbv iota. simpl app. f_equal.
    change m_fa_entry_line with (fun x => x + 1). rewrite fnz_shift. reflexivity. }
  assert (Htot : m_fa_total (len NL) = 0 + len ls).
  { unfold m_fa_total, NL. rewrite <- HDlen. destruct (exists_last HDne) as [D' [x E]]. rewrite E, removelast_app_single, len_app, len_single. lia. }
  (* run the model *)
  unfold fasta_cols. cbv zeta. rewrite Hfirst. change (negb (62 =? 62)) with false. cbv iota.
  rewrite removelast_app_single, Hpos. fold D. rewrite Hnext. unfold flatnonzero. rewrite Hne', rev_unit. cbv beta iota.
  rewrite removelast_app_single, HnthD.
  replace (m_fa_cut (len file - 1)) with (len file) by (unfold m_fa_cut; lia).
  replace (firstn (Z.to_nat (len file)) (file ++ [62])) with file by (unfold len; rewrite Nat2Z.id, firstn_length_app; reflexivity).
  rewrite HNL, HLS, HLE, HCR, HL, Hhdr, Htot.
  unfold ls. rewrite (hpos_counts recs 0).
  change (Z.to_nat m_fa_name_from) with 1%nat.
  pose proof (hpos_headers recs []) as HH. change (len (@nil (list Z))) with 0 in HH.
  change ([] ++ all_lines recs) with (all_lines recs) in HH. rewrite HH.
  replace (arange (len (all_lines recs))) with (arange_from 0 (length (all_lines recs))) by (unfold arange, len; rewrite Nat2Z.id; reflexivity).
  rewrite <- (hpos_fnz recs 0 Hseq). pose proof (filter_fnz (all_lines recs) 0 [] ltac:(intros x [])) as HF.
  change ([] ++ flatnonzero_from 0 (map isH (all_lines recs))) with (flatnonzero_from 0 (map isH (all_lines recs))) in HF. rewrite HF.
  rewrite (filter_seq recs Hseq), group_by_concat, hpos_fnz by exact Hseq.
  unfold len. rewrite hpos_length, !map_map. reflexivity.
Qed.

(* ---------- whole files through run ---------- *)
(* any line widths: a record is a name and ANY list of sequence lines (none, empty ones, unequal lengths) *)
Theorem fasta_lines_end_to_end : forall (crlf : bool) (recs : list fa_rec),
  recs <> [] ->
  (forall r, In r recs -> line_clean (fst r) /\ forall l, In l (snd r) -> line_clean l /\ hd0 l <> 62) ->
  run Ffasta None (lay (eol_of crlf) (all_lines recs))
  = Obs (len recs) [Col (map (fun r => CBytes (fst r)) recs); Col (map (fun r => CBytes (concat (snd r))) recs)] true.
Proof.
  intros crlf recs Hne H. unfold run. cbn [comment_byte]. unfold skip_header. change (0 =? 0) with true. cbv iota.
  rewrite (fasta_cols_correct crlf recs Hne H). reflexivity.
Qed.

Lemma chunks_fuel_in {A} (w : nat) : forall f (s l : list A) c, In l (chunks_of_fuel f w s) -> In c l -> In c s.
Proof.
  induction f as [|f IH]; intros s l c Hl Hc; [contradiction|].
  cbn [chunks_of_fuel] in Hl. destruct s as [|x s]; [contradiction|].
  rewrite <- (firstn_skipn w (x :: s)). apply in_or_app. destruct Hl as [E|Hl].
  - left. rewrite E. exact Hc.
  - right. exact (IH _ _ _ Hl Hc).
Qed.
Lemma chunks_fuel_concat {A} (w : nat) : (1 <= w)%nat -> forall f (s : list A), (length s <= f)%nat ->
  concat (chunks_of_fuel f w s) = s.
Proof.
  intros Hw. induction f as [|f IH]; intros s Hs.
  - destruct s; [reflexivity|simpl in Hs; lia].
  - cbn [chunks_of_fuel]. destruct s as [|x s]; [reflexivity|]. cbn [concat].
    rewrite IH by (rewrite skipn_length; simpl length in *; lia). apply firstn_skipn.
Qed.
Lemma mapM_some {A B} (g : A -> B) l : mapM (fun x => Some (g x)) l = Some (map g l).
Proof. induction l as [|x l IH]; [reflexivity|]. simpl. rewrite IH. reflexivity. Qed.

(* the generator's layout: every sequence wrapped at width w (last line shorter, exact multiples, width 1, w larger than
   the sequence = one line, empty sequence = no line) *)
Definition fa_of (w : Z) (r : list (list Z)) : fa_rec := (field r 0, chunks_of (Z.to_nat w) (field r 1)).
Theorem fasta_wrapped_end_to_end : forall (crlf : bool) (w : Z) (recs : list (list (list Z))),
  1 <= w -> recs <> [] ->
  (forall r, In r recs -> line_clean (field r 0) /\ line_clean (field r 1) /\ ~ In 62 (field r 1)) ->
  run Ffasta None (lay (eol_of crlf) (body_lines Ffasta w recs [])) = Obs (len recs) (spec_cols Ffasta None recs) true.
Proof.
  intros crlf w recs Hw Hne H.
  assert (Hbody : body_lines Ffasta w recs [] = all_lines (map (fa_of w) recs)).
  { rewrite body_lines_nocomments. unfold all_lines. rewrite map_map. reflexivity. }
  rewrite Hbody, fasta_lines_end_to_end.
  - rewrite len_map. f_equal. unfold spec_cols. cbn [schema has_geno has_geno2 map app]. unfold spec_col. cbn [fst snd spec_cell].
    rewrite !mapM_some, !map_map. f_equal. f_equal. f_equal. apply map_ext_in. intros r Hr. unfold fa_of. cbn [snd]. f_equal.
    unfold chunks_of. apply chunks_fuel_concat; lia.
  - destruct recs; [congruence|discriminate].
  - intros r' Hr'. apply in_map_iff in Hr'. destruct Hr' as [r [E Hr]]. subst r'. destruct (H r Hr) as [Hn [Hs H62]].
    unfold fa_of. cbn [fst snd]. split; [exact Hn|]. intros l Hl. unfold chunks_of in Hl. split.
    + intros c Hc. apply Hs. exact (chunks_fuel_in _ _ _ _ _ Hl Hc).
    + destruct l as [|c l]; [discriminate|]. simpl. intro E. subst c. apply H62.
      exact (chunks_fuel_in _ _ _ _ 62 Hl (or_introl eq_refl)).
Qed.

(* Proofs/C07_main.v — part 3: encodings, and the instantiation of the generic simulation with the Model
   (raw codes, flat buffers) against the Spec (characters). *)
From Coq Require Import ZArith List Bool Lia Arith.
From BNP Require Import Base.Prims Base.PrimsFacts Model.C07 Proofs.C07 Proofs.C07_sim.
Import ListNotations.
Open Scope Z_scope.

(* ---------- T4: the encoding of every result is the encoding of the operand ---------- *)
Ltac crush_enc :=
  repeat match goal with
         | |- context [match ?x with _ => _ end] => destruct x
         end;
  unfold keep, bad; simpl; (split; [reflexivity| intros v' Hv'; try discriminate; inversion Hv'; reflexivity]).

Theorem step_encoding_preserved : forall P v o,
  enc_of (fst (g_step P v o)) = enc_of v
  /\ (forall v', snd (g_step P v o) = OV v' -> enc_of v' = enc_of v).
Proof.
  intros P v o. destruct v as [e rows|e s|e c]; unfold g_step.
  - destruct o; unfold step_ragged; try (crush_enc; fail).
  - destruct o; unfold step_flat; try (crush_enc; fail).
  - destruct o; unfold step_char; try (crush_enc; fail).
Qed.

(* ---------- decode is injective ---------- *)
Definition enc_wf (e : enc) : Prop :=
  match e with Base => True | Alpha al => NoDup al /\ Forall (fun a => 0 <= a) al end.

Lemma nthZ_nonneg al r : Forall (fun a => 0 <= a) al -> 0 <= r < len al -> 0 <= nthZ al r.
Proof.
  intros H Hr. unfold nthZ. rewrite Forall_forall in H. apply H. apply nth_In. unfold len in Hr. lia.
Qed.
Lemma decode1_inj e : enc_wf e -> forall x y, decode1 e x = decode1 e y -> x = y.
Proof.
  destruct e as [|al]; intros Hwf x y H; [exact H|].
  unfold decode1 in H. destruct Hwf as [Hnd Hpos].
  destruct ((0 <=? x) && (x <? len al)) eqn:Ex; destruct ((0 <=? y) && (y <? len al)) eqn:Ey.
  - apply andb_true_iff in Ex, Ey. destruct Ex as [Ex1 Ex2], Ey as [Ey1 Ey2].
    apply Z.leb_le in Ex1, Ey1. apply Z.ltb_lt in Ex2, Ey2.
    unfold nthZ in H. rewrite NoDup_nth in Hnd.
    assert (Z.to_nat x = Z.to_nat y) by (apply Hnd; unfold len in *; try lia; exact H). lia.
  - apply andb_true_iff in Ex. destruct Ex as [Ex1 Ex2]. apply Z.leb_le in Ex1. apply Z.ltb_lt in Ex2.
    pose proof (nthZ_nonneg al x Hpos (conj Ex1 Ex2)).
    destruct (y <? 0) eqn:E; cbv iota in H; [apply Z.ltb_lt in E|apply Z.ltb_ge in E]. all: lia.
  - apply andb_true_iff in Ey. destruct Ey as [Ey1 Ey2]. apply Z.leb_le in Ey1. apply Z.ltb_lt in Ey2.
    pose proof (nthZ_nonneg al y Hpos (conj Ey1 Ey2)).
    destruct (x <? 0) eqn:E; cbv iota in H; [apply Z.ltb_lt in E|apply Z.ltb_ge in E]; lia.
  - destruct (x <? 0) eqn:E1; destruct (y <? 0) eqn:E2; cbv iota in H; lia.
Qed.

(* ---------- the Spec-side routines are natural in an injective recoding ---------- *)
Section SpecNatural.
Variable phi : Z -> Z.
Hypothesis phi_inj : forall x y, phi x = phi y -> x = y.

Lemma eqb_phi' x y : (phi x =? phi y) = (x =? y).
Proof.
  destruct (x =? y) eqn:E.
  - apply Z.eqb_eq in E. subst. apply Z.eqb_refl.
  - apply Z.eqb_neq. intros H. apply phi_inj in H. apply Z.eqb_neq in E. contradiction.
Qed.
Lemma map_removelast {A B} (g : A -> B) : forall l, map g (removelast l) = removelast (map g l).
Proof.
  induction l as [|x l IH]; [reflexivity|]. destruct l as [|y l]; [reflexivity|].
  transitivity (g x :: map g (removelast (y :: l))); [reflexivity|].
  rewrite IH. reflexivity.
Qed.
Lemma s_join_map rows sep k : map phi (s_join rows sep k) = s_join (map (map phi) rows) (phi sep) k.
Proof.
  unfold s_join.
  assert (E : map phi (concat (map (fun r => r ++ [sep]) rows))
              = concat (map (fun r => r ++ [phi sep]) (map (map phi) rows))).
  { rewrite concat_map, !map_map. f_equal. apply map_ext. intros. rewrite map_app. reflexivity. }
  destruct k; [exact E|]. rewrite map_removelast, E. reflexivity.
Qed.
Lemma split_on_map sep : forall s, map (map phi) (split_on sep s) = split_on (phi sep) (map phi s).
Proof.
  induction s as [|x r IH]; [reflexivity|].
  simpl. rewrite eqb_phi'. destruct (x =? sep).
  - simpl. rewrite IH. reflexivity.
  - rewrite <- IH. destruct (split_on sep r); reflexivity.
Qed.
Lemma memb_map x l : memb (phi x) (map phi l) = memb x l.
Proof. unfold memb. induction l as [|y l IH]; [reflexivity|]. simpl. rewrite eqb_phi', IH. reflexivity. Qed.
Lemma split_by_map p q : (forall x, q (phi x) = p x) ->
  forall s, map (map phi) (split_by p s) = split_by q (map phi s).
Proof.
  intros H. induction s as [|x r IH]; [reflexivity|].
  simpl. rewrite H. destruct (p x).
  - simpl. rewrite IH. reflexivity.
  - rewrite <- IH. destruct (split_by p r); reflexivity.
Qed.
Lemma zlist_eqb_map : forall r s, zlist_eqb (map phi r) (map phi s) = zlist_eqb r s.
Proof.
  unfold zlist_eqb. induction r as [|x r IH]; intros [|y s]; simpl; try reflexivity.
  rewrite eqb_phi', IH. reflexivity.
Qed.
Lemma s_streq_map rows s : s_streq rows s = s_streq (map (map phi) rows) (map phi s).
Proof. unfold s_streq. rewrite map_map. apply map_ext. intros. symmetry. apply zlist_eqb_map. Qed.
Lemma s_streq2_map : forall rows l, s_streq2 rows l = s_streq2 (map (map phi) rows) (map (map phi) l).
Proof.
  unfold s_streq2. induction rows as [|a rows IH]; intros [|b l]; simpl; try reflexivity.
  rewrite zlist_eqb_map, IH. reflexivity.
Qed.
Lemma slice_map {A B} (g : A -> B) a b l : slice a b (map g l) = map g (slice a b l).
Proof. unfold slice. rewrite skipn_map, firstn_map. reflexivity. Qed.
Lemma map2_slice_map flat T : forall starts es,
  map2 (fun s e => let e' := if e <? 0 then T + e else Z.min e T in slice s e' (map phi flat)) starts es
  = map (map phi) (map2 (fun s e => let e' := if e <? 0 then T + e else Z.min e T in slice s e' flat) starts es).
Proof.
  induction starts as [|s starts IH]; intros [|e' es]; simpl; try reflexivity.
  rewrite slice_map, IH. reflexivity.
Qed.
Lemma s_rslice_map rows st en :
  option_map (map (map phi)) (s_rslice rows st en) = s_rslice (map (map phi) rows) st en.
Proof.
  unfold s_rslice. rewrite <- concat_map, len_map.
  destruct (negb (len match en with Some es => es | None => map (fun _ => len (concat rows)) st end =? len st)); [reflexivity|].
  destruct (negb (forallb (fun s => (0 <=? s) && (s <=? len (concat rows))) st)); [reflexivity|].
  simpl. rewrite map2_slice_map. reflexivity.
Qed.
End SpecNatural.

(* ---------- the simulation, instantiated ---------- *)
(* the operand characters of an operation are translated by the model's lookup table exactly as the Spec's
   alphabet membership says (proved for the tables below) *)
Definition chars_agree (prep : enc -> Z -> option Z) (e : enc) (o : op) : Prop :=
  forall c, In c (op_chars o) -> s_prep e c = option_map (decode1 e) (prep e c).

Lemma strip0_id : forall l, Forall (fun c => c <> 0) l -> strip0 l = l.
Proof.
  induction l as [|x r IH]; intros H; [reflexivity|].
  inversion H as [|? ? Hx Hr]; subst. simpl. rewrite (IH Hr).
  destruct r; [|reflexivity]. replace (x =? 0) with false by (symmetry; apply Z.eqb_neq; exact Hx). reflexivity.
Qed.

(* string_array is included when the variant does not raise on all-empty rows and the decoded text has no NUL *)
Theorem step_simulation : forall prep vr e v o,
  enc_wf e -> enc_of v = e -> chars_agree prep e o ->
  (o = SArr -> v_sarr_empty_raises vr = false /\ sarr_ok (decode1 e) v) ->
  mapr (decode1 e) (g_step (model_prims_with prep vr) v o) = s_step (mapv (decode1 e) v) o.
Proof.
  intros prep vr e v o Hwf He Hc Hns. unfold s_step.
  pose proof (decode1_inj e Hwf) as Hinj.
  apply g_step_natural with (e := e) (sarr_sound := v_sarr_empty_raises vr = false); try assumption.
  - reflexivity.
  - intros. simpl. unfold m_join. rewrite join_spec. apply s_join_map.
  - intros. simpl. rewrite split_spec. apply split_on_map. exact Hinj.
  - intros s0 seps. simpl. rewrite split_list_spec. unfold s_split_l. apply split_by_map. intros x. apply memb_map. exact Hinj.
  - intros. simpl. rewrite str_equal_spec. apply s_streq_map. exact Hinj.
  - intros. simpl. rewrite str_equal2_spec. apply s_streq2_map. exact Hinj.
  - intros. simpl. rewrite ragged_slice_spec. apply s_rslice_map.
  - intros Hf rows Hnf. simpl. unfold m_sarr. rewrite Hf. simpl. f_equal.
    apply map_ext_in. intros r Hr. apply strip0_id. unfold nulfree in Hnf. rewrite Forall_forall in Hnf.
    specialize (Hnf r Hr). apply Forall_forall. intros c Hc'. apply in_map_iff in Hc'. destruct Hc' as [x [Ex Hx]].
    subst c. rewrite Forall_forall in Hnf. apply Hnf. exact Hx.
Qed.

(* an encoding none of whose codes decodes to NUL: every alphabet without the NUL character *)
Definition nul_free_enc (e : enc) : Prop := forall r, decode1 e r <> 0.
Lemma nul_free_alpha al : enc_wf (Alpha al) -> ~ In 0 al -> nul_free_enc (Alpha al).
Proof.
  intros [_ Hpos] Hn r. unfold decode1.
  destruct ((0 <=? r) && (r <? len al)) eqn:E.
  - apply andb_true_iff in E. destruct E as [E1 E2]. apply Z.leb_le in E1. apply Z.ltb_lt in E2.
    intros H0. apply Hn. rewrite <- H0. unfold nthZ. apply nth_In. unfold len in E2. lia.
  - destruct (Z.ltb_spec r 0); lia.
Qed.
Lemma nul_free_sarr_ok e v : nul_free_enc e -> sarr_ok (decode1 e) v.
Proof.
  intros H. destruct v; simpl; try exact I. unfold nulfree. apply Forall_forall. intros r _.
  apply Forall_forall. intros c _. apply H.
Qed.

(* whole programs: every step's observation, and the object copy() was called on *)
Definition map_run (phi : Z -> Z) (l : list (obs * option value)) : list (obs * option value) :=
  map (fun p => (mapo phi (fst p), option_map (mapv phi) (snd p))) l.
Definition sarr_side (vr : variant) (e : enc) (o : op) : Prop :=
  o = SArr -> v_sarr_empty_raises vr = false /\ nul_free_enc e.
Theorem run_simulation : forall prep vr e ops v saved,
  enc_wf e -> enc_of v = e -> Forall (fun o => chars_agree prep e o /\ sarr_side vr e o) ops ->
  map_run (decode1 e) (g_run (model_prims_with prep vr) v saved ops)
  = s_run (mapv (decode1 e) v) (option_map (mapv (decode1 e)) saved) ops.
Proof.
  intros prep vr e. induction ops as [|o ops IH]; intros v saved Hwf He Hops; [reflexivity|].
  inversion Hops as [|o' l' [Hc Hns] Hrest]; subst o' l'.
  assert (Hns' : o = SArr -> v_sarr_empty_raises vr = false /\ sarr_ok (decode1 e) v).
  { intros Eo. destruct (Hns Eo) as [Hf Hn]. split; [exact Hf|apply nul_free_sarr_ok; exact Hn]. }
  pose proof (step_simulation prep vr e v o Hwf He Hc Hns') as Hs.
  pose proof (step_encoding_preserved (model_prims_with prep vr) v o) as [Henc _].
  unfold s_run, s_step in *. simpl g_run.
  destruct (g_step (model_prims_with prep vr) v o) as [v' ob].
  destruct (g_step spec_prims (mapv (decode1 e) v) o) as [sv' sob].
  unfold mapr in Hs. simpl in Hs, Henc. injection Hs as Hv Hob. subst sv' sob.
  assert (He' : enc_of v' = e) by congruence.
  destruct o; unfold map_run; simpl map; f_equal; try (apply IH; assumption).
Qed.

(* ---------- the lookup table against alphabet membership ---------- *)
Definition is_upper (a : Z) : bool := (65 <=? a) && (a <=? 90).
(* what the constructor guarantees: distinct upper-cased ASCII codes *)
Definition alpha_ok (al : list Z) : Prop :=
  NoDup al /\ Forall (fun a => 0 <= a < 224 /\ is_lower a = false) al.
(* (non-letter member)+32: the characters the table of the code at HEAD wrongly accepts (C06 finding) *)
Definition shadow (al : list Z) (c : Z) : bool := existsb (fun a => (a + 32 =? c) && negb (is_upper a)) al.

Lemma liw_spec (f : Z -> bool) : forall l i acc,
  match last_index_where f l i acc with
  | Some j => (acc = Some j /\ forall a, In a l -> f a = false)
              \/ (i <= j < i + len l /\ f (nthZ l (j - i)) = true)
  | None => acc = None /\ forall a, In a l -> f a = false
  end.
Proof.
  induction l as [|y l IH]; intros i acc; simpl.
  - destruct acc; [left|]; split; auto; intros a [].
  - specialize (IH (i + 1) (if f y then Some i else acc)).
    destruct (last_index_where f l (i + 1) (if f y then Some i else acc)) as [j|].
    + destruct IH as [[Ha Hn]|[Hr Hf]].
      * destruct (f y) eqn:Fy.
        -- inversion Ha; subst. right. rewrite len_cons. pose proof (len_nonneg l). split; [lia|].
           replace (j - j) with 0 by lia. exact Fy.
        -- left. split; [exact Ha|]. intros a [Hy|Hin]; [subst; exact Fy|apply Hn; exact Hin].
      * right. rewrite len_cons. split; [lia|].
        unfold nthZ in *. replace (Z.to_nat (j - i)) with (S (Z.to_nat (j - (i + 1)))) by lia. exact Hf.
    + destruct IH as [Ha Hn]. destruct (f y) eqn:Fy; [discriminate|].
      split; [exact Ha|]. intros a [Hy|Hin]; [subst; exact Fy|apply Hn; exact Hin].
Qed.
Lemma memb_In x l : memb x l = true <-> In x l.
Proof.
  unfold memb. rewrite existsb_exists. split.
  - intros [y [Hy E]]. apply Z.eqb_eq in E. subst. exact Hy.
  - intros H. exists x. split; [exact H|apply Z.eqb_refl].
Qed.
Lemma nthZ_In (l : list Z) j : 0 <= j < len l -> In (nthZ l j) l.
Proof. intros H. unfold nthZ. apply nth_In. unfold len in H. lia. Qed.

Lemma prep_generic (f1 : Z -> bool) al c : alpha_ok al ->
  (forall a, In a al -> f1 a = true -> a + 32 = c /\ is_upper a = true) ->
  (forall a, In a al -> is_upper a = true -> a + 32 = c -> f1 a = true) ->
  s_prep (Alpha al) c
  = option_map (decode1 (Alpha al))
      (match (match last_index_where f1 al 0 None with
              | Some i => Some i
              | None => last_index_where (fun a => a =? c) al 0 None end) with
       | Some i => if i <? len al then Some i else None
       | None => None end).
Proof.
  intros [Hnd Hok] H1 H2. rewrite Forall_forall in Hok. unfold s_prep.
  pose proof (liw_spec f1 al 0 None) as S1.
  destruct (last_index_where f1 al 0 None) as [j|].
  - destruct S1 as [[Hx _]|[Hr Hf]]; [discriminate|].
    replace (j - 0) with j in Hf by lia.
    assert (Hj : 0 <= j < len al) by lia.
    pose proof (nthZ_In al j Hj) as Hin. destruct (H1 _ Hin Hf) as [Hc Hu].
    unfold is_upper in Hu. apply andb_true_iff in Hu. destruct Hu as [Hu1 Hu2].
    apply Z.leb_le in Hu1, Hu2.
    assert (Eu : upper c = nthZ al j).
    { unfold upper. replace ((97 <=? c) && (c <=? 122)) with true; [lia|].
      symmetry. apply andb_true_iff. split; apply Z.leb_le; lia. }
    rewrite Eu. replace (memb (nthZ al j) al) with true by (symmetry; apply memb_In; exact Hin).
    replace (j <? len al) with true by (symmetry; apply Z.ltb_lt; lia).
    simpl. replace ((0 <=? j) && (j <? len al)) with true; [reflexivity|].
    symmetry. apply andb_true_iff. split; [apply Z.leb_le|apply Z.ltb_lt]; lia.
  - destruct S1 as [_ Hn1].
    pose proof (liw_spec (fun a => a =? c) al 0 None) as S2.
    destruct (last_index_where (fun a => a =? c) al 0 None) as [j|].
    + destruct S2 as [[Hx _]|[Hr Hf]]; [discriminate|].
      replace (j - 0) with j in Hf by lia. apply Z.eqb_eq in Hf.
      assert (Hj : 0 <= j < len al) by lia.
      pose proof (nthZ_In al j Hj) as Hin. rewrite Hf in Hin.
      destruct (Hok _ Hin) as [_ Hlow].
      assert (Eu : upper c = c). { unfold upper. unfold is_lower in Hlow. rewrite Hlow. reflexivity. }
      rewrite Eu. replace (memb c al) with true by (symmetry; apply memb_In; exact Hin).
      replace (j <? len al) with true by (symmetry; apply Z.ltb_lt; lia).
      simpl. replace ((0 <=? j) && (j <? len al)) with true; [rewrite Hf; reflexivity|].
      symmetry. apply andb_true_iff. split; [apply Z.leb_le|apply Z.ltb_lt]; lia.
    + destruct S2 as [_ Hn2]. simpl.
      destruct (memb (upper c) al) eqn:Em; [|reflexivity].
      exfalso. apply memb_In in Em. unfold upper in Em.
      destruct ((97 <=? c) && (c <=? 122)) eqn:El.
      * apply andb_true_iff in El. destruct El as [El1 El2]. apply Z.leb_le in El1, El2.
        assert (Hu : is_upper (c - 32) = true).
        { unfold is_upper. apply andb_true_iff. split; apply Z.leb_le; lia. }
        assert (f1 (c - 32) = true) by (apply H2; [exact Em|exact Hu|lia]).
        rewrite (Hn1 _ Em) in H. discriminate.
      * pose proof (Hn2 _ Em) as Hc. rewrite Z.eqb_refl in Hc. discriminate.
Qed.

(* the table of the code at HEAD is right for every character that is not (non-letter member)+32 *)
Theorem prep_head_partial : forall al c, alpha_ok al -> shadow al c = false ->
  s_prep (Alpha al) c = option_map (decode1 (Alpha al)) (m_prep_pinned (Alpha al) c).
Proof.
  intros al c Hok Hsh. unfold m_prep_pinned, m_prep_with, lookup_head.
  apply prep_generic; [exact Hok| |].
  - intros a Hin Hf. destruct Hok as [_ Hr]. rewrite Forall_forall in Hr. destruct (Hr _ Hin) as [Hr1 _].
    apply Z.eqb_eq in Hf. rewrite Z.mod_small in Hf by lia. split; [exact Hf|].
    unfold shadow in Hsh. destruct (is_upper a) eqn:Eu; [reflexivity|]. exfalso.
    assert (existsb (fun a => (a + 32 =? c) && negb (is_upper a)) al = true).
    { apply existsb_exists. exists a. split; [exact Hin|]. rewrite Eu. simpl. rewrite andb_true_r. apply Z.eqb_eq. exact Hf. }
    congruence.
  - intros a Hin Hu Hc. destruct Hok as [_ Hr]. rewrite Forall_forall in Hr. destruct (Hr _ Hin) as [Hr1 _].
    apply Z.eqb_eq. rewrite Z.mod_small by lia. exact Hc.
Qed.
(* ... and wrong for such a character: DigitEncoding takes 'P' for '0' *)
Theorem prep_head_refuted : exists al c, alpha_ok al /\
  s_prep (Alpha al) c <> option_map (decode1 (Alpha al)) (m_prep_pinned (Alpha al) c).
Proof.
  exists [48; 49; 50; 51; 52; 53; 54; 55; 56; 57], 80. split.
  - split.
    + repeat constructor; simpl; intuition lia.
    + repeat constructor; lia.
  - vm_compute. discriminate.
Qed.
(* the repaired table is right for every character *)
Theorem prep_fixed_full : forall al c, alpha_ok al ->
  s_prep (Alpha al) c = option_map (decode1 (Alpha al)) (m_prep (Alpha al) c).
Proof.
  intros al c Hok. unfold m_prep, m_prep_with, lookup_fixed.
  apply prep_generic; [exact Hok| |].
  - intros a Hin Hf. apply andb_true_iff in Hf. destruct Hf as [Hu Hc]. apply Z.eqb_eq in Hc.
    split; [exact Hc|exact Hu].
  - intros a Hin Hu Hc. apply andb_true_iff. split; [exact Hu|apply Z.eqb_eq; exact Hc].
Qed.
Lemma alpha_ok_wf al : alpha_ok al -> enc_wf (Alpha al).
Proof.
  intros [Hnd Hr]. split; [exact Hnd|]. rewrite Forall_forall in *. intros a Ha. destruct (Hr a Ha) as [H _]. lia.
Qed.

(* T5: a character outside the alphabet makes the comparison raise, it never compares unequal silently *)
Theorem foreign_char_raises : forall P v c neg,
  p_prep P (enc_of v) c = None -> snd (g_step P v (Eq (PChar c) neg)) = OErr.
Proof.
  intros P v c neg H. destruct v as [e rows|e s|e x]; simpl in *; rewrite H; reflexivity.
Qed.

(* ---------- programs over the tables of the code ---------- *)
Lemma chars_agree_base prep o : (forall c, prep Base c = Some c) -> chars_agree prep Base o.
Proof. intros H c _. rewrite H. reflexivity. Qed.

Theorem program_head_partial : forall vr e ops v saved,
  match e with Base => True | Alpha al => alpha_ok al end -> enc_of v = e ->
  Forall (fun o => (forall c, In c (op_chars o) -> match e with Base => True | Alpha al => shadow al c = false end)
                   /\ sarr_side vr e o) ops ->
  map_run (decode1 e) (g_run (model_prims_with m_prep_pinned vr) v saved ops)
  = s_run (mapv (decode1 e) v) (option_map (mapv (decode1 e)) saved) ops.
Proof.
  intros vr e ops v saved Hok He Hops. apply run_simulation.
  - destruct e; [exact I|apply alpha_ok_wf; exact Hok].
  - exact He.
  - eapply Forall_impl; [|exact Hops]. intros o [Hc Hns]. split; [|exact Hns].
    intros c Hin. destruct e as [|al]; [reflexivity|]. apply prep_head_partial; [exact Hok|apply Hc; exact Hin].
Qed.
Theorem program_fixed_full : forall vr e ops v saved,
  match e with Base => True | Alpha al => alpha_ok al end -> enc_of v = e ->
  Forall (sarr_side vr e) ops ->
  map_run (decode1 e) (g_run (model_prims_with m_prep vr) v saved ops)
  = s_run (mapv (decode1 e) v) (option_map (mapv (decode1 e)) saved) ops.
Proof.
  intros vr e ops v saved Hok He Hops. apply run_simulation.
  - destruct e; [exact I|apply alpha_ok_wf; exact Hok].
  - exact He.
  - eapply Forall_impl; [|exact Hops]. intros o Hns. split; [|exact Hns].
    intros c Hin. destruct e as [|al]; [reflexivity|]. apply prep_fixed_full; exact Hok.
Qed.

(* the code at HEAD versus the step function the theorems are about *)
Theorem step_repaired_is_g_step : forall v o, m_step_v repaired true v o = g_step (model_prims_with m_prep repaired) v o.
Proof.
  intros v o. unfold m_step_v. simpl. rewrite andb_false_r.
  destruct (snd (g_step (model_prims_with m_prep repaired) v o)); reflexivity.
Qed.
Theorem step_pinned_partial : forall v o, scalar_position v o = false ->
  m_step_v pinned true v o = g_step (model_prims_with m_prep pinned) v o.
Proof.
  intros v o H. unfold m_step_v. simpl. rewrite H. rewrite andb_false_r.
  destruct (snd (g_step (model_prims_with m_prep pinned) v o)); reflexivity.
Qed.
Theorem step_pinned_refuted : exists v o,
  snd (m_step_v pinned true v o) = ORaise /\ exists v', snd (s_step (dec_value v) o) = OV v'.
Proof.
  exists (VF (Alpha [65; 67; 71; 84]) [0; 0]), (SetIdx (SInt 0) (PChar 71)).
  split; [reflexivity|]. eexists. vm_compute. reflexivity.
Qed.

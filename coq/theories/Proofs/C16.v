(* Proofs/C16.v — lemmas and main proofs for C16 (BAM records). *)
From Coq Require Import ZArith List Bool Lia Arith.
From BNP Require Import Base.Prims Base.PrimsFacts Model.C16.
Import ListNotations.
Open Scope Z_scope.
(* lia extended with the euclidean-division equations, for / and mod by constants *)
Ltac divmod_lia := Z.to_euclidean_division_equations; lia.

(* ================================================================= little-endian integers *)
Lemma len_le_bytes n x : len (le_bytes n x) = Z.of_nat n.
Proof.
  revert x. induction n as [|n IH]; intros x; [reflexivity|].
  cbn [le_bytes]. rewrite len_cons, IH. lia.
Qed.
Lemma from_le_le_bytes n x : from_le (le_bytes n x) = x mod 256 ^ Z.of_nat n.
Proof.
  revert x. induction n as [|n IH]; intros x.
  - simpl. rewrite Z.mod_1_r. reflexivity.
  - cbn [le_bytes from_le]. rewrite IH.
    replace (256 ^ Z.of_nat (S n)) with (256 * 256 ^ Z.of_nat n)
      by (rewrite Nat2Z.inj_succ, Z.pow_succ_r by lia; reflexivity).
    rewrite Z.rem_mul_r by (try lia; apply Z.pow_pos_nonneg; lia). reflexivity.
Qed.
Lemma from_le_le32 x : 0 <= x < 4294967296 -> from_le (le32 x) = x.
Proof. intros H. unfold le32. rewrite from_le_le_bytes. change (256 ^ Z.of_nat 4) with 4294967296. apply Z.mod_small. lia. Qed.
Lemma from_le_le16 x : 0 <= x < 65536 -> from_le (le16 x) = x.
Proof. intros H. unfold le16. rewrite from_le_le_bytes. change (256 ^ Z.of_nat 2) with 65536. apply Z.mod_small. lia. Qed.
Lemma signed32_le32 x : -2147483648 <= x < 2147483648 -> signed32 (from_le (le32 x)) = x.
Proof.
  intros H. unfold le32. rewrite from_le_le_bytes. change (256 ^ Z.of_nat 4) with 4294967296.
  unfold signed32. destruct (Z_lt_ge_dec x 0) as [Hn|Hp].
  - replace (x mod 4294967296) with (x + 4294967296).
    + destruct (Z.ltb_spec (x + 4294967296) 2147483648); lia.
    + symmetry. rewrite <- (Z_mod_plus_full x 1 4294967296). apply Z.mod_small. lia.
  - rewrite Z.mod_small by lia. destruct (Z.ltb_spec x 2147483648); lia.
Qed.
Lemma len_le32 x : len (le32 x) = 4. Proof. apply len_le_bytes. Qed.
Lemma len_le16 x : len (le16 x) = 2. Proof. apply len_le_bytes. Qed.

(* ================================================================= slices of append chains *)
Lemma slice_mid {A} (a b c : list A) : slice (len a) (len a + len b) (a ++ b ++ c) = b.
Proof.
  rewrite slice_app_r by lia. replace (len a - len a) with 0 by lia.
  replace (len a + len b - len a) with (len b) by lia.
  rewrite slice_app_l by (pose proof (len_nonneg b); lia). apply slice_full. lia.
Qed.
Lemma slice_mid' {A} (a b c : list A) i j : i = len a -> j = len a + len b -> slice i j (a ++ b ++ c) = b.
Proof. intros -> ->. apply slice_mid. Qed.
Lemma nthZ_app_r (a b : list Z) i : len a <= i -> nthZ (a ++ b) i = nthZ b (i - len a).
Proof.
  intros H. unfold nthZ, len in *. rewrite app_nth2 by lia. f_equal. lia.
Qed.

(* ================================================================= the record layout *)
(* the 36 fixed bytes (block_size + 32) and the variable part *)
Definition fixed (r : brec) : list Z :=
  le32 (len (rec_body r)) ++ le32 (b_ref r) ++ le32 (b_pos r) ++ [len (b_name r) + 1] ++ [b_mapq r] ++ le16 (b_bin r)
  ++ le16 (len (b_cigar r)) ++ le16 (b_flag r) ++ le32 (len (b_seq r))
  ++ le32 (b_nref r) ++ le32 (b_npos r) ++ le32 (b_tlen r).
Definition cigar_bytes (r : brec) : list Z := concat (map cigar_word (b_cigar r)).
Definition varpart (r : brec) : list Z :=
  b_name r ++ [0] ++ cigar_bytes r ++ pack_seq (b_seq r) ++ b_qual r ++ b_tags r.
Lemma encode_rec_split r : encode_rec r = fixed r ++ varpart r.
Proof. unfold encode_rec, rec_body, fixed, varpart, cigar_bytes. rewrite <- !app_assoc. reflexivity. Qed.
Lemma len_fixed r : len (fixed r) = 36.
Proof. unfold fixed. rewrite !len_app, !len_le32, !len_le16, !len_cons, len_nil. lia. Qed.
Lemma len_encode_rec r : len (encode_rec r) = 4 + len (rec_body r).
Proof. unfold encode_rec. rewrite len_app, len_le32. lia. Qed.

(* a fixed-offset slice of data = pre ++ encode_rec r ++ post is a slice of [fixed r] *)
Lemma fixed_slice pre r post off n :
  0 <= off -> off + n <= 36 ->
  slice (len pre + off) (len pre + off + n) (pre ++ encode_rec r ++ post) = slice off (off + n) (fixed r).
Proof.
  intros Ho Hn. rewrite slice_app_r by lia.
  replace (len pre + off - len pre) with off by lia. replace (len pre + off + n - len pre) with (off + n) by lia.
  rewrite encode_rec_split, <- app_assoc. apply slice_app_l; [lia|rewrite len_fixed; lia].
Qed.
Lemma fixed_nth pre r post off :
  0 <= off < 36 -> nthZ (pre ++ encode_rec r ++ post) (len pre + off) = nthZ (fixed r) off.
Proof.
  intros Ho. rewrite nthZ_app_r by lia. replace (len pre + off - len pre) with off by lia.
  rewrite encode_rec_split, <- app_assoc. unfold nthZ. apply app_nth1.
  pose proof (len_fixed r) as H. unfold len in H. lia.
Qed.

Lemma fixed_block_size r : slice 0 4 (fixed r) = le32 (len (rec_body r)). Proof. reflexivity. Qed.
Lemma fixed_ref r : slice 4 (4 + 4) (fixed r) = le32 (b_ref r). Proof. reflexivity. Qed.
Lemma fixed_pos r : slice 8 (8 + 4) (fixed r) = le32 (b_pos r). Proof. reflexivity. Qed.
Lemma fixed_lname r : nthZ (fixed r) 12 = len (b_name r) + 1. Proof. reflexivity. Qed.
Lemma fixed_mapq r : nthZ (fixed r) 13 = b_mapq r. Proof. reflexivity. Qed.
Lemma fixed_ncigar r : slice 16 (16 + 2) (fixed r) = le16 (len (b_cigar r)). Proof. reflexivity. Qed.
Lemma fixed_flag r : slice 18 (18 + 2) (fixed r) = le16 (b_flag r). Proof. reflexivity. Qed.
Lemma fixed_lseq r : slice 20 (20 + 4) (fixed r) = le32 (len (b_seq r)). Proof. reflexivity. Qed.

(* ================================================================= validity (Prop form) *)
Record rec_valid (B : Z) (r : brec) : Prop := {
  rv_ref : -2147483648 <= b_ref r < 2147483648;
  rv_pos : -2147483648 <= b_pos r < 2147483648;
  rv_flag : 0 <= b_flag r < 65536;
  rv_ncig : len (b_cigar r) < B;
  rv_cig : Forall (fun c => 0 <= fst c < 9 /\ 0 <= snd c < 268435456) (b_cigar r);
  rv_lseq : len (b_seq r) < 2147483648;
  rv_seq : Forall (fun x => 0 <= x < 16) (b_seq r);
  rv_qual : len (b_qual r) = len (b_seq r);
  rv_fits : len (rec_body r) < 4294967296
}.

(* ================================================================= CIGAR words *)
Lemma len_cigar_word c : length (cigar_word c) = 4%nat. Proof. reflexivity. Qed.
Lemma len_cigar_bytes r : len (cigar_bytes r) = 4 * len (b_cigar r).
Proof.
  unfold cigar_bytes. induction (b_cigar r) as [|c cs IH]; [reflexivity|].
  cbn [map concat]. rewrite len_app, IH, len_cons. unfold cigar_word. rewrite len_le32. lia.
Qed.
Lemma chunks_cigar cs : chunks_of 4%nat (concat (map cigar_word cs)) = map cigar_word cs.
Proof.
  induction cs as [|c cs IH]; [reflexivity|].
  cbn [map concat]. rewrite chunks_of_app_exact by (try lia; apply len_cigar_word). rewrite IH. reflexivity.
Qed.
Lemma cigar_word_split c : 0 <= fst c < 16 -> 0 <= snd c < 268435456 ->
  (from_le (cigar_word c) mod 16, from_le (cigar_word c) / 16) = c.
Proof.
  intros H1 H2. unfold cigar_word. rewrite from_le_le32 by lia. destruct c as [o l]. cbn [fst snd] in *.
  f_equal; divmod_lia.
Qed.
Lemma cigar_decode cs : Forall (fun c => 0 <= fst c < 9 /\ 0 <= snd c < 268435456) cs ->
  map (fun w => (w mod 16, w / 16)) (map from_le (map cigar_word cs)) = cs.
Proof.
  induction 1 as [|c cs [H1 H2] _ IH]; [reflexivity|].
  cbn [map]. rewrite IH. f_equal. apply cigar_word_split; lia.
Qed.
Lemma op_letters_ok cs : Forall (fun c => 0 <= fst c < 9 /\ 0 <= snd c < 268435456) cs ->
  op_letters (map fst cs) = Some (map (fun c => nthZ cigar_letters (fst c)) cs).
Proof.
  unfold op_letters. induction 1 as [|c cs [H1 H2] _ IH]; [reflexivity|].
  cbn [map all_some].
  assert (nth_error cigar_letters (Z.to_nat (fst c)) = Some (nthZ cigar_letters (fst c))) as ->.
  { unfold nthZ. apply nth_error_nth'. simpl. lia. }
  rewrite IH. reflexivity.
Qed.

(* ================================================================= 4-bit packing *)
Lemma len_pack_seq : forall (n : nat) s, (length s <= n)%nat -> len (pack_seq s) = (len s + 1) / 2.
Proof.
  induction n as [|n IH]; intros s Hs.
  - destruct s; [reflexivity|simpl in Hs; lia].
  - destruct s as [|a [|b s]]; [reflexivity|reflexivity|].
    cbn [pack_seq]. rewrite !len_cons. rewrite IH by (simpl in Hs; lia).
    divmod_lia.
Qed.
Lemma unpack_pack : forall (n : nat) s, (length s <= n)%nat -> Forall (fun x => 0 <= x < 16) s ->
  firstn (length s) (nibbles (pack_seq s)) = s.
Proof.
  induction n as [|n IH]; intros s Hs Hv.
  - destruct s; [reflexivity|simpl in Hs; lia].
  - destruct s as [|a [|b s]]; [reflexivity| |].
    + inversion Hv as [|? ? Ha _]; subst. cbn [pack_seq nibbles flat_map length firstn app].
      f_equal. divmod_lia.
    + inversion Hv as [|? ? Ha Hv']; subst. inversion Hv' as [|? ? Hb Hv'']; subst.
      cbn [pack_seq nibbles flat_map length firstn app].
      change (nibbles (pack_seq s)) with (flat_map (fun b0 : Z => [(b0 / 16) mod 16; b0 mod 16]) (pack_seq s)).
      assert ((16 * a + b) / 16 = a) as -> by divmod_lia.
      assert ((16 * a + b) mod 16 = b) as -> by divmod_lia.
      rewrite (Z.mod_small a) by lia.
      f_equal. f_equal. apply IH; [simpl in Hs; lia|assumption].
Qed.

Ltac lens := rewrite ?len_app, ?len_fixed, ?len_cons, ?len_nil, ?len_cigar_bytes, ?len_le32.
(* ================================================================= decoding one record (T2) *)
Section Decode.
  Variable v : variant.
  Variable B : Z.
  Hypothesis HB : B <= 65536.
  Hypothesis Hcb : forall n, 0 <= n < B -> v_cigar_bytes v n = 4 * n.
  Variables (pre post : list Z) (r : brec).
  Hypothesis Hv : rec_valid B r.
  Let d := pre ++ encode_rec r ++ post.
  Let s := len pre.

  Lemma d_refid : m_refid d s = b_ref r.
  Proof. unfold m_refid, get_uint, d, s. rewrite fixed_slice by lia. rewrite fixed_ref. apply signed32_le32, Hv. Qed.
  Lemma d_pos : m_pos d s = b_pos r.
  Proof. unfold m_pos, get_uint, d, s. rewrite fixed_slice by lia. rewrite fixed_pos. apply signed32_le32, Hv. Qed.
  Lemma d_lname : m_l_read_name d s = len (b_name r) + 1.
  Proof. unfold m_l_read_name, d, s. rewrite fixed_nth by lia. apply fixed_lname. Qed.
  Lemma d_mapq : m_mapq d s = b_mapq r.
  Proof. unfold m_mapq, d, s. rewrite fixed_nth by lia. apply fixed_mapq. Qed.
  Lemma d_ncigar : m_n_cigar d s = len (b_cigar r).
  Proof.
    unfold m_n_cigar, get_uint, d, s. rewrite fixed_slice by lia. rewrite fixed_ncigar.
    apply from_le_le16. pose proof (rv_ncig _ _ Hv). pose proof (len_nonneg (b_cigar r)). lia.
  Qed.
  Lemma d_flag : m_flag d s = b_flag r.
  Proof. unfold m_flag, get_uint, d, s. rewrite fixed_slice by lia. rewrite fixed_flag. apply from_le_le16, Hv. Qed.
  Lemma d_lseq : m_l_seq d s = len (b_seq r).
  Proof.
    unfold m_l_seq, get_uint, d, s. rewrite fixed_slice by lia. rewrite fixed_lseq.
    apply signed32_le32. pose proof (rv_lseq _ _ Hv). pose proof (len_nonneg (b_seq r)). lia.
  Qed.
  Lemma d_cigar_start : m_cigar_start d s = s + 36 + len (b_name r) + 1.
  Proof. unfold m_cigar_start, m_name_start. rewrite d_lname. lia. Qed.
  Lemma d_seq_start : m_seq_start v d s = s + 36 + len (b_name r) + 1 + 4 * len (b_cigar r).
  Proof.
    unfold m_seq_start. rewrite d_cigar_start, d_ncigar. rewrite Hcb; [lia|].
    pose proof (rv_ncig _ _ Hv). pose proof (len_nonneg (b_cigar r)). lia.
  Qed.
  Lemma d_qual_start : m_qual_start v d s = s + 36 + len (b_name r) + 1 + 4 * len (b_cigar r) + len (pack_seq (b_seq r)).
  Proof. unfold m_qual_start. rewrite d_seq_start, d_lseq. rewrite (len_pack_seq (length (b_seq r))) by lia. lia. Qed.

  (* the data seen as an append chain around each variable field *)
  Lemma d_chain : d = (pre ++ fixed r) ++ b_name r ++ [0] ++ cigar_bytes r ++ pack_seq (b_seq r) ++ b_qual r ++ (b_tags r ++ post).
  Proof. unfold d. rewrite encode_rec_split. unfold varpart. rewrite <- !app_assoc. reflexivity. Qed.
  Lemma len_prefix : len (pre ++ fixed r) = s + 36.
  Proof. rewrite len_app, len_fixed. reflexivity. Qed.

  Lemma d_name : m_name d s = b_name r.
  Proof.
    unfold m_name. rewrite d_cigar_start. unfold m_name_start. rewrite d_chain.
    apply slice_mid'; rewrite len_prefix; lia.
  Qed.
  Lemma d_cigar : m_cigar v d s = b_cigar r.
  Proof.
    unfold m_cigar, m_cigar_words. rewrite d_cigar_start, d_seq_start, d_chain.
    replace ((pre ++ fixed r) ++ b_name r ++ [0] ++ cigar_bytes r ++ pack_seq (b_seq r) ++ b_qual r ++ b_tags r ++ post)
      with (((pre ++ fixed r) ++ b_name r ++ [0]) ++ cigar_bytes r ++ (pack_seq (b_seq r) ++ b_qual r ++ b_tags r ++ post))
      by (rewrite <- !app_assoc; reflexivity).
    rewrite (slice_mid' _ (cigar_bytes r)).
    - unfold cigar_bytes. rewrite chunks_cigar. apply cigar_decode, Hv.
    - lens. unfold s. lia.
    - lens. unfold s. lia.
  Qed.
  Lemma d_seq : m_seq v d s = b_seq r.
  Proof.
    unfold m_seq. rewrite d_qual_start, d_seq_start, d_lseq, d_chain.
    replace ((pre ++ fixed r) ++ b_name r ++ [0] ++ cigar_bytes r ++ pack_seq (b_seq r) ++ b_qual r ++ b_tags r ++ post)
      with (((pre ++ fixed r) ++ b_name r ++ [0] ++ cigar_bytes r) ++ pack_seq (b_seq r) ++ (b_qual r ++ b_tags r ++ post))
      by (rewrite <- !app_assoc; reflexivity).
    rewrite (slice_mid' _ (pack_seq (b_seq r))).
    - unfold len. rewrite Nat2Z.id. apply (unpack_pack (length (b_seq r))); [lia|apply Hv].
    - lens. unfold s. lia.
    - lens. unfold s. lia.
  Qed.
  Lemma d_qual : m_qual v d s = b_qual r.
  Proof.
    unfold m_qual. rewrite d_qual_start, d_lseq, d_chain.
    replace ((pre ++ fixed r) ++ b_name r ++ [0] ++ cigar_bytes r ++ pack_seq (b_seq r) ++ b_qual r ++ b_tags r ++ post)
      with (((pre ++ fixed r) ++ b_name r ++ [0] ++ cigar_bytes r ++ pack_seq (b_seq r)) ++ b_qual r ++ (b_tags r ++ post))
      by (rewrite <- !app_assoc; reflexivity).
    apply slice_mid'.
    - lens. unfold s. lia.
    - lens. rewrite (rv_qual _ _ Hv). unfold s. lia.
  Qed.

  (* what the specification defines for the record, with the reference-name lookup left to the variant *)
  Definition spec_orec (names : list (list Z)) : orec :=
    {| o_chrom := v_chrom v names (b_ref r); o_name := b_name r; o_flag := b_flag r; o_pos := b_pos r;
       o_mapq := b_mapq r; o_ops := Some (spec_ops r); o_lens := spec_lens r;
       o_seq := spec_letters r; o_qual := b_qual r |}.
  Lemma decode_at_correct names : decode_at v names d s = spec_orec names.
  Proof.
    unfold decode_at, spec_orec. rewrite d_cigar, d_refid, d_name, d_flag, d_pos, d_mapq, d_seq, d_qual.
    rewrite (op_letters_ok _ (rv_cig _ _ Hv)). reflexivity.
  Qed.

  (* T3: the reference interval *)
  Definition spec_oiv (names : list (list Z)) : oiv :=
    {| i_chrom := v_chrom v names (b_ref r); i_start := b_pos r; i_stop := b_pos r + spec_reflen r;
       i_name := b_name r; i_score := b_mapq r; i_strand := spec_strand r |}.
  Lemma reflen_correct cs : m_reflen cs = sumZ (map (fun c => if consumes_ref (fst c) then snd c else 0) cs).
  Proof.
    unfold m_reflen. f_equal. apply map_ext. intros [o l]. cbn [fst snd].
    change m_consuming with [0; 2; 3; 7; 8]. unfold consumes_ref. cbn [existsb].
    rewrite Bool.orb_false_r. rewrite !(Z.eqb_sym o). rewrite <- !Bool.orb_assoc.
    destruct ((0 =? o) || ((2 =? o) || ((3 =? o) || ((7 =? o) || (8 =? o))))); lia.
  Qed.
  Lemma strand_correct f : 0 <= f -> (if Z.land f 16 =? 0 then 43 else 45) = (if Z.testbit f 4 then 45 else 43).
  Proof.
    intros Hf. change 16 with (2 ^ 4).
    destruct (Z.testbit f 4) eqn:Hb.
    - destruct (Z.eqb_spec (Z.land f (2 ^ 4)) 0) as [H0|]; [|reflexivity].
      assert (Z.testbit (Z.land f (2 ^ 4)) 4 = false) by (rewrite H0; apply Z.bits_0).
      rewrite Z.land_spec, Hb, Z.pow2_bits_true in H by lia. discriminate.
    - assert (Z.land f (2 ^ 4) = 0) as ->; [|reflexivity].
      apply Z.bits_inj'. intros n Hn. rewrite Z.land_spec, Z.bits_0.
      destruct (Z.eq_dec n 4) as [->|Hne]; [rewrite Hb; reflexivity|].
      rewrite Z.pow2_bits_false by lia. apply Bool.andb_false_r.
  Qed.
  Lemma interval_at_correct names : interval_at v names d s = spec_oiv names.
  Proof.
    unfold interval_at, spec_oiv. rewrite d_cigar, d_refid, d_name, d_flag, d_pos, d_mapq.
    rewrite reflen_correct. rewrite strand_correct by apply Hv. reflexivity.
  Qed.
End Decode.

(* ================================================================= record boundaries (T1) *)
Definition fits (r : brec) : Prop := len (rec_body r) < 4294967296.
Definition incomplete (tail : list Z) : Prop := len tail < from_le (slice 0 4 tail) + 4.
Fixpoint starts_from (p : Z) (rs : list brec) : list Z :=
  match rs with [] => [] | r :: rest => p :: starts_from (p + len (encode_rec r)) rest end.
Fixpoint ends_from (p : Z) (rs : list brec) : list Z :=
  match rs with [] => [] | r :: rest => (p + len (encode_rec r)) :: ends_from (p + len (encode_rec r)) rest end.
Definition buf_of (rs : list brec) : buf :=
  {| bf_data := encode_recs rs; bf_starts := starts_from 0 rs; bf_ends := ends_from 0 rs |}.

Lemma encode_recs_cons r rs : encode_recs (r :: rs) = encode_rec r ++ encode_recs rs.
Proof. reflexivity. Qed.
Lemma encode_recs_app a b : encode_recs (a ++ b) = encode_recs a ++ encode_recs b.
Proof. unfold encode_recs. rewrite map_app, concat_app. reflexivity. Qed.
Lemma len_encode_rec_ge r : 36 <= len (encode_rec r).
Proof. rewrite encode_rec_split, len_app, len_fixed. pose proof (len_nonneg (varpart r)). lia. Qed.
Lemma length_recs_le rs : (length rs <= length (encode_recs rs))%nat.
Proof.
  induction rs as [|r rs IH]; [simpl; lia|].
  rewrite encode_recs_cons, app_length. pose proof (len_encode_rec_ge r) as H. unfold len in H. simpl length. lia.
Qed.
Lemma block_size_at pre r post : fits r ->
  find_next (pre ++ encode_rec r ++ post) (len pre) = len pre + len (encode_rec r).
Proof.
  intros Hf. unfold find_next.
  replace (slice (len pre) (len pre + 4) (pre ++ encode_rec r ++ post)) with (slice 0 (0 + 4) (fixed r))
    by (symmetry; replace (len pre) with (len pre + 0) at 1 2 by lia; apply fixed_slice; lia).
  change (slice 0 (0 + 4) (fixed r)) with (le32 (len (rec_body r))).
  rewrite from_le_le32 by (pose proof (len_nonneg (rec_body r)); unfold fits in Hf; lia).
  rewrite len_encode_rec. lia.
Qed.

Lemma find_starts_fuel_correct tail : incomplete tail -> forall rs pre fuel,
  Forall fits rs -> (length rs + 2 <= fuel)%nat ->
  find_starts_fuel fuel (pre ++ encode_recs rs ++ tail) (len pre)
  = Some (starts_from (len pre) rs ++ [len pre + len (encode_recs rs)]).
Proof.
  intros Ht. induction rs as [|r rs IH]; intros pre fuel Hf Hfuel.
  - destruct fuel as [|[|fuel]]; try (simpl in Hfuel; lia).
    cbn [find_starts_fuel encode_recs map concat app starts_from]. unfold in_chunk.
    assert (len pre <=? len (pre ++ tail) = true) as -> by (apply Z.leb_le; rewrite len_app; pose proof (len_nonneg tail); lia).
    assert (find_next (pre ++ tail) (len pre) <=? len (pre ++ tail) = false) as ->.
    { apply Z.leb_gt. unfold find_next. rewrite slice_app_r by lia.
      replace (len pre - len pre) with 0 by lia. replace (len pre + 4 - len pre) with 4 by lia.
      rewrite len_app. unfold incomplete in Ht. lia. }
    cbn [option_map]. rewrite len_nil, Z.add_0_r. reflexivity.
  - destruct fuel as [|fuel]; [simpl in Hfuel; lia|].
    inversion Hf as [|? ? Hr Hrs]; subst.
    cbn [find_starts_fuel starts_from]. unfold in_chunk.
    assert (len pre <=? len (pre ++ encode_recs (r :: rs) ++ tail) = true) as ->.
    { apply Z.leb_le. rewrite len_app. pose proof (len_nonneg (encode_recs (r :: rs) ++ tail)). lia. }
    rewrite encode_recs_cons, <- app_assoc. rewrite block_size_at by assumption.
    replace (pre ++ encode_rec r ++ encode_recs rs ++ tail) with ((pre ++ encode_rec r) ++ encode_recs rs ++ tail)
      by (rewrite <- app_assoc; reflexivity).
    replace (len pre + len (encode_rec r)) with (len (pre ++ encode_rec r)) by (rewrite len_app; reflexivity).
    rewrite IH by (try assumption; simpl in Hfuel; lia).
    cbn [option_map]. rewrite !len_app. rewrite Z.add_assoc. reflexivity.
Qed.

Lemma find_starts_correct rs tail : Forall fits rs -> incomplete tail ->
  find_starts (encode_recs rs ++ tail) = Some (starts_from 0 rs ++ [len (encode_recs rs)]).
Proof.
  intros Hf Ht. unfold find_starts.
  pose proof (find_starts_fuel_correct tail Ht rs [] (S (S (length (encode_recs rs ++ tail)))) Hf) as H.
  change (len (@nil Z)) with 0 in H. cbn [app] in H. rewrite Z.add_0_l in H. rewrite H; [reflexivity|].
  pose proof (length_recs_le rs). rewrite app_length. lia.
Qed.

Lemma boundaries_ends rs : forall p, starts_from p rs ++ [p + len (encode_recs rs)] = p :: ends_from p rs.
Proof.
  induction rs as [|r rs IH]; intros p.
  - cbn. rewrite Z.add_0_r. reflexivity.
  - cbn [starts_from ends_from app]. f_equal. rewrite encode_recs_cons, len_app, Z.add_assoc. apply IH.
Qed.
Lemma tl_boundaries p rs : tl (starts_from p rs ++ [p + len (encode_recs rs)]) = ends_from p rs.
Proof. rewrite boundaries_ends. reflexivity. Qed.
Lemma from_raw_buffer_correct rs tail : Forall fits rs -> incomplete tail ->
  from_raw_buffer (encode_recs rs ++ tail) = Some (buf_of rs).
Proof.
  intros Hf Ht. unfold from_raw_buffer. rewrite find_starts_correct by assumption.
  unfold buf_of. f_equal. f_equal.
  - rewrite last_last. unfold len. rewrite Nat2Z.id. rewrite firstn_app, Nat.sub_diag, firstn_all. simpl. apply app_nil_r.
  - apply removelast_last.
  - apply (tl_boundaries 0 rs).
Qed.

(* decoding every record of a buffer *)
Lemma map_starts {T} (P : brec -> Prop) (f : list Z -> Z -> T) (g : brec -> T) :
  (forall pre r post, P r -> f (pre ++ encode_rec r ++ post) (len pre) = g r) ->
  forall rs pre post, Forall P rs -> map (f (pre ++ encode_recs rs ++ post)) (starts_from (len pre) rs) = map g rs.
Proof.
  intros H. induction rs as [|r rs IH]; intros pre post HP; [reflexivity|].
  inversion HP as [|? ? Hr Hrs]; subst.
  cbn [starts_from map]. f_equal.
  - rewrite encode_recs_cons, <- app_assoc. apply H. assumption.
  - rewrite encode_recs_cons, <- app_assoc.
    replace (pre ++ encode_rec r ++ encode_recs rs ++ post) with ((pre ++ encode_rec r) ++ encode_recs rs ++ post)
      by (rewrite <- app_assoc; reflexivity).
    rewrite <- len_app. apply IH. assumption.
Qed.

Lemma rec_valid_fits B r : rec_valid B r -> fits r. Proof. intros H. apply H. Qed.
Lemma Forall_valid_fits B rs : Forall (rec_valid B) rs -> Forall fits rs.
Proof. apply Forall_impl. intros r. apply rec_valid_fits. Qed.

Section Buffers.
  Variable v : variant.
  Variable B : Z.
  Hypothesis HB : B <= 65536.
  Hypothesis Hcb : forall n, 0 <= n < B -> v_cigar_bytes v n = 4 * n.

  Lemma decode_buf_correct names rs : Forall (rec_valid B) rs ->
    decode_buf v names (buf_of rs) = map (fun r => spec_orec v r names) rs.
  Proof.
    intros Hv. unfold decode_buf, buf_of. cbn [bf_data bf_starts].
    pose proof (map_starts (rec_valid B) (decode_at v names) (fun r => spec_orec v r names)) as H.
    specialize (H (fun pre r post Hr => decode_at_correct v B HB Hcb pre post r Hr names) rs [] [] Hv).
    cbn [app] in H. rewrite app_nil_r in H. exact H.
  Qed.
  Lemma intervals_buf_correct names rs : Forall (rec_valid B) rs ->
    intervals_buf v names (buf_of rs) = map (fun r => spec_oiv v r names) rs.
  Proof.
    intros Hv. unfold intervals_buf, buf_of. cbn [bf_data bf_starts].
    pose proof (map_starts (rec_valid B) (interval_at v names) (fun r => spec_oiv v r names)) as H.
    specialize (H (fun pre r post Hr => interval_at_correct v B HB Hcb pre post r Hr names) rs [] [] Hv).
    cbn [app] in H. rewrite app_nil_r in H. exact H.
  Qed.
End Buffers.

(* reading the whole record stream *)
Lemma incomplete_nil : incomplete []. Proof. vm_compute. reflexivity. Qed.
Lemma incomplete_newline : incomplete [10]. Proof. vm_compute. reflexivity. Qed.
Lemma add_newline_cases l : add_newline l = l \/ add_newline l = l ++ [10].
Proof. unfold add_newline. destruct (last l 0 =? 10); auto. Qed.
Lemma read_whole_correct rs : Forall fits rs -> read_whole_buf (encode_recs rs) = Some (buf_of rs).
Proof.
  intros Hf. unfold read_whole_buf. destruct (encode_recs rs) as [|x body] eqn:E.
  - destruct rs as [|r rs]; [reflexivity|].
    pose proof (len_encode_rec_ge r) as H. rewrite encode_recs_cons in E.
    apply (f_equal len) in E. rewrite len_app, len_nil in E. pose proof (len_nonneg (encode_recs rs)). lia.
  - rewrite <- E. destruct (add_newline_cases (encode_recs rs)) as [-> | ->].
    + rewrite <- (app_nil_r (encode_recs rs)) at 1. apply from_raw_buffer_correct; [assumption|apply incomplete_nil].
    + apply from_raw_buffer_correct; [assumption|apply incomplete_newline].
Qed.

(* ================================================================= writing (T5) *)
Lemma py_index_nat {A} (l : list A) (i : nat) x : nth_error l i = Some x -> py_index l (Z.of_nat i) = Some x.
Proof.
  intros H. unfold py_index. assert (i < length l)%nat by (apply nth_error_Some; congruence).
  assert ((0 <=? Z.of_nat i) && (Z.of_nat i <? len l) = true) as ->.
  { apply andb_true_iff. split; [apply Z.leb_le|apply Z.ltb_lt; unfold len]; lia. }
  rewrite Nat2Z.id. assumption.
Qed.
Lemma rec_range rs : forall (i : nat) r pre post, nth_error rs i = Some r ->
  exists s, nth_error (starts_from (len pre) rs) i = Some s
         /\ nth_error (ends_from (len pre) rs) i = Some (s + len (encode_rec r))
         /\ slice s (s + len (encode_rec r)) (pre ++ encode_recs rs ++ post) = encode_rec r.
Proof.
  induction rs as [|r0 rs IH]; intros i r pre post Hi; [destruct i; discriminate|].
  destruct i as [|i].
  - inversion Hi; subst. exists (len pre). cbn [starts_from ends_from nth_error]. repeat split.
    rewrite encode_recs_cons, <- app_assoc. apply slice_mid.
  - cbn [nth_error] in Hi. cbn [starts_from ends_from nth_error].
    rewrite encode_recs_cons, <- app_assoc.
    replace (pre ++ encode_rec r0 ++ encode_recs rs ++ post) with ((pre ++ encode_rec r0) ++ encode_recs rs ++ post)
      by (rewrite <- app_assoc; reflexivity).
    rewrite <- len_app. apply IH. assumption.
Qed.
Lemma rec_bytes_correct rs (i : nat) r : nth_error rs i = Some r ->
  rec_bytes (buf_of rs) (Z.of_nat i) = Some (encode_rec r).
Proof.
  intros Hi. destruct (rec_range rs i r [] [] Hi) as (s & Hs & He & Hsl).
  change (len (@nil Z)) with 0 in *. cbn [app] in Hsl. rewrite app_nil_r in Hsl.
  unfold rec_bytes, buf_of. cbn [bf_starts bf_ends bf_data].
  rewrite (py_index_nat _ _ _ Hs), (py_index_nat _ _ _ He). rewrite Hsl. reflexivity.
Qed.
Lemma write_selected_correct hdr rs idx : Forall (fun i => 0 <= i < len rs) idx ->
  write_selected hdr (buf_of rs) idx = Some (hdr ++ encode_recs (select rs idx)).
Proof.
  intros Hidx. unfold write_selected.
  assert (all_some (map (rec_bytes (buf_of rs)) idx) = Some (map encode_rec (select rs idx))) as ->; [|reflexivity].
  induction Hidx as [|i idx Hi _ IH]; [reflexivity|].
  cbn [map all_some]. unfold select in *. cbn [flat_map].
  destruct (nth_error rs (Z.to_nat i)) as [r|] eqn:E.
  - replace i with (Z.of_nat (Z.to_nat i)) at 1 by lia. rewrite (rec_bytes_correct rs _ r E). rewrite IH. reflexivity.
  - apply nth_error_None in E. unfold len in Hi. lia.
Qed.
Lemma write_whole_correct hdr rs : write_whole hdr (buf_of rs) = hdr ++ encode_recs rs.
Proof. reflexivity. Qed.

(* ================================================================= chunked reading (T4) *)
Lemma app_split_ge {A} (chunk rest a b : list A) :
  chunk ++ rest = a ++ b -> (length a <= length chunk)%nat -> exists c1, chunk = a ++ c1 /\ c1 ++ rest = b.
Proof.
  intros E Hl. exists (skipn (length a) chunk).
  assert (firstn (length a) chunk = a) as Ha.
  { apply (f_equal (firstn (length a))) in E. rewrite firstn_app in E.
    replace (length a - length chunk)%nat with O in E by lia. simpl in E. rewrite app_nil_r in E.
    rewrite E. rewrite firstn_app, Nat.sub_diag, firstn_all. simpl. apply app_nil_r. }
  assert (chunk = a ++ skipn (length a) chunk) as Hc by (rewrite <- Ha at 1; symmetry; apply firstn_skipn).
  split; [assumption|].
  rewrite Hc in E at 1. rewrite <- app_assoc in E. apply app_inv_head in E. assumption.
Qed.

Definition short_of (prepend : list Z) (rs : list brec) : Prop :=
  match rs with [] => prepend = [] | r :: _ => len prepend < len (encode_rec r) end.

Lemma prefix_split : forall rs chunk rest, chunk ++ rest = encode_recs rs ->
  exists g rs2 tail, rs = g ++ rs2 /\ chunk = encode_recs g ++ tail /\ tail ++ rest = encode_recs rs2 /\ short_of tail rs2.
Proof.
  induction rs as [|r rs IH]; intros chunk rest E.
  - apply app_eq_nil in E. destruct E as [-> ->]. exists [], [], []. repeat split.
  - destruct (Z_lt_ge_dec (len chunk) (len (encode_rec r))) as [Hlt|Hge].
    + exists [], (r :: rs), chunk. repeat split; assumption.
    + rewrite encode_recs_cons in E.
      destruct (app_split_ge chunk rest (encode_rec r) (encode_recs rs) E) as (c1 & Hc & E1); [unfold len in Hge; lia|].
      destruct (IH c1 rest E1) as (g & rs2 & tail & Hrs & Hc1 & Ht & Hs).
      exists (r :: g), rs2, tail. repeat split; try assumption.
      * rewrite Hrs. reflexivity.
      * rewrite Hc, Hc1, encode_recs_cons, <- app_assoc. reflexivity.
Qed.

Lemma from_le_nonneg l : Forall (fun b => 0 <= b) l -> 0 <= from_le l.
Proof. induction 1 as [|b l Hb _ IH]; cbn [from_le]; lia. Qed.
Lemma le_bytes_nonneg n x : Forall (fun b => 0 <= b) (le_bytes n x).
Proof.
  revert x. induction n as [|n IH]; intros x; cbn [le_bytes]; constructor; [|apply IH].
  apply Z.mod_pos_bound. lia.
Qed.
Lemma encode_rec_head r : encode_rec r = le32 (len (rec_body r)) ++ rec_body r. Proof. reflexivity. Qed.

Lemma strict_prefix_incomplete tail rest r more :
  tail ++ rest = encode_rec r ++ more -> fits r -> len tail < len (encode_rec r) -> incomplete tail.
Proof.
  intros E Hf Hlt. unfold incomplete.
  destruct (Z_lt_ge_dec (len tail) 4) as [H4|H4].
  - (* fewer than 4 bytes: they are bytes of the block_size field, so non-negative *)
    rewrite slice_full by lia.
    rewrite encode_rec_head, <- app_assoc in E. symmetry in E.
    destruct (app_split_ge _ _ tail rest E) as (c1 & Hc & _).
    { pose proof (len_le32 (len (rec_body r))) as H. unfold len in *. lia. }
    pose proof (le_bytes_nonneg 4 (len (rec_body r))) as Hn. fold (le32 (len (rec_body r))) in Hn.
    rewrite Hc in Hn. apply Forall_app in Hn. destruct Hn as [Hn _].
    pose proof (from_le_nonneg tail Hn). lia.
  - assert (slice 0 4 tail = le32 (len (rec_body r))) as ->.
    { rewrite <- (slice_app_l 0 4 tail rest) by lia. rewrite E, encode_rec_head, <- app_assoc.
      rewrite slice_app_l by (rewrite ?len_le32; lia). apply slice_full. rewrite len_le32. lia. }
    rewrite from_le_le32 by (pose proof (len_nonneg (rec_body r)); unfold fits in Hf; lia).
    rewrite len_encode_rec in Hlt. lia.
Qed.

Section Chunked.
  Variable k : Z.
  Hypothesis Hk : 0 < k.

  Lemma read_chunks_done fuel : (1 <= fuel)%nat -> read_chunks_fuel fuel k [] [] = Some [].
  Proof. intros H. destruct fuel; [lia|]. cbn [read_chunks_fuel]. rewrite firstn_nil. reflexivity. Qed.

  Lemma read_chunks_fuel_correct : forall fuel rest prepend rs,
    Forall fits rs -> Forall (fun r => len (encode_rec r) <= k) rs ->
    prepend ++ rest = encode_recs rs -> short_of prepend rs -> (length rest + 2 <= fuel)%nat ->
    exists groups, concat groups = rs /\ Forall (fun g => g <> []) groups
                   /\ read_chunks_fuel fuel k rest prepend = Some (map buf_of groups).
  Proof.
    induction fuel as [|f IH]; intros rest prepend rs Hf Hsz E Hs Hfuel; [lia|].
    cbn [read_chunks_fuel]. unfold is_finished.
    assert (len (firstn (Z.to_nat k) rest) = Z.min k (len rest)) as Hraw by (rewrite len_firstn; lia).
    destruct (Z.eqb_spec (len (firstn (Z.to_nat k) rest)) 0) as [H0|H0].
    - (* nothing left to read *)
      assert (rest = []) as -> by (destruct rest; [reflexivity|rewrite len_cons in Hraw; pose proof (len_nonneg rest); lia]).
      rewrite app_nil_r in E. subst prepend.
      destruct rs as [|r rs].
      + exists []. repeat split. constructor.
      + cbn [short_of] in Hs. rewrite encode_recs_cons, len_app in Hs. pose proof (len_nonneg (encode_recs rs)). lia.
    - destruct (Z.ltb_spec (len (firstn (Z.to_nat k) rest)) k) as [Hfin|Hnot].
      + (* last raw read *)
        assert (len rest < k) as Hr by lia.
        rewrite firstn_all2 by (unfold len in Hr; lia). rewrite skipn_all2 by (unfold len in Hr; lia).
        assert (from_raw_buffer (prepend ++ add_newline rest) = Some (buf_of rs)) as ->.
        { destruct (add_newline_cases rest) as [-> | ->].
          - rewrite E. rewrite <- (app_nil_r (encode_recs rs)). apply from_raw_buffer_correct; [assumption|apply incomplete_nil].
          - rewrite app_assoc, E. apply from_raw_buffer_correct; [assumption|apply incomplete_newline]. }
        destruct rs as [|r rs].
        * exists []. repeat split. constructor.
        * cbn [buf_of bf_starts starts_from]. rewrite read_chunks_done by lia.
          exists [r :: rs]. repeat split.
          -- cbn. rewrite app_nil_r. reflexivity.
          -- constructor; [discriminate|constructor].
      + (* a full raw read: the chunk is a prefix of the remaining records *)
        assert (k <= len rest) as Hr by lia.
        assert (rest = firstn (Z.to_nat k) rest ++ skipn (Z.to_nat k) rest) as Hrest by (symmetry; apply firstn_skipn).
        assert (length (skipn (Z.to_nat k) rest) + 2 <= f)%nat as Hfuel' by (rewrite skipn_length; unfold len in Hr; lia).
        remember (firstn (Z.to_nat k) rest) as raw eqn:Eraw. remember (skipn (Z.to_nat k) rest) as rest' eqn:Erest'.
        assert ((prepend ++ raw) ++ rest' = encode_recs rs) as E' by (rewrite <- app_assoc, <- Hrest; assumption).
        destruct (prefix_split rs (prepend ++ raw) rest' E') as (g & rs2 & tail & Hrs & Hc & Ht & Hsh).
        subst rs. apply Forall_app in Hf. destruct Hf as [Hfg Hf2]. apply Forall_app in Hsz. destruct Hsz as [Hsg Hs2].
        assert (incomplete tail) as Hinc.
        { destruct rs2 as [|r2 rs2]; cbn [short_of] in Hsh.
          - subst tail. apply incomplete_nil.
          - inversion Hf2; subst. rewrite encode_recs_cons in Ht.
            eapply strict_prefix_incomplete; eassumption. }
        rewrite Hc. rewrite from_raw_buffer_correct by assumption.
        assert (g <> []) as Hg.
        { intros ->. cbn [encode_recs map concat app] in Hc.
          assert (k <= len tail) by (rewrite <- Hc, len_app; pose proof (len_nonneg prepend); lia).
          destruct rs2 as [|r2 rs2]; cbn [short_of] in Hsh.
          - rewrite Hsh in H. change (len (@nil Z)) with 0 in H. lia.
          - inversion Hs2 as [|? ? Hle _]. lia. }
        destruct g as [|r0 g]; [congruence|].
        cbn [buf_of bf_starts starts_from].
        unfold buf_size. change (bf_data (buf_of (r0 :: g))) with (encode_recs (r0 :: g)).
        assert (skipn (Z.to_nat (len (encode_recs (r0 :: g)))) (encode_recs (r0 :: g) ++ tail) = tail) as ->.
        { unfold len. rewrite Nat2Z.id. rewrite skipn_app, Nat.sub_diag, skipn_all. reflexivity. }
        destruct (IH rest' tail rs2 Hf2 Hs2 Ht Hsh) as (groups & Hcat & Hne & Hrun).
        { assumption. }
        rewrite Hrun. exists ((r0 :: g) :: groups). repeat split.
        * cbn [concat]. rewrite Hcat. reflexivity.
        * constructor; [discriminate|assumption].
  Qed.

  Theorem read_chunks_correct rs :
    Forall fits rs -> Forall (fun r => len (encode_rec r) <= k) rs ->
    exists groups, concat groups = rs /\ Forall (fun g => g <> []) groups
                   /\ read_chunks k (encode_recs rs) = Some (map buf_of groups).
  Proof.
    intros Hf Hsz. unfold read_chunks. apply read_chunks_fuel_correct; try assumption; try reflexivity; [|lia].
    destruct rs as [|r rs]; [reflexivity|]. cbn [short_of]. pose proof (len_encode_rec_ge r). rewrite len_nil. lia.
  Qed.
End Chunked.

(* ================================================================= header *)
Definition ref_valid (nl : list Z * Z) : Prop := Forall (fun x => x <> 0) (fst nl) /\ 0 <= snd nl < 4294967296.
Lemma until_nul_app name rest : Forall (fun x => x <> 0) name -> until_nul (name ++ 0 :: rest) = name.
Proof.
  induction 1 as [|x name Hx _ IH]; [reflexivity|].
  cbn [app until_nul]. destruct (Z.eqb_spec x 0); [contradiction|]. rewrite IH. reflexivity.
Qed.
Lemma skipn_len_app {A} (a b : list A) n : n = len a -> skipn (Z.to_nat n) (a ++ b) = b.
Proof. intros ->. unfold len. rewrite Nat2Z.id, skipn_app, Nat.sub_diag, skipn_all. reflexivity. Qed.
Lemma firstn_len_app {A} (a b : list A) n : n = len a -> firstn (Z.to_nat n) (a ++ b) = a.
Proof. intros ->. unfold len. rewrite Nat2Z.id, firstn_app, Nat.sub_diag, firstn_all. simpl. apply app_nil_r. Qed.
Lemma len_encode_ref nl : len (encode_ref nl) = 4 + len (fst nl) + 1 + 4.
Proof. unfold encode_ref. rewrite !len_app, !len_le32, len_cons, len_nil. lia. Qed.
Lemma parse_refs_correct : forall refs pre post, Forall ref_valid refs ->
  parse_refs (length refs) (pre ++ concat (map encode_ref refs) ++ post) (len pre)
  = (refs, len pre + len (concat (map encode_ref refs))).
Proof.
  induction refs as [|[name l] refs IH]; intros pre post Hv.
  - cbn. rewrite Z.add_0_r. reflexivity.
  - inversion Hv as [|? ? [Hn Hl] Hrest]; subst. cbn [fst snd] in *.
    cbn [length map concat].
    remember (pre ++ (encode_ref (name, l) ++ concat (map encode_ref refs)) ++ post) as st eqn:Est.
    assert (skipn (Z.to_nat (len pre + 4)) st = name ++ 0 :: (le32 l ++ concat (map encode_ref refs) ++ post)) as H1.
    { replace st with ((pre ++ le32 (len name + 1)) ++ name ++ 0 :: (le32 l ++ concat (map encode_ref refs) ++ post))
        by (rewrite Est; unfold encode_ref; cbn [fst snd]; rewrite <- !app_assoc; reflexivity).
      apply skipn_len_app. rewrite len_app, len_le32. lia. }
    assert (slice (len pre + 4 + len name + 1) (len pre + 4 + len name + 1 + 4) st = le32 l) as H2.
    { replace st with ((pre ++ le32 (len name + 1) ++ name ++ [0]) ++ le32 l ++ (concat (map encode_ref refs) ++ post))
        by (rewrite Est; unfold encode_ref; cbn [fst snd]; rewrite <- !app_assoc; reflexivity).
      apply slice_mid'; rewrite ?len_app, ?len_le32, ?len_cons, ?len_nil; lia. }
    assert (st = (pre ++ encode_ref (name, l)) ++ concat (map encode_ref refs) ++ post) as H3
      by (rewrite Est, <- !app_assoc; reflexivity).
    assert (len pre + 4 + len name + 1 + 4 = len (pre ++ encode_ref (name, l))) as H4
      by (rewrite len_app, len_encode_ref; cbn [fst]; lia).
    cbn [parse_refs]. rewrite H1, until_nul_app by assumption. rewrite H2, from_le_le32 by lia.
    rewrite H4, H3. rewrite IH by assumption.
    f_equal. rewrite !len_app. lia.
Qed.

Definition header_valid (text : list Z) (refs : list (list Z * Z)) : Prop :=
  len text < 4294967296 /\ len refs < 4294967296 /\ Forall ref_valid refs.
Lemma len_encode_header text refs :
  len (encode_header text refs) = 4 + 4 + len text + 4 + len (concat (map encode_ref refs)).
Proof. unfold encode_header, bam_magic. rewrite !len_app, !len_le32, !len_cons, len_nil. lia. Qed.
Lemma parse_header_correct text refs body : header_valid text refs ->
  parse_header (encode_header text refs ++ body) = Some (refs, len (encode_header text refs)).
Proof.
  intros (Ht & Hn & Hr). unfold parse_header.
  assert (slice 0 4 (encode_header text refs ++ body) = bam_magic) as ->.
  { unfold encode_header. rewrite <- !app_assoc. apply (slice_mid' [] bam_magic); reflexivity. }
  change (zlist_eqb bam_magic bam_magic) with true. cbv iota.
  assert (slice 4 8 (encode_header text refs ++ body) = le32 (len text)) as ->.
  { unfold encode_header. rewrite <- !app_assoc. apply (slice_mid' bam_magic); rewrite ?len_le32; reflexivity. }
  rewrite from_le_le32 by (pose proof (len_nonneg text); lia).
  assert (encode_header text refs ++ body
          = (bam_magic ++ le32 (len text) ++ text) ++ le32 (len refs) ++ (concat (map encode_ref refs) ++ body)) as E.
  { unfold encode_header. rewrite <- !app_assoc. reflexivity. }
  assert (len (bam_magic ++ le32 (len text) ++ text) = 8 + len text) as Hl
    by (unfold bam_magic; rewrite !len_app, len_le32, !len_cons, len_nil; lia).
  rewrite E. rewrite (slice_mid' _ (le32 (len refs))) by (rewrite ?Hl, ?len_le32; lia).
  rewrite from_le_le32 by (pose proof (len_nonneg refs); lia).
  replace (Z.to_nat (len refs)) with (length refs) by (unfold len; lia).
  replace ((bam_magic ++ le32 (len text) ++ text) ++ le32 (len refs) ++ concat (map encode_ref refs) ++ body)
    with (((bam_magic ++ le32 (len text) ++ text) ++ le32 (len refs)) ++ concat (map encode_ref refs) ++ body)
    by (rewrite <- !app_assoc; reflexivity).
  replace (8 + len text + 4) with (len ((bam_magic ++ le32 (len text) ++ text) ++ le32 (len refs)))
    by (rewrite len_app, Hl, len_le32; lia).
  rewrite parse_refs_correct by assumption.
  f_equal. f_equal. rewrite len_encode_header. rewrite len_app, Hl, len_le32. lia.
Qed.

Lemma read_file_correct text refs rs : header_valid text refs -> Forall fits rs ->
  read_file (encode_file text refs rs) = Some (map fst refs, encode_header text refs, buf_of rs).
Proof.
  intros Hh Hf. unfold read_file, encode_file. rewrite parse_header_correct by assumption.
  rewrite skipn_len_app by reflexivity. rewrite firstn_len_app by reflexivity.
  rewrite read_whole_correct by assumption. reflexivity.
Qed.

(* ================================================================= reference name *)
Lemma len_map {A C} (f : A -> C) l : len (map f l) = len l.
Proof. unfold len. rewrite map_length. reflexivity. Qed.
Lemma py_index_in_range {A} (l : list A) i : 0 <= i < len l -> py_index l i = nth_error l (Z.to_nat i).
Proof.
  intros H. unfold py_index.
  assert ((0 <=? i) && (i <? len l) = true) as ->; [|reflexivity].
  apply andb_true_iff. split; [apply Z.leb_le|apply Z.ltb_lt]; lia.
Qed.
Lemma chrom_pinned_mapped refs r : 0 <= b_ref r < len refs ->
  v_chrom pinned (map fst refs) (b_ref r) = spec_chrom refs r.
Proof.
  intros H. cbn [v_chrom pinned]. rewrite py_index_in_range by (rewrite len_map; lia).
  unfold spec_chrom. destruct (Z.ltb_spec (b_ref r) 0); [lia|reflexivity].
Qed.
Lemma chrom_repaired_correct refs r : -1 <= b_ref r < len refs ->
  v_chrom repaired (map fst refs) (b_ref r)
  = match spec_chrom refs r with Some n => Some n | None => Some [42] end.
Proof.
  intros H. cbn [v_chrom repaired]. unfold spec_chrom.
  destruct (Z.ltb_spec (b_ref r) 0) as [Hneg|Hpos].
  - assert (b_ref r = -1) as -> by lia. unfold py_index.
    assert ((0 <=? -1) && (-1 <? len (map fst refs ++ [[42]])) = false) as -> by reflexivity.
    assert ((- len (map fst refs ++ [[42]]) <=? -1) && (-1 <? 0) = true) as ->.
    { apply andb_true_iff. split; [apply Z.leb_le|reflexivity]. rewrite len_app, len_cons, len_nil.
      pose proof (len_nonneg (map fst refs)). lia. }
    replace (Z.to_nat (len (map fst refs ++ [[42]]) + -1)) with (length (map fst refs))
      by (rewrite len_app, len_cons, len_nil; unfold len; lia).
    rewrite nth_error_app2 by lia. rewrite Nat.sub_diag. reflexivity.
  - rewrite py_index_in_range by (rewrite len_app, len_map; pose proof (len_nonneg [[42]]); lia).
    rewrite nth_error_app1 by (rewrite map_length; unfold len in H; lia).
    destruct (nth_error (map fst refs) (Z.to_nat (b_ref r))) eqn:E; [reflexivity|].
    apply nth_error_None in E. rewrite map_length in E. unfold len in H. lia.
Qed.
Lemma spec_chrom_none refs r : -1 <= b_ref r < len refs -> (spec_chrom refs r = None <-> b_ref r = -1).
Proof.
  intros H. unfold spec_chrom. destruct (Z.ltb_spec (b_ref r) 0) as [Hneg|Hpos].
  - split; intros; [lia|reflexivity].
  - split; intros E; [|lia]. apply nth_error_None in E. rewrite map_length in E. unfold len in H. lia.
Qed.

(* ================================================================= buffers of groups (chunks) *)
Lemma flat_map_groups {T} (f : buf -> list T) (g : brec -> T) (P : brec -> Prop) :
  (forall rs, Forall P rs -> f (buf_of rs) = map g rs) ->
  forall groups, Forall P (concat groups) -> flat_map f (map buf_of groups) = map g (concat groups).
Proof.
  intros H. induction groups as [|gr groups IH]; intros HP; [reflexivity|].
  cbn [concat] in HP. apply Forall_app in HP. destruct HP as [H1 H2].
  cbn [map flat_map concat]. rewrite map_app, H by assumption. rewrite IH by assumption. reflexivity.
Qed.
Lemma Forall_select {A} (P : A -> Prop) l idx : Forall P l -> Forall P (select l idx).
Proof.
  intros H. unfold select. induction idx as [|i idx IH]; [constructor|].
  cbn [flat_map]. apply Forall_app. split; [|assumption].
  destruct (nth_error l (Z.to_nat i)) eqn:E; [|constructor].
  constructor; [|constructor]. apply nth_error_In in E. rewrite Forall_forall in H. apply H. assumption.
Qed.

(* ================================================================= decidable validity implies the Prop form *)
Lemma in_range_spec lo hi x : in_range lo hi x = true <-> lo <= x < hi.
Proof. unfold in_range. rewrite andb_true_iff, Z.leb_le, Z.ltb_lt. reflexivity. Qed.
Lemma forallb_Forall {A} (f : A -> bool) (P : A -> Prop) l :
  (forall x, f x = true -> P x) -> forallb f l = true -> Forall P l.
Proof.
  intros H Hl. rewrite forallb_forall in Hl. apply Forall_forall. intros x Hx. apply H, Hl, Hx.
Qed.
Lemma rec_okb_valid n r : n <= 2147483648 -> rec_okb n r = true -> fits r ->
  rec_valid 65536 r /\ -1 <= b_ref r < n.
Proof.
  intros Hn. unfold rec_okb. rewrite !andb_true_iff. rewrite !in_range_spec.
  intros ((((((((((((((((Href & Hpos) & Hmapq) & Hbin) & Hflag) & Hnl) & Hname) & Hnc) & Hcig) & Hls) & Hseq) & Hq) & Hqv) & Hnref) & Hnpos) & Htlen) & Htags) Hfit.
  split; [|assumption]. constructor; try lia; try assumption.
  - revert Hcig. apply forallb_Forall. intros c. rewrite andb_true_iff, !in_range_spec. lia.
  - revert Hseq. apply forallb_Forall. intros x. rewrite in_range_spec. lia.
Qed.

(* Proofs/C19_iter.v — from_entry_tuples and the SHAPE in which its Iterable[tuple] argument is handed over
   (Model/C19.v: itkind, it_yield, m_from_rows_via; operation ORows how).
   The body of from_entry_tuples mentions its argument once (zip( *tuples)); so a one-shot iterator — which yields its
   rows on the first traversal only — gives the same table as a list of the same rows. *)
From Coq Require Import ZArith List Bool Lia.
From BNP Require Import Base.Prims Model.C19 Proofs.C19 Proofs.C19_rows Proofs.C19_prog.
Import ListNotations.
Open Scope Z_scope.

Lemma from_rows_any_iterable sch how rows :
  m_from_rows_via m_from_rows_pre_traversals sch how rows = m_from_rows sch rows.
Proof. reflexivity. Qed.

Lemma rows_step_is_via sch cur t1 how :
  m_step sch cur t1 (ORows how) = of_opt sch (m_from_rows_via m_from_rows_pre_traversals sch how (m_to_rows cur)).
Proof. reflexivity. Qed.

Lemma rows_step_shape_independent sch cur t1 how how' :
  m_step sch cur t1 (ORows how) = m_step sch cur t1 (ORows how').
Proof. reflexivity. Qed.

(* the round trip through rows, for every stored table (zero rows included) and EVERY hand-over shape: a table of the
   same schema with exactly the rows of cur, itself a stored table *)
Lemma rows_step_any_iterable sch sch1 cur t1 how :
  Inv sch cur -> Inv sch1 t1 ->
  exists t', m_step sch cur t1 (ORows how) = MTab sch t' /\ Inv sch t' /\ E t' = E cur.
Proof.
  intros HI HI1.
  destruct (step_refines sch sch1 cur t1 (ORows how) HI HI1 I) as [S1 S2].
  simpl s_step in S1.
  assert (Hsch : forall sch' t', m_step sch cur t1 (ORows how) = MTab sch' t' -> sch' = sch).
  { intros sch' t'. rewrite rows_step_is_via. unfold of_opt.
    destruct (m_from_rows_via _ _ _ _); intros H; [injection H as <- _; reflexivity|discriminate]. }
  destruct (m_step sch cur t1 (ORows how)) as [sch' t'|rs|] eqn:Es; simpl in S1; try contradiction.
  simpl in S2. rewrite (Hsch sch' t' eq_refl) in *. exists t'. split; [reflexivity|]. split; assumption.
Qed.

(* a re-iterable argument is immune to any number of earlier traversals ... *)
Lemma from_rows_reiterable_any_pre pre sch how rows :
  it_one_shot how = false -> m_from_rows_via pre sch how rows = m_from_rows sch rows.
Proof. intros H. unfold m_from_rows_via, it_yield. rewrite H. destruct pre; reflexivity. Qed.

(* ... a one-shot iterator is not: ONE complete traversal before the zip and the table is built from no rows at all *)
Lemma from_rows_one_shot_pre pre sch how rows :
  (0 < pre)%nat -> it_one_shot how = true -> m_from_rows_via pre sch how rows = m_from_rows sch [].
Proof. intros Hp H. unfold m_from_rows_via, it_yield. rewrite H. destruct pre; [lia|reflexivity]. Qed.

(* non-vacuity: a body with one validating pass in front (pre = 1) turns a generator of 2 rows into a 0-row table,
   while the code that exists (pre = 0) and a list under pre = 1 give the 2-row table *)
Definition it_sch : schema := [([102; 48], FB KInt); ([102; 49], FB KStr)].
Definition it_rows : list (list mcell) := [[MB (MZ DI 4); MB (MS [97; 98])]; [MB (MZ DI 12); MB (MS [])]].
Lemma from_rows_pretraversal_example :
  option_map m_len (m_from_rows_via 1 it_sch ItGen it_rows) = Some 0%nat
  /\ option_map m_len (m_from_rows_via 1 it_sch ItList it_rows) = Some 2%nat
  /\ option_map m_len (m_from_rows_via m_from_rows_pre_traversals it_sch ItGen it_rows) = Some 2%nat
  /\ option_map m_to_rows (m_from_rows_via m_from_rows_pre_traversals it_sch ItGen it_rows) = Some it_rows.
Proof. vm_compute. repeat split. Qed.

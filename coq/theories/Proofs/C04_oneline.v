(* Proofs/C04_oneline.v — T1 for the OneLineBuffer family (FASTQ: 4 lines per entry, two-line FASTA: 2), LF and CRLF:
   from_raw_buffer / _get_buffer_extractor on the layout of ANY >= 1 records yields a well-formed, contiguous extractor
   whose abstraction is the records'. *)
From Coq Require Import ZArith List Bool Lia.
From BNP Require Import Base.Prims Base.PrimsFacts Model.C04 Proofs.C04 Proofs.C04_raw Proofs.C04_crlf.
Import ListNotations.
Open Scope Z_scope.

(* ---------------- lines ---------------- *)
Definition nolf (b : list Z) : Prop := Forall (fun c => c <> LF) b.
Definition ltext (bs : list (list Z)) : list Z := concat (map (fun b => b ++ [LF]) bs).
Fixpoint lends (pos : Z) (bs : list (list Z)) : list Z :=
  match bs with [] => [] | b :: r => (pos + len b) :: lends (pos + len b + 1) r end.
Fixpoint lstarts (pos : Z) (bs : list (list Z)) : list Z :=
  match bs with [] => [] | b :: r => pos :: lstarts (pos + len b + 1) r end.

Lemma len_ltext_cons b bs : len (ltext (b :: bs)) = len b + 1 + len (ltext bs).
Proof. unfold ltext. simpl. rewrite !len_app. change (len [LF]) with 1. lia. Qed.

Lemma fnz_nolf b : forall pos rest, nolf b ->
  flatnonzero_from pos (map (Z.eqb LF) (b ++ rest)) = flatnonzero_from (pos + len b) (map (Z.eqb LF) rest).
Proof.
  induction b as [|a b IH]; intros pos rest H.
  - simpl. rewrite len_nil. f_equal. lia.
  - inversion H as [|? ? Ha Hb]; subst. change ((a :: b) ++ rest) with (a :: (b ++ rest)).
    rewrite map_cons. cbn [flatnonzero_from]. destruct (Z.eqb_spec LF a); [congruence|]. cbn [app].
    rewrite IH by auto. rewrite len_cons. f_equal. lia.
Qed.

Lemma positions_ltext bs : forall pos, Forall nolf bs ->
  flatnonzero_from pos (map (Z.eqb LF) (ltext bs)) = lends pos bs.
Proof.
  induction bs as [|b bs IH]; intros pos H; [reflexivity|].
  inversion H as [|? ? Hb Hbs]; subst. unfold ltext. simpl. rewrite <- app_assoc. rewrite fnz_nolf by auto.
  simpl. f_equal. apply IH; auto.
Qed.

Lemma starts_from_ends bs : forall pos,
  map (Z.add 1) ((pos - 1) :: lends pos bs) = lstarts pos bs ++ [pos + len (ltext bs)].
Proof.
  induction bs as [|b bs IH]; intros pos.
  - unfold lends, lstarts, map, app. change (len (ltext [])) with 0. f_equal. lia.
  - change (lends pos (b :: bs)) with ((pos + len b) :: lends (pos + len b + 1) bs).
    change (lstarts pos (b :: bs)) with (pos :: lstarts (pos + len b + 1) bs).
    specialize (IH (pos + len b + 1)). replace (pos + len b + 1 - 1) with (pos + len b) in IH by lia.
    rewrite map_cons. rewrite IH. rewrite len_ltext_cons. rewrite <- app_comm_cons. f_equal; [lia|]. f_equal. f_equal. lia.
Qed.

Lemma length_lends bs : forall pos, length (lends pos bs) = length bs.
Proof. induction bs; intros; simpl; auto. Qed.
Lemma length_lstarts bs : forall pos, length (lstarts pos bs) = length bs.
Proof. induction bs; intros; simpl; auto. Qed.

Lemma last_lends bs : forall pos, bs <> [] -> last (lends pos bs) 0 = pos + len (ltext bs) - 1.
Proof.
  induction bs as [|b bs IH]; intros pos Hn; [congruence|].
  rewrite len_ltext_cons. destruct bs as [|b' bs'].
  - simpl. change (len (ltext [])) with 0. lia.
  - change (lends pos (b :: b' :: bs')) with ((pos + len b) :: lends (pos + len b + 1) (b' :: bs')).
    change (last ((pos + len b) :: lends (pos + len b + 1) (b' :: bs')) 0) with (last (lends (pos + len b + 1) (b' :: bs')) 0).
    rewrite IH by discriminate. lia.
Qed.

(* ---------------- groups of k lines ---------------- *)
Fixpoint glends (pos : Z) (gs : list (list (list Z))) : list (list Z) :=
  match gs with [] => [] | g :: r => lends pos g :: glends (pos + len (ltext g)) r end.
Fixpoint glstarts (pos : Z) (gs : list (list (list Z))) : list (list Z) :=
  match gs with [] => [] | g :: r => lstarts pos g :: glstarts (pos + len (ltext g)) r end.

Lemma ltext_app a b : ltext (a ++ b) = ltext a ++ ltext b.
Proof. unfold ltext. rewrite map_app, concat_app. reflexivity. Qed.

Lemma lends_app a : forall pos b, lends pos (a ++ b) = lends pos a ++ lends (pos + len (ltext a)) b.
Proof.
  induction a as [|x a IH]; intros pos b.
  - simpl. change (len (ltext [])) with 0. f_equal. lia.
  - simpl. f_equal. rewrite IH. f_equal. f_equal. rewrite len_ltext_cons. lia.
Qed.
Lemma lstarts_app a : forall pos b, lstarts pos (a ++ b) = lstarts pos a ++ lstarts (pos + len (ltext a)) b.
Proof.
  induction a as [|x a IH]; intros pos b.
  - simpl. change (len (ltext [])) with 0. f_equal. lia.
  - simpl. f_equal. rewrite IH. f_equal. f_equal. rewrite len_ltext_cons. lia.
Qed.

Lemma lends_concat gs : forall pos, lends pos (concat gs) = concat (glends pos gs).
Proof. induction gs as [|g gs IH]; intros pos; [reflexivity|]. simpl. rewrite lends_app, IH. reflexivity. Qed.
Lemma lstarts_concat gs : forall pos, lstarts pos (concat gs) = concat (glstarts pos gs).
Proof. induction gs as [|g gs IH]; intros pos; [reflexivity|]. simpl. rewrite lstarts_app, IH. reflexivity. Qed.

Lemma glends_width k gs : forall pos, Forall (fun g : list (list Z) => length g = k) gs -> Forall (fun b => length b = k) (glends pos gs).
Proof. induction gs; intros pos H; simpl; constructor; inversion H; subst; [rewrite length_lends; auto|auto]. Qed.
Lemma glstarts_width k gs : forall pos, Forall (fun g : list (list Z) => length g = k) gs -> Forall (fun b => length b = k) (glstarts pos gs).
Proof. induction gs; intros pos H; simpl; constructor; inversion H; subst; [rewrite length_lstarts; auto|auto]. Qed.

(* every k-th element *)
Lemma every_kth_skip k l : forall i rest, length l = i -> every_kth k i (l ++ rest) = every_kth k 0 rest.
Proof. induction l as [|x l IH]; intros i rest H; simpl in *; subst; auto. Qed.

Lemma every_kth_groups k (bs : list (list Z)) : forall rest, (1 <= k)%nat -> Forall (fun b => length b = k) bs ->
  every_kth k 0 (concat bs ++ rest) = map hd0 bs ++ every_kth k 0 rest.
Proof.
  induction bs as [|b bs IH]; intros rest Hk H; [reflexivity|].
  inversion H as [|? ? Hb Hbs]; subst. destruct b as [|x b]; [simpl in Hk; lia|].
  rewrite concat_cons, <- app_assoc. change ((x :: b) ++ concat bs ++ rest) with (x :: (b ++ concat bs ++ rest)).
  cbn [every_kth map hd0 hd app]. f_equal.
  rewrite every_kth_skip by (simpl in *; lia). apply IH; auto.
Qed.

(* ---------------- the pipeline, carriage-return adjustment left symbolic ---------------- *)
Definition cr_adjust (k : Z) (chunk : list Z) (fe : list (list Z)) : list (list Z) :=
  let first_ends := map hd0 (firstn (Z.to_nat k) fe) in
  if (hd0 (hd [] fe) <? 1) then fe
  else if existsb (fun e => nthZ chunk (e - 1) =? CR) first_ends
       then map (map (fun e => e - is_cr_before chunk e)) fe else fe.

Definition oneline_pre (k : nat) (offs : list Z) (gs : list (list (list Z))) : ext :=
  let data := ltext (concat gs) in
  let starts := map (fun r => vadd r offs) (glstarts 0 gs) in
  {| x_data := data; x_fs := starts; x_fl := zip_with vsub (cr_adjust (Z.of_nat k) data (glends 0 gs)) starts;
     x_es := map hd0 (glstarts 0 gs); x_ee := tl (map hd0 (glstarts 0 gs) ++ [len data]); x_contig := true |}.

Lemma length_concat_groups {A} k (gs : list (list A)) : Forall (fun g => length g = k) gs ->
  length (concat gs) = (length gs * k)%nat.
Proof. induction 1 as [|g gs Hg Hgs IH]; simpl; auto. rewrite app_length, IH, Hg. lia. Qed.

Lemma from_oneline_groups k offs gs : (1 <= k)%nat -> gs <> [] ->
  Forall (fun g : list (list Z) => length g = k) gs -> Forall nolf (concat gs) ->
  from_oneline (Z.of_nat k) offs (ltext (concat gs)) = Some (oneline_pre k offs gs).
Proof.
  intros Hk Hn HW Hnolf. set (bs := concat gs). set (data := ltext bs).
  assert (Hlen : length bs = (length gs * k)%nat) by (apply length_concat_groups; auto).
  assert (Hgl : (1 <= length gs)%nat) by (destruct gs; simpl; [congruence|lia]).
  assert (Hbs : bs <> []) by (intro E; rewrite E in Hlen; simpl in Hlen; nia).
  assert (HA : positions LF data = lends 0 bs) by (apply (positions_ltext bs 0); auto).
  assert (HL : len (lends 0 bs) = Z.of_nat (length gs) * Z.of_nat k).
  { unfold len. rewrite length_lends, Hlen. lia. }
  unfold from_oneline. fold data. rewrite HA, HL.
  destruct (Z.ltb_spec (Z.of_nat (length gs) * Z.of_nat k) (Z.of_nat k)); [nia|].
  rewrite Z_mod_mult, Z.sub_0_r.
  replace (Z.to_nat (Z.of_nat (length gs) * Z.of_nat k)) with (length (lends 0 bs)) by (rewrite length_lends, Hlen; lia).
  rewrite firstn_all.
  assert (Hlast : last0 (lends 0 bs) + 1 = len data).
  { unfold last0. rewrite last_lends by auto. unfold data. lia. }
  rewrite Hlast.
  assert (Hchunk : firstn (Z.to_nat (len data)) data = data) by (unfold len; rewrite Nat2Z.id; apply firstn_all).
  rewrite !Hchunk.
  pose proof (starts_from_ends bs 0) as HB. change (0 - 1) with (-1) in HB. rewrite HB. fold data.
  replace (0 + len data) with (len data) by lia.
  rewrite removelast_last.
  unfold bs at 1 2. rewrite lends_concat, lstarts_concat.
  rewrite reshape_concat by (auto; apply glends_width; auto).
  rewrite reshape_concat by (auto; apply glstarts_width; auto).
  rewrite Nat2Z.id.
  pose proof (every_kth_groups k (glstarts 0 gs) [] Hk (glstarts_width k gs 0 HW)) as E1. rewrite app_nil_r in E1.
  pose proof (every_kth_groups k (glstarts 0 gs) [len data] Hk (glstarts_width k gs 0 HW)) as E2.
  unfold bs. rewrite lstarts_concat. rewrite E1, E2.
  assert (E3 : every_kth k 0 [len data] = [len data]) by reflexivity. rewrite E3.
  assert (E4 : every_kth k 0 (@nil Z) = []) by reflexivity. rewrite E4, app_nil_r.
  unfold oneline_pre, cr_adjust. rewrite Nat2Z.id. reflexivity.
Qed.

(* ---------------- records: k fields (prefix, text) per record, one per line ---------------- *)
Definition ofield := (list Z * list Z)%type.
Definition body (cr : list Z) (f : ofield) : list Z := fst f ++ snd f ++ cr.
Fixpoint orel (cr : list Z) (pos : Z) (fl : list ofield) : list (Z * Z) :=
  match fl with [] => [] | f :: r => (pos + len (fst f), len (snd f)) :: orel cr (pos + len (body cr f) + 1) r end.
Definition oraw (cr : list Z) (fl : list ofield) : list Z := ltext (map (body cr) fl).

Lemma len_body cr f : len (body cr f) = len (fst f) + len (snd f) + len cr.
Proof. unfold body. rewrite !len_app. lia. Qed.

Lemma starts_orel cr fl : forall pos,
  vadd (lstarts pos (map (body cr) fl)) (map (fun f : ofield => len (fst f)) fl) = map fst (orel cr pos fl).
Proof. unfold vadd. induction fl as [|f fl IH]; intros pos; simpl; f_equal; auto. Qed.

Lemma lens_orel cr fl : forall pos,
  vsub (map (fun e => e - len cr) (lends pos (map (body cr) fl))) (map fst (orel cr pos fl)) = map snd (orel cr pos fl).
Proof.
  unfold vsub. induction fl as [|f fl IH]; intros pos; [reflexivity|].
  cbn [map lends orel zip_with fst snd]. f_equal; [|apply IH].
  unfold body. rewrite !len_app. ring.
Qed.

Lemma orel_shift cr fl : forall pos,
  combine (map (fun a => a - pos) (map fst (orel cr pos fl))) (map snd (orel cr pos fl)) = orel cr 0 fl.
Proof.
  assert (G : forall fl pos q, combine (map (fun a => a - pos) (map fst (orel cr (pos + q) fl))) (map snd (orel cr (pos + q) fl)) = orel cr q fl).
  { induction fl0 as [|f fl0 IH]; intros pos q; simpl; auto. f_equal; [f_equal; lia|].
    replace (pos + q + len (body cr f) + 1) with (pos + (q + len (body cr f) + 1)) by lia. apply IH. }
  intros pos. specialize (G fl pos 0). rewrite Z.add_0_r in G. exact G.
Qed.

Lemma orel_ok cr fl : forall pos,
  Forall (fun al => pos <= fst al /\ 0 <= snd al /\ fst al + snd al + 1 <= pos + len (oraw cr fl)) (orel cr pos fl).
Proof.
  induction fl as [|f fl IH]; intros pos; [constructor|]. cbn [orel]. constructor.
  - cbn [fst snd]. unfold oraw. rewrite map_cons, len_ltext_cons, len_body.
    pose proof (len_nonneg (fst f)). pose proof (len_nonneg (snd f)). pose proof (len_nonneg cr).
    pose proof (len_nonneg (ltext (map (body cr) fl))). lia.
  - specialize (IH (pos + len (body cr f) + 1)). eapply Forall_impl; [|exact IH]. cbn beta. intros al (A & B & C).
    unfold oraw in *. rewrite map_cons, len_ltext_cons. pose proof (len_nonneg (body cr f)). lia.
Qed.

(* generic rows with explicit relative field table *)
Definition hrowi (pos : Z) (it : list Z * list (Z * Z)) : xrow :=
  {| r_s := pos; r_e := pos + len (fst it);
     r_fs := map (fun sl => pos + fst sl) (snd it); r_fl := map snd (snd it) |}.
Fixpoint hrows (pos : Z) (its : list (list Z * list (Z * Z))) : list xrow :=
  match its with [] => [] | it :: rest => hrowi pos it :: hrows (pos + len (fst it)) rest end.
Definition hvi (it : list Z * list (Z * Z)) : arow := {| a_rec := fst it; a_rel := snd it |}.

Lemma view_hrows its : forall (pre post : list Z),
  map (arow_of (pre ++ concat (map fst its) ++ post)) (hrows (len pre) its) = map hvi its.
Proof.
  induction its as [|it its IH]; intros pre post; [reflexivity|].
  change (hrows (len pre) (it :: its)) with (hrowi (len pre) it :: hrows (len pre + len (fst it)) its).
  rewrite !map_cons. f_equal.
  - unfold arow_of, hrowi, hvi; cbn [r_s r_e r_fs r_fl]. f_equal.
    + rewrite concat_cons, <- app_assoc. pose proof (len_nonneg (fst it)).
      replace (len pre) with (len pre + 0) at 1 by lia. rewrite slice_mid by lia. apply slice_full; lia.
    + rewrite map_map. clear. induction (snd it) as [|[s l] r IH]; simpl; f_equal; auto. f_equal. lia.
  - specialize (IH (pre ++ fst it) post). rewrite len_app in IH. rewrite <- IH.
    rewrite concat_cons, <- !app_assoc. reflexivity.
Qed.

Lemma hrows_ok its : forall pos total,
  Forall (fun it => Forall (fun al => 0 <= fst al /\ 0 <= snd al /\ fst al + snd al + 1 <= len (fst it)) (snd it)) its ->
  0 <= pos -> pos + len (concat (map fst its)) <= total -> Forall (row_ok total) (hrows pos its).
Proof.
  induction its as [|it its IH]; intros pos total H Hp Ht; [constructor|].
  inversion H as [|? ? Hit Hits]; subst.
  change (hrows pos (it :: its)) with (hrowi pos it :: hrows (pos + len (fst it)) its).
  rewrite map_cons, concat_cons, len_app in Ht.
  pose proof (len_nonneg (fst it)). pose proof (len_nonneg (concat (map fst its))).
  constructor.
  - unfold row_ok, hrowi; cbn [r_s r_e r_fs r_fl]. repeat split; try lia.
    + rewrite !map_length. reflexivity.
    + clear - Hit. induction Hit as [|[s l] r (A & B & C) Hr IHr]; simpl; constructor; auto. simpl in *. lia.
  - apply (IH (pos + len (fst it)) total); auto; lia.
Qed.

(* ---------------- assembling ---------------- *)
Fixpoint gstarts (pos : Z) (gs : list (list (list Z))) : list Z :=
  match gs with [] => [] | g :: r => pos :: gstarts (pos + len (ltext g)) r end.
Fixpoint gends (pos : Z) (gs : list (list (list Z))) : list Z :=
  match gs with [] => [] | g :: r => (pos + len (ltext g)) :: gends (pos + len (ltext g)) r end.

Lemma hd_glstarts gs : forall pos, Forall (fun g : list (list Z) => g <> []) gs -> map hd0 (glstarts pos gs) = gstarts pos gs.
Proof.
  induction gs as [|g gs IH]; intros pos H; [reflexivity|]. inversion H; subst. simpl. f_equal; auto.
  destruct g; [congruence|reflexivity].
Qed.

Lemma len_ltext_concat gs : len (ltext (concat gs)) = sumZ (map (fun g => len (ltext g)) gs).
Proof. induction gs as [|g gs IH]; [reflexivity|]. simpl. rewrite ltext_app, len_app, IH. reflexivity. Qed.

Lemma gstarts_gends gs : forall pos, gstarts pos gs ++ [pos + len (ltext (concat gs))] = pos :: gends pos gs.
Proof.
  induction gs as [|g gs IH]; intros pos.
  - cbn [gstarts gends app concat]. change (len (ltext [])) with 0. f_equal. lia.
  - cbn [gstarts gends]. rewrite <- app_comm_cons. f_equal.
    replace (pos + len (ltext (concat (g :: gs)))) with (pos + len (ltext g) + len (ltext (concat gs)))
      by (rewrite concat_cons, ltext_app, len_app; lia).
    apply IH.
Qed.
Lemma tl_gstarts gs pos : tl (gstarts pos gs ++ [pos + len (ltext (concat gs))]) = gends pos gs.
Proof. rewrite gstarts_gends. reflexivity. Qed.

Definition oitem (cr : list Z) (fl : list ofield) : list Z * list (Z * Z) := (oraw cr fl, orel cr 0 fl).

Lemma orel_fst_shift cr fl : forall pos q, map (fun sl => pos + fst sl) (orel cr q fl) = map fst (orel cr (pos + q) fl).
Proof.
  induction fl as [|f fl IH]; intros pos q; [reflexivity|]. cbn [orel map fst]. f_equal; [lia|].
  rewrite IH. f_equal. f_equal. lia.
Qed.
Lemma orel_snd_shift cr fl : forall pos q, map snd (orel cr q fl) = map snd (orel cr (pos + q) fl).
Proof.
  induction fl as [|f fl IH]; intros pos q; [reflexivity|]. cbn [orel map snd]. f_equal.
  rewrite (IH pos). f_equal. f_equal. lia.
Qed.

Lemma rows_oneline cr offs recs : forall pos,
  Forall (fun fl : list ofield => map (fun f : ofield => len (fst f)) fl = offs) recs ->
  let gs := map (map (body cr)) recs in
  let S := map (fun r => vadd r offs) (glstarts pos gs) in
  zip4 (gstarts pos gs) (gends pos gs) S (zip_with vsub (map (map (fun e => e - len cr)) (glends pos gs)) S)
  = hrows pos (map (oitem cr) recs).
Proof.
  induction recs as [|fl recs IH]; intros pos H; [reflexivity|].
  inversion H as [|? ? Hfl Hrecs]; subst. cbv zeta in *.
  change (map (map (body cr)) (fl :: recs)) with (map (body cr) fl :: map (map (body cr)) recs).
  set (gs := map (map (body cr)) recs) in *.
  cbn [gstarts gends glstarts glends].
  specialize (IH (pos + len (ltext (map (body cr) fl))) Hrecs).
  rewrite (map_cons (fun r : list Z => vadd r (map (fun f : ofield => len (fst f)) fl))),
          (map_cons (map (fun e : Z => e - len cr))).
  set (ST := map (fun r : list Z => vadd r (map (fun f : ofield => len (fst f)) fl)) (glstarts (pos + len (ltext (map (body cr) fl))) gs)) in *.
  set (EN := map (map (fun e : Z => e - len cr)) (glends (pos + len (ltext (map (body cr) fl))) gs)) in *.
  rewrite starts_orel.
  change (zip_with vsub (map (fun e : Z => e - len cr) (lends pos (map (body cr) fl)) :: EN) (map fst (orel cr pos fl) :: ST))
    with (vsub (map (fun e : Z => e - len cr) (lends pos (map (body cr) fl))) (map fst (orel cr pos fl)) :: zip_with vsub EN ST).
  rewrite lens_orel.
  change (map (oitem cr) (fl :: recs)) with (oitem cr fl :: map (oitem cr) recs).
  change (hrows pos (oitem cr fl :: map (oitem cr) recs))
    with (hrowi pos (oitem cr fl) :: hrows (pos + len (fst (oitem cr fl))) (map (oitem cr) recs)).
  change (fst (oitem cr fl)) with (ltext (map (body cr) fl)). rewrite <- IH.
  unfold hrowi, oitem; cbn [fst snd].
  rewrite (orel_fst_shift cr fl pos 0), (orel_snd_shift cr fl pos 0). rewrite Z.add_0_r. reflexivity.
Qed.

(* ---------------- the carriage-return adjustment ---------------- *)
Definition fclean (f : ofield) : Prop := clean (fst f) /\ clean (snd f).

Lemma cr_before_lends bs : forall (pre post : list Z), Forall (fun b => exists b0, b = b0 ++ [CR]) bs ->
  Forall (fun e => nthZ (pre ++ ltext bs ++ post) (e - 1) = CR) (lends (len pre) bs).
Proof.
  induction bs as [|b bs IH]; intros pre post H; [constructor|].
  inversion H as [|? ? (b0 & ->) Hbs]; subst. cbn [lends]. constructor.
  - rewrite len_app. change (len [CR]) with 1. replace (len pre + (len b0 + 1) - 1) with (len (pre ++ b0)) by (rewrite len_app; lia).
    unfold ltext. rewrite map_cons, concat_cons, <- !app_assoc. rewrite (app_assoc pre). apply nthZ_mid.
  - specialize (IH (pre ++ (b0 ++ [CR]) ++ [LF]) post Hbs).
    rewrite !len_app in IH. change (len [LF]) with 1 in IH. rewrite !len_app.
    replace (len pre + (len b0 + len [CR]) + 1) with (len pre + (len b0 + len [CR] + 1)) by lia.
    unfold ltext in *. rewrite map_cons, concat_cons, <- !app_assoc. rewrite <- !app_assoc in IH. exact IH.
Qed.

Lemma Forall_concat_iff {A} (P : A -> Prop) (ls : list (list A)) : Forall P (concat ls) -> Forall (Forall P) ls.
Proof. induction ls as [|l ls IH]; intros H; constructor; simpl in H; apply Forall_app in H; tauto. Qed.

Lemma no_cr_ltext bs : Forall (Forall (fun c => c <> CR)) bs -> Forall (fun c => c <> CR) (ltext bs).
Proof.
  induction 1 as [|b bs Hb Hbs IH]; [constructor|]. unfold ltext. simpl. rewrite <- app_assoc. apply Forall_app. split; auto.
  constructor; [unfold LF, CR; lia|exact IH].
Qed.

Lemma cr_adjust_eq k cr recs : (1 <= k)%nat -> recs <> [] -> (cr = [] \/ cr = [CR]) ->
  Forall (fun fl : list ofield => length fl = k /\ Forall fclean fl) recs ->
  let gs := map (map (body cr)) recs in
  cr_adjust (Z.of_nat k) (ltext (concat gs)) (glends 0 gs) = map (map (fun e => e - len cr)) (glends 0 gs).
Proof.
  intros Hk Hn Hcr H gs. unfold cr_adjust. destruct Hcr as [-> | ->].
  - (* LF: no carriage return anywhere *)
    assert (Hno : Forall (fun c => c <> CR) (ltext (concat gs))).
    { apply no_cr_ltext. unfold gs. clear - H. induction H as [|fl recs (_ & Hf) _ IH]; simpl; [constructor|].
      apply Forall_app. split; auto. rewrite Forall_map. eapply Forall_impl; [|exact Hf].
      intros f (Hp & Ht). unfold body. rewrite app_nil_r. apply Forall_app. split.
      - eapply Forall_impl; [|exact Hp]. intros c (_ & _ & Hc); auto.
      - eapply Forall_impl; [|exact Ht]. intros c (_ & _ & Hc); auto. }
    assert (E : existsb (fun e => nthZ (ltext (concat gs)) (e - 1) =? CR) (map hd0 (firstn (Z.to_nat (Z.of_nat k)) (glends 0 gs))) = false).
    { apply not_true_is_false. intro Hex. apply existsb_exists in Hex. destruct Hex as (e & _ & He).
      rewrite nthZ_no_cr in He by auto. discriminate. }
    rewrite E. change (len (@nil Z)) with 0.
    assert (Hid : map (map (fun e : Z => e - 0)) (glends 0 gs) = glends 0 gs).
    { rewrite <- (map_id (glends 0 gs)) at 2. apply map_ext. intros r. rewrite <- (map_id r) at 2. apply map_ext. intros; lia. }
    rewrite Hid. destruct (hd0 (hd [] (glends 0 gs)) <? 1); reflexivity.
  - (* CRLF *)
    destruct recs as [|fl recs']; [congruence|]. inversion H as [|? ? (Hl & _) _]; subst.
    destruct fl as [|f fl']; [simpl in Hk; lia|].
    assert (Hall : Forall (Forall (fun e => nthZ (ltext (concat gs)) (e - 1) = CR)) (glends 0 gs)).
    { apply Forall_concat_iff. rewrite <- lends_concat.
      pose proof (cr_before_lends (concat gs) [] []) as G. change (len (@nil Z)) with 0 in G.
      change ([] ++ ltext (concat gs) ++ []) with (ltext (concat gs) ++ []) in G. rewrite app_nil_r in G. apply G.
      unfold gs. clear. induction (((f :: fl') :: recs')) as [|x xs IH]; simpl; [constructor|].
      apply Forall_app. split; auto. rewrite Forall_map. apply Forall_forall. intros g _. unfold body.
      exists (fst g ++ snd g). rewrite <- app_assoc. reflexivity. }
    assert (Hfin : map (map (fun e => e - is_cr_before (ltext (concat gs)) e)) (glends 0 gs) = map (map (fun e => e - 1)) (glends 0 gs)).
    { apply map_ext_Forall. eapply Forall_impl; [|exact Hall]. intros r Hr.
      apply map_ext_Forall. eapply Forall_impl; [|exact Hr]. intros e He. unfold is_cr_before. rewrite He, Z.eqb_refl. reflexivity. }
    unfold gs in *. cbn [map glends lends hd hd0] in *. rewrite ?Z.add_0_l in *.
    assert (Hb : 1 <= len (body [CR] f)).
    { rewrite len_body. change (len [CR]) with 1. pose proof (len_nonneg (fst f)). pose proof (len_nonneg (snd f)). lia. }
    destruct (Z.ltb_spec (len (body [CR] f)) 1); [lia|].
    rewrite Nat2Z.id. destruct (length (f :: fl')) as [|k'] eqn:Ek; [simpl in Ek; lia|].
    cbn [firstn map hd0 hd existsb].
    inversion Hall as [|? ? H1 _]; subst. inversion H1 as [|? ? H11 _]; subst. rewrite H11, Z.eqb_refl. cbn [orb].
    change (len [CR]) with 1. exact Hfin.
Qed.

(* ---------------- T1, generic ---------------- *)
Definition orec_wf (k : nat) (offs : list Z) (fl : list ofield) : Prop :=
  length fl = k /\ Forall fclean fl /\ map (fun f : ofield => len (fst f)) fl = offs.

Lemma nolf_bodies cr recs k offs : (cr = [] \/ cr = [CR]) -> Forall (orec_wf k offs) recs ->
  Forall nolf (concat (map (map (body cr)) recs)).
Proof.
  intros Hcr. induction 1 as [|fl recs (_ & Hf & _) _ IH]; simpl; [constructor|].
  apply Forall_app. split; auto. rewrite Forall_map. eapply Forall_impl; [|exact Hf].
  intros f (Hp & Ht). unfold body, nolf. apply Forall_app. split; [eapply Forall_impl; [|exact Hp]; intros c (_ & A & _); auto|].
  apply Forall_app. split; [eapply Forall_impl; [|exact Ht]; intros c (_ & A & _); auto|].
  destruct Hcr as [-> | ->]; [constructor|]. constructor; [unfold CR, LF; lia|constructor].
Qed.

Theorem from_oneline_correct k offs cr recs :
  (1 <= k)%nat -> recs <> [] -> (cr = [] \/ cr = [CR]) -> Forall (orec_wf k offs) recs ->
  exists x, from_oneline (Z.of_nat k) offs (concat (map (oraw cr) recs)) = Some x /\ Inv x
            /\ view x = map hvi (map (oitem cr) recs) /\ x_contig x = true.
Proof.
  intros Hk Hn Hcr H. set (gs := map (map (body cr)) recs).
  assert (Hdata : concat (map (oraw cr) recs) = ltext (concat gs)).
  { unfold gs, oraw. clear. induction recs as [|fl recs IH]; [reflexivity|]. simpl. rewrite ltext_app, IH. reflexivity. }
  assert (HW : Forall (fun g : list (list Z) => length g = k) gs).
  { unfold gs. rewrite Forall_map. eapply Forall_impl; [|exact H]. intros fl (A & _). rewrite map_length. exact A. }
  assert (Hgn : gs <> []) by (unfold gs; destruct recs; [congruence|discriminate]).
  assert (Hne : Forall (fun g : list (list Z) => g <> []) gs).
  { eapply Forall_impl; [|exact HW]. intros g Hg. destruct g; simpl in *; [lia|discriminate]. }
  rewrite Hdata. exists (oneline_pre k offs gs).
  split; [apply from_oneline_groups; auto; apply (nolf_bodies cr recs k offs); auto|].
  assert (Hadj : cr_adjust (Z.of_nat k) (ltext (concat gs)) (glends 0 gs) = map (map (fun e => e - len cr)) (glends 0 gs)).
  { apply cr_adjust_eq; auto. eapply Forall_impl; [|exact H]. intros fl (A & B & _); auto. }
  assert (R : rows (oneline_pre k offs gs) = hrows 0 (map (oitem cr) recs)).
  { unfold rows, oneline_pre; cbn [x_es x_ee x_fs x_fl]. rewrite Hadj.
    rewrite hd_glstarts by auto.
    replace (len (ltext (concat gs))) with (0 + len (ltext (concat gs))) by lia. rewrite tl_gstarts.
    apply (rows_oneline cr offs recs 0). eapply Forall_impl; [|exact H]. intros fl (_ & _ & C); auto. }
  assert (Hcat : concat (map fst (map (oitem cr) recs)) = ltext (concat gs)).
  { rewrite map_map. unfold oitem; cbn [fst]. exact Hdata. }
  assert (V : view (oneline_pre k offs gs) = map hvi (map (oitem cr) recs)).
  { unfold view. rewrite R. change (x_data (oneline_pre k offs gs)) with (ltext (concat gs)). rewrite <- Hcat.
    pose proof (view_hrows (map (oitem cr) recs) [] []) as G. simpl in G. rewrite app_nil_r in G. exact G. }
  split; [|split; [exact V|reflexivity]].
  split; [|split].
  - unfold shape_ok, oneline_pre; cbn [x_es x_ee x_fs x_fl]. rewrite Hadj.
    assert (L1 : length (glstarts 0 gs) = length gs) by (clear; generalize 0; induction gs; intros; simpl; auto).
    assert (L2 : length (glends 0 gs) = length gs) by (clear; generalize 0; induction gs; intros; simpl; auto).
    assert (Hg1 : (1 <= length gs)%nat) by (destruct gs; simpl; [congruence|lia]).
    repeat (rewrite ?map_length, ?zip_with_length, ?L1, ?L2).
    assert (L3 : length (tl (map hd0 (glstarts 0 gs) ++ [len (ltext (concat gs))])) = length gs).
    { destruct (map hd0 (glstarts 0 gs) ++ [len (ltext (concat gs))]) eqn:E.
      - destruct (map hd0 (glstarts 0 gs)); discriminate.
      - assert (length (z :: l) = S (length gs)) by (rewrite <- E, app_length, map_length, L1; simpl; lia). simpl in *. lia. }
    rewrite L3. repeat split; lia.
  - rewrite R. change (x_data (oneline_pre k offs gs)) with (ltext (concat gs)). rewrite <- Hcat.
    apply hrows_ok; try lia. rewrite Forall_map. apply Forall_forall. intros fl _. unfold oitem; cbn [fst snd].
    pose proof (orel_ok cr fl 0) as G. eapply Forall_impl; [|exact G]. cbn beta. intros al (A & B & C). lia.
  - intros _. rewrite V. change (x_data (oneline_pre k offs gs)) with (ltext (concat gs)). rewrite <- Hcat.
    rewrite !map_map. reflexivity.
Qed.

(* ---------------- FASTQ and two-line FASTA, in terms of the generator's records ---------------- *)
Definition fq_fields (cols : list (list Z)) : list ofield :=
  [([64], nth 0 cols []); ([], nth 1 cols []); ([], 43 :: nth 2 cols []); ([], nth 3 cols [])].
Definition fa_fields (cols : list (list Z)) : list ofield := [([62], nth 0 cols []); ([], nth 1 cols [])].
Definition fields_of (f : fmt) (cols : list (list Z)) : list ofield :=
  match f with FFastq => fq_fields cols | _ => fa_fields cols end.
Definition oneline (f : fmt) : Prop := match f with FFastq | FFasta => True | _ => False end.
Definition ol_k (f : fmt) : nat := match f with FFastq => 4%nat | _ => 2%nat end.
Definition ol_offs (f : fmt) : list Z := match f with FFastq => [1; 0; 0; 0] | _ => [1; 0] end.
Definition ol_rec_wf (f : fmt) (cr : list Z) (r : grec) : Prop :=
  length (g_cols r) = ol_k f /\ Forall clean (g_cols r) /\ g_eol r = cr ++ [LF].

Lemma clean_nth cols i : Forall clean cols -> clean (nth i cols []).
Proof.
  intros H. destruct (nth_in_or_default i cols []) as [Hin|Hd].
  - rewrite Forall_forall in H. apply H; auto.
  - rewrite Hd. constructor.
Qed.

Lemma ol_fields_wf f cr r : oneline f -> ol_rec_wf f cr r -> orec_wf (ol_k f) (ol_offs f) (fields_of f (g_cols r)).
Proof.
  intros Hf (HL & Hc & _). destruct f; try contradiction; (split; [reflexivity|split; [|reflexivity]]).
  - repeat constructor; simpl; try apply clean_nth; auto; unfold TAB, LF, CR; try lia.
  - repeat constructor; simpl; try apply clean_nth; auto; unfold TAB, LF, CR; lia.
Qed.

Lemma ol_raw f cr r : oneline f -> (cr = [] \/ cr = [CR]) -> ol_rec_wf f cr r ->
  oraw cr (fields_of f (g_cols r)) = g_raw f r /\ hvi (oitem cr (fields_of f (g_cols r))) = gview f r.
Proof.
  intros Hf Hcr (HL & _ & He).
  assert (Hraw : oraw cr (fields_of f (g_cols r)) = g_raw f r).
  { unfold g_raw, raw_of, plus_of. rewrite He.
    destruct f; try contradiction; unfold oraw, fields_of, fq_fields, fa_fields, ltext, body; cbn [map concat fst snd];
      destruct Hcr as [-> | ->]; repeat rewrite <- app_assoc; cbn [app]; repeat rewrite <- app_assoc; reflexivity. }
  split; [exact Hraw|].
  unfold hvi, oitem; cbn [fst snd]. rewrite Hraw. unfold gview. f_equal.
  rewrite He. rewrite len_app. change (len [LF]) with 1.
  destruct f; try contradiction; unfold fields_of, fq_fields, fa_fields; cbn [orel fst snd]; rewrite !len_body; cbn [fst snd];
    change (len [64]) with 1; change (len [62]) with 1; change (len (@nil Z)) with 0; rewrite ?len_cons;
    repeat (f_equal; try lia).
Qed.

Theorem from_oneline_grec f cr recs : oneline f -> recs <> [] -> (cr = [] \/ cr = [CR]) -> Forall (ol_rec_wf f cr) recs ->
  exists x, read pinned f (layout f recs) = Some (SLazy x []) /\ Inv x /\ view x = map (gview f) recs /\ x_contig x = true.
Proof.
  intros Hf Hn Hcr H. set (recs' := map (fun r => fields_of f (g_cols r)) recs).
  assert (Hn' : recs' <> []) by (unfold recs'; destruct recs; [congruence|discriminate]).
  assert (Hwf : Forall (orec_wf (ol_k f) (ol_offs f)) recs').
  { unfold recs'. rewrite Forall_map. eapply Forall_impl; [|exact H]. intros r Hr. apply (ol_fields_wf f cr); auto. }
  assert (Hk : (1 <= ol_k f)%nat) by (destruct f; simpl; lia).
  destruct (from_oneline_correct (ol_k f) (ol_offs f) cr recs' Hk Hn' Hcr Hwf) as (x & Hx & I & V & C).
  assert (Hlay : layout f recs = concat (map (oraw cr) recs')).
  { unfold layout, recs'. rewrite map_map. f_equal. apply map_ext_Forall. eapply Forall_impl; [|exact H].
    intros r Hr. symmetry. apply (ol_raw f cr r); auto. }
  assert (HV : map (gview f) recs = map hvi (map (oitem cr) recs')).
  { unfold recs'. rewrite !map_map. apply map_ext_Forall. eapply Forall_impl; [|exact H].
    intros r Hr. symmetry. apply (ol_raw f cr r); auto. }
  exists x. rewrite Hlay, HV. split; [|auto].
  destruct f; try contradiction; simpl; simpl in Hx; rewrite Hx; reflexivity.
Qed.

(* END TO END: every selection program on a FASTQ / two-line FASTA file, LF or CRLF *)
Theorem oneline_selection_end_to_end v f cr recs p out :
  oneline f -> recs <> [] -> (cr = [] \/ cr = [CR]) -> Forall (ol_rec_wf f cr) recs ->
  cat_free p = true -> repl_free p = true ->
  model_out_v v f (layout f recs) p = Some out -> spec_out_ok f recs p (Some out) = true.
Proof.
  intros Hf Hn Hcr H Hc Hr Hm.
  destruct (from_oneline_grec f cr recs Hf Hn Hcr H) as (x0 & Hx & I0 & V0 & _).
  assert (Hread : read v f (layout f recs) = Some (SLazy x0 [])).
  { destruct f; try contradiction; exact Hx. }
  unfold model_out_v in Hm. rewrite Hread in Hm.
  eapply (selection_meets_spec v f recs x0 p out); eauto. destruct f; try contradiction; exact I.
Qed.

(* Proofs/C02_fasta_nf.v — wrapped FASTA whose lines end differently: every line may or may not carry a CR before its LF,
   as long as the CR rule of the code fires exactly when it must (no CR at all, or a CR on the first line).  The case that
   matters: a CRLF file WITHOUT the final line break — the reader appends a bare LF, so the last line has no CR. *)
From Coq Require Import ZArith List Bool Lia Arith.
From BNP Require Import Base.Prims Base.PrimsFacts Base.C02Lib Model.C02 Proofs.C02_table Proofs.C02_lines Proofs.C02_fasta.
Import ListNotations.
Open Scope Z_scope.

Definition suf_ok (s : list Z) : Prop := s = [] \/ s = [13].

Lemma py_get_nonneg data i : 0 <= i -> py_get data i = nthZ data i.
Proof. intros H. unfold py_get. destruct (Z.ltb_spec i 0); [lia|reflexivity]. Qed.

(* per line: the end moves before the CR exactly where there is one *)
Lemma adj_cells (cs : list tcell) : forall pre post,
  (forall c, In c cs -> ta c = [] /\ line_clean (tbody c) /\ suf_ok (tsuf c)) ->
  (pre = [] -> match cs with c :: _ => tbody c ++ tsuf c <> [] | [] => True end) ->
  (pre <> [] -> last pre 0 <> 13) ->
  let data := pre ++ flatten (map raw cs) ++ post in
  map (fun e => m_cr_adjust e (py_get data (m_cr_probe e))) (dpos (len pre) (map raw cs)) = tepos (len pre) cs.
Proof.
  induction cs as [|c cs IH]; intros pre post H Hpre0 Hpre data; [reflexivity|].
  destruct (H c (or_introl eq_refl)) as [Ha [Hb Hs]].
  cbn [map dpos tepos]. f_equal.
  - unfold raw. cbn [fst]. rewrite Ha. simpl app. rewrite len_nil, Z.add_0_r.
    unfold m_cr_adjust, m_cr_probe, m_cr_byte.
    assert (Hdata : data = pre ++ (tbody c ++ tsuf c) ++ 10 :: (flatten (map raw cs) ++ post)).
    { unfold data. cbn [map]. rewrite flatten_cons. unfold raw at 1 2. cbn [fst snd]. rewrite Ha. simpl app. rewrite <- !app_assoc. reflexivity. }
    pose proof (len_nonneg pre) as Lp. pose proof (len_nonneg (tbody c)) as Lb.
    destruct Hs as [Es|Es]; rewrite Es in *.
    + rewrite ?app_nil_r in *.
      destruct (tbody c) as [|b0 body] eqn:Eb.
      * (* empty line without CR: the byte before is the previous line break *)
        rewrite len_nil, Z.add_0_r. destruct pre as [|p0 pre'] eqn:Ep; [exfalso; apply (Hpre0 eq_refl); reflexivity|].
        assert (Hne : p0 :: pre' <> []) by discriminate.
        destruct (exists_last Hne) as [q' [x Ex]]. rewrite Ex in *.
        assert (Hx : x <> 13) by (intro E; apply (Hpre Hne); rewrite last_app_single; exact E).
        rewrite py_get_nonneg by (rewrite len_app, len_single; pose proof (len_nonneg q'); lia).
        rewrite Hdata.
        replace ((q' ++ [x]) ++ [] ++ 10 :: flatten (map raw cs) ++ post) with (q' ++ x :: (10 :: flatten (map raw cs) ++ post))
          by (rewrite <- !app_assoc; reflexivity).
        replace (len (q' ++ [x]) - 1) with (len q') by (rewrite len_app, len_single; lia).
        rewrite nthZ_mid. destruct (Z.eqb_spec x 13) as [E|_]; [congruence|]. lia.
      * assert (Hne : b0 :: body <> []) by discriminate.
        destruct (exists_last Hne) as [b' [x Ex]]. rewrite Ex in *.
        rewrite py_get_nonneg by (rewrite len_app, len_single; pose proof (len_nonneg b'); lia).
        rewrite Hdata.
        replace (pre ++ (b' ++ [x]) ++ 10 :: flatten (map raw cs) ++ post) with ((pre ++ b') ++ x :: (10 :: flatten (map raw cs) ++ post))
          by (rewrite <- !app_assoc; reflexivity).
        replace (len pre + len (b' ++ [x]) - 1) with (len (pre ++ b')) by (rewrite !len_app, len_single; lia).
        rewrite nthZ_mid.
        assert (Hin : In x (b' ++ [x])) by (apply in_or_app; right; left; reflexivity).
        destruct (Z.eqb_spec x 13) as [E|_]; [exfalso; exact (proj2 (Hb x Hin) E)|]. lia.
    + rewrite py_get_nonneg by (rewrite len_app, len_single; lia).
      rewrite Hdata.
      replace (pre ++ (tbody c ++ [13]) ++ 10 :: flatten (map raw cs) ++ post) with ((pre ++ tbody c) ++ 13 :: (10 :: flatten (map raw cs) ++ post))
        by (rewrite <- !app_assoc; reflexivity).
      replace (len pre + len (tbody c ++ [13]) - 1) with (len (pre ++ tbody c)) by (rewrite !len_app, len_single; lia).
      rewrite nthZ_mid. rewrite Z.eqb_refl. rewrite len_app, len_single. lia.
  - specialize (IH (pre ++ fst (raw c) ++ [10]) post (fun q Hq => H q (or_intror Hq))).
    replace (len (pre ++ fst (raw c) ++ [10])) with (len pre + len (fst (raw c)) + 1) in IH by (rewrite !len_app, len_single; lia).
    replace ((pre ++ fst (raw c) ++ [10]) ++ flatten (map raw cs) ++ post) with data in IH
      by (unfold data; cbn [map]; rewrite flatten_cons; cbn [snd raw]; rewrite <- !app_assoc; reflexivity).
    apply IH.
    + intros E. exfalso. apply app_eq_nil in E. destruct E as [_ E]. apply app_eq_nil in E. destruct E as [_ E]. discriminate.
    + intros _. rewrite app_assoc, last_app_single. discriminate.
Qed.

Lemma map_fst_combine {A B} (a : list A) : forall (b : list B), length a = length b -> map fst (combine a b) = a.
Proof. induction a as [|x a IH]; intros b H; [reflexivity|]. destruct b; [discriminate|]. simpl. f_equal. apply IH. simpl in H. lia. Qed.

Definition sline_cell (p : list Z * list Z) : tcell := (@nil Z, fst p, snd p).

(* fasta_cols on a file whose line k ends with (nth k sufs) ++ LF *)
Theorem fasta_cols_correct_sufs : forall (recs : list fa_rec) (sufs : list (list Z)),
  recs <> [] ->
  (forall r, In r recs -> line_clean (fst r) /\ forall l, In l (snd r) -> line_clean l /\ hd0 l <> 62) ->
  length sufs = length (all_lines recs) -> (forall s, In s sufs -> suf_ok s) ->
  ((forall s, In s sufs -> s = []) \/ hd [] sufs = [13]) ->
  fasta_cols (flatten (map raw (map sline_cell (combine (all_lines recs) sufs))))
  = Some (len recs, [Col (map (fun r => CBytes (fst r)) recs); Col (map (fun r => CBytes (concat (snd r))) recs)]).
Proof.
  intros recs sufs Hne H Hslen Hsok Hcase.
  assert (Hseq : forall r, In r recs -> seq_ok r).
  { intros r Hr l Hl. destruct (H r Hr) as [_ Hs]. destruct (Hs l Hl) as [_ Hh]. unfold isH. apply Z.eqb_neq. exact Hh. }
  set (ls := all_lines recs) in *.
  set (tcs := map sline_cell (combine ls sufs)).
  set (cells := map raw tcs).
  set (file := flatten cells).
  assert (Hbody : map tbody tcs = ls).
  { unfold tcs. rewrite map_map. unfold sline_cell, tbody. cbn [fst snd]. apply map_fst_combine. symmetry. exact Hslen. }
  assert (Hlen_cells : length cells = length ls).
  { unfold cells, tcs. rewrite !map_length, combine_length, Hslen. apply Nat.min_id. }
  assert (Hls : exists n rest, ls = (62 :: n) :: rest).
  { unfold ls. destruct recs as [|r0 rs]; [congruence|]. rewrite all_lines_cons. eauto. }
  assert (Hlsne : ls <> []) by (destruct Hls as [n [rest E]]; rewrite E; discriminate).
  assert (Hcne : cells <> []) by (intro E; rewrite E in Hlen_cells; destruct ls; [congruence|discriminate]).
  assert (Hclean : forall l, In l ls -> line_clean l).
  { intros l Hl. unfold ls, all_lines in Hl. apply in_concat in Hl. destruct Hl as [x [Hx Hl]]. apply in_map_iff in Hx.
    destruct Hx as [r [E Hr]]. subst x. destruct (H r Hr) as [Hn Hs]. destruct Hl as [E|Hl].
    - subst l. intros c [E|Hc]; [subst c; split; discriminate|exact (Hn c Hc)].
    - exact (proj1 (Hs l Hl)). }
  assert (Htc_in : forall c, In c tcs -> ta c = [] /\ In (tbody c) ls /\ In (tsuf c) sufs).
  { intros c Hc. unfold tcs in Hc. apply in_map_iff in Hc. destruct Hc as [q [E Hq]]. subst c. unfold sline_cell, ta, tbody, tsuf. cbn [fst snd].
    destruct q as [l s]. split; [reflexivity|]. split; [exact (in_combine_l _ _ _ _ Hq)|exact (in_combine_r _ _ _ _ Hq)]. }
  assert (Hcell_in : forall p, In p cells -> exists l s, In l ls /\ In s sufs /\ p = (l ++ s, 10)).
  { intros p Hp. unfold cells in Hp. apply in_map_iff in Hp. destruct Hp as [c [E Hc]]. destruct (Htc_in c Hc) as [A [B C]].
    exists (tbody c), (tsuf c). split; [exact B|]. split; [exact C|]. subst p. unfold raw. rewrite A. reflexivity. }
  assert (Hsuf13 : forall s c, In s sufs -> In c s -> c = 13).
  { intros s c Hs Hc. destruct (Hsok s Hs) as [E|E]; rewrite E in Hc; [contradiction|]. destruct Hc as [E'|[]]. auto. }
  assert (Hcellok : forall p, In p cells -> ~ In 10 (fst p) /\ snd p = 10).
  { intros p Hp. destruct (Hcell_in p Hp) as [l [s [Hl [Hs E]]]]. subst p. cbn [fst snd]. split; [|reflexivity]. intro Hin.
    apply in_app_or in Hin. destruct Hin as [Hin|Hin]; [exact (proj1 (Hclean l Hl 10 Hin) eq_refl)|].
    apply (Hsuf13 s 10 Hs) in Hin. discriminate. }
  assert (Hpos : positions 10 file = dpos 0 cells) by (unfold positions, flatnonzero; apply nl_positions_cells; exact Hcellok).
  set (D := dpos 0 cells) in *.
  assert (HDlen : len D = len ls) by (unfold len, D; rewrite dpos_length, Hlen_cells; reflexivity).
  assert (HDne : D <> []) by (intro E; rewrite E in HDlen; unfold len in HDlen; destruct ls; [congruence|simpl in HDlen; lia]).
  assert (HDlast : last D 0 = len file - 1) by (unfold D; rewrite dpos_last by exact Hcne; unfold file; lia).
  assert (Hfirst : nthZ (file ++ [62]) 0 = 62).
  { destruct Hls as [n [rest E]]. unfold file, cells, tcs. rewrite E. destruct sufs as [|s0 sr]; [rewrite E in Hslen; discriminate|]. reflexivity. }
  assert (Hnext : map (fun p => nthZ (file ++ [62]) (m_fa_next p) =? 62) D = tl (map isH ls) ++ [true]).
  { rewrite <- (map_map m_fa_next (fun q => nthZ (file ++ [62]) q =? 62)). unfold D. rewrite dpos_succ by exact Hcne.
    rewrite map_app, map_tl. f_equal.
    - f_equal. pose proof (starts_bytes cells [] [62]) as S. change (len (@nil Z)) with 0 in S.
      change ([] ++ flatten cells ++ [62]) with (file ++ [62]) in S.
      rewrite <- (map_map (nthZ (file ++ [62])) (fun x => x =? 62)). rewrite S. rewrite map_map.
      rewrite <- Hbody. unfold cells. rewrite !map_map. apply map_ext_in. intros c Hc. destruct (Htc_in c Hc) as [A [_ C]].
      unfold raw, isH. cbn [fst snd]. rewrite A. simpl app.
      destruct (tbody c) as [|x l]; [|reflexivity]. simpl app. destruct (Hsok _ C) as [E|E]; rewrite E; reflexivity.
    - simpl map. f_equal. change (flatten cells) with file. rewrite (nthZ_mid file 62 []). reflexivity. }
  set (N := flatnonzero_from 0 (tl (map isH ls))).
  assert (Hne' : flatnonzero_from 0 (tl (map isH ls) ++ [true]) = N ++ [len ls - 1]).
  { rewrite flatnonzero_from_app. fold N. f_equal. simpl. f_equal. rewrite <- map_tl, len_map.
    destruct Hls as [n [rest E]]. rewrite E. simpl tl. rewrite len_cons. lia. }
  assert (HnthD : nthZ D (len ls - 1) = len file - 1) by (rewrite <- HDlen, nthZ_last by exact HDne; exact HDlast).
  assert (HNL : firstn (Z.to_nat (len ls - 1)) D = removelast D).
  { rewrite removelast_firstn_len. f_equal. unfold len in *. lia. }
  set (NL := removelast D) in *.
  assert (HLS : 0 :: map m_fa_line_start NL = spos 0 cells).
  { unfold NL. change m_fa_line_start with m_fa_next. rewrite map_removelast. unfold D. rewrite dpos_succ by exact Hcne.
    rewrite removelast_app_single. clear -Hcne. destruct cells; [congruence|reflexivity]. }
  assert (HLE : NL ++ [m_fa_last_end (len file)] = D).
  { unfold NL, m_fa_last_end. rewrite <- HDlast. apply removelast_last. exact HDne. }
  assert (HCR : (if existsb (fun e => py_get file (m_cr_probe e) =? m_cr_byte) (firstn (Z.to_nat m_fa_cr_window) D)
                 then map (fun e => m_cr_adjust e (py_get file (m_cr_probe e))) D else D) = tepos 0 tcs).
  { destruct Hcase as [Hall|Hhd].
    - (* no CR anywhere *)
      replace (existsb (fun e => py_get file (m_cr_probe e) =? m_cr_byte) (firstn (Z.to_nat m_fa_cr_window) D)) with false.
      2:{ symmetry. apply Bool.not_true_is_false. intro E. apply existsb_exists in E. destruct E as [e [_ E]]. apply Z.eqb_eq in E.
          unfold m_cr_byte in E. destruct (py_get_in file (m_cr_probe e)) as [Hin|E0]; [|rewrite E0 in E; discriminate].
          rewrite E in Hin. apply in_flatten in Hin. destruct Hin as [p [Hp [Hin|Hin]]].
          - destruct (Hcell_in p Hp) as [l [s [Hl [Hs Ep]]]]. subst p. cbn [fst] in Hin. rewrite (Hall s Hs), app_nil_r in Hin.
            exact (proj2 (Hclean l Hl 13 Hin) eq_refl).
          - destruct (Hcellok p Hp) as [_ E1]. rewrite E1 in Hin. discriminate. }
      rewrite <- (tepos_row [] 0 tcs) by (intros c Hc; destruct (Htc_in c Hc) as [_ [_ C]]; exact (Hall _ C)).
      fold cells. fold D. rewrite <- (map_id D) at 1. apply map_ext. intros x. unfold len. simpl. lia.
    - (* the first line carries a CR *)
      pose proof (adj_cells tcs [] []) as AC. change (len (@nil Z)) with 0 in AC. simpl app in AC. rewrite app_nil_r in AC.
      fold cells in AC. fold file in AC. fold D in AC.
      assert (Htc0 : exists c0 rest, tcs = c0 :: rest /\ tsuf c0 = [13]).
      { unfold tcs. destruct Hls as [n [rest E]]. rewrite E. destruct sufs as [|s0 sr]; [rewrite E in Hslen; discriminate|].
        simpl in Hhd. subst s0. simpl. eexists. eexists. split; reflexivity. }
      destruct Htc0 as [c0 [rest0 [Etc Es0]]].
      assert (HAC : map (fun e => m_cr_adjust e (py_get file (m_cr_probe e))) D = tepos 0 tcs).
      { apply AC.
        - intros c Hc. destruct (Htc_in c Hc) as [A [B C]]. split; [exact A|]. split; [apply Hclean; exact B|apply Hsok; exact C].
        - intros _. rewrite Etc. rewrite Es0. destruct (tbody c0); discriminate.
        - intros E. congruence. }
      replace (existsb (fun e => py_get file (m_cr_probe e) =? m_cr_byte) (firstn (Z.to_nat m_fa_cr_window) D)) with true; [exact HAC|].
      symmetry. apply existsb_exists.
      assert (Ecells : cells = raw c0 :: map raw rest0) by (unfold cells; rewrite Etc; reflexivity).
      exists (0 + len (fst (raw c0))). split.
      + unfold D. rewrite Ecells. simpl. left. reflexivity.
      + destruct (Htc_in c0 ltac:(rewrite Etc; left; reflexivity)) as [A0 _].
        unfold raw. cbn [fst]. rewrite A0, Es0. simpl app. unfold m_cr_probe, m_cr_byte.
        rewrite py_get_nonneg by (rewrite len_app, len_single; pose proof (len_nonneg (tbody c0)); lia).
        unfold file. rewrite Ecells, flatten_cons. unfold raw at 1 2. cbn [fst snd]. rewrite A0, Es0. simpl app.
        replace ((tbody c0 ++ [13]) ++ 10 :: flatten (map raw rest0)) with (tbody c0 ++ 13 :: (10 :: flatten (map raw rest0)))
          by (rewrite <- !app_assoc; reflexivity).
        replace (0 + len (tbody c0 ++ [13]) - 1) with (len (tbody c0)) by (rewrite len_app, len_single; lia).
        rewrite nthZ_mid. reflexivity. }
  assert (HL : map (text_at file) (combine (spos 0 cells) (tepos 0 tcs)) = ls).
  { pose proof (trimmed_texts tcs [] []) as T. change (len (@nil Z)) with 0 in T.
    rewrite (tspos_plain 0 tcs) in T by (intros c Hc; apply (Htc_in c Hc)).
    rewrite app_nil_r in T. transitivity (map tbody tcs); [exact T|exact Hbody]. }
  assert (Hhdr : 0 :: map m_fa_entry_line N = hpos 0 recs).
  { rewrite <- (hpos_fnz recs 0 Hseq). fold ls. destruct Hls as [n [rest E]]. unfold N. rewrite E. simpl map. simpl tl.
    simpl flatnonzero_from. change (isH (62 :: n)) with true. cbv iota. simpl app. f_equal.
    change m_fa_entry_line with (fun x => x + 1). rewrite fnz_shift. reflexivity. }
  assert (Htot : m_fa_total (len NL) = 0 + len ls).
  { unfold m_fa_total, NL. rewrite <- HDlen. destruct (exists_last HDne) as [D' [x E]]. rewrite E, removelast_app_single, len_app, len_single. lia. }
  unfold fasta_cols. cbv zeta. fold tcs. fold cells. fold file. rewrite Hfirst. change (negb (62 =? 62)) with false. cbv iota.
  rewrite removelast_app_single, Hpos. fold D. rewrite Hnext. unfold flatnonzero. rewrite Hne', rev_unit. cbv beta iota.
  rewrite removelast_app_single, HnthD.
  replace (m_fa_cut (len file - 1)) with (len file) by (unfold m_fa_cut; lia).
  replace (firstn (Z.to_nat (len file)) (file ++ [62])) with file by (unfold len; rewrite Nat2Z.id, firstn_length_app; reflexivity).
  rewrite HNL, HLS, HLE, HCR, HL, Hhdr, Htot.
  unfold ls. rewrite (hpos_counts recs 0).
  change (Z.to_nat m_fa_name_from) with 1%nat.
  pose proof (hpos_headers recs []) as HH. change (len (@nil (list Z))) with 0 in HH.
  change ([] ++ all_lines recs) with (all_lines recs) in HH. rewrite HH.
  replace (arange (len (all_lines recs))) with (arange_from 0 (length (all_lines recs))) by (unfold arange, len; rewrite Nat2Z.id; reflexivity).
  rewrite <- (hpos_fnz recs 0 Hseq). pose proof (filter_fnz (all_lines recs) 0 [] ltac:(intros x [])) as HF.
  change ([] ++ flatnonzero_from 0 (map isH (all_lines recs))) with (flatnonzero_from 0 (map isH (all_lines recs))) in HF. rewrite HF.
  rewrite (filter_seq recs Hseq), group_by_concat, hpos_fnz by exact Hseq.
  unfold len. rewrite hpos_length, !map_map. reflexivity.
Qed.

(* ---------- the Spec's file for every (crlf, final) ---------- *)
Lemma lay_snoc e ls l : lay e (ls ++ [l]) = lay e ls ++ l ++ e.
Proof. rewrite lay_app. unfold lay at 2. simpl. rewrite app_nil_r. reflexivity. Qed.
Lemma flatten_crlf_lines ls : flatten (map raw (map sline_cell (combine ls (repeat [13] (length ls))))) = lay [13; 10] ls.
Proof.
  induction ls as [|l ls IH]; [reflexivity|]. simpl length. simpl repeat. simpl combine. rewrite !map_cons, flatten_cons, IH.
  change (lay [13; 10] (l :: ls)) with ((l ++ [13; 10]) ++ lay [13; 10] ls).
  unfold raw, sline_cell, ta, tbody, tsuf. cbn [fst snd]. simpl app. rewrite <- !app_assoc. reflexivity.
Qed.
Lemma wrapped_hyps w recs : 
  (forall r, In r recs -> line_clean (field r 0) /\ line_clean (field r 1) /\ ~ In 62 (field r 1)) ->
  forall r', In r' (map (fa_of w) recs) -> line_clean (fst r') /\ forall l, In l (snd r') -> line_clean l /\ hd0 l <> 62.
Proof.
  intros H r' Hr'. apply in_map_iff in Hr'. destruct Hr' as [r [E Hr]]. subst r'. destruct (H r Hr) as [Hn [Hs H62]].
  unfold fa_of. cbn [fst snd]. split; [exact Hn|]. intros l Hl. unfold chunks_of in Hl. split.
  - intros c Hc. apply Hs. exact (chunks_fuel_in _ _ _ _ _ Hl Hc).
  - destruct l as [|c l]; [discriminate|]. simpl. intro E. subst c. apply H62.
    exact (chunks_fuel_in _ _ _ _ 62 Hl (or_introl eq_refl)).
Qed.
Lemma wrapped_cols w recs : 1 <= w ->
  [Col (map (fun r => CBytes (fst r)) (map (fa_of w) recs)); Col (map (fun r => CBytes (concat (snd r))) (map (fa_of w) recs))]
  = spec_cols Ffasta None recs.
Proof.
  intros Hw. unfold spec_cols. cbn [schema has_geno has_geno2 map app]. unfold spec_col. cbn [fst snd spec_cell].
  rewrite !mapM_some, !map_map. f_equal. f_equal. f_equal. apply map_ext_in. intros r Hr. unfold fa_of. cbn [snd]. f_equal.
  unfold chunks_of. apply chunks_fuel_concat; lia.
Qed.

(* wrapped FASTA, every layout the Spec produces: LF or CRLF, with or without the final line break *)
Theorem fasta_spec_file_end_to_end : forall (crlf final : bool) (w : Z) (recs : list (list (list Z))),
  1 <= w -> recs <> [] ->
  (forall r, In r recs -> line_clean (field r 0) /\ line_clean (field r 1) /\ ~ In 62 (field r 1)) ->
  run Ffasta None (spec_file Ffasta w crlf final [] recs []) = Obs (len recs) (spec_cols Ffasta None recs) true.
Proof.
  intros crlf final w recs Hw Hne H. unfold spec_file. simpl app.
  destruct (final || negb crlf) eqn:Ef.
  - apply fasta_wrapped_end_to_end; assumption.
  - assert (crlf = true) by (destruct crlf; [reflexivity|rewrite orb_true_r in Ef; discriminate]). subst crlf.
    assert (Hbody : body_lines Ffasta w recs [] = all_lines (map (fa_of w) recs)).
    { rewrite body_lines_nocomments. unfold all_lines. rewrite map_map. reflexivity. }
    rewrite Hbody. set (frecs := map (fa_of w) recs).
    assert (Hfne : frecs <> []) by (unfold frecs; destruct recs; [congruence|discriminate]).
    assert (Hlne : all_lines frecs <> []) by (destruct frecs as [|r0 rs]; [congruence|rewrite all_lines_cons; discriminate]).
    destruct (exists_last Hlne) as [ls' [l El]].
    set (sufs := repeat [13] (length ls') ++ [[]]).
    assert (Hfile : firstn (length (lay (eol_of true) (all_lines frecs)) - 2) (lay (eol_of true) (all_lines frecs)) ++ [10]
                    = flatten (map raw (map sline_cell (combine (all_lines frecs) sufs)))).
    { rewrite El. unfold sufs. rewrite combine_app' by (rewrite repeat_length; reflexivity).
      rewrite !map_app, flatten_app, flatten_crlf_lines. simpl combine. simpl map.
      change (flatten [raw (sline_cell (l, []))]) with ((([] ++ l ++ []) ++ [10]) ++ []). simpl app. rewrite !app_nil_r.
      change (eol_of true) with [13; 10]. rewrite lay_snoc.
      replace (lay [13; 10] ls' ++ l ++ [13; 10]) with ((lay [13; 10] ls' ++ l) ++ [13; 10]) by (rewrite <- app_assoc; reflexivity).
      set (A := lay [13; 10] ls' ++ l). rewrite app_length. simpl length. replace (length A + 2 - 2)%nat with (length A) by lia.
      rewrite firstn_length_app. unfold A. rewrite <- app_assoc. reflexivity. }
    rewrite Hfile. unfold run. cbn [comment_byte]. unfold skip_header. change (0 =? 0) with true. cbv iota.
    rewrite (fasta_cols_correct_sufs frecs sufs Hfne (wrapped_hyps w recs H)).
    + cbn [existsb is_err orb]. unfold frecs. rewrite len_map, wrapped_cols by exact Hw. reflexivity.
    + unfold sufs. rewrite El, !app_length, repeat_length. reflexivity.
    + intros s Hs. unfold sufs in Hs. apply in_app_or in Hs. destruct Hs as [Hs|[E|[]]]; [apply repeat_spec in Hs; right; exact Hs|left; auto].
    + unfold sufs. destruct ls' as [|l0 ls'']; [left; intros s [E|[]]; auto|right; reflexivity].
Qed.

(* Proofs/C01.v — the chunked reader delivers exactly the bytes of the file: invariant over reads. *)
From Coq Require Import ZArith List Bool Arith Lia.
From BNP Require Import Base.Prims Base.PrimsFacts Model.C01.
Import ListNotations.

(* ---------- list facts ---------- *)
Lemma firstn_nil_inv {A} (k : nat) (X : list A) : (1 <= k)%nat -> firstn k X = [] -> X = [].
Proof. intros Hk H. destruct X; [reflexivity|]. destruct k; [lia|]. simpl in H. discriminate. Qed.
Lemma firstn_len_firstn {A} (k : nat) (X : list A) : firstn (length (firstn k X)) X = firstn k X.
Proof.
  rewrite firstn_length. destruct (Nat.le_ge_cases k (length X)) as [H|H].
  - rewrite Nat.min_l by assumption. reflexivity.
  - rewrite Nat.min_r by assumption. rewrite firstn_all. symmetry. apply firstn_all2. assumption.
Qed.
Lemma firstn_add_split {A} (a b : nat) (X : list A) : firstn (a + b) X = firstn a X ++ firstn b (skipn a X).
Proof.
  revert X. induction a as [|a IH]; intros X; [reflexivity|].
  destruct X as [|x X]; [simpl; rewrite firstn_nil; reflexivity|]. simpl. f_equal. apply IH.
Qed.
Lemma skipn_add {A} (a b : nat) (l : list A) : skipn (a + b) l = skipn b (skipn a l).
Proof. rewrite Nat.add_comm. symmetry. apply skipn_skipn'. Qed.
Lemma short_read_exhausts {A} (k : nat) (X : list A) :
  (length (firstn k X) < k)%nat -> skipn (length (firstn k X)) X = [].
Proof. intros H. rewrite firstn_length in *. apply skipn_all2. lia. Qed.
Lemma firstn_covers {A} (n : nat) (X : list A) : skipn n X = [] -> firstn n X = X.
Proof. intros H. rewrite <- (firstn_skipn n X) at 2. rewrite H, app_nil_r. reflexivity. Qed.

Lemma add_term_app f c : add_term f c = c ++ terminator f c.
Proof. unfold add_term, terminator. destruct (last c 0 =? 10)%Z; rewrite <- ?app_assoc; reflexivity. Qed.

(* ---------- one call of the accumulation loop ---------- *)
Definition acc_post (file : list Z) (pos : nat) (base : list Z) (r : accres) : Prop :=
  match r with
  | AComplete temp' pos' fin app' =>
      (pos <= pos')%nat /\ (pos' - pos <= length (skipn pos file))%nat
      /\ concat temp' = base ++ firstn (pos' - pos) (skipn pos file) ++ app'
      /\ (fin = false -> app' = []) /\ (fin = true -> skipn pos' file = [])
  | ANone pending app' =>
      exists pos', (pos <= pos')%nat
      /\ pending = base ++ firstn (pos' - pos) (skipn pos file) ++ app' /\ skipn pos' file = []
  | _ => True
  end.

Lemma accumulate_spec fixed f k file l0 : (1 <= k)%nat ->
  forall fuel pos temp re app base,
    concat temp = base ++ app -> (app = [] \/ skipn pos file = []) ->
    acc_post file pos base (accumulate fixed fuel f k file l0 pos temp re app).
Proof.
  intros Hk. induction fuel as [|fuel IH]; intros pos temp re app base Hc Hpre; [exact I|].
  cbn [accumulate]. unfold m_is_finished, m_reported, m_lines_after, m_oneline_incomplete, m_oneline_kept, m_size_after, m_header_line, m_plus_line in *.
  destruct (firstn k (skipn pos file)) as [|x r] eqn:Eraw.
  - (* nothing left to read *)
    assert (HX : skipn pos file = []) by (apply (firstn_nil_inv k); assumption).
    cbn [length]. rewrite Nat.add_0_r.
    destruct (negb fixed || re || match temp with [] => true | _ => false end).
    + exists pos. rewrite Nat.sub_diag. cbn [firstn]. repeat split; [lia|exact Hc|exact HX].
    + assert (Hc' : concat [add_term f (concat temp)] = base ++ app ++ terminator f (concat temp)).
      { cbn [concat]. rewrite app_nil_r, add_term_app, Hc, <- app_assoc. reflexivity. }
      destruct (complete f [add_term f (concat temp)]).
      * cbn [acc_post]. rewrite Nat.sub_diag. cbn [firstn List.app].
        repeat split; [lia|lia|exact Hc'|discriminate|intros _; exact HX].
      * apply IH; [exact Hc'|right; exact HX].
      * exact I.
  - (* a non-empty raw read: nothing can have been appended yet *)
    assert (Happ : app = []).
    { destruct Hpre as [H|H]; [exact H|]. rewrite H in Eraw. rewrite firstn_nil in Eraw. discriminate. }
    subst app. rewrite app_nil_r in Hc.
    set (raw := x :: r) in *.
    assert (Hraw : firstn (length raw) (skipn pos file) = raw).
    { rewrite <- Eraw. apply firstn_len_firstn. }
    assert (Hlen : (length raw <= length (skipn pos file))%nat).
    { rewrite <- Eraw. rewrite firstn_length. lia. }
    set (fin := (length raw <? k)%nat).
    assert (Hfin : fin = true -> skipn (pos + length raw) file = []).
    { intros Hf. unfold fin in Hf. apply Nat.ltb_lt in Hf. rewrite skipn_add.
      rewrite <- Eraw in *. apply short_read_exhausts. exact Hf. }
    set (chunk := if fin then add_term f raw else raw).
    set (app' := if fin then [] ++ terminator f raw else []).
    assert (Hchunk : chunk = raw ++ app').
    { unfold chunk, app'. destruct fin; [rewrite add_term_app; reflexivity|rewrite app_nil_r; reflexivity]. }
    assert (Hc' : concat (temp ++ [chunk]) = (base ++ raw) ++ app').
    { rewrite concat_app. cbn [concat]. rewrite app_nil_r, Hc, Hchunk, app_assoc. reflexivity. }
    destruct (complete f (temp ++ [chunk])).
    + cbn [acc_post]. replace (pos + length raw - pos)%nat with (length raw) by lia. rewrite Hraw.
      repeat split; [lia|exact Hlen|rewrite Hc', <- app_assoc; reflexivity| |exact Hfin].
      intros Hf. unfold app'. rewrite Hf. reflexivity.
    + assert (Hpre' : app' = [] \/ skipn (pos + length raw) file = []).
      { destruct fin eqn:Ef; [right; apply Hfin; reflexivity|left; unfold app'; reflexivity]. }
      specialize (IH (pos + length raw)%nat (temp ++ [chunk]) re app' (base ++ raw) Hc' Hpre').
      destruct (accumulate fixed fuel f k file l0 (pos + length raw) (temp ++ [chunk]) re app') as [t p' fn a|pend a| |];
        cbn [acc_post] in *; try exact I.
      * destruct IH as (Hle & Hle2 & Hcc & Hf1 & Hf2).
        rewrite skipn_add in Hcc, Hle2. rewrite skipn_length in Hle2.
        repeat split; [lia|lia| |exact Hf1|exact Hf2].
        rewrite Hcc. replace (p' - pos)%nat with (length raw + (p' - (pos + length raw)))%nat by lia.
        rewrite firstn_add_split, Hraw. rewrite <- !app_assoc. reflexivity.
      * destruct IH as (p' & Hle & Hp & Hs). exists p'. rewrite skipn_add in Hp.
        repeat split; [lia| |exact Hs].
        rewrite Hp. replace (p' - pos)%nat with (length raw + (p' - (pos + length raw)))%nat by lia.
        rewrite firstn_add_split, Hraw. rewrite <- !app_assoc. reflexivity.
    + exact I.
Qed.

(* ---------- one read_chunk call preserves the delivery invariant ---------- *)
Definition Inv (m : mode) (file : list Z) (st : rstate) (delivered : list (list Z)) : Prop :=
  concat delivered ++ r_prepend st ++ skipn (r_pos st) file = file /\ (m = Seek -> r_prepend st = []).

Lemma concat_snoc {A} (D : list (list A)) b : concat (D ++ [b]) = concat D ++ b.
Proof. rewrite concat_app. cbn. rewrite app_nil_r. reflexivity. Qed.

Lemma read_chunk_spec fixed f m k file st D : (1 <= k)%nat -> Inv m file st D ->
  match read_chunk fixed f m k file st with
  | RChunk b dropped app st' =>
      (r_finished st' = false -> Inv m file st' (D ++ [b]) /\ dropped = [] /\ app = [])
      /\ (r_finished st' = true -> concat D ++ b ++ dropped = file ++ app)
  | RNone dropped app st' => concat D ++ dropped = file ++ app
  | _ => True
  end.
Proof.
  intros Hk [HI Hseek]. unfold read_chunk. unfold m_is_finished, m_reported, m_lines_after, m_incomplete_line, m_pending_incomplete_line, m_oneline_incomplete, m_oneline_kept, m_size_after, m_header_line, m_plus_line in *.
  set (temp0 := match r_prepend st with [] => [] | p => [p] end).
  assert (Ht0 : concat temp0 = r_prepend st ++ []).
  { unfold temp0. destruct (r_prepend st); [reflexivity|]. cbn [concat]. reflexivity. }
  pose proof (accumulate_spec fixed f k file (r_lines st) Hk (length file + 2) (r_pos st) temp0 false [] (r_prepend st) Ht0 (or_introl eq_refl)) as HA.
  destruct (accumulate fixed (length file + 2) f k file (r_lines st) (r_pos st) temp0 false []) as [temp pos' fin app|pending app|l|];
    cbn [acc_post] in HA; try exact I.
  - destruct HA as (Hle & Hle2 & Hcc & Hf1 & Hf2).
    set (X := skipn (r_pos st) file) in *.
    set (n := (pos' - r_pos st)%nat) in *.
    assert (HsX : skipn pos' file = skipn n X).
    { unfold X, n. rewrite skipn_skipn'. f_equal. lia. }
    destruct (cut f (concat temp)) as [size nl| | |l]; try exact I.
    set (chunk := concat temp) in *.
    destruct fin.
    + (* end of file reached in this call *)
      destruct (fixed && true && negb (leftover_ok f (skipn size chunk))); [exact I|].
      cbn [r_finished]. split; [discriminate|intros _].
      rewrite (firstn_skipn size chunk).
      rewrite Hcc. rewrite (firstn_covers n X) by (rewrite <- HsX; apply Hf2; reflexivity).
      rewrite <- HI. rewrite <- !app_assoc. reflexivity.
    + specialize (Hf1 eq_refl). subst app. rewrite app_nil_r in Hcc.
      rewrite andb_false_r. cbn [andb].
      destruct m; cbn [r_finished]; (split; [intros _|discriminate]).
      * (* seek mode: rewind by the length of the unconsumed tail *)
        rewrite (Hseek eq_refl) in *. cbn [List.app] in Hcc, HI.
        split; [|split; reflexivity]. split; [|intros _; reflexivity].
        cbn [r_prepend r_pos List.app]. rewrite concat_snoc.
        assert (Hclen : length chunk = n).
        { rewrite Hcc, firstn_length. unfold n in *. lia. }
        assert (Hrest : (length (skipn size chunk) <= n)%nat) by (rewrite skipn_length; lia).
        replace (skipn (pos' - length (skipn size chunk)) file)
          with (skipn (n - length (skipn size chunk)) X)
          by (unfold X; rewrite skipn_skipn'; f_equal; unfold n in *; lia).
        rewrite <- HI. rewrite <- app_assoc. f_equal.
        fold X. destruct (Nat.le_gt_cases size n) as [Hs|Hs].
        -- rewrite skipn_length, Hclen. replace (n - (n - size))%nat with size by lia.
           rewrite Hcc. rewrite firstn_firstn, Nat.min_l by assumption. apply firstn_skipn.
        -- rewrite (skipn_all2 chunk (n:=size)) by lia. cbn [length]. rewrite Nat.sub_0_r.
           rewrite (firstn_all2 chunk (n:=size)) by lia. rewrite Hcc. apply firstn_skipn.
      * (* prepend mode: keep the unconsumed tail *)
        split; [|split; reflexivity]. split; [|discriminate].
        cbn [r_prepend r_pos]. rewrite concat_snoc. rewrite <- app_assoc, (app_assoc (firstn size chunk)), firstn_skipn.
        rewrite Hcc, HsX. rewrite <- app_assoc, firstn_skipn. exact HI.
  - destruct HA as (p' & Hle & Hp & Hs).
    destruct (fixed && negb (leftover_ok f pending)); [exact I|].
    set (X := skipn (r_pos st) file) in *.
    rewrite Hp. rewrite (firstn_covers (p' - r_pos st) X).
    + rewrite <- HI. rewrite <- !app_assoc. reflexivity.
    + unfold X. rewrite skipn_skipn'. replace (p' - r_pos st + r_pos st)%nat with p' by lia. exact Hs.
Qed.

(* ---------- the whole stream ---------- *)
Lemma read_chunks_loop_spec fixed f m k file : (1 <= k)%nat ->
  forall fuel st acc chunks dropped app lines,
    r_finished st = false -> Inv m file st (rev acc) ->
    read_chunks_loop fixed fuel f m k file st acc = Done chunks dropped app lines ->
    concat chunks ++ dropped = file ++ app.
Proof.
  intros Hk. induction fuel as [|fuel IH]; intros st acc chunks dropped app lines Hnf HI Hrun; [discriminate|].
  cbn [read_chunks_loop] in Hrun. rewrite Hnf in Hrun.
  pose proof (read_chunk_spec fixed f m k file st (rev acc) Hk HI) as HS.
  destruct (read_chunk fixed f m k file st) as [b d a st'|d a st'|l| |]; try discriminate.
  - destruct HS as [HS1 HS2]. destruct (r_finished st') eqn:Ef.
    + injection Hrun as <- <- <- _. cbn [rev]. rewrite concat_snoc, <- app_assoc. apply HS2. reflexivity.
    + destruct (HS1 eq_refl) as (HI' & _ & _).
      apply (IH st' (b :: acc) chunks dropped app lines Ef); [|exact Hrun]. cbn [rev]. exact HI'.
  - injection Hrun as <- <- <- _. exact HS.
Qed.

Theorem read_chunks_delivers_file fixed f m k file chunks dropped app lines :
  (1 <= k)%nat ->
  read_chunks fixed f m k file = Done chunks dropped app lines ->
  concat chunks ++ dropped = file ++ app.
Proof.
  intros Hk Hrun. unfold read_chunks in Hrun.
  apply (read_chunks_loop_spec fixed f m k file Hk (length file + 2) rinit [] chunks dropped app lines); [reflexivity| |exact Hrun].
  split; [reflexivity|reflexivity].
Qed.

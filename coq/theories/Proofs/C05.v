(* Proofs/C05.v — the lazy three-store state machine refines the eager row table. *)
From Coq Require Import ZArith List Bool Arith Lia.
From BNP Require Import Base.Prims Model.C05.
Import ListNotations.
Open Scope nat_scope.

(* ================================================================ generic list facts *)
Lemma map_nth_seq {A} (d : A) (l : list A) : map (fun i => nth i l d) (seq 0 (length l)) = l.
Proof.
  induction l as [|x l IH]; simpl; [reflexivity|].
  f_equal. rewrite <- seq_shift, map_map. exact IH.
Qed.

Lemma nth_map_lt {A B} (f : A -> B) (l : list A) (da : A) (db : B) i :
  i < length l -> nth i (map f l) db = f (nth i l da).
Proof.
  intros H. rewrite (nth_indep (map f l) db (f da)) by (rewrite map_length; exact H).
  apply map_nth.
Qed.

Lemma length_takeN {A} (d : A) sel l : length (takeN d sel l) = length sel.
Proof. unfold takeN. apply map_length. Qed.

Lemma takeN_map {A B} (f : A -> B) (da : A) (db : B) sel l :
  Forall (fun j => j < length l) sel ->
  takeN db sel (map f l) = map f (takeN da sel l).
Proof.
  intros H. unfold takeN. rewrite map_map. apply map_ext_in. intros j Hj.
  rewrite Forall_forall in H. apply nth_map_lt. apply H. exact Hj.
Qed.

Lemma takeN_in {A} (d : A) sel l (P : A -> Prop) :
  Forall (fun j => j < length l) sel -> Forall P l -> Forall P (takeN d sel l).
Proof.
  intros Hs Hl. unfold takeN. rewrite Forall_forall in *. intros x Hx.
  apply in_map_iff in Hx. destruct Hx as [j [Hj Hin]]. subst x. apply Hl. apply nth_In. apply Hs. exact Hin.
Qed.

(* ================================================================ rows_of_cols *)
Lemma rows_of_cols_length {A} (d : A) n cols : length (rows_of_cols d n cols) = n.
Proof. unfold rows_of_cols. rewrite map_length, seq_length. reflexivity. Qed.

Lemma rows_of_cols_ext {A} (d : A) n (c1 c2 : nat -> list A) fs :
  (forall f, In f fs -> c1 f = c2 f) -> rows_of_cols d n (map c1 fs) = rows_of_cols d n (map c2 fs).
Proof. intros H. f_equal. apply map_ext_in. exact H. Qed.

(* selecting rows = selecting in every column *)
Lemma rows_of_cols_take {A} (d : A) n sel (c : nat -> list A) fs :
  Forall (fun j => j < n) sel ->
  rows_of_cols d (length sel) (map (fun f => takeN d sel (c f)) fs)
  = takeN [] sel (rows_of_cols d n (map c fs)).
Proof.
  intros Hs. unfold rows_of_cols.
  transitivity (map (fun j => map (fun cc => nth j cc d) (map c fs)) sel).
  - rewrite <- (map_nth_seq 0 sel) at 2. rewrite map_map.
    apply map_ext_in. intros i Hi. apply in_seq in Hi.
    rewrite !map_map. apply map_ext. intros f. unfold takeN.
    apply (nth_map_lt (fun j => nth j (c f) d) sel 0 d i). lia.
  - unfold takeN. apply map_ext_in. intros j Hj.
    rewrite Forall_forall in Hs. specialize (Hs j Hj).
    rewrite (nth_map_lt _ (seq 0 n) 0) by (rewrite seq_length; exact Hs).
    rewrite seq_nth by exact Hs. reflexivity.
Qed.

Lemma seq_add a b n : seq (a + b) n = map (fun i => a + i) (seq b n).
Proof.
  revert b. induction n as [|n IH]; intros b; simpl; [reflexivity|].
  f_equal. rewrite <- IH. f_equal. lia.
Qed.

Lemma rows_of_cols_app {A} (d : A) n1 n2 (c1 c2 : nat -> list A) fs :
  (forall f, In f fs -> length (c1 f) = n1) ->
  rows_of_cols d (n1 + n2) (map (fun f => c1 f ++ c2 f) fs)
  = rows_of_cols d n1 (map c1 fs) ++ rows_of_cols d n2 (map c2 fs).
Proof.
  intros H. unfold rows_of_cols. rewrite seq_app, map_app. f_equal.
  - apply map_ext_in. intros i Hi. apply in_seq in Hi. rewrite !map_map.
    apply map_ext_in. intros f Hf. apply app_nth1. rewrite (H f Hf). lia.
  - simpl. rewrite <- (Nat.add_0_r n1) at 1. rewrite seq_add.
    rewrite map_map. apply map_ext_in. intros i Hi. rewrite !map_map.
    apply map_ext_in. intros f Hf. rewrite app_nth2 by (rewrite (H f Hf); lia).
    rewrite (H f Hf). f_equal. lia.
Qed.

(* n-ary: the rows of a table whose columns are the concatenated columns of several tables *)
Lemma rows_of_cols_concat {A B} (d : A) (ls : list B) (n : B -> nat) (c : B -> nat -> list A) fs :
  (forall l f, In l ls -> In f fs -> length (c l f) = n l) ->
  rows_of_cols d (list_sum (map n ls)) (map (fun f => concat (map (fun l => c l f) ls)) fs)
  = concat (map (fun l => rows_of_cols d (n l) (map (c l) fs)) ls).
Proof.
  induction ls as [|l ls IH]; intros H; simpl.
  - unfold rows_of_cols. reflexivity.
  - rewrite <- IH by (intros; apply H; simpl; auto).
    apply (rows_of_cols_app d (n l) (list_sum (map n ls)) (c l) (fun f => concat (map (fun l0 => c l0 f) ls)) fs).
    intros f Hf. apply H; simpl; auto.
Qed.

(* reading a column back out of the rows *)
Lemma rows_of_cols_get (n : nat) (c : nat -> list value) nf f :
  f < nf -> length (c f) = n ->
  map (fun r => nth f r dv) (rows_of_cols dv n (map c (seq 0 nf))) = c f.
Proof.
  intros Hf Hl. unfold rows_of_cols. rewrite map_map.
  transitivity (map (fun i => nth i (c f) dv) (seq 0 (length (c f)))); [|apply map_nth_seq].
  rewrite Hl. apply map_ext. intros i.
  rewrite (nth_map_lt (fun cc => nth i cc dv) (map c (seq 0 nf)) [] dv f) by (rewrite map_length, seq_length; exact Hf).
  rewrite (nth_map_lt c (seq 0 nf) 0 [] f) by (rewrite seq_length; exact Hf).
  rewrite seq_nth by exact Hf. reflexivity.
Qed.

Lemma set_nth_map_seq {A} (h : nat -> A) v f s n :
  set_nth f v (map h (seq s n)) = map (fun g => if Nat.eqb g (s + f) then v else h g) (seq s n).
Proof.
  revert f s. induction n as [|n IH]; intros f s; simpl.
  - destruct f; reflexivity.
  - destruct f as [|f]; simpl.
    + rewrite Nat.add_0_r, Nat.eqb_refl. f_equal.
      apply map_ext_in. intros g Hg. apply in_seq in Hg.
      destruct (Nat.eqb g s) eqn:E; [apply Nat.eqb_eq in E; lia|reflexivity].
    + destruct (Nat.eqb s (s + S f)) eqn:E; [apply Nat.eqb_eq in E; lia|].
      f_equal. rewrite IH. apply map_ext. intros g. replace (S s + f) with (s + S f) by lia. reflexivity.
Qed.

Lemma combine_seq_map {A} (g : nat -> A) s n :
  combine (seq s n) (map g (seq s n)) = map (fun i => (i, g i)) (seq s n).
Proof. revert s. induction n as [|n IH]; intros s; simpl; [reflexivity|]. f_equal. apply IH. Qed.

(* replacing a column = replacing that cell in every row *)
Lemma rows_of_cols_replace (n : nat) (c : nat -> list value) nf f vals :
  s_replace f vals (rows_of_cols dv n (map c (seq 0 nf)))
  = rows_of_cols dv n (map (fun g => if Nat.eqb g f then vals else c g) (seq 0 nf)).
Proof.
  unfold s_replace. rewrite rows_of_cols_length. unfold rows_of_cols.
  rewrite combine_seq_map, map_map.
  apply map_ext. intros i. simpl. rewrite !map_map.
  rewrite (set_nth_map_seq (fun g => nth i (c g) dv) (nth i vals dv) f 0 nf). simpl.
  apply map_ext. intros g. destruct (Nat.eqb g f); reflexivity.
Qed.

(* ================================================================ stores *)
Lemma lookup_map f (g : list value -> list value) st :
  lookup f (map (fun p => (fst p, g (snd p))) st) = option_map g (lookup f st).
Proof.
  induction st as [|[k c] st IH]; simpl; [reflexivity|].
  destruct (Nat.eqb f k); [reflexivity|exact IH].
Qed.
Lemma lookup_app f st1 st2 :
  lookup f (st1 ++ st2) = match lookup f st1 with Some c => Some c | None => lookup f st2 end.
Proof.
  induction st1 as [|[k c] st1 IH]; simpl; [reflexivity|].
  destruct (Nat.eqb f k); [reflexivity|exact IH].
Qed.
Lemma lookup_remove_same f st : lookup f (remove_key f st) = None.
Proof.
  induction st as [|[k c] st IH]; simpl; [reflexivity|].
  destruct (Nat.eqb f k) eqn:E; [exact IH|]. simpl. rewrite E. exact IH.
Qed.
Lemma lookup_remove_other f g st : g <> f -> lookup g (remove_key f st) = lookup g st.
Proof.
  intros H. induction st as [|[k c] st IH]; simpl; [reflexivity|].
  destruct (Nat.eqb f k) eqn:E.
  - apply Nat.eqb_eq in E. subst k. destruct (Nat.eqb g f) eqn:E2; [apply Nat.eqb_eq in E2; contradiction|exact IH].
  - simpl. destruct (Nat.eqb g k); [reflexivity|exact IH].
Qed.
Lemma lookup_update f g c st : lookup g (update f c st) = if Nat.eqb g f then Some c else lookup g st.
Proof.
  unfold update. simpl. destruct (Nat.eqb g f) eqn:E; [reflexivity|].
  apply lookup_remove_other. intros ->. rewrite Nat.eqb_refl in E. discriminate.
Qed.
Lemma lookup_none_keys f st : lookup f st = None <-> ~ In f (keys st).
Proof.
  induction st as [|[k c] st IH]; simpl; [tauto|].
  destruct (Nat.eqb f k) eqn:E.
  - apply Nat.eqb_eq in E. subst k. split; [discriminate|]. intros H. exfalso. apply H. left. reflexivity.
  - rewrite IH. apply Nat.eqb_neq in E. split; intros H; [intros [H1|H1]; [congruence|contradiction]|tauto].
Qed.
Lemma lookup_none_keys_contra f st : lookup f st <> None -> In f (keys st).
Proof.
  intros H. destruct (in_dec Nat.eq_dec f (keys st)) as [Hin|Hn]; [exact Hin|].
  exfalso. apply H. apply lookup_none_keys. exact Hn.
Qed.
Lemma existsb_eqb_in x l : existsb (Nat.eqb x) l = true <-> In x l.
Proof.
  rewrite existsb_exists. split.
  - intros [y [Hy E]]. apply Nat.eqb_eq in E. subst y. exact Hy.
  - intros H. exists x. split; [exact H|apply Nat.eqb_refl].
Qed.
Lemma subset_spec a b : subset a b = true <-> forall x, In x a -> In x b.
Proof.
  unfold subset. rewrite forallb_forall. split; intros H x Hx.
  - apply existsb_eqb_in. apply H. exact Hx.
  - apply existsb_eqb_in. apply H. exact Hx.
Qed.

Definition col_or_nil f (st : store) : list value := match lookup f st with Some c => c | None => [] end.
Lemma gather_some f sts :
  (forall st, In st sts -> lookup f st <> None) -> gather f sts = Some (concat (map (col_or_nil f) sts)).
Proof.
  induction sts as [|st sts IH]; intros H; simpl; [reflexivity|].
  rewrite IH by (intros; apply H; simpl; auto).
  destruct (lookup f st) eqn:E.
  - change (col_or_nil f st) with (match lookup f st with Some c => c | None => [] end). rewrite E. reflexivity.
  - exfalso. apply (H st); simpl; auto.
Qed.
Lemma gather_inv f sts c :
  gather f sts = Some c ->
  c = concat (map (col_or_nil f) sts) /\ forall st, In st sts -> lookup f st <> None.
Proof.
  revert c. induction sts as [|st sts IH]; intros c H; simpl in *.
  - inversion H. split; [reflexivity|tauto].
  - destruct (lookup f st) eqn:E; [|discriminate].
    destruct (gather f sts) eqn:G; [|discriminate]. inversion H. subst c.
    destruct (IH l0 eq_refl) as [-> H2]. split.
    + change (col_or_nil f st) with (match lookup f st with Some c => c | None => [] end). rewrite E. reflexivity.
    + intros st' [->|Hin]; [congruence|apply H2; exact Hin].
Qed.
Lemma gather_all_some ks sts :
  (forall f, In f ks -> forall st, In st sts -> lookup f st <> None) -> exists st, gather_all ks sts = Some st.
Proof.
  induction ks as [|k ks IH]; intros H; simpl; [eexists; reflexivity|].
  rewrite (gather_some k sts) by (intros; apply (H k); simpl; auto).
  destruct IH as [st Hst]; [intros; apply (H f); simpl; auto|]. rewrite Hst. eexists; reflexivity.
Qed.
Lemma gather_all_in ks sts st f :
  gather_all ks sts = Some st -> In f ks -> lookup f st = gather f sts /\ gather f sts <> None.
Proof.
  revert st. induction ks as [|k ks IH]; intros st H Hin; simpl in *; [contradiction|].
  destruct (gather k sts) eqn:G; [|discriminate].
  destruct (gather_all ks sts) eqn:GA; [|discriminate]. inversion H. subst st. simpl.
  destruct (Nat.eqb f k) eqn:E.
  - apply Nat.eqb_eq in E. subst k. rewrite G. split; [reflexivity|discriminate].
  - destruct Hin as [->|Hin]; [rewrite Nat.eqb_refl in E; discriminate|]. apply (IH s eq_refl Hin).
Qed.
Lemma gather_all_notin ks sts st f :
  gather_all ks sts = Some st -> ~ In f ks -> lookup f st = None.
Proof.
  revert st. induction ks as [|k ks IH]; intros st H Hin; simpl in *.
  - inversion H. reflexivity.
  - destruct (gather k sts) eqn:G; [|discriminate].
    destruct (gather_all ks sts) eqn:GA; [|discriminate]. inversion H. subst st. simpl.
    destruct (Nat.eqb f k) eqn:E; [apply Nat.eqb_eq in E; subst k; exfalso; apply Hin; auto|].
    apply (IH s eq_refl). intros H1. apply Hin. auto.
Qed.

(* ================================================================ abstraction and invariant *)
Definition a_col (F : fmt) (l : lazy) (f : nat) : list value :=
  match lookup f (l_set l) with Some c => c | None => parse_col F f (l_buf l) end.
Definition abs (F : fmt) (t : table) : rows :=
  match t with
  | TLazy l => rows_of_cols dv (length (l_buf l)) (map (a_col F l) (all_fields F))
  | TEager t => t
  end.
Definition InvL (F : fmt) (l : lazy) : Prop :=
  (forall f c, lookup f (l_set l) = Some c -> length c = length (l_buf l))
  /\ (forall f c, lookup f (l_comp l) = Some c -> c = parse_col F f (l_buf l)).
Definition Inv (F : fmt) (t : table) : Prop := match t with TLazy l => InvL F l | TEager _ => True end.

Lemma parse_col_length F f buf : length (parse_col F f buf) = length buf.
Proof. unfold parse_col. apply map_length. Qed.
Lemma a_col_length F l f : InvL F l -> length (a_col F l f) = length (l_buf l).
Proof.
  intros [H _]. unfold a_col. destruct (lookup f (l_set l)) eqn:E; [apply (H f); exact E|apply parse_col_length].
Qed.
Lemma l_col_a_col F l f : InvL F l -> l_col F l f = a_col F l f.
Proof.
  intros [_ H]. unfold l_col, a_col. destruct (lookup f (l_set l)); [reflexivity|].
  destruct (lookup f (l_comp l)) eqn:E; [apply (H f); exact E|reflexivity].
Qed.
Lemma l_rows_abs F l : InvL F l -> l_rows F l = abs F (TLazy l).
Proof.
  intros H. unfold l_rows, abs. apply rows_of_cols_ext. intros f _. apply l_col_a_col. exact H.
Qed.
Lemma abs_length F t : Inv F t -> length (abs F t) = t_len t.
Proof. destruct t; simpl; intros; [apply rows_of_cols_length|reflexivity]. Qed.
Lemma abs_same F l l' : l_buf l' = l_buf l -> l_set l' = l_set l -> abs F (TLazy l') = abs F (TLazy l).
Proof. intros Hb Hs. unfold abs, a_col. rewrite Hb, Hs. reflexivity. Qed.

(* ---------- field access *)
Lemma l_get_ok F f l c l' :
  InvL F l -> l_get F f l = Some (c, l') ->
  c = a_col F l f /\ InvL F l' /\ l_buf l' = l_buf l /\ l_set l' = l_set l.
Proof.
  intros HI H. pose proof HI as [H1 H2]. unfold l_get in H. unfold a_col.
  destruct (lookup f (l_set l)) eqn:E.
  - inversion H. subst. auto.
  - destruct (lookup f (l_comp l)) eqn:E2.
    + inversion H. subst. split; [apply (H2 f); exact E2|auto].
    + destruct (sid_fail F l f); [discriminate|]. inversion H. subst. clear H. simpl.
      split; [reflexivity|]. split; [|auto]. split; simpl; [exact H1|].
      intros g c Hg. rewrite lookup_app in Hg. destruct (lookup g (l_comp l)) eqn:E3.
      * inversion Hg. subst. apply (H2 g). exact E3.
      * simpl in Hg. destruct (Nat.eqb g f) eqn:E4; [|discriminate].
        apply Nat.eqb_eq in E4. subst g. inversion Hg. reflexivity.
Qed.
Lemma l_fill_ok F fs l b l' :
  InvL F l -> l_fill F fs l = (b, l') -> InvL F l' /\ l_buf l' = l_buf l /\ l_set l' = l_set l.
Proof.
  revert l. induction fs as [|f fs IH]; intros l HI H; simpl in H.
  - inversion H. subst. auto.
  - destruct (l_get F f l) as [[c l1]|] eqn:E.
    + destruct (l_get_ok F f l c l1 HI E) as [_ [HI1 [Hb Hs]]].
      destruct (IH l1 HI1 H) as [HI' [Hb' Hs']]. split; [exact HI'|]. split; congruence.
    + inversion H. subst. auto.
Qed.

(* ---------- indexing *)
Lemma resolve_bound n ix sel : resolve n ix = Some sel -> Forall (fun j => j < n) sel.
Proof.
  unfold resolve. intros H.
  destruct (match ix with
            | ISlice a b s => if (s =? 0)%Z then None else Some (slice_sel (Z.of_nat n) a b s)
            | IMask m => if Nat.eqb (length m) n then Some (flatnonzero m) else None
            | ITake l => Some (map (fun i => if (i <? 0)%Z then (i + Z.of_nat n)%Z else i) l)
            end) as [selz|]; [|discriminate].
  destruct (forallb (fun j => (0 <=? j)%Z && (j <? Z.of_nat n)%Z) selz) eqn:E; [|discriminate].
  inversion H. subst sel. rewrite forallb_forall in E.
  apply Forall_forall. intros j Hj. apply in_map_iff in Hj. destruct Hj as [z [Hz Hin]].
  specialize (E z Hin). apply andb_true_iff in E. destruct E as [E1 E2].
  apply Z.leb_le in E1. apply Z.ltb_lt in E2. lia.
Qed.

Lemma takeN_parse_col F f sel buf :
  Forall (fun j => j < length buf) sel ->
  takeN dv sel (parse_col F f buf) = parse_col F f (takeN dr sel buf).
Proof. intros H. unfold parse_col. apply takeN_map. exact H. Qed.

Lemma a_col_index F sel l f :
  Forall (fun j => j < length (l_buf l)) sel ->
  a_col F (l_index sel l) f = takeN dv sel (a_col F l f).
Proof.
  intros H. unfold a_col, l_index. simpl. rewrite lookup_map.
  destruct (lookup f (l_set l)); simpl; [reflexivity|].
  symmetry. apply takeN_parse_col. exact H.
Qed.

Lemma l_index_ok F sel l :
  Forall (fun j => j < length (l_buf l)) sel -> InvL F l ->
  InvL F (l_index sel l) /\ abs F (TLazy (l_index sel l)) = s_index sel (abs F (TLazy l)).
Proof.
  intros Hs [H1 H2]. split.
  - split; simpl; intros f c Hc; rewrite lookup_map in Hc.
    + destruct (lookup f (l_set l)); simpl in Hc; [|discriminate]. inversion Hc.
      rewrite !length_takeN. reflexivity.
    + destruct (lookup f (l_comp l)) eqn:E; simpl in Hc; [|discriminate]. inversion Hc.
      rewrite (H2 f l0 E). apply takeN_parse_col. exact Hs.
  - unfold abs, s_index. simpl l_buf at 1. rewrite length_takeN.
    rewrite <- (rows_of_cols_take dv (length (l_buf l)) sel (a_col F l) (all_fields F) Hs).
    apply rows_of_cols_ext. intros f _. apply a_col_index. exact Hs.
Qed.

(* ---------- replace *)
Lemma l_replace_ok F f vals l :
  InvL F l -> length vals = length (l_buf l) ->
  InvL F (l_replace f vals l) /\ abs F (TLazy (l_replace f vals l)) = s_replace f vals (abs F (TLazy l)).
Proof.
  intros [H1 H2] Hl. split.
  - split; intros g c Hc.
    + change (l_set (l_replace f vals l)) with (update f vals (l_set l)) in Hc.
      change (l_buf (l_replace f vals l)) with (l_buf l).
      rewrite lookup_update in Hc. destruct (Nat.eqb g f); [inversion Hc; subst; exact Hl|apply (H1 g); exact Hc].
    + discriminate.
  - unfold abs, all_fields. rewrite rows_of_cols_replace.
    change (l_buf (l_replace f vals l)) with (l_buf l).
    apply rows_of_cols_ext. intros g _. unfold a_col.
    change (l_set (l_replace f vals l)) with (update f vals (l_set l)).
    change (l_buf (l_replace f vals l)) with (l_buf l).
    rewrite lookup_update.
    destruct (Nat.eqb g f); reflexivity.
Qed.

(* ---------- concatenate (the code as it is: keys of the first operand) under the key-set guard *)
Lemma parse_col_concat F f bufs : parse_col F f (concat bufs) = concat (map (parse_col F f) bufs).
Proof. unfold parse_col. rewrite concat_map. reflexivity. Qed.

Lemma length_concat_sum {A} (ls : list (list A)) : length (concat ls) = list_sum (map (@length A) ls).
Proof. induction ls as [|l ls IH]; simpl; [reflexivity|]. rewrite app_length, IH. reflexivity. Qed.

Lemma cat_guard_spec first rest :
  cat_guard (first :: rest) = true ->
  forall l, In l (first :: rest) ->
    (forall f, In f (keys (l_set first)) <-> In f (keys (l_set l)))
    /\ (forall f, In f (keys (l_comp first)) -> In f (keys (l_comp l))).
Proof.
  unfold cat_guard. rewrite forallb_forall. intros H l Hl. specialize (H l Hl).
  apply andb_true_iff in H. destruct H as [H Hc]. apply andb_true_iff in H. destruct H as [Ha Hb].
  rewrite subset_spec in Ha, Hb, Hc. split; [split; auto|auto].
Qed.

Lemma l_concat_pinned_ok F ls :
  Forall (InvL F) ls -> cat_guard ls = true ->
  exists l', l_concat_pinned F ls = Some l' /\ InvL F l'
             /\ abs F (TLazy l') = concat (map (fun l => abs F (TLazy l)) ls)
             /\ l_buf l' = concat (map l_buf ls).
Proof.
  intros HI HG. destruct ls as [|first rest]; [discriminate|].
  pose proof (cat_guard_spec first rest HG) as G.
  rewrite Forall_forall in HI.
  unfold l_concat_pinned.
  destruct (gather_all_some (keys (l_set first)) (map l_set (first :: rest))) as [s Hs].
  { intros f Hf st Hst. apply in_map_iff in Hst. destruct Hst as [l [<- Hl]].
    intros HN. apply lookup_none_keys in HN. apply HN. apply (G l Hl). exact Hf. }
  destruct (gather_all_some (keys (l_comp first)) (map l_comp (first :: rest))) as [c Hc].
  { intros f Hf st Hst. apply in_map_iff in Hst. destruct Hst as [l [<- Hl]].
    intros HN. apply lookup_none_keys in HN. apply HN. apply (G l Hl). exact Hf. }
  rewrite Hs, Hc. eexists. split; [reflexivity|].
  remember (first :: rest) as ls eqn:Hls. clear Hls HG.
  (* the columns of the result *)
  assert (Hcol : forall f, a_col F {| l_buf := concat (map l_buf ls); l_set := s; l_comp := c |} f
                           = concat (map (fun l => a_col F l f) ls)).
  { intros f. unfold a_col at 1. cbn [l_set l_buf].
    destruct (in_dec Nat.eq_dec f (keys (l_set first))) as [Hin|Hnin].
    - destruct (gather_all_in _ _ _ f Hs Hin) as [E1 E2]. rewrite E1.
      destruct (gather f (map l_set ls)) as [col|] eqn:Eg; [|congruence].
      destruct (gather_inv _ _ _ Eg) as [-> Hall]. rewrite map_map. f_equal.
      apply map_ext_in. intros l Hl. unfold col_or_nil, a_col.
      destruct (lookup f (l_set l)) eqn:E; [reflexivity|].
      exfalso. apply (Hall (l_set l)); [apply in_map; exact Hl|exact E].
    - rewrite (gather_all_notin _ _ _ f Hs Hnin). rewrite parse_col_concat, map_map. f_equal.
      apply map_ext_in. intros l Hl. unfold a_col.
      destruct (lookup f (l_set l)) eqn:E; [|reflexivity].
      exfalso. apply Hnin. apply (G l Hl). apply lookup_none_keys_contra. congruence. }
  split.
  - split; cbn [l_set l_buf l_comp].
    + intros f col Hf.
      destruct (in_dec Nat.eq_dec f (keys (l_set first))) as [Hin|Hnin].
      * destruct (gather_all_in _ _ _ f Hs Hin) as [E1 _]. rewrite E1 in Hf.
        destruct (gather_inv _ _ _ Hf) as [-> Hall].
        rewrite !length_concat_sum, !map_map. f_equal. apply map_ext_in. intros l Hl.
        unfold col_or_nil. destruct (lookup f (l_set l)) eqn:E.
        -- apply (proj1 (HI l Hl) f). exact E.
        -- exfalso. apply (Hall (l_set l)); [apply in_map; exact Hl|exact E].
      * rewrite (gather_all_notin _ _ _ f Hs Hnin) in Hf. discriminate.
    + intros f col Hf.
      destruct (in_dec Nat.eq_dec f (keys (l_comp first))) as [Hin|Hnin].
      * destruct (gather_all_in _ _ _ f Hc Hin) as [E1 _]. rewrite E1 in Hf.
        destruct (gather_inv _ _ _ Hf) as [-> Hall].
        rewrite parse_col_concat, !map_map. f_equal. apply map_ext_in. intros l Hl.
        unfold col_or_nil. destruct (lookup f (l_comp l)) eqn:E.
        -- apply (proj2 (HI l Hl) f). exact E.
        -- exfalso. apply (Hall (l_comp l)); [apply in_map; exact Hl|exact E].
      * rewrite (gather_all_notin _ _ _ f Hc Hnin) in Hf. discriminate.
  - unfold abs at 1. cbn [l_buf]. rewrite length_concat_sum, map_map.
    rewrite (rows_of_cols_ext dv _ _ (fun f => concat (map (fun l => a_col F l f) ls)) (all_fields F)) by (intros; apply Hcol).
    split; [|reflexivity].
    apply (rows_of_cols_concat dv ls (fun l => length (l_buf l)) (a_col F) (all_fields F)).
    intros l f Hl _. apply a_col_length. apply HI. exact Hl.
Qed.

(* ---------- write *)
Lemma zlist_eqb_eq a b : zlist_eqb a b = true -> a = b.
Proof.
  unfold zlist_eqb. revert b. induction a as [|x a IH]; intros [|y b] H; simpl in H; try discriminate; [reflexivity|].
  apply andb_true_iff in H. destruct H as [H1 H2]. apply Z.eqb_eq in H1. subst y. f_equal. apply IH. exact H2.
Qed.

Lemma cells_canon_spec ks cells :
  cells_canon ks cells = true ->
  length cells = length ks
  /\ forall f, f < length ks -> print (nth f ks KStr) (parse (nth f ks KStr) (nth f cells [])) = nth f cells [].
Proof.
  revert cells. induction ks as [|k ks IH]; intros [|c cells] H; simpl in H; try discriminate.
  - split; [reflexivity|]. intros f Hf. simpl in Hf. lia.
  - apply andb_true_iff in H. destruct H as [H1 H2]. apply zlist_eqb_eq in H1.
    destruct (IH cells H2) as [Hl Hc]. split; [simpl; congruence|].
    intros [|f] Hf; simpl; [exact H1|]. apply Hc. simpl in Hf. lia.
Qed.

Lemma print_row_map ks (h : nat -> value) s :
  print_row ks (map h (seq s (length ks))) = map (fun f => print (nth (f - s) ks KStr) (h f)) (seq s (length ks)).
Proof.
  revert s. induction ks as [|k ks IH]; intros s; simpl; [reflexivity|].
  rewrite Nat.sub_diag. f_equal. rewrite IH. apply map_ext_in. intros f Hf. apply in_seq in Hf.
  replace (f - s) with (S (f - S s)) by lia. reflexivity.
Qed.

Definition canonL (F : fmt) (l : lazy) : Prop := Forall (fun r => rec_canon F r = true) (l_buf l).

Lemma cell_text F l i f :
  InvL F l -> canonL F l -> i < length (l_buf l) -> f < nfields F ->
  print (kind_of F f) (nth i (a_col F l f) dv) = nth i (text_col F l f) [].
Proof.
  intros [H1 _] HC Hi Hf. unfold a_col, text_col.
  destruct (lookup f (l_set l)) eqn:E.
  - symmetry. apply (nth_map_lt (print (kind_of F f)) l0 dv [] i). rewrite (H1 f l0 E). exact Hi.
  - unfold parse_col.
    rewrite (nth_map_lt (fun r => parse (kind_of F f) (field f r)) (l_buf l) dr dv i Hi).
    rewrite (nth_map_lt (field f) (l_buf l) dr [] i Hi).
    unfold canonL in HC. rewrite Forall_forall in HC.
    specialize (HC (nth i (l_buf l) dr) (nth_In _ _ Hi)).
    unfold rec_canon in HC. apply andb_true_iff in HC. destruct HC as [HC _].
    destruct (cells_canon_spec _ _ HC) as [_ Hc]. apply (Hc f). exact Hf.
Qed.

Lemma row_text F l i :
  InvL F l -> canonL F l -> i < length (l_buf l) ->
  print_row (f_kinds F) (map (fun c => nth i c dv) (map (a_col F l) (all_fields F)))
  = map (fun c => nth i c []) (map (text_col F l) (all_fields F)).
Proof.
  intros HI HC Hi. rewrite !map_map. unfold all_fields, nfields.
  rewrite (print_row_map (f_kinds F) (fun f => nth i (a_col F l f) dv) 0).
  apply map_ext_in. intros f Hf. apply in_seq in Hf. rewrite Nat.sub_0_r.
  apply cell_text; auto. unfold nfields. lia.
Qed.

Lemma raw_text F l i :
  canonL F l -> l_set l = [] -> i < length (l_buf l) ->
  render (f_layout F) (map (fun c => nth i c []) (map (text_col F l) (all_fields F))) = r_raw (nth i (l_buf l) dr).
Proof.
  intros HC Hs Hi. unfold canonL in HC. rewrite Forall_forall in HC.
  specialize (HC (nth i (l_buf l) dr) (nth_In _ _ Hi)).
  unfold rec_canon in HC. apply andb_true_iff in HC. destruct HC as [HC1 HC2].
  apply zlist_eqb_eq in HC2. rewrite HC2. f_equal.
  destruct (cells_canon_spec _ _ HC1) as [Hl _].
  rewrite map_map. unfold text_col. rewrite Hs. simpl lookup.
  rewrite <- (map_nth_seq [] (r_fields (nth i (l_buf l) dr))). rewrite Hl.
  unfold all_fields, nfields. apply map_ext. intros f.
  apply (nth_map_lt (field f) (l_buf l) dr [] i Hi).
Qed.

Lemma l_write_ok F hdr l b :
  InvL F l -> canonL F l -> join_ok F l = true -> l_write F hdr l = Some b -> b = s_write F hdr (abs F (TLazy l)).
Proof.
  intros HI HC HJ H. unfold l_write in H. unfold s_write, abs. unfold join_ok in HJ.
  destruct (l_buf l) as [|r0 buf0] eqn:EB.
  - inversion H. unfold rows_of_cols. simpl. rewrite app_nil_r. reflexivity.
  - rewrite <- EB in *. clear EB r0 buf0.
    destruct (existsb _ (keys (l_set l))); [discriminate|]. inversion H. clear H. f_equal.
    assert (Hrows : forall i, In i (seq 0 (length (l_buf l))) ->
              render (f_layout F) (print_row (f_kinds F) (map (fun c => nth i c dv) (map (a_col F l) (all_fields F))))
              = render (f_layout F) (map (fun c => nth i c []) (map (text_col F l) (all_fields F)))).
    { intros i Hi. apply in_seq in Hi. f_equal. apply row_text; auto. lia. }
    transitivity (concat (map (fun i => render (f_layout F) (map (fun c => nth i c []) (map (text_col F l) (all_fields F))))
                              (seq 0 (length (l_buf l))))).
    + destruct (l_set l) eqn:ES.
      * rewrite <- (map_nth_seq dr (l_buf l)) at 1. rewrite map_map. f_equal.
        apply map_ext_in. intros i Hi. apply in_seq in Hi. symmetry. apply raw_text; auto. lia.
      * rewrite forallb_forall in HJ. unfold rows_of_cols in *. rewrite map_map.
        apply (f_equal (@concat Z)). apply map_ext_in. intros i Hi. apply zlist_eqb_eq. apply HJ.
        apply in_map_iff. exists i. split; [reflexivity|exact Hi].
    + unfold rows_of_cols. rewrite map_map. f_equal. apply map_ext_in. intros i Hi. symmetry. apply Hrows. exact Hi.
Qed.

(* ================================================================ registers *)
Lemma nth_error_map' {A B} (f : A -> B) l r : nth_error (map f l) r = option_map f (nth_error l r).
Proof. revert r. induction l as [|x l IH]; intros [|r]; simpl; auto. Qed.
Lemma set_nth_map {A B} (f : A -> B) r v l : set_nth r (f v) (map f l) = map f (set_nth r v l).
Proof. revert r. induction l as [|x l IH]; intros [|r]; simpl; auto. f_equal. apply IH. Qed.
Lemma set_nth_same {A} r (v : A) l : nth_error l r = Some v -> set_nth r v l = l.
Proof.
  revert r. induction l as [|x l IH]; intros [|r] H; simpl in *; try discriminate; auto.
  - inversion H. reflexivity.
  - f_equal. apply IH. exact H.
Qed.
Lemma set_nth_Forall {A} (P : A -> Prop) r v l : Forall P l -> P v -> Forall P (set_nth r v l).
Proof.
  intros H Hv. revert r. induction H as [|x l Hx Hl IH]; intros [|r]; simpl; auto.
Qed.
Lemma nth_error_Forall {A} (P : A -> Prop) l r v : Forall P l -> nth_error l r = Some v -> P v.
Proof. intros H E. rewrite Forall_forall in H. apply H. eapply nth_error_In. exact E. Qed.
Lemma get_regs_map {A B} (f : A -> B) regs srcs :
  get_regs (map f regs) srcs = option_map (map f) (get_regs regs srcs).
Proof.
  induction srcs as [|s srcs IH]; simpl; [reflexivity|].
  rewrite nth_error_map', IH. destruct (nth_error regs s); simpl; [|reflexivity].
  destruct (get_regs regs srcs); reflexivity.
Qed.
Lemma get_regs_Forall {A} (P : A -> Prop) regs srcs ts :
  Forall P regs -> get_regs regs srcs = Some ts -> Forall P ts.
Proof.
  intros H. revert ts. induction srcs as [|s srcs IH]; intros ts E; simpl in E.
  - inversion E. constructor.
  - destruct (nth_error regs s) eqn:E1; [|discriminate].
    destruct (get_regs regs srcs) eqn:E2; [|discriminate]. inversion E. constructor.
    + eapply nth_error_Forall; eauto.
    + apply IH. reflexivity.
Qed.
Lemma all_lazy_spec ts ls : all_lazy ts = Some ls -> ts = map TLazy ls.
Proof.
  revert ls. induction ts as [|[l|t] ts IH]; intros ls H; simpl in H; try discriminate.
  - inversion H. reflexivity.
  - destruct (all_lazy ts) eqn:E; [|discriminate]. inversion H. simpl. f_equal. apply IH. reflexivity.
Qed.
Lemma all_eager_spec ts rs : all_eager ts = Some rs -> ts = map TEager rs.
Proof.
  revert rs. induction ts as [|[l|t] ts IH]; intros rs H; simpl in H; try discriminate.
  - inversion H. reflexivity.
  - destruct (all_eager ts) eqn:E; [|discriminate]. inversion H. simpl. f_equal. apply IH. reflexivity.
Qed.

Definition Canon (F : fmt) (t : table) : Prop := match t with TLazy l => canonL F l | TEager _ => True end.

Lemma l_write_hdr F h1 h2 l b : l_write F h1 l = Some b -> exists b', l_write F h2 l = Some b'.
Proof.
  unfold l_write. destruct (l_buf l); [eexists; reflexivity|].
  destruct (existsb _ (keys (l_set l))); [discriminate|]. eexists; reflexivity.
Qed.

(* what one step guarantees *)
Definition step_post (F : fmt) (regs : list table) (mr : list table * obs) (sr : list rows * obs) : Prop :=
  Forall (Inv F) (fst mr) /\ fst sr = map (abs F) (fst mr) /\ erase (snd mr) = erase (snd sr)
  /\ (Forall (Canon F) regs -> snd mr = snd sr /\ Forall (Canon F) (fst mr)).

Lemma post_same F regs x : Forall (Inv F) regs -> step_post F regs (regs, x) (map (abs F) regs, x).
Proof. intros H. unfold step_post. simpl. auto. Qed.

Lemma abs_set_same F regs r l l' :
  nth_error regs r = Some (TLazy l) -> l_buf l' = l_buf l -> l_set l' = l_set l ->
  map (abs F) (set_reg r (TLazy l') regs) = map (abs F) regs.
Proof.
  intros E Hb Hs. unfold set_reg. rewrite <- set_nth_map. rewrite (abs_same F l l' Hb Hs).
  apply set_nth_same. rewrite nth_error_map', E. reflexivity.
Qed.

Definition cat_cond (F : fmt) (ts : list table) : bool :=
  match all_lazy ts with
  | Some ls => if f_concat F then cat_guard ls else forallb (fun l => fst (l_fill F (all_fields F) l)) ls
  | None => match all_eager ts with Some _ => true | None => false end
  end.

Lemma Forall_concat {A} (P : A -> Prop) (ls : list (list A)) : Forall (Forall P) ls -> Forall P (concat ls).
Proof. induction 1; simpl; [constructor|]. apply Forall_app. auto. Qed.

Lemma t_concat_ok F ts :
  ts <> [] -> Forall (Inv F) ts -> cat_cond F ts = true ->
  exists t', t_concat l_concat_pinned F ts = Some t' /\ Inv F t'
             /\ abs F t' = concat (map (abs F) ts) /\ (Forall (Canon F) ts -> Canon F t').
Proof.
  intros Hne HI HG. unfold cat_cond in HG. unfold t_concat.
  destruct ts as [|t0 ts0]; [contradiction|]. remember (t0 :: ts0) as ts eqn:Hts. clear Hts Hne t0 ts0.
  destruct (all_lazy ts) as [ls|] eqn:EL.
  - apply all_lazy_spec in EL. subst ts.
    assert (HIl : Forall (InvL F) ls).
    { rewrite Forall_forall in *. intros l Hl. apply (HI (TLazy l)). apply in_map. exact Hl. }
    destruct (f_concat F).
    + destruct (l_concat_pinned_ok F ls HIl HG) as [l' [E [HI' [Habs Hbuf]]]].
      rewrite E. simpl. exists (TLazy l'). split; [reflexivity|]. split; [exact HI'|].
      split; [rewrite Habs, map_map; reflexivity|].
      intros HC. simpl. unfold canonL. rewrite Hbuf. apply Forall_concat.
      rewrite Forall_forall in *. intros b Hb. apply in_map_iff in Hb. destruct Hb as [l [<- Hl]].
      apply (HC (TLazy l)). apply in_map. exact Hl.
    + rewrite HG. eexists. split; [reflexivity|]. split; [exact I|]. split; [|intros; exact I].
      unfold abs at 1. rewrite map_map. f_equal. apply map_ext_in. intros l Hl.
      apply l_rows_abs. rewrite Forall_forall in HIl. apply HIl. exact Hl.
  - destruct (all_eager ts) as [rs|] eqn:EE; [|discriminate].
    apply all_eager_spec in EE. subst ts. eexists. split; [reflexivity|]. split; [exact I|].
    split; [|intros; exact I]. unfold abs at 1. rewrite map_map. f_equal.
    unfold abs. rewrite map_id. reflexivity.
Qed.


(* ================================================================ one step, for any concatenate variant [cc]
   that is correct under a condition [gc] on its operands *)
Definition guard_with (gc : fmt -> list table -> bool) (F : fmt) (regs : list table) (o : op) : bool :=
  match o with
  | OCat r srcs => match get_regs regs srcs with Some ts => gc F ts | None => true end
  | _ => m_guard F regs o
  end.
Fixpoint guard_run_with (gc : fmt -> list table -> bool) (cc : fmt -> list lazy -> option lazy) (F : fmt) (hdr : list Z)
         (regs : list table) (p : list op) : bool :=
  match p with
  | [] => true
  | o :: p' => guard_with gc F regs o && guard_run_with gc cc F hdr (fst (m_step cc F hdr regs o)) p'
  end.

Section Steps.
Variable cc : fmt -> list lazy -> option lazy.
Variable gc : fmt -> list table -> bool.
Hypothesis Hcc : forall F ts, ts <> [] -> Forall (Inv F) ts -> gc F ts = true ->
  exists t', t_concat cc F ts = Some t' /\ Inv F t'
             /\ abs F t' = concat (map (abs F) ts) /\ (Forall (Canon F) ts -> Canon F t').

Lemma len_abs F t : Inv F t -> len (abs F t) = Z.of_nat (t_len t).
Proof. intros H. unfold len. rewrite abs_length by exact H. reflexivity. Qed.

Lemma step_len F hdr regs r :
  Forall (Inv F) regs ->
  step_post F regs (m_step cc F hdr regs (OLen r)) (s_step F hdr (map (abs F) regs) (OLen r)).
Proof.
  intros HI. simpl. rewrite nth_error_map'. destruct (nth_error regs r) as [t|] eqn:E; simpl.
  - rewrite len_abs by (eapply nth_error_Forall; eauto). apply post_same. exact HI.
  - apply post_same. exact HI.
Qed.

Lemma step_get F hdr regs r f :
  Forall (Inv F) regs -> m_guard F regs (OGet r f) = true ->
  step_post F regs (m_step cc F hdr regs (OGet r f)) (s_step F hdr (map (abs F) regs) (OGet r f)).
Proof.
  intros HI HG. simpl in *. rewrite nth_error_map'. destruct (nth_error regs r) as [[l|t]|] eqn:E; simpl.
  - apply andb_true_iff in HG. destruct HG as [Hf HG]. apply Nat.ltb_lt in Hf.
    assert (HIl : InvL F l) by (apply (nth_error_Forall (Inv F) regs r (TLazy l) HI E)).
    destruct (l_get F f l) as [[c l']|] eqn:EG; [|discriminate].
    destruct (l_get_ok F f l c l' HIl EG) as [-> [HI' [Hb Hs]]].
    unfold step_post. simpl. split; [apply set_nth_Forall; auto|].
    split; [symmetry; apply (abs_set_same F regs r l l' E Hb Hs)|].
    assert (Hx : XCol (a_col F l f) = XCol (s_get f (rows_of_cols dv (length (l_buf l)) (map (a_col F l) (all_fields F))))).
    { f_equal. symmetry. apply rows_of_cols_get; [exact Hf|apply a_col_length; exact HIl]. }
    rewrite Hx. split; [reflexivity|]. intros HC. split; [reflexivity|].
    apply set_nth_Forall; [exact HC|]. simpl. unfold canonL. rewrite Hb.
    apply (nth_error_Forall (Canon F) regs r (TLazy l) HC E).
  - apply post_same. exact HI.
  - apply post_same. exact HI.
Qed.

Local Arguments abs : simpl never.
Local Arguments l_index : simpl never.
Local Arguments l_replace : simpl never.
Local Arguments l_rows : simpl never.
Local Arguments s_index : simpl never.
Local Arguments s_replace : simpl never.
Local Arguments s_write : simpl never.
Local Arguments l_write : simpl never.
Local Arguments resolve : simpl never.
Local Arguments l_fill : simpl never.

Lemma step_index F hdr regs r ix :
  Forall (Inv F) regs ->
  step_post F regs (m_step cc F hdr regs (OIndex r ix)) (s_step F hdr (map (abs F) regs) (OIndex r ix)).
Proof.
  intros HI. simpl. rewrite nth_error_map'. destruct (nth_error regs r) as [t|] eqn:E; simpl; [|apply post_same; exact HI].
  assert (HIt : Inv F t) by (eapply nth_error_Forall; eauto).
  rewrite abs_length by exact HIt.
  destruct (resolve (t_len t) ix) as [sel|] eqn:ER; [|apply post_same; exact HI].
  pose proof (resolve_bound _ _ _ ER) as HB.
  destruct t as [l|t]; simpl in *.
  - destruct (l_index_ok F sel l HB HIt) as [HI' Habs].
    unfold step_post. simpl. split; [apply set_nth_Forall; auto|].
    split; [unfold set_reg; rewrite <- set_nth_map; simpl; rewrite Habs; reflexivity|].
    split; [reflexivity|]. intros HC. split; [reflexivity|].
    apply set_nth_Forall; [exact HC|]. simpl. unfold canonL. simpl.
    apply takeN_in; [exact HB|]. apply (nth_error_Forall (Canon F) regs r (TLazy l) HC E).
  - unfold step_post. simpl. split; [apply set_nth_Forall; simpl; auto|].
    split; [unfold set_reg; rewrite <- set_nth_map; reflexivity|].
    split; [reflexivity|]. intros HC. split; [reflexivity|]. apply set_nth_Forall; simpl; auto.
Qed.

Lemma step_at F hdr regs r i :
  Forall (Inv F) regs -> m_guard F regs (OAt r i) = true ->
  step_post F regs (m_step cc F hdr regs (OAt r i)) (s_step F hdr (map (abs F) regs) (OAt r i)).
Proof.
  intros HI HG. simpl in *. rewrite nth_error_map'. destruct (nth_error regs r) as [t|] eqn:E; simpl; [|apply post_same; exact HI].
  assert (HIt : Inv F t) by (eapply nth_error_Forall; eauto).
  rewrite abs_length by exact HIt.
  destruct (resolve (t_len t) (ITake [i])) as [sel|] eqn:ER; [|apply post_same; exact HI].
  pose proof (resolve_bound _ _ _ ER) as HB.
  destruct t as [l|t]; simpl in *.
  - apply negb_true_iff in HG. rewrite HG.
    destruct (l_index_ok F sel l HB HIt) as [HI' Habs].
    rewrite (l_rows_abs F _ HI'), Habs. apply post_same. exact HI.
  - apply post_same. exact HI.
Qed.

Lemma step_rep F hdr regs r f vals :
  Forall (Inv F) regs -> m_guard F regs (ORep r f vals) = true ->
  step_post F regs (m_step cc F hdr regs (ORep r f vals)) (s_step F hdr (map (abs F) regs) (ORep r f vals)).
Proof.
  intros HI HG. simpl in *. rewrite nth_error_map'. destruct (nth_error regs r) as [t|] eqn:E; simpl; [|apply post_same; exact HI].
  apply Nat.eqb_eq in HG.
  assert (HIt : Inv F t) by (eapply nth_error_Forall; eauto).
  destruct t as [l|t]; simpl in *.
  - destruct (l_replace_ok F f vals l HIt HG) as [HI' Habs].
    unfold step_post. simpl. split; [apply set_nth_Forall; auto|].
    split; [unfold set_reg; rewrite <- set_nth_map; simpl; rewrite Habs; reflexivity|].
    split; [reflexivity|]. intros HC. split; [reflexivity|].
    apply set_nth_Forall; [exact HC|]. simpl. unfold canonL. simpl.
    apply (nth_error_Forall (Canon F) regs r (TLazy l) HC E).
  - unfold step_post. simpl. split; [apply set_nth_Forall; simpl; auto|].
    split; [unfold set_reg; rewrite <- set_nth_map; reflexivity|].
    split; [reflexivity|]. intros HC. split; [reflexivity|]. apply set_nth_Forall; simpl; auto.
Qed.

Lemma step_tolist F hdr regs r :
  Forall (Inv F) regs -> m_guard F regs (OTolist r) = true ->
  step_post F regs (m_step cc F hdr regs (OTolist r)) (s_step F hdr (map (abs F) regs) (OTolist r)).
Proof.
  intros HI HG. simpl in *. rewrite nth_error_map'. destruct (nth_error regs r) as [[l|t]|] eqn:E; simpl;
    [|apply post_same; exact HI|apply post_same; exact HI].
  assert (HIl : InvL F l) by (apply (nth_error_Forall (Inv F) regs r (TLazy l) HI E)).
  destruct (l_fill F (all_fields F) l) as [ok l'] eqn:EF. simpl in HG. subst ok.
  destruct (l_fill_ok F _ l true l' HIl EF) as [HI' [Hb Hs]].
  unfold step_post. simpl. split; [apply set_nth_Forall; auto|].
  split; [symmetry; apply (abs_set_same F regs r l l' E Hb Hs)|].
  rewrite (l_rows_abs F l HIl). simpl. split; [reflexivity|]. intros HC. split; [reflexivity|].
  apply set_nth_Forall; [exact HC|]. simpl. unfold canonL. rewrite Hb.
  apply (nth_error_Forall (Canon F) regs r (TLazy l) HC E).
Qed.

Lemma step_write F hdr regs r :
  Forall (Inv F) regs -> m_guard F regs (OWrite r) = true ->
  step_post F regs (m_step cc F hdr regs (OWrite r)) (s_step F hdr (map (abs F) regs) (OWrite r)).
Proof.
  intros HI HG. simpl in *. rewrite nth_error_map'. destruct (nth_error regs r) as [[l|t]|] eqn:E; simpl;
    [|apply negb_true_iff in HG; rewrite HG; apply post_same; exact HI|apply post_same; exact HI].
  assert (HIl : InvL F l) by (apply (nth_error_Forall (Inv F) regs r (TLazy l) HI E)).
  destruct (l_write F [] l) as [b0|] eqn:E0; [|discriminate].
  destruct (l_write_hdr F [] hdr l b0 E0) as [b Hb]. rewrite Hb.
  unfold step_post. simpl. split; [exact HI|]. split; [reflexivity|]. split; [reflexivity|].
  intros HC. split; [|exact HC]. f_equal.
  apply (l_write_ok F hdr l b HIl); [|exact HG|exact Hb].
  apply (nth_error_Forall (Canon F) regs r (TLazy l) HC E).
Qed.

Lemma step_cat F hdr regs r srcs :
  Forall (Inv F) regs -> guard_with gc F regs (OCat r srcs) = true ->
  step_post F regs (m_step cc F hdr regs (OCat r srcs)) (s_step F hdr (map (abs F) regs) (OCat r srcs)).
Proof.
  intros HI HG. simpl in *. rewrite nth_error_map', get_regs_map.
  destruct (nth_error regs r) as [t0|] eqn:E; simpl; [|apply post_same; exact HI].
  destruct (get_regs regs srcs) as [ts|] eqn:EG; simpl; [|apply post_same; exact HI].
  destruct ts as [|t1 ts1].
  - simpl. apply post_same. exact HI.
  - assert (Hne : t1 :: ts1 <> []) by discriminate.
    pose proof (get_regs_Forall (Inv F) regs srcs _ HI EG) as HIts.
    destruct (Hcc F (t1 :: ts1) Hne HIts HG) as [t' [Et [HI' [Habs HC']]]].
    rewrite Et. unfold step_post. cbn [fst snd map].
    split; [apply set_nth_Forall; auto|].
    split; [unfold set_reg; rewrite <- set_nth_map; f_equal; rewrite Habs; reflexivity|].
    split; [reflexivity|]. intros HC. split; [reflexivity|].
    apply set_nth_Forall; [exact HC|]. apply HC'. apply (get_regs_Forall (Canon F) regs srcs _ HC EG).
Qed.

Lemma step_sel F hdr regs dst src ix :
  Forall (Inv F) regs ->
  step_post F regs (m_step cc F hdr regs (OSel dst src ix)) (s_step F hdr (map (abs F) regs) (OSel dst src ix)).
Proof.
  intros HI. simpl. rewrite !nth_error_map'.
  destruct (nth_error regs dst) as [t0|] eqn:E0; simpl; [|apply post_same; exact HI].
  destruct (nth_error regs src) as [t|] eqn:E; simpl; [|apply post_same; exact HI].
  assert (HIt : Inv F t) by (eapply nth_error_Forall; eauto).
  rewrite abs_length by exact HIt.
  destruct (resolve (t_len t) ix) as [sel|] eqn:ER; [|apply post_same; exact HI].
  pose proof (resolve_bound _ _ _ ER) as HB.
  destruct t as [l|t]; simpl in *.
  - destruct (l_index_ok F sel l HB HIt) as [HI' Habs].
    unfold step_post. simpl. split; [apply set_nth_Forall; auto|].
    split; [unfold set_reg; rewrite <- set_nth_map; simpl; rewrite Habs; reflexivity|].
    split; [reflexivity|]. intros HC. split; [reflexivity|].
    apply set_nth_Forall; [exact HC|]. simpl. unfold canonL. simpl.
    apply takeN_in; [exact HB|]. apply (nth_error_Forall (Canon F) regs src (TLazy l) HC E).
  - unfold step_post. simpl. split; [apply set_nth_Forall; simpl; auto|].
    split; [unfold set_reg; rewrite <- set_nth_map; reflexivity|].
    split; [reflexivity|]. intros HC. split; [reflexivity|]. apply set_nth_Forall; simpl; auto.
Qed.

Lemma step_writeread F hdr regs r :
  Forall (Inv F) regs -> m_guard F regs (OWriteRead r) = true ->
  step_post F regs (m_step cc F hdr regs (OWriteRead r)) (s_step F hdr (map (abs F) regs) (OWriteRead r)).
Proof.
  intros HI HG. simpl in *. rewrite nth_error_map'. destruct (nth_error regs r) as [[l|t]|] eqn:E; simpl;
    [|apply negb_true_iff in HG; rewrite HG; apply post_same; exact HI|apply post_same; exact HI].
  destruct (l_set l) eqn:ES; [|discriminate].
  assert (Hx : rows_of_cols dv (length (l_buf l)) (map (fun f => parse_col F f (l_buf l)) (all_fields F)) = abs F (TLazy l)).
  { unfold abs. apply rows_of_cols_ext. intros f _. unfold a_col. rewrite ES. reflexivity. }
  rewrite Hx. apply post_same. exact HI.
Qed.

Lemma step_ok F hdr regs o :
  Forall (Inv F) regs -> guard_with gc F regs o = true ->
  step_post F regs (m_step cc F hdr regs o) (s_step F hdr (map (abs F) regs) o).
Proof.
  intros HI HG. destruct o.
  - apply step_len; auto.
  - apply step_get; auto.
  - apply step_index; auto.
  - apply step_at; auto.
  - apply step_cat; auto.
  - apply step_rep; auto.
  - apply step_tolist; auto.
  - apply step_write; auto.
  - apply step_sel; auto.
  - apply step_writeread; auto.
Qed.

(* ================================================================ whole programs *)
Theorem refines_generic F hdr prog : forall regs,
  Forall (Inv F) regs ->
  guard_run_with gc cc F hdr regs prog = true ->
  map erase (m_run cc F hdr regs prog) = map erase (s_run F hdr (map (abs F) regs) prog)
  /\ (Forall (Canon F) regs -> m_run cc F hdr regs prog = s_run F hdr (map (abs F) regs) prog).
Proof.
  induction prog as [|o prog IH]; intros regs HI HG; simpl in *; [auto|].
  apply andb_true_iff in HG. destruct HG as [HG1 HG2].
  pose proof (step_ok F hdr regs o HI HG1) as HS. unfold step_post in HS.
  destruct (m_step cc F hdr regs o) as [regs' x].
  destruct (s_step F hdr (map (abs F) regs) o) as [sregs' x'].
  simpl in HS, HG2. destruct HS as [HI' [-> [He HC]]].
  destruct (IH regs' HI' HG2) as [IH1 IH2]. split.
  - simpl. rewrite He, IH1. reflexivity.
  - intros HCr. destruct (HC HCr) as [-> HC']. rewrite (IH2 HC'). reflexivity.
Qed.

End Steps.

(* ================================================================ the code as it is (first-operand keys) *)
Lemma m_guard_is F regs o : m_guard F regs o = guard_with cat_cond F regs o.
Proof. destruct o; reflexivity. Qed.
Lemma m_guard_run_is cc F hdr prog : forall regs,
  m_guard_run cc F hdr regs prog = guard_run_with cat_cond cc F hdr regs prog.
Proof. induction prog as [|o prog IH]; intros regs; simpl; [reflexivity|]. rewrite m_guard_is, IH. reflexivity. Qed.

Theorem refines_partial F hdr prog regs :
  Forall (Inv F) regs ->
  m_guard_run l_concat_pinned F hdr regs prog = true ->
  map erase (m_run l_concat_pinned F hdr regs prog) = map erase (s_run F hdr (map (abs F) regs) prog)
  /\ (Forall (Canon F) regs -> m_run l_concat_pinned F hdr regs prog = s_run F hdr (map (abs F) regs) prog).
Proof.
  intros HI HG. rewrite m_guard_run_is in HG.
  exact (refines_generic l_concat_pinned cat_cond t_concat_ok F hdr prog regs HI HG).
Qed.

(* ================================================================ the repaired concatenate (union of keys) *)
Lemma lookup_map_keys (g : nat -> list value) ks f :
  lookup f (map (fun k => (k, g k)) ks) = if existsb (Nat.eqb f) ks then Some (g f) else None.
Proof.
  induction ks as [|k ks IH]; simpl; [reflexivity|].
  destruct (Nat.eqb f k) eqn:E; simpl; [apply Nat.eqb_eq in E; subst; reflexivity|exact IH].
Qed.

Lemma has_false f st : has f st = false -> lookup f st = None.
Proof. unfold has. destruct (lookup f st); [discriminate|reflexivity]. Qed.

Lemma l_concat_ok F ls :
  ls <> [] -> Forall (InvL F) ls -> concat_parse_fails F ls = false ->
  exists l', l_concat F ls = Some l' /\ InvL F l'
             /\ abs F (TLazy l') = concat (map (fun l => abs F (TLazy l)) ls)
             /\ l_buf l' = concat (map l_buf ls).
Proof.
  intros Hne HI Hpf. destruct ls as [|first rest]; [contradiction|]. unfold l_concat.
  remember (first :: rest) as ls eqn:Hls. clear Hls Hne. rewrite Hpf.
  set (sk := filter (fun f => existsb (fun l => has f (l_set l)) ls) (all_fields F)).
  set (ck := filter (fun f => negb (existsb (fun l => has f (l_set l)) ls) && forallb (fun l => has f (l_comp l)) ls) (keys (l_comp first))).
  eexists. split; [reflexivity|].
  rewrite Forall_forall in HI.
  assert (Hlc : forall l f, In l ls -> l_col F l f = a_col F l f) by (intros; apply l_col_a_col; auto).
  assert (Hsk : forall f, In f (all_fields F) -> existsb (Nat.eqb f) sk = false ->
                forall l, In l ls -> lookup f (l_set l) = None).
  { intros f Hf Hn l Hl. apply has_false. destruct (has f (l_set l)) eqn:Eh; [|reflexivity].
    exfalso. assert (In f sk).
    { unfold sk. apply filter_In. split; [exact Hf|]. apply existsb_exists. exists l. auto. }
    apply existsb_eqb_in in H. congruence. }
  split; [|split; [|reflexivity]].
  - split; cbn [l_set l_buf l_comp].
    + intros f col Hf. rewrite lookup_map_keys in Hf.
      destruct (existsb (Nat.eqb f) sk); [|discriminate]. inversion Hf.
      rewrite !length_concat_sum, !map_map. f_equal. apply map_ext_in. intros l Hl.
      rewrite Hlc by exact Hl. apply a_col_length. apply HI. exact Hl.
    + intros f col Hf. rewrite lookup_map_keys in Hf.
      destruct (existsb (Nat.eqb f) ck) eqn:Ec; [|discriminate]. inversion Hf. clear Hf H0.
      apply existsb_eqb_in in Ec. unfold ck in Ec. apply filter_In in Ec. destruct Ec as [_ Ec].
      apply andb_true_iff in Ec. destruct Ec as [Ens Eall]. apply negb_true_iff in Ens.
      rewrite forallb_forall in Eall.
      rewrite parse_col_concat, !map_map. f_equal. apply map_ext_in. intros l Hl.
      specialize (Eall l Hl). unfold has in Eall. unfold l_col.
      assert (Es : lookup f (l_set l) = None).
      { apply has_false. destruct (has f (l_set l)) eqn:Eh; [|reflexivity].
        exfalso. assert (existsb (fun l0 => has f (l_set l0)) ls = true) by (apply existsb_exists; exists l; auto).
        congruence. }
      rewrite Es. destruct (lookup f (l_comp l)) eqn:Ecmp; [|discriminate].
      apply (proj2 (HI l Hl) f). exact Ecmp.
  - unfold abs at 1. cbn [l_buf]. rewrite length_concat_sum, map_map.
    transitivity (rows_of_cols dv (list_sum (map (fun l => length (l_buf l)) ls))
                    (map (fun f => concat (map (fun l => a_col F l f) ls)) (all_fields F))).
    2:{ apply (rows_of_cols_concat dv ls (fun l => length (l_buf l)) (a_col F) (all_fields F)).
        intros l f Hl _. apply a_col_length. apply HI. exact Hl. }
    apply rows_of_cols_ext. intros f Hf. unfold a_col at 1. cbn [l_set l_buf].
    rewrite lookup_map_keys. destruct (existsb (Nat.eqb f) sk) eqn:Es.
    + f_equal. apply map_ext_in. intros l Hl. apply Hlc. exact Hl.
    + rewrite parse_col_concat, map_map. f_equal. apply map_ext_in. intros l Hl.
      unfold a_col. rewrite (Hsk f Hf Es l Hl). reflexivity.
Qed.

Definition cat_cond_fixed (F : fmt) (ts : list table) : bool :=
  match all_lazy ts with
  | Some ls => if f_concat F then negb (concat_parse_fails F ls)
               else forallb (fun l => fst (l_fill F (all_fields F) l)) ls
  | None => match all_eager ts with Some _ => true | None => false end
  end.

Lemma t_concat_fixed_ok F ts :
  ts <> [] -> Forall (Inv F) ts -> cat_cond_fixed F ts = true ->
  exists t', t_concat l_concat F ts = Some t' /\ Inv F t'
             /\ abs F t' = concat (map (abs F) ts) /\ (Forall (Canon F) ts -> Canon F t').
Proof.
  intros Hne HI HG. unfold cat_cond_fixed in HG. unfold t_concat.
  destruct ts as [|t0 ts0]; [contradiction|]. remember (t0 :: ts0) as ts eqn:Hts.
  assert (Hne' : ts <> []) by (subst; discriminate). clear Hts Hne t0 ts0.
  destruct (all_lazy ts) as [ls|] eqn:EL.
  - apply all_lazy_spec in EL. subst ts.
    assert (HIl : Forall (InvL F) ls).
    { rewrite Forall_forall in *. intros l Hl. apply (HI (TLazy l)). apply in_map. exact Hl. }
    assert (Hls : ls <> []) by (intros ->; apply Hne'; reflexivity).
    destruct (f_concat F).
    + apply negb_true_iff in HG. destruct (l_concat_ok F ls Hls HIl HG) as [l' [E [HI' [Habs Hbuf]]]].
      rewrite E. simpl. exists (TLazy l'). split; [reflexivity|]. split; [exact HI'|].
      split; [rewrite Habs, map_map; reflexivity|].
      intros HC. simpl. unfold canonL. rewrite Hbuf. apply Forall_concat.
      rewrite Forall_forall in *. intros b Hb. apply in_map_iff in Hb. destruct Hb as [l [<- Hl]].
      apply (HC (TLazy l)). apply in_map. exact Hl.
    + rewrite HG. eexists. split; [reflexivity|]. split; [exact I|]. split; [|intros; exact I].
      unfold abs at 1. rewrite map_map. f_equal. apply map_ext_in. intros l Hl.
      apply l_rows_abs. rewrite Forall_forall in HIl. apply HIl. exact Hl.
  - destruct (all_eager ts) as [rs|] eqn:EE; [|discriminate].
    apply all_eager_spec in EE. subst ts. eexists. split; [reflexivity|]. split; [exact I|].
    split; [|intros; exact I]. unfold abs at 1. rewrite map_map. f_equal.
    unfold abs. rewrite map_id. reflexivity.
Qed.

Lemma m_guard_fixed_is F regs o : m_guard_fixed F regs o = guard_with cat_cond_fixed F regs o.
Proof. destruct o; reflexivity. Qed.
Lemma m_guard_fixed_run_is cc F hdr prog : forall regs,
  m_guard_fixed_run cc F hdr regs prog = guard_run_with cat_cond_fixed cc F hdr regs prog.
Proof. induction prog as [|o prog IH]; intros regs; simpl; [reflexivity|]. rewrite m_guard_fixed_is, IH. reflexivity. Qed.

Theorem refines_fixed F hdr prog regs :
  Forall (Inv F) regs ->
  m_guard_fixed_run l_concat F hdr regs prog = true ->
  map erase (m_run l_concat F hdr regs prog) = map erase (s_run F hdr (map (abs F) regs) prog)
  /\ (Forall (Canon F) regs -> m_run l_concat F hdr regs prog = s_run F hdr (map (abs F) regs) prog).
Proof.
  intros HI HG. rewrite m_guard_fixed_run_is in HG.
  exact (refines_generic l_concat cat_cond_fixed t_concat_fixed_ok F hdr prog regs HI HG).
Qed.

(* ================================================================ the initial state *)
Lemma parse_row_map ks cells s :
  length cells = length ks ->
  parse_row ks cells = map (fun f => parse (nth (f - s) ks KStr) (nth (f - s) cells [])) (seq s (length ks)).
Proof.
  revert cells s. induction ks as [|k ks IH]; intros [|c cells] s H; simpl in *; try discriminate; [reflexivity|].
  rewrite Nat.sub_diag. f_equal. rewrite (IH cells (S s)) by lia.
  apply map_ext_in. intros f Hf. apply in_seq in Hf.
  replace (f - s) with (S (f - S s)) by lia. reflexivity.
Qed.

Lemma fresh_inv F recs : InvL F (fresh recs).
Proof. split; simpl; intros; discriminate. Qed.

Lemma abs_fresh F recs :
  Forall (fun r => length (r_fields r) = nfields F) recs ->
  abs F (TLazy (fresh recs)) = rows_of_file F recs.
Proof.
  intros H. unfold abs, rows_of_file, rows_of_cols. simpl l_buf.
  rewrite <- (map_nth_seq dr recs) at 2. rewrite map_map.
  apply map_ext_in. intros i Hi. apply in_seq in Hi. simpl in Hi.
  rewrite Forall_forall in H. specialize (H (nth i recs dr) (nth_In _ _ (proj2 Hi))).
  rewrite (parse_row_map (f_kinds F) _ 0) by exact H.
  rewrite map_map. unfold all_fields, nfields. apply map_ext_in. intros f Hf.
  rewrite Nat.sub_0_r. unfold a_col, fresh. simpl. unfold parse_col.
  rewrite (nth_map_lt (fun r => parse (kind_of F f) (field f r)) recs dr dv i) by lia.
  reflexivity.
Qed.

(* a file read in chunks and concatenated starts in the same abstract state as the file read whole *)
Lemma chunked_init F chunks :
  chunks <> [] -> f_concat F = true ->
  Forall (Forall (fun r => length (r_fields r) = nfields F)) chunks ->
  exists t, t_concat l_concat_pinned F (map (fun c => TLazy (fresh c)) chunks) = Some t
            /\ Inv F t /\ abs F t = rows_of_file F (concat chunks)
            /\ (Forall (Forall (fun r => rec_canon F r = true)) chunks -> Canon F t).
Proof.
  intros Hne Hc Hwf.
  assert (Hn : map (fun c => TLazy (fresh c)) chunks <> []) by (destruct chunks; [contradiction|discriminate]).
  assert (HI : Forall (Inv F) (map (fun c => TLazy (fresh c)) chunks)).
  { apply Forall_forall. intros t Ht. apply in_map_iff in Ht. destruct Ht as [c [<- _]]. apply fresh_inv. }
  assert (HG : cat_cond F (map (fun c => TLazy (fresh c)) chunks) = true).
  { unfold cat_cond.
    assert (EL : all_lazy (map (fun c => TLazy (fresh c)) chunks) = Some (map fresh chunks)).
    { clear. induction chunks as [|c cs IH]; simpl; [reflexivity|]. rewrite IH. reflexivity. }
    rewrite EL, Hc. destruct chunks as [|c cs]; [contradiction|]. simpl.
    clear. induction cs as [|c' cs IH]; simpl; [reflexivity|exact IH]. }
  destruct (t_concat_ok F _ Hn HI HG) as [t [E [HIt [Habs HC]]]].
  exists t. split; [exact E|]. split; [exact HIt|]. split.
  - rewrite Habs, map_map. unfold rows_of_file. rewrite concat_map. f_equal.
    apply map_ext_in. intros c Hin. rewrite Forall_forall in Hwf. apply abs_fresh. apply Hwf. exact Hin.
  - intros Hcan. apply HC. apply Forall_forall. intros t' Ht'. apply in_map_iff in Ht'.
    destruct Ht' as [c [<- Hin]]. simpl. unfold canonL. simpl. rewrite Forall_forall in Hcan. apply Hcan. exact Hin.
Qed.

(* file level: both registers hold the table read from the same well-formed file *)
Theorem file_level_partial F hdr recs prog :
  Forall (fun r => length (r_fields r) = nfields F) recs ->
  m_guard_run l_concat_pinned F hdr [TLazy (fresh recs); TLazy (fresh recs)] prog = true ->
  let lazy_obs := m_run l_concat_pinned F hdr [TLazy (fresh recs); TLazy (fresh recs)] prog in
  let eager_obs := s_run F hdr [rows_of_file F recs; rows_of_file F recs] prog in
  map erase lazy_obs = map erase eager_obs
  /\ (Forall (fun r => rec_canon F r = true) recs -> lazy_obs = eager_obs).
Proof.
  intros Hwf HG. simpl.
  assert (HI : Forall (Inv F) [TLazy (fresh recs); TLazy (fresh recs)]) by (constructor; [apply fresh_inv|constructor; [apply fresh_inv|constructor]]).
  destruct (refines_partial F hdr prog _ HI HG) as [H1 H2].
  assert (Hm : map (abs F) [TLazy (fresh recs); TLazy (fresh recs)] = [rows_of_file F recs; rows_of_file F recs])
    by (cbn [map]; rewrite (abs_fresh F recs Hwf); reflexivity).
  rewrite Hm in H1, H2. split; [exact H1|].
  intros HC. apply H2. constructor; [exact HC|constructor; [exact HC|constructor]].
Qed.

Theorem file_level_fixed F hdr recs prog :
  Forall (fun r => length (r_fields r) = nfields F) recs ->
  m_guard_fixed_run l_concat F hdr [TLazy (fresh recs); TLazy (fresh recs)] prog = true ->
  let lazy_obs := m_run l_concat F hdr [TLazy (fresh recs); TLazy (fresh recs)] prog in
  let eager_obs := s_run F hdr [rows_of_file F recs; rows_of_file F recs] prog in
  map erase lazy_obs = map erase eager_obs
  /\ (Forall (fun r => rec_canon F r = true) recs -> lazy_obs = eager_obs).
Proof.
  intros Hwf HG. simpl.
  assert (HI : Forall (Inv F) [TLazy (fresh recs); TLazy (fresh recs)]) by (constructor; [apply fresh_inv|constructor; [apply fresh_inv|constructor]]).
  destruct (refines_fixed F hdr prog _ HI HG) as [H1 H2].
  assert (Hm : map (abs F) [TLazy (fresh recs); TLazy (fresh recs)] = [rows_of_file F recs; rows_of_file F recs])
    by (cbn [map]; rewrite (abs_fresh F recs Hwf); reflexivity).
  rewrite Hm in H1, H2. split; [exact H1|].
  intros HC. apply H2. constructor; [exact HC|constructor; [exact HC|constructor]].
Qed.

(* ================================================================ where the unguarded statement fails (witnesses) *)
Definition W_bed3 : fmt :=
  {| f_kinds := [KStr; KInt 0; KInt 0]; f_layout := LDelim; f_concat := true; f_nowrite := []; f_ragged := false; f_eager_write_fails := false; f_write_needs_context := false; f_default_hdr := []; f_sid := [0] |}.
Definition W_fastq : fmt :=
  {| f_kinds := [KStr; KStr; KStr]; f_layout := LFastq; f_concat := false; f_nowrite := [2]; f_ragged := false; f_eager_write_fails := false; f_write_needs_context := false; f_default_hdr := []; f_sid := [] |}.
(* "c\t1\t2\n" *)
Definition W_rec : rawrec := {| r_fields := [[99%Z]; [49%Z]; [50%Z]]; r_raw := [99; 9; 49; 9; 50; 10]%Z |}.
(* "@r\nA\n+\nI\n" *)
Definition W_fq : rawrec := {| r_fields := [[114%Z]; [65%Z]; [73%Z]]; r_raw := [64; 114; 10; 65; 10; 43; 10; 73; 10]%Z |}.
Definition start (recs : list rawrec) : list table := [TLazy (fresh recs); TLazy (fresh recs)].
Definition wf (F : fmt) (recs : list rawrec) : Prop :=
  Forall (fun r => length (r_fields r) = nfields F) recs /\ Forall (fun r => rec_canon F r = true) recs.

Lemma W_rec_wf : wf W_bed3 [W_rec].
Proof. split; repeat constructor. Qed.
Lemma W_fq_wf : wf W_fastq [W_fq].
Proof. split; repeat constructor. Qed.

(* a column replaced in the second operand only is silently dropped by concatenate *)
Lemma concat_drops_refuted :
  exists F hdr recs prog, wf F recs /\
    map erase (m_run l_concat_pinned F hdr (start recs) prog)
    <> map erase (s_run F hdr [rows_of_file F recs; rows_of_file F recs] prog).
Proof.
  exists W_bed3, [], [W_rec], [ORep 1 1 [VI 7]; OCat 0 [0; 1]; OGet 0 1].
  split; [exact W_rec_wf|]. vm_compute. discriminate.
Qed.
(* a field cached (or replaced) in the first operand only makes concatenate raise *)
Lemma concat_keyerror_refuted :
  exists F hdr recs prog, wf F recs /\
    map erase (m_run l_concat_pinned F hdr (start recs) prog)
    <> map erase (s_run F hdr [rows_of_file F recs; rows_of_file F recs] prog).
Proof.
  exists W_bed3, [], [W_rec], [OGet 0 1; OCat 0 [0; 1]; OLen 0].
  split; [exact W_rec_wf|]. vm_compute. discriminate.
Qed.
(* the same two programs agree with the eager table under the repaired concatenate *)
Lemma concat_fixed_witnesses :
  m_run l_concat W_bed3 [] (start [W_rec]) [ORep 1 1 [VI 7]; OCat 0 [0; 1]; OGet 0 1; OWrite 0]
  = s_run W_bed3 [] [rows_of_file W_bed3 [W_rec]; rows_of_file W_bed3 [W_rec]] [ORep 1 1 [VI 7]; OCat 0 [0; 1]; OGet 0 1; OWrite 0]
  /\ m_run l_concat W_bed3 [] (start [W_rec]) [OGet 0 1; OCat 0 [0; 1]; OLen 0]
  = s_run W_bed3 [] [rows_of_file W_bed3 [W_rec]; rows_of_file W_bed3 [W_rec]] [OGet 0 1; OCat 0 [0; 1]; OLen 0].
Proof. vm_compute. split; reflexivity. Qed.
(* a lazily read table cannot be concatenated with the materialised result of an earlier concatenate *)
Lemma concat_mixed_refuted :
  exists F hdr recs prog, wf F recs /\
    map erase (m_run l_concat F hdr (start recs) prog)
    <> map erase (s_run F hdr [rows_of_file F recs; rows_of_file F recs] prog).
Proof.
  exists W_fastq, [], [W_fq], [OCat 0 [0; 1]; OCat 0 [0; 1]].
  split; [exact W_fq_wf|]. vm_compute. discriminate.
Qed.
(* a replaced column the writer cannot format (FASTQ quality) *)
Lemma write_replaced_refuted :
  exists F hdr recs prog, wf F recs /\
    map erase (m_run l_concat F hdr (start recs) prog)
    <> map erase (s_run F hdr [rows_of_file F recs; rows_of_file F recs] prog).
Proof.
  exists W_fastq, [], [W_fq], [ORep 0 2 [VS [35%Z]]; OWrite 0].
  split; [exact W_fq_wf|]. vm_compute. discriminate.
Qed.
(* a SequenceID column of a table indexed down to zero entries *)
Lemma empty_sid_refuted :
  exists F hdr recs prog, wf F recs /\
    map erase (m_run l_concat F hdr (start recs) prog)
    <> map erase (s_run F hdr [rows_of_file F recs; rows_of_file F recs] prog).
Proof.
  exists W_bed3, [], [W_rec], [OIndex 0 (ITake []); OGet 0 0].
  split; [exact W_rec_wf|]. vm_compute. discriminate.
Qed.
(* pass-through: on a file that is not canonically spelled the lazy writer returns the original bytes *)
Lemma noncanonical_write_differs :
  exists F hdr recs prog,
    Forall (fun r => length (r_fields r) = nfields F) recs /\
    m_guard_run l_concat_pinned F hdr (start recs) prog = true /\
    m_run l_concat_pinned F hdr (start recs) prog <> s_run F hdr [rows_of_file F recs; rows_of_file F recs] prog.
Proof.
  exists W_bed3, [], [{| r_fields := [[99%Z]; [48%Z; 49%Z]; [50%Z]]; r_raw := [99; 9; 48; 49; 9; 50; 10]%Z |}], [OWrite 0].
  split; [repeat constructor|]. split; [reflexivity|]. vm_compute. discriminate.
Qed.

(* non-vacuity: a six-step program over both registers that satisfies the guard, and what it produces *)
Definition W_recs : list rawrec :=
  [W_rec; {| r_fields := [[100%Z]; [51%Z; 48%Z]; [52%Z]]; r_raw := [100; 9; 51; 48; 9; 52; 10]%Z |}].
Definition W_prog : list op :=
  [OGet 0 1; OGet 1 1; OIndex 0 (ISlice None None (-1)); OIndex 1 (ITake [1; 1; 0]%Z); OCat 0 [0; 1];
   ORep 0 2 [VI 5; VI 6; VI 7; VI 8; VI 9]; OIndex 0 (IMask [true; false; true; true; false]); OAt 0 (-1); OTolist 0; OWrite 0].
Lemma nonvacuous :
  wf W_bed3 W_recs
  /\ m_guard_run l_concat_pinned W_bed3 [35; 10]%Z (start W_recs) W_prog = true
  /\ nth 9 (m_run l_concat_pinned W_bed3 [35; 10]%Z (start W_recs) W_prog) XErr
     = XBytes [35; 10; 100; 9; 51; 48; 9; 53; 10; 100; 9; 51; 48; 9; 55; 10; 100; 9; 51; 48; 9; 56; 10]%Z.
Proof. split; [split; repeat constructor|]. split; vm_compute; reflexivity. Qed.

(* Proofs/C04_replcrlf.v — round 6: the replaced-field path down to bytes for the formats with a rest-of-line field
   (VCFBuffer2: 8 plain fields + genotype columns; SAM: 11 mandatory fields + tags) on files with LF **or CRLF** line ends.
   What the code does on a CRLF source: VCFBuffer2's rest-of-line text (get_fields_by_range, "up to the byte before the
   line break") carries the CR, so the joined row ends in CR LF again; SAM's extra field ends before the CR
   (_get_extra_field), the 11th field excludes it (_modify_for_carriage_return), so the joined row ends in LF. *)
From Coq Require Import ZArith List Bool Lia.
From BNP Require Import Base.Prims Base.PrimsFacts Model.C04 Proofs.C04 Proofs.C04_raw Proofs.C04_lines Proofs.C04_sam
  Proofs.C04_crlf Proofs.C04_samcrlf Proofs.C04_repl.
Import ListNotations.
Open Scope Z_scope.

(* text from the start of column i to [extra] bytes past the end of the joined columns *)
Lemma rest_slice2 cols : forall i pos (pre rest : list Z) extra, (i < length cols)%nat -> len pre = pos -> 0 <= extra <= len rest ->
  slice (fst (nth i (col_offsets pos cols) (0, 0))) (len pre + len (intercalate [TAB] cols) + extra)
        (pre ++ intercalate [TAB] cols ++ rest) = intercalate [TAB] (skipn i cols) ++ firstn (Z.to_nat extra) rest.
Proof.
  induction cols as [|c cols IH]; intros i pos pre rest extra Hi Hp Hx; [simpl in Hi; lia|].
  destruct i as [|i].
  - cbn [col_offsets nth fst skipn]. subst pos. set (I := intercalate [TAB] (c :: cols)).
    pose proof (len_nonneg I).
    rewrite slice_app_r by lia. replace (len pre - len pre) with 0 by lia.
    replace (len pre + len I + extra - len pre) with (len I + extra) by lia.
    rewrite slice_app_split by lia. simpl skipn. f_equal.
    replace (len I + extra - len I) with extra by lia. apply slice_0_firstn.
  - destruct cols as [|c' r]; [simpl in Hi; lia|].
    cbn [col_offsets nth skipn]. rewrite intercalate_cons2.
    specialize (IH i (pos + len c + 1) (pre ++ c ++ [TAB]) rest extra).
    rewrite <- !app_assoc in IH. rewrite <- !app_assoc.
    replace (len pre + len (c ++ [TAB] ++ intercalate [TAB] (c' :: r))) with (len (pre ++ c ++ [TAB]) + len (intercalate [TAB] (c' :: r)))
      by (rewrite !len_app; lia).
    apply IH; [simpl in *; lia| |exact Hx]. rewrite !len_app. change (len [TAB]) with 1. lia.
Qed.

Lemma intercalate_snoc_app (sep : list Z) X (a b : list Z) :
  intercalate sep (X ++ [a ++ b]) = intercalate sep (X ++ [a]) ++ b.
Proof.
  induction X as [|x X IH]; [simpl; reflexivity|].
  change ((x :: X) ++ [a ++ b]) with (x :: (X ++ [a ++ b])). change ((x :: X) ++ [a]) with (x :: (X ++ [a])).
  destruct (X ++ [a ++ b]) as [|u U] eqn:E1; [destruct X; discriminate|].
  destruct (X ++ [a]) as [|w W] eqn:E2; [destruct X; discriminate|].
  rewrite (intercalate_cons2 sep x u U), (intercalate_cons2 sep x w W), IH, <- !app_assoc. reflexivity.
Qed.

(* rows rendered with their own terminator are accepted (first variant) *)
Lemma match_rows_own f rows : tabular f ->
  match_rows f rows (concat (map (fun r => raw_of f (s_cols r) [] (s_eol r)) rows)) = true.
Proof.
  intros Hf. induction rows as [|r rows IH]; [reflexivity|].
  cbn [match_rows map concat].
  assert (E : row_variants f r = [raw_of f (s_cols r) [] (s_eol r); raw_of f (s_cols r) [] [LF]])
    by (destruct f; try contradiction; reflexivity).
  rewrite E. cbn [map first_some]. rewrite is_prefix_app. exact IH.
Qed.

Definition rec_rest2 (f : fmt) (e : list Z) (g : grec) : Prop :=
  g_eol g = e /\
  match f with
  | FSam => 11 <= len (g_cols g) /\ Forall (fun c : list Z => c <> []) (skipn 11 (g_cols g)) /\ Forall clean (g_cols g)
  | _ => 9 <= len (g_cols g)
  end.
(* what the rest-of-line text carries besides the columns, and the terminator of a re-joined row *)
Definition rest_cr (f : fmt) (e : list Z) : list Z := match f with FSam => [] | _ => removelast e end.
Definition out_eol (f : fmt) (e : list Z) : list Z := match f with FSam => [LF] | _ => e end.

Lemma rec_rest2_lf f g : rec_rest2 f [LF] g -> rec_rest f g.
Proof. intros (A & B). split; auto. Qed.

Lemma plain_field_gview2 f m e g i : rest_fmt f m -> rec_rest2 f e g -> 0 <= i < m ->
  a_field_text f i (gview f g) = nth (Z.to_nat i) (g_cols g) [].
Proof.
  intros [(-> & ->) | (-> & ->)] (He & Hl) Hi.
  - unfold a_field_text. destruct (Z.eqb_spec i 8); [lia|]. apply a_field_gview; [exact I|discriminate|]. unfold len in Hl. lia.
  - unfold a_field_text. destruct (Z.eqb_spec i 11); [lia|]. destruct Hl as (Hl & _ & _).
    unfold a_field, gview. cbn [a_rec a_rel]. rewrite nth_firstn_lt by lia.
    unfold g_raw, raw_of. apply (col_slice (g_cols g) (Z.to_nat i) 0 [] (g_eol g)); auto. unfold len in Hl. lia.
Qed.

Lemma rest_field_gview2 f m e g : rest_fmt f m -> (e = [LF] \/ e = [CR; LF]) -> rec_rest2 f e g ->
  a_field_text f m (gview f g) = intercalate [TAB] (skipn (Z.to_nat m) (g_cols g)) ++ rest_cr f e.
Proof.
  intros [(-> & ->) | (-> & ->)] Hee (He & Hl).
  - unfold a_field_text. change (8 =? 8) with true. cbv iota. unfold a_rest, gview. cbn [a_rec a_rel].
    unfold g_raw, raw_of. rewrite He, len_app. unfold rest_cr.
    assert (H8 : (8 < length (g_cols g))%nat) by (unfold len in Hl; lia).
    destruct Hee as [-> | ->].
    + change (len [LF]) with 1.
      replace (len (intercalate [TAB] (g_cols g)) + 1 - 1) with (len (@nil Z) + len (intercalate [TAB] (g_cols g)) + 0) by (change (len (@nil Z)) with 0; lia).
      apply (rest_slice2 (g_cols g) 8 0 [] [LF] 0); auto. change (len [LF]) with 1. lia.
    + change (len [CR; LF]) with 2.
      replace (len (intercalate [TAB] (g_cols g)) + 2 - 1) with (len (@nil Z) + len (intercalate [TAB] (g_cols g)) + 1) by (change (len (@nil Z)) with 0; lia).
      apply (rest_slice2 (g_cols g) 8 0 [] [CR; LF] 1); auto. change (len [CR; LF]) with 2. lia.
  - destruct Hl as (Hl & _ & Hclean). unfold a_field_text. change (11 =? 11) with true. cbv iota. unfold a_extra, gview. cbn [a_rec a_rel].
    unfold rest_cr. rewrite app_nil_r.
    set (L := col_offsets 0 (g_cols g)). set (I := intercalate [TAB] (g_cols g)).
    assert (HL : length L = length (g_cols g)) by apply length_col_offsets.
    assert (Hraw : g_raw FSam g = I ++ e) by (unfold g_raw, raw_of; rewrite He; reflexivity).
    rewrite Hraw, len_app. pose proof (len_nonneg I) as HI0.
    assert (Hnc : Forall (fun b => b <> CR) I) by (apply no_cr_intercalate; auto).
    assert (Hee' : extra_end (I ++ e) (len I + len e) = len I).
    { unfold extra_end. destruct Hee as [-> | ->].
      - change (len [LF]) with 1. rewrite nthZ_no_cr; [lia|]. apply Forall_app. split; [exact Hnc|].
        constructor; [unfold LF, CR; lia|constructor].
      - change (len [CR; LF]) with 2. replace (Z.max (len I + 2 - 1 - 1) 0) with (len I) by lia.
        rewrite (nthZ_mid I [LF] CR). rewrite Z.eqb_refl. lia. }
    rewrite Hee'.
    assert (Hl' : (11 <= length (g_cols g))%nat) by (unfold len in Hl; lia).
    assert (Hlast : last (firstn 11 L) (0, 0) = nth 10 L (0, 0)).
    { rewrite (last_nth (firstn 11 L)). rewrite firstn_length.
      replace (Nat.min 11 (length L) - 1)%nat with 10%nat by lia. apply nth_firstn_lt. lia. }
    rewrite Hlast.
    assert (Hok := col_offsets_ok (g_cols g) 0). fold L in Hok.
    assert (Hne : g_cols g <> []) by (intro Q; rewrite Q in Hl'; simpl in Hl'; lia).
    rewrite <- (len_intercalate (g_cols g) Hne) in Hok. fold I in Hok.
    destruct (Z.eq_dec (len (g_cols g)) 11) as [E11|N11].
    + assert (Hn10 : nth 10 L (0, 0) = last L (0, 0)).
      { rewrite (last_nth L). f_equal. unfold len in E11. lia. }
      rewrite Hn10. pose proof (col_offsets_last_end (g_cols g) 0 Hne) as Hend. fold L I in Hend.
      replace (fst (last L (0, 0)) + snd (last L (0, 0)) + 1) with (len I + 1) by lia.
      replace (len I - (len I + 1)) with (-1) by lia. change (Z.max (-1) 0) with 0.
      rewrite slice_empty by lia. rewrite skipn_all2 by (unfold len in E11; lia). reflexivity.
    + assert (H12 : (11 < length (g_cols g))%nat) by (unfold len in *; lia).
      pose proof (col_offsets_next (g_cols g) 10 0 H12) as Hnx. fold L in Hnx.
      rewrite <- Hnx.
      assert (Hin : In (nth 11 L (0, 0)) L) by (apply nth_In; lia).
      rewrite Forall_forall in Hok. destruct (Hok _ Hin) as (A & B & C).
      set (st := fst (nth 11 L (0, 0))) in *.
      replace (Z.max (len I - st) 0) with (len I - st) by lia.
      replace (st + (len I - st)) with (len (@nil Z) + len I) by (change (len (@nil Z)) with 0; lia).
      apply (rest_slice (g_cols g) 11 0 [] e); auto.
Qed.

Lemma rest_join2 v f m e g X : rest_fmt f m -> (e = [LF] \/ e = [CR; LF]) -> rec_rest2 f e g -> (f = FSam -> v_samtab v = true) ->
  join_row v f (X ++ [intercalate [TAB] (skipn (Z.to_nat m) (g_cols g)) ++ rest_cr f e])
  = raw_of f (X ++ skipn (Z.to_nat m) (g_cols g)) [] (out_eol f e).
Proof.
  intros Hrf Hee Hg Hv.
  assert (Hlf : rec_rest f {| g_cols := g_cols g; g_eol := [LF] |}) by (destruct Hg as (_ & B); split; auto).
  destruct Hrf as [(-> & ->) | (-> & ->)].
  - unfold rest_cr, out_eol. destruct Hee as [-> | ->].
    + simpl removelast. rewrite app_nil_r.
      apply (rest_join v (FVcf 9) 8 {| g_cols := g_cols g; g_eol := [LF] |} X); auto. left; split; reflexivity.
    + change (removelast [CR; LF]) with [CR]. unfold join_row, raw_of.
      rewrite intercalate_snoc_app, intercalate_flat, <- app_assoc; [reflexivity|].
      destruct Hg as (_ & Hl). intro Q. assert (length (skipn (Z.to_nat 8) (g_cols g)) = 0%nat) by (rewrite Q; reflexivity).
      rewrite skipn_length in H. unfold len in Hl. lia.
  - unfold rest_cr, out_eol. rewrite app_nil_r.
    apply (rest_join v FSam 11 {| g_cols := g_cols g; g_eol := [LF] |} X); auto. right; split; reflexivity.
Qed.

Theorem rest_program_end_to_end2 v f m e recs x0 p out :
  rest_fmt f m -> (f = FSam -> v_samtab v = true) -> (e = [LF] \/ e = [CR; LF]) ->
  read v f (layout f recs) = Some (SLazy x0 []) -> Inv x0 -> view x0 = map (gview f) recs ->
  Forall (rec_rest2 f e) recs -> fields_ok m p = true ->
  model_out_v v f (layout f recs) p = Some out -> spec_out_ok f recs p (Some out) = true.
Proof.
  intros Hrf Hv Hee Hread I0 V0 Hrecs Hfo Hm.
  assert (Hf : tabular f) by (destruct Hrf as [(-> & _) | (-> & _)]; exact I).
  assert (Hcid : col_id f) by (destruct Hrf as [(-> & _) | (-> & _)]; intros j; reflexivity).
  assert (Hm0 : 0 <= m) by (destruct Hrf as [(_ & ->) | (_ & ->)]; lia).
  assert (Hn : n_fields f = m + 1) by (destruct Hrf as [(-> & ->) | (-> & ->)]; reflexivity).
  assert (Hnf : Forall (fun g => 0 <= m <= len (g_cols g)) recs).
  { eapply Forall_impl; [|exact Hrecs]. intros g (_ & Hl). destruct Hrf as [(-> & ->) | (-> & ->)]; [lia|destruct Hl; lia]. }
  assert (W : width_ok f (view x0)).
  { rewrite V0. destruct Hrf as [(-> & ->) | (-> & ->)]; simpl.
    - intros _. unfold width_gt. rewrite Forall_map. eapply Forall_impl; [|exact Hrecs]. intros g (_ & Hl). simpl.
      rewrite length_col_offsets. unfold len in Hl. lia.
    - unfold width_gt. rewrite !Forall_map. split.
      + eapply Forall_impl; [|exact Hrecs]. intros g (_ & Hl & _).
        unfold gview; cbn [a_rel]. rewrite firstn_length, length_col_offsets. unfold len in Hl. lia.
      + eapply Forall_impl; [|exact Hrecs]. intros g (He & Hl & _).
        unfold gview; cbn [a_rec]. unfold g_raw, raw_of. rewrite He, len_app.
        assert (Hne : g_cols g <> []) by (intro Q; rewrite Q in Hl; change (len (@nil (list Z))) with 0 in Hl; lia).
        pose proof (len_intercalate (g_cols g) Hne) as HI.
        pose proof (len_le_sum (g_cols g)).
        assert (1 <= len e) by (destruct Hee as [-> | ->]; [change (len [LF]) with 1|change (len [CR; LF]) with 2]; lia). lia. }
  unfold model_out_v in Hm. rewrite Hread in Hm.
  destruct (run f (SLazy x0 []) p) as [st|] eqn:Hrun; try discriminate.
  destruct (spec_rows_run f m recs x0 Hf Hcid I0 V0 Hnf p st Hfo Hrun) as (Rows & Gnf & Ginc).
  assert (Hc : has_concatenate f = true) by (destruct f; try contradiction; reflexivity).
  pose proof (program_write v f x0 p out I0 W (or_introl Hc)) as PW. rewrite Hrun in PW. specialize (PW Hm).
  unfold spec_out_ok.
  destruct (spec_eval f (map (srow_of f) recs) p) as [rows pure] eqn:Esp. simpl in Rows.
  destruct pure.
  - assert (Hp : snd (spec_eval f (map (srow_of f) recs) p) = true) by (rewrite Esp; reflexivity).
    destruct (pure_flag _ _ _ Hp) as (Hcf & Hrf').
    pose proof (selection_meets_spec v f recs x0 p out I0 W V0 Hcf Hrf') as S. rewrite Hrun in S. specialize (S Hm).
    unfold spec_out_ok in S. rewrite Esp in S. exact S.
  - rewrite V0, aeval_geval in PW by auto. set (G := geval recs p) in *.
    destruct (sv_eval p) as [|kc sv'] eqn:Esv.
    + subst out. rewrite Rows. rewrite cur_rows_nil by auto.
      replace (map a_rec (map (gview f) G)) with (map s_raw (map (srow_of f) G))
        by (rewrite !map_map; apply map_ext; intros g; destruct f; try contradiction; reflexivity).
      apply match_rows_raw_tab; auto. rewrite Forall_map. apply Forall_forall. intros g _.
      unfold raw_row, srow_of; simpl. unfold g_raw. destruct f; try contradiction; reflexivity.
    + assert (Hout : out = concat (map (fun r => raw_of f (s_cols r) [] (out_eol f e)) rows)).
      { subst out. f_equal. rewrite Rows. unfold render_rows, cur_rows. rewrite map_length, map_map.
        apply map_ext_in. intros k Hk. apply in_seq in Hk. unfold render_row, cur_row; cbn [s_cols].
        assert (Hin : In (nth k G dummy_grec) G) by (apply nth_In; lia).
        assert (Hg : rec_rest2 f e (nth k G dummy_grec)) by (rewrite Forall_forall in Hrecs; apply Hrecs; apply Ginc; exact Hin).
        replace (nth k (map (gview f) G) dummy_arow) with (gview f (nth k G dummy_grec))
          by (rewrite <- (gview_dummy f Hf); symmetry; apply map_nth).
        rewrite Hn, arange_snoc, map_app by auto. cbn [map].
        rewrite <- Esv. rewrite (sv_none_beyond m p Hfo m) by lia.
        rewrite (rest_field_gview2 f m e _ Hrf Hee Hg). rewrite (rest_join2 v f m e _ _ Hrf Hee Hg Hv).
        f_equal. unfold cur_cols. f_equal. apply map_ext_in. intros i Hi. apply In_arange in Hi.
        destruct (sv_get (sv_eval p) i); [reflexivity|]. apply (plain_field_gview2 f m e); auto. }
      assert (Heol : Forall (fun r => s_eol r = e) rows).
      { rewrite Rows. unfold cur_rows. rewrite Forall_map. apply Forall_forall. intros k Hk. apply in_seq in Hk.
        cbn [cur_row s_eol].
        assert (Hin : In (nth k G dummy_grec) recs) by (apply Ginc; apply nth_In; lia).
        rewrite Forall_forall in Hrecs. destruct (Hrecs _ Hin) as (He & _). exact He. }
      rewrite Hout.
      assert (Hcase : out_eol f e = [LF] \/ out_eol f e = e) by (destruct Hrf as [(-> & _) | (-> & _)]; simpl; auto).
      destruct Hcase as [Hc1 | Hc1]; rewrite Hc1.
      * apply match_rows_lf; auto. eapply Forall_impl; [|exact Heol]. intros r Hr. rewrite Hr. exact Hee.
      * replace (map (fun r : srow => raw_of f (s_cols r) [] e) rows) with (map (fun r : srow => raw_of f (s_cols r) [] (s_eol r)) rows)
          by (apply map_ext_Forall; eapply Forall_impl; [|exact Heol]; intros r Hr; rewrite Hr; reflexivity).
        apply match_rows_own; auto.
Qed.

(* SAM (repaired join), LF or CRLF files: every accepted program, replacements of any of the 11 mandatory fields included *)
Theorem sam_program_end_to_end2 v e recs p out :
  v_samtab v = true -> recs <> [] -> (e = [LF] \/ e = [CR; LF]) -> Forall (sam_rec_wf2 e) recs ->
  Forall (fun r => Forall (fun c : list Z => c <> []) (skipn 11 (g_cols r))) recs ->
  fields_ok 11 p = true ->
  model_out_v v FSam (layout FSam recs) p = Some out -> spec_out_ok FSam recs p (Some out) = true.
Proof.
  intros Hv Hn He H Htags Hfo Hm.
  destruct (from_sam_correct2 e recs Hn He H) as (x0 & Hx & I0 & V0 & _ & _).
  apply (rest_program_end_to_end2 v FSam 11 e recs x0 p out); auto.
  - right. split; reflexivity.
  - simpl. rewrite Hx. reflexivity.
  - rewrite Forall_forall in *. intros r Hr. destruct (H r Hr) as ((H11 & Hcl) & He'). split; [exact He'|].
    split; [unfold len; lia|]. split; [apply Htags; auto|exact Hcl].
Qed.

(* VCFBuffer2 (8 plain fields + FORMAT/genotype columns kept as the rest of the line): LF files for either code variant,
   CRLF files for the repaired extractor — a re-joined row of a CRLF file ends in CR LF again *)
Theorem vcf2_program_end_to_end2 v k e recs p out :
  (9 <= k)%nat -> recs <> [] -> (e = [LF] \/ (e = [CR; LF] /\ v_crlf v = true)) -> Forall (rec_wf2 k e) recs ->
  fields_ok 8 p = true ->
  model_out_v v (FVcf 9) (layout (FVcf 9) recs) p = Some out -> spec_out_ok (FVcf 9) recs p (Some out) = true.
Proof.
  intros Hk Hn He H Hfo Hm.
  assert (Hx : exists x0, from_delimited_gen (v_crlf v) (layout (FVcf 9) recs) = Some x0 /\ Inv x0 /\ view x0 = map (gview (FVcf 9)) recs).
  { destruct He as [-> | (-> & Hv)].
    - destruct (from_delimited_correct k (FVcf 9) recs (v_crlf v) I ltac:(lia) Hn) as (x & A & B & C & _).
      + eapply Forall_impl; [|exact H]. intros r (P & Q & R). repeat split; auto.
      + exists x; auto.
    - rewrite Hv. destruct (from_delimited_repaired_correct k (FVcf 9) [CR; LF] recs I ltac:(lia) Hn (or_intror eq_refl) H) as (x & A & B & C & _).
      exists x; auto. }
  destruct Hx as (x0 & Hx & I0 & V0).
  apply (rest_program_end_to_end2 v (FVcf 9) 8 e recs x0 p out); auto.
  - left. split; reflexivity.
  - intros Q; discriminate.
  - destruct He as [-> | (-> & _)]; auto.
  - simpl. rewrite Hx. reflexivity.
  - eapply Forall_impl; [|exact H]. intros r (HL & _ & He'). split; [exact He'|]. unfold len. lia.
Qed.

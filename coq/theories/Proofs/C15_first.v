(* Proofs/C15_first.v — record-marker formats after the repair of FastQBuffer._validate (the '+' violation that
   precedes the first marker violation is raised first): the line the chunked reader reports is the FIRST
   offending line of the whole text, for every chunk size and both reader modes — no assumption on the number
   of offending lines.  The order of the checks before the repair does not have this property. *)
From Coq Require Import ZArith List Bool Arith Lia.
From BNP Require Import Base.Prims Base.PrimsFacts Model.C01 Model.C15 Proofs.C01 Proofs.C01_delim Proofs.C01_lines
  Proofs.C15_oneline.
Import ListNotations.
Local Open Scope nat_scope.

(* ---------- the repaired order accepts exactly the buffers the old order accepted ---------- *)
Lemma cut_ok_iff_pinned f c s m : cut f c = CutOk s m <-> cut_pinned f c = CutOk s m.
Proof.
  destruct f as [sep|n hdr plus|]; [reflexivity| |reflexivity].
  unfold cut, cut_pinned. destruct (m_oneline_incomplete _ _); [reflexivity|]. cbv zeta.
  unfold m_first_fail, m_plus_fail, m_header_fail. cbv zeta.
  destruct (negb _);
    [|destruct (find_first_bad (fun p => (nthZ _ p =? hdr)%Z) _ 0)];
    (destruct plus; [destruct (find_first_bad (fun p => (nthZ _ p =? 43)%Z) _ 0)|]);
    try destruct (m_plus_wins _ _); split; intros H; try discriminate H; exact H.
Qed.

(* ---------- the specification scan: the first offending line ---------- *)
Lemma fbl_first n hdr plus ls : forall i0 k, k < length ls ->
  line_bad n hdr plus (i0 + k) (nth k ls []) = true ->
  (forall j, j < k -> line_bad n hdr plus (i0 + j) (nth j ls []) = false) ->
  first_bad_line n hdr plus i0 ls = Some (i0 + k).
Proof.
  induction ls as [|x ls IH]; intros i0 k Hk Hb Hc; [cbn [length] in Hk; lia|].
  cbn [first_bad_line]. destruct k as [|k].
  - rewrite Nat.add_0_r in Hb. cbn [nth] in Hb. rewrite Hb. rewrite Nat.add_0_r. reflexivity.
  - pose proof (Hc 0 ltac:(lia)) as H0. rewrite Nat.add_0_r in H0. cbn [nth] in H0. rewrite H0.
    replace (i0 + S k) with (S i0 + k) by lia. apply IH.
    + cbn [length] in Hk. lia.
    + replace (S i0 + k) with (i0 + S k) by lia. exact Hb.
    + intros j Hj. replace (S i0 + j) with (i0 + S j) by lia. apply (Hc (S j)). lia.
Qed.

(* ---------- a rejected buffer: the reported line is the first offending line of the validated prefix ---------- *)
Lemma cut_format_first n hdr plus chunk j :
  1 <= n -> (plus = true -> 3 <= n) -> hdr <> 0%Z -> hdr <> 10%Z ->
  cut (OneLine n hdr plus) chunk = CutFormat j ->
  exists size, ends_nl (firstn size chunk) = true /\ j < count_nl (firstn size chunk)
               /\ line_bad n hdr plus j (nth j (lines (firstn size chunk)) []) = true
               /\ (forall i, i < j -> line_bad n hdr plus i (nth i (lines (firstn size chunk)) []) = false)
               /\ count_nl (firstn size chunk) mod n = 0.
Proof.
  intros Hn Hp Hh0 Hh10 H. rewrite cut_unfold in H.
  destruct (count_nl chunk <? n) eqn:Ec; [discriminate|]. apply Nat.ltb_ge in Ec.
  destruct (cut_data n chunk Hn Ec) as (Hk & Hcnt & He & Hmod & Hge). cbv zeta in *.
  set (m := count_nl chunk - count_nl chunk mod n) in *.
  set (sz := Z.to_nat (last (firstn m (nl_pos chunk)) 0%Z + 1)) in *.
  rewrite Hk, <- Hcnt in H. rewrite <- Hcnt in Hmod, Hge.
  exists sz. split; [exact He|].
  destruct (validate_first n hdr plus Hn Hp (firstn sz chunk) Hmod Hge sz j H) as (H1 & H2 & H3).
  split; [exact H1|]. split; [exact (H2 Hh0)|]. split; [exact (H3 Hh10)|exact Hmod].
Qed.

(* ---------- the reader: every buffer delivered before the error is whole and has no offending line ---------- *)
Section Reader.
Variables (n : nat) (hdr : Z) (plus : bool).
Hypothesis Hn : 1 <= n.
Hypothesis Hp : plus = true -> 3 <= n.
Hypothesis Hh10 : hdr <> 10%Z.
Let f := OneLine n hdr plus.
Definition good (c : list Z) : Prop := whole n c /\ clean n hdr plus c.

Lemma cutok_clean c size nl : cut f c = CutOk size nl -> clean n hdr plus (firstn size c).
Proof. intros H. exact (cut_ok_clean n hdr plus Hn Hp c size nl Hh10 H). Qed.

Lemma read_chunk_clean m k file st b d a st' :
  read_chunk true f m k file st = RChunk b d a st' -> clean n hdr plus b.
Proof.
  intros Hrun.
  destruct (read_chunk_cutok n hdr plus Hn m k file st b d a st' Hrun) as ((c & size & nl & Hcut & ->) & _).
  exact (cutok_clean c size nl Hcut).
Qed.

Lemma loop_format_good m k file : 1 <= k ->
  forall fuel st acc l chunks,
    r_finished st = false -> Inv m file st (rev acc) ->
    Forall good (rev acc) -> Forall (fun c => ends_nl c = true) (rev acc) ->
    r_lines st = count_nl (concat (rev acc)) ->
    read_chunks_loop true fuel f m k file st acc = FormatError l chunks ->
    (exists (D : list (list Z)) c j tail,
      l = count_nl (concat D) + j /\ Forall good D /\ Forall (fun c => ends_nl c = true) D
      /\ cut f c = CutFormat j /\ concat D ++ c ++ tail = norm_text file)
    \/ (exists (D : list (list Z)) tail,
      l = count_nl (concat D) /\ Forall good D /\ Forall (fun c => ends_nl c = true) D
      /\ concat D ++ tail = norm_text file /\ leftover_ok f tail = false /\ count_nl tail < n).
Proof.
  intros Hk fuel st acc l chunks.
  exact (loop_format_gen n hdr plus Hn (clean n hdr plus) cutok_clean m k file Hk fuel st acc l chunks).
Qed.
End Reader.

(* ---------- the reported line is the first offending line of the text ---------- *)
Theorem oneline_first_bad_line : forall n hdr plus m k file l chunks,
  1 <= n -> (plus = true -> 3 <= n) -> hdr <> 0%Z -> hdr <> 10%Z -> 1 <= k ->
  read_chunks true (OneLine n hdr plus) m k file = FormatError l chunks ->
  spec_oneline (OneLine n hdr plus) (norm_text file) = Some l.
Proof.
  intros n hdr plus m k file l chunks Hn Hp Hh0 Hh10 Hk Hrun. unfold read_chunks in Hrun.
  destruct (loop_format_good n hdr plus Hn Hp Hh10 m k file Hk (length file + 2) rinit [] l chunks eq_refl)
    as [(D & c & j & tail & Hl & HGD & HED & Hcut & Htxt)|(D & tail & Hl & HGD & HED & Htxt & Hleft & Hcnt)];
    [split; reflexivity|constructor|constructor|reflexivity|exact Hrun| |].
  - (* a rejected buffer: its first offending line is the first offending line of the text, and it lies in a
       complete record *)
    destruct (cut_format_first n hdr plus c j Hn Hp Hh0 Hh10 Hcut) as (size & He & Hj & Hbad & Hbefore & Hdmod).
    set (data := firstn size c) in *.
    assert (HWD : Forall (whole n) D).
    { revert HGD. apply Forall_impl. intros x Hx. exact (proj1 Hx). }
    assert (Htxt' : norm_text file = concat D ++ data ++ (skipn size c ++ tail)).
    { rewrite <- Htxt. rewrite (app_assoc data). unfold data. rewrite firstn_skipn. reflexivity. }
    assert (HD : concat D = [] \/ ends_nl (concat D) = true).
    { destruct (concat_ends D HED) as [->|H]; [left; reflexivity|right; exact H]. }
    assert (Hlines : lines (norm_text file) = (lines (concat D) ++ lines data) ++ lines (skipn size c ++ tail)).
    { rewrite Htxt'. rewrite lines_app' by exact HD. rewrite lines_app by exact He. rewrite app_assoc. reflexivity. }
    assert (HlD : length (lines (concat D)) = count_nl (concat D)) by (apply lines_length; exact HD).
    assert (Hld : length (lines data) = count_nl data) by (apply lines_length; right; exact He).
    assert (HmD : count_nl (concat D) mod n = 0) by (apply whole_concat; assumption).
    pose proof (clean_concat n hdr plus Hn D HGD HED) as HcD.
    apply (spec_prefix n hdr plus Hn (norm_text file) _ _ l Hlines).
    { rewrite app_length, HlD, Hld. rewrite Nat.add_mod by lia. rewrite HmD, Hdmod. cbn [Nat.add].
      apply Nat.mod_0_l. lia. }
    subst l.
    apply (fbl_first n hdr plus _ 0 (count_nl (concat D) + j)).
    + rewrite !app_length. lia.
    + cbn [Nat.add]. rewrite app_nth2 by lia. rewrite HlD.
      replace (count_nl (concat D) + j - count_nl (concat D)) with j by lia.
      rewrite (line_bad_shift n hdr plus Hn) by exact HmD. exact Hbad.
    + intros i Hi. cbn [Nat.add].
      destruct (Nat.lt_ge_cases i (length (lines (concat D)))) as [Hlt|Hge].
      * rewrite app_nth1 by exact Hlt. apply HcD. exact Hlt.
      * rewrite app_nth2 by exact Hge. rewrite HlD in *.
        replace i with (count_nl (concat D) + (i - count_nl (concat D))) at 1 by lia.
        rewrite (line_bad_shift n hdr plus Hn) by exact HmD. apply Hbefore. lia.
  - (* every complete record was accepted; the final record is cut short *)
    assert (HWD : Forall (whole n) D).
    { revert HGD. apply Forall_impl. intros x Hx. exact (proj1 Hx). }
    rewrite <- Htxt. rewrite (spec_split n hdr plus Hn (concat D) tail).
    + rewrite (proj2 (fbl_none n hdr plus Hn (lines (concat D)) 0)).
      * rewrite Hleft. subst l. reflexivity.
      * intros j Hj. exact (clean_concat n hdr plus Hn D HGD HED j Hj).
    + destruct (concat_ends D HED) as [->|H]; [left; reflexivity|right; exact H].
    + apply whole_concat; assumption.
    + apply (app_tail_ends (concat D)). rewrite Htxt. apply norm_text_ends.
    + exact Hcnt.
Qed.

(* hence two reads of the same file — any two chunk sizes, any two reader modes — that both end in a format
   error report the same line *)
Corollary oneline_line_chunk_independent_strong : forall n hdr plus m1 k1 m2 k2 file l1 chunks1 l2 chunks2,
  1 <= n -> (plus = true -> 3 <= n) -> hdr <> 0%Z -> hdr <> 10%Z -> 1 <= k1 -> 1 <= k2 ->
  read_chunks true (OneLine n hdr plus) m1 k1 file = FormatError l1 chunks1 ->
  read_chunks true (OneLine n hdr plus) m2 k2 file = FormatError l2 chunks2 ->
  l1 = l2.
Proof.
  intros n hdr plus m1 k1 m2 k2 file l1 c1 l2 c2 Hn Hp Hh0 Hh10 Hk1 Hk2 H1 H2.
  pose proof (oneline_first_bad_line n hdr plus m1 k1 file l1 c1 Hn Hp Hh0 Hh10 Hk1 H1) as E1.
  pose proof (oneline_first_bad_line n hdr plus m2 k2 file l2 c2 Hn Hp Hh0 Hh10 Hk2 H2) as E2.
  rewrite E1 in E2. injection E2 as E. exact E.
Qed.

(* ---------- with a single offending line (the property's quantifier), marker byte 10 included ---------- *)
Lemma split_on_no_sep sep l : Forall (fun p => ~ In sep p) (split_on sep l).
Proof.
  induction l as [|x l IH]; cbn [split_on]; [constructor; [intros []|constructor]|].
  destruct (Z.eqb_spec x sep) as [->|Hne].
  - constructor; [intros []|exact IH].
  - destruct (split_on sep l) as [|h t]; [constructor; [intros [H|[]]; congruence|constructor]|].
    inversion IH; subst. constructor; [|assumption]. intros [H|H]; [congruence|contradiction].
Qed.
Lemma lines_sub t l : In l (lines t) -> In l (split_on 10 t).
Proof.
  unfold lines. destruct (rev (split_on 10 t)) as [|h r] eqn:E; [intros H; exact H|].
  destruct h; [|intros H; exact H].
  intros H. rewrite <- in_rev in H. apply in_rev. rewrite E. right. exact H.
Qed.
Lemma line_first_not_nl t j : nthZ (nth j (lines t) []) 0 <> 10%Z.
Proof.
  destruct (nth_in_or_default j (lines t) []) as [H|H]; [|rewrite H; discriminate].
  apply lines_sub in H. pose proof (split_on_no_sep 10 t) as HF. rewrite Forall_forall in HF.
  specialize (HF _ H). destruct (nth j (lines t) []) as [|x r]; [discriminate|].
  unfold nthZ. cbn. intros ->. apply HF. left. reflexivity.
Qed.
(* with the line break as marker, the first line of a record that was cut short is an offending line *)
Lemma incomplete_is_bad_10 n plus text l : 1 <= n ->
  incomplete_at n 10 plus text l -> line_is_bad n 10 plus text l.
Proof.
  intros Hn [Hl Hc].
  assert (Hlt : l < length (lines text)).
  { destruct (Nat.lt_ge_cases l (length (lines text))) as [H|H]; [exact H|].
    rewrite skipn_all2 in Hc by exact H. discriminate Hc. }
  split; [exact Hlt|]. unfold line_bad.
  assert (Hm : l mod n = 0) by (rewrite Hl; apply Nat.mod_mul; lia).
  rewrite Hm. cbn [Nat.eqb andb].
  replace (nthZ (nth l (lines text) []) 0 =? 10)%Z with false
    by (symmetry; apply Z.eqb_neq; apply line_first_not_nl).
  reflexivity.
Qed.

(* the reported line is the same for every chunk size and reader mode (statement unchanged by the end-of-file check) *)
Corollary oneline_line_chunk_independent : forall n hdr plus m1 k1 m2 k2 file l1 chunks1 l2 chunks2,
  1 <= n -> (plus = true -> 3 <= n) -> hdr <> 0%Z -> 1 <= k1 -> 1 <= k2 ->
  (forall i j, line_is_bad n hdr plus (norm_text file) i -> line_is_bad n hdr plus (norm_text file) j -> i = j) ->
  read_chunks true (OneLine n hdr plus) m1 k1 file = FormatError l1 chunks1 ->
  read_chunks true (OneLine n hdr plus) m2 k2 file = FormatError l2 chunks2 ->
  l1 = l2.
Proof.
  intros n hdr plus m1 k1 m2 k2 file l1 c1 l2 c2 Hn Hp Hh Hk1 Hk2 Huniq H1 H2.
  destruct (Z.eq_dec hdr 10) as [->|Hh10].
  - apply Huniq.
    + destruct (oneline_reported_line_offends n 10%Z plus m1 k1 file l1 c1 Hn Hp Hh Hk1 H1) as [H|H];
        [exact H|exact (incomplete_is_bad_10 n plus _ l1 Hn H)].
    + destruct (oneline_reported_line_offends n 10%Z plus m2 k2 file l2 c2 Hn Hp Hh Hk2 H2) as [H|H];
        [exact H|exact (incomplete_is_bad_10 n plus _ l2 Hn H)].
  - exact (oneline_line_chunk_independent_strong n hdr plus m1 k1 m2 k2 file l1 c1 l2 c2 Hn Hp Hh Hh10 Hk1 Hk2 H1 H2).
Qed.

Corollary model_oneline_format_at_first : forall n hdr plus m k file l,
  1 <= n -> (plus = true -> 3 <= n) -> hdr <> 0%Z -> hdr <> 10%Z -> 1 <= k ->
  model_oneline (OneLine n hdr plus) m k file = FormatAt l ->
  spec_oneline (OneLine n hdr plus) (norm_text file) = Some l.
Proof.
  intros n hdr plus m k file l Hn Hp Hh0 Hh10 Hk H. unfold model_oneline in H.
  destruct (read_chunks true (OneLine n hdr plus) m k file) as [|l' chunks| |] eqn:E; try discriminate.
  injection H as <-.
  exact (oneline_first_bad_line n hdr plus m k file l' chunks Hn Hp Hh0 Hh10 Hk E).
Qed.

(* ---------- the order of the checks before the repair is refuted ---------- *)
(* "@a/AC/!!/@b/GG/+/##/x": record 0 lacks its '+' line, so every later line is shifted; the old order
   (all markers first) reports line 4, the first offending line of the buffer is line 2 *)
Definition fq_shifted : list Z :=
  [64;97;10; 65;67;10; 33;33;10; 64;98;10; 71;71;10; 43;10; 35;35;10; 120;10]%Z.

Theorem pinned_order_refuted : exists chunk a b,
  cut_pinned (OneLine 4 64 true) chunk = CutFormat a
  /\ (count_nl chunk mod 4 = 0 /\ ends_nl chunk = true)            (* whole records: every line is kept *)
  /\ first_bad_line 4 64 true 0 (lines chunk) = Some b
  /\ b < a
  /\ cut (OneLine 4 64 true) chunk = CutFormat b.                   (* the repaired order reports b *)
Proof.
  exists fq_shifted, 4, 2. repeat split; try (vm_compute; reflexivity). lia.
Qed.

(* ---------- the hypotheses are met; hdr <> 10 is needed ---------- *)
(* three FASTQ records "@a/AC/+/II", "@b/AC/II" ('+' line deleted), "@c/AC/+/II": line 6 ("II" where '+' is due)
   is the first offending line, line 8 ("AC" where a marker is due) offends too *)
Definition fq_deleted_plus : list Z :=
  [64;97;10;65;67;10;43;10;73;73;10; 64;98;10;65;67;10;73;73;10; 64;99;10;65;67;10;43;10;73;73;10]%Z.

Example first_bad_line_example :
  (exists c, read_chunks true FastQ Seek 1 fq_deleted_plus = FormatError 6 c)
  /\ (exists c, read_chunks true FastQ Prepend 1 fq_deleted_plus = FormatError 6 c)
  /\ (exists c, read_chunks true FastQ Seek 1000 fq_deleted_plus = FormatError 6 c)
  /\ (exists c, read_chunks true FastQ Prepend 1000 fq_deleted_plus = FormatError 6 c)
  /\ spec_oneline FastQ (norm_text fq_deleted_plus) = Some 6
  /\ line_is_bad 4 64 true (norm_text fq_deleted_plus) 6
  /\ line_is_bad 4 64 true (norm_text fq_deleted_plus) 8.
Proof.
  repeat split; try (eexists; vm_compute; reflexivity); vm_compute; try reflexivity; lia.
Qed.

(* with the line break as marker an empty first line passes the reader's byte test while the specification
   sees an empty line without marker: the reader goes on to report line 1 *)
Example first_bad_line_marker_10 :
  read_chunks true (OneLine 1 10 false) Seek 1 [10;88;10]%Z = FormatError 1 [[10%Z]]
  /\ spec_oneline (OneLine 1 10 false) (norm_text [10;88;10]%Z) = Some 0.
Proof. split; vm_compute; reflexivity. Qed.

(* ---------- an entry cut short at the end of the file ---------- *)
(* "@a/AC/+/!!" followed by "@b/G/!": the second record lacks its '+' line, so only three of its four lines exist *)
Definition fq_truncated : list Z := [64;97;10;65;67;10;43;10;33;33;10; 64;98;10;71;10;33;10]%Z.
Definition fq_first_record : list Z := [64;97;10;65;67;10;43;10;33;33;10]%Z.
Definition chunk_sizes_1_30 : list nat := map S (seq 0 30).

(* the repaired reader: every chunk size 1..30, both modes, reports line 4 - the first line of the truncated record,
   which is what the specification says *)
Example truncated_record_reported :
  forallb (fun k => match read_chunks true FastQ Seek k fq_truncated, read_chunks true FastQ Prepend k fq_truncated with
                    | FormatError 4 _, FormatError 4 _ => true
                    | _, _ => false
                    end) chunk_sizes_1_30 = true
  /\ spec_oneline FastQ (norm_text fq_truncated) = Some 4
  /\ incomplete_at 4 64 true (norm_text fq_truncated) 4
  /\ ~ line_is_bad 4 64 true (norm_text fq_truncated) 4.
Proof.
  split; [vm_compute; reflexivity|]. split; [vm_compute; reflexivity|]. split; [split; vm_compute; reflexivity|].
  intros [_ H]. vm_compute in H. discriminate H.
Qed.

(* the code at the pinned commit dropped the truncated record silently: every chunk size 1..30, both modes, ends
   the stream normally after delivering the first record only *)
Theorem truncated_record_pinned_refuted :
  exists file k m chunks dropped app lines,
    read_chunks false FastQ m k file = Done chunks dropped app lines
    /\ spec_oneline FastQ (norm_text file) = Some 4
    /\ chunks = [fq_first_record] /\ dropped = [64;98;10;71;10;33;10]%Z
    /\ forallb (fun k' => match read_chunks false FastQ Seek k' file, read_chunks false FastQ Prepend k' file with
                          | Done c1 _ _ _, Done c2 _ _ _ => zll_eqb c1 [fq_first_record] && zll_eqb c2 [fq_first_record]
                          | _, _ => false
                          end) chunk_sizes_1_30 = true.
Proof.
  exists fq_truncated, 5, Seek. eexists. eexists. eexists. eexists.
  split; [vm_compute; reflexivity|]. repeat split; vm_compute; reflexivity.
Qed.

(* a trailing blank line is no record: the stream still completes, for every chunk size 1..30 and both modes *)
Example trailing_blank_line_done :
  let file := (fq_first_record ++ [10])%Z in
  forallb (fun k => match read_chunks true FastQ Seek k file, read_chunks true FastQ Prepend k file with
                    | Done c1 _ _ _, Done c2 _ _ _ => zll_eqb c1 [fq_first_record] && zll_eqb c2 [fq_first_record]
                    | _, _ => false
                    end) chunk_sizes_1_30 = true
  /\ spec_oneline FastQ (norm_text file) = None.
Proof. split; vm_compute; reflexivity. Qed.

(* Proofs/C10_g.v — the BedGraph / Interval view of a genome-wide array (GenomicArrayGlobal.get_data, behind
   GenomicIntervals.from_track): cutting the global track at the offsets and reading each slice's runs gives, for every
   chromosome, the runs of that chromosome's own single-contig result. *)
From Coq Require Import ZArith List Bool Lia Arith.
From BNP Require Import Base.Prims Base.PrimsFacts Model.C10 Proofs.C10.
Import ListNotations.
Open Scope Z_scope.

Lemma split_pileup : forall szs es, nonneg szs -> Forall (entry_placed szs) es ->
  split_chroms szs (pileup1 (total szs) (ivs_of (globalise szs es))) = spec_pileup szs es.
Proof.
  intros szs es Hs Hes. pose proof (pileup_local szs es Hs Hes) as H.
  unfold model_pileup, check_bounds in H. rewrite check_bounds_ok in H by assumption. inversion H. reflexivity.
Qed.
Lemma split_mask : forall szs es, nonneg szs -> Forall (entry_placed szs) es ->
  split_chroms szs (mask1 (total szs) (ivs_of (globalise szs es))) = spec_mask szs es.
Proof.
  intros szs es Hs Hes. pose proof (mask_local szs es Hs Hes) as H.
  unfold model_mask, check_bounds in H. rewrite check_bounds_ok in H by assumption. inversion H. reflexivity.
Qed.
Lemma split_chroms_map : forall (f : Z -> Z) szs arr,
  split_chroms szs (map f arr) = map (map f) (split_chroms szs arr).
Proof.
  intros f szs arr. unfold split_chroms. rewrite map_map. apply map_ext. intros c.
  unfold slice. rewrite skipn_map, firstn_map. reflexivity.
Qed.

(* the global track cut at the offsets is, chromosome by chromosome, the single-contig result on its own entries *)
Theorem track_local : forall k szs es, nonneg szs -> Forall (entry_placed szs) es ->
  split_chroms szs (global_track k szs es) = spec_track k szs es.
Proof.
  intros k szs es Hs Hes. destruct k; cbn [global_track].
  - rewrite split_pileup by assumption. reflexivity.
  - rewrite split_mask by assumption. reflexivity.
  - rewrite split_chroms_map, split_mask by assumption. unfold spec_mask, spec_track. rewrite map_map. reflexivity.
Qed.

Theorem runs_local : forall k szs es, nonneg szs -> Forall (entry_placed szs) es ->
  model_runs k szs es = RRows (spec_runs k szs es).
Proof.
  intros k szs es Hs Hes. unfold model_runs, check_bounds. rewrite check_bounds_ok by assumption.
  unfold model_get_data, spec_runs. rewrite track_local by assumption. reflexivity.
Qed.

(* every chromosome contributes its own rows and only those: the rows of chromosome c are the runs of pileup1 / mask1 on
   the entries of c — whatever lies on the neighbours *)
Theorem runs_depend_on_own_entries : forall k szs es es', nonneg szs ->
  Forall (entry_placed szs) es -> Forall (entry_placed szs) es' ->
  (forall c, 0 <= c < len szs -> on_chr es c = on_chr es' c) ->
  forall c, 0 <= c < len szs ->
  nthd [] (split_chroms szs (global_track k szs es)) c = nthd [] (split_chroms szs (global_track k szs es')) c.
Proof.
  intros k szs es es' Hs H1 H2 Heq c Hc. rewrite !track_local by assumption.
  unfold spec_track. f_equal. apply map_ext_in. intros a Ha.
  assert (0 <= a < len szs) as Hr by (apply In_arange in Ha; exact Ha).
  rewrite (Heq a Hr). reflexivity.
Qed.

(* Proofs/C15.v — the reported line does not depend on the chunking. *)
From Coq Require Import ZArith List Bool Arith Lia.
From BNP Require Import Base.Prims Base.PrimsFacts Model.C01 Model.C15 Proofs.C01 Proofs.C01_delim.
Import ListNotations.

Lemma first_bad_from_shift tys i rows :
  first_bad_from tys i rows = option_map (fun j => (i + j)%nat) (first_bad_from tys 0 rows).
Proof.
  revert i. induction rows as [|r rows IH]; intros i; [reflexivity|].
  cbn [first_bad_from]. destruct (row_ok tys r).
  - rewrite (IH (S i)), (IH 1%nat). destruct (first_bad_from tys 0 rows); cbn [option_map]; [f_equal; lia|reflexivity].
  - cbn [option_map]. f_equal. lia.
Qed.
Lemma first_bad_from_app tys i a b :
  first_bad_from tys i (a ++ b) =
  match first_bad_from tys i a with Some j => Some j | None => first_bad_from tys (i + length a) b end.
Proof.
  revert i. induction a as [|r a IH]; intros i; cbn [first_bad_from List.app length].
  - rewrite Nat.add_0_r. reflexivity.
  - destruct (row_ok tys r); [|reflexivity]. rewrite IH. replace (S i + length a)%nat with (i + S (length a))%nat by lia. reflexivity.
Qed.

Lemma report_concat tys : forall chunks before,
  report tys before chunks = first_bad_from tys before (concat (map lines chunks)).
Proof.
  induction chunks as [|c rest IH]; intros before; [reflexivity|].
  cbn [report map concat]. rewrite first_bad_from_app. unfold first_bad.
  rewrite (first_bad_from_shift tys before (lines c)).
  destruct (first_bad_from tys 0 (lines c)); cbn [option_map]; [reflexivity|apply IH].
Qed.

(* every chunk size, both reader modes: the line reported chunk-by-chunk is the line of the first
   offending record of the whole file *)
Theorem delim_line_exact tys m k file chunks dropped app lines_read :
  (1 <= k)%nat ->
  read_chunks true (Delim 9) m k file = Done chunks dropped app lines_read ->
  report tys 0 chunks = spec_line tys (norm_text file).
Proof.
  intros Hk Hrun. rewrite report_concat.
  rewrite (delim_records_exact 9%Z m k file chunks dropped app lines_read Hk Hrun). reflexivity.
Qed.

(* Proofs/C11_expr_spec.v — end to end for arithmetic on the streamed pileup: run_expr e q ... = Some (spec_expr e q ...) *)
From Coq Require Import ZArith List Bool Lia Arith.
From BNP Require Import Base.Prims Base.PrimsFacts Model.C11 Proofs.C11 Proofs.C11_groupby Proofs.C11_graph
  Proofs.C11_pipeline Proofs.C11_spec Proofs.C11_expr.
Import ListNotations.
Open Scope Z_scope.

Definition base_graph (sizes : list Z) (A B : list (list iv)) : list (node gval) :=
  intervals_nodes 0 A sizes ++ [NComp op_pileup [0%nat; 4%nat]; names_node (length sizes)] ++ intervals_nodes 7 B sizes.
(* buffer i of the pileup node *)
Definition pile_tv (sizes : list Z) (A : list (list iv)) (i : nat) : option (list Z) :=
  if (i <? length sizes)%nat then Some (coverage (nth i sizes 0) (nth i A [])) else None.

Ltac eval_base :=
  unfold val; cbn [base_graph intervals_nodes app names_node value nth_error map forallb flat_map andb];
  rewrite ?nth_error_map.

Lemma base_wf sizes A B : wf (base_graph sizes A B).
Proof.
  intros k f args E. cbn [base_graph intervals_nodes app] in E.
  do 13 (try (destruct k as [|k]; cbn [nth_error] in E;
              [try discriminate; try (injection E as <- <-; repeat constructor; lia)|]));
  try (destruct k; discriminate).
Qed.
Lemma base_length sizes A B : length (base_graph sizes A B) = 12%nat.
Proof. reflexivity. Qed.

Section Base.
Variables (sizes : list Z) (A B : list (list iv)).
Hypothesis HA : length A = length sizes.
Hypothesis HB : length B = length sizes.

Lemma base_pile : forall i, val (base_graph sizes A B) 5 i = option_map GL (pile_tv sizes A i).
Proof.
  intros i. unfold pile_tv. destruct (Nat.ltb_spec i (length sizes)) as [Hlt|Hge].
  - eval_base.
    rewrite (nth_error_nth' A [] (eq_ind_r (fun n => (i < n)%nat) Hlt HA)), (nth_error_nth' sizes 0 Hlt).
    reflexivity.
  - assert (EA : nth_error A i = None) by (apply nth_error_None; lia).
    eval_base. rewrite EA. reflexivity.
Qed.
Lemma base_names : forall i, (i < length sizes)%nat -> val (base_graph sizes A B) 6 i = Some (GZ (Z.of_nat i)).
Proof. intros i Hlt. eval_base. rewrite (arange_nth_error _ _ Hlt). reflexivity. Qed.
Lemma base_start : forall i, (i < length sizes)%nat -> val (base_graph sizes A B) 8 i = Some (GL (map fst (nth i B []))).
Proof.
  intros i Hlt. eval_base. rewrite (nth_error_nth' B [] (eq_ind_r (fun n => (i < n)%nat) Hlt HB)). reflexivity.
Qed.
Lemma base_stop : forall i, (i < length sizes)%nat -> val (base_graph sizes A B) 9 i = Some (GL (map snd (nth i B []))).
Proof.
  intros i Hlt. eval_base. rewrite (nth_error_nth' B [] (eq_ind_r (fun n => (i < n)%nat) Hlt HB)). reflexivity.
Qed.
Lemma base_defined : forall j i, (i < length sizes)%nat -> (j < 12)%nat -> val (base_graph sizes A B) j i <> None.
Proof.
  intros j i Hlt Hj.
  do 12 (try (destruct j as [|j];
    [ eval_base;
      rewrite ?(nth_error_nth' A [] (eq_ind_r (fun n => (i < n)%nat) Hlt HA)),
              ?(nth_error_nth' B [] (eq_ind_r (fun n => (i < n)%nat) Hlt HB)),
              ?(nth_error_nth' sizes 0 Hlt), ?(arange_nth_error _ _ Hlt);
      cbn [option_map app andb]; discriminate | ]));
  exfalso; lia.
Qed.
Lemma base_ok : graph_ok 5 (pile_tv sizes A) (base_graph sizes A B).
Proof.
  split; [apply base_wf|]. split; [rewrite base_length; lia|].
  intros i. rewrite base_pile. destruct (pile_tv sizes A i); cbn [option_map teval]; [|reflexivity].
  rewrite map_id. reflexivity.
Qed.
End Base.

(* per-chromosome value of the query on the transformed track *)
Definition query_val (e : texpr) (q : query) (a b : list iv) (s : Z) : gval :=
  let t := map (teval e) (coverage s a) in
  match q with
  | QTrack => GL t
  | QSum => GZ (sumZ t)
  | QHist k lo hi => GL (spec_hist k lo hi t)
  | QValues => GR (values_under t b)
  end.

Lemma run_graph_expr : forall e q sizes (A B : list (list iv)) g root,
  length A = length sizes -> length B = length sizes -> (0 < length sizes)%nat ->
  expr_graph e q sizes A B = Some (g, root) ->
  run_graph g root = ROk (map (fun i => query_val e q (nth i A []) (nth i B []) (nth i sizes 0)) (seq 0 (length sizes))).
Proof.
  intros e q sizes A B g root HA HB Hpos E.
  unfold expr_graph in E. fold (base_graph sizes A B) in E.
  destruct (compile e 5 12) as [ne oe] eqn:Ec.
  destruct oe as [t|c]; [|discriminate]. injection E as <- <-.
  set (base := base_graph sizes A B) in *.
  change 12%nat with (length base) in Ec.
  destruct (compile_ok 5 (pile_tv sizes A) e base ne (ONode t) (base_ok sizes A B HA HB) Ec) as (Hok & Hnew & Ht & Hden).
  pose proof Hok as (Hwf & _ & _).
  set (qn := match q with
             | QTrack => NComp op_data [6%nat; t]
             | QSum => NComp op_sum [t]
             | QHist k lo hi => NComp (op_hist k lo hi) [t]
             | QValues => NComp op_extract [t; 8%nat; 9%nat]
             end).
  set (g1 := base ++ ne) in *.
  change (run_graph (g1 ++ [qn]) (length g1)
          = ROk (map (fun i => query_val e q (nth i A []) (nth i B []) (nth i sizes 0)) (seq 0 (length sizes)))).
  assert (Hlen1 : (12 + length ne)%nat = length g1) by (unfold g1; rewrite app_length; reflexivity).
  assert (Hbase_lt : forall j, (j < 12)%nat -> (j < length g1)%nat) by (intros; lia).
  assert (Hwfq : wf (g1 ++ [qn])).
  { apply wf_app_node; [exact Hwf|]. intros f args Eq. unfold qn in Eq.
    destruct q; injection Eq as _ <-;
      repeat (apply Forall_cons; [first [exact Ht | apply Hbase_lt; lia]|]); apply Forall_nil. }
  assert (Hroot : nth_error (g1 ++ [qn]) (length g1) = Some qn).
  { rewrite nth_error_app2 by lia. rewrite Nat.sub_diag. reflexivity. }
  (* values of the old nodes in the final graph *)
  assert (Hold : forall j i, (j < length g1)%nat -> val (g1 ++ [qn]) j i = val g1 j i).
  { intros j i Hj. apply val_extend; assumption. }
  assert (Hb : forall j i, (j < 12)%nat -> val (g1 ++ [qn]) j i = val base j i).
  { intros j i Hj. rewrite Hold by (apply Hbase_lt; exact Hj). unfold g1. apply val_extend; [apply base_wf|exact Hj]. }
  assert (Hrootval : forall i, val (g1 ++ [qn]) (length g1) i =
            if (i <? length sizes)%nat then Some (query_val e q (nth i A []) (nth i B []) (nth i sizes 0)) else None).
  { intros i. unfold qn in Hroot.
    destruct (Nat.ltb_spec i (length sizes)) as [Hlt|Hge].
    - assert (Etv : pile_tv sizes A i = Some (coverage (nth i sizes 0) (nth i A []))).
      { unfold pile_tv. destruct (Nat.ltb_spec i (length sizes)); [reflexivity|lia]. }
      destruct q; rewrite (val_comp _ Hwfq _ _ _ i Hroot); cbn [map];
        rewrite ?(Hold t i Ht), ?(Hden i), ?Etv, ?(Hb 6%nat i ltac:(lia)), ?(Hb 8%nat i ltac:(lia)), ?(Hb 9%nat i ltac:(lia));
        unfold base;
        rewrite ?(base_names sizes A B i Hlt), ?(base_start sizes A B HB i Hlt), ?(base_stop sizes A B HB i Hlt);
        cbn [option_map opt_all op_data op_sum op_hist op_extract query_val]; rewrite ?extract_values; reflexivity.
    - assert (Etv : pile_tv sizes A i = None).
      { unfold pile_tv. destruct (Nat.ltb_spec i (length sizes)); [lia|reflexivity]. }
      assert (E6 : val base 6 i = None).
      { unfold base. eval_base. rewrite (arange_nth_error_none _ _ Hge). reflexivity. }
      destruct q; rewrite (val_comp _ Hwfq _ _ _ i Hroot); cbn [map];
        rewrite ?(Hb 6%nat i ltac:(lia)), ?E6, ?(Hold t i Ht), ?(Hden i), ?Etv; reflexivity. }
  destruct (graph_lockstep_run (g1 ++ [qn]) Hwfq (length g1) ltac:(rewrite app_length; cbn; lia) (length sizes)) as (vs & Er & Hvs).
  - intros j Hj. rewrite app_length in Hj. cbn [length] in Hj.
    destruct (Nat.lt_ge_cases j 12) as [H12|H12].
    + rewrite (Hb j 0%nat H12). apply (base_defined sizes A B HA HB); assumption.
    + destruct (Nat.lt_ge_cases j (length g1)) as [Hlt|Hge].
      * rewrite (Hold j 0%nat Hlt). destruct (Hnew j) as (e' & He'); [change (length base) with 12%nat; lia|].
        rewrite (He' 0%nat). unfold pile_tv. destruct (Nat.ltb_spec 0 (length sizes)); [discriminate|lia].
      * replace j with (length g1) by lia. rewrite Hrootval. destruct (Nat.ltb_spec 0 (length sizes)); [discriminate|lia].
  - intros d Hd. rewrite Hrootval. destruct (Nat.ltb_spec d (length sizes)); [discriminate|lia].
  - rewrite Hrootval, Nat.ltb_irrefl. reflexivity.
  - assert (length (map GZ sizes) <= max_stream_len (g1 ++ [qn]))%nat.
    { apply max_stream_len_ge. unfold g1, base, base_graph. cbn [intervals_nodes app]. auto 10 with datatypes. }
    rewrite map_length in H. lia.
  - rewrite Er. f_equal. apply map_Some_inj. rewrite Hvs, map_map. apply map_ext_in.
    intros i Hi. apply in_seq in Hi. rewrite Hrootval. destruct (Nat.ltb_spec i (length sizes)); [reflexivity|lia].
Qed.

Lemma finish_query_spec : forall e q order sizes da db,
  length order = length sizes -> (0 < length sizes)%nat ->
  finish_query q (map (fun '(nm, s) => query_val e q (ivs_of nm da) (ivs_of nm db) s) (combine order sizes))
  = Some (spec_expr e q order sizes da db).
Proof.
  intros e q order sizes da db Hlen Hpos.
  set (L := combine order sizes).
  assert (HL : L <> []).
  { unfold L. destruct order; destruct sizes; simpl in *; try lia; discriminate. }
  set (T := fun '(name, size) => map (teval e) (coverage size (ivs_of name da))).
  assert (Htr : map T L <> []) by (destruct L; [congruence|discriminate]).
  destruct q; cbn [finish_query query_val spec_expr].
  - f_equal. f_equal. rewrite map_map. apply map_ext. intros [nm s]. reflexivity.
  - replace (map (fun '(nm, s) => GZ (sumZ (map (teval e) (coverage s (ivs_of nm da))))) L)
      with (map (fun t => GZ (sumZ t)) (map T L)) by (rewrite map_map; apply map_ext; intros [nm s]; reflexivity).
    apply reduce_sum. exact Htr.
  - replace (map (fun '(nm, s) => GL (spec_hist k lo hi (map (teval e) (coverage s (ivs_of nm da))))) L)
      with (map (fun t => GL (spec_hist k lo hi t)) (map T L)) by (rewrite map_map; apply map_ext; intros [nm s]; reflexivity).
    apply reduce_hist. exact Htr.
  - subst T L. rewrite combine_map_r, map_map.
    destruct (combine order sizes) as [|[nm s] L']; [congruence|]. cbn [map gconcat]. do 3 f_equal.
    f_equal. rewrite map_map. apply map_ext. intros [nm' s']. reflexivity.
Qed.

Theorem expr_pipeline_spec : forall e q order sizes (csa csb : list (list (Z * iv))),
  NoDup order -> length order = length sizes -> (0 < length sizes)%nat ->
  csa <> [] -> csb <> [] -> Forall (fun c => c <> []) csa -> Forall (fun c => c <> []) csb ->
  ordered order (concat csa) -> ordered order (concat csb) ->
  (exists nodes t, compile e 5 12 = (nodes, ONode t)) ->
  run_expr e q order sizes csa csb = Some (spec_expr e q order sizes (concat csa) (concat csb)).
Proof.
  intros e q order sizes csa csb Hnd Hlen Hpos Ha Hb Hna Hnb Hoa Hob (nodes & t & Ec).
  unfold run_expr.
  rewrite (per_chromosome_ordered order csa Hnd Ha Hna Hoa), (per_chromosome_ordered order csb Hnd Hb Hnb Hob).
  set (A := map (fun nm => ivs_of nm (concat csa)) order). set (B := map (fun nm => ivs_of nm (concat csb)) order).
  assert (HA : length A = length sizes) by (unfold A; rewrite map_length; exact Hlen).
  assert (HB : length B = length sizes) by (unfold B; rewrite map_length; exact Hlen).
  destruct (expr_graph e q sizes A B) as [[g root]|] eqn:Eg.
  2:{ unfold expr_graph in Eg. rewrite Ec in Eg. discriminate. }
  rewrite (run_graph_expr e q sizes A B g root HA HB Hpos Eg).
  rewrite <- (finish_query_spec e q order sizes (concat csa) (concat csb) Hlen Hpos). f_equal.
  rewrite <- (map_seq_combine (fun nm s => query_val e q (ivs_of nm (concat csa)) (ivs_of nm (concat csb)) s) 0 0 order sizes Hlen).
  apply map_ext_in. intros i Hi. apply in_seq in Hi. unfold A, B.
  rewrite (nth_map_lt (fun nm => ivs_of nm (concat csa)) order i [] 0) by lia.
  rewrite (nth_map_lt (fun nm => ivs_of nm (concat csb)) order i [] 0) by lia. reflexivity.
Qed.

(* both operand orders of a non-commutative ufunc between a plain value and the streamed track *)
Corollary expr_scalar_both_orders : forall (o : bop) (c : Z) q order sizes (csa csb : list (list (Z * iv))),
  NoDup order -> length order = length sizes -> (0 < length sizes)%nat ->
  csa <> [] -> csb <> [] -> Forall (fun c => c <> []) csa -> Forall (fun c => c <> []) csb ->
  ordered order (concat csa) -> ordered order (concat csb) ->
  run_expr (TBin o (TConst c) TTrack) q order sizes csa csb
    = Some (spec_expr (TBin o (TConst c) TTrack) q order sizes (concat csa) (concat csb))
  /\ run_expr (TBin o TTrack (TConst c)) q order sizes csa csb
    = Some (spec_expr (TBin o TTrack (TConst c)) q order sizes (concat csa) (concat csb)).
Proof.
  intros. split; apply expr_pipeline_spec; auto; eexists; eexists; reflexivity.
Qed.

(* Proofs/C08_big.v — deep inputs given with multiplicities: the functions the correspondence evaluates
   (weighted per-base coverage) are the models' outputs on the expanded multiset. *)
From Coq Require Import ZArith List Bool Lia Arith Permutation.
From BNP Require Import Base.Prims Base.PrimsFacts Model.C08 Proofs.C08 Proofs.C08_merge Proofs.C08_overlap.
Import ListNotations.
Open Scope Z_scope.

Definition rows_ok (W : list tiv) (size : Z) : Prop :=
  forall t, In t W -> 0 <= t_tag t /\ 0 <= t_start t /\ t_start t <= t_stop t /\ t_stop t <= size.

Lemma cov_repeat i n x : cov (repeat i n) x = Z.of_nat n * b2z (covers x i).
Proof. induction n as [|n IH]; [reflexivity|]. cbn [repeat]. rewrite cov_cons, IH. lia. Qed.
Lemma expand_w_cons t W : expand_w (t :: W) = repeat (untag t) (Z.to_nat (t_tag t)) ++ expand_w W.
Proof. reflexivity. Qed.
Lemma cov_expand W x : (forall t, In t W -> 0 <= t_tag t) -> cov (expand_w W) x = cov_w W x.
Proof.
  induction W as [|t W IH]; intros H; [reflexivity|].
  rewrite expand_w_cons, cov_app, cov_repeat, IH by (intros u Hu; apply H; right; exact Hu).
  unfold cov_w. cbn [map sumZ fold_right]. specialize (H t (or_introl eq_refl)). rewrite Z2Nat.id by lia. reflexivity.
Qed.
Lemma in_expand W i : In i (expand_w W) -> exists t, In t W /\ i = untag t.
Proof.
  induction W as [|t W IH]; intros H; [destruct H|]. rewrite expand_w_cons in H. apply in_app_iff in H. destruct H as [H|H].
  - apply repeat_spec in H. exists t. split; [left; reflexivity|exact H].
  - destruct (IH H) as [u [Hu E]]. exists u. split; [right; exact Hu|exact E].
Qed.
Lemma expand_inside W size : rows_ok W size -> forall i, In i (expand_w W) -> 0 <= fst i /\ fst i <= snd i /\ snd i <= size.
Proof. intros H i Hi. destruct (in_expand W i Hi) as [t [Ht E]]. subst i. specialize (H t Ht). unfold untag. cbn [fst snd]. lia. Qed.
Lemma rows_tags W size : rows_ok W size -> forall t, In t W -> 0 <= t_tag t.
Proof. intros H t Ht. apply (H t Ht). Qed.

(* B1: pileup *)
Lemma pileup_big_is_model W L : 0 <= L -> rows_ok W L -> pileup_model (expand_w W) L = pileup_big_model W L.
Proof.
  intros HL H. rewrite pileup_is_coverage by (try exact HL; apply expand_inside; exact H).
  unfold pileup_spec, pileup_big_model, pileup_w_spec. apply map_ext. intros x. apply cov_expand. apply (rows_tags W L H).
Qed.
(* B2: mask *)
Lemma mask_expand W L : rows_ok W L -> mask_spec (expand_w W) L = mask_w_spec W L.
Proof. intros H. unfold mask_spec, mask_w_spec, covered. apply map_ext. intros x. rewrite (cov_expand W x (rows_tags W L H)). reflexivity. Qed.
Lemma mask_big_is_model W L : 0 <= L -> rows_ok W L -> mask_model (expand_w W) L = Some (mask_big_model W L).
Proof.
  intros HL H. rewrite mask_is_positive_coverage_gen by (try exact HL; apply expand_inside; exact H).
  rewrite (mask_expand W L H). reflexivity.
Qed.

(* B3: merge — the expansion of rows sorted on start is sorted on start *)
Lemma sorted_repeat v n : sortedb Z.leb (repeat v n) = true.
Proof.
  induction n as [|n IH]; [reflexivity|]. cbn [repeat]. apply sortedb_cons. split; [|exact IH].
  destruct n; [exact Logic.I|]. cbn [repeat]. apply Z.leb_refl.
Qed.
Lemma sortedb_app_z l1 l2 : sortedb Z.leb l1 = true -> sortedb Z.leb l2 = true ->
  (forall a b, In a l1 -> In b l2 -> a <= b) -> sortedb Z.leb (l1 ++ l2) = true.
Proof.
  induction l1 as [|a l1 IH]; intros H1 H2 H; [exact H2|].
  cbn [app]. apply sortedb_cons. apply sortedb_cons in H1. destruct H1 as [Hh H1]. split.
  - destruct l1 as [|b l1]; cbn [app].
    + destruct l2 as [|c l2]; [exact Logic.I|]. apply Z.leb_le. apply H; left; reflexivity.
    + exact Hh.
  - apply IH; [exact H1|exact H2|]. intros x y Hx Hy. apply H; [right; exact Hx|exact Hy].
Qed.
Lemma map_repeat' {X Y} (f : X -> Y) v n : map f (repeat v n) = repeat (f v) n.
Proof. induction n as [|n IH]; [reflexivity|]. cbn [repeat map]. rewrite IH. reflexivity. Qed.
Lemma sorted_expand W : sortedb Z.leb (map fst (map untag W)) = true -> sortedb Z.leb (map fst (expand_w W)) = true.
Proof.
  induction W as [|t W IH]; intros H; [reflexivity|].
  rewrite expand_w_cons, map_app. cbn [map] in H.
  pose proof (zsorted_head_min _ _ H) as Hmin. apply sortedb_cons in H. destruct H as [_ H].
  apply sortedb_app_z.
  - rewrite map_repeat'. apply sorted_repeat.
  - apply IH. exact H.
  - intros a b Ha Hb. rewrite map_repeat' in Ha. apply repeat_spec in Ha. subst a.
    apply in_map_iff in Hb. destruct Hb as [i [E Hi]]. subst b. destruct (in_expand W i Hi) as [u [Hu E]]. subst i.
    apply Hmin. apply in_map. apply in_map. exact Hu.
Qed.
Lemma merge_big_is_model d W L : 0 <= d -> 0 <= L -> rows_ok W L ->
  (forall t, In t W -> t_start t < t_stop t) -> sortedb Z.leb (map fst (map untag W)) = true ->
  merge_model d (expand_w W) = Some (merge_big_model d W L).
Proof.
  intros Hd HL H Hne Hs.
  assert (Hwf : wf_merge_input (expand_w W) L).
  { split; [apply sorted_expand; exact Hs|]. intros i Hi. pose proof (expand_inside W L H i Hi).
    destruct (in_expand W i Hi) as [t [Ht E]]. subst i. specialize (Hne t Ht). unfold untag in *. cbn [fst snd] in *. lia. }
  rewrite (merge_bridged_runs d (expand_w W) L Hd HL Hwf). unfold merge_spec, merge_big_model, merge_w_spec.
  rewrite (mask_expand W L H). reflexivity.
Qed.

(* B4: count_overlap *)
Lemma count_overlap_big_is_model WA WB L : rows_ok WA L -> rows_ok WB L ->
  count_overlap_model (expand_w WA) (expand_w WB) = count_overlap_big_model WA WB L.
Proof.
  intros HA HB. rewrite (count_overlap_identity (expand_w WA) (expand_w WB) L).
  - unfold overlap_spec, count_overlap_big_model, overlap_w_spec. f_equal. apply map_ext. intros x.
    rewrite cov_app, (cov_expand WA x (rows_tags WA L HA)), (cov_expand WB x (rows_tags WB L HB)). reflexivity.
  - intros i Hi. apply in_app_iff in Hi. destruct Hi; [apply (expand_inside WA L HA)|apply (expand_inside WB L HB)]; assumption.
Qed.

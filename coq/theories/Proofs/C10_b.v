(* Proofs/C10_b.v — C10 part 3: merging never crosses a chromosome boundary (repaired algorithm),
   refutations for the pinned code, sorting, extraction under intervals, row-wise operations. *)
From Coq Require Import ZArith List Bool Lia Arith Permutation Sorted.
From BNP Require Import Base.Prims Base.PrimsFacts Model.C10 Proofs.C10.
Import ListNotations.
Open Scope Z_scope.

(* ------------------------------------------------------------------ the merge kernel *)
Definition tr (K : Z) (e : entry) : entry := set_se e (e_start e + K) (e_stop e + K).
Definition sh (szs : list Z) (d : Z) (e : entry) : entry := tr (gap_shift szs d (e_chr e)) e.

Lemma merge_from_tr : forall d K r cur m,
  merge_from d (tr K cur) (m + K) (map (tr K) r) = map (tr K) (merge_from d cur m r).
Proof.
  intros d K. induction r as [|e r IH]; intros cur m; [reflexivity|].
  cbn [map merge_from].
  replace (e_start (tr K e) >? m + K + d) with (e_start e >? m + d)
    by (unfold tr, set_se; cbn [e_start]; destruct (Z.gtb_spec (e_start e) (m + d)); destruct (Z.gtb_spec (e_start e + K) (m + K + d)); lia).
  replace (Z.max (m + K) (e_stop (tr K e))) with (Z.max m (e_stop e) + K)
    by (unfold tr, set_se; cbn [e_stop]; lia).
  destruct (e_start e >? m + d).
  - cbn [map]. rewrite IH. reflexivity.
  - apply IH.
Qed.
Lemma merge1_tr : forall d K l, merge1 d (map (tr K) l) = map (tr K) (merge1 d l).
Proof.
  intros d K [|e r]; [reflexivity|]. cbn [map merge1].
  change (e_stop (tr K e)) with (e_stop e + K). apply merge_from_tr.
Qed.

(* everything in l1 ends at or before M, the next interval begins beyond M + d: the merge splits there *)
Lemma merge_from_split : forall d M l1 cur m e2 l2, m <= M -> Forall (fun x => e_stop x <= M) l1 ->
  M + d < e_start e2 -> 0 <= d -> e_start e2 <= e_stop e2 ->
  merge_from d cur m (l1 ++ e2 :: l2) = merge_from d cur m l1 ++ merge_from d e2 (e_stop e2) l2.
Proof.
  intros d M. induction l1 as [|e l1 IH]; intros cur m e2 l2 Hm Hl Hgap Hd Hv.
  - cbn [app merge_from]. destruct (Z.gtb_spec (e_start e2) (m + d)); [|lia].
    rewrite Z.max_r by lia. reflexivity.
  - inversion Hl as [|? ? He Hl']; subst. cbn [app merge_from].
    destruct (e_start e >? m + d).
    + cbn [app]. f_equal. apply IH; try assumption. lia.
    + apply IH; try assumption. lia.
Qed.
Lemma merge1_split : forall d M A B, 0 <= d -> Forall (fun x => e_stop x <= M) A ->
  match B with [] => True | e2 :: _ => M + d < e_start e2 /\ e_start e2 <= e_stop e2 end ->
  merge1 d (A ++ B) = merge1 d A ++ merge1 d B.
Proof.
  intros d M A B Hd HA HB. destruct A as [|a A]; [reflexivity|].
  destruct B as [|e2 B]; [rewrite !app_nil_r; reflexivity|]. destruct HB as [Hg Hv].
  inversion HA; subst. cbn [app merge1]. apply (merge_from_split d M); try assumption.
Qed.

Lemma merge_from_chr : forall d a r cur m, e_chr cur = a -> Forall (fun e => e_chr e = a) r ->
  Forall (fun e => e_chr e = a) (merge_from d cur m r).
Proof.
  intros d a. induction r as [|e r IH]; intros cur m Hc Hr.
  - cbn [merge_from]. constructor; [exact Hc|constructor].
  - apply Forall_cons_iff in Hr. destruct Hr as [He Hr']. cbn [merge_from]. destruct (e_start e >? m + d).
    + constructor; [exact Hc|]. apply IH; assumption.
    + apply IH; assumption.
Qed.
Lemma merge1_chr : forall d a l, Forall (fun e => e_chr e = a) l -> Forall (fun e => e_chr e = a) (merge1 d l).
Proof.
  intros d a [|e r] H; [constructor|]. apply Forall_cons_iff in H. destruct H as [He Hr].
  apply merge_from_chr; assumption.
Qed.

(* ------------------------------------------------------------------ chromosome-sorted tables *)
Definition cs_le (a b : entry) : Prop := e_chr a < e_chr b \/ (e_chr a = e_chr b /\ e_start a <= e_start b).
Definition entry_wf (szs : list Z) (e : entry) : Prop := entry_placed szs e /\ e_start e <= e_stop e.

Lemma on_chr_chr : forall es a, Forall (fun e => e_chr e = a) (on_chr es a).
Proof.
  intros es a. apply Forall_forall. intros e He. unfold on_chr in He. apply filter_In in He.
  destruct He as [_ He]. apply Z.eqb_eq in He. assumption.
Qed.
Definition off_chr (es : list entry) (a : Z) : list entry := filter (fun e => negb (e_chr e =? a)) es.

Lemma split_sorted : forall a es, StronglySorted cs_le es -> Forall (fun e => a <= e_chr e) es ->
  es = on_chr es a ++ off_chr es a.
Proof.
  intros a es Hs. induction Hs as [|e es Hs IH Hall]; intros Hge; [reflexivity|].
  inversion Hge as [|? ? He Hge']; subst. unfold on_chr, off_chr in *. cbn [filter].
  destruct (Z.eqb_spec (e_chr e) a) as [Heq|Hne].
  - cbn [negb app]. f_equal. apply IH. assumption.
  - cbn [negb].
    assert (Hnone : forall x, In x es -> (e_chr x =? a) = false).
    { intros x Hx. rewrite Forall_forall in Hall. specialize (Hall x Hx). apply Z.eqb_neq.
      destruct Hall as [Hlt|[Heq _]]; lia. }
    replace (filter (fun e0 => e_chr e0 =? a) es) with (@nil entry).
    2:{ symmetry. clear -Hnone. induction es as [|x es IHes]; [reflexivity|]. cbn [filter].
        rewrite (Hnone x (or_introl eq_refl)). apply IHes. intros y Hy. apply Hnone. right. assumption. }
    cbn [app]. f_equal. clear -Hnone. induction es as [|x es IHes]; [reflexivity|]. cbn [filter].
    rewrite (Hnone x (or_introl eq_refl)). cbn [negb]. f_equal. apply IHes. intros y Hy. apply Hnone. right. assumption.
Qed.
Lemma on_chr_off_chr : forall es a c, c <> a -> on_chr (off_chr es a) c = on_chr es c.
Proof.
  intros es a c Hc. unfold on_chr, off_chr. induction es as [|e es IH]; [reflexivity|]. cbn [filter].
  destruct (Z.eqb_spec (e_chr e) a) as [Heq|Hne]; cbn [negb].
  - destruct (Z.eqb_spec (e_chr e) c); [lia|]. apply IH.
  - cbn [filter]. destruct (e_chr e =? c); [f_equal|]; apply IH.
Qed.
Lemma StronglySorted_filter : forall {A} (R : A -> A -> Prop) f l, StronglySorted R l -> StronglySorted R (filter f l).
Proof.
  intros A R f l H. induction H as [|x l Hs IH Hall]; [constructor|]. cbn [filter].
  destruct (f x); [|assumption]. constructor; [assumption|].
  apply Forall_forall. intros y Hy. apply filter_In in Hy. rewrite Forall_forall in Hall. apply Hall. tauto.
Qed.
Lemma Forall_filter' : forall {A} (P : A -> Prop) f l, Forall P l -> Forall P (filter f l).
Proof.
  intros A P f l H. apply Forall_forall. intros x Hx. apply filter_In in Hx. rewrite Forall_forall in H. apply H. tauto.
Qed.

Lemma gap_shift_sep : forall szs d a c, nonneg szs -> 0 <= d -> 0 <= a < c -> c < len szs ->
  gap_shift szs d a + size_of szs a + d < gap_shift szs d c.
Proof.
  intros szs d a c Hs Hd Hac Hc. unfold gap_shift.
  pose proof (off_before szs c a Hs ltac:(lia) ltac:(lia)).
  assert ((d + 1) * (a + 1) <= (d + 1) * c) by (apply Z.mul_le_mono_nonneg_l; lia). lia.
Qed.

Lemma merged_blocks : forall szs d, nonneg szs -> 0 <= d -> forall k a es,
  0 <= a -> a + Z.of_nat k <= len szs ->
  Forall (fun e => a <= e_chr e < a + Z.of_nat k) es -> Forall (entry_wf szs) es -> StronglySorted cs_le es ->
  merge1 d (map (sh szs d) es)
  = map (sh szs d) (concat (map (fun c => merge1 d (on_chr es c)) (arange_from a k))).
Proof.
  intros szs d Hs Hd. induction k as [|k IH]; intros a es Ha Hk Hrange Hwf Hsorted.
  - destruct es as [|e es]; [reflexivity|]. inversion Hrange; subst. lia.
  - cbn [arange_from map concat]. rewrite map_app.
    set (A := on_chr es a). set (B := off_chr es a).
    assert (Hes : es = A ++ B) by (apply split_sorted; [assumption|eapply Forall_impl; [|exact Hrange]; intros; cbv beta in *; lia]).
    (* the later chromosomes only see B *)
    assert (Hlater : map (fun c => merge1 d (on_chr es c)) (arange_from (a + 1) k)
                     = map (fun c => merge1 d (on_chr B c)) (arange_from (a + 1) k)).
    { apply map_ext_in. intros c Hc. apply In_arange_from in Hc. unfold B. rewrite on_chr_off_chr by lia. reflexivity. }
    rewrite Hlater.
    assert (HB : merge1 d (map (sh szs d) B)
                 = map (sh szs d) (concat (map (fun c => merge1 d (on_chr B c)) (arange_from (a + 1) k)))).
    { apply IH; try lia.
      - unfold B, off_chr. apply Forall_forall. intros e He. apply filter_In in He. destruct He as [He Hne].
        rewrite Forall_forall in Hrange. specialize (Hrange e He). apply negb_true_iff in Hne. apply Z.eqb_neq in Hne. lia.
      - apply Forall_filter'. assumption.
      - apply StronglySorted_filter. assumption. }
    rewrite <- HB.
    (* block A is a uniform translation *)
    assert (HA : map (sh szs d) (merge1 d A) = merge1 d (map (sh szs d) A)).
    { assert (E1 : map (sh szs d) A = map (tr (gap_shift szs d a)) A).
      { apply map_ext_in. intros e He. pose proof (on_chr_chr es a) as H. rewrite Forall_forall in H.
        unfold sh. rewrite (H e He). reflexivity. }
      assert (E2 : map (sh szs d) (merge1 d A) = map (tr (gap_shift szs d a)) (merge1 d A)).
      { apply map_ext_in. intros e He. pose proof (merge1_chr d a A (on_chr_chr es a)) as H. rewrite Forall_forall in H.
        unfold sh. rewrite (H e He). reflexivity. }
      rewrite E1, E2. symmetry. apply merge1_tr. }
    rewrite HA. rewrite Hes at 1. rewrite map_app.
    apply (merge1_split d (gap_shift szs d a + size_of szs a)); [assumption| |].
    + apply Forall_forall. intros e' He'. apply in_map_iff in He'. destruct He' as [e [<- He]].
      pose proof (on_chr_chr es a) as Hc. rewrite Forall_forall in Hc. specialize (Hc e He).
      assert (Hin : In e es) by (unfold A, on_chr in He; apply filter_In in He; tauto).
      rewrite Forall_forall in Hwf. destruct (Hwf e Hin) as [[[_ [_ Ht]] _] _].
      unfold sh, tr, set_se. cbn [e_stop]. rewrite Hc in *. lia.
    + destruct B as [|e2 B'] eqn:EB; [exact I|]. cbn [map].
      assert (Hin2 : In e2 B) by (rewrite EB; left; reflexivity).
      unfold B, off_chr in Hin2. apply filter_In in Hin2. destruct Hin2 as [Hin2 Hne].
      apply negb_true_iff in Hne. apply Z.eqb_neq in Hne.
      rewrite Forall_forall in Hrange, Hwf. specialize (Hrange e2 Hin2).
      destruct (Hwf e2 Hin2) as [[[Hc2 [Hs2 _]] _] Hv2].
      pose proof (gap_shift_sep szs d a (e_chr e2) Hs Hd ltac:(lia) ltac:(lia)).
      unfold sh, tr, set_se. cbn [e_start e_stop]. lia.
Qed.

Lemma starts_sorted_cons2 : forall a b r, starts_sorted (a :: b :: r) = (e_start a <=? e_start b) && starts_sorted (b :: r).
Proof. reflexivity. Qed.
Lemma starts_sorted_sh : forall szs d es, nonneg szs -> 0 <= d -> Forall (entry_wf szs) es ->
  StronglySorted cs_le es -> starts_sorted (map (sh szs d) es) = true.
Proof.
  intros szs d es Hs Hd Hwf Hsorted. induction Hsorted as [|e1 es Hsorted IH Hall]; [reflexivity|].
  inversion Hwf as [|? ? Hw1 Hwf']; subst. destruct es as [|e2 es]; [reflexivity|].
  cbn [map]. rewrite starts_sorted_cons2. specialize (IH Hwf'). cbn [map] in IH. rewrite IH. rewrite andb_true_r.
  inversion Hall as [|? ? H12 _]; subst. inversion Hwf' as [|? ? Hw2 _]; subst.
  destruct Hw1 as [[[Hc1 [Hs1 Ht1]] Hlt1] Hv1]. destruct Hw2 as [[[Hc2 [Hs2 Ht2]] Hlt2] Hv2].
  apply Z.leb_le. unfold sh, tr, set_se. cbn [e_start].
  destruct H12 as [Hlt|[Heq Hle]].
  - pose proof (gap_shift_sep szs d (e_chr e1) (e_chr e2) Hs Hd ltac:(lia) ltac:(lia)). lia.
  - rewrite Heq. lia.
Qed.

Theorem merged_fixed_local : forall szs us d es, nonneg szs -> 0 <= d ->
  Forall (entry_wf szs) es -> StronglySorted cs_le es ->
  model_merged_fixed szs us d es = RIvs (map triple (spec_merged szs d es)).
Proof.
  intros szs us d es Hs Hd Hwf Hsorted. unfold model_merged_fixed.
  destruct (Z.ltb_spec d 0); [lia|].
  unfold check_bounds. rewrite check_bounds_ok by (eapply Forall_impl; [|exact Hwf]; intros e [He _]; exact He).
  change (map (fun e => set_se e (e_start e + gap_shift szs d (e_chr e)) (e_stop e + gap_shift szs d (e_chr e))) es)
    with (map (sh szs d) es).
  rewrite starts_sorted_sh by assumption. f_equal.
  rewrite (merged_blocks szs d Hs Hd (length szs) 0 es); try assumption; try (unfold len; lia).
  - rewrite map_map. unfold spec_merged, arange. unfold len. rewrite Nat2Z.id.
    apply map_ext. intros e. unfold sh, tr, set_se, triple. cbn [e_chr e_start e_stop]. f_equal; [f_equal|]; lia.
  - eapply Forall_impl; [|exact Hwf]. intros e [[[Hc _] _] _]. unfold len in *. cbv beta. lia.
Qed.

(* ---------- the pinned code does not satisfy the statement ---------- *)
Definition valid_sorted_input (szs : list Z) (es : list entry) : Prop :=
  nonneg szs /\ Forall (entry_wf szs) es /\ StronglySorted cs_le es.
Ltac solve_valid :=
  split; [repeat constructor; lia|]; split;
  [repeat constructor; unfold size_of, nthZ, len; simpl; lia
  |repeat constructor; unfold cs_le; simpl; lia].

(* merged() with the default distance: AttributeError on the simplest input *)
Theorem merged_pinned_refuted :
  exists szs us d es, valid_sorted_input szs es /\ 0 <= d
    /\ model_merged_pinned szs us d es <> RIvs (map triple (spec_merged szs d es)).
Proof. exists [3], [false], 0, [mk 0 0 1]. split; [solve_valid|]. split; [lia|]. vm_compute. discriminate. Qed.
(* merged(1): a chromosome without intervals breaks the streamed route *)
Theorem merged_pinned_distance_refuted :
  exists szs us es, valid_sorted_input szs es
    /\ model_merged_pinned szs us 1 es <> RIvs (map triple (spec_merged szs 1 es)).
Proof. exists [2; 2], [false; false], [mk 1 0 1]. split; [solve_valid|]. vm_compute. discriminate. Qed.
(* Geometry.merge_intervals: intervals touching across the boundary are fused *)
Theorem geo_merge_pinned_refuted :
  exists szs d es, valid_sorted_input szs es /\ 0 <= d
    /\ model_geo_merge_pinned szs d es <> RIvs (map triple (spec_merged szs d es)).
Proof. exists [1; 3], 0, [mk 0 0 1; mk 1 0 1]. split; [solve_valid|]. split; [lia|]. vm_compute. discriminate. Qed.
(* ... silently, when the second one is empty *)
Theorem geo_merge_pinned_silent_refuted :
  exists szs es l, valid_sorted_input szs es /\ model_geo_merge_pinned szs 0 es = RIvs l
    /\ l <> map triple (spec_merged szs 0 es).
Proof.
  exists [2; 2], [mk 0 0 2; mk 1 0 0], [(0, 0, 2)]. split; [solve_valid|]. split; [reflexivity|]. vm_compute. discriminate.
Qed.

(* ------------------------------------------------------------------ sorting *)
Lemma key_le_total : forall a b, key_le a b = false -> key_le b a = true.
Proof.
  intros [[a1 a2] a3] [[b1 b2] b3]. unfold key_le. intros H.
  destruct (Z.ltb_spec a1 b1), (Z.eqb_spec a1 b1), (Z.ltb_spec a2 b2), (Z.eqb_spec a2 b2), (Z.leb_spec a3 b3);
    cbn in H; try discriminate;
  destruct (Z.ltb_spec b1 a1), (Z.eqb_spec b1 a1), (Z.ltb_spec b2 a2), (Z.eqb_spec b2 a2), (Z.leb_spec b3 a3);
    cbn; try reflexivity; lia.
Qed.
Lemma insert_by_perm : forall {A} (k : A -> key3) x l, Permutation (insert_by k x l) (x :: l).
Proof.
  intros A k x. induction l as [|y r IH]; [apply Permutation_refl|]. cbn [insert_by].
  destruct (key_le (k x) (k y)); [apply Permutation_refl|].
  eapply Permutation_trans; [apply perm_skip; exact IH|apply perm_swap].
Qed.
Lemma sort_by_perm : forall {A} (k : A -> key3) l, Permutation (sort_by k l) l.
Proof.
  intros A k. induction l as [|x l IH]; [apply Permutation_refl|]. unfold sort_by in *. cbn [fold_right].
  eapply Permutation_trans; [apply insert_by_perm|]. apply perm_skip. exact IH.
Qed.
Lemma insert_by_sorted : forall {A} (k : A -> key3) x l, sorted_by k l = true -> sorted_by k (insert_by k x l) = true.
Proof.
  intros A k x. induction l as [|y r IH]; intros H; [reflexivity|]. cbn [insert_by].
  destruct (key_le (k x) (k y)) eqn:E.
  - cbn [sorted_by]. rewrite E. exact H.
  - pose proof (key_le_total _ _ E) as Hyx. destruct r as [|z r'].
    + cbn [insert_by sorted_by]. rewrite Hyx. reflexivity.
    + cbn [sorted_by] in H. apply andb_prop in H. destruct H as [Hyz Hs]. specialize (IH Hs).
      cbn [insert_by] in *. destruct (key_le (k x) (k z)) eqn:E2.
      * cbn [sorted_by]. rewrite Hyx, E2. exact Hs.
      * cbn [sorted_by]. cbn [sorted_by] in IH. rewrite Hyz. exact IH.
Qed.
Lemma sort_by_sorted : forall {A} (k : A -> key3) l, sorted_by k (sort_by k l) = true.
Proof.
  intros A k. induction l as [|x l IH]; [reflexivity|]. unfold sort_by in *. cbn [fold_right].
  apply insert_by_sorted. exact IH.
Qed.

Theorem sorted_spec : forall es,
  Permutation (model_sorted es) es /\ sorted_by triple (model_sorted es) = true.
Proof. intros es. split; [apply sort_by_perm|apply sort_by_sorted]. Qed.
Theorem loc_sorted_spec : forall es,
  Permutation (model_loc_sorted es) es /\ sorted_by (fun e => (e_chr e, e_start e, 0)) (model_loc_sorted es) = true.
Proof. intros es. split; [apply sort_by_perm|apply sort_by_sorted]. Qed.

(* ------------------------------------------------------------------ values under intervals *)
Lemma len_concat : forall (l : list (list Z)), len (concat l) = sumZ (map len l).
Proof. induction l as [|x l IH]; [reflexivity|]. cbn [concat map]. rewrite len_app, sumZ_cons, IH. reflexivity. Qed.
Lemma nth_split' : forall {A} (l : list A) n d, (n < length l)%nat -> l = firstn n l ++ nth n l d :: skipn (S n) l.
Proof.
  intros A. induction l as [|x l IH]; intros n d Hn; [simpl in Hn; lia|].
  destruct n as [|n]; [reflexivity|]. simpl in Hn. cbn [firstn nth skipn app]. f_equal. apply IH. lia.
Qed.
Lemma concat_slice : forall (vals : list (list Z)) n s t, (n < length vals)%nat -> 0 <= s -> t <= len (nth n vals []) ->
  slice (s + len (concat (firstn n vals))) (t + len (concat (firstn n vals))) (concat vals) = slice s t (nth n vals []).
Proof.
  intros vals n s t Hn Hs Ht.
  rewrite (nth_split' vals n [] Hn) at 3. rewrite concat_app. cbn [concat].
  rewrite slice_app_r by lia.
  replace (s + len (concat (firstn n vals)) - len (concat (firstn n vals))) with s by lia.
  replace (t + len (concat (firstn n vals)) - len (concat (firstn n vals))) with t by lia.
  apply slice_app_l; assumption.
Qed.

Theorem extract_local : forall szs vals stranded es, szs = map len vals -> Forall (entry_wf szs) es ->
  model_extract szs vals stranded es = RRows (spec_extract vals stranded es).
Proof.
  intros szs vals stranded es Hsz Hwf. unfold model_extract, check_bounds.
  rewrite check_bounds_ok by (eapply Forall_impl; [|exact Hwf]; intros e [He _]; exact He).
  f_equal. unfold spec_extract. apply map_ext_in. intros e He.
  rewrite Forall_forall in Hwf. destruct (Hwf e He) as [[[Hc [Hs Ht]] _] _].
  assert (Hn : (Z.to_nat (e_chr e) < length vals)%nat).
  { unfold len in Hc. rewrite Hsz, map_length in Hc. lia. }
  assert (Hoff : off szs (e_chr e) = len (concat (firstn (Z.to_nat (e_chr e)) vals))).
  { replace (e_chr e) with (Z.of_nat (Z.to_nat (e_chr e))) at 1 by lia.
    rewrite off_offn by (rewrite Hsz, map_length; lia). unfold offn. rewrite Hsz, len_concat, firstn_map. reflexivity. }
  assert (Hsize : size_of szs (e_chr e) = len (nth (Z.to_nat (e_chr e)) vals [])).
  { unfold size_of, nthZ. rewrite Hsz. change 0 with (len (@nil Z)). apply map_nth. }
  rewrite Hoff. unfold nthd. rewrite concat_slice by lia. reflexivity.
Qed.

(* sequence: per-chromosome lookup, all rows reverse-complemented, row-wise choice on the strand — for EVERY interval set
   (any number of intervals, empty ones, all of length 1): the code in force since the np.where repair *)
Theorem seq_full : forall vals stranded es, model_seq vals stranded es = RRows (spec_seq vals stranded es).
Proof.
  intros vals stranded es. unfold model_seq, spec_seq. cbv zeta. f_equal.
  induction es as [|e es IH]; [reflexivity|]. cbn [map combine fst snd]. rewrite IH. f_equal.
  destruct stranded, (e_fwd e); reflexivity.
Qed.
(* HISTORY: the pinned strand selection (column mask) failed when there were at least as many intervals as bases *)
Theorem seq_pinned_partial : forall vals stranded es,
  (stranded = false \/ len es < len (concat (map (fun e => slice (e_start e) (e_stop e) (nthd [] vals (e_chr e))) es))) ->
  model_seq_pinned vals stranded es = RRows (spec_seq vals stranded es).
Proof.
  intros vals stranded es H. unfold model_seq_pinned.
  replace (stranded && _) with false; [reflexivity|].
  destruct H as [->|H]; [reflexivity|]. symmetry. apply andb_false_iff. right.
  apply Z.leb_gt. unfold len in *. rewrite map_length. exact H.
Qed.
Theorem seq_pinned_refuted : exists vals es, model_seq_pinned vals true es <> RRows (spec_seq vals true es).
Proof. exists [[65; 67; 71]], [mk 0 0 1]. vm_compute. discriminate. Qed.

(* ------------------------------------------------------------------ row-wise operations *)
Theorem extend_own_chromosome : forall szs es,
  (forall n, model_extend szs n es = spec_extend szs n es)
  /\ (forall n e, 0 <= n -> In e es -> 0 <= e_start e -> e_stop e <= size_of szs (e_chr e) ->
        let e' := extend1 n (size_of szs (e_chr e)) e in 0 <= e_start e' /\ e_stop e' <= size_of szs (e_chr e)).
Proof.
  intros szs es. split.
  - intros n. unfold model_extend, spec_extend, extend1. reflexivity.
  - intros n e Hn He Hs Ht. unfold extend1. destruct (e_fwd e); unfold set_se; cbn [e_start e_stop]; lia.
Qed.
(* a window around a position of a chromosome stays on it, contains the position, and is [p-l, p+r) when that fits *)
Theorem window_spec : forall size l r p e, 0 <= l -> 1 <= r -> 0 <= p < size -> e_start e = p ->
  let w := clip1 size (set_se e (e_start e - l) (e_start e + r)) in
  0 <= e_start w <= p /\ p < e_stop w <= size /\ e_chr w = e_chr e
  /\ (l <= p -> p + r <= size -> e_start w = p - l /\ e_stop w = p + r).
Proof.
  intros size l r p e Hl Hr Hp He. unfold clip1, set_se. cbn [e_start e_stop e_chr]. rewrite He. lia.
Qed.
(* get_location: the repaired variant is the specification; the pinned one is not *)
Theorem location_fixed_spec : forall st w e, 0 <= w <= 2 -> model_location_fixed st w e = spec_location st w e.
Proof.
  intros st w e Hw. unfold model_location_fixed, spec_location.
  destruct (Z.eqb_spec w 0); [subst; destruct st, (e_fwd e); reflexivity|].
  destruct (Z.eqb_spec w 1); [subst; destruct st, (e_fwd e); reflexivity|]. reflexivity.
Qed.
Theorem location_pinned_refuted : exists e, model_location_pinned false 1 e <> spec_location false 1 e.
Proof. exists (mk 0 1 3). vm_compute. discriminate. Qed.
Theorem location_pinned_partial : forall st w e, 0 <= w <= 2 -> (st = true \/ w <> 1) ->
  model_location_pinned st w e = spec_location st w e.
Proof.
  intros st w e Hw H. unfold model_location_pinned, spec_location.
  destruct (Z.eqb_spec w 0); [subst; destruct st, (e_fwd e); reflexivity|].
  destruct (Z.eqb_spec w 1); [subst; destruct H as [->|H]; [destruct (e_fwd e); reflexivity|lia]|]. reflexivity.
Qed.

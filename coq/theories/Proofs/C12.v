(* Proofs/C12.v — the synchronisation state machines of Model/C12.v meet the Spec (spec_sync) for every
   genome / contig list and every sequence of groups; unbounded sizes, by induction on the walk. *)
From Coq Require Import ZArith List Bool Lia Arith.
From BNP Require Import Base.Prims Model.C12.
Import ListNotations.

Section Proofs.
Variable name : Type.
Variable neqb : name -> name -> bool.
Hypothesis neqb_eq : forall a b, neqb a b = true <-> a = b.

Notation mem := (mem name neqb).
Notation subseq_b := (subseq_b name neqb).

Lemma neqb_refl a : neqb a a = true.
Proof. apply neqb_eq; reflexivity. Qed.
Lemma neqb_neq a b : neqb a b = false <-> a <> b.
Proof.
  split; intros H.
  - intros E. apply neqb_eq in E. congruence.
  - destruct (neqb a b) eqn:E; auto. apply neqb_eq in E. contradiction.
Qed.
Lemma mem_In n l : mem n l = true <-> In n l.
Proof.
  unfold C12.mem. rewrite existsb_exists. split.
  - intros [x [Hx E]]. apply neqb_eq in E. subst. exact Hx.
  - intros H. exists n. split; auto. apply neqb_refl.
Qed.
Lemma mem_false n l : mem n l = false <-> ~ In n l.
Proof.
  split; intros H.
  - intros Hin. apply mem_In in Hin. congruence.
  - destruct (mem n l) eqn:E; auto. apply mem_In in E. contradiction.
Qed.

(* ---------- subsequence test ---------- *)
Lemma subseq_b_nil G : subseq_b [] G = true.
Proof. destruct G; reflexivity. Qed.
Lemma subseq_b_incl l G : subseq_b l G = true -> incl l G.
Proof.
  revert l. induction G as [|c G IH]; intros l H.
  - destruct l; [intros x []|discriminate].
  - destruct l as [|n l']; [intros x []|]. simpl in H.
    destruct (neqb n c) eqn:E.
    + apply neqb_eq in E. subst. intros x [->|Hx]; [left; reflexivity|right; apply (IH _ H); exact Hx].
    + intros x Hx. right. apply (IH _ H). exact Hx.
Qed.
Lemma subseq_b_tail n l G : subseq_b (n :: l) G = true -> subseq_b l G = true.
Proof.
  revert n l. induction G as [|c G IH]; intros n l H; [discriminate|].
  simpl in H. destruct l as [|m l']; [reflexivity|].
  simpl. destruct (neqb n c) eqn:E.
  - destruct (neqb m c); [eapply IH; exact H|exact H].
  - destruct (neqb m c); [eapply IH; eapply IH; exact H|eapply IH; exact H].
Qed.
Lemma subseq_b_Subseq l G : subseq_b l G = true <-> Subseq name l G.
Proof.
  split.
  - revert l. induction G as [|c G IH]; intros l H.
    + destruct l; [constructor|discriminate].
    + destruct l as [|n l']; [constructor|]. simpl in H. destruct (neqb n c) eqn:E.
      * apply neqb_eq in E. subst. constructor. apply IH. exact H.
      * apply Subseq_skip. apply IH. exact H.
  - induction 1 as [G|n l G H IH|l c G H IH].
    + apply subseq_b_nil.
    + simpl. rewrite neqb_refl. exact IH.
    + destruct l as [|n l']; [reflexivity|]. simpl. destruct (neqb n c); [|exact IH].
      eapply subseq_b_tail. exact IH.
Qed.
Lemma subseq_b_notin n l G : ~ In n G -> subseq_b (n :: l) G = false.
Proof.
  intros H. destruct (subseq_b (n :: l) G) eqn:E; auto.
  apply subseq_b_incl in E. exfalso. apply H. apply E. left; reflexivity.
Qed.
Lemma subseq_b_skip_pre n l pre rest :
  ~ In n pre -> subseq_b (n :: l) (pre ++ n :: rest) = subseq_b l rest.
Proof.
  induction pre as [|c pre IH]; intros H; simpl.
  - rewrite neqb_refl. reflexivity.
  - assert (neqb n c = false) as ->. { apply neqb_neq. intros ->. apply H. left; reflexivity. }
    apply IH. intros Hin. apply H. right; exact Hin.
Qed.

Lemma NoDup_app_l {A} (a b : list A) : NoDup (a ++ b) -> NoDup a.
Proof. induction a; simpl; intros H; [constructor|]. inversion H; subst. constructor; [rewrite in_app_iff in *; tauto|auto]. Qed.
Lemma NoDup_app_r {A} (a b : list A) : NoDup (a ++ b) -> NoDup b.
Proof. induction a; simpl; intros H; auto. inversion H; auto. Qed.
Lemma NoDup_app_disj {A} (a b : list A) x : NoDup (a ++ b) -> In x a -> In x b -> False.
Proof.
  induction a; simpl; intros H Ha Hb; [contradiction|]. inversion H; subst.
  destruct Ha as [->|Ha]; [apply H2; rewrite in_app_iff; tauto|eauto].
Qed.

Section Payload.
Variable P : Type.
Variable empty : P.
Notation lookup := (lookup name neqb P empty).
Notation assign := (assign name neqb P empty).
Notation walk := (walk name neqb P empty).
Notation walk_ahead := (walk_ahead name neqb P empty).
Notation names := (map (@fst name P)).

Lemma lookup_notin c D : ~ In c (names D) -> lookup c D = empty.
Proof.
  induction D as [|[n p] D IH]; simpl; intros H; [reflexivity|].
  assert (neqb c n = false) as ->. { apply neqb_neq. intros ->. apply H. left; reflexivity. }
  apply IH. tauto.
Qed.
Lemma assign_cons_other G n p D : ~ In n G -> assign G ((n, p) :: D) = assign G D.
Proof.
  intros H. unfold C12.assign. apply map_ext_in. intros x Hx. simpl.
  assert (neqb x n = false) as ->; [|reflexivity]. apply neqb_neq. intros ->. contradiction.
Qed.
Lemma assign_nil G : assign G [] = map (fun _ => empty) G.
Proof. reflexivity. Qed.
Lemma assign_head c rest p D : ~ In c rest -> assign (c :: rest) ((c, p) :: D) = p :: assign rest D.
Proof.
  intros H. unfold C12.assign at 1. simpl. rewrite neqb_refl. f_equal. apply assign_cons_other. exact H.
Qed.
Lemma assign_skip c rest D : ~ In c (names D) -> assign (c :: rest) D = empty :: assign rest D.
Proof. intros H. unfold C12.assign at 1. simpl. rewrite lookup_notin by exact H. reflexivity. Qed.
Local Arguments C12.assign : simpl never.
Lemma assign_all_empty G D : (forall x, In x G -> ~ In x (names D)) -> assign G D = repeat empty (length G).
Proof.
  unfold C12.assign. induction G as [|c G IH]; intros H; [reflexivity|]. simpl. f_equal.
  - apply lookup_notin. apply H. left; reflexivity.
  - apply IH. intros x Hx. apply H. right; exact Hx.
Qed.

(* what "meets the spec" means for a trace: exactly the assignment then StopIteration, or an exception *)
Definition trace_meets {A} (t : trace A) (expected : option (list A)) : Prop :=
  match expected with
  | Some a => t = (a, Stop)
  | None => exists ys c, t = (ys, Raise c)
  end.
(* ... and moreover every exception comes before the k-th yield *)
Definition trace_meets_early {A} (k : nat) (t : trace A) (expected : option (list A)) : Prop :=
  match expected with
  | Some a => t = (a, Stop)
  | None => exists ys c, t = (ys, Raise c) /\ (length ys < k)%nat
  end.
Lemma ycons_meets {A} (a : A) t exp :
  trace_meets t exp -> trace_meets (ycons a t) (option_map (cons a) exp).
Proof.
  destruct exp; simpl.
  - intros ->. reflexivity.
  - intros [ys [c ->]]. exists (a :: ys), c. reflexivity.
Qed.
Lemma ycons_meets_early {A} k (a : A) t exp :
  trace_meets_early k t exp -> trace_meets_early (S k) (ycons a t) (option_map (cons a) exp).
Proof.
  destruct exp; simpl.
  - intros ->. reflexivity.
  - intros [ys [c [-> Hl]]]. exists (a :: ys), c. split; [reflexivity|simpl; lia].
Qed.

(* ---------- iter_chromosomes walk ---------- *)
Definition walk_inv (rest seen : list name) (R : list (name * P)) (e : bool) : Prop :=
  NoDup (seen ++ rest) /\ NoDup (names R) /\ (forall n, In n (names R) -> In n (seen ++ rest))
  /\ match R with (n, _) :: _ => ~ In n seen | [] => e = false end.
Definition walk_expected (rest : list name) (R : list (name * P)) (e : bool) : option (list P) :=
  if subseq_b (names R) rest && negb e then Some (assign rest R) else None.

Lemma walk_inv_step_other c rest seen n p up e :
  walk_inv (c :: rest) seen ((n, p) :: up) e -> c <> n -> walk_inv rest (seen ++ [c]) ((n, p) :: up) e.
Proof.
  intros [Hnd [HR [Hsub Hhd]]] Hne. unfold walk_inv. rewrite <- app_assoc. simpl.
  repeat split; auto. rewrite in_app_iff. simpl. intros [H|[H|[]]]; [contradiction|congruence].
Qed.

Lemma walk_inv_nil rest seen c : NoDup (seen ++ c :: rest) -> walk_inv rest (seen ++ [c]) [] false.
Proof.
  intros Hnd. unfold walk_inv. rewrite <- app_assoc. simpl. repeat split; auto. constructor. intros n [].
Qed.
Lemma walk_inv_step_match c rest seen p n' p' up' e :
  walk_inv (c :: rest) seen ((c, p) :: (n', p') :: up') e -> ~ In n' seen ->
  walk_inv rest (seen ++ [c]) ((n', p') :: up') e.
Proof.
  intros [Hnd [HR [Hsub Hhd]]] Hns. unfold walk_inv. rewrite <- app_assoc. simpl.
  simpl in HR. inversion HR as [|? ? Hc HR']; subst.
  repeat split; auto.
  - intros x Hx. apply Hsub. right. exact Hx.
  - rewrite in_app_iff. simpl. intros [H|[H|[]]]; [contradiction|]. subst n'. apply Hc. left; reflexivity.
Qed.
Lemma walk_expected_nil rest : walk_expected rest [] false = Some (assign rest []).
Proof. unfold walk_expected. simpl. rewrite subseq_b_nil. reflexivity. Qed.
Lemma walk_expected_match c rest p up e :
  ~ In c rest ->
  walk_expected (c :: rest) ((c, p) :: up) e = option_map (cons p) (walk_expected rest up e).
Proof.
  intros Hc. unfold walk_expected. simpl. rewrite neqb_refl.
  destruct (subseq_b (names up) rest && negb e); simpl; [|reflexivity].
  rewrite assign_head by exact Hc. reflexivity.
Qed.
Lemma walk_expected_other c rest n p up e :
  c <> n -> NoDup (c :: rest) ->
  walk_expected (c :: rest) ((n, p) :: up) e = option_map (cons empty) (walk_expected rest ((n, p) :: up) e).
Proof.
  intros Hne Hnd. unfold walk_expected. simpl.
  assert (neqb n c = false) as ->. { apply neqb_neq. congruence. }
  destruct (subseq_b (n :: names up) rest) eqn:Eg; simpl; [|reflexivity].
  destruct (negb e); simpl; [|reflexivity].
  rewrite assign_skip; [reflexivity|].
  apply subseq_b_incl in Eg. inversion Hnd; subst. intros Hin. apply H1. apply Eg. exact Hin.
Qed.

Lemma walk_spec : forall rest seen R e,
  walk_inv rest seen R e -> trace_meets (walk rest seen R e) (walk_expected rest R e).
Proof.
  induction rest as [|c rest IH]; intros seen R e Hinv.
  - destruct Hinv as [Hnd [HR [Hsub Hhd]]]. destruct R as [|[n p] up].
    + subst e. reflexivity.
    + exfalso. apply Hhd. specialize (Hsub n (or_introl eq_refl)). rewrite app_nil_r in Hsub. exact Hsub.
  - assert (Hnd : NoDup (seen ++ c :: rest)) by apply Hinv.
    assert (Hcr : NoDup (c :: rest)) by (apply NoDup_app_r in Hnd; exact Hnd).
    assert (Hc_rest : ~ In c rest) by (inversion Hcr; auto).
    destruct R as [|[n p] up].
    + (* nothing pending: empty tables to the end *)
      assert (e = false) as -> by apply Hinv.
      change (walk (c :: rest) seen [] false) with (ycons empty (walk rest (seen ++ [c]) [] false)).
      specialize (IH _ _ _ (walk_inv_nil _ _ _ Hnd)). rewrite walk_expected_nil in *.
      apply (ycons_meets empty) in IH. exact IH.
    + simpl. destruct (neqb c n) eqn:Ecn.
      * (* the pending group is this contig's *)
        apply neqb_eq in Ecn. subst n. rewrite walk_expected_match by exact Hc_rest.
        destruct up as [|[n' p'] up'].
        -- destruct e.
           ++ unfold walk_expected. rewrite andb_false_r. exists [p], E_NOTINCL. reflexivity.
           ++ apply ycons_meets. apply IH. apply walk_inv_nil. exact Hnd.
        -- destruct (mem n' seen) eqn:Em.
           ++ (* the next group's contig was already passed: the code raises, and the spec demands it *)
              apply mem_In in Em. unfold walk_expected. simpl names. rewrite subseq_b_notin.
              ** exists [p], E_ORDER. reflexivity.
              ** intros Hin. eapply (NoDup_app_disj seen (c :: rest)); eauto. right; exact Hin.
           ++ apply mem_false in Em. apply ycons_meets. apply IH. eapply walk_inv_step_match; eauto.
      * (* another contig: it gets the empty table *)
        apply neqb_neq in Ecn. rewrite walk_expected_other by auto.
        apply ycons_meets. apply IH. apply walk_inv_step_other; auto.
Qed.

(* the variant that looks ahead before yielding (fix-2): same result, and every exception precedes the last yield *)
Lemma walk_ahead_spec : forall rest seen R e,
  walk_inv rest seen R e ->
  trace_meets_early (length rest) (walk_ahead rest seen R e) (walk_expected rest R e).
Proof.
  induction rest as [|c rest IH]; intros seen R e Hinv.
  - destruct Hinv as [Hnd [HR [Hsub Hhd]]]. destruct R as [|[n p] up].
    + subst e. reflexivity.
    + exfalso. apply Hhd. specialize (Hsub n (or_introl eq_refl)). rewrite app_nil_r in Hsub. exact Hsub.
  - assert (Hnd : NoDup (seen ++ c :: rest)) by apply Hinv.
    assert (Hcr : NoDup (c :: rest)) by (apply NoDup_app_r in Hnd; exact Hnd).
    assert (Hc_rest : ~ In c rest) by (inversion Hcr; auto).
    destruct R as [|[n p] up].
    + assert (e = false) as -> by apply Hinv.
      change (walk_ahead (c :: rest) seen [] false) with (ycons empty (walk_ahead rest (seen ++ [c]) [] false)).
      specialize (IH _ _ _ (walk_inv_nil _ _ _ Hnd)). rewrite walk_expected_nil in *.
      apply (ycons_meets_early _ empty) in IH. exact IH.
    + simpl walk_ahead. destruct (neqb c n) eqn:Ecn.
      * apply neqb_eq in Ecn. subst n. rewrite walk_expected_match by exact Hc_rest.
        destruct up as [|[n' p'] up'].
        -- destruct e.
           ++ unfold walk_expected. rewrite andb_false_r. exists [], E_NOTINCL. split; [reflexivity|simpl; lia].
           ++ apply ycons_meets_early. apply IH. apply walk_inv_nil. exact Hnd.
        -- assert (Hn'c : n' <> c).
           { destruct Hinv as [_ [HR _]]. simpl in HR. inversion HR; subst. intros ->. apply H1. left; reflexivity. }
           assert (neqb n' c = false) as ->. { apply neqb_neq. exact Hn'c. }
           rewrite orb_false_r.
           destruct (mem n' seen) eqn:Em.
           ++ apply mem_In in Em. unfold walk_expected. simpl names. rewrite subseq_b_notin.
              ** exists [], E_ORDER. split; [reflexivity|simpl; lia].
              ** intros Hin. eapply (NoDup_app_disj seen (c :: rest)); eauto. right; exact Hin.
           ++ apply mem_false in Em. apply ycons_meets_early. apply IH. eapply walk_inv_step_match; eauto.
      * apply neqb_neq in Ecn. rewrite walk_expected_other by auto.
        apply ycons_meets_early. apply IH. apply walk_inv_step_other; auto.
Qed.

(* ---------- _included_groups ---------- *)
Notation included_groups := (included_groups name neqb P).
Notation not_ignored := (not_ignored name neqb P).
Lemma included_groups_spec ign incl D :
  exists tail, not_ignored ign D = fst (included_groups ign incl D) ++ tail
    /\ (forall n, In n (names (fst (included_groups ign incl D))) -> In n incl)
    /\ (snd (included_groups ign incl D) = false -> tail = [])
    /\ (snd (included_groups ign incl D) = true -> exists n p t, tail = (n, p) :: t /\ ~ In n incl).
Proof.
  induction D as [|[n p] D IH].
  - exists []. simpl. repeat split; auto; try discriminate. intros n [].
  - simpl. unfold C12.not_ignored in *. simpl. destruct (mem n ign) eqn:Ei; simpl.
    + exact IH.
    + destruct (mem n incl) eqn:Ec.
      * destruct IH as [tail [H1 [H2 [H3 H4]]]].
        destruct (included_groups ign incl D) as [l e] eqn:Eg. simpl in *.
        exists tail. rewrite H1. repeat split; auto.
        intros x [<-|Hx]; [apply mem_In; exact Ec|auto].
      * simpl. exists ((n, p) :: filter (fun g : name * P => negb (mem (fst g) ign)) D).
        repeat split; auto; try discriminate.
        -- intros x [].
        -- intros _. exists n, p, (filter (fun g : name * P => negb (mem (fst g) ign)) D). split; auto.
           apply mem_false. exact Ec.
Qed.
Lemma NoDup_names_filter (f : name * P -> bool) D : NoDup (names D) -> NoDup (names (filter f D)).
Proof.
  induction D as [|[n p] D IH]; simpl; intros H; [constructor|]. inversion H; subst.
  destruct (f (n, p)); simpl; auto. constructor; auto.
  intros Hin. apply H2. apply in_map_iff in Hin. destruct Hin as [x [Hx Hin]]. apply filter_In in Hin.
  apply in_map_iff. exists x. tauto.
Qed.

Notation spec_sync := (spec_sync name neqb P empty).

(* iter_chromosomes when chromosome_order() is the list of included contigs *)
Lemma iter_chrom_generic w (Hw : forall rest seen R e, walk_inv rest seen R e ->
                                  trace_meets (w rest seen R e) (walk_expected rest R e)) :
  forall G I D, NoDup G -> NoDup (names D) ->
    trace_meets (iter_chrom_with name neqb P w G G I D) (spec_sync G I D).
Proof.
  intros G I D HG HD. unfold iter_chrom_with, C12.spec_sync.
  destruct (included_groups_spec I G D) as [tail [H1 [H2 [H3 H4]]]].
  assert (HD' := NoDup_names_filter (fun g => negb (mem (fst g) I)) D HD). fold (not_ignored I D) in HD'.
  destruct (included_groups I G D) as [R e] eqn:Eg. simpl in *.
  assert (Hinv : R <> [] \/ e = false -> walk_inv G [] R e).
  { intros Hne. unfold walk_inv. simpl. repeat split; auto.
    - rewrite H1, map_app in HD'. apply NoDup_app_l in HD'. exact HD'.
    - destruct R as [|[n p] up]; [destruct Hne; congruence|auto]. }
  assert (Hexp : walk_expected G R e = (if subseq_b (names (not_ignored I D)) G then Some (assign G (not_ignored I D)) else None)).
  { unfold walk_expected. destruct e.
    - destruct (H4 eq_refl) as [n [p [t [-> Hn]]]]. rewrite andb_false_r.
      rewrite H1, map_app. simpl.
      destruct (subseq_b (names R ++ n :: names t) G) eqn:Es; auto.
      apply subseq_b_incl in Es. exfalso. apply Hn. apply Es. rewrite in_app_iff. right; left; reflexivity.
    - rewrite (H3 eq_refl), app_nil_r in H1. rewrite H1, andb_true_r. reflexivity. }
  rewrite <- Hexp.
  destruct R as [|g R'].
  - destruct e.
    + unfold walk_expected. simpl. rewrite andb_false_r. exists [], E_NOTINCL. reflexivity.
    + apply Hw. apply Hinv. right; reflexivity.
  - apply Hw. apply Hinv. left; discriminate.
Qed.

Theorem iter_chrom_exact : forall G I D, NoDup G -> NoDup (names D) ->
  trace_meets (iter_chrom name neqb P empty G G I D) (spec_sync G I D).
Proof. intros. apply iter_chrom_generic; auto. apply walk_spec. Qed.

Lemma trace_meets_early_weaken {A} k (t : trace A) exp : trace_meets_early k t exp -> trace_meets t exp.
Proof. destruct exp; simpl; auto. intros [ys [c [H _]]]. eauto. Qed.

Theorem iter_chrom_ahead_exact : forall G I D, NoDup G -> NoDup (names D) ->
  trace_meets (iter_chrom_ahead name neqb P empty G G I D) (spec_sync G I D).
Proof.
  intros. apply iter_chrom_generic; auto. intros. eapply trace_meets_early_weaken. apply walk_ahead_spec. auto.
Qed.

(* with the look-ahead, a consumer that pulls exactly one table per contig sees every error *)
Theorem iter_chrom_ahead_early : forall G I D, NoDup G -> NoDup (names D) -> G <> [] ->
  trace_meets_early (length G) (iter_chrom_ahead name neqb P empty G G I D) (spec_sync G I D).
Proof.
  intros G I D HG HD HG0. unfold iter_chrom_ahead, iter_chrom_with, C12.spec_sync.
  destruct (included_groups_spec I G D) as [tail [H1 [H2 [H3 H4]]]].
  assert (HD' := NoDup_names_filter (fun g => negb (mem (fst g) I)) D HD). fold (not_ignored I D) in HD'.
  destruct (included_groups I G D) as [R e] eqn:Eg. simpl in *.
  assert (Hinv : R <> [] \/ e = false -> walk_inv G [] R e).
  { intros Hne. unfold walk_inv. simpl. repeat split; auto.
    - rewrite H1, map_app in HD'. apply NoDup_app_l in HD'. exact HD'.
    - destruct R as [|[n p] up]; [destruct Hne; congruence|auto]. }
  assert (Hexp : walk_expected G R e = (if subseq_b (names (not_ignored I D)) G then Some (assign G (not_ignored I D)) else None)).
  { unfold walk_expected. destruct e.
    - destruct (H4 eq_refl) as [n [p [t [-> Hn]]]]. rewrite andb_false_r.
      rewrite H1, map_app. simpl.
      destruct (subseq_b (names R ++ n :: names t) G) eqn:Es; auto.
      apply subseq_b_incl in Es. exfalso. apply Hn. apply Es. rewrite in_app_iff. right; left; reflexivity.
    - rewrite (H3 eq_refl), app_nil_r in H1. rewrite H1, andb_true_r. reflexivity. }
  rewrite <- Hexp.
  destruct R as [|g R'].
  - destruct e.
    + unfold walk_expected. simpl. rewrite andb_false_r. exists [], E_NOTINCL. split; [reflexivity|].
      destruct G; [congruence|simpl; lia].
    + apply walk_ahead_spec. apply Hinv. right; reflexivity.
  - apply walk_ahead_spec. apply Hinv. left; discriminate.
Qed.

(* ---------- consumers ---------- *)
Lemma pull_all_meets {A} (t : trace A) exp :
  trace_meets t exp ->
  match exp with Some a => pull_all t = Done a | None => exists c, pull_all t = Err c end.
Proof.
  destruct exp; simpl.
  - intros ->. reflexivity.
  - intros [ys [c ->]]. exists c. reflexivity.
Qed.
Lemma pull_n_good {A} (t : trace A) a : t = (a, Stop) -> pull_n (length a) t = Done a.
Proof. intros ->. unfold pull_n. simpl. rewrite Nat.leb_refl, firstn_all. reflexivity. Qed.
Lemma pull_n_early {A} k (t : trace A) exp :
  trace_meets_early k t exp ->
  match exp with Some a => length a = k -> pull_n k t = Done a | None => exists c, pull_n k t = Err c end.
Proof.
  destruct exp; simpl.
  - intros -> <-. apply pull_n_good. reflexivity.
  - intros [ys [c [-> Hl]]]. exists c. unfold pull_n. simpl.
    destruct (k <=? length ys)%nat eqn:E; [apply Nat.leb_le in E; lia|reflexivity].
Qed.

(* ---------- SynchedStream ---------- *)
Notation sync := (sync name neqb P empty).
Notation sync_skip := (sync_skip name neqb).
Lemma sync_skip_spec n : forall rest seen, In n rest ->
  exists pre rest', rest = pre ++ n :: rest' /\ ~ In n pre
    /\ sync_skip n rest seen = (length pre, Some (rest', seen ++ pre ++ [n])).
Proof.
  induction rest as [|c rest IH]; intros seen Hin; [contradiction|].
  simpl. destruct (neqb n c) eqn:E.
  - apply neqb_eq in E. subst c. exists [], rest. simpl. repeat split; auto.
  - apply neqb_neq in E. destruct Hin as [->|Hin]; [congruence|].
    destruct (IH (seen ++ [c]) Hin) as [pre [rest' [-> [Hn Hs]]]].
    exists (c :: pre), rest'. rewrite Hs. simpl. repeat split; auto.
    + intros [H|H]; [congruence|contradiction].
    + rewrite <- app_assoc. reflexivity.
Qed.

Definition sync_expected (rest : list name) (gs : list (name * P)) : option (list P) :=
  if subseq_b (names gs) rest then Some (assign rest gs) else None.

Lemma yapp_meets {A} (l : list A) t exp :
  trace_meets t exp -> trace_meets (yapp l t) (option_map (app l) exp).
Proof.
  destruct exp; simpl.
  - intros ->. reflexivity.
  - intros [ys [c ->]]. exists (l ++ ys), c. reflexivity.
Qed.

Lemma assign_split pre n rest' p gs :
  NoDup (pre ++ n :: rest') -> incl (names gs) rest' ->
  assign (pre ++ n :: rest') ((n, p) :: gs) = (repeat empty (length pre) ++ [p]) ++ assign rest' gs.
Proof.
  intros Hnd Hincl. unfold C12.assign at 1. rewrite map_app. simpl. rewrite neqb_refl.
  rewrite <- app_assoc. simpl. f_equal; [|f_equal].
  - change (assign pre ((n, p) :: gs) = repeat empty (length pre)). rewrite assign_cons_other.
    + apply assign_all_empty. intros x Hx Hin. apply Hincl in Hin.
      eapply (NoDup_app_disj pre (n :: rest')); eauto. right; exact Hin.
    + intros Hin. eapply (NoDup_app_disj pre (n :: rest')); eauto. left; reflexivity.
  - change (assign rest' ((n, p) :: gs) = assign rest' gs). apply assign_cons_other.
    apply NoDup_app_r in Hnd. inversion Hnd; auto.
Qed.

Lemma sync_spec order : forall gs rest seen,
  order = seen ++ rest -> NoDup order -> NoDup (names gs) ->
  trace_meets (sync order rest seen gs) (sync_expected rest gs).
Proof.
  induction gs as [|[n p] gs IH]; intros rest seen Ho Hnd Hgs.
  - simpl. unfold sync_expected. simpl. rewrite subseq_b_nil. reflexivity.
  - simpl. unfold sync_expected. simpl names.
    destruct (mem n seen) eqn:Es.
    { apply mem_In in Es. rewrite subseq_b_notin; [exists [], E_SEEN; reflexivity|].
      intros Hin. subst order. eapply NoDup_app_disj; eauto. }
    destruct (mem n order) eqn:Eo; simpl.
    2:{ apply mem_false in Eo. rewrite subseq_b_notin; [exists [], E_NOTIN; reflexivity|].
        intros Hin. apply Eo. subst order. rewrite in_app_iff. tauto. }
    apply mem_false in Es. apply mem_In in Eo.
    assert (Hin : In n rest). { subst order. rewrite in_app_iff in Eo. tauto. }
    destruct (sync_skip_spec n rest seen Hin) as [pre [rest' [-> [Hpre Hsk]]]].
    rewrite Hsk. rewrite subseq_b_skip_pre by exact Hpre.
    assert (Ho' : order = (seen ++ pre ++ [n]) ++ rest').
    { rewrite Ho. rewrite <- !app_assoc. reflexivity. }
    assert (Hgs' : NoDup (names gs)) by (simpl in Hgs; inversion Hgs; auto).
    specialize (IH rest' (seen ++ pre ++ [n]) Ho' Hnd Hgs'). unfold sync_expected in IH.
    destruct (subseq_b (names gs) rest') eqn:Eg.
    + simpl in IH. rewrite IH. unfold yapp. simpl. rewrite assign_split; auto.
      * subst order. apply NoDup_app_r in Hnd. exact Hnd.
      * apply subseq_b_incl. exact Eg.
    + destruct IH as [ys [c IH]]. rewrite IH. exists ((repeat empty (length pre) ++ [p]) ++ ys), c. reflexivity.
Qed.

Theorem synched_exact : forall order gs, NoDup order -> NoDup (names gs) ->
  trace_meets (synched name neqb P empty order gs) (spec_sync order [] gs).
Proof.
  intros order gs Ho Hgs. unfold synched, C12.spec_sync.
  assert (C12.not_ignored name neqb P [] gs = gs) as ->.
  { unfold C12.not_ignored. induction gs as [|g gs IH]; simpl; [reflexivity|]. f_equal. apply IH. simpl in Hgs. inversion Hgs; auto. }
  apply (sync_spec order gs order []); auto.
Qed.

(* the variant that checks the following group's name before yielding (fix-3) *)
Notation sync_ahead := (sync_ahead name neqb P empty).
Lemma yapp_meets_early {A} k (l : list A) t exp :
  trace_meets_early k t exp -> trace_meets_early (length l + k) (yapp l t) (option_map (app l) exp).
Proof.
  destruct exp; simpl.
  - intros ->. reflexivity.
  - intros [ys [c [-> Hl]]]. exists (l ++ ys), c. split; [reflexivity|]. rewrite app_length. simpl. lia.
Qed.
Lemma check_name_spec order seen n :
  match check_name name neqb order seen n with
  | Some _ => In n seen \/ ~ In n order
  | None => ~ In n seen /\ In n order
  end.
Proof.
  unfold check_name. destruct (mem n seen) eqn:Es.
  - left. apply mem_In. exact Es.
  - destruct (mem n order) eqn:Eo; simpl.
    + split; [apply mem_false; exact Es|apply mem_In; exact Eo].
    + right. apply mem_false. exact Eo.
Qed.
Lemma sync_ahead_spec order : forall gs rest seen,
  order = seen ++ rest -> NoDup order -> NoDup (names gs) ->
  match gs with (n, _) :: _ => ~ In n seen /\ In n order | [] => True end ->
  trace_meets_early (length rest) (sync_ahead order rest seen gs) (sync_expected rest gs).
Proof.
  induction gs as [|[n p] gs IH]; intros rest seen Ho Hnd Hgs Hhd.
  - simpl. unfold sync_expected. simpl. rewrite subseq_b_nil. reflexivity.
  - destruct Hhd as [Hns Hno].
    assert (Hin : In n rest). { subst order. rewrite in_app_iff in Hno. tauto. }
    destruct (sync_skip_spec n rest seen Hin) as [pre [rest' [-> [Hpre Hsk]]]].
    simpl sync_ahead. rewrite Hsk. unfold sync_expected. simpl names.
    rewrite subseq_b_skip_pre by exact Hpre.
    assert (Ho' : order = (seen ++ pre ++ [n]) ++ rest').
    { rewrite Ho. rewrite <- !app_assoc. reflexivity. }
    assert (Hgs' : NoDup (names gs)) by (simpl in Hgs; inversion Hgs; auto).
    assert (Hnd' : NoDup (pre ++ n :: rest')). { subst order. apply NoDup_app_r in Hnd. exact Hnd. }
    assert (Hlen : length (pre ++ n :: rest') = (length (repeat empty (length pre) ++ [p]) + length rest')%nat).
    { rewrite !app_length, repeat_length. simpl. lia. }
    destruct gs as [|[n' p'] gs'].
    + simpl. rewrite subseq_b_nil. simpl. unfold yapp. simpl.
      rewrite assign_split; auto. intros x [].
    + pose proof (check_name_spec order (seen ++ pre ++ [n]) n') as Hc.
      destruct (check_name name neqb order (seen ++ pre ++ [n]) n') as [cd|].
      * assert (Hn' : ~ In n' rest').
        { destruct Hc as [Hc|Hc].
          - intros Hr. rewrite Ho' in Hnd. exact (NoDup_app_disj (seen ++ pre ++ [n]) rest' n' Hnd Hc Hr).
          - intros Hr. apply Hc. rewrite Ho'. rewrite in_app_iff. right; exact Hr. }
        simpl names. rewrite subseq_b_notin by exact Hn'.
        exists (repeat empty (length pre)), cd. split; [reflexivity|].
        rewrite repeat_length, app_length. simpl. lia.
      * specialize (IH rest' (seen ++ pre ++ [n]) Ho' Hnd Hgs' Hc). unfold sync_expected in IH.
        rewrite Hlen. 
        destruct (subseq_b (names ((n', p') :: gs')) rest') eqn:Eg.
        -- unfold trace_meets_early in IH. rewrite IH. unfold yapp. simpl fst. simpl snd. simpl option_map.
           rewrite assign_split; [reflexivity|exact Hnd'|apply subseq_b_incl; exact Eg].
        -- apply (yapp_meets_early _ (repeat empty (length pre) ++ [p])) in IH. exact IH.
Qed.

Theorem synched_ahead_early : forall order gs, NoDup order -> NoDup (names gs) -> order <> [] ->
  trace_meets_early (length order) (synched_ahead name neqb P empty order gs) (spec_sync order [] gs).
Proof.
  intros order gs Ho Hgs H0. unfold synched_ahead, C12.spec_sync.
  assert (C12.not_ignored name neqb P [] gs = gs) as ->.
  { unfold C12.not_ignored. clear Hgs. induction gs as [|g gs IH]; simpl; [reflexivity|]. f_equal. apply IH. }
  destruct gs as [|[n p] gs'].
  - simpl. rewrite subseq_b_nil. reflexivity.
  - pose proof (check_name_spec order [] n) as Hc.
    destruct (check_name name neqb order [] n) as [cd|].
    + destruct Hc as [[]|Hc]. simpl names. rewrite subseq_b_notin by exact Hc.
      exists [], cd. split; [reflexivity|]. destruct order; [congruence|simpl; lia].
    + apply (sync_ahead_spec order ((n, p) :: gs') order []); auto.
Qed.
End Payload.

(* ---------- left_join ---------- *)
Section LJ.
Variables S P : Type.
Notation left_join := (left_join name neqb S P).
Definition lift (R : list (name * P)) : list (name * option P) := map (fun g => (fst g, Some (snd g))) R.
Definition lj_expected (left : list (name * S)) (R : list (name * P)) : list (name * S * option P) :=
  map (fun cs => (fst cs, snd cs, lookup name neqb (option P) None (fst cs) (lift R))) left.
Lemma lift_names R : map fst (lift R) = map fst R.
Proof. unfold lift. rewrite map_map. reflexivity. Qed.

Lemma left_join_spec : forall left R,
  NoDup (map fst left) -> NoDup (map fst R) ->
  trace_meets (left_join left R)
              (if subseq_b (map fst R) (map fst left) then Some (lj_expected left R) else None).
Proof.
  induction left as [|[c s] left IH]; intros R Hl HR.
  - destruct R as [|[n p] up]; simpl; [reflexivity|]. exists [], E_ASSERT. reflexivity.
  - simpl in Hl. inversion Hl as [|? ? Hc Hl']; subst.
    destruct R as [|[n p] up].
    + simpl. specialize (IH [] Hl' HR). simpl in IH. rewrite subseq_b_nil in IH. simpl in IH. rewrite IH. reflexivity.
    + simpl. destruct (neqb c n) eqn:E.
      * apply neqb_eq in E. subst n. rewrite neqb_refl.
        simpl in HR. inversion HR as [|? ? Hcu HR']; subst.
        specialize (IH up Hl' HR').
        destruct (subseq_b (map fst up) (map fst left)).
        -- simpl in IH. rewrite IH. unfold ycons. simpl. unfold lj_expected. simpl. rewrite ?neqb_refl. do 2 f_equal.
           apply map_ext_in. intros [x sx] Hx. simpl.
           assert (neqb x c = false) as ->; [|reflexivity].
           apply neqb_neq. intros ->. apply Hc. apply in_map_iff. exists (c, sx). auto.
        -- destruct IH as [ys [cd IH]]. rewrite IH. exists ((c, s, Some p) :: ys), cd. reflexivity.
      * assert (neqb n c = false) as ->. { apply neqb_neq. apply neqb_neq in E. congruence. }
        specialize (IH ((n, p) :: up) Hl' HR). simpl in IH.
        destruct (subseq_b (n :: map fst up) (map fst left)) eqn:Eg.
        -- simpl in IH. rewrite IH. unfold ycons. simpl. unfold lj_expected at 2. simpl. rewrite ?E.
           do 3 f_equal. symmetry. apply lookup_notin. rewrite lift_names.
           apply subseq_b_incl in Eg. intros Hin. apply Hc. apply Eg. (right; exact Hin) || exact Hin.
        -- destruct IH as [ys [cd IH]]. rewrite IH. exists ((c, s, None) :: ys), cd. reflexivity.
Qed.
End LJ.
End Proofs.

(* ---------- byte-string names: zlist_eqb decides equality ---------- *)
Lemma zlist_eqb_eq (a b : list Z) : zlist_eqb a b = true <-> a = b.
Proof.
  unfold zlist_eqb. revert b. induction a as [|x a IH]; intros [|y b]; simpl; split; intros H; try reflexivity; try discriminate.
  - apply andb_true_iff in H. destruct H as [H1 H2]. apply Z.eqb_eq in H1. apply IH in H2. congruence.
  - inversion H; subst. rewrite Z.eqb_refl. simpl. apply IH. reflexivity.
Qed.

(* ---------- statements at the level of what a consumer observes ---------- *)
Section Observed.
Variable name : Type.
Variable neqb : name -> name -> bool.
Hypothesis neqb_eq : forall a b, neqb a b = true <-> a = b.
Variable has_us : name -> bool.
Variable P : Type.
Variable empty : P.

Definition observed_meets {A} (r : res (list A)) (expected : option (list A)) : Prop :=
  match expected with Some a => r = Done a | None => exists c, r = Err c end.

Lemma ctx_included_NoDup keepall genome extra :
  NoDup genome -> NoDup (ctx_included name neqb has_us keepall genome extra).
Proof. intros H. unfold ctx_included. apply NoDup_filter. exact H. Qed.

Lemma chrom_order_id incl : forallb (fun c => negb (has_us c)) incl = true -> chrom_order name has_us incl = incl.
Proof.
  unfold chrom_order. induction incl as [|c l IH]; simpl; intros H; [reflexivity|].
  apply andb_true_iff in H. destruct H as [H1 H2]. rewrite H1. f_equal. apply IH. exact H2.
Qed.

Lemma spec_sync_length G I D a : spec_sync name neqb P empty G I D = Some a -> length a = length G.
Proof.
  unfold spec_sync. destruct (subseq_b name neqb _ G); [|discriminate]. intros H. inversion H. unfold assign. apply map_length.
Qed.

(* exhaustive consumer, order = included contigs *)
Lemma genome_exhaustive G I D : NoDup G -> NoDup (map fst D) ->
  observed_meets (pull_all (iter_chrom name neqb P empty G G I D)) (spec_sync name neqb P empty G I D).
Proof.
  intros HG HD. pose proof (iter_chrom_exact name neqb neqb_eq P empty G I D HG HD) as H.
  apply pull_all_meets in H. exact H.
Qed.
Lemma genome_exhaustive_ahead G I D : NoDup G -> NoDup (map fst D) ->
  observed_meets (pull_all (iter_chrom_ahead name neqb P empty G G I D)) (spec_sync name neqb P empty G I D).
Proof.
  intros HG HD. pose proof (iter_chrom_ahead_exact name neqb neqb_eq P empty G I D HG HD) as H.
  apply pull_all_meets in H. exact H.
Qed.
(* one-pull-per-contig consumer: exact for order-compatible data ... *)
Lemma genome_npull_good G I D a : NoDup G -> NoDup (map fst D) ->
  spec_sync name neqb P empty G I D = Some a ->
  pull_n (length G) (iter_chrom name neqb P empty G G I D) = Done a.
Proof.
  intros HG HD Hs. pose proof (iter_chrom_exact name neqb neqb_eq P empty G I D HG HD) as H.
  rewrite Hs in H. simpl in H. rewrite <- (spec_sync_length _ _ _ _ Hs). apply pull_n_good. exact H.
Qed.
(* ... and with the look-ahead walk it sees every error as well *)
Lemma genome_npull_ahead G I D : NoDup G -> NoDup (map fst D) -> G <> [] ->
  observed_meets (pull_n (length G) (iter_chrom_ahead name neqb P empty G G I D)) (spec_sync name neqb P empty G I D).
Proof.
  intros HG HD H0. pose proof (iter_chrom_ahead_early name neqb neqb_eq P empty G I D HG HD H0) as H.
  apply pull_n_early in H. destruct (spec_sync name neqb P empty G I D) eqn:Hs; simpl.
  - apply H. eapply spec_sync_length. exact Hs.
  - exact H.
Qed.
Lemma multistream_exhaustive order gs : NoDup order -> NoDup (map fst gs) ->
  observed_meets (pull_all (synched name neqb P empty order gs)) (spec_sync name neqb P empty order [] gs).
Proof.
  intros Ho Hg. pose proof (synched_exact name neqb neqb_eq P empty order gs Ho Hg) as H.
  apply pull_all_meets in H. exact H.
Qed.
Lemma multistream_npull_good order gs a : NoDup order -> NoDup (map fst gs) ->
  spec_sync name neqb P empty order [] gs = Some a ->
  pull_n (length order) (synched name neqb P empty order gs) = Done a.
Proof.
  intros Ho Hg Hs. pose proof (synched_exact name neqb neqb_eq P empty order gs Ho Hg) as H.
  rewrite Hs in H. simpl in H. rewrite <- (spec_sync_length _ _ _ _ Hs). apply pull_n_good. exact H.
Qed.
Lemma multistream_npull_ahead order gs : NoDup order -> NoDup (map fst gs) -> order <> [] ->
  observed_meets (pull_n (length order) (synched_ahead name neqb P empty order gs)) (spec_sync name neqb P empty order [] gs).
Proof.
  intros Ho Hg H0. pose proof (synched_ahead_early name neqb neqb_eq P empty order gs Ho Hg H0) as H.
  apply pull_n_early in H. destruct (spec_sync name neqb P empty order [] gs) eqn:Hs; simpl.
  - apply H. eapply spec_sync_length. exact Hs.
  - exact H.
Qed.
Lemma multistream_exhaustive_ahead order gs : NoDup order -> NoDup (map fst gs) -> order <> [] ->
  observed_meets (pull_all (synched_ahead name neqb P empty order gs)) (spec_sync name neqb P empty order [] gs).
Proof.
  intros Ho Hg H0. pose proof (synched_ahead_early name neqb neqb_eq P empty order gs Ho Hg H0) as H.
  apply trace_meets_early_weaken in H. apply pull_all_meets in H. exact H.
Qed.
End Observed.

(* Proofs/C07_sim.v — part 2: the step function commutes with decoding.
   For two sets of character-level primitives PM (raw codes) and PS (characters) related through an injective
   map phi (= decode), one step on raw codes followed by decoding equals decoding followed by one step on
   characters: same value, same masks, same strings, same exceptions.  The index vocabulary is parametric in
   the element type, so only comparison, storing and the flat-buffer routines need an argument. *)
From Coq Require Import ZArith List Bool Lia Arith.
From BNP Require Import Base.Prims Base.PrimsFacts Model.C07 Proofs.C07.
Import ListNotations.
Open Scope Z_scope.

(* ---------- parametricity of the index vocabulary ---------- *)
Lemma len_map {A B} (g : A -> B) l : len (map g l) = len l.
Proof. unfold len. rewrite map_length. reflexivity. Qed.
Lemma nth_error_map_ {A B} (g : A -> B) : forall l n, nth_error (map g l) n = option_map g (nth_error l n).
Proof. induction l; destruct n; simpl; auto. Qed.
Lemma gather_map {A B} (g : A -> B) l : forall pos, gather (map g l) pos = map g (gather l pos).
Proof.
  unfold gather. induction pos as [|p pos IH]; [reflexivity|].
  simpl. rewrite map_app, IH, nth_error_map_. destruct (nth_error l (Z.to_nat p)); reflexivity.
Qed.
Lemma sel_rows_map {A B} (g : A -> B) rows s : sel_rows (map g rows) s = option_map (map g) (sel_rows rows s).
Proof. unfold sel_rows. rewrite len_map. destruct (sel_pos (len rows) s); simpl; [rewrite gather_map|]; reflexivity. Qed.
Lemma all_some_map {A B} (g : A -> B) : forall l, all_some (map (option_map g) l) = option_map (map g) (all_some l).
Proof.
  induction l as [|[x|] l IH]; simpl; try reflexivity.
  rewrite IH. destruct (all_some l); reflexivity.
Qed.
Lemma set_nth_map {A B} (g : A -> B) v : forall l n, set_nth n (g v) (map g l) = map g (set_nth n v l).
Proof. induction l as [|x l IH]; intros [|n]; simpl; try reflexivity. rewrite IH. reflexivity. Qed.
Lemma scatter_map {A B} (g : A -> B) : forall pos vals l, scatter (map g l) pos (map g vals) = map g (scatter l pos vals).
Proof.
  induction pos as [|p pos IH]; intros [|v vals] l; simpl; try reflexivity.
  rewrite set_nth_map. apply IH.
Qed.
Lemma map2_length_nil {A B C} (f : A -> B -> C) a : map2 f a [] = [].
Proof. destruct a; reflexivity. Qed.

Section Natural.
Variables (PM PS : prims) (e : enc) (phi : Z -> Z).
Hypothesis phi_inj : forall x y, phi x = phi y -> x = y.
Hypothesis Hdec : forall x, p_dec PS e (phi x) = p_dec PM e x.
Hypothesis Hjoin : forall rows sep k, map phi (p_join PM rows sep k) = p_join PS (map (map phi) rows) (phi sep) k.
Hypothesis Hsplit : forall s sep, map (map phi) (p_split PM s sep) = p_split PS (map phi s) (phi sep).
Hypothesis Hsplitl : forall s seps, map (map phi) (p_splitl PM s seps) = p_splitl PS (map phi s) (map phi seps).
Hypothesis Hstreq : forall rows s, p_streq PM rows s = p_streq PS (map (map phi) rows) (map phi s).
Hypothesis Hstreq2 : forall rows l, p_streq2 PM rows l = p_streq2 PS (map (map phi) rows) (map (map phi) l).
Hypothesis Hrslice : forall rows st en,
  option_map (map (map phi)) (p_rslice PM rows st en) = p_rslice PS (map (map phi) rows) st en.

(* string_array: the fixed-width byte view drops trailing NULs, so it is the rows only for NUL-free text *)
Definition nulfree (rows : list (list Z)) : Prop := Forall (Forall (fun c => phi c <> 0)) rows.
Variable sarr_sound : Prop.     (* e.g. "this variant of the code does not raise on all-empty rows" *)
Hypothesis Hsarr : sarr_sound -> forall rows, nulfree rows -> p_sarr PM e rows = p_sarr PS e (map (map phi) rows).
Definition sarr_ok (v : value) : Prop := match v with VR _ rows => nulfree rows | _ => True end.

Definition rel_char (c : Z) : Prop := p_prep PS e c = option_map phi (p_prep PM e c).

Definition mapv (v : value) : value :=
  match v with
  | VR e' r => VR e' (map (map phi) r)
  | VF e' s => VF e' (map phi s)
  | VC e' c => VC e' (phi c)
  end.
Definition mapo (o : obs) : obs := match o with OV v => OV (mapv v) | _ => o end.
Definition mapr (r : value * obs) : value * obs := (mapv (fst r), mapo (snd r)).

Lemma prep_str_rel : forall s, (forall c, In c s -> rel_char c) ->
  prep_str PS e s = option_map (map phi) (prep_str PM e s).
Proof.
  unfold prep_str. induction s as [|c s IH]; intros H; [reflexivity|].
  simpl. rewrite (H c) by (left; reflexivity). destruct (p_prep PM e c); simpl; [|reflexivity].
  rewrite IH by (intros; apply H; right; assumption).
  destruct (all_some (map (p_prep PM e) s)); reflexivity.
Qed.
Lemma prep_rows_rel : forall l, (forall c, In c (concat l) -> rel_char c) ->
  prep_rows PS e l = option_map (map (map phi)) (prep_rows PM e l).
Proof.
  unfold prep_rows. induction l as [|s l IH]; intros H; [reflexivity|].
  simpl. rewrite prep_str_rel by (intros; apply H; simpl; apply in_or_app; left; assumption).
  destruct (prep_str PM e s); simpl; [|reflexivity].
  rewrite IH by (intros; apply H; simpl; apply in_or_app; right; assumption).
  destruct (all_some (map (prep_str PM e) l)); reflexivity.
Qed.
Lemma prep_str_len P s s' : prep_str P e s = Some s' -> length s' = length s.
Proof.
  unfold prep_str. revert s'. induction s as [|c s IH]; intros s' H; simpl in H.
  - inversion H. reflexivity.
  - destruct (p_prep P e c); [|discriminate]. destruct (all_some (map (p_prep P e) s)) eqn:E; [|discriminate].
    inversion H. simpl. f_equal. apply IH. reflexivity.
Qed.

Lemma cmp_phi neg x y : cmp neg (phi x) (phi y) = cmp neg x y.
Proof.
  unfold cmp. f_equal. destruct (x =? y) eqn:E.
  - apply Z.eqb_eq in E. subst. apply Z.eqb_refl.
  - apply Z.eqb_neq. intros H. apply phi_inj in H. apply Z.eqb_neq in E. contradiction.
Qed.
Lemma eqb_phi x y : (phi x =? phi y) = (x =? y).
Proof. pose proof (cmp_phi false x y) as H. unfold cmp in H. simpl in H. destruct (phi x =? phi y), (x =? y); simpl in H; congruence. Qed.
Lemma filter_cmp_map neg c : forall l,
  filter (fun x => cmp neg x (phi c)) (map phi l) = map phi (filter (fun x => cmp neg x c) l).
Proof.
  induction l as [|x l IH]; [reflexivity|].
  simpl. rewrite cmp_phi. destruct (cmp neg x c); simpl; rewrite IH; reflexivity.
Qed.
Lemma map_cmp_map neg c l : map (fun x => cmp neg x (phi c)) (map phi l) = map (fun x => cmp neg x c) l.
Proof. rewrite map_map. apply map_ext. intros. apply cmp_phi. Qed.
Lemma map2_cmp_map neg : forall r l, map2 (cmp neg) (map phi r) (map phi l) = map2 (cmp neg) r l.
Proof. induction r as [|x r IH]; intros [|y l]; simpl; try reflexivity. rewrite cmp_phi, IH. reflexivity. Qed.
Lemma map2_map2_cmp_map neg : forall r l,
  map2 (map2 (cmp neg)) (map (map phi) r) (map (map phi) l) = map2 (map2 (cmp neg)) r l.
Proof. induction r as [|x r IH]; intros [|y l]; simpl; try reflexivity. rewrite map2_cmp_map, IH. reflexivity. Qed.
Lemma col_slice_map a b s r : col_slice a b s (map phi r) = map phi (col_slice a b s r).
Proof. unfold col_slice. rewrite len_map. apply gather_map. Qed.
Lemma map_col_slice_map a b s rows :
  map (col_slice a b s) (map (map phi) rows) = map (map phi) (map (col_slice a b s) rows).
Proof. rewrite !map_map. apply map_ext. intros. apply col_slice_map. Qed.
Lemma same_shape_map_r {A} (l : list (list A)) rows : same_shape l (map (map phi) rows) = same_shape l rows.
Proof. unfold same_shape. f_equal. rewrite map_map. apply map_ext. intros. apply len_map. Qed.
Lemma map_len_map rows : map len (map (map phi) rows) = map len rows.
Proof. rewrite map_map. apply map_ext. intros. apply len_map. Qed.

(* cells depend on the shape only *)
Lemma row_cells_map rows i : row_cells (map (map phi) rows) i = row_cells rows i.
Proof. unfold row_cells. rewrite nth_error_map_. destruct (nth_error rows (Z.to_nat i)); simpl; [rewrite len_map|]; reflexivity. Qed.
Lemma row_cells_slice_map rows a b s i : row_cells_slice (map (map phi) rows) a b s i = row_cells_slice rows a b s i.
Proof. unfold row_cells_slice. rewrite nth_error_map_. destruct (nth_error rows (Z.to_nat i)); simpl; [rewrite len_map|]; reflexivity. Qed.
Lemma row_cell_col_map rows j i : row_cell_col (map (map phi) rows) j i = row_cell_col rows j i.
Proof. unfold row_cell_col. rewrite nth_error_map_. destruct (nth_error rows (Z.to_nat i)); simpl; [rewrite len_map|]; reflexivity. Qed.
Lemma set_cell_map rows c v : set_cell (map (map phi) rows) c (phi v) = map (map phi) (set_cell rows c v).
Proof.
  unfold set_cell. rewrite nth_error_map_. destruct (nth_error rows (Z.to_nat (fst c))); simpl; [|reflexivity].
  rewrite <- set_nth_map. rewrite set_nth_map. reflexivity.
Qed.
Lemma assign_map : forall cells vals rows,
  assign (map (map phi) rows) cells (map phi vals) = map (map phi) (assign rows cells vals).
Proof.
  induction cells as [|c cells IH]; intros [|v vals] rows; simpl; try reflexivity.
  rewrite set_cell_map. apply IH.
Qed.
Lemma map_repeat {A B} (g : A -> B) v n : map g (repeat v n) = repeat (g v) n.
Proof. induction n; simpl; [reflexivity|]. rewrite IHn. reflexivity. Qed.
Lemma assign_checked_map rows cells vals b :
  assign_checked (map (map phi) rows) cells (map phi vals) b
  = option_map (map (map phi)) (assign_checked rows cells vals b).
Proof.
  unfold assign_checked. destruct (negb (nodupb (map cell_key cells))); [reflexivity|].
  destruct b.
  - destruct vals as [|v [|w vals]]; simpl; try reflexivity.
    rewrite <- map_repeat. rewrite assign_map. reflexivity.
  - rewrite len_map. destruct (len vals =? len cells); simpl; [rewrite assign_map|]; reflexivity.
Qed.

(* which operations the simulation theorem covers, and the characters an operation mentions *)
Definition operand_chars (p : operand) : list Z :=
  match p with PChar c => [c] | PStr s => s | PRows l => concat l | PSelf => [] end.
Definition part_chars (p : part) : list Z :=
  match p with PtRows l => concat l | PtStr s => s | _ => [] end.
Definition op_chars (o : op) : list Z :=
  match o with
  | Eq p _ | SetRow _ p | SetRC _ _ _ _ p | SetIdx _ p => operand_chars p
  | MaskEq c _ | SetElem _ _ c | SetRCol _ _ c | Join c _ | Split c | SetRows2D _ _ c => [c]
  | SplitL seps => seps
  | SetMaskEq c c2 => [c; c2]
  | SetRows _ l | StrEq2 l => concat l
  | Concat ps | Stack ps => flat_map part_chars ps
  | StrEq s | Append s | Insert _ s | Where _ s => s
  | _ => []
  end.
Lemma pick_col_map j r : pick_col j (map phi r) = option_map phi (pick_col j r).
Proof. unfold pick_col. rewrite len_map. destruct (norm_idx (len r) j); [apply nth_error_map_|reflexivity]. Qed.
Lemma pick_elem_map rows i j : pick_elem (map (map phi) rows) i j = option_map phi (pick_elem rows i j).
Proof.
  unfold pick_elem. rewrite len_map. destruct (norm_idx (len rows) i); [|reflexivity].
  change (@nil Z) with (map phi []) at 1. rewrite map_nth. apply pick_col_map.
Qed.
Lemma map_pick_col_map j sub : map (pick_col j) (map (map phi) sub) = map (option_map phi) (map (pick_col j) sub).
Proof. rewrite !map_map. apply map_ext. intros. apply pick_col_map. Qed.
Lemma map2_pick_elem_map rows : forall is_ js,
  map2 (pick_elem (map (map phi) rows)) is_ js = map (option_map phi) (map2 (pick_elem rows) is_ js).
Proof. induction is_ as [|i is_ IH]; intros [|j js]; simpl; try reflexivity. rewrite pick_elem_map, IH. reflexivity. Qed.
Lemma map_map_cmp_map neg c rows :
  map (map (fun x => cmp neg x (phi c))) (map (map phi) rows) = map (map (fun x => cmp neg x c)) rows.
Proof. rewrite map_map. apply map_ext. intros. apply map_cmp_map. Qed.
Lemma replace_map c c2 l :
  map (fun x => if x =? phi c then phi c2 else x) (map phi l) = map phi (map (fun x => if x =? c then c2 else x) l).
Proof. rewrite !map_map. apply map_ext. intros x. rewrite eqb_phi. destruct (x =? c); reflexivity. Qed.
Lemma replace_map_map c c2 rows :
  map (map (fun x => if x =? phi c then phi c2 else x)) (map (map phi) rows)
  = map (map phi) (map (map (fun x => if x =? c then c2 else x)) rows).
Proof. rewrite !map_map. apply map_ext. intros. apply replace_map. Qed.
Lemma text_map s : text PS e (map phi s) = text PM e s.
Proof. unfold text. rewrite map_map. apply map_ext. intros. apply Hdec. Qed.
Lemma flat_map_row_cells_map rows pos : flat_map (row_cells (map (map phi) rows)) pos = flat_map (row_cells rows) pos.
Proof. apply flat_map_ext. intros. apply row_cells_map. Qed.
Lemma map_row_cells_slice_map rows a b s pos :
  map (row_cells_slice (map (map phi) rows) a b s) pos = map (row_cells_slice rows a b s) pos.
Proof. apply map_ext. intros. apply row_cells_slice_map. Qed.
Lemma map_row_cell_col_map rows j pos : map (row_cell_col (map (map phi) rows) j) pos = map (row_cell_col rows j) pos.
Proof. apply map_ext. intros. apply row_cell_col_map. Qed.

Lemma parts_rows_rel rows ps : (forall c, In c (flat_map part_chars ps) -> rel_char c) ->
  parts_rows PS e (map (map phi) rows) ps = option_map (map (map phi)) (parts_rows PM e rows ps).
Proof.
  intros H. unfold parts_rows.
  assert (E : map (fun p => match p with
                            | PtSelf => Some (map (map phi) rows)
                            | PtSlice a b s => Some (gather (map (map phi) rows) (slice_indices (len (map (map phi) rows)) a b s))
                            | PtRows l => prep_rows PS e l
                            | PtStr _ => None end) ps
              = map (option_map (map (map phi)))
                  (map (fun p => match p with
                            | PtSelf => Some rows
                            | PtSlice a b s => Some (gather rows (slice_indices (len rows) a b s))
                            | PtRows l => prep_rows PM e l
                            | PtStr _ => None end) ps)).
  { rewrite map_map. apply map_ext_in. intros p Hp. destruct p; simpl; try reflexivity.
    - rewrite len_map, gather_map. reflexivity.
    - apply prep_rows_rel. intros c Hc. apply H. apply in_flat_map. exists (PtRows l). split; assumption. }
  rewrite E, all_some_map. destruct (all_some _); simpl; [|reflexivity].
  rewrite concat_map. reflexivity.
Qed.
Lemma parts_flat_rel s ps : (forall c, In c (flat_map part_chars ps) -> rel_char c) ->
  parts_flat PS e (map phi s) ps = option_map (map phi) (parts_flat PM e s ps).
Proof.
  intros H. unfold parts_flat.
  assert (E : map (fun p => match p with
                            | PtSelf => Some (map phi s)
                            | PtSlice a b st => Some (gather (map phi s) (slice_indices (len (map phi s)) a b st))
                            | PtStr t => prep_str PS e t
                            | PtRows _ => None end) ps
              = map (option_map (map phi))
                  (map (fun p => match p with
                            | PtSelf => Some s
                            | PtSlice a b st => Some (gather s (slice_indices (len s) a b st))
                            | PtStr t => prep_str PM e t
                            | PtRows _ => None end) ps)).
  { rewrite map_map. apply map_ext_in. intros p Hp. destruct p; simpl; try reflexivity.
    - rewrite len_map, gather_map. reflexivity.
    - apply prep_str_rel. intros c Hc. apply H. apply in_flat_map. exists (PtStr s0). split; assumption. }
  rewrite E, all_some_map. destruct (all_some _); simpl; [|reflexivity].
  rewrite concat_map. reflexivity.
Qed.
Lemma parts_stack_map s ps : parts_stack (map phi s) ps = option_map (map (map phi)) (parts_stack s ps).
Proof.
  unfold parts_stack. rewrite <- all_some_map. f_equal. rewrite map_map. apply map_ext. intros p.
  destruct p; simpl; try reflexivity. rewrite len_map, gather_map. reflexivity.
Qed.

Ltac fin := unfold mapr, keep, bad; cbn [fst snd mapv mapo option_map]; try reflexivity.
Ltac relc Hc c := rewrite (Hc c) by (simpl; auto).

Lemma step_ragged_nat rows o : (forall c, In c (op_chars o) -> rel_char c) -> (o = SArr -> sarr_sound /\ nulfree rows) ->
  mapr (step_ragged PM e rows o) = step_ragged PS e (map (map phi) rows) o.
Proof.
  intros Hc Hns. destruct o; unfold step_ragged; rewrite ?len_map; try (fin; fail).
  - (* RowInt *) destruct (norm_idx (len rows) i); fin.
    rewrite <- (map_nth (map phi)). reflexivity.
  - (* RowSel *) rewrite sel_rows_map. destruct (sel_rows rows s); fin.
  - (* ColSlice *) fin. rewrite map_col_slice_map. reflexivity.
  - (* RC *) rewrite sel_rows_map. destruct (sel_rows rows rs) as [sub|]; [|fin]. cbn [option_map].
    rewrite map_col_slice_map. destruct rs; fin. rewrite concat_map. reflexivity.
  - (* RowsCol *) rewrite sel_rows_map. destruct (sel_rows rows rs) as [sub|]; [|fin]. cbn [option_map].
    rewrite map_pick_col_map, all_some_map. destruct (all_some (map (pick_col j) sub)); fin.
  - (* Elem *) rewrite pick_elem_map. destruct (pick_elem rows i j); fin.
  - (* Elems *) destruct (negb (len is_ =? len js)); [fin|].
    rewrite map2_pick_elem_map, all_some_map. destruct (all_some (map2 (pick_elem rows) is_ js)); fin.
  - (* Eq *) destruct o.
    + relc Hc c. destruct (p_prep PM e c); fin. rewrite map_map_cmp_map. reflexivity.
    + fin.
    + rewrite same_shape_map_r. destruct (negb (same_shape l rows)); [fin|].
      rewrite prep_rows_rel by (intros; apply Hc; assumption).
      destruct (prep_rows PM e l); fin. rewrite map2_map2_cmp_map. reflexivity.
    + fin. rewrite map2_map2_cmp_map. reflexivity.
  - (* MaskEq *) relc Hc c. destruct (p_prep PM e c); fin. rewrite <- concat_map, filter_cmp_map. reflexivity.
  - (* SetRow *) destruct (norm_idx (len rows) i); [|fin]. rewrite row_cells_map. destruct o; try (fin; fail).
    + relc Hc c. destruct (p_prep PM e c) as [c'|]; [|fin]. cbn [option_map].
      change [phi c'] with (map phi [c']). rewrite assign_checked_map.
      destruct (assign_checked rows (row_cells rows z) [c'] true); fin.
    + rewrite prep_str_rel by (intros; apply Hc; assumption).
      destruct (prep_str PM e s) as [s'|]; [|fin]. cbn [option_map]. rewrite assign_checked_map.
      destruct (assign_checked rows (row_cells rows z) s' false); fin.
  - (* SetElem *) destruct (norm_idx (len rows) i); [|fin]. rewrite row_cell_col_map.
    destruct (row_cell_col rows j z); [|fin]. relc Hc c. destruct (p_prep PM e c) as [c'|]; fin.
    change [phi c'] with (map phi [c']). rewrite assign_map. reflexivity.
  - (* SetRows *) destruct (sel_pos (len rows) rs) as [pos|]; [|fin].
    rewrite gather_map, same_shape_map_r. destruct (negb (same_shape l (gather rows pos))); [fin|].
    rewrite prep_rows_rel by (intros; apply Hc; assumption).
    destruct (prep_rows PM e l) as [l'|]; [|fin]. cbn [option_map].
    rewrite flat_map_row_cells_map, <- concat_map, assign_checked_map.
    destruct (assign_checked rows (flat_map (row_cells rows) pos) (concat l') false); fin.
  - (* SetRC *) destruct (sel_pos (len rows) rs) as [pos|]; [|fin].
    rewrite map_row_cells_slice_map.
    destruct o as [c|t|l|]; try (destruct rs; fin; fail).
    + destruct rs; try (fin; fail). relc Hc c. destruct (p_prep PM e c) as [c'|]; [|fin]. cbn [option_map].
      change [phi c'] with (map phi [c']). rewrite assign_checked_map.
      destruct (assign_checked rows _ [c'] true); fin.
    + destruct rs; try (fin; fail). rewrite prep_str_rel by (intros; apply Hc; assumption).
      destruct (prep_str PM e t) as [t'|]; [|fin]. cbn [option_map]. rewrite assign_checked_map.
      destruct (assign_checked rows _ t' false); fin.
    + destruct rs; try (fin; fail);
        (destruct (negb (same_shape l (map (row_cells_slice rows a b s) pos))); [fin|];
         rewrite prep_rows_rel by (intros; apply Hc; assumption);
         destruct (prep_rows PM e l) as [l'|]; [|fin]; cbn [option_map];
         rewrite <- concat_map, assign_checked_map;
         destruct (assign_checked rows _ (concat l') false); fin).
  - (* SetRCol *) destruct (sel_pos (len rows) rs) as [pos|]; [|fin].
    rewrite map_row_cell_col_map. destruct (all_some (map (row_cell_col rows j) pos)) as [cells|]; [|fin].
    relc Hc c. destruct (p_prep PM e c) as [c'|]; [|fin]. cbn [option_map].
    change [phi c'] with (map phi [c']). rewrite assign_checked_map.
    destruct (assign_checked rows cells [c'] true); fin.
  - (* SetMaskEq *) relc Hc c. destruct (p_prep PM e c) as [c'|]; [|fin]. cbn [option_map].
    relc Hc c2. destruct (p_prep PM e c2) as [c2'|]; fin. rewrite replace_map_map. reflexivity.
  - (* Concat *) rewrite parts_rows_rel by (intros; apply Hc; assumption).
    destruct (parts_rows PM e rows ps); fin.
  - (* Ravel *) fin. rewrite concat_map. reflexivity.
  - (* Str *) fin. f_equal. f_equal. f_equal. rewrite firstn_map, map_map.
    rewrite <- (map_map (map phi) (text PS e)). rewrite map_map. apply map_ext. intros. symmetry. apply text_map.
  - (* SArr *) destruct (Hns eq_refl) as [Hss Hnf]. rewrite <- (Hsarr Hss rows Hnf). destruct (p_sarr PM e rows); fin.
  - (* RSlice *) rewrite <- Hrslice. destruct (p_rslice PM rows starts ends); fin.
  - (* Join *) relc Hc sep. destruct (p_prep PM e sep) as [sep'|]; fin. rewrite Hjoin. reflexivity.
  - (* StrEq *) rewrite prep_str_rel by (intros; apply Hc; assumption).
    destruct (prep_str PM e s) as [s'|]; fin. rewrite Hstreq. reflexivity.
  - (* StrEq2 *) destruct (negb (len l =? len rows)); [fin|].
    rewrite prep_rows_rel by (intros; apply Hc; assumption).
    destruct (prep_rows PM e l) as [l'|]; fin. rewrite Hstreq2. reflexivity.
Qed.

Lemma rows2d_map k s : rows2d k (map phi s) = map (map phi) (rows2d k s).
Proof. unfold rows2d. rewrite len_map, map_map. apply map_ext. intros i. apply gather_map. Qed.

Lemma where_map : forall (m : list bool) s t,
  map2 (fun (b : bool) (xy : Z * Z) => if b then fst xy else snd xy) m (combine (map phi s) (map phi t))
  = map phi (map2 (fun (b : bool) (xy : Z * Z) => if b then fst xy else snd xy) m (combine s t)).
Proof.
  induction m as [|b m IH]; intros [|x s] [|y t]; simpl; try reflexivity.
  rewrite IH. destruct b; reflexivity.
Qed.

Lemma step_flat_nat s o : (forall c, In c (op_chars o) -> rel_char c) ->
  mapr (step_flat PM e s o) = step_flat PS e (map phi s) o.
Proof.
  intros Hc. destruct o; unfold step_flat; rewrite ?len_map; try (fin; fail).
  - (* Eq *) destruct o.
    + relc Hc c. destruct (p_prep PM e c); fin. rewrite map_cmp_map. reflexivity.
    + destruct (negb (len s0 =? len s)); [fin|].
      rewrite prep_str_rel by (intros; apply Hc; assumption).
      destruct (prep_str PM e s0); fin. rewrite map2_cmp_map. reflexivity.
    + fin.
    + fin. rewrite map2_cmp_map. reflexivity.
  - (* MaskEq *) relc Hc c. destruct (p_prep PM e c); fin. rewrite filter_cmp_map. reflexivity.
  - (* SetMaskEq *) relc Hc c. destruct (p_prep PM e c) as [c'|]; [|fin]. cbn [option_map].
    relc Hc c2. destruct (p_prep PM e c2) as [c2'|]; fin. rewrite replace_map. reflexivity.
  - (* Concat *) rewrite parts_flat_rel by (intros; apply Hc; assumption).
    destruct (parts_flat PM e s ps); fin.
  - (* Str *) fin. rewrite text_map. reflexivity.
  - (* Iter *) fin. rewrite map_map. f_equal. f_equal. apply map_ext. intros. rewrite Hdec. reflexivity.
  - (* RSlice *) pose proof (Hrslice [s] starts ends) as Hr. simpl in Hr. rewrite <- Hr.
    destruct (p_rslice PM [s] starts ends); fin.
  - (* Idx *) destruct (sel_pos (len s) s0) as [pos|]; [|fin]. rewrite gather_map.
    destruct s0; try (fin; fail). destruct (gather s pos) as [|c [|c2 r]]; fin.
  - (* SetIdx *) destruct (sel_pos (len s) s0) as [pos|]; [|fin]. destruct (negb (nodupb pos)); [fin|].
    destruct o; try (fin; fail).
    + relc Hc c. destruct (p_prep PM e c) as [c'|]; fin. rewrite <- map_repeat, scatter_map. reflexivity.
    + destruct (negb (len s1 =? len pos)); [fin|].
      rewrite prep_str_rel by (intros; apply Hc; assumption).
      destruct (prep_str PM e s1); fin. rewrite scatter_map. reflexivity.
  - (* Append *) rewrite prep_str_rel by (intros; apply Hc; assumption).
    destruct (prep_str PM e s0); fin. rewrite map_app. reflexivity.
  - (* Insert *) destruct ((0 <=? i) && (i <=? len s)); [|fin].
    rewrite prep_str_rel by (intros; apply Hc; assumption).
    destruct (prep_str PM e s0); fin. rewrite !map_app, firstn_map, skipn_map. reflexivity.
  - (* Where *) destruct ((len m =? len s) && (len s0 =? len s)); [|fin].
    rewrite prep_str_rel by (intros; apply Hc; assumption).
    destruct (prep_str PM e s0); fin. rewrite where_map. reflexivity.
  - (* Split *) relc Hc sep. destruct (p_prep PM e sep) as [sep'|]; fin. rewrite Hsplit. reflexivity.
  - (* SplitL *) destruct seps as [|sp seps]; [fin|].
    rewrite prep_str_rel by (intros; apply Hc; assumption).
    destruct (prep_str PM e (sp :: seps)) as [seps'|]; fin. rewrite Hsplitl. reflexivity.
  - (* Rows2D *) destruct ((0 <? k) && (len s mod k =? 0)); [|fin].
    destruct (sel_pos (len s / k) s0) as [pos|]; fin.
    rewrite rows2d_map, gather_map, concat_map. reflexivity.
  - (* SetRows2D *) destruct ((0 <? k) && (len s mod k =? 0)); [|fin].
    destruct (sel_pos (len s / k) s0) as [pos|]; [|fin]. destruct (negb (nodupb pos)); [fin|].
    relc Hc c. destruct (p_prep PM e c) as [c'|]; fin. rewrite <- map_repeat, scatter_map. reflexivity.
  - (* Stack *) rewrite parts_stack_map. destruct (parts_stack s ps) as [[|r rs]|]; fin.
Qed.

Lemma step_char_nat c o : (forall c, In c (op_chars o) -> rel_char c) ->
  mapr (step_char PM e c o) = step_char PS e (phi c) o.
Proof.
  intros Hc. destruct o; unfold step_char; try (fin; fail).
  - destruct o; try (fin; fail). relc Hc c0. destruct (p_prep PM e c0); fin. rewrite cmp_phi. reflexivity.
  - fin. rewrite Hdec. reflexivity.
Qed.

Theorem g_step_natural v o :
  enc_of v = e -> (forall c, In c (op_chars o) -> rel_char c) -> (o = SArr -> sarr_sound /\ sarr_ok v) ->
  mapr (g_step PM v o) = g_step PS (mapv v) o.
Proof.
  intros He Hc Hns. destruct v as [e' rows|e' s|e' c]; simpl in He; subst e'; simpl.
  - apply step_ragged_nat; assumption.
  - apply step_flat_nat; assumption.
  - apply step_char_nat; assumption.
Qed.
End Natural.

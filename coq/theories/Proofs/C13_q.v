(* Proofs/C13_q.v — motif scores over exact rationals (and any carrier whose addition is associative with a
   two-sided zero): the shifted-accumulation loop + re-wrap + trim is row-local.  Floating point is NOT such a
   carrier (addition is not associative); this is the exact-arithmetic reading of real-valued matrices. *)
From Coq Require Import ZArith QArith List Bool Lia Arith.
From BNP Require Import Base.Prims.
From BNP Require Import Base.PrimsFacts.
From BNP Require Import Model.C13.
From BNP Require Import Proofs.C13.
Import ListNotations.
Open Scope Z_scope.

Section Generic.
  Context {T : Type} (zero : T) (add : T -> T -> T).
  Context (add_assoc : forall a b c, add (add a b) c = add a (add b c))
          (add_0_l : forall a, add zero a = a) (add_0_r : forall a, add a zero = a).

  Notation gsc := (gscore zero add).
  Notation gap := (gadd_prefix add).

  Lemma gadd_prefix_nil a : gap a [] = a.
  Proof. destruct a; reflexivity. Qed.

  Lemma gadd_prefix_assoc a b c : (length c <= length b)%nat -> gap (gap a b) c = gap a (gap b c).
  Proof.
    revert b c. induction a as [|x a IH]; intros b c H; [reflexivity|].
    destruct b as [|y b]; [destruct c; [reflexivity|cbn in H; lia]|].
    destruct c as [|z c]; [reflexivity|].
    cbn [gadd_prefix]. rewrite IH by (cbn in H; lia). rewrite add_assoc. reflexivity.
  Qed.

  Lemma gadd_prefix_zeros b : gap (repeat zero (length b)) b = b.
  Proof. induction b as [|y b IH]; [reflexivity|]. cbn [length repeat gadd_prefix]. rewrite IH, add_0_l. reflexivity. Qed.

  Lemma gadd_prefix_zeros_r a (B : list (list Z)) : gap a (map (gsc []) B) = a.
  Proof.
    revert B. induction a as [|x a IH]; intros B; [reflexivity|].
    destruct B as [|t B]; [reflexivity|]. cbn [map gadd_prefix]. rewrite IH.
    replace (gsc [] t) with zero by (destruct t; reflexivity). rewrite add_0_r. reflexivity.
  Qed.

  Lemma gscore_tails_step c cs r x :
    gap (map (glook zero c) (x :: r)) (map (gsc cs) (tails r)) = map (gsc (c :: cs)) (tails (x :: r)).
  Proof.
    revert x. induction r as [|y r IH]; intros x.
    - cbn. destruct cs; cbn; rewrite add_0_r; reflexivity.
    - specialize (IH y). cbn [tails map gadd_prefix] in *. rewrite IH. reflexivity.
  Qed.

  Lemma gpwm_acc_tails cols : forall s scores,
    gpwm_acc zero add cols s scores = gap scores (map (gsc cols) (tails s)).
  Proof.
    induction cols as [|c cs IH]; intros s scores.
    - cbn [gpwm_acc]. symmetry. apply gadd_prefix_zeros_r.
    - cbn [gpwm_acc]. rewrite IH. destruct s as [|x r].
      + cbn. rewrite !gadd_prefix_nil. reflexivity.
      + cbn [tl]. rewrite gadd_prefix_assoc by (rewrite !map_length, tails_length; cbn; lia).
        rewrite gscore_tails_step. reflexivity.
  Qed.

  Lemma gmotif_flat_tails cols flat : gmotif_flat zero add cols flat = map (gsc cols) (tails flat).
  Proof.
    unfold gmotif_flat. rewrite gpwm_acc_tails.
    rewrite <- (tails_length flat), <- (map_length (gsc cols)). apply gadd_prefix_zeros.
  Qed.

  Lemma gscore_firstn cols : forall t, gsc cols t = gsc cols (firstn (length cols) t).
  Proof.
    induction cols as [|c cs IH]; intros t; [destruct t; reflexivity|].
    destruct t as [|x t]; [reflexivity|]. cbn [length firstn gscore]. rewrite <- IH. reflexivity.
  Qed.

  Theorem gmotif_row_local stopf cols rows : 1 <= len cols -> keeps_windows (stopf (len cols)) (length cols) ->
    gget_motif_scores_with zero add stopf cols rows = per_row (gsc cols) (length cols) rows.
  Proof.
    intros Hc Hk. unfold gget_motif_scores_with. rewrite gmotif_flat_tails.
    apply (rewrap_tails (gsc cols) (stopf (len cols)) (length cols) ltac:(unfold len in Hc; lia) Hk (gscore_firstn cols) rows []).
  Qed.
End Generic.

(* ---- the rationals with Leibniz equality: Qplus on the unreduced representation is associative with zero 0 *)
Lemma Qplus_assoc_eq (a b c : Q) : Qplus (Qplus a b) c = Qplus a (Qplus b c).
Proof.
  destruct a as [an ad], b as [bn bd], c as [cn cd]. unfold Qplus. cbn [Qnum Qden].
  f_equal; [rewrite !Pos2Z.inj_mul; ring|apply eq_sym, Pos.mul_assoc].
Qed.
Lemma Qplus_0_l_eq (a : Q) : Qplus 0%Q a = a.
Proof. destruct a as [n d]. unfold Qplus. cbn [Qnum Qden]. rewrite Z.mul_0_l, Z.add_0_l, Z.mul_1_r, Pos.mul_1_l. reflexivity. Qed.
Lemma Qplus_0_r_eq (a : Q) : Qplus a 0%Q = a.
Proof. destruct a as [n d]. unfold Qplus. cbn [Qnum Qden]. rewrite Z.mul_0_l, Z.add_0_r, Z.mul_1_r, Pos.mul_1_r. reflexivity. Qed.

Theorem motif_row_local_Q (cols : list (list Q)) rows : 1 <= len cols ->
  gget_motif_scores_with 0%Q Qplus stop_fixed cols rows = per_row (gscore 0%Q Qplus cols) (length cols) rows.
Proof.
  intros Hc. apply (gmotif_row_local 0%Q Qplus Qplus_assoc_eq Qplus_0_l_eq Qplus_0_r_eq stop_fixed cols rows Hc).
  apply keeps_fixed_len. exact Hc.
Qed.

(* the Z-valued functions used by the correspondence are the integer instance of the generic loop *)
Lemma gscore_Z cols win : gscore 0 Z.add cols win = score cols win.
Proof. reflexivity. Qed.
Theorem gget_motif_scores_Z stopf cols rows :
  gget_motif_scores_with 0 Z.add stopf cols rows = get_motif_scores_with stopf cols rows.
Proof. reflexivity. Qed.

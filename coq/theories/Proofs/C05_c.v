(* Proofs/C05_c.v — round 6: the model after notes/C05.fix-4/5/6.diff (m_step6 / e_step6).
   The lazy state machine refines the Spec under m_guard6 (no `f_nowrite`, no unmixed-operands condition, join_ok proved),
   the eager implementation model is the Spec under the per-step guard e_guard6 (a write needs the header context or no
   header to lose), and the composed lazy = eager statement. *)
From Coq Require Import ZArith List Bool Arith Lia.
From BNP Require Import Base.Prims Model.C05 Proofs.C05 Proofs.C05_b.
Import ListNotations.
Open Scope nat_scope.

(* ================================================================ the lazy write *)
Lemma join_ok_true F l : join_ok F l = true.
Proof.
  unfold join_ok. destruct (l_set l); [reflexivity|]. apply forallb_forall. intros cells _.
  unfold join_fields. apply zlist_eqb_refl.
Qed.

Lemma l_write6_is F hdr l b : l_write F hdr l = Some b -> b = l_write6 F hdr l.
Proof.
  unfold l_write, l_write6. destruct (l_buf l); [intros H; inversion H; reflexivity|].
  destruct (existsb _ (keys (l_set l))); [discriminate|]. intros H; inversion H; reflexivity.
Qed.

Lemma l_write6_ok F hdr l :
  InvL F l -> canonL F l -> l_write6 F hdr l = s_write F hdr (abs F (TLazy l)).
Proof.
  intros HI HC. pose proof (join_ok_true F l) as HJ. unfold l_write6. unfold s_write, abs. unfold join_ok in HJ.
  destruct (l_buf l) as [|r0 buf0] eqn:EB.
  - unfold rows_of_cols. simpl. rewrite app_nil_r. reflexivity.
  - rewrite <- EB in *. clear EB r0 buf0. f_equal.
    assert (Hrows : forall i, In i (seq 0 (length (l_buf l))) ->
              render (f_layout F) (print_row (f_kinds F) (map (fun c => nth i c dv) (map (a_col F l) (all_fields F))))
              = render (f_layout F) (map (fun c => nth i c []) (map (text_col F l) (all_fields F)))).
    { intros i Hi. apply in_seq in Hi. f_equal. apply row_text; auto. lia. }
    transitivity (concat (map (fun i => render (f_layout F) (map (fun c => nth i c []) (map (text_col F l) (all_fields F))))
                              (seq 0 (length (l_buf l))))).
    + destruct (l_set l) eqn:ES.
      * rewrite <- (map_nth_seq dr (l_buf l)) at 1. rewrite map_map. f_equal.
        apply map_ext_in. intros i Hi. apply in_seq in Hi. symmetry. apply raw_text; auto. lia.
      * rewrite forallb_forall in HJ. unfold rows_of_cols in *. rewrite map_map.
        apply (f_equal (@concat Z)). apply map_ext_in. intros i Hi. apply zlist_eqb_eq. apply HJ.
        apply in_map_iff. exists i. split; [reflexivity|exact Hi].
    + unfold rows_of_cols. rewrite map_map. f_equal. apply map_ext_in. intros i Hi. symmetry. apply Hrows. exact Hi.
Qed.

(* ================================================================ concatenate with materialised operands *)
Definition cat_cond6 (F : fmt) (ts : list table) : bool :=
  match all_lazy ts with
  | Some ls => if f_concat F then negb (concat_parse_fails F ls)
               else forallb (fun l => fst (l_fill F (all_fields F) l)) ls
  | None => forallb (t_fill_ok F) ts
  end.

Lemma t_rows_abs F t : Inv F t -> t_rows F t = abs F t.
Proof. destruct t as [l|r]; simpl; intros H; [apply l_rows_abs; exact H|reflexivity]. Qed.

Lemma t_concat6_ok F ts :
  ts <> [] -> Forall (Inv F) ts -> cat_cond6 F ts = true ->
  exists t', t_concat6 l_concat F ts = Some t' /\ Inv F t'
             /\ abs F t' = concat (map (abs F) ts) /\ (Forall (Canon F) ts -> Canon F t').
Proof.
  intros Hne HI HG. unfold cat_cond6 in HG.
  destruct (all_lazy ts) as [ls|] eqn:EL.
  - (* all operands lazy: the same code path as before fix-5 *)
    assert (E6 : t_concat6 l_concat F ts = t_concat l_concat F ts).
    { unfold t_concat6, t_concat. destruct ts; [reflexivity|]. rewrite EL. reflexivity. }
    rewrite E6. apply t_concat_fixed_ok; [exact Hne|exact HI|]. unfold cat_cond_fixed. rewrite EL. exact HG.
  - unfold t_concat6. destruct ts as [|t0 ts0]; [contradiction|]. rewrite EL, HG.
    eexists. split; [reflexivity|]. split; [exact I|]. split; [|intros; exact I].
    unfold abs at 1. f_equal. apply map_ext_in. intros t Ht. apply t_rows_abs.
    rewrite Forall_forall in HI. apply HI. exact Ht.
Qed.

(* ================================================================ one step / whole programs *)
Lemma m_guard6_other F regs o :
  (match o with OCat _ _ | OWrite _ => False | _ => True end) ->
  m_guard6 F regs o = guard_with cat_cond_fixed F regs o.
Proof. destruct o; simpl; intros H; try contradiction; reflexivity. Qed.

Local Arguments abs : simpl never.
Local Arguments s_write : simpl never.
Local Arguments l_write6 : simpl never.

Lemma step6_ok F hdr regs o :
  Forall (Inv F) regs -> m_guard6 F regs o = true ->
  step_post F regs (m_step6 l_concat F hdr regs o) (s_step F hdr (map (abs F) regs) o).
Proof.
  intros HI HG.
  assert (Hother : (match o with OCat _ _ | OWrite _ => False | _ => True end) ->
                   step_post F regs (m_step l_concat F hdr regs o) (s_step F hdr (map (abs F) regs) o)).
  { intros Ho. apply (step_ok l_concat cat_cond_fixed t_concat_fixed_ok F hdr regs o HI).
    rewrite <- (m_guard6_other F regs o Ho). exact HG. }
  destruct o as [r|r f|r ix|r i|r srcs|r f vals|r|r|r r' ix|r]; try (apply Hother; exact I).
  - (* OCat *)
    clear Hother. simpl in *. rewrite nth_error_map', get_regs_map.
    destruct (nth_error regs r) as [t0|] eqn:E; simpl; [|apply post_same; exact HI].
    destruct (get_regs regs srcs) as [ts|] eqn:EG; simpl; [|apply post_same; exact HI].
    destruct ts as [|t1 ts1].
    + simpl. apply post_same. exact HI.
    + assert (Hne : t1 :: ts1 <> []) by discriminate.
      pose proof (get_regs_Forall (Inv F) regs srcs _ HI EG) as HIts.
      destruct (t_concat6_ok F (t1 :: ts1) Hne HIts HG) as [t' [Et [HI' [Habs HC']]]].
      rewrite Et. unfold step_post. cbn [fst snd map].
      split; [apply set_nth_Forall; auto|].
      split; [unfold set_reg; rewrite <- set_nth_map; f_equal; rewrite Habs; reflexivity|].
      split; [reflexivity|]. intros HC. split; [reflexivity|].
      apply set_nth_Forall; [exact HC|]. apply HC'. apply (get_regs_Forall (Canon F) regs srcs _ HC EG).
  - (* OWrite *)
    clear Hother. simpl in *. rewrite nth_error_map'. destruct (nth_error regs r) as [[l|t]|] eqn:E; simpl;
      [|apply negb_true_iff in HG; rewrite HG; apply post_same; exact HI|apply post_same; exact HI].
    assert (HIl : InvL F l) by (apply (nth_error_Forall (Inv F) regs r (TLazy l) HI E)).
    unfold step_post. simpl. split; [exact HI|]. split; [reflexivity|]. split; [reflexivity|].
    intros HC. split; [|exact HC]. f_equal.
    apply (l_write6_ok F hdr l HIl).
    apply (nth_error_Forall (Canon F) regs r (TLazy l) HC E).
Qed.

Theorem refines_r6 F hdr prog : forall regs,
  Forall (Inv F) regs ->
  m_guard6_run l_concat F hdr regs prog = true ->
  map erase (m_run6 l_concat F hdr regs prog) = map erase (s_run F hdr (map (abs F) regs) prog)
  /\ (Forall (Canon F) regs -> m_run6 l_concat F hdr regs prog = s_run F hdr (map (abs F) regs) prog).
Proof.
  induction prog as [|o prog IH]; intros regs HI HG; simpl in *; [auto|].
  apply andb_true_iff in HG. destruct HG as [HG1 HG2].
  pose proof (step6_ok F hdr regs o HI HG1) as HS. unfold step_post in HS.
  destruct (m_step6 l_concat F hdr regs o) as [regs' x].
  destruct (s_step F hdr (map (abs F) regs) o) as [sregs' x'].
  simpl in HS, HG2. destruct HS as [HI' [-> [He HC]]].
  destruct (IH regs' HI' HG2) as [IH1 IH2]. split.
  - simpl. rewrite He, IH1. reflexivity.
  - intros HCr. destruct (HC HCr) as [-> HC']. rewrite (IH2 HC'). reflexivity.
Qed.

Theorem file_level_r6 F hdr recs prog :
  Forall (fun r => length (r_fields r) = nfields F) recs ->
  m_guard6_run l_concat F hdr (start recs) prog = true ->
  let lazy_obs := m_run6 l_concat F hdr (start recs) prog in
  let eager_obs := s_run F hdr [rows_of_file F recs; rows_of_file F recs] prog in
  map erase lazy_obs = map erase eager_obs
  /\ (Forall (fun r => rec_canon F r = true) recs -> lazy_obs = eager_obs).
Proof.
  intros Hwf HG. cbv zeta. unfold start in *.
  assert (HI : Forall (Inv F) [TLazy (fresh recs); TLazy (fresh recs)]) by (constructor; [apply fresh_inv|constructor; [apply fresh_inv|constructor]]).
  destruct (refines_r6 F hdr prog _ HI HG) as [H1 H2].
  assert (Hm : map (abs F) [TLazy (fresh recs); TLazy (fresh recs)] = [rows_of_file F recs; rows_of_file F recs])
    by (cbn [map]; rewrite (abs_fresh F recs Hwf); reflexivity).
  rewrite Hm in H1, H2. split; [exact H1|].
  intros HC. apply H2. constructor; [exact HC|constructor; [exact HC|constructor]].
Qed.

(* ================================================================ the eager implementation after fix-6 vs the Spec *)
Lemma e_step6_spec F hdr regs o :
  e_guard6 F hdr regs o = true ->
  map fst (fst (e_step6 F hdr regs o)) = fst (s_step F hdr (map fst regs) o)
  /\ snd (e_step6 F hdr regs o) = snd (s_step F hdr (map fst regs) o).
Proof.
  intros HG.
  destruct o as [r|r f|r ix|r i|r srcs|r f vals|r|r|r r' ix|r].
  10:{ simpl in *. rewrite nth_error_map'. unfold etable in *. destruct (nth_error regs r) as [[t c]|]; simpl in *; [|split; reflexivity].
       destruct c; simpl in *; [rewrite andb_false_r; split; reflexivity|]. apply negb_true_iff in HG. rewrite HG. split; reflexivity. }
  8:{ simpl in *. rewrite nth_error_map'. unfold etable in *. destruct (nth_error regs r) as [[t c]|]; simpl in *; [|split; reflexivity].
      unfold e_write6. simpl. destruct c; simpl in *.
      - rewrite andb_false_r. split; reflexivity.
      - apply andb_true_iff in HG. destruct HG as [HN HG]. apply negb_true_iff in HN. rewrite HN. simpl.
        destruct hdr; [|discriminate]. destruct (f_default_hdr F); [|discriminate]. split; reflexivity. }
  all: unfold e_step6, e_step;
       match goal with |- context [s_step ?FF ?hh ?rr ?op] =>
         pose proof (s_step_length FF hh rr op) as HL;
         destruct (s_step FF hh rr op) as [rs x] eqn:ES end;
       simpl in HL; rewrite map_length in HL; cbn [fst snd]; split; [|reflexivity];
       apply map_fst_combine;
       repeat match goal with |- context [match ?y with _ => _ end] => destruct y end;
       rewrite ?set_nth_length, map_length; exact HL.
Qed.

Theorem eager6_is_spec F hdr prog : forall regs,
  e_guard6_run F hdr regs prog = true -> e_run6 F hdr regs prog = s_run F hdr (map fst regs) prog.
Proof.
  induction prog as [|o prog IH]; intros regs HG; simpl in *; [reflexivity|].
  apply andb_true_iff in HG. destruct HG as [HG1 HG2].
  destruct (e_step6_spec F hdr regs o HG1) as [H1 H2].
  destruct (e_step6 F hdr regs o) as [regs' x]. destruct (s_step F hdr (map fst regs) o) as [sregs' x'].
  simpl in H1, H2, HG2. subst. rewrite (IH regs' HG2). reflexivity.
Qed.

(* the old global guard implies the per-step one: C05_eager_is_spec is an instance *)
Lemma e_guard6_of_eager_guard F hdr prog : forall regs,
  eager_guard F hdr = true -> e_guard6_run F hdr regs prog = true.
Proof.
  intros regs HG. revert regs. unfold eager_guard in HG. apply andb_true_iff in HG. destruct HG as [HN HG].
  induction prog as [|o prog IH]; intros regs; simpl; [reflexivity|]. rewrite IH, andb_true_r.
  destruct o; simpl; try reflexivity; destruct (nth_error regs r) as [[t c]|]; simpl; try reflexivity;
    rewrite HN; simpl; rewrite ?HG; apply orb_true_r.
Qed.

(* THE PROPERTY on the two models of the code after fix-4/5/6 *)
Theorem lazy_is_eager_r6 F hdr recs prog ctx :
  Forall (fun r => length (r_fields r) = nfields F) recs ->
  m_guard6_run l_concat F hdr (start recs) prog = true ->
  e_guard6_run F hdr [(rows_of_file F recs, ctx); (rows_of_file F recs, ctx)] prog = true ->
  let lazy_obs := m_run6 l_concat F hdr (start recs) prog in
  let eager_obs := e_run6 F hdr [(rows_of_file F recs, ctx); (rows_of_file F recs, ctx)] prog in
  map erase lazy_obs = map erase eager_obs
  /\ (Forall (fun r => rec_canon F r = true) recs -> lazy_obs = eager_obs).
Proof.
  intros Hwf HG HE. cbv zeta. rewrite (eager6_is_spec F hdr prog _ HE). cbn [map fst].
  exact (file_level_r6 F hdr recs prog Hwf HG).
Qed.

(* ================================================================ witnesses and non-vacuity *)
(* the three formerly failing programs (history: concat_mixed_refuted, write_replaced_refuted, eager_write_fails_refuted
   on the pinned models) now agree with the Spec — on descriptors that still carry f_nowrite / f_eager_write_fails *)
Lemma r6_fixed_witnesses :
  m_run6 l_concat W_fastq [] (start [W_fq]) [OCat 0 [0; 1]; OCat 0 [0; 1]; OTolist 0; OWrite 0]
  = s_run W_fastq [] [rows_of_file W_fastq [W_fq]; rows_of_file W_fastq [W_fq]] [OCat 0 [0; 1]; OCat 0 [0; 1]; OTolist 0; OWrite 0]
  /\ m_run6 l_concat W_fastq [] (start [W_fq]) [ORep 0 2 [VS [35%Z]]; OWrite 0]
     = s_run W_fastq [] [rows_of_file W_fastq [W_fq]; rows_of_file W_fastq [W_fq]] [ORep 0 2 [VS [35%Z]]; OWrite 0]
  /\ e_run6 W_vcf [35; 10]%Z [(rows_of_file W_vcf [W_vcfrec], true); (rows_of_file W_vcf [W_vcfrec], true)] [OWrite 0]
     = s_run W_vcf [35; 10]%Z [rows_of_file W_vcf [W_vcfrec]; rows_of_file W_vcf [W_vcfrec]] [OWrite 0].
Proof. vm_compute. repeat split; reflexivity. Qed.

(* non-vacuity of lazy_is_eager_r6, (1): a file WITH a header line under a writer with a default header (VCF-like, position
   column with offset -1): fields read, a derived table built in register 0 (reversed, concatenated with the parent,
   a column replaced, read back), and the table read() returned (register 1) written — both guards hold, and the bytes
   are header ++ the two records *)
Definition R6_vcf_recs : list rawrec :=
  [W_vcfrec; {| r_fields := [[100%Z]; [55%Z]]; r_raw := [100; 9; 55; 10]%Z |}].
Definition R6_vcf_prog : list op :=
  [OGet 1 1; OIndex 0 (ISlice None None (-1)); OCat 0 [0; 1]; ORep 0 1 [VI 1; VI 2; VI 3; VI 4]; OGet 0 1; OTolist 0; OLen 0; OWrite 1].
Lemma r6_nonvacuous_header :
  wf W_vcf R6_vcf_recs
  /\ m_guard6_run l_concat W_vcf [35; 10]%Z (start R6_vcf_recs) R6_vcf_prog = true
  /\ e_guard6_run W_vcf [35; 10]%Z [(rows_of_file W_vcf R6_vcf_recs, true); (rows_of_file W_vcf R6_vcf_recs, true)] R6_vcf_prog = true
  /\ eager_guard W_vcf [35; 10]%Z = false
  /\ nth 7 (m_run6 l_concat W_vcf [35; 10]%Z (start R6_vcf_recs) R6_vcf_prog) XErr = XBytes [35; 10; 99; 9; 53; 10; 100; 9; 55; 10]%Z
  /\ nth 4 (m_run6 l_concat W_vcf [35; 10]%Z (start R6_vcf_recs) R6_vcf_prog) XErr = XCol [VI 1; VI 2; VI 3; VI 4].
Proof. split; [split; repeat constructor|]. vm_compute. repeat split; reflexivity. Qed.

(* (2): FASTQ-like (no `concatenate`, quality in f_nowrite): concatenate (materialised), concatenate that result with a
   lazily read table, replace the quality column of the other lazily read table and write it, write the mixture *)
Definition R6_fq_prog : list op :=
  [OCat 0 [0; 1]; OCat 0 [1; 0]; OLen 0; ORep 1 2 [VS [35%Z]]; OWrite 1; OCat 0 [0; 1]; OWrite 0].
Lemma r6_nonvacuous_mixed :
  wf W_fastq [W_fq]
  /\ m_guard6_run l_concat W_fastq [] (start [W_fq]) R6_fq_prog = true
  /\ m_guard_fixed_run l_concat W_fastq [] (start [W_fq]) R6_fq_prog = false
  /\ e_guard6_run W_fastq [] [(rows_of_file W_fastq [W_fq], true); (rows_of_file W_fastq [W_fq], true)] R6_fq_prog = true
  /\ nth 2 (m_run6 l_concat W_fastq [] (start [W_fq]) R6_fq_prog) XErr = XLen 3
  /\ nth 4 (m_run6 l_concat W_fastq [] (start [W_fq]) R6_fq_prog) XErr = XBytes [64; 114; 10; 65; 10; 43; 10; 35; 10]%Z.
Proof. split; [exact W_fq_wf|]. vm_compute. repeat split; reflexivity. Qed.

(* what remains false of the eager implementation after fix-6 (C05-header-lost-on-derived-eager-table): e_guard6 is needed *)
Lemma r6_eager_header_lost_refuted :
  exists F hdr recs prog ctx, wf F recs /\
    e_guard6_run F hdr [(rows_of_file F recs, ctx); (rows_of_file F recs, ctx)] prog = false /\
    e_run6 F hdr [(rows_of_file F recs, ctx); (rows_of_file F recs, ctx)] prog
    <> s_run F hdr [rows_of_file F recs; rows_of_file F recs] prog.
Proof.
  exists W_bed3, [35; 10]%Z, [W_rec], [OIndex 0 (ISlice None None 1%Z); OWrite 0], true.
  split; [exact W_rec_wf|]. split; [reflexivity|]. vm_compute. discriminate.
Qed.
(* ... and of the lazy table (C05-int-index-ragged-column) *)
Lemma r6_at_ragged_refuted :
  exists F hdr recs prog, wf F recs /\ m_guard6_run l_concat F hdr (start recs) prog = false /\
    map erase (m_run6 l_concat F hdr (start recs) prog)
    <> map erase (s_run F hdr [rows_of_file F recs; rows_of_file F recs] prog).
Proof.
  exists W_vcf, [], [W_vcfrec], [OAt 0 0%Z].
  split; [split; repeat constructor|]. split; [reflexivity|]. vm_compute. discriminate.
Qed.

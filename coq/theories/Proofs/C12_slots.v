(* Proofs/C12_slots.v — "never under another contig" for the repaired SynchedStream (sync_fol), at every pull depth:
   what the look-ahead machine yields is a PREFIX of what the plain machine yields (errors come earlier, values are the
   same), so the slot lemma of the plain machine (Proofs/C12_e2e.v, sync_slots) carries over. *)
From Coq Require Import ZArith List Bool Lia Arith.
From BNP Require Import Base.Prims Model.C12 Proofs.C12 Proofs.C12_fol Proofs.C12_e2e.
Import ListNotations.

Section SlotsFol.
Variable name : Type.
Variable neqb : name -> name -> bool.
Hypothesis neqb_eq : forall a b, neqb a b = true <-> a = b.
Variable P : Type.
Variable empty : P.
Notation sync := (sync name neqb P empty).
Notation sync_ahead := (sync_ahead name neqb P empty).
Notation mem := (mem name neqb).

Definition prefix_of {A} (l1 l2 : list A) : Prop := exists l3, l2 = l1 ++ l3.
Lemma prefix_refl {A} (l : list A) : prefix_of l l.
Proof. exists []. rewrite app_nil_r. reflexivity. Qed.
Lemma prefix_app {A} (l a b : list A) : prefix_of a b -> prefix_of (l ++ a) (l ++ b).
Proof. intros [c ->]. exists c. rewrite app_assoc. reflexivity. Qed.
Lemma prefix_firstn {A} k (l : list A) : prefix_of (firstn k l) l.
Proof. exists (skipn k l). symmetry. apply firstn_skipn. Qed.
Lemma prefix_trans {A} (a b c : list A) : prefix_of a b -> prefix_of b c -> prefix_of a c.
Proof. intros [x ->] [y ->]. exists (x ++ y). rewrite app_assoc. reflexivity. Qed.

Lemma check_name_none_mem order seen n :
  check_name name neqb order seen n = None -> mem n seen = false /\ mem n order = true.
Proof. unfold check_name. destruct (mem n seen); [discriminate|]. destruct (mem n order); simpl; [auto|discriminate]. Qed.

Lemma sync_ahead_prefix order : forall gs rest seen,
  match gs with (n, _) :: _ => mem n seen = false /\ mem n order = true | [] => True end ->
  prefix_of (fst (sync_ahead order rest seen gs)) (fst (sync order rest seen gs)).
Proof.
  induction gs as [|[n p] gs IH]; intros rest seen Hhd; [apply prefix_refl|].
  destruct Hhd as [H1 H2]. cbn [C12.sync_ahead C12.sync]. rewrite H1, H2. cbn [negb].
  destruct (sync_skip name neqb n rest seen) as [k [[rest' seen']|]]; [|apply prefix_refl].
  destruct gs as [|[n' p'] gs'].
  - apply prefix_refl.
  - destruct (check_name name neqb order seen' n') as [c|] eqn:Ec.
    + cbn [fst]. unfold yapp. cbn [fst]. exists ([p] ++ fst (sync order rest' seen' ((n', p') :: gs'))).
      rewrite <- app_assoc. reflexivity.
    + unfold yapp. cbn [fst]. apply prefix_app. apply IH. apply check_name_none_mem. exact Ec.
Qed.

Lemma synched_ahead_prefix order gs :
  prefix_of (fst (synched_ahead name neqb P empty order gs)) (fst (synched name neqb P empty order gs)).
Proof.
  unfold synched_ahead, synched. destruct gs as [|[n p] gs]; [apply prefix_refl|].
  destruct (check_name name neqb order [] n) as [c|] eqn:Ec.
  - exists (fst (sync order order [] ((n, p) :: gs))). reflexivity.
  - apply sync_ahead_prefix. apply check_name_none_mem. exact Ec.
Qed.

(* any consumer of the repaired SynchedStream, however far it pulls and whatever the data: every delivered slot is the
   empty table or exactly the table the data carries under that contig's name *)
Theorem synched_fol_never_misattributes order gs k ys :
  NoDup (map fst gs) ->
  pull_n k (synched_fol name neqb P empty order gs) = Done ys ->
  Forall2 (slot_ok name neqb P empty gs) (firstn (length ys) order) ys.
Proof.
  intros Hnd Hp. rewrite (synched_fol_is_ahead name neqb neqb_eq) in Hp.
  pose proof (synched_ahead_prefix order gs) as Hpre.
  assert (Hys : prefix_of ys (fst (synched name neqb P empty order gs))).
  { destruct (synched_ahead name neqb P empty order gs) as [Y e]. unfold pull_n, pull_all in Hp. simpl in *.
    destruct (k <=? length Y)%nat.
    - inversion Hp; subst. eapply prefix_trans; [apply prefix_firstn|exact Hpre].
    - destruct e; inversion Hp; subst. exact Hpre. }
  pose proof (sync_slots name neqb neqb_eq P empty order gs gs order [] (lookup_in_nodup name neqb neqb_eq P empty gs Hnd)) as H.
  unfold synched in Hys. destruct Hys as [l3 Hl3]. rewrite Hl3 in H.
  apply (Forall2_firstn _ (length ys)) in H.
  rewrite firstn_firstn in H. rewrite app_length in H. rewrite Nat.min_l in H by lia.
  rewrite firstn_app in H. rewrite Nat.sub_diag in H. simpl in H. rewrite firstn_all, app_nil_r in H. exact H.
Qed.
End SlotsFol.

(* Proofs/C01_mfasta.v — wrapped FASTA: a completed chunk stream drops exactly the appended
   new-entry marker '>' and delivers the newline-terminated file, cut at record starts. *)
From Coq Require Import ZArith List Bool Arith Lia.
From BNP Require Import Base.Prims Base.PrimsFacts Model.C01 Proofs.C01 Proofs.C01_delim.
Import ListNotations.

(* ---------- the bytes appended at end of file ---------- *)
Definition nlopt (S : list Z) : list Z := if (last S 0 =? 10)%Z then [] else [10%Z].

Lemma terminator_mf S : terminator MultiFasta S = nlopt S ++ [62%Z].
Proof. reflexivity. Qed.
Lemma nlopt_ends S : ends_nl (S ++ nlopt S) = true.
Proof.
  unfold nlopt, ends_nl. destruct (last S 0 =? 10)%Z eqn:E.
  - rewrite app_nil_r. exact E.
  - rewrite last_app_nonempty by discriminate. reflexivity.
Qed.
Lemma nlopt_last a b : b <> [] -> nlopt (a ++ b) = nlopt b.
Proof. intros Hb. unfold nlopt. rewrite last_app_nonempty by assumption. reflexivity. Qed.
Lemma norm_text_nlopt file : file <> [] -> norm_text file = file ++ nlopt file.
Proof.
  intros Hf. unfold norm_text, nlopt, ends_nl. destruct file as [|z file]; [congruence|].
  destruct (last (z :: file) 0 =? 10)%Z; [rewrite app_nil_r|]; reflexivity.
Qed.
Lemma add_term_mf c : add_term MultiFasta c = (c ++ nlopt c) ++ [62%Z].
Proof. rewrite add_term_app, terminator_mf, app_assoc. reflexivity. Qed.

(* ---------- a text that ends with "\n>" is complete ---------- *)
Lemma nth_hit (c : list Z) : nthZ ((c ++ [10%Z]) ++ [62%Z]) (len c + 1) = 62%Z.
Proof.
  unfold nthZ, len.
  replace (Z.to_nat (Z.of_nat (length c) + 1)) with (length (c ++ [10%Z])) by (rewrite app_length; simpl length; lia).
  rewrite app_nth2 by lia. rewrite Nat.sub_diag. reflexivity.
Qed.

Lemma mf_complete_end t Y : ends_nl Y = true -> forall e, mf_complete e (t ++ [Y ++ [62%Z]]) = true.
Proof.
  intros HY. rewrite (ends_nl_split Y HY). set (c := removelast Y).
  assert (Hex : existsb (fun p => (nthZ ((c ++ [10]) ++ [62]) (p + 1) =? 62)%Z)
                        (nl_pos (removelast ((c ++ [10%Z]) ++ [62%Z]))) = true).
  { rewrite removelast_last. unfold nl_pos. rewrite positions_snoc_hit, existsb_app.
    cbn [existsb]. rewrite nth_hit. rewrite Z.eqb_refl. cbn [orb]. apply orb_true_r. }
  induction t as [|a t IH]; intros e; cbn [List.app mf_complete].
  - rewrite Hex. reflexivity.
  - destruct (existsb (fun p => (nthZ a (p + 1) =? 62)%Z) (nl_pos (removelast a))); [reflexivity|].
    destruct (e && (nthZ a 0 =? 62)%Z); [reflexivity|]. apply IH.
Qed.

(* ---------- the cut of a wrapped-FASTA buffer ---------- *)
Lemma nthZ_firstn0 (n : nat) (l : list Z) : (1 <= n)%nat -> nthZ (firstn n l) 0 = nthZ l 0.
Proof. intros Hn. destruct n; [lia|]. destruct l; reflexivity. Qed.

Lemma cut_mf_ok chunk size nl : cut MultiFasta chunk = CutOk size nl ->
  nthZ chunk 0 = 62%Z /\ (1 <= size)%nat /\ (size < length chunk)%nat /\ ends_nl (firstn size chunk) = true.
Proof.
  intros H. unfold cut in H.
  destruct (nthZ chunk 0 =? 62)%Z eqn:E0; cbn [negb] in H; [|discriminate].
  apply Z.eqb_eq in E0. split; [exact E0|].
  assert (Hne : chunk <> []) by (intros ->; discriminate).
  pose proof (app_removelast_last 0%Z Hne) as Hs.
  revert H. generalize (last chunk 0%Z) (removelast chunk) Hs. clear Hs.
  intros z R Hs H. cbv zeta in H.
  destruct (filter (fun p => (nthZ chunk (p + 1) =? 62)%Z) (nl_pos R)) as [|e0 es] eqn:Ee; [discriminate|].
  rewrite <- Ee in H. injection H as <- _.
  set (e := last (filter (fun p => (nthZ chunk (p + 1) =? 62)%Z) (nl_pos R)) 0%Z).
  assert (Hin : In e (filter (fun p => (nthZ chunk (p + 1) =? 62)%Z) (nl_pos R))).
  { apply last_In. rewrite Ee. discriminate. }
  apply filter_In in Hin. destruct Hin as [Hin _].
  apply In_positions in Hin. destruct Hin as [Hr Hv]. unfold len in Hr.
  replace (Z.to_nat (e + 1)) with (S (Z.to_nat e)) by lia.
  assert (Hl : length chunk = (length R + 1)%nat) by (rewrite Hs, app_length; reflexivity).
  split; [lia|]. split; [lia|].
  unfold ends_nl. rewrite last_nth_firstn by lia.
  rewrite Hs. rewrite app_nth1 by lia. unfold nthZ in Hv. rewrite Hv. reflexivity.
Qed.

Lemma cut_mf_end Y size nl : ends_nl Y = true ->
  cut MultiFasta (Y ++ [62%Z]) = CutOk size nl -> size = length Y.
Proof.
  intros HY. rewrite (ends_nl_split Y HY). set (c := removelast Y). intros H.
  unfold cut in H. destruct (negb _); [discriminate|]. cbv zeta in H.
  rewrite removelast_last in H. unfold nl_pos in H. rewrite positions_snoc_hit, filter_app in H.
  cbn [filter] in H. rewrite nth_hit, Z.eqb_refl in H.
  destruct (filter (fun p => (nthZ ((c ++ [10]) ++ [62]) (p + 1) =? 62)%Z) (positions 10 c) ++ [len c]) as [|e0 es] eqn:Ee.
  { destruct (filter (fun p => (nthZ ((c ++ [10]) ++ [62]) (p + 1) =? 62)%Z) (positions 10 c)); discriminate Ee. }
  rewrite <- Ee in H. rewrite last_app_nonempty in H by discriminate. cbn [last] in H.
  injection H as <- _. rewrite app_length. unfold len. simpl length. lia.
Qed.

(* ---------- end-of-file discipline of the accumulation loop for wrapped FASTA ---------- *)
Definition mf_post (file : list Z) (pos : nat) (base : list Z) (temp : list (list Z)) (r : accres) : Prop :=
  match r with
  | AComplete temp' pos' fin app' =>
      fin = true -> let S := base ++ firstn (pos' - pos) (skipn pos file) in
                    S <> [] /\ app' = terminator MultiFasta S
  | ANone pending app' => temp = [] /\ skipn pos file = []
  | _ => True
  end.

Lemma accumulate_mf k file l0 : (1 <= k)%nat ->
  forall fuel pos temp base,
    concat temp = base -> Forall (fun c => c <> []) temp ->
    mf_post file pos base temp (accumulate true fuel MultiFasta k file l0 pos temp false []).
Proof.
  intros Hk. induction fuel as [|fuel IH]; intros pos temp base Hc Hne; [exact I|].
  cbn [accumulate]. unfold m_is_finished, m_reported, m_lines_after in *.
  destruct (firstn k (skipn pos file)) as [|x r] eqn:Eraw.
  - assert (HX : skipn pos file = []) by (apply (firstn_nil_inv k); assumption).
    cbn [length negb orb]. rewrite Nat.add_0_r.
    destruct temp as [|c t] eqn:Et.
    + split; [reflexivity|exact HX].
    + rewrite <- Et in *.
      assert (Hpn : concat temp <> []) by (apply concat_nonempty; [rewrite Et; discriminate|assumption]).
      assert (Hcomp : complete MultiFasta [add_term MultiFasta (concat temp)] = CYes).
      { unfold complete. rewrite add_term_mf.
        pose proof (mf_complete_end [] (concat temp ++ nlopt (concat temp)) (nlopt_ends _) false) as Hm.
        cbn [List.app] in Hm. rewrite Hm. reflexivity. }
      rewrite Hcomp. cbn [mf_post]. intros _. rewrite Nat.sub_diag. cbn [firstn List.app].
      rewrite app_nil_r. rewrite <- Hc. split; [exact Hpn|reflexivity].
  - set (raw := x :: r) in *.
    assert (Hrn : raw <> []) by discriminate.
    assert (Hraw : firstn (length raw) (skipn pos file) = raw) by (rewrite <- Eraw; apply firstn_len_firstn).
    assert (Hbr : base ++ raw <> []) by (destruct base; [exact Hrn|discriminate]).
    destruct (length raw <? k)%nat eqn:Efin.
    + (* short read: the terminated text always completes *)
      assert (Hcomp : complete MultiFasta (temp ++ [add_term MultiFasta raw]) = CYes).
      { unfold complete. rewrite add_term_mf.
        rewrite (mf_complete_end temp (raw ++ nlopt raw) (nlopt_ends _) false). reflexivity. }
      rewrite Hcomp. cbn [mf_post]. intros _.
      replace (pos + length raw - pos)%nat with (length raw) by lia. rewrite Hraw.
      split; [exact Hbr|]. cbn [List.app]. symmetry. apply terminator_last. exact Hrn.
    + destruct (complete MultiFasta (temp ++ [raw])) eqn:Ecomp.
      * cbn [mf_post]. discriminate.
      * assert (Hc' : concat (temp ++ [raw]) = base ++ raw) by (rewrite concat_snoc, Hc; reflexivity).
        assert (Hne' : Forall (fun c => c <> []) (temp ++ [raw])).
        { apply Forall_app. split; [assumption|]. constructor; [exact Hrn|constructor]. }
        specialize (IH (pos + length raw)%nat (temp ++ [raw]) (base ++ raw) Hc' Hne').
        assert (Hc'' : concat (temp ++ [raw]) = (base ++ raw) ++ []) by (rewrite app_nil_r; exact Hc').
        pose proof (accumulate_spec true MultiFasta k file l0 Hk fuel (pos + length raw)%nat (temp ++ [raw]) false []
                      (base ++ raw) Hc'' (or_introl eq_refl)) as HS.
        destruct (accumulate true fuel MultiFasta k file l0 (pos + length raw) (temp ++ [raw]) false []) as [t p' fn a|pend a| |];
          cbn [mf_post acc_post] in *; try exact I.
        -- intros Hf. specialize (IH Hf). cbv zeta in IH. cbv zeta.
           destruct HS as (Hle & _). destruct IH as [IH1 IH2].
           replace (p' - pos)%nat with (length raw + (p' - (pos + length raw)))%nat by lia.
           rewrite firstn_add_split, Hraw. rewrite skipn_add in IH1, IH2. rewrite <- app_assoc in IH1, IH2.
           split; assumption.
        -- destruct IH as [IH _]. apply app_eq_nil in IH. destruct IH as [_ IH]. discriminate IH.
      * exact I.
Qed.

(* ---------- one read_chunk call ---------- *)
Definition mf_chunk (c : list Z) : Prop := ends_nl c = true /\ nthZ c 0 = 62%Z.

Lemma read_chunk_mf m k file st D : (1 <= k)%nat -> Inv m file st D ->
  r_prepend st ++ skipn (r_pos st) file <> [] ->
  match read_chunk true MultiFasta m k file st with
  | RChunk b dropped app st' =>
      mf_chunk b
      /\ (r_finished st' = false -> r_prepend st' ++ skipn (r_pos st') file <> [])
      /\ (r_finished st' = true -> dropped = [62%Z] /\ concat D ++ b = norm_text file)
  | RNone dropped app st' => False
  | _ => True
  end.
Proof.
  intros Hk HI Hpend.
  pose proof (read_chunk_spec true MultiFasta m k file st D Hk HI) as HG.
  destruct HI as [HI Hseek].
  unfold read_chunk in *. unfold m_is_finished, m_reported, m_lines_after, m_incomplete_line, m_pending_incomplete_line in *.
  set (temp0 := match r_prepend st with [] => [] | p => [p] end) in *.
  assert (Ht0 : concat temp0 = r_prepend st ++ []).
  { unfold temp0. destruct (r_prepend st); [reflexivity|]. cbn [concat]. reflexivity. }
  assert (Ht1 : concat temp0 = r_prepend st) by (rewrite Ht0; apply app_nil_r).
  assert (Hne0 : Forall (fun c => c <> []) temp0).
  { unfold temp0. destruct (r_prepend st); [constructor|]. constructor; [discriminate|constructor]. }
  pose proof (accumulate_spec true MultiFasta k file (r_lines st) Hk (length file + 2) (r_pos st) temp0 false []
                (r_prepend st) Ht0 (or_introl eq_refl)) as HA.
  pose proof (accumulate_mf k file (r_lines st) Hk (length file + 2) (r_pos st) temp0 (r_prepend st) Ht1 Hne0) as HT.
  destruct (accumulate true (length file + 2) MultiFasta k file (r_lines st) (r_pos st) temp0 false []) as [temp pos' fin app|pending app|l|];
    cbn [acc_post mf_post] in *; try exact I.
  - destruct HA as (Hle & Hle2 & Hcc & Hf1 & Hf2).
    destruct (cut MultiFasta (concat temp)) as [size nl| | |l] eqn:Ecut; try exact I.
    destruct (cut_mf_ok (concat temp) size nl Ecut) as (H0 & Hs1 & Hs2 & Hb).
    set (chunk := concat temp) in *.
    destruct fin; cbn [andb] in HG |- *.
    + revert HG. destruct (negb (leftover_ok MultiFasta (skipn size chunk))); [intros _; exact I|intros HG].
      split; [split; [exact Hb|rewrite nthZ_firstn0 by exact Hs1; exact H0]|].
      cbn [r_finished] in *. split; [discriminate|intros _].
      destruct HG as [_ HG]. specialize (HG eq_refl).
      destruct (HT eq_refl) as [HS Happ]. cbv zeta in HS, Happ.
      set (S := r_prepend st ++ firstn (pos' - r_pos st) (skipn (r_pos st) file)) in *.
      assert (Hchunk : chunk = (S ++ nlopt S) ++ [62%Z]).
      { rewrite Hcc, Happ, terminator_mf. fold S. rewrite !app_assoc. reflexivity. }
      pose proof (nlopt_ends S) as Hends.
      rewrite Hchunk in Ecut. apply (cut_mf_end _ _ _ Hends) in Ecut. subst size.
      rewrite Hchunk in *.
      rewrite firstn_app, Nat.sub_diag, firstn_all in *. cbn [firstn] in *. rewrite app_nil_r in *.
      rewrite skipn_app, Nat.sub_diag, skipn_all in *. cbn [skipn List.app] in *.
      split; [reflexivity|].
      rewrite Happ, terminator_mf in HG. rewrite !app_assoc in HG.
      apply app_inv_tail in HG. rewrite <- !app_assoc in HG. rewrite app_assoc in HG.
      apply app_inv_tail in HG.
      assert (Hfile : file <> []) by (rewrite <- HG; destruct (concat D); [exact HS|discriminate]).
      rewrite (norm_text_nlopt file Hfile). rewrite <- HG at 2. rewrite (nlopt_last (concat D) S HS).
      rewrite <- HG, <- app_assoc. reflexivity.
    + split; [split; [exact Hb|rewrite nthZ_firstn0 by exact Hs1; exact H0]|].
      specialize (Hf1 eq_refl). subst app. rewrite app_nil_r in Hcc.
      assert (Hlen : (length chunk <= length (r_prepend st) + length (skipn (r_pos st) file))%nat).
      { rewrite Hcc, app_length, firstn_length. lia. }
      destruct m; cbn [r_finished] in *; (split; [intros _|discriminate]);
        destruct HG as [HG _]; destruct (HG eq_refl) as ([HI' _] & _ & _); intros Hnil;
        rewrite Hnil in HI'; rewrite concat_snoc in HI';
        apply (f_equal (@length Z)) in HI'; apply (f_equal (@length Z)) in HI;
        rewrite !app_length in HI; rewrite !app_length, firstn_length in HI'; cbn [length] in HI'; lia.
  - cbn [andb]. destruct (negb (leftover_ok MultiFasta pending)); [exact I|].
    destruct HT as [Ht Hx]. apply Hpend. rewrite Hx, app_nil_r.
    unfold temp0 in Ht. destruct (r_prepend st); [reflexivity|discriminate Ht].
Qed.

(* ---------- the whole stream ---------- *)
Lemma read_chunks_loop_mf m k file : (1 <= k)%nat ->
  forall fuel st acc chunks dropped app lines,
    r_finished st = false -> Inv m file st (rev acc) ->
    r_prepend st ++ skipn (r_pos st) file <> [] -> Forall mf_chunk (rev acc) ->
    read_chunks_loop true fuel MultiFasta m k file st acc = Done chunks dropped app lines ->
    dropped = [62%Z] /\ concat chunks = norm_text file /\ Forall mf_chunk chunks.
Proof.
  intros Hk. induction fuel as [|fuel IH]; intros st acc chunks dropped app lines Hnf HI Hp HE Hrun; [discriminate|].
  cbn [read_chunks_loop] in Hrun. rewrite Hnf in Hrun.
  pose proof (read_chunk_spec true MultiFasta m k file st (rev acc) Hk HI) as HS.
  pose proof (read_chunk_mf m k file st (rev acc) Hk HI Hp) as HD.
  destruct (read_chunk true MultiFasta m k file st) as [b d a st'|d a st'|l| |]; try discriminate.
  - destruct HS as [HS1 HS2]. destruct HD as (Hb & HD1 & HD2).
    assert (HE' : Forall mf_chunk (rev (b :: acc))).
    { cbn [rev]. apply Forall_app. split; [exact HE|constructor; [exact Hb|constructor]]. }
    destruct (r_finished st') eqn:Ef.
    + injection Hrun as <- <- <- _. destruct (HD2 eq_refl) as [Hd Hc]. split; [exact Hd|]. split; [|exact HE'].
      cbn [rev]. rewrite concat_snoc. exact Hc.
    + destruct (HS1 eq_refl) as (HI' & _ & _).
      apply (IH st' (b :: acc) chunks dropped app lines Ef); [cbn [rev]; exact HI'|apply HD1; reflexivity|exact HE'|exact Hrun].
  - destruct HD.
Qed.

Theorem mfasta_chunks_exact : forall m k file chunks dropped app lines,
  (1 <= k)%nat ->
  read_chunks true MultiFasta m k file = Done chunks dropped app lines ->
  (file = [] /\ chunks = [] /\ dropped = [])
  \/ (dropped = [62%Z] /\ concat chunks = norm_text file
      /\ Forall (fun c => ends_nl c = true /\ nthZ c 0 = 62%Z) chunks).
Proof.
  intros m k file chunks dropped app lines Hk Hrun. destruct file as [|z file].
  - left. destruct k as [|k]; [lia|]. unfold read_chunks in Hrun. simpl in Hrun.
    injection Hrun as <- <- _ _. repeat split; reflexivity.
  - right. unfold read_chunks in Hrun.
    apply (read_chunks_loop_mf m k (z :: file) Hk (length (z :: file) + 2) rinit [] chunks dropped app lines);
      [reflexivity|split; reflexivity|discriminate|constructor|exact Hrun].
Qed.

(* ---------- examples: two wrapped records, no final line break, chunk size 5 ---------- *)
Definition ex_file : list Z := [62; 97; 10; 65; 67; 10; 71; 84; 10; 62; 98; 10; 84; 84]%Z.

Example mfasta_ex_seek :
  exists chunks app lines,
    read_chunks true MultiFasta Seek 5 ex_file = Done chunks [62%Z] app lines
    /\ concat chunks = norm_text ex_file.
Proof.
  exists [[62; 97; 10; 65; 67; 10; 71; 84; 10]; [62; 98; 10; 84; 84; 10]]%Z, [10; 62]%Z, 3%nat.
  split; vm_compute; reflexivity.
Qed.
Example mfasta_ex_prepend :
  exists chunks app lines,
    read_chunks true MultiFasta Prepend 5 ex_file = Done chunks [62%Z] app lines
    /\ concat chunks = norm_text ex_file.
Proof.
  exists [[62; 97; 10; 65; 67; 10; 71; 84; 10]; [62; 98; 10; 84; 84; 10]]%Z, [10; 62]%Z, 3%nat.
  split; vm_compute; reflexivity.
Qed.

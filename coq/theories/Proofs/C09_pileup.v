(* Proofs/C09_pileup.v — the event pipeline of get_pileup (Model/C09_pileup.v) yields a well-formed run-length array of
   the genome's length whose expansion is, base by base, the number of rows covering the base; genome level on top.
   The arithmetic core (sorted accumulated value changes expand to the weighted count of events; the changes of one row
   sum to its indicator) is imported from Proofs/C08.v (expand_cum, wsum_rows, ...). *)
From Coq Require Import ZArith List Bool Lia Arith Permutation.
From BNP Require Import Base.Prims Base.PrimsFacts Model.C09 Model.C09_pileup Proofs.C09 Proofs.C09_depth Proofs.C09_genome.
From BNP Require Model.C08 Proofs.C08.
Import ListNotations.
Open Scope Z_scope.

Module M8 := BNP.Model.C08.
Module P8 := BNP.Proofs.C08.

(* ---------- multiplicities: coverage of the expanded multiset = weighted count ---------- *)
Lemma cov_repeat i x : forall n, M8.cov (repeat i n) x = Z.of_nat n * M8.b2z (M8.covers x i).
Proof.
  induction n as [|n IH]; [reflexivity|]. cbn [repeat]. rewrite P8.cov_cons, IH. lia.
Qed.
Lemma cov_rows_of p : forall recs, (forall r, In r recs -> 0 <= mult_of r) ->
  M8.cov (rows_of recs) p = sumZ (map (fun r : Z * Z * (Z * Z) => fst (snd r)) (filter (covers p) recs)).
Proof.
  induction recs as [|[[s e] [m x]] recs IH]; intros Hm; [reflexivity|].
  unfold rows_of in *. cbn [map concat]. rewrite P8.cov_app, cov_repeat, IH by (intros r Hr; apply Hm; right; exact Hr).
  pose proof (Hm _ (or_introl eq_refl)) as H0. unfold mult_of in *. cbn [fst snd] in *.
  cbn [filter]. unfold covers at 2, M8.covers, iv_of. cbn [fst snd].
  destruct ((s <=? p) && (p <? e)); cbn [M8.b2z map]; [rewrite sumZ_cons; cbn [fst snd]; lia|lia].
Qed.

(* ---------- C08's run expansion (position, value) / L in C09's events / values form ---------- *)
Lemma map_repeat' {A B} (f : A -> B) x : forall n, map f (repeat x n) = repeat (f x) n.
Proof. induction n as [|n IH]; [reflexivity|]. cbn [repeat map]. rewrite IH. reflexivity. Qed.
Lemma expand_from_runs L : forall t p v,
  expand_from p (map fst t ++ [L]) (map (fun x : Z * Z => vint (snd x)) ((p, v) :: t)) = map vint (M8.expand ((p, v) :: t) L).
Proof.
  induction t as [|[q w] t IH]; intros p v.
  - cbn [map app expand_from M8.expand M8.next_pos snd]. rewrite !app_nil_r, map_repeat'. destruct (map (fun x : Z * Z => vint (snd x)) []); reflexivity.
  - cbn [map app fst snd]. cbn [expand_from]. change (M8.expand ((p, v) :: (q, w) :: t) L)
      with (repeat v (Z.to_nat (q - p)) ++ M8.expand ((q, w) :: t) L).
    rewrite map_app, map_repeat'. f_equal. specialize (IH q w). cbn [map snd] in IH. exact IH.
Qed.

(* positions of sorted events, followed by L, are weakly increasing *)
Lemma cum_from_fst : forall E acc, map fst (M8.cum_from acc E) = map fst E.
Proof. induction E as [|[p d] E IH]; intros acc; [reflexivity|]. cbn [M8.cum_from map fst]. rewrite IH. reflexivity. Qed.
Lemma winc_sorted L : forall E p, p <= L -> M8.sortedb M8.pos_leb E = true -> (forall e, In e E -> p <= fst e <= L) ->
  winc p (map fst E ++ [L]) = true.
Proof.
  induction E as [|a E IH]; intros p HpL Hs Hb.
  - cbn [map app winc]. rewrite andb_true_r. apply Z.leb_le. exact HpL.
  - pose proof (Hb a (or_introl eq_refl)) as Ha. cbn [map app winc]. apply andb_true_intro. split; [apply Z.leb_le; lia|].
    pose proof (P8.pos_sorted_head_le a E Hs) as Hh. apply (P8.sortedb_cons M8.pos_leb) in Hs. destruct Hs as [_ Hs].
    apply IH; [lia|exact Hs|]. intros e He. specialize (Hh e He). specialize (Hb e (or_intror He)). lia.
Qed.

(* ---------- the flat pileup ---------- *)
Definition row_ok (size : Z) (r : Z * Z * (Z * Z)) : Prop := 0 <= st r /\ st r <= en r /\ en r <= size /\ 0 <= mult_of r.

Theorem pileup_events_spec : forall recs size, 0 < size -> (forall r, In r recs -> row_ok size r) ->
  exists r, pileup_events recs size = Some (KI, r) /\ wf_rle r = true /\ rle_len r = size
            /\ expand r = tabulate (count_at recs) 0 size.
Proof.
  intros recs size Hsize Hok. unfold pileup_events, m_pu_is_empty.
  assert (Hcount : forall p, count_at recs p = vint (M8.cov (rows_of recs) p)).
  { intros p. unfold count_at, vint. f_equal. symmetry. apply cov_rows_of. intros r Hr. apply (Hok r Hr). }
  assert (Hwf : forall i, In i (rows_of recs) -> 0 <= fst i /\ fst i <= snd i /\ snd i <= size).
  { intros i Hi. unfold rows_of in Hi. apply in_concat in Hi. destruct Hi as [l [Hl Hi]]. apply in_map_iff in Hl.
    destruct Hl as [r [<- Hr]]. apply repeat_spec in Hi. subst i. destruct (Hok r Hr) as (A & B & C & _).
    unfold iv_of, st, en in *. cbn [fst snd]. lia. }
  set (I := rows_of recs) in *. destruct I as [|i0 I0] eqn:EI.
  - (* no rows: GenomicRunLengthArray([0, size], [0]) *)
    assert (Hlt : (0 <? size) = true) by (apply Z.ltb_lt; exact Hsize).
    assert (Hmk : mk_rle [0; size] (map vint [0]) = Some ([0; size], [vint 0])).
    { unfold mk_rle, wf_rle. cbn [fst snd map increasing_from]. rewrite Hlt. reflexivity. }
    cbn [len length Z.of_nat Z.eqb]. unfold m_pu_empty_events, m_pu_empty_values. rewrite Hmk.
    exists ([0; size], [vint 0]). split; [reflexivity|].
    split; [unfold wf_rle; cbn [fst snd map increasing_from]; rewrite Hlt; reflexivity|].
    split; [reflexivity|]. unfold expand. cbn [fst snd expand_from]. rewrite app_nil_r, Z.sub_0_r.
    unfold tabulate. rewrite <- (P8.arange_from_length 0 (Z.to_nat size)) at 1. symmetry. apply P8.map_const.
    intros x _. rewrite Hcount. reflexivity.
  - rewrite <- EI in *. replace (len I =? 0) with false by (rewrite EI; unfold len; cbn [length]; symmetry; apply Z.eqb_neq; lia).
    unfold pileup_cum. set (ev := concat (map (M8.row_events size) I)).
    pose proof (P8.isort_perm M8.pos_leb ev) as Hperm.
    pose proof (P8.isort_sorted M8.pos_leb P8.pos_leb_total ev) as Hsorted.
    (* all event positions lie in [0, size], and some event sits at 0 *)
    assert (Hpos : forall e, In e ev -> 0 <= fst e <= size).
    { intros e He. unfold ev in He. apply in_concat in He. destruct He as [r [Hr He]].
      apply in_map_iff in Hr. destruct Hr as [i [Hi Hin]]. subst r. specialize (Hwf i Hin).
      unfold M8.row_events in He. rewrite !in_app_iff in He. destruct He as [He|[He|He]].
      - destruct (0 <? fst i); [destruct He as [He|[]]; subst; simpl; lia|destruct He].
      - destruct He as [He|[]]. subst. simpl. lia.
      - destruct (snd i <? size); [destruct He as [He|[]]; subst; simpl; lia|destruct He]. }
    assert (Hzero : exists e, In e ev /\ fst e = 0).
    { assert (Hi0 : In i0 I) by (rewrite EI; left; reflexivity).
      specialize (Hwf i0 Hi0). destruct (Z.ltb_spec 0 (fst i0)) as [Hlt|Hge].
      - exists (0, 0). split; [|reflexivity]. unfold ev. apply in_concat. exists (M8.row_events size i0). split; [apply in_map; exact Hi0|].
        unfold M8.row_events. apply in_app_iff. left. destruct (Z.ltb_spec 0 (fst i0)); [left; reflexivity|lia].
      - exists (fst i0, 1). split; [|simpl; lia]. unfold ev. apply in_concat. exists (M8.row_events size i0). split; [apply in_map; exact Hi0|].
        unfold M8.row_events. apply in_app_iff. right. left. reflexivity. }
    destruct (M8.isort M8.pos_leb ev) as [|[p0 d0] E'] eqn:Es.
    { destruct Hzero as [e [He _]]. apply (Permutation_in _ (Permutation_sym Hperm)) in He. destruct He. }
    assert (Hp0 : p0 = 0).
    { destruct Hzero as [e [He Hz]]. apply (Permutation_in _ (Permutation_sym Hperm)) in He.
      assert (0 <= p0) by (apply (Hpos (p0, d0)); apply (Permutation_in _ Hperm); left; reflexivity).
      destruct He as [He|He]; [subst e; simpl in Hz; lia|].
      pose proof (P8.pos_sorted_head_le _ _ Hsorted e He) as H1. simpl in H1. lia. }
    subst p0.
    assert (HposE : forall e, In e ((0, d0) :: E') -> 0 <= fst e <= size) by (intros e He; apply Hpos; apply (Permutation_in _ Hperm); exact He).
    (* the events handed to remove_empty_intervals *)
    change (M8.cum_from 0 ((0, d0) :: E')) with ((0, 0 + d0) :: M8.cum_from (0 + d0) E').
    cbn [map fst snd app].
    set (tailc := M8.cum_from (0 + d0) E').
    assert (Hw : winc 0 (map fst tailc ++ [size]) = true).
    { unfold tailc. rewrite cum_from_fst. apply (P8.sortedb_cons M8.pos_leb) in Hsorted. destruct Hsorted as [Hh Hs'].
      apply winc_sorted; [lia|exact Hs'|]. intros e He. apply HposE. right. exact He. }
    assert (Hl : length (vint (0 + d0) :: map (fun x : Z * Z => vint (snd x)) tailc) = length (map fst tailc ++ [size])).
    { cbn [length]. rewrite app_length, !map_length. cbn [length]. lia. }
    destruct (remove_empty_spec _ 0 _ Hw Hl) as (rest' & vs' & E & Inc & Len & La & X).
    rewrite E. unfold mk_rle, wf_rle. cbn [fst snd]. rewrite Inc. replace (len rest' =? len vs') with true by (symmetry; apply Z.eqb_eq; unfold len; lia).
    cbn [Z.eqb andb]. eexists. split; [reflexivity|]. split; [cbn [fst snd]; rewrite Inc; cbn [Z.eqb andb]; apply Z.eqb_eq; unfold len; lia|].
    split.
    + unfold rle_len. cbn [fst]. rewrite La. change (0 :: map fst tailc ++ [size]) with ((0 :: map fst tailc) ++ [size]). apply last_last.
    + unfold expand. cbn [fst snd]. rewrite X.
      pose proof (expand_from_runs size tailc 0 (0 + d0)) as R. cbn [map snd] in R. rewrite R.
      change ((0, 0 + d0) :: tailc) with (M8.cum_from 0 ((0, d0) :: E')).
      rewrite (P8.expand_cum size E' 0 d0 0 Hsorted) by (intros e He; apply HposE; exact He).
      rewrite Z.sub_0_r, map_map. unfold tabulate. apply map_ext_in. intros x Hx. apply In_arange_from in Hx.
      rewrite Hcount, Z.add_0_l. f_equal. rewrite (P8.wsum_perm _ _ x Hperm). unfold ev. apply P8.wsum_rows; [|lia].
      intros i Hi. specialize (Hwf i Hi). lia.
Qed.

(* ---------- genome level: get_intervals(..).get_pileup().to_dict() ---------- *)
Definition prow_ok (sizes : list Z) (r : Z * Z * Z * (Z * Z)) : Prop :=
  let '(c, s, e, v) := r in 0 <= c < len sizes /\ 0 <= s < nthZ sizes c /\ s <= e <= nthZ sizes c /\ 0 <= fst v.

Theorem pileup_end_to_end : forall sizes recs,
  all_pos sizes = true -> sizes <> [] -> (forall r, In r recs -> prow_ok sizes r) ->
  exists r, to_global sizes recs = Some (glob sizes recs)
            /\ pileup_events (glob sizes recs) (total_size sizes) = Some (KI, r)
            /\ wf_rle r = true /\ rle_len r = total_size sizes
            /\ model_to_dict sizes r = spec_pileup sizes recs.
Proof.
  intros sizes recs Hp Hne Hin.
  assert (Ht : 0 < total_size sizes).
  { destruct sizes as [|x l]; [congruence|]. pose proof (off_end_le_total (x :: l) 0 Hp ltac:(rewrite len_cons; pose proof (len_nonneg l); lia)).
    pose proof (size_pos (x :: l) 0 Hp ltac:(rewrite len_cons; pose proof (len_nonneg l); lia)). rewrite off_0 in H. lia. }
  assert (Hiv : forall r, In r recs -> iv_in sizes r).
  { intros r Hr. specialize (Hin r Hr). destruct r as [[[c s] e] v]. unfold prow_ok in Hin. unfold iv_in. lia. }
  assert (Hg : forall r, In r (glob sizes recs) -> row_ok (total_size sizes) r).
  { intros r Hr. unfold glob in Hr. apply in_map_iff in Hr. destruct Hr as [[[[c s] e] v] [<- Hx]].
    specialize (Hin _ Hx). unfold prow_ok in Hin. unfold row_ok, st, en, mult_of, m_go_shift. cbn [fst snd].
    pose proof (off_end_le_total sizes c Hp ltac:(lia)). pose proof (off_nonneg sizes c Hp ltac:(lia)). lia. }
  destruct (pileup_events_spec (glob sizes recs) (total_size sizes) Ht Hg) as (r & E & W & L & X).
  exists r. split; [apply to_global_in; exact Hiv|]. split; [exact E|]. split; [exact W|]. split; [exact L|].
  apply pileup_genome; try assumption. intros x Hx. apply iv_in_rec_in. apply Hiv. exact Hx.
Qed.

(* back-conversion of the pileup *)
Theorem pileup_back_conversion : forall sizes recs,
  all_pos sizes = true -> sizes <> [] -> (forall r, In r recs -> prow_ok sizes r) ->
  exists r, pileup_events (glob sizes recs) (total_size sizes) = Some (KI, r)
    /\ let rows := model_get_data sizes KI r in
       chroms_sorted rows = true
       /\ (forall c, 0 <= c < len sizes ->
             sorted_disjoint 0 (on_chrom c rows) = true /\ all_le (nthZ sizes c) (on_chrom c rows) = true)
       /\ spec_track vzero sizes rows = spec_pileup sizes recs.
Proof.
  intros sizes recs Hp Hne Hin. destruct (pileup_end_to_end sizes recs Hp Hne Hin) as (r & _ & E & W & L & D).
  exists r. split; [exact E|].
  destruct (get_data_genome sizes KI r W Hp L ltac:(discriminate)) as (A & B & C).
  cbv zeta. split; [exact A|]. split; [exact B|]. rewrite <- D. exact C.
Qed.

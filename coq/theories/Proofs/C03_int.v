(* Proofs/C03_int.v — integer text: the canonical numeral [dec] parses back to the integer; the
   digit-matrix printer of strops.ints_to_strings equals [dec] when its width is the true digit count
   (repaired code: every integer; code as it is: |n| < 10^15 - 2). *)
From Coq Require Import ZArith List Bool Lia Arith.
From BNP Require Import Base.Prims Base.PrimsFacts Model.C03.
Import ListNotations.
Open Scope Z_scope.

Definition digit (m i : Z) : Z := 48 + (m / 10 ^ i) mod 10.

Lemma arange_from_S s n : arange_from s (S n) = s :: arange_from (s + 1) n.
Proof. reflexivity. Qed.
Lemma arange_from_map s n : arange_from (s + 1) n = map (fun i => i + 1) (arange_from s n).
Proof. revert s; induction n as [|n IH]; intros s; [reflexivity|]. cbn [arange_from map]. f_equal. apply IH. Qed.
Lemma rev_arange_S (k : nat) :
  rev (arange_from 0 (S k)) = map (fun i => i + 1) (rev (arange_from 0 k)) ++ [0].
Proof. rewrite arange_from_S. cbn [rev]. rewrite (arange_from_map 0), map_rev. reflexivity. Qed.

Lemma arange_from_snoc s (k : nat) : arange_from s (S k) = arange_from s k ++ [s + Z.of_nat k].
Proof.
  revert s; induction k as [|k IH]; intros s.
  - cbn. f_equal. lia.
  - rewrite arange_from_S, IH. cbn [arange_from app]. do 2 f_equal. f_equal. lia.
Qed.

Lemma digit_shift m i : 0 <= m -> 0 <= i -> digit m (i + 1) = digit (m / 10) i.
Proof.
  intros Hm Hi. unfold digit. rewrite Z.pow_add_r, Z.pow_1_r by lia.
  rewrite (Z.mul_comm (10 ^ i) 10), <- Z.div_div by (try lia; apply Z.pow_pos_nonneg; lia). reflexivity.
Qed.

(* the numeral, digit by digit; k is the number of digits *)
Lemma dec_fuel_digits f : forall m acc, (1 <= f)%nat -> 0 <= m < 10 ^ Z.of_nat f ->
  exists k : nat, (1 <= k)%nat /\
    dec_fuel f m acc = map (digit m) (rev (arange_from 0 k)) ++ acc /\
    10 ^ (Z.of_nat k - 1) <= Z.max m 1 /\ m < 10 ^ Z.of_nat k.
Proof.
  induction f as [|f IH]; intros m acc Hf Hm; [lia|].
  cbn [dec_fuel]. destruct (Z.ltb_spec m 10) as [Hlt|Hge].
  - exists 1%nat. split; [lia|]. split; [|split].
    + cbn [arange_from rev map app]. unfold digit. rewrite Z.pow_0_r, Z.div_1_r. reflexivity.
    + cbn. lia.
    + cbn. lia.
  - assert (Hm10 : 1 <= m / 10) by (apply Z.div_le_lower_bound; lia).
    assert (Hf' : (1 <= f)%nat).
    { destruct f; [|lia]. cbn in Hm. lia. }
    assert (Hb : 0 <= m / 10 < 10 ^ Z.of_nat f).
    { split; [lia|]. apply Z.div_lt_upper_bound; [lia|].
      replace (Z.of_nat (S f)) with (Z.of_nat f + 1) in Hm by lia.
      rewrite Z.pow_add_r, Z.pow_1_r in Hm by lia. lia. }
    destruct (IH (m / 10) ((48 + m mod 10) :: acc) Hf' Hb) as [k [Hk [He [Hlo Hhi]]]].
    exists (S k). split; [lia|]. split; [|split].
    + rewrite He, rev_arange_S, map_app, map_map, <- app_assoc. f_equal.
      * apply map_ext_in. intros i Hi. apply in_rev, In_arange_from in Hi.
        symmetry. apply digit_shift; lia.
      * cbn [map app]. unfold digit. rewrite Z.pow_0_r, Z.div_1_r. reflexivity.
    + replace (Z.of_nat (S k) - 1) with ((Z.of_nat k - 1) + 1) by lia.
      rewrite Z.pow_add_r, Z.pow_1_r by lia.
      pose proof (Z.mul_div_le m 10 ltac:(lia)). lia.
    + replace (Z.of_nat (S k)) with (Z.of_nat k + 1) by lia.
      rewrite Z.pow_add_r, Z.pow_1_r by lia.
      pose proof (Z.mod_pos_bound m 10 ltac:(lia)). pose proof (Z.div_mod m 10 ltac:(lia)). lia.
Qed.

Lemma dec_nat_fuel_ok m : 0 <= m -> 0 <= m < 10 ^ Z.of_nat (S (Z.to_nat (Z.log2 m))).
Proof.
  intros Hm. split; [lia|].
  destruct (Z.eq_dec m 0) as [->|Hne]; [cbn; lia|].
  pose proof (Z.log2_spec m ltac:(lia)) as [_ Hhi]. pose proof (Z.log2_nonneg m).
  replace (Z.of_nat (S (Z.to_nat (Z.log2 m)))) with (Z.succ (Z.log2 m)) by lia.
  eapply Z.lt_le_trans; [exact Hhi|]. apply Z.pow_le_mono_l. lia.
Qed.

Lemma dec_nat_digits m : 0 <= m ->
  exists k : nat, (1 <= k)%nat /\ dec_nat m = map (digit m) (rev (arange_from 0 k)) /\
    10 ^ (Z.of_nat k - 1) <= Z.max m 1 /\ m < 10 ^ Z.of_nat k.
Proof.
  intros Hm. unfold dec_nat.
  destruct (dec_fuel_digits (S (Z.to_nat (Z.log2 m))) m [] ltac:(lia) (dec_nat_fuel_ok m Hm))
    as [k [Hk [He Hb]]].
  exists k. rewrite app_nil_r in He. auto.
Qed.

Lemma length_arange_from s (k : nat) : length (arange_from s k) = k.
Proof. revert s; induction k as [|k IH]; intros s; [reflexivity|]. cbn. f_equal. apply IH. Qed.
Lemma len_map_rev_arange (g : Z -> Z) (k : nat) : len (map g (rev (arange_from 0 k))) = Z.of_nat k.
Proof. unfold len. rewrite map_length, rev_length, length_arange_from. reflexivity. Qed.

(* ---------- parsing the numeral back ---------- *)
Lemma dec_fuel_parse f : forall m acc, (1 <= f)%nat -> 0 <= m < 10 ^ Z.of_nat f ->
  exists k, 0 <= k /\ forall a, parse_nat_acc a (dec_fuel f m acc) = parse_nat_acc (a * 10 ^ k + m) acc.
Proof.
  induction f as [|f IH]; intros m acc Hf Hm; [lia|].
  cbn [dec_fuel]. pose proof (Z.mod_pos_bound m 10 ltac:(lia)) as Hmod.
  assert (Hd : forall a acc', parse_nat_acc a ((48 + m mod 10) :: acc') = parse_nat_acc (10 * a + m mod 10) acc').
  { intros a acc'. cbn [parse_nat_acc].
    replace ((48 <=? 48 + m mod 10) && (48 + m mod 10 <=? 57)) with true
      by (symmetry; apply andb_true_iff; split; apply Z.leb_le; lia).
    f_equal. lia. }
  destruct (Z.ltb_spec m 10) as [Hlt|Hge].
  - exists 1. split; [lia|]. intros a. rewrite Hd, Z.mod_small by lia. f_equal. lia.
  - assert (Hm10 : 1 <= m / 10) by (apply Z.div_le_lower_bound; lia).
    assert (Hb : 0 <= m / 10 < 10 ^ Z.of_nat f).
    { split; [lia|]. apply Z.div_lt_upper_bound; [lia|].
      replace (Z.of_nat (S f)) with (Z.of_nat f + 1) in Hm by lia.
      rewrite Z.pow_add_r, Z.pow_1_r in Hm by lia. lia. }
    assert (Hf' : (1 <= f)%nat).
    { destruct f; [|lia]. change (Z.of_nat 0) with 0 in Hb. rewrite Z.pow_0_r in Hb. lia. }
    destruct (IH (m / 10) ((48 + m mod 10) :: acc) Hf' Hb) as [k [Hk He]].
    exists (k + 1). split; [lia|]. intros a. rewrite He, Hd. f_equal.
    rewrite Z.pow_add_r, Z.pow_1_r by lia.
    pose proof (Z.div_mod m 10 ltac:(lia)). lia.
Qed.

Lemma dec_fuel_head f : forall m acc, (1 <= f)%nat -> 0 <= m < 10 ^ Z.of_nat f ->
  exists c r, dec_fuel f m acc = c :: r /\ 48 <= c <= 57.
Proof.
  induction f as [|f IH]; intros m acc Hf Hm; [lia|].
  cbn [dec_fuel]. pose proof (Z.mod_pos_bound m 10 ltac:(lia)) as Hmod.
  destruct (Z.ltb_spec m 10) as [Hlt|Hge].
  - eexists; eexists; split; [reflexivity|lia].
  - assert (Hm10 : 1 <= m / 10) by (apply Z.div_le_lower_bound; lia).
    assert (Hb : 0 <= m / 10 < 10 ^ Z.of_nat f).
    { split; [lia|]. apply Z.div_lt_upper_bound; [lia|].
      replace (Z.of_nat (S f)) with (Z.of_nat f + 1) in Hm by lia.
      rewrite Z.pow_add_r, Z.pow_1_r in Hm by lia. lia. }
    assert (Hf' : (1 <= f)%nat).
    { destruct f; [|lia]. change (Z.of_nat 0) with 0 in Hb. rewrite Z.pow_0_r in Hb. lia. }
    apply IH; assumption.
Qed.

Lemma parse_dec_nat m : 0 <= m -> parse_nat_acc 0 (dec_nat m) = Some m.
Proof.
  intros Hm. unfold dec_nat.
  destruct (dec_fuel_parse (S (Z.to_nat (Z.log2 m))) m [] ltac:(lia) (dec_nat_fuel_ok m Hm)) as [k [_ He]].
  rewrite He. cbn. reflexivity.
Qed.

Theorem parse_int_dec n : parse_int (dec n) = Some n.
Proof.
  unfold dec. destruct (Z.ltb_spec n 0) as [Hneg|Hpos].
  - unfold parse_int. rewrite Z.eqb_refl.
    destruct (dec_fuel_head (S (Z.to_nat (Z.log2 (- n)))) (- n) [] ltac:(lia) (dec_nat_fuel_ok (- n) ltac:(lia))) as [c [r [He _]]].
    fold (dec_nat (- n)) in He. rewrite He, <- He.
    rewrite parse_dec_nat by lia. cbn. f_equal. lia.
  - destruct (dec_fuel_head (S (Z.to_nat (Z.log2 n))) n [] ltac:(lia) (dec_nat_fuel_ok n Hpos)) as [c [r [He Hc]]].
    fold (dec_nat n) in He. unfold parse_int. rewrite He.
    destruct (Z.eqb_spec c 45); [lia|]. rewrite <- He. apply parse_dec_nat, Hpos.
Qed.

(* ---------- the digit-matrix printer ---------- *)
Lemma width_exact_spec m : 0 <= m ->
  exists k : nat, (1 <= k)%nat /\ width_exact m = Z.of_nat k /\
    dec_nat m = map (digit m) (rev (arange_from 0 k)) /\
    10 ^ (Z.of_nat k - 1) <= Z.max m 1 /\ m < 10 ^ Z.of_nat k.
Proof.
  intros Hm. destruct (dec_nat_digits m Hm) as [k [Hk [He [Hlo Hhi]]]].
  exists k. split; [exact Hk|]. split; [|auto].
  unfold width_exact. rewrite He. apply len_map_rev_arange.
Qed.

(* with the true digit count as width, the printer is the canonical numeral *)
Lemma its_with_exact (wd : Z -> Z) (ab : Z -> Z) n :
  ab n = Z.abs n -> wd (Z.max (Z.abs n) 1) = width_exact (Z.max (Z.abs n) 1) ->
  its_with wd ab n = dec n.
Proof.
  intros Hab Hwd. unfold its_with. rewrite Hab, Hwd.
  set (a := Z.abs n).
  destruct (width_exact_spec (Z.max a 1) ltac:(lia)) as [k [Hk [Hw [He [Hlo Hhi]]]]].
  rewrite Hw.
  (* the digits of a and of max a 1 agree: they differ only for a = 0, where k = 1 *)
  assert (Hda : dec_nat a = map (digit a) (rev (arange_from 0 k))).
  { destruct (Z.eq_dec a 0) as [Ha0|Hane].
    - rewrite Ha0 in *. change (Z.max 0 1) with 1 in *.
      assert (k = 1%nat).
      { destruct k as [|[|k]]; [lia|reflexivity|].
        replace (Z.of_nat (S (S k)) - 1) with (Z.of_nat k + 1) in Hlo by lia.
        rewrite Z.pow_add_r, Z.pow_1_r in Hlo by lia.
        pose proof (Z.pow_pos_nonneg 10 (Z.of_nat k) ltac:(lia) ltac:(lia)). lia. }
      subst k. reflexivity.
    - replace (Z.max a 1) with a in He by lia. exact He. }
  unfold dec. destruct (Z.ltb_spec n 0) as [Hneg|Hpos].
  - replace (- n) with a by lia. rewrite Hda. f_equal.
    replace (Z.of_nat k + 1) with (Z.of_nat (S k)) by lia.
    unfold arange. rewrite Nat2Z.id, arange_from_snoc, rev_app_distr. cbn [rev app map tl].
    reflexivity.
  - replace n with a by lia. rewrite Hda. rewrite Z.add_0_r. unfold arange. rewrite Nat2Z.id. reflexivity.
Qed.

Theorem its_fixed_dec n : its_fixed n = dec n.
Proof. apply its_with_exact; reflexivity. Qed.

(* the code as it is: float log10 width and wrapping abs; correct below 10^15 - 2 *)
Lemma width_pinned_small m : 1 <= m < 10 ^ 15 - 2 -> width_pinned m = width_exact m.
Proof.
  intros Hm. unfold width_pinned.
  destruct (width_exact_spec m ltac:(lia)) as [k [Hk [Hw [_ [Hlo Hhi]]]]].
  rewrite Hw. replace (Z.max m 1) with m in Hlo by lia.
  assert (Hk15 : Z.of_nat k <= 15).
  { destruct (Z.le_gt_cases (Z.of_nat k) 15) as [H|H]; [exact H|].
    assert (10 ^ 15 <= 10 ^ (Z.of_nat k - 1)) by (apply Z.pow_le_mono_r; lia). lia. }
  destruct (Z.leb_spec (10 ^ Z.of_nat k - m) (log10_slack (Z.of_nat k))) as [Hle|Hgt]; [|reflexivity].
  exfalso. unfold log10_slack in Hle.
  destruct (Z.eqb_spec (Z.of_nat k) 15) as [E|E].
  - rewrite E in *. lia.
  - destruct (Z.eqb_spec (Z.of_nat k) 16); [lia|].
    destruct (Z.eqb_spec (Z.of_nat k) 17); [lia|].
    destruct (Z.eqb_spec (Z.of_nat k) 18); [lia|]. lia.
Qed.

Definition small_int (n : Z) : Prop := Z.abs n < 10 ^ 15 - 2.

Theorem its_pinned_dec_small n : small_int n -> its_pinned n = dec n.
Proof.
  unfold small_int. intros Hn. unfold its_pinned. apply its_with_exact.
  - unfold abs64. destruct (Z.eqb_spec n (- 2 ^ 63)) as [E|E]; [|reflexivity].
    rewrite E in Hn. cbn in Hn. lia.
  - destruct (Z.eq_dec (Z.abs n) 0) as [E|E].
    + rewrite E. reflexivity.
    + apply width_pinned_small. lia.
Qed.
(* whichever variant the switch [its] selects *)
Theorem its_dec_small n : small_int n -> its n = dec n.
Proof. first [ exact (its_pinned_dec_small n) | intros _; exact (its_fixed_dec n) ]. Qed.

(* the refuted corners of the code as it is *)
Lemma its_leading_zero : its_pinned (10 ^ 15 - 1) <> dec (10 ^ 15 - 1).
Proof. vm_compute. discriminate. Qed.
Lemma its_int64_min : its_pinned (- 2 ^ 63) = [45; 50] /\ dec (- 2 ^ 63) <> [45; 50].
Proof. split; vm_compute; [reflexivity|discriminate]. Qed.

(* ---------- cells ---------- *)
Lemma removelast_concat_sep (s : Z) (ts : list (list Z)) :
  removelast (concat (map (fun t => t ++ [s]) ts)) = intercalate [s] ts.
Proof.
  induction ts as [|t ts IH]; [reflexivity|].
  destruct ts as [|t' ts].
  - cbn. rewrite app_nil_r. apply removelast_last.
  - cbn [map concat]. rewrite removelast_app.
    + cbn [map concat] in IH. rewrite IH. cbn [intercalate]. rewrite <- app_assoc. reflexivity.
    + cbn. destruct t'; discriminate.
Qed.

Definition fld_small (f : fld) : Prop :=
  match f with FI n => small_int n | FL l => Forall small_int l | _ => True end.

Lemma col_text_with_print (it : Z -> list Z) (f : fld) :
  (forall n, match f with FI m => m = n | FL l => In n l | _ => False end -> it n = dec n) ->
  col_text_with it f = print_fld f.
Proof.
  intros H. destruct f as [s|n|l|q|t a b]; cbn [col_text_with print_fld]; try reflexivity.
  - apply H. reflexivity.
  - rewrite <- (map_map it (fun t => t ++ [44])). rewrite removelast_concat_sep. f_equal.
    apply map_ext_in. intros x Hx. apply H, Hx.
Qed.

Theorem col_text_print f : fld_small f -> col_text f = print_fld f.
Proof.
  intros Hf. apply col_text_with_print. intros n Hn. apply its_dec_small.
  destruct f; cbn in *; try contradiction.
  - subst. exact Hf.
  - rewrite Forall_forall in Hf. apply Hf, Hn.
Qed.
Theorem col_text_fixed_print f : col_text_with its_fixed f = print_fld f.
Proof. apply col_text_with_print. intros n _. apply its_fixed_dec. Qed.

(* Proofs/C17_chunks.v — the index built chunk by chunk (create_index) equals the index of the whole file *)
From Coq Require Import ZArith List Bool Lia.
From BNP Require Import Base.Prims Model.C17 Proofs.C17 Proofs.C17_index.
Import ListNotations.
Open Scope Z_scope.

Lemma spec_index_from_app eol : forall rs1 rs2 pos,
  spec_index_from pos eol (rs1 ++ rs2)
  = spec_index_from pos eol rs1 ++ spec_index_from (pos + len (layout eol rs1)) eol rs2.
Proof.
  induction rs1 as [|r rs1 IH]; intros rs2 pos.
  - cbn [app spec_index_from layout map concat]. change (len (@nil Z)) with 0. rewrite Z.add_0_r. reflexivity.
  - cbn [app spec_index_from]. f_equal. rewrite IH. f_equal. f_equal.
    unfold layout. cbn [map concat]. unfold len. rewrite app_length. lia.
Qed.

Lemma shift_spec_index eol off : forall rs pos,
  map (shift_idx off) (spec_index_from pos eol rs) = spec_index_from (pos + off) eol rs.
Proof.
  induction rs as [|r rs IH]; intros pos; cbn [spec_index_from map]; [reflexivity|].
  rewrite IH. f_equal.
  - unfold shift_idx, m_ci_shift. cbn [i_name i_rlen i_offset i_lenc i_lenb]. f_equal. lia.
  - f_equal. lia.
Qed.

(* the recursive reading of cumsum([0]+sizes) zipped with the chunks *)
Fixpoint index_chunks_from (off : Z) (chunks : list (list Z)) : list idx :=
  match chunks with
  | [] => []
  | c :: r => map (shift_idx off) (model_index c) ++ index_chunks_from (off + len c) r
  end.

Lemma chunks_cumsum : forall chunks acc,
  concat (map (fun p => map (shift_idx (snd p)) (model_index (fst p)))
              (combine chunks (acc :: cumsum_from acc (map len chunks))))
  = index_chunks_from acc chunks.
Proof.
  induction chunks as [|c r IH]; intros acc; [reflexivity|].
  cbn [map cumsum_from combine concat index_chunks_from fst snd]. f_equal. apply IH.
Qed.

Lemma model_index_chunks_rec chunks : model_index_chunks chunks = index_chunks_from 0 chunks.
Proof.
  unfold model_index_chunks, m_ci_offsets, cumsum. cbn [cumsum_from]. rewrite Z.add_0_r. apply chunks_cumsum.
Qed.

Lemma index_chunks_layout eol : eol_ok eol -> forall rss off, Forall (Forall rec_wf) rss ->
  index_chunks_from off (map (layout eol) rss) = spec_index_from off eol (concat rss).
Proof.
  intros He. induction rss as [|rs rss IH]; intros off Hwf; [reflexivity|].
  inversion Hwf as [|? ? Hrs Hrest]; subst.
  cbn [map index_chunks_from concat]. rewrite (model_index_layout eol rs He Hrs). unfold spec_index.
  rewrite shift_spec_index, spec_index_from_app. rewrite Z.add_0_l. f_equal. apply IH. exact Hrest.
Qed.

(* create_index: for every way the chunked reader groups the records of a file into chunks, the shifted per-chunk
   indices, concatenated, are the index of the whole file *)
Theorem model_index_chunks_layout eol rss : eol_ok eol -> Forall (Forall rec_wf) rss ->
  model_index_chunks (map (layout eol) rss) = spec_index eol (concat rss).
Proof.
  intros He Hwf. rewrite model_index_chunks_rec. apply index_chunks_layout; assumption.
Qed.

Lemma layout_concat eol rss : concat (map (layout eol) rss) = layout eol (concat rss).
Proof.
  unfold layout. induction rss as [|rs rss IH]; [reflexivity|].
  cbn [map concat]. rewrite IH, map_app, concat_app. reflexivity.
Qed.

Corollary model_index_chunks_whole eol rss : eol_ok eol -> Forall (Forall rec_wf) rss ->
  model_index_chunks (map (layout eol) rss) = model_index (concat (map (layout eol) rss)).
Proof.
  intros He Hwf. rewrite model_index_chunks_layout by assumption. rewrite layout_concat.
  symmetry. apply model_index_layout; [assumption|].
  apply Forall_concat. exact Hwf.
Qed.

(* the index depends on the records' shapes only *)
Lemma spec_index_shapes eol : forall rs pos,
  spec_index_from pos eol rs = spec_index_shapes_from pos (len eol) (map (shape_of eol) rs).
Proof.
  induction rs as [|r rs IH]; intros pos; [reflexivity|].
  cbn [map spec_index_from spec_index_shapes_from shape_of s_name s_len s_width s_bytes]. rewrite IH. reflexivity.
Qed.

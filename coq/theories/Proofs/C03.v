(* Proofs/C03.v — proofs for C03: the writer state machine (pieces = whole, header once). *)
From Coq Require Import ZArith List Bool Lia Arith.
From BNP Require Import Base.Prims Base.PrimsFacts Model.C03.
Import ListNotations.
Open Scope Z_scope.

Lemma serialise_app f a b : serialise f (a ++ b) = serialise f a ++ serialise f b.
Proof. unfold serialise. rewrite map_app, concat_app. reflexivity. Qed.
Lemma serialise_nil f : serialise f [] = [].
Proof. reflexivity. Qed.
Lemma serialise_concat f (cs : list (list row)) :
  serialise f (concat cs) = concat (map (serialise f) cs).
Proof.
  induction cs as [|c cs IH]; [reflexivity|].
  cbn [concat map]. rewrite serialise_app, IH. reflexivity.
Qed.

Lemma concat_filter_nonempty {A} (cs : list (list A)) : concat (filter nonempty cs) = concat cs.
Proof.
  induction cs as [|c cs IH]; [reflexivity|].
  destruct c; cbn [filter nonempty concat]; [exact IH|]. rewrite IH. reflexivity.
Qed.

Section Writer.
Variable f : fmt.
Variable header : list Z.
(* every non-empty table handed to from_data is serialised canonically (discharged per format by the
   theorems of Proofs/C03_*.v) *)
Definition canon_chunk (c : list row) : Prop := c <> [] -> from_data f c = (0, serialise f c).

Definition hdr_if (b : bool) : list Z := if b then header else [].

Lemma write_one_ok ab st c :
  w_err st = 0 -> canon_chunk c ->
  write_one f header ab st c =
  {| w_hw := w_hw st || (has_header f && negb ab);
     w_out := w_out st ++ hdr_if (has_header f && negb ab && negb (w_hw st)) ++ serialise f c;
     w_err := 0 |}.
Proof.
  intros He Hc. unfold write_one, m_emits_header. rewrite He. cbn [Z.eqb negb].
  destruct st as [hw out e]. cbn [w_hw w_out w_err] in *. subst e.
  destruct c as [|r c].
  - rewrite serialise_nil.
    destruct (has_header f && negb ab), hw; cbn [andb negb orb hdr_if w_hw w_out w_err];
      rewrite ?app_nil_r; reflexivity.
  - rewrite (Hc ltac:(discriminate)).
    destruct (has_header f && negb ab), hw; cbn [andb negb orb hdr_if w_hw w_out w_err];
      rewrite ?app_nil_l, ?app_assoc; reflexivity.
Qed.

Lemma write_chunks_ok ab cs : forall st,
  w_err st = 0 -> Forall canon_chunk cs ->
  fold_left (write_one f header ab) cs st =
  {| w_hw := w_hw st || (has_header f && negb ab && nonempty cs);
     w_out := w_out st ++ hdr_if (has_header f && negb ab && negb (w_hw st) && nonempty cs)
                    ++ serialise f (concat cs);
     w_err := 0 |}.
Proof.
  induction cs as [|c cs IH]; intros st He Hc.
  - cbn. rewrite !andb_false_r, orb_false_r. cbn. rewrite !app_nil_r. destruct st; cbn in *; subst; reflexivity.
  - inversion Hc as [|? ? Hc1 Hc2]; subst. cbn [fold_left].
    rewrite (write_one_ok ab st c He Hc1). rewrite IH; [|reflexivity|exact Hc2].
    cbn [w_hw w_out w_err nonempty concat]. rewrite serialise_app, !andb_true_r.
    f_equal.
    + destruct (w_hw st), (has_header f && negb ab), (nonempty cs); reflexivity.
    + rewrite <- !app_assoc. f_equal.
      destruct (w_hw st), (has_header f && negb ab), (nonempty cs); cbn; rewrite ?app_nil_r; reflexivity.
Qed.

Lemma write_calls_ok skip ab calls : forall st,
  w_err st = 0 -> Forall (fun c => Forall canon_chunk (c_chunks c)) calls ->
  fold_left (write_call skip f header ab) calls st =
  fold_left (write_one f header ab) (flat_map (chunks_seen skip) calls) st.
Proof.
  induction calls as [|c calls IH]; intros st He Hc; [reflexivity|].
  cbn [fold_left flat_map]. rewrite fold_left_app. unfold write_call at 2.
  inversion Hc as [|? ? Hc1 Hc2]; subst.
  assert (Hseen : Forall canon_chunk (chunks_seen skip c)).
  { unfold chunks_seen. destruct (c_stream c && skip); [|exact Hc1].
    rewrite Forall_forall in *. intros x Hx. apply filter_In in Hx. apply Hc1, Hx. }
  rewrite (write_chunks_ok ab _ st He Hseen).
  apply IH; [reflexivity|exact Hc2].
Qed.

Lemma Forall_seen skip calls :
  Forall (fun c => Forall canon_chunk (c_chunks c)) calls ->
  Forall canon_chunk (flat_map (chunks_seen skip) calls).
Proof.
  intros H. rewrite Forall_forall in *. intros x Hx. apply in_flat_map in Hx.
  destruct Hx as [c [Hc Hx]]. specialize (H c Hc). rewrite Forall_forall in H. apply H.
  unfold chunks_seen in Hx. destruct (c_stream c && skip); [|exact Hx]. apply filter_In in Hx. apply Hx.
Qed.

Lemma concat_seen skip calls :
  concat (flat_map (chunks_seen skip) calls) = concat (map rows_of_call calls).
Proof.
  induction calls as [|c calls IH]; [reflexivity|].
  cbn [flat_map map concat]. rewrite concat_app, IH. f_equal.
  unfold chunks_seen, rows_of_call. destruct (c_stream c && skip); [apply concat_filter_nonempty|reflexivity].
Qed.

(* one session, started on [content] *)
Lemma run_session_ok is_ab skip gz content s :
  Forall (fun c => Forall canon_chunk (c_chunks c)) (s_calls s) ->
  run_session is_ab skip f header gz (0, content) s =
  (0, (if s_append s then content else [])
      ++ hdr_if (has_header f && negb (is_ab (s_append s) gz) && nonempty (flat_map (chunks_seen skip) (s_calls s)))
      ++ serialise f (rows_of_session s)).
Proof.
  intros Hc. unfold run_session. cbn [Z.eqb negb].
  rewrite write_calls_ok; [|reflexivity|exact Hc].
  rewrite write_chunks_ok; [|reflexivity|apply Forall_seen, Hc].
  cbn [w_err w_out w_hw negb]. rewrite andb_true_r, concat_seen. reflexivity.
Qed.
End Writer.

(* ---------- whole histories ---------- *)
Definition canon_hist (f : fmt) (h : list session) : Prop :=
  Forall (fun s => Forall (fun c => Forall (canon_chunk f) (c_chunks c)) (s_calls s)) h.
(* only the first session may create the file *)
Definition tail_appends (h : list session) : Prop :=
  match h with [] => True | _ :: t => Forall (fun s => s_append s = true) t end.

Lemma rows_of_hist_cons s h : rows_of_hist (s :: h) = rows_of_session s ++ rows_of_hist h.
Proof. reflexivity. Qed.

Lemma hdr_if_false header : hdr_if header false = [].
Proof. reflexivity. Qed.

Section Hist.
Variable is_ab : bool -> bool -> bool.
Variable skip : bool.
Variable f : fmt.
Variable header : list Z.
Variable gz : bool.
Hypothesis Happ : header = [] \/ has_header f = false \/ is_ab true gz = true.

Lemma hdr_append b : hdr_if header (has_header f && negb (is_ab true gz) && b) = [].
Proof.
  destruct Happ as [H|[H|H]]; rewrite H.
  - destruct (_ && _); reflexivity.
  - reflexivity.
  - cbn. rewrite andb_false_r. reflexivity.
Qed.

Lemma run_appends t : forall content,
  canon_hist f t -> Forall (fun s => s_append s = true) t ->
  fold_left (run_session is_ab skip f header gz) t (0, content) = (0, content ++ serialise f (rows_of_hist t)).
Proof.
  induction t as [|s t IH]; intros content Hc Ha.
  - cbn. rewrite app_nil_r. reflexivity.
  - inversion Hc as [|? ? Hc1 Hc2]; subst. inversion Ha as [|? ? Ha1 Ha2]; subst.
    cbn [fold_left]. rewrite (run_session_ok f header is_ab skip gz content s Hc1).
    rewrite Ha1, hdr_append, app_nil_l.
    rewrite (IH _ Hc2 Ha2). rewrite rows_of_hist_cons, serialise_app, app_assoc. reflexivity.
Qed.

Theorem write_hist_generic h :
  canon_hist f h -> tail_appends h ->
  (header = [] \/ has_header f = true) ->
  is_ab false gz = false ->
  match h with
  | s :: _ => s_append s = true \/
              nonempty (flat_map (chunks_seen skip) (s_calls s)) = existsb (fun c => nonempty (c_chunks c)) (s_calls s)
  | [] => True
  end ->
  run_hist_with is_ab skip f header gz h = (0, spec_file f header h).
Proof.
  intros Hc Ht Hh Hw Hfirst. unfold run_hist_with, spec_file.
  destruct h as [|s t]; [reflexivity|].
  inversion Hc as [|? ? Hc1 Hc2]; subst. cbn in Ht.
  cbn [fold_left]. rewrite (run_session_ok f header is_ab skip gz [] s Hc1).
  rewrite (run_appends t _ Hc2 Ht).
  rewrite rows_of_hist_cons, serialise_app. cbn [spec_header].
  destruct (s_append s) eqn:Ea.
  - rewrite hdr_append. cbn. reflexivity.
  - rewrite Hw. cbn [negb andb]. rewrite andb_true_r.
    destruct Hfirst as [Hf|Hf]; [discriminate|]. rewrite Hf.
    change (fun c : call => match c_chunks c with [] => false | _ :: _ => true end)
      with (fun c : call => nonempty (c_chunks c)).
    destruct (existsb (fun c => nonempty (c_chunks c)) (s_calls s)).
    + destruct Hh as [Hh|Hh]; rewrite Hh.
      * destruct (has_header f && true); cbn; rewrite <- ?app_assoc; reflexivity.
      * cbn. rewrite <- ?app_assoc. reflexivity.
    + rewrite andb_false_r. cbn. rewrite <- ?app_assoc. reflexivity.
Qed.
End Hist.

Lemma seen_noskip calls :
  nonempty (flat_map (chunks_seen false) calls) = existsb (fun c => nonempty (c_chunks c)) calls.
Proof.
  induction calls as [|c calls IH]; [reflexivity|].
  cbn [flat_map existsb]. unfold chunks_seen at 1. rewrite andb_false_r.
  destruct (c_chunks c) as [|x xs]; [exact IH|reflexivity].
Qed.

(* the repaired writer: every history, plain or gzip *)
Theorem write_pieces_fixed f header gz h :
  canon_hist f h -> tail_appends h -> (header = [] \/ has_header f = true) ->
  run_hist_fixed f header gz h = (0, spec_file f header h).
Proof.
  intros Hc Ht Hh. apply write_hist_generic; try assumption.
  - right; right; reflexivity.
  - reflexivity.
  - destruct h as [|s t]; [exact I|]. right. apply seen_noskip.
Qed.

(* the writer as it is: the same, except for gzip targets that are appended to and for streams that
   consist of empty chunks only *)
Definition first_session_sees (s : session) : Prop :=
  s_append s = true
  \/ (forall c, In c (s_calls s) -> c_chunks c = [])
  \/ (exists c, In c (s_calls s) /\
        ((c_stream c = false /\ c_chunks c <> []) \/ (exists ch, In ch (c_chunks c) /\ ch <> []))).

Lemma nonempty_true_iff {A} (l : list A) : nonempty l = true <-> l <> [].
Proof. destruct l; cbn; split; congruence. Qed.

Lemma seen_skip_guard calls :
  (forall c, In c calls -> c_chunks c = [])
  \/ (exists c, In c calls /\
        ((c_stream c = false /\ c_chunks c <> []) \/ (exists ch, In ch (c_chunks c) /\ ch <> []))) ->
  nonempty (flat_map (chunks_seen true) calls) = existsb (fun c => nonempty (c_chunks c)) calls.
Proof.
  intros [Hall|[c [Hin Hc]]].
  - assert (E1 : flat_map (chunks_seen true) calls = []).
    { induction calls as [|c calls IH]; [reflexivity|]. cbn [flat_map].
      rewrite IH by (intros; apply Hall; right; assumption).
      unfold chunks_seen. rewrite (Hall c (or_introl eq_refl)). destruct (c_stream c && true); reflexivity. }
    rewrite E1. cbn. symmetry. apply not_true_is_false. intros E. apply existsb_exists in E.
    destruct E as [c [Hc Hn]]. rewrite (Hall c Hc) in Hn. discriminate.
  - assert (E1 : nonempty (flat_map (chunks_seen true) calls) = true).
    { apply nonempty_true_iff. intros E.
      assert (Hsub : forall x, In x (chunks_seen true c) -> False).
      { intros x Hx. assert (In x (flat_map (chunks_seen true) calls)) by (apply in_flat_map; eauto).
        rewrite E in H. exact H. }
      unfold chunks_seen in Hsub. destruct Hc as [[Hs Hne]|[ch [Hch Hne]]].
      - rewrite Hs in Hsub. cbn in Hsub. destruct (c_chunks c) as [|x xs]; [congruence|]. apply (Hsub x). left; reflexivity.
      - destruct (c_stream c && true).
        + apply (Hsub ch). apply filter_In. split; [exact Hch|]. apply nonempty_true_iff, Hne.
        + apply (Hsub ch), Hch. }
    rewrite E1. symmetry. apply existsb_exists. exists c. split; [exact Hin|].
    apply nonempty_true_iff. destruct Hc as [[_ Hne]|[ch [Hch _]]]; [exact Hne|]. intros E; rewrite E in Hch; exact Hch.
Qed.

Theorem write_pieces_partial f header gz h :
  canon_hist f h -> tail_appends h -> (header = [] \/ has_header f = true) ->
  (gz = false \/ header = []) ->
  match h with s :: _ => first_session_sees s | [] => True end ->
  run_hist_pinned f header gz h = (0, spec_file f header h).
Proof.
  intros Hc Ht Hh Hgz Hfirst. apply write_hist_generic; try assumption.
  - destruct Hgz as [Hg|Hg]; [right; right; rewrite Hg; reflexivity|left; exact Hg].
  - reflexivity.
  - destruct h as [|s t]; [exact I|]. destruct Hfirst as [Ha|Hs]; [left; exact Ha|right].
    apply seen_skip_guard, Hs.
Qed.

(* the same for whichever writer the switch [run_hist] selects *)
Theorem write_pieces_current f header gz h :
  canon_hist f h -> tail_appends h -> (header = [] \/ has_header f = true) ->
  (gz = false \/ header = []) ->
  match h with s :: _ => first_session_sees s | [] => True end ->
  run_hist f header gz h = (0, spec_file f header h).
Proof.
  intros Hc Ht Hh Hgz Hfirst. unfold run_hist.
  first [ unfold run_hist_pinned | unfold run_hist_fixed | idtac ].
  apply write_hist_generic; try assumption.
  - destruct Hgz as [Hg|Hg]; [right; right; first [reflexivity | rewrite Hg; reflexivity]|left; exact Hg].
  - reflexivity.
  - destruct h as [|s t]; [exact I|]. destruct Hfirst as [Ha|Hs]; [left; exact Ha|right].
    first [ apply seen_skip_guard, Hs | apply seen_noskip ].
Qed.

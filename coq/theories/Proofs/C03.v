(* Proofs/C03.v — proofs for C03 (writer). *)
From Coq Require Import ZArith List Bool Lia Arith.
From BNP Require Import Base.Prims Base.PrimsFacts Model.C03.
Import ListNotations.
Open Scope Z_scope.

Lemma serialise_app f a b : serialise f (a ++ b) = serialise f a ++ serialise f b.
Proof. unfold serialise. rewrite map_app, concat_app. reflexivity. Qed.

(* Proofs/C17_e2e.v — the index the library builds from a file, used to fetch from the same file *)
From Coq Require Import ZArith List Bool Lia.
From BNP Require Import Base.Prims Model.C17 Proofs.C17 Proofs.C17_index.
Import ListNotations.
Open Scope Z_scope.

Theorem built_index_fetches eol fill rs k r :
  eol_ok eol -> Forall rec_wf rs -> nth_error rs k = Some r ->
  exists ix, nth_error (model_index (layout eol rs)) k = Some ix
    /\ i_name ix = r_name r /\ contig_length ix = len (r_seq r)
    /\ fetch_contig fill ix (layout eol rs) = r_seq r
    /\ (eol = [10] -> forall a b, 0 <= a -> a <= b -> b <= len (r_seq r) ->
          fetch_interval ix (layout eol rs) a b = slice a b (r_seq r)).
Proof.
  intros He Hwf Hk.
  assert (Hok : rec_ok r).
  { pose proof (proj1 (Forall_forall _ _) Hwf r (nth_error_In _ _ Hk)) as (H1 & H2 & _). split; assumption. }
  destruct (spec_index_nth eol fill rs [] k r Hk Hok) as (ix & Hn & Hl & Hnm & Hc & Hi).
  exists ix. rewrite (model_index_layout eol rs He Hwf). unfold spec_index.
  change (len (@nil Z)) with 0 in Hn. cbn [app] in Hc, Hi.
  repeat split; try assumption.
Qed.

Lemma model_index_length eol rs : eol_ok eol -> Forall rec_wf rs ->
  length (model_index (layout eol rs)) = length rs.
Proof.
  intros He Hwf. rewrite (model_index_layout eol rs He Hwf). unfold spec_index.
  generalize 0. induction rs as [|r rs IH]; intros p; cbn [spec_index_from length]; [reflexivity|].
  inversion Hwf; subst. rewrite IH by assumption. reflexivity.
Qed.

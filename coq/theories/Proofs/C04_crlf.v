(* Proofs/C04_crlf.v — T1 for tab-delimited files with LF or CRLF line ends under the REPAIRED extractor
   (from_delimited_gen true = DelimitedBuffer._get_buffer_extractor after fix-1): the extractor built from the layout of
   ANY >= 1 records (k >= 1 clean columns each, all LF or all CRLF) is well-formed, contiguous, and has the records'
   abstraction — a record includes its whole line terminator, a last field excludes the CR. *)
From Coq Require Import ZArith List Bool Lia.
From BNP Require Import Base.Prims Base.PrimsFacts Model.C04 Proofs.C04 Proofs.C04_raw Proofs.C04_lines Proofs.C04_sam.
Import ListNotations.
Open Scope Z_scope.

(* a CRLF record as a line: the CR belongs to the (written) last column *)
Definition add_cr (cols : list (list Z)) : list (list Z) := removelast cols ++ [last cols [] ++ [CR]].

Lemma intercalate_snoc sep (cols : list (list Z)) x : cols <> [] ->
  intercalate sep (removelast cols ++ [last cols [] ++ x]) = intercalate sep cols ++ x.
Proof.
  induction cols as [|c cols IH]; intros Hn; [congruence|].
  destruct cols as [|c' r]; [reflexivity|].
  change (removelast (c :: c' :: r)) with (c :: removelast (c' :: r)).
  change (last (c :: c' :: r) []) with (last (c' :: r) []).
  change ((c :: removelast (c' :: r)) ++ [last (c' :: r) [] ++ x]) with (c :: (removelast (c' :: r) ++ [last (c' :: r) [] ++ x])).
  specialize (IH ltac:(discriminate)).
  destruct (removelast (c' :: r) ++ [last (c' :: r) [] ++ x]) as [|d ds] eqn:E.
  - destruct (removelast (c' :: r)); discriminate.
  - rewrite intercalate_cons2, IH, intercalate_cons2, <- !app_assoc. reflexivity.
Qed.

Lemma intercalate_add_cr cols : cols <> [] -> intercalate [TAB] (add_cr cols) = intercalate [TAB] cols ++ [CR].
Proof. intros H. unfold add_cr. apply intercalate_snoc; auto. Qed.

Lemma lrawL_add_cr cols : cols <> [] -> lrawL (add_cr cols) = intercalate [TAB] cols ++ [CR; LF].
Proof. intros H. unfold lrawL, add_cr. rewrite intercalate_snoc by auto. rewrite <- app_assoc. reflexivity. Qed.

Lemma add_cr_length cols : cols <> [] -> length (add_cr cols) = length cols.
Proof.
  intros H. unfold add_cr. rewrite app_length. simpl.
  rewrite (app_removelast_last [] H) at 2. rewrite app_length. simpl. lia.
Qed.

Lemma add_cr_line_ok cols : cols <> [] -> Forall clean cols -> line_ok (add_cr cols).
Proof.
  intros Hn Hc. split.
  - unfold add_cr. destruct (removelast cols); discriminate.
  - unfold add_cr. apply Forall_app. split.
    + assert (Forall clean (removelast cols)).
      { rewrite (app_removelast_last [] Hn) in Hc. apply Forall_app in Hc. tauto. }
      eapply Forall_impl; [|exact H]. intros c Hcc. eapply Forall_impl; [|exact Hcc]. intros b (A & B & _); auto.
    + constructor; [|constructor]. apply Forall_app. split.
      * assert (clean (last cols [])).
        { rewrite Forall_forall in Hc. apply Hc. rewrite (app_removelast_last [] Hn) at 2. apply in_or_app. right. left. reflexivity. }
        eapply Forall_impl; [|exact H]. intros b (A & B & _); auto.
      * constructor; [unfold CR, TAB, LF; lia|constructor].
Qed.

(* column starts do not depend on the last column's length *)
Lemma col_offsets_fst_add_cr cols : forall pos, cols <> [] ->
  map fst (col_offsets pos (add_cr cols)) = map fst (col_offsets pos cols).
Proof.
  induction cols as [|c cols IH]; intros pos Hn; [congruence|].
  destruct cols as [|c' r]; [reflexivity|].
  unfold add_cr in *. change (removelast (c :: c' :: r)) with (c :: removelast (c' :: r)).
  change (last (c :: c' :: r) []) with (last (c' :: r) []).
  simpl. f_equal. apply (IH (pos + len c + 1)). discriminate.
Qed.

Lemma last_map_snd_add_cr cols : forall pos, cols <> [] ->
  map snd (col_offsets pos (add_cr cols)) = removelast (map snd (col_offsets pos cols)) ++ [last0 (map snd (col_offsets pos cols)) + 1].
Proof.
  induction cols as [|c cols IH]; intros pos Hn; [congruence|].
  destruct cols as [|c' r].
  - unfold add_cr. simpl. rewrite len_app. reflexivity.
  - unfold add_cr in *. change (removelast (c :: c' :: r)) with (c :: removelast (c' :: r)).
    change (last (c :: c' :: r) []) with (last (c' :: r) []).
    specialize (IH (pos + len c + 1) ltac:(discriminate)).
    change (col_offsets pos ((c :: removelast (c' :: r)) ++ [last (c' :: r) [] ++ [CR]]))
      with ((pos, len c) :: col_offsets (pos + len c + 1) (removelast (c' :: r) ++ [last (c' :: r) [] ++ [CR]])).
    change (col_offsets pos (c :: c' :: r)) with ((pos, len c) :: col_offsets (pos + len c + 1) (c' :: r)).
    rewrite !map_cons, IH. cbn [snd].
    set (M := map snd (col_offsets (pos + len c + 1) (c' :: r))).
    assert (HM : M <> []) by (unfold M; simpl; discriminate).
    destruct M as [|m M'] eqn:EM; [congruence|].
    unfold last0. reflexivity.
Qed.

(* ---- the delimited pipeline on uniform-width lines, with the carriage-return adjustment left symbolic ---- *)
Definition delim_pre (fixed : bool) (L : list (list (list Z))) : ext :=
  let data := concat (map lrawL L) in
  let starts := map (map fst) (offs_tbl 0 L) in
  let en := blocksL 0 L in
  let ends := modify_cr_last data en in
  {| x_data := data; x_fs := starts; x_fl := zip_with vsub ends starts; x_es := map hd0 starts;
     x_ee := map (fun r => last0 r + 1) (if fixed then en else ends); x_contig := true |}.

Lemma length_removelast'' {A} (l : list A) : length (removelast l) = (length l - 1)%nat.
Proof. induction l as [|a l IH]; [reflexivity|]. destruct l; [reflexivity|]. simpl in *. rewrite IH. lia. Qed.

Lemma blocksL_width k L : forall pos, Forall (fun cols : list (list Z) => length cols = k) L ->
  Forall (fun b => length b = k) (blocksL pos L).
Proof. induction L; intros pos H; simpl; constructor; inversion H; subst; [rewrite length_delims_rec; auto|auto]. Qed.
Lemma sblocksL_width k L : forall prev pos, (1 <= k)%nat -> Forall (fun cols : list (list Z) => length cols = k) L ->
  Forall (fun b => length b = k) (sblocksL prev pos L).
Proof.
  induction L as [|cols L IH]; intros prev pos Hk H; simpl; constructor; inversion H; subst; auto.
  simpl. rewrite length_removelast''. rewrite length_delims_rec. lia.
Qed.

Lemma from_delimited_lines k L fixed : (1 <= k)%nat -> L <> [] -> Forall line_ok L ->
  Forall (fun cols : list (list Z) => length cols = k) L ->
  from_delimited_gen fixed (concat (map lrawL L)) = Some (delim_pre fixed L).
Proof.
  intros Hk Hn HL HW.
  destruct (table_prefix L Hn HL) as (HD & HE & HF & HC). cbv zeta in *.
  unfold from_delimited_gen. cbv zeta. rewrite HF, HC. rewrite HE at 1.
  destruct L as [|c L']; [congruence|].
  change (ends_idxL 0 (c :: L')) with ((0 + len c - 1) :: ends_idxL (0 + len c) L') at 1. cbv iota.
  assert (Hc : len c = Z.of_nat k) by (inversion HW; subst; reflexivity).
  replace (0 + len c - 1 + 1) with (Z.of_nat k) by lia.
  remember (c :: L') as LL eqn:ELL.
  rewrite HD. cbn [tl]. rewrite removelast_blocksL by auto.
  rewrite reshape_concat by (auto; apply sblocksL_width; auto).
  rewrite reshape_concat by (auto; apply blocksL_width; auto).
  pose proof (sblocks_offs LL 0 HL) as Hso. change (0 - 1) with (-1) in Hso. rewrite Hso.
  unfold delim_pre. destruct fixed; reflexivity.
Qed.

(* ---- generic rows: a list of (raw bytes, columns) laid out one after the other ---- *)
Definition growi (pos : Z) (it : list Z * list (list Z)) : xrow :=
  {| r_s := pos; r_e := pos + len (fst it);
     r_fs := map fst (col_offsets pos (snd it)); r_fl := map snd (col_offsets pos (snd it)) |}.
Fixpoint grows (pos : Z) (its : list (list Z * list (list Z))) : list xrow :=
  match its with [] => [] | it :: rest => growi pos it :: grows (pos + len (fst it)) rest end.
Definition gvi (it : list Z * list (list Z)) : arow := {| a_rec := fst it; a_rel := col_offsets 0 (snd it) |}.

Lemma view_grows its : forall (pre post : list Z),
  map (arow_of (pre ++ concat (map fst its) ++ post)) (grows (len pre) its) = map gvi its.
Proof.
  induction its as [|it its IH]; intros pre post; [reflexivity|].
  change (grows (len pre) (it :: its)) with (growi (len pre) it :: grows (len pre + len (fst it)) its).
  rewrite !map_cons. f_equal.
  - unfold arow_of, growi, gvi; cbn [r_s r_e r_fs r_fl]. f_equal.
    + rewrite concat_cons, <- app_assoc. pose proof (len_nonneg (fst it)).
      replace (len pre) with (len pre + 0) at 1 by lia. rewrite slice_mid by lia. apply slice_full; lia.
    + apply col_offsets_shift.
  - specialize (IH (pre ++ fst it) post). rewrite len_app in IH. rewrite <- IH.
    rewrite concat_cons, <- !app_assoc. reflexivity.
Qed.

Lemma grows_ok its : forall pos total,
  Forall (fun it => sumZ (map (fun c => len c + 1) (snd it)) <= len (fst it)) its ->
  0 <= pos -> pos + len (concat (map fst its)) <= total -> Forall (row_ok total) (grows pos its).
Proof.
  induction its as [|it its IH]; intros pos total H Hp Ht; [constructor|].
  inversion H as [|? ? Hit Hits]; subst.
  change (grows pos (it :: its)) with (growi pos it :: grows (pos + len (fst it)) its).
  rewrite map_cons, concat_cons, len_app in Ht.
  pose proof (len_nonneg (fst it)). pose proof (len_nonneg (concat (map fst its))).
  constructor.
  - unfold row_ok, growi; cbn [r_s r_e r_fs r_fl]. repeat split; try lia.
    + rewrite !map_length. reflexivity.
    + rewrite combine_fst_snd. pose proof (col_offsets_ok (snd it) pos) as G.
      eapply Forall_impl; [|exact G]. simpl. intros al (A & B & C). lia.
  - apply (IH (pos + len (fst it)) total); auto; lia.
Qed.

Lemma length_grows its : forall pos, length (grows pos its) = length its.
Proof. induction its; intros; simpl; auto. Qed.

(* ---- CRLF ---- *)
Lemma nthZ_mid (a b : list Z) x : nthZ (a ++ x :: b) (len a) = x.
Proof. unfold nthZ, len. rewrite Nat2Z.id. rewrite app_nth2 by lia. rewrite Nat.sub_diag. reflexivity. Qed.

Lemma cr_before_rows L0 : forall (pre post : list Z), Forall (fun c => c <> []) L0 ->
  Forall (fun r => nthZ (pre ++ concat (map lrawL (map add_cr L0)) ++ post) (last0 r - 1) = CR)
         (blocksL (len pre) (map add_cr L0)).
Proof.
  induction L0 as [|c0 L0 IH]; intros pre post H; [constructor|].
  inversion H as [|? ? Hc HL]; subst.
  change (map add_cr (c0 :: L0)) with (add_cr c0 :: map add_cr L0).
  change (blocksL (len pre) (add_cr c0 :: map add_cr L0))
    with (delims_rec (len pre) (add_cr c0) :: blocksL (len pre + len (lrawL (add_cr c0))) (map add_cr L0)).
  constructor.
  - unfold last0. rewrite last_delims_rec by (unfold add_cr; destruct (removelast c0); discriminate).
    rewrite intercalate_add_cr by auto. rewrite len_app. change (len [CR]) with 1.
    replace (len pre + (len (intercalate [TAB] c0) + 1) - 1) with (len (pre ++ intercalate [TAB] c0)) by (rewrite len_app; lia).
    rewrite map_cons, concat_cons, lrawL_add_cr by auto. rewrite <- !app_assoc.
    rewrite (app_assoc pre). apply nthZ_mid.
  - specialize (IH (pre ++ lrawL (add_cr c0)) post HL). rewrite len_app in IH.
    rewrite map_cons, concat_cons, <- !app_assoc. rewrite <- !app_assoc in IH. exact IH.
Qed.

Definition adj (r : list Z) : list Z := removelast r ++ [last0 r - 1].

Lemma modify_cr_crlf L0 : L0 <> [] -> Forall (fun c => c <> []) L0 ->
  modify_cr_last (concat (map lrawL (map add_cr L0))) (blocksL 0 (map add_cr L0)) = map adj (blocksL 0 (map add_cr L0)).
Proof.
  intros Hn H. pose proof (cr_before_rows L0 [] [] H) as G. change (len (@nil Z)) with 0 in G.
  change ([] ++ concat (map lrawL (map add_cr L0)) ++ []) with (concat (map lrawL (map add_cr L0)) ++ []) in G. rewrite app_nil_r in G.
  set (data := concat (map lrawL (map add_cr L0))) in *.
  unfold modify_cr_last. destruct L0 as [|c0 L0']; [congruence|].
  change (blocksL 0 (map add_cr (c0 :: L0'))) with (delims_rec 0 (add_cr c0) :: blocksL (0 + len (lrawL (add_cr c0))) (map add_cr L0')) in *.
  inversion H as [|? ? Hc0 _]; subst.
  assert (Hlast : 1 <= last0 (delims_rec 0 (add_cr c0))).
  { unfold last0. rewrite last_delims_rec by (unfold add_cr; destruct (removelast c0); discriminate).
    rewrite intercalate_add_cr by auto. rewrite len_app. change (len [CR]) with 1.
    pose proof (len_nonneg (intercalate [TAB] c0)). lia. }
  assert (Hlen : 1 <= len data).
  { unfold data. rewrite map_cons, map_cons, concat_cons, len_app, len_lrawL.
    pose proof (len_nonneg (intercalate [TAB] (add_cr c0))). pose proof (len_nonneg (concat (map lrawL (map add_cr L0')))). lia. }
  destruct (Z.eqb_spec (len data) 0); [lia|]. destruct (Z.eqb_spec (last0 (delims_rec 0 (add_cr c0))) 0); [lia|]. simpl orb.
  inversion G as [|? ? G0 G']; subst. rewrite G0. rewrite Z.eqb_refl.
  apply map_ext_Forall. eapply Forall_impl; [|exact G]. intros r Hr. unfold adj, is_cr_before. rewrite Hr, Z.eqb_refl. reflexivity.
Qed.

Lemma vsub_adj D : forall S, length D = length S -> D <> [] ->
  vsub (adj D) S = removelast (vsub D S) ++ [last0 (vsub D S) - 1].
Proof.
  unfold vsub, adj, last0. induction D as [|d D IH]; intros [|s S] HL Hn; simpl in *; try congruence.
  destruct D as [|d' D']; destruct S as [|s' S']; simpl in *; try discriminate.
  - f_equal. lia.
  - f_equal. apply (IH (s' :: S')); [simpl; lia|discriminate].
Qed.

Lemma fl_crlf cols pos : cols <> [] ->
  vsub (adj (delims_rec pos (add_cr cols))) (map fst (col_offsets pos (add_cr cols))) = map snd (col_offsets pos cols).
Proof.
  intros Hn.
  assert (Hw : add_cr cols <> []) by (unfold add_cr; destruct (removelast cols); discriminate).
  rewrite vsub_adj.
  - rewrite lens_offsets. rewrite last_map_snd_add_cr by auto.
    set (M := map snd (col_offsets pos cols)).
    assert (HM : M <> []) by (unfold M; destruct cols; [congruence|discriminate]).
    rewrite removelast_last. unfold last0. rewrite last_last.
    replace (last M 0 + 1 - 1) with (last M 0) by lia. symmetry. apply app_removelast_last. exact HM.
  - rewrite length_delims_rec, map_length, length_col_offsets. reflexivity.
  - apply delims_rec_ne. exact Hw.
Qed.

Definition cr_item (c0 : list (list Z)) : list Z * list (list Z) := (lrawL (add_cr c0), c0).

Lemma rows_crlf L0 : forall pos, Forall (fun c => c <> []) L0 ->
  let L := map add_cr L0 in
  let S := map (map fst) (offs_tbl pos L) in
  zip4 (map hd0 S) (map (fun r => last0 r + 1) (blocksL pos L)) S (zip_with vsub (map adj (blocksL pos L)) S)
  = grows pos (map cr_item L0).
Proof.
  induction L0 as [|c0 L0 IH]; intros pos H; [reflexivity|].
  inversion H as [|? ? Hc HL]; subst. cbv zeta in *.
  assert (Hw : add_cr c0 <> []) by (unfold add_cr; destruct (removelast c0); discriminate).
  change (map add_cr (c0 :: L0)) with (add_cr c0 :: map add_cr L0).
  change (offs_tbl pos (add_cr c0 :: map add_cr L0)) with (col_offsets pos (add_cr c0) :: offs_tbl (pos + len (lrawL (add_cr c0))) (map add_cr L0)).
  change (blocksL pos (add_cr c0 :: map add_cr L0)) with (delims_rec pos (add_cr c0) :: blocksL (pos + len (lrawL (add_cr c0))) (map add_cr L0)).
  specialize (IH (pos + len (lrawL (add_cr c0))) HL).
  rewrite (map_cons (map (@fst Z Z))), (map_cons adj), (map_cons hd0), (map_cons (fun r : list Z => last0 r + 1)).
  set (ST := map (map fst) (offs_tbl (pos + len (lrawL (add_cr c0))) (map add_cr L0))) in *.
  set (BB := blocksL (pos + len (lrawL (add_cr c0))) (map add_cr L0)) in *.
  change (zip_with vsub (adj (delims_rec pos (add_cr c0)) :: map adj BB) (map fst (col_offsets pos (add_cr c0)) :: ST))
    with (vsub (adj (delims_rec pos (add_cr c0))) (map fst (col_offsets pos (add_cr c0))) :: zip_with vsub (map adj BB) ST).
  rewrite fl_crlf by auto. rewrite col_offsets_fst_add_cr by auto.
  change (map cr_item (c0 :: L0)) with (cr_item c0 :: map cr_item L0).
  change (grows pos (cr_item c0 :: map cr_item L0)) with (growi pos (cr_item c0) :: grows (pos + len (fst (cr_item c0))) (map cr_item L0)).
  change (fst (cr_item c0)) with (lrawL (add_cr c0)). rewrite <- IH.
  assert (Hh : hd0 (map fst (col_offsets pos c0)) = pos) by (destruct c0; [congruence|reflexivity]).
  assert (Hl : last0 (delims_rec pos (add_cr c0)) + 1 = pos + len (lrawL (add_cr c0))).
  { unfold last0. rewrite last_delims_rec by auto. rewrite len_lrawL. lia. }
  rewrite Hh, Hl. reflexivity.
Qed.

Definition crlf_expected (L0 : list (list (list Z))) : ext := delim_pre true (map add_cr L0).

Lemma rows_crlf_expected L0 : L0 <> [] -> Forall (fun c => c <> []) L0 ->
  rows (crlf_expected L0) = grows 0 (map cr_item L0).
Proof.
  intros Hn H. unfold rows, crlf_expected, delim_pre. cbn [x_es x_ee x_fs x_fl].
  rewrite modify_cr_crlf by auto. apply (rows_crlf L0 0 H).
Qed.

Lemma concat_cr_items L0 : concat (map fst (map cr_item L0)) = concat (map lrawL (map add_cr L0)).
Proof. rewrite !map_map. reflexivity. Qed.

Lemma view_crlf_expected L0 : L0 <> [] -> Forall (fun c => c <> []) L0 ->
  view (crlf_expected L0) = map gvi (map cr_item L0).
Proof.
  intros Hn H. unfold view. rewrite rows_crlf_expected by auto.
  change (x_data (crlf_expected L0)) with (concat (map lrawL (map add_cr L0))). rewrite <- concat_cr_items.
  pose proof (view_grows (map cr_item L0) [] []) as G. simpl in G. rewrite app_nil_r in G. exact G.
Qed.

Lemma Inv_crlf_expected L0 : L0 <> [] -> Forall (fun c => c <> []) L0 -> Inv (crlf_expected L0).
Proof.
  intros Hn H. split; [|split].
  - unfold shape_ok, crlf_expected, delim_pre; cbn [x_es x_ee x_fs x_fl].
    rewrite modify_cr_crlf by auto.
    repeat (rewrite ?map_length, ?zip_with_length, ?length_offs_tbl, ?length_blocksL'). repeat split; lia.
  - rewrite rows_crlf_expected by auto.
    change (x_data (crlf_expected L0)) with (concat (map lrawL (map add_cr L0))). rewrite <- concat_cr_items.
    apply grows_ok; try lia.
    rewrite Forall_map. eapply Forall_impl; [|exact H]. intros c0 Hc. unfold cr_item; cbn [fst snd].
    rewrite lrawL_add_cr by auto. rewrite len_app. change (len [CR; LF]) with 2.
    rewrite <- len_intercalate by auto. lia.
  - intros _. rewrite view_crlf_expected by auto.
    change (x_data (crlf_expected L0)) with (concat (map lrawL (map add_cr L0))).
    rewrite !map_map. reflexivity.
Qed.

(* ---- T1 for the repaired extractor, LF or CRLF ---- *)
Definition rec_wf2 (k : nat) (e : list Z) (r : grec) : Prop :=
  length (g_cols r) = k /\ Forall clean (g_cols r) /\ g_eol r = e.

Theorem from_delimited_repaired_correct k f e recs :
  delimited f -> (1 <= k)%nat -> recs <> [] -> (e = [LF] \/ e = [CR; LF]) -> Forall (rec_wf2 k e) recs ->
  exists x, from_delimited_gen true (layout f recs) = Some x /\ Inv x /\ view x = map (gview f) recs /\ x_contig x = true.
Proof.
  intros Hf Hk Hn He H. destruct He as [He|He]; subst e.
  - apply (from_delimited_correct k f recs true Hf Hk Hn).
    eapply Forall_impl; [|exact H]. intros r (A & B & C). repeat split; auto.
  - set (L0 := map g_cols recs).
    assert (HL0n : L0 <> []) by (destruct recs; [congruence|discriminate]).
    assert (Hne : Forall (fun c : list (list Z) => c <> []) L0).
    { unfold L0. rewrite Forall_map. eapply Forall_impl; [|exact H]. intros r (A & _). destruct (g_cols r); simpl in *; [lia|discriminate]. }
    assert (Hlay : layout f recs = concat (map lrawL (map add_cr L0))).
    { unfold layout, L0. rewrite !map_map. f_equal. apply map_ext_Forall. eapply Forall_impl; [|exact H].
      intros r (A & _ & C). rewrite lrawL_add_cr by (destruct (g_cols r); simpl in *; [lia|discriminate]).
      unfold g_raw, raw_of. rewrite C. destruct f; try contradiction; reflexivity. }
    assert (HV : map (gview f) recs = map gvi (map cr_item L0)).
    { unfold L0. rewrite !map_map. apply map_ext_Forall. eapply Forall_impl; [|exact H].
      intros r (A & _ & C). unfold gvi, cr_item; cbn [fst snd].
      rewrite lrawL_add_cr by (destruct (g_cols r); simpl in *; [lia|discriminate]).
      unfold gview, g_raw, raw_of. rewrite C. destruct f; try contradiction; reflexivity. }
    exists (crlf_expected L0). rewrite Hlay, HV. split.
    + apply (from_delimited_lines k); auto.
      * destruct L0; [congruence|discriminate].
      * rewrite Forall_map. unfold L0. rewrite Forall_map. eapply Forall_impl; [|exact H].
        intros r (A & B & _). apply add_cr_line_ok; auto. destruct (g_cols r); simpl in *; [lia|discriminate].
      * rewrite Forall_map. unfold L0. rewrite Forall_map. eapply Forall_impl; [|exact H].
        intros r (A & _). rewrite add_cr_length; auto. destruct (g_cols r); simpl in *; [lia|discriminate].
    + split; [apply Inv_crlf_expected; auto|]. split; [apply view_crlf_expected; auto|reflexivity].
Qed.

(* END TO END, repaired code, LF or CRLF, programs without replacement *)
Theorem delimited_repaired_end_to_end v f k e recs p out :
  v_crlf v = true -> delimited f -> (1 <= k)%nat -> wide_enough f k -> recs <> [] ->
  (e = [LF] \/ e = [CR; LF]) -> Forall (rec_wf2 k e) recs -> repl_free p = true ->
  model_out_v v f (layout f recs) p = Some out -> spec_out_ok f recs p (Some out) = true.
Proof.
  intros Hv Hf Hk Hw Hn He H Hr Hm.
  destruct (from_delimited_repaired_correct k f e recs Hf Hk Hn He H) as (x0 & Hx & I0 & V0 & _).
  assert (W : width_ok f (view x0)).
  { rewrite V0. destruct f; try contradiction; simpl; auto. intros Hn8. unfold width_gt. rewrite Forall_map.
    eapply Forall_impl; [|exact H]. intros r (HL & _). simpl. rewrite length_col_offsets. specialize (Hw Hn8). lia. }
  eapply (tabular_end_to_end v f recs x0); eauto.
  - destruct f; try contradiction; exact I.
  - destruct f; try contradiction; simpl; rewrite Hv, Hx; reflexivity.
Qed.

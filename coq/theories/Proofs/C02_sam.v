(* Proofs/C02_sam.v — SAM: records with eleven mandatory fields and any number of optional tag fields.  The ragged
   delimiter table denotes the eleven fields of every record, and the twelfth column is the rest of the line. *)
From Coq Require Import ZArith List Bool Lia Arith.
From BNP Require Import Base.Prims Base.PrimsFacts Base.C02Lib Model.C02 Proofs.C02_table Proofs.C02_int Proofs.C02_misc
  Proofs.C02_e2e Proofs.C02_fmt Proofs.C02_lines.
Import ListNotations.
Open Scope Z_scope.

(* which delimiters are line feeds, when the rows have different numbers of fields *)
Fixpoint nl_ragged (o : Z) (ks : list Z) : list Z :=
  match ks with [] => [] | k :: r => (o + k - 1) :: nl_ragged (o + k) r end.
Lemma nl_scan_ragged crlf rows : (forall r, In r rows -> r <> []) ->
  forall o, flatnonzero_from o (map (fun x => x =? 10) (map snd (all_cells crlf rows))) = nl_ragged o (map len rows).
Proof.
  induction rows as [|r rows IH]; intros H o; [reflexivity|].
  assert (Hne : r <> []) by (apply H; left; reflexivity).
  unfold all_cells in *. simpl concat. rewrite !map_app, flatnonzero_from_app.
  rewrite row_snd by exact Hne. rewrite map_app, flatnonzero_from_app.
  rewrite flatnonzero_from_false.
  2:{ intros b Hb. apply in_map_iff in Hb. destruct Hb as [c [Hc Hin]]. apply repeat_spec in Hin. subst. reflexivity. }
  rewrite len_app, !len_map, len_repeat, len_single.
  cbn [map flatnonzero_from app Z.eqb Pos.eqb nl_ragged].
  assert (Hl : 1 <= len r) by (destruct r; [congruence|rewrite len_cons; pose proof (len_nonneg r); lia]).
  unfold len in *. f_equal; [lia|].
  rewrite IH by (intros q Hq; apply H; right; exact Hq). f_equal. lia.
Qed.
Lemma diff_nl_ragged o k ks : diff (nl_ragged o (k :: ks)) = ks.
Proof.
  revert o k. induction ks as [|k2 ks IH]; intros o k; [reflexivity|].
  change (nl_ragged o (k :: k2 :: ks)) with ((o + k - 1) :: nl_ragged (o + k) (k2 :: ks)).
  change (nl_ragged (o + k) (k2 :: ks)) with ((o + k + k2 - 1) :: nl_ragged (o + k + k2) ks) at 1.
  change (diff (o + k - 1 :: o + k + k2 - 1 :: nl_ragged (o + k + k2) ks))
    with ((o + k + k2 - 1 - (o + k - 1)) :: diff ((o + k + k2 - 1) :: nl_ragged (o + k + k2) ks)).
  change ((o + k + k2 - 1) :: nl_ragged (o + k + k2) ks) with (nl_ragged (o + k) (k2 :: ks)). rewrite IH. f_equal. lia.
Qed.
Lemma nl_ragged_last o ks : ks <> [] -> (forall k, In k ks -> 1 <= k) -> last (nl_ragged o ks) 0 = o + sumZ ks - 1.
Proof.
  revert o. induction ks as [|k ks IH]; intros o Hne H; [congruence|].
  destruct ks as [|k2 ks].
  - simpl. lia.
  - change (nl_ragged o (k :: k2 :: ks)) with ((o + k - 1) :: nl_ragged (o + k) (k2 :: ks)).
    remember (nl_ragged (o + k) (k2 :: ks)) as l. destruct l as [|x l]; [simpl in Heql; discriminate|].
    change (last (o + k - 1 :: x :: l) 0) with (last (x :: l) 0). rewrite Heql, IH by (try discriminate; intros q Hq; apply H; right; exact Hq).
    simpl sumZ. lia.
Qed.
Lemma split_by_concat (xs : list (list Z)) : split_by (map len xs) (concat xs) = xs.
Proof.
  induction xs as [|x xs IH]; [reflexivity|]. simpl. unfold len at 1 3. rewrite !Nat2Z.id.
  rewrite firstn_app, Nat.sub_diag, firstn_all. simpl. rewrite app_nil_r. f_equal.
  rewrite skipn_app, Nat.sub_diag, skipn_all. simpl. exact IH.
Qed.
Lemma starts_rows_lens crlf o rows : (forall r, In r rows -> r <> []) -> map len (starts_rows crlf o rows) = map len rows.
Proof.
  revert o. induction rows as [|r rows IH]; intros o H; [reflexivity|]. simpl. f_equal.
  - unfold len. rewrite spos_length, row_cells_length by (apply H; left; reflexivity). reflexivity.
  - apply IH. intros q Hq. apply H. right. exact Hq.
Qed.
Lemma ends_rows_lens crlf o rows : (forall r, In r rows -> r <> []) -> map len (ends_rows crlf o rows) = map len rows.
Proof.
  revert o. induction rows as [|r rows IH]; intros o H; [reflexivity|]. simpl. f_equal.
  - unfold len. rewrite dpos_length, row_cells_length by (apply H; left; reflexivity). reflexivity.
  - apply IH. intros q Hq. apply H. right. exact Hq.
Qed.
Lemma sumZ_lens {A} (xs : list (list A)) : sumZ (map len xs) = len (concat xs).
Proof. induction xs as [|x xs IH]; [reflexivity|]. simpl. rewrite IH, len_app. reflexivity. Qed.

(* the first eleven fields *)
Lemma combine_firstn {A B} n (a : list A) (b : list B) : combine (firstn n a) (firstn n b) = firstn n (combine a b).
Proof. revert a b. induction n as [|n IH]; intros a b; [reflexivity|]. destruct a; [reflexivity|]. destruct b; [reflexivity|]. simpl. f_equal. apply IH. Qed.
Lemma firstn_map' {A B} (f : A -> B) n l : firstn n (map f l) = map f (firstn n l).
Proof. revert l. induction n; intros l; [reflexivity|]. destruct l; [reflexivity|]. simpl. f_equal. apply IHn. Qed.

Lemma last_app' {A} (a b : list A) d : b <> [] -> last (a ++ b) d = last b d.
Proof.
  intros H. induction a as [|x a IH]; [reflexivity|]. simpl. destruct (a ++ b) eqn:E; [|exact IH].
  destruct a; [simpl in E; congruence|discriminate].
Qed.
Lemma row_cells_ne crlf r : row_cells crlf r <> [].
Proof. unfold row_cells. destruct (map (fun f => (f, 9)) (removelast r)); discriminate. Qed.
Lemma dpos_ne o ps : ps <> [] -> dpos o ps <> [].
Proof. destruct ps; [congruence|discriminate]. Qed.
(* the rest of the line, from the (CR-adjusted) field ends d' and the raw ends d of one row — SAMBufferExctractor._get_extra_field
   after /repo 6bbd290 *)
Definition rest_of (data : list Z) (d' d : list Z) : list Z :=
  let st := m_extra_start (nthZ d' 10) in
  let e0 := m_extra_end0 (m_entry_end (lastz d)) in
  let en := m_extra_end e0 (nthZ data (m_extra_probe e0)) in
  slice st (st + m_extra_len en st) data.
Lemma row_cells_split crlf r1 r2 : r2 <> [] -> row_cells crlf (r1 ++ r2) = map (fun f => (f, 9)) r1 ++ row_cells crlf r2.
Proof.
  intros H. unfold row_cells. rewrite removelast_app by exact H. rewrite map_app, <- app_assoc. do 3 f_equal.
  rewrite <- (removelast_last r2 []) at 1 by exact H. rewrite app_assoc, last_app_single. reflexivity.
Qed.
Definition cr_fact (crlf : bool) (file d : list Z) : Prop :=
  if crlf then 1 <= lastz d /\ nthZ file (lastz d - 1) = 13 else nthZ file (m_extra_probe (lastz d)) <> 13.
Lemma nthZ_snoc l v : nthZ (l ++ [v]) (len l) = v.
Proof. apply nthZ_mid. Qed.
Lemma rest_of_row crlf r pre post : (11 <= length r)%nat ->
  let file := pre ++ flatten (row_cells crlf r) ++ post in
  let d := dpos (len pre) (row_cells crlf r) in
  cr_fact crlf file d ->
  rest_of file (adj crlf d) d = intercalate [9] (skipn 11 r).
Proof.
  intros Hl file d Hcr.
  assert (En : m_extra_end (m_extra_end0 (m_entry_end (lastz d))) (nthZ file (m_extra_probe (m_extra_end0 (m_entry_end (lastz d)))))
               = lastz d - (if crlf then 1 else 0)).
  { unfold m_extra_end0, m_entry_end, m_extra_end, m_cr_byte. replace (lastz d + 1 - 1) with (lastz d) by lia.
    unfold cr_fact in Hcr. destruct crlf.
    - destruct Hcr as [H1 H13]. unfold m_extra_probe. replace (Z.max (lastz d - 1) 0) with (lastz d - 1) by lia.
      rewrite H13. reflexivity.
    - destruct (Z.eqb_spec (nthZ file (m_extra_probe (lastz d))) 13); [congruence|lia]. }
  unfold rest_of. rewrite En. clear En Hcr.
  unfold d, file. clear d file.
  set (r1 := firstn 11 r). set (r2 := skipn 11 r).
  assert (Er : r = r1 ++ r2) by (symmetry; apply firstn_skipn). rewrite Er. clear Er.
  assert (L1 : length r1 = 11%nat) by (unfold r1; rewrite firstn_length; lia).
  unfold m_extra_start, m_extra_len.
  destruct r2 as [|x r2'] eqn:E2.
  - (* no optional fields: the eleventh delimiter is the line feed *)
    rewrite !app_nil_r. set (d := dpos (len pre) (row_cells crlf r1)).
    assert (Hd : len d = 11).
    { unfold len, d. rewrite dpos_length, row_cells_length by (intro E; rewrite E in L1; discriminate). rewrite L1. reflexivity. }
    assert (Hdne : d <> []) by (intro E; rewrite E in Hd; discriminate).
    assert (E10 : nthZ (adj crlf d) 10 = lastz d - (if crlf then 1 else 0)).
    { destruct crlf; unfold adj.
      - unfold set_last. replace 10 with (len (removelast d)).
        + apply nthZ_snoc.
        + rewrite <- (removelast_last d 0 Hdne) in Hd. rewrite len_app, len_single in Hd. lia.
      - unfold lastz. rewrite <- nthZ_last by exact Hdne. replace (len d - 1) with 10 by lia. lia. }
    rewrite E10. replace (Z.max _ 0) with 0 by (destruct crlf; lia). simpl. apply slice_empty. lia.
  - assert (Hr2 : x :: r2' <> []) by discriminate. rewrite row_cells_split by exact Hr2.
    set (A := map (fun f : list Z => (f, 9)) r1).
    assert (LA : length A = 11%nat) by (unfold A; rewrite map_length; exact L1).
    rewrite dpos_app. set (dA := dpos (len pre) A). set (dB := dpos (len pre + len (flatten A)) (row_cells crlf (x :: r2'))).
    assert (LdA : len dA = 11).
    { transitivity (Z.of_nat (length dA)); [reflexivity|]. unfold dA. rewrite dpos_length. exact (f_equal Z.of_nat LA). }
    assert (HdB : dB <> []) by (apply dpos_ne, row_cells_ne).
    assert (Eadj : adj crlf (dA ++ dB) = dA ++ adj crlf dB).
    { destruct crlf; unfold adj; [|reflexivity]. unfold set_last, lastz. rewrite removelast_app, last_app' by exact HdB.
      rewrite <- app_assoc. reflexivity. }
    rewrite Eadj.
    assert (E10 : nthZ (dA ++ adj crlf dB) 10 = len pre + len (flatten A) - 1).
    { rewrite nthZ_app_l by lia. replace 10 with (len dA - 1) by lia.
      rewrite nthZ_last by (intro E; rewrite E in LdA; discriminate).
      apply dpos_last. intro E. rewrite E in LA. discriminate. }
    rewrite E10. unfold lastz. rewrite last_app' by exact HdB. unfold dB.
    rewrite dpos_last by apply row_cells_ne.
    rewrite flatten_app, !row_flat by exact Hr2.
    assert (Le : len (eol_of crlf) = 1 + (if crlf then 1 else 0)) by (destruct crlf; reflexivity).
    rewrite len_app, Le.
    pose proof (len_nonneg (intercalate [9] (x :: r2'))).
    replace (Z.max _ 0) with (len (intercalate [9] (x :: r2'))) by (destruct crlf; lia).
    replace (len pre + len (flatten A) - 1 + 1) with (len (pre ++ flatten A)) by (rewrite len_app; lia).
    replace (pre ++ (flatten A ++ intercalate [9] (x :: r2') ++ eol_of crlf) ++ post)
      with ((pre ++ flatten A) ++ intercalate [9] (x :: r2') ++ (eol_of crlf ++ post)) by (rewrite <- !app_assoc; reflexivity).
    apply slice_mid.
Qed.
Lemma rest_of_rows crlf rows : (forall r, In r rows -> (11 <= length r)%nat) -> forall pre post,
  let file := pre ++ flatten (all_cells crlf rows) ++ post in
  (forall d, In d (ends_rows crlf (len pre) rows) -> cr_fact crlf file d) ->
  map (fun d => rest_of file (adj crlf d) d) (ends_rows crlf (len pre) rows)
  = map (fun r => intercalate [9] (skipn 11 r)) rows.
Proof.
  induction rows as [|r rows IH]; intros H pre post file Hcr; [reflexivity|].
  simpl ends_rows. simpl map. f_equal.
  - assert (Ef : file = pre ++ flatten (row_cells crlf r) ++ (flatten (all_cells crlf rows) ++ post)).
    { unfold file, all_cells. simpl concat. rewrite flatten_app, <- !app_assoc. reflexivity. }
    rewrite Ef. apply rest_of_row; [apply H; left; reflexivity|]. rewrite <- Ef. apply Hcr. simpl. left. reflexivity.
  - specialize (IH (fun q Hq => H q (or_intror Hq)) (pre ++ flatten (row_cells crlf r)) post). rewrite len_app in IH.
    assert (Ef : file = (pre ++ flatten (row_cells crlf r)) ++ flatten (all_cells crlf rows) ++ post).
    { unfold file, all_cells. simpl concat. rewrite flatten_app, <- !app_assoc. reflexivity. }
    cbv zeta in IH. rewrite <- Ef in IH. apply IH. intros d Hd. apply Hcr. simpl. right. exact Hd.
Qed.

(* ---------- the SAM table ---------- *)
Theorem sam_table_correct : forall (crlf : bool) (rows : list (list (list Z))),
  rows <> [] ->
  (forall r, In r rows -> (11 <= length r)%nat /\ forall f, In f r -> clean f) ->
  let file := lay (eol_of crlf) (map (intercalate [9]) rows) in
  exists t E, sam_table file = Some t /\ t_data t = file
            /\ table_ok t (map (firstn 11) rows) /\ len (t_starts t) = len rows
            /\ t_ends t = map (firstn 11) (map (adj crlf) E) /\ t_eends t = map (fun r => m_entry_end (lastz r)) E
            /\ length (t_starts t) = length E
            /\ map (fun d => rest_of file (adj crlf d) d) E = map (fun r => intercalate [9] (skipn 11 r)) rows.
Proof.
  intros crlf rows Hrows H file.
  assert (Hne : forall r, In r rows -> r <> []).
  { intros r Hr E. destruct (H r Hr) as [Hl _]. subst r. simpl in Hl. lia. }
  assert (Hcl : forall r, In r rows -> r <> [] /\ forall f, In f r -> clean f) by (intros r Hr; split; [apply Hne; exact Hr|apply H; exact Hr]).
  set (ps := all_cells crlf rows).
  assert (Hfile : file = flatten ps) by (apply (file_flat crlf); exact Hne).
  assert (Hok : cells_ok ps) by (apply all_cells_ok; exact Hcl).
  assert (Hdel : delim_positions 9 file = dpos 0 ps).
  { unfold delim_positions, flatnonzero. rewrite Hfile. apply delim_positions_cells. exact Hok. }
  assert (Hee : nl_indices file (dpos 0 ps) = nl_ragged 0 (map len rows)).
  { unfold nl_indices, flatnonzero.
    pose proof (cells_delims ps [] []) as P. rewrite len_nil, app_nil_r in P. change ([] ++ flatten ps) with (flatten ps) in P.
    rewrite <- Hfile in P.
    replace (map (fun d => nthZ file d =? 10) (dpos 0 ps)) with (map (fun x => x =? 10) (map (nthZ file) (dpos 0 ps)))
      by (rewrite map_map; reflexivity).
    rewrite P. apply nl_scan_ragged. exact Hne. }
  destruct rows as [|r0 rows']; [congruence|]. set (rows := r0 :: rows') in *.
  assert (Hks : forall k, In k (map len rows) -> 1 <= k).
  { intros k Hk. apply in_map_iff in Hk. destruct Hk as [r [E Hr]]. subst k. destruct (H r Hr) as [Hl _]. unfold len. lia. }
  assert (Hpslen : len (dpos 0 ps) = sumZ (map len rows)).
  { unfold len at 1. rewrite dpos_length. unfold ps. rewrite <- (ends_rows_lens crlf 0 rows Hne), sumZ_lens, <- dpos_all.
    unfold len. rewrite dpos_length. reflexivity. }
  assert (Hpsne : ps <> []).
  { intro E. rewrite E in Hpslen. simpl in Hpslen. assert (1 <= len r0) by (apply Hks; left; reflexivity).
    unfold rows in Hpslen. simpl in Hpslen.
    assert (0 <= sumZ (map len rows')). { clear. induction rows'; simpl; [lia|]. pose proof (len_nonneg a). lia. } unfold len in *. simpl in *. lia. }
  unfold sam_table. rewrite Hdel, Hee.
  change (map len rows) with (len r0 :: map len rows'). cbn [nl_ragged].
  change ((0 + len r0 - 1) :: nl_ragged (0 + len r0) (map len rows')) with (nl_ragged 0 (map len rows)).
  replace (0 + len r0 - 1 + 1) with (len r0) by lia.
  assert (Hdiff : diff (nl_ragged 0 (map len rows)) = map len rows') by apply diff_nl_ragged.
  rewrite !Hdiff. change (len r0 :: map len rows') with (map len rows).
  assert (Hlz : lastz (nl_ragged 0 (map len rows)) = len (dpos 0 ps) - 1).
  { unfold lastz. rewrite nl_ragged_last by (try discriminate; exact Hks). lia. }
  rewrite !Hlz. replace (len (dpos 0 ps) - 1 + 1) with (len (dpos 0 ps)) by lia.
  rewrite (firstn_all2 (dpos 0 ps)) by (unfold len; lia).
  rewrite nthZ_last by (intro E; apply (f_equal (@length Z)) in E; rewrite dpos_length in E; simpl in E; destruct ps; [congruence|discriminate]).
  rewrite dpos_last by exact Hpsne.
  replace (0 + len (flatten ps) - 1 + 1) with (len file) by (rewrite Hfile; lia).
  rewrite (firstn_all2 file) by (unfold len; lia).
  change (tl (-1 :: dpos 0 ps)) with (dpos 0 ps).
  pose proof (spos_dpos 0 ps Hpsne) as Hsp. replace (0 - 1) with (-1) in Hsp by lia. rewrite Hsp.
  assert (HS : split_by (map len rows) (spos 0 ps) = starts_rows crlf 0 rows).
  { unfold ps. rewrite spos_all, <- (starts_rows_lens crlf 0 rows Hne). apply split_by_concat. }
  assert (HE : split_by (map len rows) (dpos 0 ps) = ends_rows crlf 0 rows).
  { unfold ps. rewrite dpos_all, <- (ends_rows_lens crlf 0 rows Hne). apply split_by_concat. }
  rewrite !HS, !HE.
  assert (Hadj : cr_adjust file (ends_rows crlf 0 rows) = map (adj crlf) (ends_rows crlf 0 rows)).
  { rewrite Hfile. unfold ps. apply cr_adjust_rows; [discriminate|exact Hcl]. }
  rewrite Hadj.
  assert (H11 : forallb (fun r => 11 <=? len r) (starts_rows crlf 0 rows) = true).
  { apply forallb_forall. intros x Hx. apply Z.leb_le.
    assert (In (len x) (map len (starts_rows crlf 0 rows))) by (apply in_map; exact Hx).
    rewrite starts_rows_lens in H0 by exact Hne. apply in_map_iff in H0. destruct H0 as [r [E Hr]]. rewrite <- E.
    destruct (H r Hr) as [Hl _]. unfold len. lia. }
  rewrite H11.
  assert (Hpos : 1 <= len file) by (rewrite Hfile; apply flatten_len_pos; exact Hpsne).
  eexists. exists (ends_rows crlf 0 rows). split; [reflexivity|]. cbn [t_data t_starts t_ends t_eends].
  split; [reflexivity|]. split; [|split; [|split; [|split; [|split]]]]; try reflexivity.
  - constructor; cbn [t_data t_starts t_ends].
    + unfold table_fields. cbn [t_data t_starts t_ends].
      pose proof (rows_texts crlf rows Hne [] []) as P. rewrite len_nil, app_nil_r in P.
      change ([] ++ flatten (all_cells crlf rows)) with (flatten (all_cells crlf rows)) in P.
      fold ps in P. rewrite <- Hfile in P.
      rewrite combine_map_both, map_map.
      transitivity (map (firstn 11) (map (fun se : list Z * list Z => map (fun p : Z * Z => slice (fst p) (snd p) file) (combine (fst se) (snd se)))
                                         (combine (starts_rows crlf 0 rows) (map (adj crlf) (ends_rows crlf 0 rows))))); [|rewrite P; reflexivity].
      rewrite map_map. apply map_ext. intros [s e]. cbn [fst snd]. rewrite combine_firstn, firstn_map'. reflexivity.
    + intros row s Hrow Hs. apply in_map_iff in Hrow. destruct Hrow as [row0 [E Hrow0]]. subst row.
      assert (In s row0) by (rewrite <- (firstn_skipn 11 row0); apply in_or_app; left; exact Hs).
      apply (spos_ge 0 ps). unfold ps. rewrite spos_all. eapply in_rows_concat; eassumption.
    + intros row e Hrow He. apply in_map_iff in Hrow. destruct Hrow as [row1 [E Hrow1]]. subst row.
      apply in_map_iff in Hrow1. destruct Hrow1 as [row0 [E Hrow0]]. subst row1.
      assert (Hin : In e (adj crlf row0)) by (rewrite <- (firstn_skipn 11 (adj crlf row0)); apply in_or_app; left; exact He).
      enough (e <= len file - 1) by lia. clear He. revert e Hin. apply adj_le; [lia|].
      intros e2 He2. pose proof (dpos_le 0 ps e2) as P.
      assert (Hin2 : In e2 (dpos 0 ps)) by (unfold ps; rewrite dpos_all; eapply in_rows_concat; eassumption).
      specialize (P Hin2). rewrite Hfile. lia.
    + exact Hpos.
  - unfold len. rewrite map_length, starts_rows_length. reflexivity.
  - rewrite map_length, starts_rows_length, ends_rows_length. reflexivity.
  - pose proof (rest_of_rows crlf rows (fun r Hr => proj1 (H r Hr)) [] []) as P. rewrite len_nil, app_nil_r in P.
    change ([] ++ flatten (all_cells crlf rows)) with (flatten (all_cells crlf rows)) in P. fold ps in P. rewrite <- Hfile in P.
    apply P. intros d Hd. unfold cr_fact. destruct crlf.
    + pose proof (crlf_before_eol rows Hne [] [] d) as Q. rewrite len_nil, app_nil_r in Q.
      change ([] ++ flatten (all_cells true rows)) with (flatten (all_cells true rows)) in Q. fold ps in Q. rewrite <- Hfile in Q.
      apply Q. exact Hd.
    + intro E13. destruct (nthZ_In_or_0 file (m_extra_probe (lastz d))) as [Hin|H0]; [|lia].
      rewrite Hfile in Hin. apply (lf_no_cr rows Hcl _ Hin). rewrite <- Hfile. exact E13.
Qed.

Lemma nth_firstn_lt {A} (k n : nat) (l : list A) d : (k < n)%nat -> nth k (firstn n l) d = nth k l d.
Proof.
  revert k l. induction n as [|n IH]; intros k l H; [lia|]. destruct l as [|x l]; [destruct k; reflexivity|].
  destruct k; [reflexivity|]. simpl. apply IH. lia.
Qed.
Lemma field_firstn r j : 0 <= j < 11 -> field (firstn 11 r) j = field r j.
Proof. intros H. unfold field. apply nth_firstn_lt. lia. Qed.
Lemma trest_map crlf (S' E : list (list Z)) (data : list Z) : length S' = length E ->
  map (fun '(se, ee) => let st := m_extra_start (snd se) in
                        let e0 := m_extra_end0 ee in
                        let en := m_extra_end e0 (nthZ data (m_extra_probe e0)) in
                        CBytes (slice st (st + m_extra_len en st) data))
      (combine (combine (col S' 10) (col (map (firstn 11) (map (adj crlf) E)) 10)) (map (fun r => m_entry_end (lastz r)) E))
  = map (fun d => CBytes (rest_of data (adj crlf d) d)) E.
Proof.
  revert S'. induction E as [|e E IH]; intros S' H; destruct S' as [|s S']; try discriminate; [reflexivity|].
  unfold col in *. cbn [map combine fst snd]. f_equal.
  - unfold rest_of, nthZ. rewrite nth_firstn_lt by lia. reflexivity.
  - apply IH. simpl in H. lia.
Qed.

(* SAM, whole files, LF or CRLF: '@' header lines skipped, eleven typed columns, the optional tags as one text column
   (without the carriage return) *)
Theorem sam_end_to_end : forall (crlf : bool) (hs : list (list Z)) (rows : list (list (list Z))),
  (forall h, In h hs -> hd0 h = 64 /\ ~ In 10 h) ->
  rows <> [] ->
  (forall r, In r rows -> (11 <= length r)%nat /\ forall f, In f r -> clean f) ->
  (forall jt, In jt (schema Fsam) -> snd jt <> TRest -> col_wf rows 11 jt) ->
  hd0 (body_of crlf rows) <> 64 ->
  run Fsam None (lay (eol_of crlf) hs ++ body_of crlf rows) = Obs (len rows) (spec_cols Fsam None rows) true.
Proof.
  intros crlf hs rows Hh Hne H Hwf Hb.
  destruct (sam_table_correct crlf rows Hne H) as [t [E [Ht [Hd [Hok [Hl [He [Hee [Hlen Hrest]]]]]]]]].
  unfold run. cbn [comment_byte].
  rewrite (skip_header_correct 64 crlf hs (body_of crlf rows) ltac:(lia) Hh Hb).
  cbn [table_of]. unfold body_of. rewrite Ht. cbn [eager_format andb]. rewrite Hl. f_equal.
  set (rows' := map (firstn 11) rows) in *.
  assert (Hrne : rows' <> []) by (unfold rows'; destruct rows; [congruence|discriminate]).
  assert (Hl11 : forall r, In r rows' -> len r = 11).
  { intros r Hr. unfold rows' in Hr. apply in_map_iff in Hr. destruct Hr as [x [Ex Hx]]. subst r.
    unfold len. rewrite firstn_length. destruct (H x Hx) as [A _]. lia. }
  assert (Hcolj : forall j ty, In (j, ty) (schema Fsam) -> ty <> TRest -> typed_col t j ty = spec_col rows (j, ty)).
  { intros j ty Hin Hty. destruct (Hwf (j, ty) Hin Hty) as [Hj Hw]. cbn [fst snd] in *.
    rewrite (typed_col_correct t rows' j ty Hok Hrne ltac:(lia)).
    - apply spec_col_same; [exact Hty|unfold rows'; rewrite map_length; reflexivity|].
      intros k. unfold rows'. destruct (Nat.lt_ge_cases k (length rows)) as [Hk|Hk].
      + rewrite (nth_map_lt _ rows k [] []) by exact Hk. apply field_firstn. lia.
      + rewrite !nth_overflow by (rewrite ?map_length; lia). reflexivity.
    - intros r Hr. rewrite (Hl11 r Hr). lia.
    - intros r Hr. unfold rows' in Hr. apply in_map_iff in Hr. destruct Hr as [x [Ex Hx]]. subst r.
      rewrite field_firstn by lia. apply Hw. exact Hx. }
  unfold run_cols, spec_cols. cbn [schema has_geno has_geno2 map app fst snd].
  repeat (rewrite Hcolj by (try discriminate; simpl; tauto)).
  do 11 f_equal.
  (* the rest-of-line column *)
  unfold typed_col, bounds. rewrite He, Hee, Hd.
  rewrite (trest_map crlf (t_starts t) E _ Hlen).
  replace (map (fun d => CBytes (rest_of (lay (eol_of crlf) (map (intercalate [9]) rows)) (adj crlf d) d)) E)
    with (map CBytes (map (fun d => rest_of (lay (eol_of crlf) (map (intercalate [9]) rows)) (adj crlf d) d) E)) by (rewrite map_map; reflexivity).
  rewrite Hrest, map_map.
  unfold spec_col. cbn [fst snd]. unfold spec_cell.
  rewrite (mapM_some (fun r => CBytes (intercalate [9] (skipn (Z.to_nat 11) r)))). reflexivity.
Qed.

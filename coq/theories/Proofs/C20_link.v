(* Proofs/C20_link.v — history: the site programs pinned in Model/C20.v (an earlier commit) and their verdicts;
   decidable equality of programs.  The tie to the CURRENT source is Bridge/C20.v. *)
From Coq Require Import ZArith List Bool Arith Lia.
From BNP Require Import Base.Prims Model.C20 Proofs.C20.
Import ListNotations.
Open Scope nat_scope.

(* ---------------------------------------------------------------- T2: every pinned site except 14 is safe *)
Lemma sites_safe_b :
  forallb (fun e => Z.eqb (fst e) 14 || safe_prog (fst (snd e)) (snd (snd e))) site_table = true.
Proof. vm_compute. reflexivity. Qed.

Theorem lookup_site_safe : forall sid np site,
  lookup_site sid = Some (np, site) -> sid <> 14%Z -> safe_prog np site = true.
Proof.
  intros sid np site H Hne. unfold lookup_site in H.
  destruct (find (fun p => Z.eqb (fst p) sid) site_table) as [e|] eqn:E; [|discriminate].
  inversion H; subst; clear H.
  apply find_some in E. destruct E as [Hin Heq]. apply Z.eqb_eq in Heq.
  pose proof (proj1 (forallb_forall _ _) sites_safe_b e Hin) as Hs. simpl in Hs.
  apply orb_true_iff in Hs. destruct Hs as [Hs|Hs].
  - apply Z.eqb_eq in Hs. congruence.
  - destruct e as [z [n p]]. simpl in *. inversion H1; subst. exact Hs.
Qed.

(* every run-time instance of every registered site other than 14 leaves its inputs unchanged *)
Theorem registered_sites_sound : forall sid np site p s,
  lookup_site sid = Some (np, site) -> sid <> 14%Z ->
  shape p = shape site -> wf_init np s -> unchanged np s (run p s).
Proof.
  intros sid np site p s H Hne Hsh Hwf.
  eapply site_instance_sound; eauto. eapply lookup_site_safe; eauto.
Qed.

(* site 14 as it is at HEAD: rejected by the checker, and rightly so — an instance changes its argument *)
Theorem site14_rejected : safe_prog 1 site_14 = false.
Proof. vm_compute. reflexivity. Qed.

Theorem site14_refuted :
  exists p s, shape p = shape site_14 /\ wf_init 1 s /\ ~ unchanged 1 s (run p s).
Proof.
  exists [IAlloc []; IView false true [1]; IPick 0 [0; 2]; IFlatten 3; IView false true [3]; IWrite 4 0 [9%Z]].
  exists {| s_blocks := [[10%Z]]; s_regs := [{| r_blocks := [0]; r_cow := false |}] |}.
  split; [reflexivity|]. split.
  - split; [reflexivity|]. intros r b Hin. unfold get_reg in Hin; simpl in Hin.
    destruct r as [|[|r]]; simpl in Hin; try destruct Hin as [<-|[]]; try destruct Hin. simpl. lia.
  - intros [H _]. specialize (H 0). simpl in H. assert (E : 0 < 1) by lia. specialize (H E).
    vm_compute in H. discriminate.
Qed.

Theorem site14_fixed_safe : safe_prog 1 site_14_fixed = true.
Proof. vm_compute. reflexivity. Qed.

(* ---------------------------------------------------------------- decidable equality of programs *)
Lemma nat_list_eqb_eq : forall a b, nat_list_eqb a b = true -> a = b.
Proof.
  unfold nat_list_eqb. induction a; destruct b; simpl; intros H; auto; try discriminate.
  apply andb_true_iff in H. destruct H as [H1 H2]. apply Nat.eqb_eq in H1. f_equal; auto.
Qed.

Lemma instr_eqb_eq : forall i j, instr_eqb i j = true -> i = j.
Proof.
  intros [d|c r rs|k rs|r|r k d] [d'|c' r' rs'|k' rs'|r'|r' k' d']; simpl; intros H; try discriminate.
  - apply zlist_eqb_eq in H. congruence.
  - apply andb_true_iff in H. destruct H as [H H3]. apply andb_true_iff in H. destruct H as [H1 H2].
    apply eqb_prop in H1. apply eqb_prop in H2. apply nat_list_eqb_eq in H3. congruence.
  - apply andb_true_iff in H. destruct H as [H1 H2]. apply Nat.eqb_eq in H1. apply nat_list_eqb_eq in H2. congruence.
  - apply Nat.eqb_eq in H. congruence.
  - apply andb_true_iff in H. destruct H as [H H3]. apply andb_true_iff in H. destruct H as [H1 H2].
    apply Nat.eqb_eq in H1. apply Nat.eqb_eq in H2. apply zlist_eqb_eq in H3. congruence.
Qed.

Lemma prog_eqb_eq : forall p q, prog_eqb p q = true -> p = q.
Proof.
  unfold prog_eqb. induction p; destruct q; simpl; intros H; auto; try discriminate.
  apply andb_true_iff in H. destruct H as [H1 H2]. apply instr_eqb_eq in H1. f_equal; auto.
Qed.

(* ---------------------------------------------------------------- model agrees => property holds *)
Lemma model_prog_sel_nil : forall sid txt, sid <> 14%Z -> model_prog_sel sid txt = [].
Proof.
  intros sid txt H. unfold model_prog_sel, model_prog, model_prog_fixed.
  assert (E : Z.eqb sid 14 = false) by (apply Z.eqb_neq; auto). rewrite E.
  destruct fix1_applied; reflexivity.
Qed.

Lemma site13_fixed_safe : safe_prog 1 site_13_fixed = true.
Proof. vm_compute. reflexivity. Qed.

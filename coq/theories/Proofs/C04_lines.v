(* Proofs/C04_lines.v — the delimiter table of a tab-separated text, for RAGGED lines (any number >= 1 of columns per
   line) whose columns contain no TAB / LF (they may contain CR: a CRLF line is a line whose last column ends in CR).
   Shared by the T1 proofs for SAM (ragged rows) and for CRLF delimited files. *)
From Coq Require Import ZArith List Bool Lia.
From BNP Require Import Base.Prims Base.PrimsFacts Model.C04 Proofs.C04 Proofs.C04_raw.
Import ListNotations.
Open Scope Z_scope.

Definition nodelim (c : list Z) : Prop := Forall (fun b => b <> TAB /\ b <> LF) c.
Definition line_ok (cols : list (list Z)) : Prop := cols <> [] /\ Forall nodelim cols.
Definition lrawL (cols : list (list Z)) : list Z := intercalate [TAB] cols ++ [LF].

Lemma fnz_nodelim c : forall pos rest, nodelim c ->
  flatnonzero_from pos (map isd (c ++ rest)) = flatnonzero_from (pos + len c) (map isd rest).
Proof.
  induction c as [|a c IH]; intros pos rest H; simpl.
  - rewrite len_nil. f_equal. lia.
  - inversion H as [|? ? (H1 & H2) Hc]; subst. unfold isd at 1. unfold TAB, LF in *.
    destruct (Z.eqb_spec a 10); try lia. destruct (Z.eqb_spec a 9); try lia. simpl.
    rewrite IH by auto. rewrite len_cons. f_equal. lia.
Qed.

Lemma fnz_colsL cols : forall pos rest, cols <> [] -> Forall nodelim cols ->
  flatnonzero_from pos (map isd (intercalate [TAB] cols ++ [LF] ++ rest))
  = delims_rec pos cols ++ flatnonzero_from (pos + len (intercalate [TAB] cols) + 1) (map isd rest).
Proof.
  induction cols as [|c cols IH]; intros pos rest Hn Hc; [congruence|].
  inversion Hc as [|? ? Hc1 Hc2]; subst.
  destruct cols as [|c' r].
  - simpl intercalate. rewrite fnz_nodelim by auto. change ([LF] ++ rest) with (LF :: rest). rewrite fnz_delim by reflexivity. reflexivity.
  - rewrite intercalate_cons2. specialize (IH (pos + len c + 1) rest).
    set (I := intercalate [TAB] (c' :: r)) in *.
    rewrite <- !app_assoc. rewrite fnz_nodelim by auto.
    change ([TAB] ++ I ++ [LF] ++ rest) with (TAB :: (I ++ [LF] ++ rest)).
    rewrite fnz_delim by reflexivity.
    rewrite IH by (auto; discriminate).
    change (delims_rec pos (c :: c' :: r)) with ((pos + len c) :: delims_rec (pos + len c + 1) (c' :: r)).
    rewrite <- app_comm_cons. f_equal. f_equal. f_equal.
    rewrite !len_app. change (len [TAB]) with 1. lia.
Qed.

Fixpoint blocksL (pos : Z) (L : list (list (list Z))) : list (list Z) :=
  match L with [] => [] | cols :: rest => delims_rec pos cols :: blocksL (pos + len (lrawL cols)) rest end.

Lemma len_lrawL cols : len (lrawL cols) = len (intercalate [TAB] cols) + 1.
Proof. unfold lrawL. rewrite len_app. reflexivity. Qed.

Lemma fnz_lines L : forall pos, Forall line_ok L ->
  flatnonzero_from pos (map isd (concat (map lrawL L))) = concat (blocksL pos L).
Proof.
  induction L as [|cols L IH]; intros pos H; simpl; auto.
  inversion H as [|? ? (Hn & Hc) HL]; subst.
  unfold lrawL at 1. rewrite <- app_assoc. rewrite fnz_colsL by auto. f_equal.
  replace (pos + len (intercalate [TAB] cols) + 1) with (pos + len (lrawL cols)) by (rewrite len_lrawL; lia).
  apply IH; auto.
Qed.

Lemma filter_nodelim c rest : nodelim c -> filter isd (c ++ rest) = filter isd rest.
Proof.
  induction 1 as [|a c (H1 & H2) Hc IH]; simpl; auto.
  unfold isd at 1. unfold TAB, LF in *.
  destruct (Z.eqb_spec a 10); try lia. destruct (Z.eqb_spec a 9); try lia. simpl. auto.
Qed.

Lemma filter_colsL cols : forall rest, cols <> [] -> Forall nodelim cols ->
  filter isd (intercalate [TAB] cols ++ [LF] ++ rest) = repeat TAB (length cols - 1) ++ LF :: filter isd rest.
Proof.
  induction cols as [|c cols IH]; intros rest Hn Hc; [congruence|].
  inversion Hc as [|? ? Hc1 Hc2]; subst.
  destruct cols as [|c' r].
  - simpl intercalate. rewrite filter_nodelim by auto. reflexivity.
  - rewrite intercalate_cons2. specialize (IH rest).
    set (I := intercalate [TAB] (c' :: r)) in *.
    rewrite <- !app_assoc. rewrite filter_nodelim by auto.
    change ([TAB] ++ I ++ [LF] ++ rest) with (TAB :: (I ++ [LF] ++ rest)).
    change (filter isd (TAB :: (I ++ [LF] ++ rest))) with (TAB :: filter isd (I ++ [LF] ++ rest)).
    rewrite IH by (auto; discriminate).
    replace (length (c :: c' :: r) - 1)%nat with (S (length (c' :: r) - 1))%nat by (simpl; lia). reflexivity.
Qed.

Lemma filter_lines L : Forall line_ok L ->
  filter isd (concat (map lrawL L)) = concat (map (fun cols => repeat TAB (length cols - 1) ++ [LF]) L).
Proof.
  induction 1 as [|cols L (Hn & Hc) HL IH]; simpl; auto.
  unfold lrawL at 1. rewrite <- app_assoc. rewrite filter_colsL by auto. rewrite IH.
  rewrite <- app_assoc. reflexivity.
Qed.

(* positions of the LF's among the delimiters: cumulative column counts - 1 *)
Fixpoint ends_idxL (i : Z) (L : list (list (list Z))) : list Z :=
  match L with [] => [] | cols :: rest => (i + len cols - 1) :: ends_idxL (i + len cols) rest end.

Lemma fnz_entry_endsL L : forall i, Forall line_ok L ->
  flatnonzero_from i (map (fun c => c =? LF) (concat (map (fun cols : list (list Z) => repeat TAB (length cols - 1) ++ [LF]) L)))
  = ends_idxL i L.
Proof.
  induction L as [|cols L IH]; intros i H; simpl; auto.
  inversion H as [|? ? (Hn & _) HL]; subst.
  rewrite <- app_assoc. rewrite fnz_repeat_tab.
  change ([LF] ++ concat (map (fun cols : list (list Z) => repeat TAB (length cols - 1) ++ [LF]) L))
    with (LF :: concat (map (fun cols : list (list Z) => repeat TAB (length cols - 1) ++ [LF]) L)).
  simpl map. simpl flatnonzero_from. rewrite IH by auto.
  assert (1 <= length cols)%nat by (destruct cols; simpl; [congruence|lia]).
  unfold len. replace (i + Z.of_nat (length cols - 1)) with (i + Z.of_nat (length cols) - 1) by lia.
  replace (i + Z.of_nat (length cols) - 1 + 1) with (i + Z.of_nat (length cols)) by lia. reflexivity.
Qed.

Lemma entry_ends_lines L : Forall line_ok L ->
  let data := concat (map lrawL L) in
  flatnonzero (map (fun d => nthZ data d =? LF) (flatnonzero (map (fun c => (c =? LF) || (c =? TAB)) data)))
  = ends_idxL 0 L.
Proof.
  intros H data. unfold flatnonzero at 1 2.
  rewrite <- (map_map (nthZ data) (fun c => c =? LF)).
  assert (G : map (nthZ data) (flatnonzero_from 0 (map isd data)) = filter isd data) by (apply (nth_at_delims isd data [])).
  change (fun c : Z => (c =? LF) || (c =? TAB)) with isd. rewrite G.
  unfold data. rewrite filter_lines by auto. apply fnz_entry_endsL; auto.
Qed.

Lemma delims_lines L : Forall line_ok L ->
  flatnonzero (map (fun c => (c =? LF) || (c =? TAB)) (concat (map lrawL L))) = concat (blocksL 0 L).
Proof. intros H. apply (fnz_lines L 0 H). Qed.

Definition ncols (L : list (list (list Z))) : Z := sumZ (map (fun cols : list (list Z) => len cols) L).

Lemma length_blocksL L : forall pos, len (concat (blocksL pos L)) = ncols L.
Proof.
  induction L as [|cols L IH]; intros pos; [reflexivity|].
  unfold ncols in *. simpl. rewrite len_app, IH. unfold len. rewrite length_delims_rec. reflexivity.
Qed.

Lemma last_ends_idxL L : forall i, L <> [] -> last (ends_idxL i L) 0 = i + ncols L - 1.
Proof.
  induction L as [|cols L IH]; intros i Hn; [congruence|].
  destruct L as [|cols' L'].
  - unfold ncols. simpl. lia.
  - change (ends_idxL i (cols :: cols' :: L')) with ((i + len cols - 1) :: ends_idxL (i + len cols) (cols' :: L')).
    change (last ((i + len cols - 1) :: ends_idxL (i + len cols) (cols' :: L')) 0) with (last (ends_idxL (i + len cols) (cols' :: L')) 0).
    rewrite IH by discriminate. unfold ncols. simpl. lia.
Qed.

Lemma blocksL_ne L pos : Forall line_ok L -> L <> [] -> concat (blocksL pos L) <> [].
Proof.
  intros H Hn. destruct L as [|cols L]; [congruence|]. inversion H as [|? ? (Hc & _) _]; subst.
  simpl. destruct cols; [congruence|]. simpl. discriminate.
Qed.

Lemma last_blocksL L : forall pos, Forall line_ok L -> L <> [] ->
  last (concat (blocksL pos L)) 0 = pos + len (concat (map lrawL L)) - 1.
Proof.
  induction L as [|cols L IH]; intros pos H Hn; [congruence|].
  inversion H as [|? ? (Hc & _) HL]; subst.
  change (blocksL pos (cols :: L)) with (delims_rec pos cols :: blocksL (pos + len (lrawL cols)) L).
  change (map lrawL (cols :: L)) with (lrawL cols :: map lrawL L).
  rewrite !concat_cons, len_app. destruct L as [|cols' L'].
  - change (concat (blocksL (pos + len (lrawL cols)) [])) with (@nil Z). change (concat (map lrawL [])) with (@nil Z).
    rewrite app_nil_r. change (len (@nil Z)) with 0. rewrite last_delims_rec by auto. rewrite len_lrawL. lia.
  - rewrite last_app_ne by (apply blocksL_ne; auto; discriminate).
    rewrite IH by (auto; discriminate). lia.
Qed.

(* removelast (prev :: delimiters), line by line *)
Fixpoint sblocksL (prev pos : Z) (L : list (list (list Z))) : list (list Z) :=
  match L with
  | [] => []
  | cols :: rest => (prev :: removelast (delims_rec pos cols))
                    :: sblocksL (pos + len (lrawL cols) - 1) (pos + len (lrawL cols)) rest
  end.

Lemma removelast_blocksL L : forall prev pos, Forall line_ok L ->
  removelast (prev :: concat (blocksL pos L)) = concat (sblocksL prev pos L).
Proof.
  induction L as [|cols L IH]; intros prev pos H; [reflexivity|].
  inversion H as [|? ? (Hc & _) HL]; subst.
  change (blocksL pos (cols :: L)) with (delims_rec pos cols :: blocksL (pos + len (lrawL cols)) L).
  change (sblocksL prev pos (cols :: L)) with
    ((prev :: removelast (delims_rec pos cols)) :: sblocksL (pos + len (lrawL cols) - 1) (pos + len (lrawL cols)) L).
  rewrite !concat_cons.
  rewrite (removelast_cons_app prev _ _ 0) by (apply delims_rec_ne; auto).
  f_equal. rewrite last_delims_rec by auto.
  replace (pos + len (intercalate [TAB] cols)) with (pos + len (lrawL cols) - 1) by (rewrite len_lrawL; lia).
  apply IH; auto.
Qed.

(* the common prefix of from_delimited_gen / from_sam: what the first lines of both functions compute *)
Lemma table_prefix L : L <> [] -> Forall line_ok L ->
  let data := concat (map lrawL L) in
  let delimiters := flatnonzero (map (fun c => (c =? LF) || (c =? TAB)) data) in
  let entry_ends := flatnonzero (map (fun d => nthZ data d =? LF) delimiters) in
  delimiters = concat (blocksL 0 L) /\ entry_ends = ends_idxL 0 L /\
  firstn (Z.to_nat (last0 entry_ends + 1)) delimiters = delimiters /\
  firstn (Z.to_nat (nthZ delimiters (last0 entry_ends) + 1)) data = data.
Proof.
  intros Hn H data delimiters entry_ends.
  assert (HD : delimiters = concat (blocksL 0 L)) by (apply delims_lines; auto).
  assert (HE : entry_ends = ends_idxL 0 L) by (apply entry_ends_lines; auto).
  split; auto. split; auto.
  assert (LDL : len delimiters = ncols L) by (rewrite HD; apply length_blocksL).
  assert (HlastE : last0 entry_ends = ncols L - 1).
  { rewrite HE. unfold last0. rewrite last_ends_idxL by auto. lia. }
  assert (Hpos : 1 <= ncols L).
  { destruct L as [|cols L']; [congruence|]. inversion H as [|? ? (Hc & _) HL]; subst. unfold ncols. simpl.
    assert (0 <= sumZ (map (fun cols : list (list Z) => len cols) L')).
    { clear. induction L'; simpl; try lia. pose proof (len_nonneg a). lia. }
    destruct cols; [congruence|]. rewrite len_cons. pose proof (len_nonneg cols). lia. }
  split.
  - rewrite HlastE. replace (ncols L - 1 + 1) with (len delimiters) by lia. unfold len. rewrite Nat2Z.id. apply firstn_all.
  - assert (HlastDL : last delimiters 0 = len data - 1).
    { rewrite HD. unfold data. rewrite last_blocksL by auto. lia. }
    assert (Hnth : nthZ delimiters (last0 entry_ends) = len data - 1).
    { rewrite <- HlastDL. rewrite (last_nth delimiters 0). unfold nthZ. f_equal. rewrite HlastE.
      unfold len in LDL. lia. }
    rewrite Hnth. replace (len data - 1 + 1) with (len data) by lia. unfold len. rewrite Nat2Z.id. apply firstn_all.
Qed.

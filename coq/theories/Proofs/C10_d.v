(* Proofs/C10_d.v — C10 part 5 (depth): the statements about the routes as they are at /repo HEAD.
   clip / windows against the two-sided single-contig clip, Geometry.clip, Geometry.sort, merged and
   Geometry.merge_intervals, the coordinate bijection on whole lists, ignored-chromosome filtering. *)
From Coq Require Import ZArith List Bool Lia Arith Permutation Sorted.
From BNP Require Import Base.Prims Base.PrimsFacts Model.C10 Proofs.C10 Proofs.C10_b.
Import ListNotations.
Open Scope Z_scope.

(* ------------------------------------------------------------------ clip and windows *)
(* Geometry.clip is the single-contig clip with the row's own chromosome size, for every interval *)
Theorem geo_clip_spec : forall szs es, model_geo_clip szs es = spec_clip szs es.
Proof. reflexivity. Qed.
(* what the single-contig clip does: the result lies in [0,size], keeps start <= stop, and covers exactly the
   positions of the interval that exist on the chromosome *)
Theorem clip2_meaning : forall size e, 0 <= size ->
  let w := clip2 size e in
  0 <= e_start w <= size /\ 0 <= e_stop w <= size /\ e_chr w = e_chr e
  /\ (e_start e <= e_stop e -> e_start w <= e_stop w)
  /\ (forall x, e_start w <= x < e_stop w <-> (e_start e <= x < e_stop e /\ 0 <= x < size)).
Proof. intros size e Hs. unfold clip2, set_se. cbn [e_start e_stop e_chr]. repeat split; try lia. Qed.
(* GenomicIntervalsFull.clip agrees with it whenever the interval touches its chromosome's range at all
   (start <= size and 0 <= stop); this holds for either variant of the helper bodies (HEAD and fix-4) *)
Theorem clip_partial : forall szs es, nonneg szs ->
  Forall (fun e => e_start e <= size_of szs (e_chr e) /\ 0 <= e_stop e) es ->
  model_clip szs es = spec_clip szs es.
Proof.
  intros szs es Hs H. unfold model_clip, spec_clip. apply map_ext_in. intros e He.
  rewrite Forall_forall in H. destruct (H e He) as [H1 H2]. pose proof (size_of_nonneg szs (e_chr e) Hs).
  unfold clip2, m_clip_start, m_clip_stop. f_equal; lia.
Qed.
(* ... and the one-sided formula (HEAD) does not beyond that: [5,7) on a chromosome of size 3 comes out as [5,3) *)
Theorem clip_one_sided_refuted : exists size e, 0 <= size /\ e_start e <= e_stop e /\ clip1 size e <> clip2 size e
  /\ e_stop (clip1 size e) < e_start (clip1 size e).
Proof. exists 3, (mk 0 5 7). split; [lia|]. split; [cbn; lia|]. split; [vm_compute; discriminate|vm_compute; reflexivity]. Qed.
(* windows around locations that lie on their chromosome: always the single-contig clip of [p-l, p+r) *)
Theorem windows_spec : forall szs l r es, nonneg szs -> 0 <= l -> 0 <= r ->
  Forall (fun e => 0 <= e_start e < size_of szs (e_chr e)) es ->
  model_windows szs l r es = spec_windows szs l r es.
Proof.
  intros szs l r es Hs Hl Hr H. unfold model_windows, spec_windows, model_clip. rewrite map_map.
  apply map_ext_in. intros e He. rewrite Forall_forall in H. specialize (H e He).
  unfold clip2, m_clip_start, m_clip_stop, set_se. cbn [e_start e_stop e_chr]. f_equal; lia.
Qed.

(* ------------------------------------------------------------------ merged: the statement about the code at HEAD *)
Theorem merged_local : forall szs us d es, nonneg szs -> 0 <= d ->
  Forall (entry_wf szs) es -> StronglySorted cs_le es ->
  model_merged szs us d es = RIvs (map triple (spec_merged szs d es)).
Proof. intros. apply merged_fixed_local; assumption. Qed.
Theorem geo_merge_local : forall szs d es, nonneg szs -> 0 <= d ->
  Forall (entry_wf szs) es -> StronglySorted cs_le es ->
  model_geo_merge szs d es = RIvs (map triple (spec_merged szs d es)).
Proof. intros. apply (merged_fixed_local szs []); assumption. Qed.

(* ------------------------------------------------------------------ Geometry.sort *)
Lemma sort_by_map : forall {A B} (k : B -> key3) (g : A -> B) l,
  sort_by k (map g l) = map g (sort_by (fun x => k (g x)) l).
Proof.
  intros A B k g. induction l as [|x l IH]; [reflexivity|]. unfold sort_by in *. cbn [map fold_right]. rewrite IH.
  generalize (fold_right (insert_by (fun x0 => k (g x0))) [] l). clear IH.
  induction l0 as [|y r IHr]; [reflexivity|]. cbn [map insert_by].
  destruct (key_le (k (g x)) (k (g y))); [reflexivity|]. cbn [map]. f_equal. apply IHr.
Qed.
Lemma sorted_by_weaken : forall {A} (k1 k2 : A -> key3) (P : A -> Prop) l, Forall P l ->
  (forall a b, P a -> P b -> key_le (k1 a) (k1 b) = true -> key_le (k2 a) (k2 b) = true) ->
  sorted_by k1 l = true -> sorted_by k2 l = true.
Proof.
  intros A k1 k2 P l HP Hw. induction HP as [|a l Ha HP IH]; intros H; [reflexivity|].
  destruct l as [|b l']; [reflexivity|]. cbn [sorted_by] in *. apply andb_prop in H. destruct H as [H1 H2].
  inversion HP; subst. rewrite (Hw a b) by assumption. apply IH. exact H2.
Qed.
Definition gkey (szs : list Z) (e : entry) : key3 := (e_start e + off szs (e_chr e), e_stop e + off szs (e_chr e), 0).
Lemma gkey_order : forall szs a b, nonneg szs -> entry_placed szs a -> entry_placed szs b ->
  key_le (gkey szs a) (gkey szs b) = true -> key_le (triple a) (triple b) = true.
Proof.
  intros szs a b Hs [[Hca [Hsa Hta]] Hla] [[Hcb [Hsb Htb]] Hlb]. unfold gkey, triple, key_le. intros H.
  destruct (Z_lt_ge_dec (e_chr a) (e_chr b)) as [Hlt|Hge].
  - destruct (Z.ltb_spec (e_chr a) (e_chr b)); [reflexivity|lia].
  - destruct (Z.eq_dec (e_chr a) (e_chr b)) as [Heq|Hne].
    + rewrite Heq in *. rewrite Z.ltb_irrefl, Z.eqb_refl. cbn [orb andb].
      destruct (Z.ltb_spec (e_start a + off szs (e_chr b)) (e_start b + off szs (e_chr b)));
      destruct (Z.eqb_spec (e_start a + off szs (e_chr b)) (e_start b + off szs (e_chr b)));
      destruct (Z.leb_spec (e_stop a + off szs (e_chr b)) (e_stop b + off szs (e_chr b)));
      cbn in H; try discriminate;
      destruct (Z.ltb_spec (e_start a) (e_start b)); destruct (Z.eqb_spec (e_start a) (e_start b));
      destruct (Z.leb_spec (e_stop a) (e_stop b)); cbn; try reflexivity; lia.
    + exfalso. pose proof (off_before szs (e_chr a) (e_chr b) Hs ltac:(lia) ltac:(lia)).
      destruct (Z.ltb_spec (e_start a + off szs (e_chr a)) (e_start b + off szs (e_chr b))); [lia|].
      destruct (Z.eqb_spec (e_start a + off szs (e_chr a)) (e_start b + off szs (e_chr b))); [lia|].
      cbn in H. discriminate.
Qed.

Lemma to_local_placed : forall szs e, nonneg szs -> entry_placed szs e ->
  to_local szs (e_start e + off szs (e_chr e)) = (e_chr e, e_start e).
Proof.
  intros szs e Hs [[Hc [Hst _]] Hlt].
  destruct (nat_index szs (e_chr e) Hc) as [n [Hn Hlen]]. rewrite Hn in *.
  rewrite off_offn by lia. rewrite size_of_nat in Hlt. rewrite Z.add_comm. apply to_local_offn; try assumption. lia.
Qed.
Definition unglobal (szs : list Z) (e : entry) : entry :=
  let idx := fst (to_local szs (e_start e)) in
  set_chr (set_se e (e_start e - off szs idx) (e_stop e - off szs idx)) idx.
Definition glob1 (szs : list Z) (e : entry) : entry :=
  set_se e (e_start e + off szs (e_chr e)) (e_stop e + off szs (e_chr e)).
Lemma unglobal_glob1 : forall szs e, nonneg szs -> entry_placed szs e -> unglobal szs (glob1 szs e) = e.
Proof.
  intros szs e Hs Hp. unfold unglobal, glob1. cbn [set_se e_start e_stop e_chr].
  change (e_start (set_se e (e_start e + off szs (e_chr e)) (e_stop e + off szs (e_chr e)))) with (e_start e + off szs (e_chr e)).
  rewrite (to_local_placed szs e Hs Hp). cbn [fst]. destruct e as [c s t f]. unfold set_chr, set_se. cbn. f_equal; lia.
Qed.

Theorem geo_sort_spec : forall szs es, nonneg szs -> Forall (entry_placed szs) es ->
  exists out, model_geo_sort szs es = RIvs (map triple out)
    /\ Permutation out es /\ sorted_by triple out = true.
Proof.
  intros szs es Hs Hp. exists (sort_by (gkey szs) es). split; [|split].
  - unfold model_geo_sort, check_bounds. rewrite check_bounds_ok by assumption.
    change (globalise szs es) with (map (glob1 szs) es).
    rewrite (sort_by_map (fun e => (e_start e, e_stop e, 0)) (glob1 szs) es).
    change (fun x => (e_start (glob1 szs x), e_stop (glob1 szs x), 0)) with (gkey szs).
    unfold to_local_interval. fold (unglobal szs). rewrite map_map.
    assert (Hin : forall e, In e (sort_by (gkey szs) es) -> entry_placed szs e).
    { intros e He. rewrite Forall_forall in Hp. apply Hp. eapply Permutation_in; [apply sort_by_perm|exact He]. }
    assert (Hid : map (fun x => unglobal szs (glob1 szs x)) (sort_by (gkey szs) es) = sort_by (gkey szs) es).
    { rewrite <- (map_id (sort_by (gkey szs) es)) at 2. apply map_ext_in. intros e He. apply unglobal_glob1; auto. }
    rewrite Hid.
    replace (forallb (fun e => e_stop e <=? size_of szs (e_chr e)) (sort_by (gkey szs) es)) with true; [reflexivity|].
    symmetry. apply forallb_forall. intros e He. destruct (Hin e He) as [[_ [_ Ht]] _]. apply Z.leb_le. lia.
  - apply sort_by_perm.
  - apply (sorted_by_weaken (gkey szs) triple (entry_placed szs)).
    + apply Forall_forall. intros e He. rewrite Forall_forall in Hp. apply Hp.
      eapply Permutation_in; [apply sort_by_perm|exact He].
    + intros a b Ha Hb. apply gkey_order; assumption.
    + apply sort_by_sorted.
Qed.

(* ------------------------------------------------------------------ the coordinate bijection on whole lists *)
Lemma arange_from_app : forall n m a, arange_from a (n + m) = arange_from a n ++ arange_from (a + Z.of_nat n) m.
Proof.
  induction n as [|n IH]; intros m a.
  - cbn. f_equal. lia.
  - cbn [Nat.add arange_from app]. f_equal. rewrite IH. f_equal. f_equal. lia.
Qed.
Lemma chrom_blocks : forall szs k, nonneg szs -> (k <= length szs)%nat ->
  concat (map (fun c => arange_from (off szs c) (Z.to_nat (size_of szs c))) (arange_from 0 k))
  = arange_from 0 (Z.to_nat (offn szs k)).
Proof.
  intros szs k Hs. induction k as [|k IH]; intros Hk; [reflexivity|].
  replace (S k) with (k + 1)%nat by lia. rewrite arange_from_app, map_app, concat_app. rewrite IH by lia.
  cbn [arange_from map concat]. rewrite app_nil_r.
  replace (k + 1)%nat with (S k) by lia. rewrite offn_S by lia.
  pose proof (sumZ_nonneg _ (nonneg_firstn szs k Hs)) as H0. fold (offn szs k) in H0.
  pose proof (nonneg_nth szs k Hs) as H1.
  rewrite Z2Nat.inj_add by assumption. rewrite arange_from_app. f_equal.
  replace (0 + Z.of_nat k) with (Z.of_nat k) by lia. rewrite off_offn by lia. rewrite size_of_nat.
  f_equal. lia.
Qed.

Lemma to_local_enum : forall szs, nonneg szs -> map (to_local szs) (arange (total szs)) = enum_positions szs.
Proof.
  intros szs Hs.
  assert (E1 : arange (total szs) = concat (map (fun c => arange_from (off szs c) (Z.to_nat (size_of szs c)))
                                               (arange_from 0 (length szs)))).
  { rewrite chrom_blocks by (try assumption; lia). rewrite offn_all by lia. reflexivity. }
  assert (E2 : enum_positions szs = concat (map (fun c => map (fun p => (c, p)) (arange_from 0 (Z.to_nat (size_of szs c))))
                                               (arange_from 0 (length szs)))).
  { unfold enum_positions, arange, len. rewrite Nat2Z.id. reflexivity. }
  rewrite E1, E2, concat_map, map_map. f_equal.
  apply map_ext_in. intros c Hc. apply In_arange_from in Hc.
  rewrite map_arange_from_shift. apply map_ext_in. intros x Hx. apply In_arange_from in Hx.
  set (n := Z.to_nat c). assert (Hn : c = Z.of_nat n) by lia.
  assert (Hx' : 0 <= x < nth n szs 0).
  { change (nth n szs 0) with (size_of szs c). pose proof (size_of_nonneg szs c Hs). lia. }
  rewrite Hn. rewrite off_offn by lia. apply to_local_offn; try assumption; lia.
Qed.

Theorem coords_spec : forall szs, nonneg szs ->
  model_coords szs = RCoords (arange (total szs)) (enum_positions szs) (map (fun _ => true) szs).
Proof.
  intros szs Hs. unfold model_coords. destruct (offset_bijection szs Hs) as [_ [Hback Hrej]]. f_equal.
  - rewrite <- (to_local_enum szs Hs). rewrite map_map.
    rewrite <- (map_id (arange (total szs))) at 2. apply map_ext_in. intros g Hg. apply In_arange in Hg.
    specialize (Hback g Hg). destruct (to_local szs g) as [c p]. destruct Hback as [_ [_ Hf]]. rewrite Hf. reflexivity.
  - apply to_local_enum. assumption.
  - unfold arange, len. rewrite Nat2Z.id.
    assert (H1 : forall (l : list Z), map (fun _ => true) l = repeat true (length l)).
    { induction l as [|x l IH]; [reflexivity|]. cbn. f_equal. exact IH. }
    rewrite H1.
    assert (H2 : forall n a, map (fun c => match from_local szs c (size_of szs c) with None => true | Some _ => false end)
                                 (arange_from a n) = repeat true n).
    { induction n as [|n IH]; intros a; [reflexivity|]. cbn [arange_from map repeat]. rewrite (Hrej a (size_of szs a)) by lia.
      f_equal. apply IH. }
    apply H2.
Qed.

(* ------------------------------------------------------------------ ignored chromosomes (mask_data) *)
Definition coden (fl : list bool) (k : nat) : nat := length (filter (fun b : bool => b) (firstn k fl)).
Lemma code_of_nat : forall fl k, code_of fl (Z.of_nat k) = Z.of_nat (coden fl k).
Proof. intros. unfold code_of, coden, len. rewrite Nat2Z.id. reflexivity. Qed.

Lemma coden_size : forall (f : chrom -> bool) g k d, (k < length g)%nat -> f (nth k g d) = true ->
  nth (coden (incl_flags f g) k) (ctx_sizes f g) 0 = c_size (nth k g d).
Proof.
  intros f. induction g as [|x g IH]; intros k d Hk Hkeep; [simpl in Hk; lia|].
  unfold coden, incl_flags, ctx_sizes in *. destruct k as [|k].
  - cbn [nth] in Hkeep. cbn [firstn filter length map]. cbn [filter]. rewrite Hkeep. reflexivity.
  - cbn [nth] in *. simpl in Hk. cbn [map firstn filter]. destruct (f x).
    + cbn [length map nth]. apply IH; [lia|assumption].
    + apply IH; [lia|assumption].
Qed.
Lemma coden_uncode : forall fl k i, nth k fl false = true ->
  nth (coden fl k) (flatnonzero_from i fl) 0 = i + Z.of_nat k.
Proof.
  unfold coden. induction fl as [|b fl IH]; intros k i H; [destruct k; discriminate|].
  destruct k as [|k].
  - cbn [nth] in H. subst b. cbn. lia.
  - cbn [nth] in H. cbn [firstn filter flatnonzero_from]. destruct b.
    + cbn [length app nth]. rewrite IH by assumption. lia.
    + cbn [app]. rewrite IH by assumption. lia.
Qed.
Lemma coden_lt : forall fl k, nth k fl false = true -> (coden fl k < length (filter (fun b : bool => b) fl))%nat.
Proof.
  unfold coden. induction fl as [|b fl IH]; intros k H; [destruct k; discriminate|].
  destruct k as [|k].
  - cbn [nth] in H. subst b. cbn. lia.
  - cbn [nth] in H. cbn [firstn filter]. destruct b; cbn [length]; specialize (IH k H); lia.
Qed.
Lemma ctx_sizes_length : forall (f : chrom -> bool) g, length (ctx_sizes f g) = length (filter (fun b : bool => b) (incl_flags f g)).
Proof.
  intros f. induction g as [|x g IH]; [reflexivity|]. unfold ctx_sizes, incl_flags in *. cbn [filter map].
  destruct (f x); cbn [length map filter]; lia.
Qed.

(* mask_data: exactly the entries of included chromosomes survive, in their order; each is re-coded to the rank of its
   chromosome among the included ones, and under that code it is measured against its own chromosome's size *)
Theorem visible_spec : forall (f : chrom -> bool) g es d, let fl := incl_flags f g in
  visible fl es = map (fun e => set_chr e (code_of fl (e_chr e))) (filter (fun e => nthd false fl (e_chr e)) es)
  /\ (forall k, 0 <= k < len g -> f (nthd d g k) = true ->
        size_of (ctx_sizes f g) (code_of fl k) = c_size (nthd d g k)
        /\ uncode fl (code_of fl k) = k
        /\ 0 <= code_of fl k < len (ctx_sizes f g))
  /\ (forall k, f (nthd d g k) = false -> 0 <= k < len g -> nthd false fl k = false).
Proof.
  intros f g es d fl. split; [reflexivity|]. split.
  - intros k Hk Hkeep. unfold len in Hk. set (n := Z.to_nat k). assert (Hn : k = Z.of_nat n) by lia.
    unfold nthd in Hkeep. fold n in Hkeep. rewrite Hn. rewrite code_of_nat.
    assert (Hfl : nth n fl false = true).
    { unfold fl, incl_flags. rewrite (nth_indep _ false (f d)) by (rewrite map_length; lia).
      rewrite map_nth. exact Hkeep. }
    split; [|split].
    + unfold size_of, nthZ, nthd. rewrite !Nat2Z.id. apply coden_size; [lia|assumption].
    + unfold uncode, incl_idx, flatnonzero, nthZ. rewrite Nat2Z.id. rewrite coden_uncode by assumption. lia.
    + unfold len. rewrite ctx_sizes_length. pose proof (coden_lt fl n Hfl). fold fl. lia.
  - intros k Hkeep Hk. unfold nthd in *. unfold fl, incl_flags. unfold len in Hk.
    rewrite (nth_indep _ false (f d)) by (rewrite map_length; lia). rewrite map_nth. exact Hkeep.
Qed.

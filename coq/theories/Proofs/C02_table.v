(* Proofs/C02_table.v — T1: the delimiter-position table denotes exactly the fields of every record,
   for every number of columns, every field width (0 included) and LF or CRLF line ends. *)
From Coq Require Import ZArith List Bool Lia Arith.
From BNP Require Import Base.Prims Base.PrimsFacts Base.C02Lib Model.C02.
Import ListNotations.
Open Scope Z_scope.

(* A file is a sequence of (field text, delimiter that follows it). *)
Definition fcell := (list Z * Z)%type.
Definition flatten (ps : list fcell) : list Z := concat (map (fun p => fst p ++ [snd p]) ps).
Fixpoint dpos (o : Z) (ps : list fcell) : list Z :=
  match ps with [] => [] | p :: r => (o + len (fst p)) :: dpos (o + len (fst p) + 1) r end.
Fixpoint spos (o : Z) (ps : list fcell) : list Z :=
  match ps with [] => [] | p :: r => o :: spos (o + len (fst p) + 1) r end.
Definition cells_ok (ps : list fcell) : Prop :=
  forall p, In p ps -> (forall c, In c (fst p) -> is_delim 9 c = false) /\ is_delim 9 (snd p) = true.

Lemma flatten_cons p ps : flatten (p :: ps) = fst p ++ [snd p] ++ flatten ps.
Proof. unfold flatten. simpl. rewrite <- app_assoc. reflexivity. Qed.
Lemma flatten_single f d : flatten [(f, d)] = f ++ [d].
Proof. unfold flatten. simpl. apply app_nil_r. Qed.
Lemma flatten_app a b : flatten (a ++ b) = flatten a ++ flatten b.
Proof. unfold flatten. rewrite map_app, concat_app. reflexivity. Qed.
Lemma len_flatten_cons p ps : len (flatten (p :: ps)) = len (fst p) + 1 + len (flatten ps).
Proof. rewrite flatten_cons, !len_app, len_single. lia. Qed.
Lemma dpos_length o ps : length (dpos o ps) = length ps.
Proof. revert o. induction ps; intros; simpl; [reflexivity|]. rewrite IHps. reflexivity. Qed.
Lemma spos_length o ps : length (spos o ps) = length ps.
Proof. revert o. induction ps; intros; simpl; [reflexivity|]. rewrite IHps. reflexivity. Qed.
Lemma dpos_app o a b : dpos o (a ++ b) = dpos o a ++ dpos (o + len (flatten a)) b.
Proof.
  revert o. induction a as [|p a IH]; intros o.
  - simpl. unfold flatten. simpl. rewrite len_nil. f_equal. lia.
  - simpl. rewrite IH. rewrite len_flatten_cons. do 3 f_equal. lia.
Qed.
Lemma spos_app o a b : spos o (a ++ b) = spos o a ++ spos (o + len (flatten a)) b.
Proof.
  revert o. induction a as [|p a IH]; intros o.
  - simpl. unfold flatten. simpl. rewrite len_nil. f_equal. lia.
  - simpl. rewrite IH. rewrite len_flatten_cons. do 3 f_equal. lia.
Qed.

(* the delimiter scan finds exactly the byte after each field *)
Lemma delim_positions_cells o ps : cells_ok ps ->
  flatnonzero_from o (map (is_delim 9) (flatten ps)) = dpos o ps.
Proof.
  revert o. induction ps as [|p ps IH]; intros o H; [reflexivity|].
  rewrite flatten_cons, !map_app, !flatnonzero_from_app.
  destruct (H p (or_introl eq_refl)) as [Hf Hd].
  rewrite flatnonzero_from_false.
  2:{ intros b Hb. apply in_map_iff in Hb. destruct Hb as [c [Hc Hin]]. subst b. apply Hf. exact Hin. }
  simpl map. simpl flatnonzero_from at 1. rewrite Hd. simpl.
  rewrite len_map, len_single. f_equal. apply IH.
  intros q Hq. apply H. right. exact Hq.
Qed.

(* the byte at each delimiter position is that cell's delimiter *)
Lemma cells_delims ps : forall pre post,
  map (nthZ (pre ++ flatten ps ++ post)) (dpos (len pre) ps) = map snd ps.
Proof.
  induction ps as [|p ps IH]; intros pre post; [reflexivity|].
  simpl dpos. simpl map. rewrite flatten_cons. f_equal.
  - replace (pre ++ (fst p ++ [snd p] ++ flatten ps) ++ post)
      with ((pre ++ fst p) ++ snd p :: (flatten ps ++ post)) by (rewrite <- !app_assoc; reflexivity).
    rewrite <- len_app. apply nthZ_mid.
  - specialize (IH (pre ++ fst p ++ [snd p]) post).
    replace (len (pre ++ fst p ++ [snd p])) with (len pre + len (fst p) + 1) in IH
      by (rewrite !len_app, len_single; lia).
    replace ((pre ++ fst p ++ [snd p]) ++ flatten ps ++ post)
      with (pre ++ (fst p ++ [snd p] ++ flatten ps) ++ post) in IH by (rewrite <- !app_assoc; reflexivity).
    exact IH.
Qed.

(* the text between a start and the next delimiter is that cell's field *)
Lemma cells_texts ps : forall pre post,
  map (fun p => slice (fst p) (snd p) (pre ++ flatten ps ++ post)) (combine (spos (len pre) ps) (dpos (len pre) ps))
  = map fst ps.
Proof.
  induction ps as [|p ps IH]; intros pre post; [reflexivity|].
  simpl spos. simpl dpos. simpl combine. simpl map. rewrite flatten_cons. f_equal.
  - simpl fst. simpl snd. rewrite <- !app_assoc. apply slice_mid.
  - specialize (IH (pre ++ fst p ++ [snd p]) post).
    replace (len (pre ++ fst p ++ [snd p])) with (len pre + len (fst p) + 1) in IH
      by (rewrite !len_app, len_single; lia).
    replace ((pre ++ fst p ++ [snd p]) ++ flatten ps ++ post)
      with (pre ++ (fst p ++ [snd p] ++ flatten ps) ++ post) in IH by (rewrite <- !app_assoc; reflexivity).
    exact IH.
Qed.

Lemma spos_dpos o ps : ps <> [] -> map (Z.add 1) (removelast ((o - 1) :: dpos o ps)) = spos o ps.
Proof.
  revert o. induction ps as [|p ps IH]; intros o H; [congruence|].
  destruct ps as [|q ps].
  - cbn [dpos spos removelast map]. f_equal. lia.
  - specialize (IH (o + len (fst p) + 1)).
    change (dpos o (p :: q :: ps)) with ((o + len (fst p)) :: dpos (o + len (fst p) + 1) (q :: ps)).
    change (spos o (p :: q :: ps)) with (o :: spos (o + len (fst p) + 1) (q :: ps)).
    rewrite <- IH by discriminate.
    replace (o + len (fst p) + 1 - 1) with (o + len (fst p)) by lia.
    remember (dpos (o + len (fst p) + 1) (q :: ps)) as d.
    assert (d <> []) by (subst d; simpl; discriminate).
    destruct d; [congruence|]. cbn [removelast map]. f_equal. lia.
Qed.
Lemma dpos_last o ps : ps <> [] -> last (dpos o ps) 0 = o + len (flatten ps) - 1.
Proof.
  revert o. induction ps as [|p ps IH]; intros o H; [congruence|].
  destruct ps as [|q ps].
  - simpl. unfold flatten. simpl. rewrite app_nil_r, len_app. unfold len at 3. simpl. lia.
  - change (dpos o (p :: q :: ps)) with ((o + len (fst p)) :: dpos (o + len (fst p) + 1) (q :: ps)).
    remember (dpos (o + len (fst p) + 1) (q :: ps)) as d.
    assert (Hd : d <> []) by (subst d; simpl; discriminate).
    destruct d as [|x d]; [congruence|].
    change (last (o + len (fst p) :: x :: d) 0) with (last (x :: d) 0). rewrite Heqd.
    rewrite IH by discriminate. rewrite (len_flatten_cons p). lia.
Qed.

(* ---------- rows ---------- *)
Definition crb (crlf : bool) : list Z := if crlf then [13] else [].
Definition row_cells (crlf : bool) (r : list (list Z)) : list fcell :=
  map (fun f => (f, 9)) (removelast r) ++ [(last r [] ++ crb crlf, 10)].
Definition all_cells (crlf : bool) (rows : list (list (list Z))) : list fcell := concat (map (row_cells crlf) rows).

Lemma row_cells_length crlf r : r <> [] -> length (row_cells crlf r) = length r.
Proof.
  intros H. unfold row_cells. rewrite app_length, map_length. simpl.
  rewrite <- (removelast_last r []) at 2 by exact H. rewrite app_length. simpl. reflexivity.
Qed.
Lemma row_flat crlf r : r <> [] -> flatten (row_cells crlf r) = intercalate [9] r ++ eol_of crlf.
Proof.
  induction r as [|f r IH]; intros H; [congruence|].
  destruct r as [|g r].
  - unfold row_cells. simpl. unfold flatten. simpl. rewrite app_nil_r, <- app_assoc.
    destruct crlf; reflexivity.
  - unfold row_cells in *. change (removelast (f :: g :: r)) with (f :: removelast (g :: r)).
    change (last (f :: g :: r) []) with (last (g :: r) []).
    rewrite map_cons, <- app_comm_cons, flatten_cons. rewrite IH by discriminate.
    change (intercalate [9] (f :: g :: r)) with (f ++ [9] ++ intercalate [9] (g :: r)).
    simpl fst. simpl snd. rewrite <- !app_assoc. reflexivity.
Qed.
Lemma file_flat crlf rows : (forall r, In r rows -> r <> []) ->
  lay (eol_of crlf) (map (intercalate [9]) rows) = flatten (all_cells crlf rows).
Proof.
  induction rows as [|r rows IH]; intros H; [reflexivity|].
  unfold lay, all_cells in *. simpl. rewrite flatten_app, row_flat by (apply H; left; reflexivity).
  f_equal. apply IH. intros q Hq. apply H. right. exact Hq.
Qed.
Lemma clean_not_delim f : clean f -> forall c, In c f -> is_delim 9 c = false.
Proof.
  intros H c Hc. destruct (H c Hc) as [H9 [H10 _]]. unfold is_delim.
  destruct (Z.eqb_spec c 10); [congruence|]. destruct (Z.eqb_spec c 9); [congruence|]. reflexivity.
Qed.
Lemma row_cells_ok crlf r : (forall f, In f r -> clean f) -> r <> [] -> cells_ok (row_cells crlf r).
Proof.
  intros H Hne p Hp. unfold row_cells in Hp. apply in_app_or in Hp. destruct Hp as [Hp|Hp].
  - apply in_map_iff in Hp. destruct Hp as [f [E Hf]]. subst p. simpl. split; [|reflexivity].
    apply clean_not_delim. apply H.
    rewrite <- (removelast_last r []) by exact Hne. apply in_or_app. left. exact Hf.
  - destruct Hp as [E|[]]. subst p. simpl. split; [|reflexivity].
    intros c Hc. apply in_app_or in Hc. destruct Hc as [Hc|Hc].
    + apply (clean_not_delim (last r [])); [|exact Hc]. apply H.
      rewrite <- (removelast_last r []) at 2 by exact Hne. apply in_or_app. right. left. reflexivity.
    + destruct crlf; simpl in Hc; [|contradiction]. destruct Hc as [E|[]]. subst c. reflexivity.
Qed.
Lemma all_cells_ok crlf rows : (forall r, In r rows -> r <> [] /\ forall f, In f r -> clean f) -> cells_ok (all_cells crlf rows).
Proof.
  intros H p Hp. unfold all_cells in Hp. apply in_concat in Hp. destruct Hp as [l [Hl Hp]].
  apply in_map_iff in Hl. destruct Hl as [r [E Hr]]. subst l.
  destruct (H r Hr) as [Hne Hc]. exact (row_cells_ok crlf r Hc Hne p Hp).
Qed.

(* start / end tables row by row *)
Fixpoint starts_rows (crlf : bool) (o : Z) (rows : list (list (list Z))) : list (list Z) :=
  match rows with [] => [] | r :: rs => spos o (row_cells crlf r) :: starts_rows crlf (o + len (flatten (row_cells crlf r))) rs end.
Fixpoint ends_rows (crlf : bool) (o : Z) (rows : list (list (list Z))) : list (list Z) :=
  match rows with [] => [] | r :: rs => dpos o (row_cells crlf r) :: ends_rows crlf (o + len (flatten (row_cells crlf r))) rs end.
Lemma spos_all crlf o rows : spos o (all_cells crlf rows) = concat (starts_rows crlf o rows).
Proof.
  revert o. induction rows as [|r rows IH]; intros o; [reflexivity|].
  unfold all_cells in *. simpl. rewrite spos_app, IH. reflexivity.
Qed.
Lemma dpos_all crlf o rows : dpos o (all_cells crlf rows) = concat (ends_rows crlf o rows).
Proof.
  revert o. induction rows as [|r rows IH]; intros o; [reflexivity|].
  unfold all_cells in *. simpl. rewrite dpos_app, IH. reflexivity.
Qed.
Lemma starts_rows_len crlf n rows : (forall r, In r rows -> r <> [] /\ length r = n) ->
  forall o x, In x (starts_rows crlf o rows) -> length x = n.
Proof.
  induction rows as [|r rows IH]; intros H o x Hx; [contradiction|].
  simpl in Hx. destruct Hx as [E|Hx].
  - subst x. rewrite spos_length, row_cells_length; apply (H r (or_introl eq_refl)).
  - apply (IH (fun q Hq => H q (or_intror Hq)) _ x Hx).
Qed.
Lemma ends_rows_len crlf n rows : (forall r, In r rows -> r <> [] /\ length r = n) ->
  forall o x, In x (ends_rows crlf o rows) -> length x = n.
Proof.
  induction rows as [|r rows IH]; intros H o x Hx; [contradiction|].
  simpl in Hx. destruct Hx as [E|Hx].
  - subst x. rewrite dpos_length, row_cells_length; apply (H r (or_introl eq_refl)).
  - apply (IH (fun q Hq => H q (or_intror Hq)) _ x Hx).
Qed.
Lemma starts_rows_length crlf o rows : length (starts_rows crlf o rows) = length rows.
Proof. revert o. induction rows; intros; simpl; [reflexivity|]. rewrite IHrows. reflexivity. Qed.
Lemma ends_rows_length crlf o rows : length (ends_rows crlf o rows) = length rows.
Proof. revert o. induction rows; intros; simpl; [reflexivity|]. rewrite IHrows. reflexivity. Qed.

(* ---------- which delimiters are line feeds ---------- *)
Fixpoint nlist (o n : Z) (R : nat) : list Z :=
  match R with O => [] | S R' => (o + n - 1) :: nlist (o + n) n R' end.
Lemma row_snd crlf r : r <> [] -> map snd (row_cells crlf r) = repeat 9 (length r - 1) ++ [10].
Proof.
  intros H. unfold row_cells. rewrite map_app, map_map. simpl. f_equal.
  rewrite <- (removelast_last r []) at 2 by exact H. rewrite app_length. simpl.
  replace (length (removelast r) + 1 - 1)%nat with (length (removelast r)) by lia.
  induction (removelast r); simpl; [reflexivity|]. f_equal. assumption.
Qed.
Lemma nl_scan crlf n rows : 1 <= n -> (forall r, In r rows -> r <> [] /\ len r = n) ->
  forall o, flatnonzero_from o (map (fun x => x =? 10) (map snd (all_cells crlf rows))) = nlist o n (length rows).
Proof.
  intros Hn. induction rows as [|r rows IH]; intros H o; [reflexivity|].
  destruct (H r (or_introl eq_refl)) as [Hne Hl].
  unfold all_cells in *. simpl concat. rewrite !map_app, flatnonzero_from_app.
  rewrite row_snd by exact Hne. rewrite map_app, flatnonzero_from_app.
  rewrite flatnonzero_from_false.
  2:{ intros b Hb. apply in_map_iff in Hb. destruct Hb as [c [Hc Hin]]. apply repeat_spec in Hin. subst. reflexivity. }
  rewrite len_app, !len_map, len_repeat, len_single.
  cbn [map flatnonzero_from app Z.eqb Pos.eqb length nlist].
  unfold len in Hl. f_equal; [lia|].
  rewrite IH by (intros q Hq; apply H; right; exact Hq). f_equal. lia.
Qed.
Lemma nlist_last o n R : last (nlist o n (S R)) 0 = o + n * Z.of_nat (S R) - 1.
Proof.
  revert o. induction R as [|R IH]; intros o.
  - simpl. lia.
  - change (nlist o n (S (S R))) with ((o + n - 1) :: nlist (o + n) n (S R)).
    remember (nlist (o + n) n (S R)) as l. destruct l as [|x l]; [simpl in Heql; discriminate|].
    change (last (o + n - 1 :: x :: l) 0) with (last (x :: l) 0). rewrite Heql, IH. lia.
Qed.

(* ---------- the carriage-return adjustment ---------- *)
Definition adj (crlf : bool) (l : list Z) : list Z := if crlf then set_last l (lastz l - 1) else l.

Lemma dpos_row_split crlf o r : r <> [] ->
  let init := map (fun f => (f, 9)) (removelast r) in
  dpos o (row_cells crlf r) = dpos o init ++ [o + len (flatten init) + len (last r [] ++ crb crlf)].
Proof. intros H init. unfold row_cells. rewrite dpos_app. reflexivity. Qed.

(* in a CRLF file the byte before every row's last delimiter is CR *)
Lemma crlf_before_eol rows : (forall r, In r rows -> r <> []) -> forall pre post row,
  In row (ends_rows true (len pre) rows) ->
  1 <= lastz row /\ nthZ (pre ++ flatten (all_cells true rows) ++ post) (lastz row - 1) = 13.
Proof.
  induction rows as [|r rows IH]; intros H pre post row Hin; [contradiction|].
  assert (Hne : r <> []) by (apply H; left; reflexivity).
  simpl in Hin. destruct Hin as [E|Hin].
  - subst row. rewrite dpos_row_split by exact Hne. unfold lastz. rewrite last_app_single.
    set (init := map (fun f => (f, 9)) (removelast r)).
    simpl crb. rewrite len_app, len_single.
    pose proof (len_nonneg pre). pose proof (len_nonneg (flatten init)). pose proof (len_nonneg (last r [])).
    split; [lia|].
    unfold all_cells. simpl concat. rewrite flatten_app. unfold row_cells at 1. fold init. rewrite flatten_app.
    unfold flatten at 2. simpl. rewrite app_nil_r.
    replace (pre ++ ((flatten init ++ (last r [] ++ [13]) ++ [10]) ++ flatten (concat (map (row_cells true) rows))) ++ post)
      with ((pre ++ flatten init ++ last r []) ++ 13 :: ([10] ++ flatten (concat (map (row_cells true) rows)) ++ post))
      by (rewrite <- !app_assoc; reflexivity).
    replace (len pre + len (flatten init) + (len (last r []) + 1) - 1)
      with (len (pre ++ flatten init ++ last r [])) by (rewrite !len_app; lia).
    apply nthZ_mid.
  - specialize (IH (fun q Hq => H q (or_intror Hq)) (pre ++ flatten (row_cells true r)) post row).
    rewrite len_app in IH. specialize (IH Hin).
    unfold all_cells in *. simpl concat. rewrite flatten_app.
    replace (pre ++ (flatten (row_cells true r) ++ flatten (concat (map (row_cells true) rows))) ++ post)
      with ((pre ++ flatten (row_cells true r)) ++ flatten (concat (map (row_cells true) rows)) ++ post)
      by (rewrite <- !app_assoc; reflexivity).
    exact IH.
Qed.

(* one row: the texts between starts and (adjusted) ends are the record's fields *)
Lemma row_texts crlf r pre post : r <> [] ->
  map (fun p => slice (fst p) (snd p) (pre ++ flatten (row_cells crlf r) ++ post))
      (combine (spos (len pre) (row_cells crlf r)) (adj crlf (dpos (len pre) (row_cells crlf r)))) = r.
Proof.
  intros Hne.
  destruct crlf.
  - (* CRLF: the last end moves one byte to the left *)
    unfold adj. rewrite dpos_row_split by exact Hne.
    set (init := map (fun f => (f, 9)) (removelast r)).
    unfold lastz, set_last. rewrite last_app_single, removelast_app_single.
    unfold row_cells. fold init. rewrite spos_app. simpl spos.
    rewrite combine_app' by (rewrite spos_length, dpos_length; reflexivity).
    rewrite map_app. simpl combine. simpl map.
    transitivity (removelast r ++ [last r []]); [|apply removelast_last; exact Hne]. f_equal.
    + rewrite flatten_app, <- app_assoc.
      rewrite (cells_texts init pre). unfold init. rewrite map_map. simpl. apply map_id.
    + f_equal. rewrite flatten_app, flatten_single.
      replace (pre ++ (flatten init ++ (last r [] ++ [13]) ++ [10]) ++ post)
        with ((pre ++ flatten init) ++ last r [] ++ ([13] ++ [10] ++ post)) by (rewrite <- !app_assoc; reflexivity).
      replace (len pre + len (flatten init)) with (len (pre ++ flatten init)) by (rewrite len_app; reflexivity).
      replace (len (pre ++ flatten init) + len (last r [] ++ [13]) - 1) with (len (pre ++ flatten init) + len (last r []))
        by (rewrite (len_app (last r [])), len_single; lia).
      apply slice_mid.
  - unfold adj. rewrite (cells_texts (row_cells false r) pre post).
    unfold row_cells. rewrite map_app, map_map. simpl. rewrite app_nil_r, map_id.
    apply removelast_last. exact Hne.
Qed.

Lemma rows_texts crlf rows : (forall r, In r rows -> r <> []) -> forall pre post,
  map (fun se => map (fun p => slice (fst p) (snd p) (pre ++ flatten (all_cells crlf rows) ++ post)) (combine (fst se) (snd se)))
      (combine (starts_rows crlf (len pre) rows) (map (adj crlf) (ends_rows crlf (len pre) rows))) = rows.
Proof.
  induction rows as [|r rows IH]; intros H pre post; [reflexivity|].
  assert (Hne : r <> []) by (apply H; left; reflexivity).
  simpl starts_rows. simpl ends_rows. simpl map at 2. simpl combine. simpl map. f_equal.
  - simpl fst. simpl snd. unfold all_cells. simpl concat. rewrite flatten_app, <- app_assoc.
    apply row_texts. exact Hne.
  - specialize (IH (fun q Hq => H q (or_intror Hq)) (pre ++ flatten (row_cells crlf r)) post).
    rewrite len_app in IH.
    unfold all_cells in *. simpl concat. rewrite flatten_app.
    replace (pre ++ (flatten (row_cells crlf r) ++ flatten (concat (map (row_cells crlf) rows))) ++ post)
      with ((pre ++ flatten (row_cells crlf r)) ++ flatten (concat (map (row_cells crlf) rows)) ++ post)
      by (rewrite <- !app_assoc; reflexivity).
    exact IH.
Qed.

(* an LF file of clean fields contains no CR at all *)
Lemma lf_no_cr rows : (forall r, In r rows -> r <> [] /\ forall f, In f r -> clean f) ->
  forall c, In c (flatten (all_cells false rows)) -> c <> 13.
Proof.
  intros H c Hc. unfold flatten in Hc. apply in_concat in Hc. destruct Hc as [l [Hl Hc]].
  apply in_map_iff in Hl. destruct Hl as [p [E Hp]]. subst l.
  unfold all_cells in Hp. apply in_concat in Hp. destruct Hp as [rc [Hrc Hp]].
  apply in_map_iff in Hrc. destruct Hrc as [r [E Hr]]. subst rc.
  destruct (H r Hr) as [Hne Hcl].
  apply in_app_or in Hc. unfold row_cells in Hp. apply in_app_or in Hp.
  destruct Hp as [Hp|Hp].
  - apply in_map_iff in Hp. destruct Hp as [f [E Hf]]. subst p. simpl in Hc.
    destruct Hc as [Hc|[Hc|[]]]; [|lia].
    assert (Hin : In f r) by (rewrite <- (removelast_last r []) by exact Hne; apply in_or_app; left; exact Hf).
    apply (Hcl f Hin c Hc).
  - destruct Hp as [E|[]]. subst p. simpl in Hc. rewrite app_nil_r in Hc.
    destruct Hc as [Hc|[Hc|[]]]; [|lia].
    assert (Hin : In (last r []) r) by (rewrite <- (removelast_last r []) at 2 by exact Hne; apply in_or_app; right; left; reflexivity).
    apply (Hcl _ Hin c Hc).
Qed.

Lemma cr_adjust_rows crlf rows : rows <> [] -> (forall r, In r rows -> r <> [] /\ forall f, In f r -> clean f) ->
  cr_adjust (flatten (all_cells crlf rows)) (ends_rows crlf 0 rows) = map (adj crlf) (ends_rows crlf 0 rows).
Proof.
  intros Hrows H.
  destruct crlf.
  - (* CRLF *)
    assert (Hall : forall row, In row (ends_rows true 0 rows) ->
               1 <= lastz row /\ nthZ (flatten (all_cells true rows)) (lastz row - 1) = 13).
    { intros row Hin. pose proof (crlf_before_eol rows (fun r Hr => proj1 (H r Hr)) [] [] row) as P.
      rewrite len_nil, app_nil_r in P. simpl app in P. apply P. exact Hin. }
    unfold cr_adjust, m_cr_probe, m_cr_adjust, m_cr_byte. destruct rows as [|r rows]; [congruence|].
    simpl ends_rows. simpl ends_rows in Hall.
    destruct (Hall _ (or_introl eq_refl)) as [H1 H13].
    set (file := flatten (all_cells true (r :: rows))) in *.
    assert (Hlen : len file <> 0).
    { intro E. apply len_zero_nil in E. unfold nthZ in H13. rewrite E in H13. destruct (Z.to_nat (lastz (dpos 0 (row_cells true r)) - 1)); discriminate. }
    destruct (Z.eqb_spec (len file) 0); [congruence|].
    destruct (Z.eqb_spec (lastz (dpos 0 (row_cells true r))) 0); [lia|]. simpl orb. cbv iota.
    rewrite H13. rewrite Z.eqb_refl.
    apply map_ext_in. intros row Hin. destruct (Hall row Hin) as [Ha Hb].
    unfold adj, py_get. destruct (Z.ltb_spec (lastz row - 1) 0); [lia|]. rewrite Hb, Z.eqb_refl. reflexivity.
  - (* LF: nothing to adjust *)
    unfold adj. rewrite map_id. unfold cr_adjust, m_cr_probe, m_cr_byte.
    destruct (ends_rows false 0 rows) as [|r0 rest] eqn:E; [reflexivity|].
    destruct ((len (flatten (all_cells false rows)) =? 0) || (lastz r0 =? 0)); [reflexivity|].
    destruct (Z.eqb_spec (nthZ (flatten (all_cells false rows)) (lastz r0 - 1)) 13) as [E13|]; [|reflexivity].
    exfalso. destruct (nthZ_In_or_0 (flatten (all_cells false rows)) (lastz r0 - 1)) as [Hin|H0]; [|lia].
    apply (lf_no_cr rows H _ Hin). exact E13.
Qed.

(* every start is >= 0 and every end lies inside the buffer *)
Lemma spos_ge o ps x : In x (spos o ps) -> o <= x.
Proof.
  revert o. induction ps as [|p ps IH]; intros o H; [contradiction|].
  simpl in H. destruct H as [E|H]; [lia|]. apply IH in H. pose proof (len_nonneg (fst p)). lia.
Qed.
Lemma dpos_le o ps x : In x (dpos o ps) -> x <= o + len (flatten ps) - 1.
Proof.
  revert o. induction ps as [|p ps IH]; intros o H; [contradiction|].
  rewrite len_flatten_cons. pose proof (len_nonneg (flatten ps)).
  simpl in H. destruct H as [E|H]; [lia|]. apply IH in H. lia.
Qed.
Lemma in_rows_concat {A} (x : A) row rows : In row rows -> In x row -> In x (concat rows).
Proof. intros H1 H2. apply in_concat. exists row. split; assumption. Qed.
Lemma flatten_len_pos ps : ps <> [] -> 1 <= len (flatten ps).
Proof.
  destruct ps as [|p ps]; [congruence|]. intros _. rewrite len_flatten_cons.
  pose proof (len_nonneg (fst p)). pose proof (len_nonneg (flatten ps)). lia.
Qed.
Lemma adj_le crlf row b : 0 <= b -> (forall e, In e row -> e <= b) -> forall e, In e (adj crlf row) -> e <= b.
Proof.
  intros Hb H e He. destruct crlf; [|apply H; exact He].
  unfold adj, set_last in He. apply in_app_or in He. destruct He as [He|[E|[]]].
  - apply H. apply removelast_In. exact He.
  - subst e. unfold lastz. destruct row as [|y row]; [simpl; lia|].
    pose proof (H _ (last_In (y :: row) 0 ltac:(discriminate))). lia.
Qed.

(* ---------- T1 ---------- *)
Theorem field_table_correct : forall (crlf : bool) (n : Z) (rows : list (list (list Z))),
  1 <= n -> rows <> [] ->
  (forall r, In r rows -> len r = n /\ forall f, In f r -> clean f) ->
  let file := lay (eol_of crlf) (map (intercalate [9]) rows) in
  exists t, delim_table 9 file = Some t /\ t_data t = file /\ table_fields t = rows /\ len (t_starts t) = len rows
            /\ (forall row s, In row (t_starts t) -> In s row -> 0 <= s)
            /\ (forall row e, In row (t_ends t) -> In e row -> e < len file).
Proof.
  intros crlf n rows Hn Hrows H file.
  assert (Hne : forall r, In r rows -> r <> []).
  { intros r Hr E. destruct (H r Hr) as [Hl _]. subst r. rewrite len_nil in Hl. lia. }
  assert (Hnl : forall r, In r rows -> r <> [] /\ len r = n) by (intros r Hr; split; [apply Hne; exact Hr|apply H; exact Hr]).
  assert (Hcl : forall r, In r rows -> r <> [] /\ forall f, In f r -> clean f) by (intros r Hr; split; [apply Hne; exact Hr|apply H; exact Hr]).
  assert (Hlen : forall r, In r rows -> r <> [] /\ length r = Z.to_nat n).
  { intros r Hr. destruct (Hnl r Hr) as [A B]. split; [exact A|]. unfold len in B. lia. }
  set (ps := all_cells crlf rows).
  assert (Hfile : file = flatten ps) by (apply file_flat; exact Hne).
  assert (Hok : cells_ok ps) by (apply all_cells_ok; exact Hcl).
  assert (Hdel : delim_positions 9 file = dpos 0 ps).
  { unfold delim_positions, flatnonzero. rewrite Hfile. apply delim_positions_cells. exact Hok. }
  assert (Hee : nl_indices file (dpos 0 ps) = nlist 0 n (length rows)).
  { unfold nl_indices, flatnonzero.
    pose proof (cells_delims ps [] []) as P. rewrite len_nil, app_nil_r in P. simpl app in P.
    rewrite <- Hfile in P.
    replace (map (fun d => nthZ file d =? 10) (dpos 0 ps)) with (map (fun x => x =? 10) (map (nthZ file) (dpos 0 ps)))
      by (rewrite map_map; reflexivity).
    rewrite P. apply nl_scan; assumption. }
  destruct rows as [|r0 rows']; [congruence|]. set (rows := r0 :: rows') in *.
  assert (HR : length rows = S (length rows')) by reflexivity.
  assert (Hpslen : length ps = (Z.to_nat n * length rows)%nat).
  { unfold ps, all_cells. rewrite (length_concat_const (Z.to_nat n)).
    - rewrite map_length. reflexivity.
    - intros x Hx. apply in_map_iff in Hx. destruct Hx as [r [E Hr]]. subst x.
      destruct (Hlen r Hr) as [A B]. rewrite row_cells_length; assumption. }
  assert (Hpsne : ps <> []).
  { intro E. rewrite E, HR in Hpslen. simpl length in Hpslen. lia. }
  unfold delim_table, m_n_fields, m_size, m_keep, m_sentinel, m_start. rewrite Hdel, Hee, HR. cbn [nlist].
  replace (0 + n - 1 + 1) with n by lia.
  change ((0 + n - 1) :: nlist (0 + n) n (length rows')) with (nlist 0 n (S (length rows'))).
  assert (Hlz : lastz (nlist 0 n (S (length rows'))) = len (dpos 0 ps) - 1).
  { unfold lastz. rewrite nlist_last. unfold len. rewrite dpos_length, Hpslen, HR. lia. }
  rewrite !Hlz.
  replace (len (dpos 0 ps) - 1 + 1) with (len (dpos 0 ps)) by lia.
  rewrite (firstn_all2 (dpos 0 ps)) by (unfold len; lia).
  rewrite nthZ_last by (intro E; apply (f_equal (@length Z)) in E; rewrite dpos_length in E; simpl in E; destruct ps; [congruence|discriminate]).
  rewrite dpos_last by exact Hpsne.
  replace (0 + len (flatten ps) - 1 + 1) with (len file) by (rewrite Hfile; lia).
  rewrite (firstn_all2 file) by (unfold len; lia).
  change (tl (-1 :: dpos 0 ps)) with (dpos 0 ps).
  pose proof (spos_dpos 0 ps Hpsne) as Hsp. replace (0 - 1) with (-1) in Hsp by lia. rewrite Hsp.
  unfold reshape.
  assert (Hmod : forall l : list Z, length l = length ps -> (0 <? n) && (len l mod n =? 0) = true).
  { intros l Hl. destruct (Z.ltb_spec 0 n); [|lia]. simpl. unfold len. rewrite Hl, Hpslen.
    rewrite Nat2Z.inj_mul, Z2Nat.id by lia. rewrite Z.mul_comm, Z.mod_mul by lia. reflexivity. }
  rewrite (Hmod (spos 0 ps)) by apply spos_length. rewrite (Hmod (dpos 0 ps)) by apply dpos_length.
  unfold ps at 1 2. rewrite spos_all, dpos_all.
  rewrite !chunks_of_concat; try lia.
  2:{ intros x Hx. eapply ends_rows_len; [exact Hlen|exact Hx]. }
  2:{ intros x Hx. eapply starts_rows_len; [exact Hlen|exact Hx]. }
  eexists. split; [reflexivity|]. cbn [t_data t_starts t_ends]. split; [reflexivity|]. split; [|split; [|split]].
  - unfold table_fields. cbn [t_data t_starts t_ends]. rewrite Hfile. unfold ps.
    rewrite cr_adjust_rows by (try exact Hcl; discriminate).
    pose proof (rows_texts crlf rows Hne [] []) as P. rewrite len_nil, app_nil_r in P. simpl app in P. exact P.
  - unfold len. rewrite starts_rows_length. reflexivity.
  - intros row s Hrow Hs. apply (spos_ge 0 ps). unfold ps. rewrite spos_all. eapply in_rows_concat; eassumption.
  - intros row e Hrow He. rewrite Hfile in Hrow. unfold ps in Hrow.
    rewrite cr_adjust_rows in Hrow by (try exact Hcl; discriminate).
    apply in_map_iff in Hrow. destruct Hrow as [row0 [E Hrow0]]. subst row.
    assert (Hpos : 1 <= len file) by (rewrite Hfile; apply flatten_len_pos; exact Hpsne).
    enough (e <= len file - 1) by lia. revert e He. apply adj_le; [lia|].
    intros e He. pose proof (dpos_le 0 ps e) as P. rewrite Hfile.
    assert (In e (dpos 0 ps)) by (unfold ps; rewrite dpos_all; eapply in_rows_concat; eassumption).
    specialize (P H0). lia.
Qed.

(* Proofs/C09.v — lemmas and main proofs for C09 (genomic arrays = dense per-base arrays). *)
From Coq Require Import ZArith List Bool Lia Arith.
From BNP Require Import Base.Prims Base.PrimsFacts Model.C09.
Import ListNotations.
Open Scope Z_scope.

(* ====================================================================================== *)
(* generic list facts                                                                      *)
(* ====================================================================================== *)
Lemma repeat_app_Z {A} (v : A) (n m : Z) : 0 <= n -> 0 <= m ->
  repeat v (Z.to_nat (n + m)) = repeat v (Z.to_nat n) ++ repeat v (Z.to_nat m).
Proof. intros Hn Hm. rewrite Z2Nat.inj_add by assumption. apply repeat_app. Qed.

Lemma last_cons {A} (x : A) l d : last (x :: l) d = last l x.
Proof. revert x d. induction l as [|y l IH]; intros x d; [reflexivity|].
  change (last (x :: y :: l) d) with (last (y :: l) d). rewrite (IH y d), (IH y x). reflexivity. Qed.

Lemma map2_app {A B C} (f : A -> B -> C) a1 a2 b1 b2 : length a1 = length b1 ->
  map2 f (a1 ++ a2) (b1 ++ b2) = map2 f a1 b1 ++ map2 f a2 b2.
Proof.
  revert b1. induction a1 as [|x a1 IH]; intros [|y b1] H; simpl in *; try discriminate; [reflexivity|].
  f_equal. apply IH. lia.
Qed.
Lemma map2_repeat {A B C} (f : A -> B -> C) x y n : map2 f (repeat x n) (repeat y n) = repeat (f x y) n.
Proof. induction n; simpl; [reflexivity|]. f_equal. assumption. Qed.
Lemma map2_length {A B C} (f : A -> B -> C) a b : length a = length b -> length (map2 f a b) = length a.
Proof. revert b. induction a as [|x a IH]; intros [|y b] H; simpl in *; try discriminate; [reflexivity|]. f_equal. apply IH. lia. Qed.
Lemma map_repeat {A B} (f : A -> B) x n : map f (repeat x n) = repeat (f x) n.
Proof. induction n; simpl; [reflexivity|]. f_equal. assumption. Qed.

(* ---------- tabulate ---------- *)
Lemma arange_from_app s n m : arange_from s (n + m) = arange_from s n ++ arange_from (s + Z.of_nat n) m.
Proof.
  revert s. induction n as [|n IH]; intros s; simpl.
  - f_equal. lia.
  - f_equal. rewrite IH. f_equal. f_equal. lia.
Qed.
Lemma tabulate_app {A} (f : Z -> A) s n m : 0 <= n -> 0 <= m ->
  tabulate f s (n + m) = tabulate f s n ++ tabulate f (s + n) m.
Proof.
  intros Hn Hm. unfold tabulate. rewrite Z2Nat.inj_add by assumption. rewrite arange_from_app, map_app.
  rewrite Z2Nat.id by assumption. reflexivity.
Qed.
Lemma tabulate_ext {A} (f g : Z -> A) s n : (forall p, s <= p < s + n -> f p = g p) -> tabulate f s n = tabulate g s n.
Proof.
  intros H. unfold tabulate. apply map_ext_in. intros p Hp. apply In_arange_from in Hp. apply H. lia.
Qed.
Lemma tabulate_const {A} (f : Z -> A) c s n : (forall p, s <= p < s + n -> f p = c) -> tabulate f s n = repeat c (Z.to_nat n).
Proof.
  intros H. unfold tabulate.
  assert (G : forall k s', s <= s' -> s' + Z.of_nat k <= s + Z.max 0 n -> map f (arange_from s' k) = repeat c k).
  { induction k as [|k IH]; intros s' H1 H2; simpl; [reflexivity|]. f_equal; [apply H; lia|apply IH; lia]. }
  apply G; lia.
Qed.
Lemma tabulate_nil {A} (f : Z -> A) s n : n <= 0 -> tabulate f s n = [].
Proof. intros H. unfold tabulate. replace (Z.to_nat n) with O by lia. reflexivity. Qed.
Lemma tabulate_length {A} (f : Z -> A) s n : len (tabulate f s n) = Z.max 0 n.
Proof.
  unfold tabulate, len. rewrite map_length.
  assert (G : forall k s', length (arange_from s' k) = k) by (induction k; intros; simpl; [reflexivity|f_equal; apply IHk]).
  rewrite G. lia.
Qed.
Lemma tabulate_shift {A} (f : Z -> A) s n d : tabulate f (s + d) n = tabulate (fun p => f (p + d)) s n.
Proof.
  unfold tabulate. generalize (Z.to_nat n). intros k. revert s. induction k as [|k IH]; intros s; simpl; [reflexivity|].
  f_equal. replace (s + d + 1) with (s + 1 + d) by lia. apply IH.
Qed.

(* ====================================================================================== *)
(* increasing event lists                                                                  *)
(* ====================================================================================== *)
Lemma increasing_from_app p l1 l2 :
  increasing_from p (l1 ++ l2) = increasing_from p l1 && increasing_from (last l1 p) l2.
Proof.
  revert p. induction l1 as [|x l1 IH]; intros p; [reflexivity|].
  cbn [app increasing_from]. rewrite IH, last_cons, andb_assoc. reflexivity.
Qed.
Lemma increasing_last p l : increasing_from p l = true -> p <= last l p /\ (l <> [] -> p < last l p).
Proof.
  revert p. induction l as [|x l IH]; intros p H; [simpl; split; [lia|congruence]|].
  cbn [increasing_from] in H. apply andb_prop in H. destruct H as [H1 H2]. apply Z.ltb_lt in H1.
  specialize (IH x H2). destruct IH as [IH1 IH2]. rewrite last_cons. split; [lia|intros _; lia].
Qed.
Lemma increasing_weaken p q l : q <= p -> increasing_from p l = true -> increasing_from q l = true.
Proof.
  intros Hq H. destruct l as [|x l]; [reflexivity|]. simpl in *.
  apply andb_prop in H. destruct H as [H1 H2]. apply Z.ltb_lt in H1. rewrite H2, andb_true_r. apply Z.ltb_lt. lia.
Qed.

(* ====================================================================================== *)
(* T1: to_array (scatter the xor-differences, xor-accumulate) = expand                      *)
(* ====================================================================================== *)
Lemma vxor_cancel a b : vxor a (vxor a b) = b.
Proof.
  destruct a as [a1 a2], b as [b1 b2]. unfold vxor. simpl.
  rewrite <- !Z.lxor_assoc, !Z.lxor_nilpotent, !Z.lxor_0_l. reflexivity.
Qed.
Lemma vxor_zero_r a : vxor a vzero = a.
Proof. destruct a. unfold vxor, vzero. simpl. rewrite !Z.lxor_0_r. reflexivity. Qed.
Lemma vxor_zero_l a : vxor vzero a = a.
Proof. destruct a. unfold vxor, vzero. simpl. reflexivity. Qed.

Lemma scan_zeros acc p k idx vs : (idx = [] \/ vs = []) ->
  xor_accumulate acc (scatter_from p k idx vs) = repeat acc k.
Proof.
  intros H. revert p. induction k as [|k IH]; intros p; [reflexivity|].
  assert (E : scatter_from p (S k) idx vs = vzero :: scatter_from (p + 1) k idx vs).
  { simpl. destruct H; subst; [reflexivity|]. destruct idx; reflexivity. }
  rewrite E. simpl. rewrite vxor_zero_r. f_equal. apply IH.
Qed.

Lemma xdiffs_cons2 a b l : xdiffs (a :: b :: l) = vxor a b :: xdiffs (b :: l).
Proof. reflexivity. Qed.

(* position p, accumulated value acc (the value of the run we are in), next run starts at i0 *)
Lemma scan_scatter : forall k p acc i0 idx' w0 ws N,
  p + Z.of_nat k = N -> p <= i0 -> increasing_from i0 (idx' ++ [N]) = true -> length idx' = length ws ->
  xor_accumulate acc (scatter_from p k (i0 :: idx') (vxor acc w0 :: xdiffs (w0 :: ws)))
  = repeat acc (Z.to_nat (i0 - p)) ++ expand_from i0 (idx' ++ [N]) (w0 :: ws).
Proof.
  induction k as [|k IH]; intros p acc i0 idx' w0 ws N HN Hp Hinc Hlen.
  - (* no room left: impossible, i0 < N = p *)
    exfalso. apply increasing_last in Hinc. destruct Hinc as [_ H].
    assert (idx' ++ [N] <> []) by (destruct idx'; discriminate).
    specialize (H H0). rewrite last_last in H. lia.
  - cbn [scatter_from]. destruct (Z.eqb_spec i0 p) as [E|E].
    + subst i0. replace (Z.to_nat (p - p)) with O by lia. cbn [repeat app xor_accumulate].
      rewrite vxor_cancel.
      destruct idx' as [|i1 idx''], ws as [|w1 ws']; try discriminate.
      * (* last run *)
        rewrite scan_zeros by (left; reflexivity).
        cbn [app expand_from]. rewrite app_nil_r.
        replace (Z.to_nat (N - p)) with (S k) by lia. reflexivity.
      * rewrite xdiffs_cons2.
        cbn [app] in Hinc. cbn [increasing_from] in Hinc. apply andb_prop in Hinc. destruct Hinc as [H1 H2].
        apply Z.ltb_lt in H1.
        rewrite (IH (p + 1) w0 i1 idx'' w1 ws' N); try lia; try assumption; [|simpl in Hlen; lia].
        cbn [app expand_from].
        replace (Z.to_nat (i1 - p)) with (S (Z.to_nat (i1 - (p + 1)))) by lia.
        reflexivity.
    + cbn [xor_accumulate]. rewrite vxor_zero_r.
      rewrite (IH (p + 1) acc i0 idx' w0 ws N); try lia; try assumption.
      replace (Z.to_nat (i0 - p)) with (S (Z.to_nat (i0 - (p + 1)))) by lia. reflexivity.
Qed.

Lemma removelast_cons {A} (x y : A) l : removelast (x :: y :: l) = x :: removelast (y :: l).
Proof. reflexivity. Qed.

Theorem to_array_expand : forall r, wf_rle r = true -> to_array r = expand r.
Proof.
  intros [ev vs] Hwf. unfold wf_rle in Hwf. cbn [fst snd] in Hwf.
  destruct ev as [|e0 rest]; [discriminate|].
  apply andb_prop in Hwf. destruct Hwf as [Hwf Hlen]. apply andb_prop in Hwf. destruct Hwf as [H0 Hinc].
  apply Z.eqb_eq in H0. subst e0. apply Z.eqb_eq in Hlen. unfold len in Hlen. apply Nat2Z.inj in Hlen.
  unfold to_array, expand, rle_len. cbn [fst snd].
  destruct rest as [|e1 rest'].
  - destruct vs; [|discriminate]. reflexivity.
  - destruct vs as [|v0 ws]; [discriminate|].
    rewrite last_cons.
    pose proof (increasing_last 0 (e1 :: rest') Hinc) as [_ Hl]. specialize (Hl ltac:(discriminate)).
    set (N := last (e1 :: rest') 0) in *.
    destruct (Z.eqb_spec N 0) as [E|E]; [lia|].
    rewrite removelast_cons.
    assert (Hsplit : e1 :: rest' = removelast (e1 :: rest') ++ [N]) by (apply app_removelast_last; discriminate).
    rewrite <- (vxor_zero_l v0) at 1.
    rewrite (scan_scatter (Z.to_nat N) 0 vzero 0 (removelast (e1 :: rest')) v0 ws N); try lia.
    + replace (Z.to_nat (0 - 0)) with O by lia. cbn [repeat app]. rewrite <- Hsplit. reflexivity.
    + rewrite <- Hsplit. exact Hinc.
    + assert (length (e1 :: rest') = length (removelast (e1 :: rest')) + 1)%nat.
      { rewrite Hsplit at 1. rewrite app_length. reflexivity. }
      simpl length in *. lia.
Qed.

(* ====================================================================================== *)
(* T2: from_bedgraph expands to the dense array the records describe                        *)
(* ====================================================================================== *)
Lemma cover_at_head fill s e v rest p : s <= p < e -> cover_at fill ((s, e, v) :: rest) p = v.
Proof.
  intros H. unfold cover_at. cbn [find covers].
  replace ((s <=? p) && (p <? e)) with true; [reflexivity|].
  symmetry. apply andb_true_intro. split; [apply Z.leb_le|apply Z.ltb_lt]; lia.
Qed.
Lemma cover_at_skip fill s e v rest p : p < s \/ e <= p -> cover_at fill ((s, e, v) :: rest) p = cover_at fill rest p.
Proof.
  intros H. unfold cover_at. cbn [find covers].
  replace ((s <=? p) && (p <? e)) with false; [reflexivity|].
  symmetry. apply andb_false_iff. destruct H; [left; apply Z.leb_gt|right; apply Z.ltb_ge]; lia.
Qed.
Lemma sorted_disjoint_cons lo s e v r :
  sorted_disjoint lo ((s, e, v) :: r) = true -> lo <= s /\ s < e /\ sorted_disjoint e r = true.
Proof.
  cbn [sorted_disjoint]. intros H. apply andb_prop in H. destruct H as [H H3]. apply andb_prop in H. destruct H as [H1 H2].
  apply Z.leb_le in H1. apply Z.ltb_lt in H2. auto.
Qed.
Lemma cover_at_before fill lo recs p : sorted_disjoint lo recs = true -> p < lo -> cover_at fill recs p = fill.
Proof.
  revert lo. induction recs as [|[[s e] v] rest IH]; intros lo H Hp; [reflexivity|].
  apply sorted_disjoint_cons in H. destruct H as (H1 & H2 & H3).
  rewrite cover_at_skip by lia. apply (IH e); [assumption|lia].
Qed.
Lemma last_stop_cons r r2 rest : last_stop (r :: r2 :: rest) = last_stop (r2 :: rest).
Proof. unfold last_stop. rewrite !last_cons. reflexivity. Qed.
Lemma sorted_last_stop lo recs : sorted_disjoint lo recs = true -> recs <> [] -> lo < last_stop recs.
Proof.
  revert lo. induction recs as [|[[s e] v] rest IH]; intros lo H Hne; [congruence|].
  apply sorted_disjoint_cons in H. destruct H as (H1 & H2 & H3).
  destruct rest as [|r2 rest'].
  - unfold last_stop. simpl. lia.
  - rewrite last_stop_cons. specialize (IH e H3 ltac:(discriminate)). lia.
Qed.
Lemma cover_at_after fill lo recs p : sorted_disjoint lo recs = true -> last_stop recs <= p -> recs <> [] ->
  cover_at fill recs p = fill.
Proof.
  revert lo. induction recs as [|[[s e] v] rest IH]; intros lo H Hp Hne; [reflexivity|].
  apply sorted_disjoint_cons in H. destruct H as (H1 & H2 & H3).
  destruct rest as [|r2 rest'].
  - unfold last_stop in Hp. simpl in Hp. rewrite cover_at_skip by lia. reflexivity.
  - rewrite last_stop_cons in Hp.
    pose proof (sorted_last_stop e (r2 :: rest') H3 ltac:(discriminate)).
    rewrite cover_at_skip by lia. apply (IH e); [assumption|assumption|discriminate].
Qed.

(* the run-length encoding of the record part: from the first start to the last stop *)
Lemma fill_gaps_expand : forall recs lo s e v,
  sorted_disjoint lo ((s, e, v) :: recs) = true ->
  exists ss' vs, fill_gaps ((s, e, v) :: recs) = (s :: ss', vs)
    /\ length vs = S (length ss')
    /\ increasing_from s (ss' ++ [last_stop ((s, e, v) :: recs)]) = true
    /\ forall tailE tailV,
         expand_from s (ss' ++ [last_stop ((s, e, v) :: recs)] ++ tailE) (vs ++ tailV)
         = tabulate (cover_at vzero ((s, e, v) :: recs)) s (last_stop ((s, e, v) :: recs) - s)
           ++ expand_from (last_stop ((s, e, v) :: recs)) tailE tailV.
Proof.
  unfold rec1. induction recs as [|[[s2 e2] v2] rest IH]; intros lo s e v H.
  - apply sorted_disjoint_cons in H. destruct H as (H1 & H2 & _).
    exists [], [v]. unfold last_stop. cbn [last fill_gaps app length]. repeat split.
    + cbn [increasing_from]. rewrite andb_true_r. apply Z.ltb_lt. assumption.
    + intros tailE tailV. cbn [expand_from]. f_equal. symmetry. apply tabulate_const.
      intros p Hp. apply cover_at_head. lia.
  - pose proof H as Hall.
    apply sorted_disjoint_cons in H. destruct H as (H1 & H2 & H3).
    destruct (IH e s2 e2 v2 H3) as (ss2 & vs2 & Efill & Elen & Einc & Eexp).
    pose proof (sorted_disjoint_cons _ _ _ _ _ H3) as (H4 & H5 & H6).
    rewrite last_stop_cons.
    pose proof (sorted_last_stop e _ H3 ltac:(discriminate)) as HL.
    remember (last_stop ((s2, e2, v2) :: rest)) as L eqn:EL.
    assert (HL2 : s2 < L).
    { pose proof (increasing_last s2 _ Einc) as [_ X]. specialize (X ltac:(destruct ss2; discriminate)).
      rewrite last_last in X. exact X. }
    change (fill_gaps ((s, e, v) :: (s2, e2, v2) :: rest))
      with (let '(ss, vs) := fill_gaps ((s2, e2, v2) :: rest) in
            if s2 =? e then (s :: ss, v :: vs) else (s :: e :: ss, v :: vzero :: vs)).
    rewrite Efill. destruct (Z.eqb_spec s2 e) as [E|E].
    + subst s2. exists (e :: ss2), (v :: vs2). repeat split.
      * simpl. lia.
      * cbn [app increasing_from]. rewrite Einc, andb_true_r. apply Z.ltb_lt. assumption.
      * intros tailE tailV. cbn [app expand_from]. rewrite (Eexp tailE tailV).
        replace (L - s) with ((e - s) + (L - e)) by lia.
        rewrite tabulate_app by lia. rewrite <- app_assoc. f_equal.
        -- symmetry. apply tabulate_const. intros p Hp. apply cover_at_head. lia.
        -- f_equal. replace (s + (e - s)) with e by lia. apply tabulate_ext. intros p Hp.
           symmetry. apply cover_at_skip. lia.
    + exists (e :: s2 :: ss2), (v :: vzero :: vs2). repeat split.
      * simpl. lia.
      * cbn [app increasing_from]. rewrite Einc, andb_true_r.
        apply andb_true_intro. split; apply Z.ltb_lt; lia.
      * intros tailE tailV. cbn [app expand_from]. rewrite (Eexp tailE tailV).
        replace (L - s) with ((e - s) + ((s2 - e) + (L - s2))) by lia.
        rewrite tabulate_app by lia. rewrite tabulate_app by lia. rewrite <- !app_assoc. f_equal; [|f_equal].
        -- symmetry. apply tabulate_const. intros p Hp. apply cover_at_head. lia.
        -- symmetry. apply tabulate_const. intros p Hp. rewrite cover_at_skip by lia.
           apply (cover_at_before vzero s2); [|lia].
           cbn [sorted_disjoint]. rewrite H6, andb_true_r.
           apply andb_true_intro. split; [apply Z.leb_le|apply Z.ltb_lt]; lia.
        -- f_equal. replace (s + (e - s) + (s2 - e)) with s2 by lia. apply tabulate_ext. intros p Hp.
           symmetry. apply cover_at_skip. lia.
Qed.

(* Proofs/C09.v — lemmas and main proofs for C09 (genomic arrays = dense per-base arrays). *)
From Coq Require Import ZArith List Bool Lia Arith.
From BNP Require Import Base.Prims Base.PrimsFacts Model.C09.
Import ListNotations.
Open Scope Z_scope.

(* ====================================================================================== *)
(* generic list facts                                                                      *)
(* ====================================================================================== *)
Lemma repeat_app_Z {A} (v : A) (n m : Z) : 0 <= n -> 0 <= m ->
  repeat v (Z.to_nat (n + m)) = repeat v (Z.to_nat n) ++ repeat v (Z.to_nat m).
Proof. intros Hn Hm. rewrite Z2Nat.inj_add by assumption. apply repeat_app. Qed.

Lemma last_cons {A} (x : A) l d : last (x :: l) d = last l x.
Proof. revert x d. induction l as [|y l IH]; intros x d; [reflexivity|].
  change (last (x :: y :: l) d) with (last (y :: l) d). rewrite (IH y d), (IH y x). reflexivity. Qed.

Lemma map2_app {A B C} (f : A -> B -> C) a1 a2 b1 b2 : length a1 = length b1 ->
  map2 f (a1 ++ a2) (b1 ++ b2) = map2 f a1 b1 ++ map2 f a2 b2.
Proof.
  revert b1. induction a1 as [|x a1 IH]; intros [|y b1] H; simpl in *; try discriminate; [reflexivity|].
  f_equal. apply IH. lia.
Qed.
Lemma map2_repeat {A B C} (f : A -> B -> C) x y n : map2 f (repeat x n) (repeat y n) = repeat (f x y) n.
Proof. induction n; simpl; [reflexivity|]. f_equal. assumption. Qed.
Lemma map2_length {A B C} (f : A -> B -> C) a b : length a = length b -> length (map2 f a b) = length a.
Proof. revert b. induction a as [|x a IH]; intros [|y b] H; simpl in *; try discriminate; [reflexivity|]. f_equal. apply IH. lia. Qed.
Lemma map_repeat {A B} (f : A -> B) x n : map f (repeat x n) = repeat (f x) n.
Proof. induction n; simpl; [reflexivity|]. f_equal. assumption. Qed.

(* ---------- tabulate ---------- *)
Lemma arange_from_app s n m : arange_from s (n + m) = arange_from s n ++ arange_from (s + Z.of_nat n) m.
Proof.
  revert s. induction n as [|n IH]; intros s; simpl.
  - f_equal. lia.
  - f_equal. rewrite IH. f_equal. f_equal. lia.
Qed.
Lemma tabulate_app {A} (f : Z -> A) s n m : 0 <= n -> 0 <= m ->
  tabulate f s (n + m) = tabulate f s n ++ tabulate f (s + n) m.
Proof.
  intros Hn Hm. unfold tabulate. rewrite Z2Nat.inj_add by assumption. rewrite arange_from_app, map_app.
  rewrite Z2Nat.id by assumption. reflexivity.
Qed.
Lemma tabulate_ext {A} (f g : Z -> A) s n : (forall p, s <= p < s + n -> f p = g p) -> tabulate f s n = tabulate g s n.
Proof.
  intros H. unfold tabulate. apply map_ext_in. intros p Hp. apply In_arange_from in Hp. apply H. lia.
Qed.
Lemma tabulate_const {A} (f : Z -> A) c s n : (forall p, s <= p < s + n -> f p = c) -> tabulate f s n = repeat c (Z.to_nat n).
Proof.
  intros H. unfold tabulate.
  assert (G : forall k s', s <= s' -> s' + Z.of_nat k <= s + Z.max 0 n -> map f (arange_from s' k) = repeat c k).
  { induction k as [|k IH]; intros s' H1 H2; simpl; [reflexivity|]. f_equal; [apply H; lia|apply IH; lia]. }
  apply G; lia.
Qed.
Lemma tabulate_nil {A} (f : Z -> A) s n : n <= 0 -> tabulate f s n = [].
Proof. intros H. unfold tabulate. replace (Z.to_nat n) with O by lia. reflexivity. Qed.
Lemma tabulate_length {A} (f : Z -> A) s n : len (tabulate f s n) = Z.max 0 n.
Proof.
  unfold tabulate, len. rewrite map_length.
  assert (G : forall k s', length (arange_from s' k) = k) by (induction k; intros; simpl; [reflexivity|f_equal; apply IHk]).
  rewrite G. lia.
Qed.
Lemma tabulate_shift {A} (f : Z -> A) s n d : tabulate f (s + d) n = tabulate (fun p => f (p + d)) s n.
Proof.
  unfold tabulate. generalize (Z.to_nat n). intros k. revert s. induction k as [|k IH]; intros s; simpl; [reflexivity|].
  f_equal. replace (s + d + 1) with (s + 1 + d) by lia. apply IH.
Qed.

(* ====================================================================================== *)
(* increasing event lists                                                                  *)
(* ====================================================================================== *)
Lemma increasing_from_app p l1 l2 :
  increasing_from p (l1 ++ l2) = increasing_from p l1 && increasing_from (last l1 p) l2.
Proof.
  revert p. induction l1 as [|x l1 IH]; intros p; [reflexivity|].
  cbn [app increasing_from]. rewrite IH, last_cons, andb_assoc. reflexivity.
Qed.
Lemma increasing_last p l : increasing_from p l = true -> p <= last l p /\ (l <> [] -> p < last l p).
Proof.
  revert p. induction l as [|x l IH]; intros p H; [simpl; split; [lia|congruence]|].
  cbn [increasing_from] in H. apply andb_prop in H. destruct H as [H1 H2]. apply Z.ltb_lt in H1.
  specialize (IH x H2). destruct IH as [IH1 IH2]. rewrite last_cons. split; [lia|intros _; lia].
Qed.
Lemma increasing_weaken p q l : q <= p -> increasing_from p l = true -> increasing_from q l = true.
Proof.
  intros Hq H. destruct l as [|x l]; [reflexivity|]. simpl in *.
  apply andb_prop in H. destruct H as [H1 H2]. apply Z.ltb_lt in H1. rewrite H2, andb_true_r. apply Z.ltb_lt. lia.
Qed.

(* ====================================================================================== *)
(* T1: to_array (scatter the xor-differences, xor-accumulate) = expand                      *)
(* ====================================================================================== *)
Lemma vxor_cancel a b : vxor a (vxor a b) = b.
Proof.
  destruct a as [a1 a2], b as [b1 b2]. unfold vxor. simpl.
  rewrite <- !Z.lxor_assoc, !Z.lxor_nilpotent, !Z.lxor_0_l. reflexivity.
Qed.
Lemma vxor_zero_r a : vxor a vzero = a.
Proof. destruct a. unfold vxor, vzero. simpl. rewrite !Z.lxor_0_r. reflexivity. Qed.
Lemma vxor_zero_l a : vxor vzero a = a.
Proof. destruct a. unfold vxor, vzero. simpl. reflexivity. Qed.

Lemma scan_zeros acc p k idx vs : (idx = [] \/ vs = []) ->
  xor_accumulate acc (scatter_from p k idx vs) = repeat acc k.
Proof.
  intros H. revert p. induction k as [|k IH]; intros p; [reflexivity|].
  assert (E : scatter_from p (S k) idx vs = vzero :: scatter_from (p + 1) k idx vs).
  { simpl. destruct H; subst; [reflexivity|]. destruct idx; reflexivity. }
  rewrite E. simpl. rewrite vxor_zero_r. f_equal. apply IH.
Qed.

Lemma xdiffs_cons2 a b l : xdiffs (a :: b :: l) = vxor a b :: xdiffs (b :: l).
Proof. reflexivity. Qed.

(* position p, accumulated value acc (the value of the run we are in), next run starts at i0 *)
Lemma scan_scatter : forall k p acc i0 idx' w0 ws N,
  p + Z.of_nat k = N -> p <= i0 -> increasing_from i0 (idx' ++ [N]) = true -> length idx' = length ws ->
  xor_accumulate acc (scatter_from p k (i0 :: idx') (vxor acc w0 :: xdiffs (w0 :: ws)))
  = repeat acc (Z.to_nat (i0 - p)) ++ expand_from i0 (idx' ++ [N]) (w0 :: ws).
Proof.
  induction k as [|k IH]; intros p acc i0 idx' w0 ws N HN Hp Hinc Hlen.
  - (* no room left: impossible, i0 < N = p *)
    exfalso. apply increasing_last in Hinc. destruct Hinc as [_ H].
    assert (idx' ++ [N] <> []) by (destruct idx'; discriminate).
    specialize (H H0). rewrite last_last in H. lia.
  - cbn [scatter_from]. destruct (Z.eqb_spec i0 p) as [E|E].
    + subst i0. replace (Z.to_nat (p - p)) with O by lia. cbn [repeat app xor_accumulate].
      rewrite vxor_cancel.
      destruct idx' as [|i1 idx''], ws as [|w1 ws']; try discriminate.
      * (* last run *)
        rewrite scan_zeros by (left; reflexivity).
        cbn [app expand_from]. rewrite app_nil_r.
        replace (Z.to_nat (N - p)) with (S k) by lia. reflexivity.
      * rewrite xdiffs_cons2.
        cbn [app] in Hinc. cbn [increasing_from] in Hinc. apply andb_prop in Hinc. destruct Hinc as [H1 H2].
        apply Z.ltb_lt in H1.
        rewrite (IH (p + 1) w0 i1 idx'' w1 ws' N); try lia; try assumption; [|simpl in Hlen; lia].
        cbn [app expand_from].
        replace (Z.to_nat (i1 - p)) with (S (Z.to_nat (i1 - (p + 1)))) by lia.
        reflexivity.
    + cbn [xor_accumulate]. rewrite vxor_zero_r.
      rewrite (IH (p + 1) acc i0 idx' w0 ws N); try lia; try assumption.
      replace (Z.to_nat (i0 - p)) with (S (Z.to_nat (i0 - (p + 1)))) by lia. reflexivity.
Qed.

Lemma removelast_cons {A} (x y : A) l : removelast (x :: y :: l) = x :: removelast (y :: l).
Proof. reflexivity. Qed.

Theorem to_array_expand : forall r, wf_rle r = true -> to_array r = expand r.
Proof.
  intros [ev vs] Hwf. unfold wf_rle in Hwf. cbn [fst snd] in Hwf.
  destruct ev as [|e0 rest]; [discriminate|].
  apply andb_prop in Hwf. destruct Hwf as [Hwf Hlen]. apply andb_prop in Hwf. destruct Hwf as [H0 Hinc].
  apply Z.eqb_eq in H0. subst e0. apply Z.eqb_eq in Hlen. unfold len in Hlen. apply Nat2Z.inj in Hlen.
  unfold to_array, expand, rle_len. cbn [fst snd].
  destruct rest as [|e1 rest'].
  - destruct vs; [|discriminate]. reflexivity.
  - destruct vs as [|v0 ws]; [discriminate|].
    rewrite last_cons.
    pose proof (increasing_last 0 (e1 :: rest') Hinc) as [_ Hl]. specialize (Hl ltac:(discriminate)).
    set (N := last (e1 :: rest') 0) in *.
    destruct (Z.eqb_spec N 0) as [E|E]; [lia|].
    rewrite removelast_cons.
    assert (Hsplit : e1 :: rest' = removelast (e1 :: rest') ++ [N]) by (apply app_removelast_last; discriminate).
    rewrite <- (vxor_zero_l v0) at 1.
    rewrite (scan_scatter (Z.to_nat N) 0 vzero 0 (removelast (e1 :: rest')) v0 ws N); try lia.
    + replace (Z.to_nat (0 - 0)) with O by lia. cbn [repeat app]. rewrite <- Hsplit. reflexivity.
    + rewrite <- Hsplit. exact Hinc.
    + assert (length (e1 :: rest') = length (removelast (e1 :: rest')) + 1)%nat.
      { rewrite Hsplit at 1. rewrite app_length. reflexivity. }
      simpl length in *. lia.
Qed.

(* ====================================================================================== *)
(* T2: from_bedgraph expands to the dense array the records describe                        *)
(* ====================================================================================== *)
Lemma cover_at_head fill s e v rest p : s <= p < e -> cover_at fill ((s, e, v) :: rest) p = v.
Proof.
  intros H. unfold cover_at. cbn [find covers].
  replace ((s <=? p) && (p <? e)) with true; [reflexivity|].
  symmetry. apply andb_true_intro. split; [apply Z.leb_le|apply Z.ltb_lt]; lia.
Qed.
Lemma cover_at_skip fill s e v rest p : p < s \/ e <= p -> cover_at fill ((s, e, v) :: rest) p = cover_at fill rest p.
Proof.
  intros H. unfold cover_at. cbn [find covers].
  replace ((s <=? p) && (p <? e)) with false; [reflexivity|].
  symmetry. apply andb_false_iff. destruct H; [left; apply Z.leb_gt|right; apply Z.ltb_ge]; lia.
Qed.
Lemma sorted_disjoint_cons lo s e v r :
  sorted_disjoint lo ((s, e, v) :: r) = true -> lo <= s /\ s < e /\ sorted_disjoint e r = true.
Proof.
  cbn [sorted_disjoint]. intros H. apply andb_prop in H. destruct H as [H H3]. apply andb_prop in H. destruct H as [H1 H2].
  apply Z.leb_le in H1. apply Z.ltb_lt in H2. auto.
Qed.
Lemma cover_at_before fill lo recs p : sorted_disjoint lo recs = true -> p < lo -> cover_at fill recs p = fill.
Proof.
  revert lo. induction recs as [|[[s e] v] rest IH]; intros lo H Hp; [reflexivity|].
  apply sorted_disjoint_cons in H. destruct H as (H1 & H2 & H3).
  rewrite cover_at_skip by lia. apply (IH e); [assumption|lia].
Qed.
Lemma last_stop_cons r r2 rest : last_stop (r :: r2 :: rest) = last_stop (r2 :: rest).
Proof. unfold last_stop. rewrite !last_cons. reflexivity. Qed.
Lemma sorted_last_stop lo recs : sorted_disjoint lo recs = true -> recs <> [] -> lo < last_stop recs.
Proof.
  revert lo. induction recs as [|[[s e] v] rest IH]; intros lo H Hne; [congruence|].
  apply sorted_disjoint_cons in H. destruct H as (H1 & H2 & H3).
  destruct rest as [|r2 rest'].
  - unfold last_stop. simpl. lia.
  - rewrite last_stop_cons. specialize (IH e H3 ltac:(discriminate)). lia.
Qed.
Lemma cover_at_after fill lo recs p : sorted_disjoint lo recs = true -> last_stop recs <= p -> recs <> [] ->
  cover_at fill recs p = fill.
Proof.
  revert lo. induction recs as [|[[s e] v] rest IH]; intros lo H Hp Hne; [reflexivity|].
  apply sorted_disjoint_cons in H. destruct H as (H1 & H2 & H3).
  destruct rest as [|r2 rest'].
  - unfold last_stop in Hp. simpl in Hp. rewrite cover_at_skip by lia. reflexivity.
  - rewrite last_stop_cons in Hp.
    pose proof (sorted_last_stop e (r2 :: rest') H3 ltac:(discriminate)).
    rewrite cover_at_skip by lia. apply (IH e); [assumption|assumption|discriminate].
Qed.

(* the run-length encoding of the record part: from the first start to the last stop *)
Lemma fill_gaps_expand : forall recs lo s e v,
  sorted_disjoint lo ((s, e, v) :: recs) = true ->
  exists ss' vs, fill_gaps ((s, e, v) :: recs) = (s :: ss', vs)
    /\ length vs = S (length ss')
    /\ increasing_from s (ss' ++ [last_stop ((s, e, v) :: recs)]) = true
    /\ forall tailE tailV,
         expand_from s (ss' ++ last_stop ((s, e, v) :: recs) :: tailE) (vs ++ tailV)
         = tabulate (cover_at vzero ((s, e, v) :: recs)) s (last_stop ((s, e, v) :: recs) - s)
           ++ expand_from (last_stop ((s, e, v) :: recs)) tailE tailV.
Proof.
  induction recs as [|[[s2 e2] v2] rest IH]; intros lo s e v H.
  - apply sorted_disjoint_cons in H. destruct H as (H1 & H2 & _).
    exists [], [v]. unfold last_stop. cbn [last fill_gaps app length]. repeat split.
    + cbn [increasing_from]. rewrite andb_true_r. apply Z.ltb_lt. assumption.
    + intros tailE tailV. cbn [expand_from]. f_equal. symmetry. apply tabulate_const.
      intros p Hp. apply cover_at_head. lia.
  - pose proof H as Hall.
    apply sorted_disjoint_cons in H. destruct H as (H1 & H2 & H3).
    destruct (IH e s2 e2 v2 H3) as (ss2 & vs2 & Efill & Elen & Einc & Eexp).
    pose proof (sorted_disjoint_cons _ _ _ _ _ H3) as (H4 & H5 & H6).
    rewrite last_stop_cons.
    pose proof (sorted_last_stop e _ H3 ltac:(discriminate)) as HL.
    remember (last_stop ((s2, e2, v2) :: rest)) as L eqn:EL.
    assert (HL2 : s2 < L).
    { pose proof (increasing_last s2 _ Einc) as [_ X]. specialize (X ltac:(destruct ss2; discriminate)).
      rewrite last_last in X. exact X. }
    change (fill_gaps ((s, e, v) :: (s2, e2, v2) :: rest))
      with (let '(ss, vs) := fill_gaps ((s2, e2, v2) :: rest) in
            if m_bg_is_gap s2 e then (s :: e :: ss, v :: vint m_bg_gap_value :: vs) else (s :: ss, v :: vs)).
    rewrite Efill. unfold m_bg_is_gap. change (vint m_bg_gap_value) with vzero.
    destruct (Z.eqb_spec s2 e) as [E|E]; cbn [negb].
    + subst s2. exists (e :: ss2), (v :: vs2). repeat split.
      * simpl. lia.
      * cbn [app increasing_from]. rewrite Einc, andb_true_r. apply Z.ltb_lt. assumption.
      * intros tailE tailV. cbn [app expand_from]. rewrite (Eexp tailE tailV).
        replace (L - s) with ((e - s) + (L - e)) by lia.
        rewrite tabulate_app by lia. rewrite <- app_assoc. f_equal.
        -- symmetry. apply tabulate_const. intros p Hp. apply cover_at_head. lia.
        -- f_equal. replace (s + (e - s)) with e by lia. apply tabulate_ext. intros p Hp.
           symmetry. apply cover_at_skip. lia.
    + exists (e :: s2 :: ss2), (v :: vzero :: vs2). repeat split.
      * simpl. lia.
      * cbn [app increasing_from]. rewrite Einc, andb_true_r.
        apply andb_true_intro. split; apply Z.ltb_lt; lia.
      * intros tailE tailV. cbn [app expand_from]. rewrite (Eexp tailE tailV).
        replace (L - s) with ((e - s) + ((s2 - e) + (L - s2))) by lia.
        rewrite tabulate_app by lia. rewrite tabulate_app by lia. rewrite <- !app_assoc. f_equal; [|f_equal].
        -- symmetry. apply tabulate_const. intros p Hp. apply cover_at_head. lia.
        -- symmetry. apply tabulate_const. intros p Hp. rewrite cover_at_skip by lia.
           apply (cover_at_before vzero s2); [|lia].
           cbn [sorted_disjoint]. rewrite H6, andb_true_r.
           apply andb_true_intro. split; [apply Z.leb_le|apply Z.ltb_lt]; lia.
        -- f_equal. replace (s + (e - s) + (s2 - e)) with s2 by lia. apply tabulate_ext. intros p Hp.
           symmetry. apply cover_at_skip. lia.
Qed.

Lemma all_le_last size recs : all_le size recs = true -> recs <> [] -> last_stop recs <= size.
Proof.
  induction recs as [|[[s e] v] rest IH]; intros H Hne; [congruence|].
  cbn [all_le] in H. apply andb_prop in H. destruct H as [H1 H2]. apply Z.leb_le in H1.
  destruct rest as [|r2 rest'].
  - unfold last_stop. simpl. assumption.
  - rewrite last_stop_cons. apply IH; [assumption|discriminate].
Qed.
Lemma mk_rle_wf ev vs : wf_rle (ev, vs) = true -> mk_rle ev vs = Some (ev, vs).
Proof. intros H. unfold mk_rle. rewrite H. reflexivity. Qed.
Lemma expand_from_single p e v : expand_from p [e] [v] = repeat v (Z.to_nat (e - p)).
Proof. cbn [expand_from]. apply app_nil_r. Qed.

(* the dense array splits into: before the first record, the record part, after the last record *)
Lemma dense_split s e v rest size :
  sorted_disjoint 0 ((s, e, v) :: rest) = true -> last_stop ((s, e, v) :: rest) <= size ->
  dense_of vzero ((s, e, v) :: rest) size
  = repeat vzero (Z.to_nat s)
    ++ tabulate (cover_at vzero ((s, e, v) :: rest)) s (last_stop ((s, e, v) :: rest) - s)
    ++ repeat vzero (Z.to_nat (size - last_stop ((s, e, v) :: rest))).
Proof.
  intros Hs HL. pose proof (sorted_disjoint_cons _ _ _ _ _ Hs) as (H1 & H2 & H3).
  pose proof (sorted_last_stop 0 _ Hs ltac:(discriminate)) as HL0.
  assert (Hs' : sorted_disjoint s ((s, e, v) :: rest) = true).
  { cbn [sorted_disjoint]. rewrite H3, andb_true_r. apply andb_true_intro. split; [apply Z.leb_le|apply Z.ltb_lt]; lia. }
  pose proof (sorted_last_stop s _ Hs' ltac:(discriminate)) as HL1.
  set (L := last_stop ((s, e, v) :: rest)) in *.
  unfold dense_of. replace size with (s + ((L - s) + (size - L))) at 1 by lia.
  rewrite tabulate_app by lia. rewrite tabulate_app by lia. rewrite Z.add_0_l.
  replace (s + (L - s)) with L by lia.
  assert (A : tabulate (cover_at vzero ((s, e, v) :: rest)) 0 s = repeat vzero (Z.to_nat s)).
  { apply tabulate_const. intros p Hp. apply (cover_at_before vzero s); [assumption|lia]. }
  assert (C : tabulate (cover_at vzero ((s, e, v) :: rest)) L (size - L) = repeat vzero (Z.to_nat (size - L))).
  { apply tabulate_const. intros p Hp.
    apply (cover_at_after vzero 0); [assumption|fold L; lia|discriminate]. }
  rewrite A, C. reflexivity.
Qed.

Theorem from_bedgraph_dense : forall ak k recs size,
  recs <> [] -> sorted_disjoint 0 recs = true -> all_le size recs = true ->
  exists r, from_bedgraph_gen ak k recs size
            = Some ((if size =? last_stop recs then k else ak k), r)
    /\ wf_rle r = true /\ rle_len r = size /\ expand r = dense_of vzero recs size.
Proof.
  intros ak k recs size Hne Hs Hle.
  pose proof (all_le_last size recs Hle Hne) as HL.
  destruct recs as [|[[s e] v] rest]; [congruence|]. clear Hne.
  destruct (fill_gaps_expand rest 0 s e v Hs) as (ss' & vs & Efill & Elen & Einc & Eexp).
  pose proof (sorted_disjoint_cons _ _ _ _ _ Hs) as (H1 & H2 & H3).
  rewrite (dense_split s e v rest size Hs HL).
  unfold from_bedgraph_gen. rewrite Efill.
  remember (last_stop ((s, e, v) :: rest)) as L eqn:EL.
  assert (HsL : s < L).
  { pose proof (increasing_last s _ Einc) as [_ X]. specialize (X ltac:(destruct ss'; discriminate)).
    rewrite last_last in X. exact X. }
  unfold m_bg_fits, m_bg_ends_at_size, m_bg_tail_at, m_bg_tail_before, m_bg_tail_values_before, m_bg_needs_prefix,
    m_bg_prefix_event, m_bg_prefix_value. cbn [map]. change (vint 0) with vzero.
  replace (L <=? size) with true by (symmetry; apply Z.leb_le; lia). cbn [negb].
  destruct (Z.eqb_spec size L) as [E|E].
  - (* last record ends at size *)
    cbn [app]. destruct (Z.eqb_spec s 0) as [E0|E0]; cbn [negb].
    + subst s. eexists. split; [rewrite mk_rle_wf; [reflexivity|]|repeat split].
      * unfold wf_rle. cbn [fst snd]. rewrite Z.eqb_refl, Einc. cbn [andb].
        apply Z.eqb_eq. unfold len. rewrite app_length. simpl length. lia.
      * unfold wf_rle. cbn [fst snd]. rewrite Z.eqb_refl, Einc. cbn [andb].
        apply Z.eqb_eq. unfold len. rewrite app_length. simpl length. lia.
      * unfold rle_len. cbn [fst]. rewrite last_cons, last_last. congruence.
      * unfold expand. cbn [fst snd]. specialize (Eexp [] []). rewrite app_nil_r in Eexp. rewrite Eexp.
        cbn [expand_from]. replace (Z.to_nat 0) with O by reflexivity. replace (Z.to_nat (size - L)) with O by lia.
        reflexivity.
    + eexists. split; [rewrite mk_rle_wf; [reflexivity|]|repeat split].
      * unfold wf_rle. cbn [fst snd increasing_from]. rewrite Z.eqb_refl, Einc. cbn [andb]. rewrite andb_true_r.
        apply andb_true_intro. split; [apply Z.ltb_lt; lia|].
        apply Z.eqb_eq. unfold len. simpl length. rewrite app_length. simpl length. lia.
      * unfold wf_rle. cbn [fst snd increasing_from]. rewrite Z.eqb_refl, Einc. cbn [andb]. rewrite andb_true_r.
        apply andb_true_intro. split; [apply Z.ltb_lt; lia|].
        apply Z.eqb_eq. unfold len. simpl length. rewrite app_length. simpl length. lia.
      * unfold rle_len. cbn [fst]. rewrite !last_cons, last_last. congruence.
      * unfold expand. cbn [fst snd expand_from]. specialize (Eexp [] []). rewrite app_nil_r in Eexp. rewrite Eexp.
        cbn [expand_from]. replace (s - 0) with s by lia. replace (Z.to_nat (size - L)) with O by lia. reflexivity.
  - (* trailing zero run up to size *)
    assert (Hinc2 : increasing_from s (ss' ++ [L; size]) = true).
    { change [L; size] with ([L] ++ [size]). rewrite app_assoc, increasing_from_app, Einc, last_last.
      cbn [increasing_from andb]. rewrite andb_true_r. apply Z.ltb_lt. lia. }
    cbn [app]. destruct (Z.eqb_spec s 0) as [E0|E0]; cbn [negb].
    + subst s. eexists. split; [rewrite mk_rle_wf; [reflexivity|]|repeat split].
      * unfold wf_rle. cbn [fst snd]. rewrite Z.eqb_refl, Hinc2. cbn [andb].
        apply Z.eqb_eq. unfold len. rewrite !app_length. simpl length. lia.
      * unfold wf_rle. cbn [fst snd]. rewrite Z.eqb_refl, Hinc2. cbn [andb].
        apply Z.eqb_eq. unfold len. rewrite !app_length. simpl length. lia.
      * unfold rle_len. cbn [fst]. rewrite last_cons. change [L; size] with ([L] ++ [size]).
        rewrite app_assoc, last_last. reflexivity.
      * unfold expand. cbn [fst snd]. rewrite (Eexp [size] [vzero]). rewrite expand_from_single.
        replace (Z.to_nat 0) with O by reflexivity. reflexivity.
    + eexists. split; [rewrite mk_rle_wf; [reflexivity|]|repeat split].
      * unfold wf_rle. cbn [fst snd increasing_from]. rewrite Z.eqb_refl, Hinc2. cbn [andb]. rewrite andb_true_r.
        apply andb_true_intro. split; [apply Z.ltb_lt; lia|].
        apply Z.eqb_eq. unfold len. simpl length. rewrite !app_length. simpl length. lia.
      * unfold wf_rle. cbn [fst snd increasing_from]. rewrite Z.eqb_refl, Hinc2. cbn [andb]. rewrite andb_true_r.
        apply andb_true_intro. split; [apply Z.ltb_lt; lia|].
        apply Z.eqb_eq. unfold len. simpl length. rewrite !app_length. simpl length. lia.
      * unfold rle_len. cbn [fst]. rewrite !last_cons. change [L; size] with ([L] ++ [size]).
        rewrite app_assoc, last_last. reflexivity.
      * unfold expand. cbn [fst snd expand_from]. rewrite (Eexp [size] [vzero]). rewrite expand_from_single.
        replace (s - 0) with s by lia. reflexivity.
Qed.

Theorem from_bedgraph_empty : forall ak k size, 0 < size ->
  exists r, from_bedgraph_gen ak k [] size = Some (KI, r)
    /\ wf_rle r = true /\ rle_len r = size /\ expand r = dense_of vzero [] size.
Proof.
  intros ak k size H. exists ([0; size], [vzero]).
  assert (W : wf_rle ([0; size], [vzero]) = true).
  { unfold wf_rle. cbn [fst snd increasing_from]. rewrite Z.eqb_refl. cbn [andb]. rewrite andb_true_r.
    apply andb_true_intro. split; [apply Z.ltb_lt; lia|reflexivity]. }
  repeat split.
  - unfold from_bedgraph_gen, mk_rle, m_bg_empty_events, m_bg_empty_values. cbn [map]. change (vint 0) with vzero.
    rewrite W. reflexivity.
  - exact W.
  - unfold expand. cbn [fst snd]. rewrite expand_from_single. unfold dense_of.
    symmetry. replace (size - 0) with size by lia. apply tabulate_const. intros p Hp. reflexivity.
Qed.

(* ====================================================================================== *)
(* run lists                                                                               *)
(* ====================================================================================== *)
Definition inc (pos : Z) (rs : list (Z * (Z * Z))) : bool := increasing_from pos (map fst rs).
Definition last_end (pos : Z) (rs : list (Z * (Z * Z))) : Z := last (map fst rs) pos.

Lemma inc_cons pos e v rs : inc pos ((e, v) :: rs) = true <-> pos < e /\ inc e rs = true.
Proof.
  unfold inc. cbn [map fst increasing_from]. rewrite andb_true_iff, Z.ltb_lt. tauto.
Qed.
Lemma last_end_cons pos e v rs : last_end pos ((e, v) :: rs) = last_end e rs.
Proof. unfold last_end. cbn [map fst]. apply last_cons. Qed.
Lemma inc_last_end pos rs : inc pos rs = true -> pos <= last_end pos rs /\ (rs <> [] -> pos < last_end pos rs).
Proof.
  intros H. pose proof (increasing_last pos (map fst rs) H) as [A B]. split; [exact A|].
  intros Hne. apply B. destruct rs; [congruence|discriminate].
Qed.
Lemma expand_from_combine pos ev vs : expand_from pos ev vs = expand_runs pos (combine ev vs).
Proof.
  revert pos vs. induction ev as [|e ev IH]; intros pos vs; [reflexivity|].
  destruct vs as [|v vs]; [reflexivity|]. cbn [expand_from combine expand_runs]. f_equal. apply IH.
Qed.
Lemma expand_runs_of r : expand r = match fst r with [] => [] | e0 :: _ => expand_runs e0 (runs_of r) end.
Proof. unfold expand, runs_of. destruct (fst r) as [|e0 rest]; [reflexivity|]. apply expand_from_combine. Qed.
Lemma expand_of_runs rs : expand (of_runs rs) = expand_runs 0 rs.
Proof.
  unfold expand, of_runs. cbn [fst snd]. rewrite expand_from_combine.
  f_equal. induction rs as [|[e v] rs IH]; [reflexivity|]. cbn [map fst snd combine]. f_equal. exact IH.
Qed.
Lemma expand_runs_length pos rs : inc pos rs = true -> len (expand_runs pos rs) = last_end pos rs - pos.
Proof.
  revert pos. induction rs as [|[e v] rs IH]; intros pos H.
  - unfold last_end, len. simpl. lia.
  - apply inc_cons in H. destruct H as [H1 H2]. cbn [expand_runs]. rewrite len_app, (IH e H2), last_end_cons.
    unfold len. rewrite repeat_length. lia.
Qed.

(* a well-formed rle as a run list *)
Lemma wf_runs r : wf_rle r = true ->
  inc 0 (runs_of r) = true /\ last_end 0 (runs_of r) = rle_len r /\ expand r = expand_runs 0 (runs_of r)
  /\ length (runs_of r) = length (snd r).
Proof.
  destruct r as [ev vs]. unfold wf_rle. cbn [fst snd]. destruct ev as [|e0 rest]; [discriminate|].
  intros H. apply andb_prop in H. destruct H as [H Hlen]. apply andb_prop in H. destruct H as [H0 Hinc].
  apply Z.eqb_eq in H0. subst e0. apply Z.eqb_eq in Hlen. unfold len in Hlen. apply Nat2Z.inj in Hlen.
  assert (E : map fst (combine rest vs) = rest).
  { clear Hinc. revert vs Hlen. induction rest as [|x rest IH]; intros [|v vs] Hl; simpl in *; try discriminate; [reflexivity|].
    f_equal. apply IH. lia. }
  unfold inc, last_end, runs_of, rle_len. cbn [fst snd tl]. rewrite E. repeat split.
  - exact Hinc.
  - rewrite last_cons. reflexivity.
  - rewrite expand_runs_of. reflexivity.
  - rewrite combine_length. lia.
Qed.
Lemma wf_of_runs rs : inc 0 rs = true -> wf_rle (of_runs rs) = true.
Proof.
  intros H. unfold wf_rle, of_runs. cbn [fst snd]. rewrite Z.eqb_refl. unfold inc in H. rewrite H. cbn [andb].
  apply Z.eqb_eq. unfold len. rewrite !map_length. reflexivity.
Qed.
Lemma rle_len_of_runs rs : rle_len (of_runs rs) = last_end 0 rs.
Proof. unfold rle_len, of_runs, last_end. cbn [fst]. apply last_cons. Qed.
Lemma expand_length r : wf_rle r = true -> len (expand r) = rle_len r.
Proof.
  intros H. destruct (wf_runs r H) as (A & B & C & _). rewrite C, expand_runs_length by assumption. lia.
Qed.

(* ====================================================================================== *)
(* T5: ufuncs on the abstract run-list model are pointwise                                  *)
(* ====================================================================================== *)
Lemma zip_runs_spec : forall fuel f a b pos,
  inc pos a = true -> inc pos b = true -> last_end pos a = last_end pos b ->
  (length a + length b <= fuel)%nat ->
  inc pos (zip_runs fuel f a b) = true
  /\ last_end pos (zip_runs fuel f a b) = last_end pos a
  /\ expand_runs pos (zip_runs fuel f a b) = map2 f (expand_runs pos a) (expand_runs pos b).
Proof.
  induction fuel as [|fuel IH]; intros f a b pos Ha Hb Hl Hf.
  - destruct a; [|simpl in Hf; lia]. destruct b; [|simpl in Hf; lia]. repeat split.
  - destruct a as [|[ea va] a'].
    { destruct b as [|[eb vb] b']; [repeat split|].
      exfalso. pose proof (inc_last_end pos _ Hb) as [_ X]. specialize (X ltac:(discriminate)).
      rewrite <- Hl in X. unfold last_end in X. simpl in X. lia. }
    destruct b as [|[eb vb] b'].
    { exfalso. pose proof (inc_last_end pos _ Ha) as [_ X]. specialize (X ltac:(discriminate)).
      rewrite Hl in X. unfold last_end in X. simpl in X. lia. }
    pose proof Ha as Ha0. pose proof Hb as Hb0.
    apply inc_cons in Ha. destruct Ha as [Ha1 Ha2]. apply inc_cons in Hb. destruct Hb as [Hb1 Hb2].
    rewrite !last_end_cons in Hl.
    cbn [zip_runs]. simpl length in Hf.
    destruct (Z.ltb_spec ea eb) as [L1|L1]; [|destruct (Z.ltb_spec eb ea) as [L2|L2]].
    + (* a's run ends first *)
      assert (Hb' : inc ea ((eb, vb) :: b') = true) by (apply inc_cons; split; [lia|assumption]).
      assert (Hl' : last_end ea a' = last_end ea ((eb, vb) :: b')) by (rewrite last_end_cons; exact Hl).
      destruct (IH f a' ((eb, vb) :: b') ea Ha2 Hb' Hl' ltac:(simpl; lia)) as (I1 & I2 & I3).
      repeat split.
      * apply inc_cons. split; assumption.
      * rewrite !last_end_cons. exact I2.
      * cbn [expand_runs]. rewrite I3. cbn [expand_runs].
        replace (eb - pos) with ((ea - pos) + (eb - ea)) by lia.
        rewrite repeat_app_Z by lia. rewrite <- app_assoc.
        rewrite map2_app by (rewrite !repeat_length; reflexivity). rewrite map2_repeat. reflexivity.
    + (* b's run ends first *)
      assert (Ha' : inc eb ((ea, va) :: a') = true) by (apply inc_cons; split; [lia|assumption]).
      assert (Hl' : last_end eb ((ea, va) :: a') = last_end eb b') by (rewrite last_end_cons; exact Hl).
      destruct (IH f ((ea, va) :: a') b' eb Ha' Hb2 Hl' ltac:(simpl; lia)) as (I1 & I2 & I3).
      repeat split.
      * apply inc_cons. split; assumption.
      * rewrite !last_end_cons. rewrite I2. rewrite last_end_cons. reflexivity.
      * cbn [expand_runs]. rewrite I3. cbn [expand_runs].
        replace (ea - pos) with ((eb - pos) + (ea - eb)) by lia.
        rewrite repeat_app_Z by lia. rewrite <- app_assoc.
        rewrite map2_app by (rewrite !repeat_length; reflexivity). rewrite map2_repeat. reflexivity.
    + (* both end here *)
      assert (ea = eb) by lia. subst eb.
      destruct (IH f a' b' ea Ha2 Hb2 Hl ltac:(lia)) as (I1 & I2 & I3).
      repeat split.
      * apply inc_cons. split; assumption.
      * rewrite !last_end_cons. exact I2.
      * cbn [expand_runs]. rewrite I3.
        rewrite map2_app by (rewrite !repeat_length; reflexivity). rewrite map2_repeat. reflexivity.
Qed.

Lemma veqb_eq a b : veqb a b = true -> a = b.
Proof.
  destruct a, b. unfold veqb. cbn [fst snd]. intros H. apply andb_prop in H. destruct H as [H1 H2].
  apply Z.eqb_eq in H1. apply Z.eqb_eq in H2. congruence.
Qed.

Lemma join_runs_spec : forall rs pos, inc pos rs = true ->
  inc pos (join_runs rs) = true /\ last_end pos (join_runs rs) = last_end pos rs
  /\ expand_runs pos (join_runs rs) = expand_runs pos rs.
Proof.
  induction rs as [|[e v] rs IH]; intros pos H; [repeat split|].
  apply inc_cons in H. destruct H as [H1 H2]. destruct (IH e H2) as (I1 & I2 & I3).
  cbn [join_runs fold_right]. fold (join_runs rs). unfold join_cons. cbn [snd].
  destruct (join_runs rs) as [|[e2 v2] acc'] eqn:EJ.
  - repeat split.
    + apply inc_cons. split; [assumption|reflexivity].
    + rewrite !last_end_cons. exact I2.
    + cbn [expand_runs]. cbn [expand_runs] in I3. rewrite <- I3. reflexivity.
  - apply inc_cons in I1. destruct I1 as [J1 J2].
    destruct (veqb v v2) eqn:EV.
    + apply veqb_eq in EV. subst v2. repeat split.
      * apply inc_cons. split; [lia|assumption].
      * rewrite !last_end_cons. rewrite last_end_cons in I2. exact I2.
      * cbn [expand_runs]. rewrite <- I3. cbn [expand_runs]. rewrite app_assoc. f_equal.
        replace (e2 - pos) with ((e - pos) + (e2 - e)) by lia. apply repeat_app_Z; lia.
    + repeat split.
      * apply inc_cons. split; [assumption|]. apply inc_cons. split; assumption.
      * rewrite !last_end_cons. rewrite last_end_cons in I2. exact I2.
      * cbn [expand_runs]. rewrite <- I3. reflexivity.
Qed.

Theorem rle_zip_pointwise : forall f a b,
  wf_rle a = true -> wf_rle b = true -> rle_len a = rle_len b ->
  exists r, rle_zip f a b = Some r /\ wf_rle r = true /\ rle_len r = rle_len a
            /\ expand r = map2 f (expand a) (expand b).
Proof.
  intros f a b Wa Wb Hl.
  destruct (wf_runs a Wa) as (A1 & A2 & A3 & A4). destruct (wf_runs b Wb) as (B1 & B2 & B3 & B4).
  unfold rle_zip. rewrite Hl, Z.eqb_refl. eexists. split; [reflexivity|].
  destruct (zip_runs_spec (length (snd a) + length (snd b)) f (runs_of a) (runs_of b) 0 A1 B1 ltac:(congruence) ltac:(lia))
    as (Z1 & Z2 & Z3).
  destruct (join_runs_spec _ 0 Z1) as (J1 & J2 & J3).
  repeat split.
  - apply wf_of_runs. exact J1.
  - rewrite rle_len_of_runs, J2, Z2. congruence.
  - rewrite expand_of_runs, J3, Z3, A3, B3. reflexivity.
Qed.

Theorem rle_map_pointwise : forall f a, wf_rle a = true ->
  wf_rle (rle_map f a) = true /\ rle_len (rle_map f a) = rle_len a /\ expand (rle_map f a) = map f (expand a).
Proof.
  intros f [ev vs] W. unfold rle_map. cbn [fst snd]. repeat split.
  - unfold wf_rle in *. cbn [fst snd] in *. destruct ev; [discriminate|].
    unfold len in *. rewrite map_length. exact W.
  - unfold expand. cbn [fst snd]. destruct ev as [|e0 rest]; [reflexivity|].
    clear W. revert e0 vs. induction rest as [|e rest IH]; intros e0 vs; [reflexivity|].
    destruct vs as [|v vs]; [reflexivity|]. cbn [map expand_from]. rewrite map_app, map_repeat. f_equal. apply IH.
Qed.

(* whole expression trees: the run-length evaluation is the dense evaluation *)
Definition dense_leaf (l : kind * (list Z * list (Z * Z))) : kind * list (Z * Z) := (fst l, expand (snd l)).
Theorem eval_pointwise : forall n leaves e k r,
  (forall l, In l leaves -> wf_rle (snd l) = true /\ rle_len (snd l) = n) ->
  model_eval leaves e = Some (k, r) ->
  wf_rle r = true /\ rle_len r = n /\ spec_eval (map dense_leaf leaves) e = Some (k, expand r).
Proof.
  intros n leaves e. induction e as [i|op l IHl r0 IHr|op l IHl ks s|op ks s r0 IHr|e1 IH1]; intros k r Hwf H;
    unfold model_eval, spec_eval in *; cbn [eval] in *.
  - pose proof (nth_error_In _ _ H) as Hin. destruct (Hwf _ Hin) as [W L]. cbn [snd] in *.
    repeat split; try assumption.
    rewrite nth_error_map, H. reflexivity.
  - destruct (eval rle_map rle_zip leaves l) as [[ka a]|] eqn:El; [|discriminate].
    destruct (eval rle_map rle_zip leaves r0) as [[kb b]|] eqn:Er; [|discriminate].
    destruct (IHl ka a Hwf eq_refl) as (Wa & La & Sa). destruct (IHr kb b Hwf eq_refl) as (Wb & Lb & Sb).
    rewrite Sa, Sb.
    destruct (bin_kind op ka kb) as [k0|]; [|discriminate].
    destruct (rle_zip_pointwise (bin_val op ka kb) a b Wa Wb ltac:(congruence)) as (c & Ez & Wc & Lc & Ec).
    rewrite Ez in H. inversion H. subst k0 c. repeat split; [assumption|congruence|].
    unfold dense_zip. rewrite !expand_length by assumption. rewrite La, Lb, Z.eqb_refl, Ec. reflexivity.
  - destruct (eval rle_map rle_zip leaves l) as [[ka a]|] eqn:El; [|discriminate].
    destruct (IHl ka a Hwf eq_refl) as (Wa & La & Sa). rewrite Sa.
    destruct (bin_kind op ka ks) as [k0|]; [|discriminate]. inversion H. subst k0 r.
    destruct (rle_map_pointwise (fun x => bin_val op ka ks x s) a Wa) as (W & L & E).
    repeat split; [assumption|congruence|]. rewrite E. reflexivity.
  - destruct (eval rle_map rle_zip leaves r0) as [[kb b]|] eqn:Er; [|discriminate].
    destruct (IHr kb b Hwf eq_refl) as (Wb & Lb & Sb). rewrite Sb.
    destruct (bin_kind op ks kb) as [k0|]; [|discriminate]. inversion H. subst k0 r.
    destruct (rle_map_pointwise (fun x => bin_val op ks kb s x) b Wb) as (W & L & E).
    repeat split; [assumption|congruence|]. rewrite E. reflexivity.
  - destruct (eval rle_map rle_zip leaves e1) as [[ka a]|] eqn:El; [|discriminate].
    destruct (IH1 ka a Hwf eq_refl) as (Wa & La & Sa). rewrite Sa.
    destruct (not_kind ka) as [k0|]; [|discriminate]. inversion H. subst k0 r.
    destruct (rle_map_pointwise (not_val ka) a Wa) as (W & L & E).
    repeat split; [assumption|congruence|]. rewrite E. reflexivity.
Qed.

(* ====================================================================================== *)
(* reductions                                                                              *)
(* ====================================================================================== *)
Lemma filter_repeat {A} (p : A -> bool) v n : filter p (repeat v n) = if p v then repeat v n else [].
Proof. induction n as [|n IH]; simpl; [destruct (p v); reflexivity|]. rewrite IH. destruct (p v); reflexivity. Qed.
Lemma runs_weight_spec bn : forall rs pos, inc pos rs = true ->
  runs_weight pos bn rs = len (filter (fun v => in_bin v bn) (expand_runs pos rs)).
Proof.
  induction rs as [|[e v] rs IH]; intros pos H; [reflexivity|].
  apply inc_cons in H. destruct H as [H1 H2]. cbn [runs_weight expand_runs].
  rewrite filter_app, len_app, (IH e H2), filter_repeat.
  destruct (in_bin v bn); unfold len; [rewrite repeat_length|simpl]; lia.
Qed.
Theorem hist_weighted : forall edges r, wf_rle r = true -> model_hist edges r = spec_hist edges (expand r).
Proof.
  intros edges r W. destruct (wf_runs r W) as (A1 & _ & A3 & _). unfold model_hist, spec_hist. rewrite A3.
  apply map_ext. intros bn. apply runs_weight_spec. exact A1.
Qed.

Lemma vadd_int a b : vadd (a, 0) (b, 0) = (a + b, 0).
Proof. unfold vadd, valign, vnorm. cbn [fst snd]. simpl. rewrite !Z.mul_1_r. reflexivity. Qed.
Lemma vscale_int n a : vscale n (a, 0) = (n * a, 0).
Proof. reflexivity. Qed.
Lemma vsum_repeat_int a t : forall (n : nat) l, vsum l = (t, 0) -> vsum (repeat (a, 0) n ++ l) = (Z.of_nat n * a + t, 0).
Proof.
  induction n as [|n IH]; intros l Hl; [simpl; rewrite Hl; reflexivity|].
  cbn [repeat app]. change (vsum ((a, 0) :: repeat (a, 0) n ++ l)) with (vadd (a, 0) (vsum (repeat (a, 0) n ++ l))).
  rewrite (IH l Hl), vadd_int. f_equal. lia.
Qed.
Lemma runs_sum_int : forall rs pos, inc pos rs = true -> (forall e v, In (e, v) rs -> snd v = 0) ->
  runs_sum pos rs = vsum (expand_runs pos rs) /\ snd (runs_sum pos rs) = 0.
Proof.
  induction rs as [|[e [a x]] rs IH]; intros pos H Hint; [split; reflexivity|].
  apply inc_cons in H. destruct H as [H1 H2].
  assert (x = 0) by (apply (Hint e (a, x)); left; reflexivity). subst x.
  destruct (IH e H2) as [I1 I2]; [intros e' v' Hin; apply (Hint e'); right; exact Hin|].
  cbn [runs_sum expand_runs]. destruct (runs_sum e rs) as [t y] eqn:ER. cbn [snd] in I2. subst y.
  rewrite vscale_int, vadd_int. rewrite (vsum_repeat_int a t) by (symmetry; exact I1).
  split; [f_equal; lia|reflexivity].
Qed.
Lemma In_runs_of e v r : In (e, v) (runs_of r) -> In v (snd r).
Proof. unfold runs_of. intros H. apply in_combine_r in H. exact H. Qed.
(* np.sum on a bool / int64 track: sum(diff(events) * values) = sum of the dense array *)
Theorem sum_int_partial : forall r, wf_rle r = true -> (forall v, In v (snd r) -> snd v = 0) ->
  model_sum r = vsum (expand r).
Proof.
  intros r W Hint. destruct (wf_runs r W) as (A1 & _ & A3 & _). unfold model_sum. rewrite A3.
  apply runs_sum_int; [exact A1|]. intros e v Hin. apply Hint. apply (In_runs_of e). exact Hin.
Qed.

(* ====================================================================================== *)
(* T4: slicing a chromosome out of the genome-wide array                                    *)
(* ====================================================================================== *)
Lemma skipn_repeat {A} (v : A) n k : skipn k (repeat v n) = repeat v (n - k).
Proof.
  revert k. induction n as [|n IH]; intros k; [destruct k; reflexivity|].
  destruct k; [reflexivity|]. simpl. apply IH.
Qed.
Lemma firstn_repeat {A} (v : A) n k : firstn k (repeat v n) = repeat v (Nat.min k n).
Proof.
  revert k. induction n as [|n IH]; intros k; [destruct k; reflexivity|].
  destruct k; [reflexivity|]. simpl. f_equal. apply IH.
Qed.
Lemma drop_runs_spec a : forall rs pos, inc pos rs = true -> pos <= a -> a < last_end pos rs ->
  inc a (drop_runs a rs) = true /\ last_end a (drop_runs a rs) = last_end pos rs
  /\ expand_runs a (drop_runs a rs) = skipn (Z.to_nat (a - pos)) (expand_runs pos rs).
Proof.
  induction rs as [|[e v] rs IH]; intros pos H Hp Ha.
  - unfold last_end in Ha. simpl in Ha. lia.
  - pose proof H as H0. apply inc_cons in H. destruct H as [H1 H2]. rewrite last_end_cons in Ha.
    cbn [drop_runs]. destruct (Z.leb_spec e a) as [L|L].
    + destruct (IH e H2 L Ha) as (I1 & I2 & I3). repeat split; [exact I1|rewrite last_end_cons; exact I2|].
      rewrite I3. cbn [expand_runs]. rewrite skipn_app, repeat_length.
      rewrite (skipn_all2 (repeat v (Z.to_nat (e - pos)))) by (rewrite repeat_length; lia). cbn [app]. f_equal. lia.
    + repeat split.
      * apply inc_cons. split; [lia|exact H2].
      * rewrite !last_end_cons. reflexivity.
      * cbn [expand_runs]. rewrite skipn_app, repeat_length, skipn_repeat.
        replace (Z.to_nat (a - pos) - Z.to_nat (e - pos))%nat with O by lia. cbn [skipn]. f_equal. f_equal. lia.
Qed.
Lemma take_runs_spec b : forall rs pos, inc pos rs = true -> pos < b -> b <= last_end pos rs ->
  inc pos (take_runs b rs) = true /\ last_end pos (take_runs b rs) = b
  /\ expand_runs pos (take_runs b rs) = firstn (Z.to_nat (b - pos)) (expand_runs pos rs).
Proof.
  induction rs as [|[e v] rs IH]; intros pos H Hp Hb.
  - unfold last_end in Hb. simpl in Hb. lia.
  - apply inc_cons in H. destruct H as [H1 H2]. rewrite last_end_cons in Hb.
    cbn [take_runs]. destruct (Z.ltb_spec e b) as [L|L].
    + destruct (IH e H2 L Hb) as (I1 & I2 & I3). repeat split.
      * apply inc_cons. split; assumption.
      * rewrite last_end_cons. exact I2.
      * cbn [expand_runs]. rewrite I3, firstn_app, repeat_length, firstn_repeat.
        replace (Nat.min (Z.to_nat (b - pos)) (Z.to_nat (e - pos))) with (Z.to_nat (e - pos)) by lia.
        f_equal. f_equal. lia.
    + repeat split.
      * apply inc_cons. split; [assumption|reflexivity].
      * cbn [expand_runs]. rewrite app_nil_r, firstn_app, repeat_length, firstn_repeat.
        replace (Z.to_nat (b - pos) - Z.to_nat (e - pos))%nat with O by lia. cbn [firstn]. rewrite app_nil_r.
        f_equal. lia.
Qed.
Lemma shift_runs_spec a : forall rs pos, inc pos rs = true ->
  inc (pos - a) (shift_runs a rs) = true /\ last_end (pos - a) (shift_runs a rs) = last_end pos rs - a
  /\ expand_runs (pos - a) (shift_runs a rs) = expand_runs pos rs.
Proof.
  induction rs as [|[e v] rs IH]; intros pos H; [repeat split|].
  apply inc_cons in H. destruct H as [H1 H2]. destruct (IH e H2) as (I1 & I2 & I3).
  cbn [shift_runs map]. fold (shift_runs a rs). repeat split.
  - apply inc_cons. split; [lia|exact I1].
  - rewrite !last_end_cons. exact I2.
  - cbn [expand_runs]. rewrite I3. f_equal. f_equal. lia.
Qed.
Theorem slice_rle_spec : forall a b r, wf_rle r = true -> 0 <= a -> a < b -> b <= rle_len r ->
  wf_rle (slice_rle a b r) = true /\ rle_len (slice_rle a b r) = b - a
  /\ expand (slice_rle a b r) = slice a b (expand r).
Proof.
  intros a b r W Ha Hab Hb. destruct (wf_runs r W) as (A1 & A2 & A3 & _).
  unfold slice_rle, slice_runs. replace (a <? b) with true by (symmetry; apply Z.ltb_lt; exact Hab).
  destruct (drop_runs_spec a (runs_of r) 0 A1 Ha ltac:(lia)) as (D1 & D2 & D3).
  destruct (take_runs_spec b (drop_runs a (runs_of r)) a D1 Hab ltac:(lia)) as (T1 & T2 & T3).
  destruct (shift_runs_spec a _ a T1) as (S1 & S2 & S3). replace (a - a) with 0 in * by lia.
  repeat split.
  - apply wf_of_runs. exact S1.
  - rewrite rle_len_of_runs, S2, T2. reflexivity.
  - rewrite expand_of_runs, S3, T3, D3, A3. unfold slice. replace (a - 0) with a by lia. reflexivity.
Qed.
(* to_dict entry of one chromosome: xor-decoding of the clipped runs = the slice of the dense genome *)
Theorem to_dict_entry : forall a b r, wf_rle r = true -> 0 <= a -> a < b -> b <= rle_len r ->
  to_array (slice_rle a b r) = slice a b (expand r) /\ len (to_array (slice_rle a b r)) = b - a.
Proof.
  intros a b r W Ha Hab Hb. destruct (slice_rle_spec a b r W Ha Hab Hb) as (S1 & S2 & S3).
  rewrite (to_array_expand _ S1). split; [exact S3|]. rewrite expand_length by exact S1. exact S2.
Qed.

(* ---------- dtype kind of from_bedgraph ---------- *)
Theorem from_bedgraph_kind_fixed : forall k recs size,
  recs <> [] -> sorted_disjoint 0 recs = true -> all_le size recs = true ->
  exists r, from_bedgraph_fixed k recs size = Some (k, r).
Proof.
  intros k recs size H1 H2 H3. destruct (from_bedgraph_dense append_kind_fixed k recs size H1 H2 H3) as (r & E & _).
  exists r. unfold from_bedgraph_fixed. rewrite E. unfold append_kind_fixed. destruct (size =? last_stop recs); reflexivity.
Qed.
Theorem from_bedgraph_kind_partial : forall k recs size,
  recs <> [] -> sorted_disjoint 0 recs = true -> all_le size recs = true ->
  (size = last_stop recs \/ k <> KB) ->
  exists r, from_bedgraph_pinned k recs size = Some (k, r).
Proof.
  intros k recs size H1 H2 H3 H4. destruct (from_bedgraph_dense append_kind_pinned k recs size H1 H2 H3) as (r & E & _).
  exists r. unfold from_bedgraph_pinned. rewrite E. destruct H4 as [H4|H4].
  - rewrite <- H4, Z.eqb_refl. reflexivity.
  - destruct (size =? last_stop recs); [reflexivity|]. destruct k; try reflexivity. congruence.
Qed.
Theorem from_bedgraph_kind_refuted :
  exists k recs size r, recs <> [] /\ sorted_disjoint 0 recs = true /\ all_le size recs = true
    /\ from_bedgraph_pinned k recs size = Some (KI, r) /\ k = KB.
Proof.
  exists KB, [(0, 1, (1, 0))], 2, ([0; 1; 2], [(1, 0); (0, 0)]).
  repeat split; try reflexivity. discriminate.
Qed.

(* ====================================================================================== *)
(* back-conversion (get_data): the records of one chromosome's runs describe its dense array *)
(* ====================================================================================== *)
Definition strip (recs : list (Z * Z * Z * (Z * Z))) : list (Z * Z * (Z * Z)) := map (fun '(_, s, e, v) => (s, e, v)) recs.
Lemma sorted_disjoint_weaken lo lo' recs : lo' <= lo -> sorted_disjoint lo recs = true -> sorted_disjoint lo' recs = true.
Proof.
  intros Hl H. destruct recs as [|[[s e] v] r]; [reflexivity|].
  apply sorted_disjoint_cons in H. destruct H as (H1 & H2 & H3). cbn [sorted_disjoint]. rewrite H3, andb_true_r.
  apply andb_true_intro. split; [apply Z.leb_le|apply Z.ltb_lt]; lia.
Qed.
Lemma runs_records_describe fill c : forall rs pos, inc pos rs = true ->
  sorted_disjoint pos (strip (runs_records c pos rs)) = true
  /\ all_le (last_end pos rs) (strip (runs_records c pos rs)) = true
  /\ tabulate (cover_at fill (strip (runs_records c pos rs))) pos (last_end pos rs - pos) = expand_runs pos rs.
Proof.
  induction rs as [|[e v] rs IH]; intros pos H.
  - repeat split. unfold last_end. simpl. apply tabulate_nil. lia.
  - apply inc_cons in H. destruct H as [H1 H2]. destruct (IH e H2) as (I1 & I2 & I3).
    pose proof (inc_last_end e rs H2) as [HL _]. rewrite last_end_cons.
    cbn [runs_records strip map]. fold (strip (runs_records c e rs)). repeat split.
    + cbn [sorted_disjoint]. rewrite I1, andb_true_r. apply andb_true_intro. split; [apply Z.leb_le|apply Z.ltb_lt]; lia.
    + cbn [all_le]. rewrite I2, andb_true_r. apply Z.leb_le. exact HL.
    + cbn [expand_runs]. replace (last_end e rs - pos) with ((e - pos) + (last_end e rs - e)) by lia.
      rewrite tabulate_app by lia. f_equal.
      * apply tabulate_const. intros p Hp. apply cover_at_head. lia.
      * replace (pos + (e - pos)) with e by lia. rewrite <- I3. apply tabulate_ext. intros p Hp.
        apply cover_at_skip. lia.
Qed.
(* Boolean arrays: only the True runs are kept, gaps read back as False *)
Definition true_recs (recs : list (Z * Z * Z * (Z * Z))) := filter (fun '(_, _, _, v) => vtruth v) recs.
Lemma all_le_true_recs hi recs : all_le hi (strip recs) = true -> all_le hi (strip (true_recs recs)) = true.
Proof.
  induction recs as [|[[[c s] e] v] r IH]; intros H; [reflexivity|].
  cbn [strip map all_le] in H. apply andb_prop in H. destruct H as [H1 H2].
  cbn [true_recs filter]. fold (true_recs r). destruct (vtruth v).
  - cbn [strip map all_le]. fold (strip (true_recs r)). rewrite H1. apply IH. exact H2.
  - apply IH. exact H2.
Qed.
Lemma runs_records_describe_bool c : forall rs pos, inc pos rs = true ->
  (forall e v, In (e, v) rs -> v = vzero \/ v = vone) ->
  sorted_disjoint pos (strip (true_recs (runs_records c pos rs))) = true
  /\ all_le (last_end pos rs) (strip (true_recs (runs_records c pos rs))) = true
  /\ tabulate (cover_at vzero (strip (true_recs (runs_records c pos rs)))) pos (last_end pos rs - pos) = expand_runs pos rs.
Proof.
  induction rs as [|[e v] rs IH]; intros pos H Hb.
  - repeat split. unfold last_end. simpl. apply tabulate_nil. lia.
  - apply inc_cons in H. destruct H as [H1 H2].
    destruct (IH e H2) as (I1 & I2 & I3); [intros e' v' Hin; apply (Hb e'); right; exact Hin|].
    pose proof (inc_last_end e rs H2) as [HL _]. rewrite last_end_cons.
    cbn [runs_records true_recs filter]. fold (true_recs (runs_records c e rs)).
    assert (Hsplit : forall f : Z -> Z * Z, tabulate f pos (last_end e rs - pos) = tabulate f pos (e - pos) ++ tabulate f e (last_end e rs - e)).
    { intros f. replace (last_end e rs - pos) with ((e - pos) + (last_end e rs - e)) by lia.
      rewrite tabulate_app by lia. replace (pos + (e - pos)) with e by lia. reflexivity. }
    destruct (Hb e v (or_introl eq_refl)) as [Ev|Ev]; subst v.
    + (* a False run: dropped, reads back as the fill value *)
      change (vtruth vzero) with false. cbn iota. repeat split.
      * apply (sorted_disjoint_weaken e); [lia|exact I1].
      * exact I2.
      * rewrite Hsplit. cbn [expand_runs]. f_equal; [|exact I3].
        apply tabulate_const. intros p Hp. apply (cover_at_before vzero e); [exact I1|lia].
    + change (vtruth vone) with true. cbn iota. cbn [strip map]. fold (strip (true_recs (runs_records c e rs))). repeat split.
      * cbn [sorted_disjoint]. rewrite I1, andb_true_r. apply andb_true_intro. split; [apply Z.leb_le|apply Z.ltb_lt]; lia.
      * cbn [all_le]. rewrite I2, andb_true_r. apply Z.leb_le. exact HL.
      * rewrite Hsplit. cbn [expand_runs]. f_equal.
        -- apply tabulate_const. intros p Hp. apply cover_at_head. lia.
        -- rewrite <- I3. apply tabulate_ext. intros p Hp. apply cover_at_skip. lia.
Qed.

Theorem get_data_roundtrip : forall c s, wf_rle s = true ->
  let recs := strip (runs_records c 0 (runs_of s)) in
  sorted_disjoint 0 recs = true /\ all_le (rle_len s) recs = true
  /\ dense_of vzero recs (rle_len s) = expand s.
Proof.
  intros c s W. destruct (wf_runs s W) as (A1 & A2 & A3 & _).
  destruct (runs_records_describe vzero c (runs_of s) 0 A1) as (R1 & R2 & R3).
  rewrite A2 in *. rewrite Z.sub_0_r in R3. cbv zeta. repeat split; try assumption.
  unfold dense_of. rewrite R3, A3. reflexivity.
Qed.
Theorem get_data_roundtrip_bool : forall c s, wf_rle s = true ->
  (forall v, In v (snd s) -> v = vzero \/ v = vone) ->
  let recs := strip (true_recs (runs_records c 0 (runs_of s))) in
  sorted_disjoint 0 recs = true /\ all_le (rle_len s) recs = true
  /\ dense_of vzero recs (rle_len s) = expand s.
Proof.
  intros c s W Hb. destruct (wf_runs s W) as (A1 & A2 & A3 & _).
  destruct (runs_records_describe_bool c (runs_of s) 0 A1) as (R1 & R2 & R3).
  { intros e v Hin. apply Hb. apply (In_runs_of e). exact Hin. }
  rewrite A2 in *. rewrite Z.sub_0_r in R3. cbv zeta. repeat split; try assumption.
  unfold dense_of. rewrite R3, A3. reflexivity.
Qed.

(* ====================================================================================== *)
(* to_dict over all chromosomes: offsets partition the genome-wide array                    *)
(* ====================================================================================== *)
Lemma nth_cumsum : forall l acc (c : nat), (c <= length l)%nat ->
  nth c (acc :: cumsum_from acc l) 0 = acc + sumZ (firstn c l).
Proof.
  induction l as [|x l IH]; intros acc c Hc.
  - destruct c; [simpl; lia|simpl in Hc; lia].
  - destruct c as [|c]; [simpl; lia|].
    change (nth (S c) (acc :: cumsum_from acc (x :: l)) 0) with (nth c ((acc + x) :: cumsum_from (acc + x) l) 0).
    rewrite IH by (simpl in Hc; lia). cbn [firstn]. unfold sumZ. cbn [fold_right]. lia.
Qed.
Lemma offset_prefix pre n rest : nthZ (offsets (pre ++ n :: rest)) (len pre) = sumZ pre.
Proof.
  unfold nthZ, offsets, insert0, cumsum, len. rewrite Nat2Z.id.
  rewrite nth_cumsum by (rewrite app_length; lia).
  rewrite firstn_app, Nat.sub_diag, firstn_all. cbn [firstn]. rewrite app_nil_r. lia.
Qed.
Lemma sumZ_cons x l : sumZ (x :: l) = x + sumZ l.
Proof. reflexivity. Qed.
Lemma sumZ_nil : sumZ [] = 0.
Proof. reflexivity. Qed.
Lemma sumZ_app a b : sumZ (a ++ b) = sumZ a + sumZ b.
Proof. induction a as [|x a IH]; [reflexivity|]. cbn [app]. unfold sumZ in *. cbn [fold_right]. rewrite IH. lia. Qed.
Lemma slice_split {A} a b c (l : list A) : 0 <= a -> a <= b -> b <= c -> slice a b l ++ slice b c l = slice a c l.
Proof.
  intros Ha Hab Hbc. unfold slice.
  replace (Z.to_nat b) with (Z.to_nat (b - a) + Z.to_nat a)%nat by lia. rewrite <- skipn_skipn'.
  replace (Z.to_nat (c - a)) with (Z.to_nat (b - a) + Z.to_nat (c - b))%nat by lia.
  generalize (skipn (Z.to_nat a) l). intros X. generalize (Z.to_nat (b - a)). intros n. generalize (Z.to_nat (c - b)). intros m.
  revert X. induction n as [|n IH]; intros X; [reflexivity|].
  destruct X as [|x X]; [simpl; rewrite firstn_nil; reflexivity|]. cbn [firstn skipn plus app]. f_equal. apply IH.
Qed.
Fixpoint all_pos (l : list Z) : bool := match l with [] => true | x :: r => (0 <? x) && all_pos r end.

Lemma to_dict_from : forall (r : list Z * list (Z * Z)) rest pre sizes,
  wf_rle r = true -> sizes = pre ++ rest -> all_pos rest = true -> sumZ sizes <= rle_len r -> 0 <= sumZ pre ->
  let entries := map to_array
        (map (fun '(c, n) => slice_rle (nthZ (offsets sizes) c) (nthZ (offsets sizes) c + n) r)
             (combine (arange_from (len pre) (length rest)) rest)) in
  concat entries = slice (sumZ pre) (sumZ pre + sumZ rest) (expand r) /\ map len entries = rest.
Proof.
  intros r. induction rest as [|n rest IH]; intros pre sizes W Es Hp Ht H0; cbv zeta.
  - cbn [length arange_from combine map concat]. split; [|reflexivity].
    rewrite sumZ_nil, slice_empty by lia. reflexivity.
  - cbn [all_pos] in Hp. apply andb_prop in Hp. destruct Hp as [Hn Hp]. apply Z.ltb_lt in Hn.
    cbn [length arange_from combine map concat].
    assert (Eo : nthZ (offsets sizes) (len pre) = sumZ pre) by (rewrite Es; apply offset_prefix).
    rewrite Eo.
    assert (Hrest : 0 <= sumZ rest).
    { clear -Hp. induction rest as [|x rest IH]; [rewrite sumZ_nil; lia|].
      cbn [all_pos] in Hp. apply andb_prop in Hp. destruct Hp as [Hx Hp]. apply Z.ltb_lt in Hx.
      specialize (IH Hp). rewrite sumZ_cons. lia. }
    assert (Hsum : sumZ sizes = sumZ pre + (n + sumZ rest)).
    { rewrite Es, sumZ_app, sumZ_cons. reflexivity. }
    destruct (to_dict_entry (sumZ pre) (sumZ pre + n) r W H0 ltac:(lia) ltac:(lia)) as [E1 E2].
    specialize (IH (pre ++ [n]) sizes W ltac:(rewrite Es, <- app_assoc; reflexivity) Hp Ht).
    rewrite sumZ_app, sumZ_cons, sumZ_nil in IH.
    specialize (IH ltac:(lia)). cbv zeta in IH.
    replace (len (pre ++ [n])) with (len pre + 1) in IH by (rewrite len_app; reflexivity).
    destruct IH as [I1 I2]. rewrite I1, I2, E2, E1. split.
    + rewrite sumZ_cons.
      replace (sumZ pre + (n + 0) + sumZ rest) with (sumZ pre + (n + sumZ rest)) by lia.
      replace (sumZ pre + (n + 0)) with (sumZ pre + n) by lia.
      apply slice_split; lia.
    + f_equal. lia.
Qed.

Theorem to_dict_concat : forall sizes r,
  wf_rle r = true -> all_pos sizes = true -> rle_len r = total_size sizes ->
  concat (model_to_dict sizes r) = expand r /\ map len (model_to_dict sizes r) = sizes.
Proof.
  intros sizes r W Hp Ht.
  destruct (to_dict_from r sizes [] sizes W eq_refl Hp ltac:(unfold total_size in Ht; lia) ltac:(rewrite sumZ_nil; lia)) as [E1 E2].
  unfold model_to_dict, chrom_slices, per_chrom, arange, m_slice_lo, m_slice_hi.
  replace (Z.to_nat (len sizes)) with (length sizes) by (unfold len; lia).
  change (len (@nil Z)) with 0 in *. split; [|exact E2].
  rewrite E1. rewrite sumZ_nil.
  unfold total_size in Ht. rewrite Z.add_0_l, <- Ht, <- (expand_length r W). apply slice_full. lia.
Qed.

(* ====================================================================================== *)
(* T3: from_intervals (scalar value) expands to value inside the intervals, default outside  *)
(* ====================================================================================== *)
Ltac Zify.zify_post_hook ::= Z.to_euclidean_division_equations.

(* intervals strictly after pos, each non-empty, strictly separated *)
Fixpoint gaps (pos : Z) (ivs : list (Z * Z)) : bool :=
  match ivs with [] => true | (s, e) :: r => (pos <? s) && (s <? e) && gaps e r end.
Definition iv_recs (value : Z * Z) (ivs : list (Z * Z)) : list (Z * Z * (Z * Z)) := map (fun '(s, e) => (s, e, value)) ivs.
Definition ends_last (pos : Z) (ivs : list (Z * Z)) : Z := last (map snd ivs) pos.

Lemma gaps_cons pos s e r : gaps pos ((s, e) :: r) = true -> pos < s /\ s < e /\ gaps e r = true.
Proof.
  cbn [gaps]. intros H. apply andb_prop in H. destruct H as [H H3]. apply andb_prop in H. destruct H as [H1 H2].
  apply Z.ltb_lt in H1. apply Z.ltb_lt in H2. auto.
Qed.
Lemma gaps_sorted value : forall ivs pos, gaps pos ivs = true -> sorted_disjoint pos (iv_recs value ivs) = true.
Proof.
  induction ivs as [|[s e] r IH]; intros pos H; [reflexivity|].
  apply gaps_cons in H. destruct H as (H1 & H2 & H3). cbn [iv_recs map sorted_disjoint]. fold (iv_recs value r).
  rewrite (IH e H3), andb_true_r. apply andb_true_intro. split; [apply Z.leb_le|apply Z.ltb_lt]; lia.
Qed.
Lemma gaps_ends_last : forall ivs pos, gaps pos ivs = true -> pos <= ends_last pos ivs.
Proof.
  induction ivs as [|[s e] r IH]; intros pos H; [unfold ends_last; simpl; lia|].
  apply gaps_cons in H. destruct H as (H1 & H2 & H3). unfold ends_last in *. cbn [map snd]. rewrite last_cons.
  specialize (IH e H3). lia.
Qed.
Lemma ends_last_cons pos s e r : ends_last pos ((s, e) :: r) = ends_last e r.
Proof. unfold ends_last. cbn [map snd]. apply last_cons. Qed.
Lemma interleave2_cons {A} (x y : A) a b : interleave2 (x :: a) (y :: b) = x :: y :: interleave2 a b.
Proof. reflexivity. Qed.

Lemma from_intervals_inc : forall ivs pos post, gaps pos ivs = true ->
  increasing_from pos (interleave2 (map fst ivs) (map snd ivs) ++ post) = increasing_from (ends_last pos ivs) post.
Proof.
  induction ivs as [|[s e] r IH]; intros pos post H; [reflexivity|].
  apply gaps_cons in H. destruct H as (H1 & H2 & H3). cbn [map fst snd]. rewrite interleave2_cons.
  cbn [app increasing_from]. rewrite (IH e post H3), ends_last_cons.
  replace (pos <? s) with true by (symmetry; apply Z.ltb_lt; lia).
  replace (s <? e) with true by (symmetry; apply Z.ltb_lt; lia). reflexivity.
Qed.

Lemma from_intervals_expand d value : forall ivs pos post (n : nat), gaps pos ivs = true -> (length ivs <= n)%nat ->
  expand_from pos (interleave2 (map fst ivs) (map snd ivs) ++ post) (alternate n d value)
  = tabulate (cover_at d (iv_recs value ivs)) pos (ends_last pos ivs - pos)
    ++ expand_from (ends_last pos ivs) post (alternate (n - length ivs) d value).
Proof.
  induction ivs as [|[s e] r IH]; intros pos post n H Hn.
  - unfold ends_last. cbn [map interleave2 app last length]. rewrite Nat.sub_0_r.
    rewrite tabulate_nil by lia. reflexivity.
  - pose proof (gaps_sorted value _ _ H) as Hs.
    apply gaps_cons in H. destruct H as (H1 & H2 & H3).
    destruct n as [|n]; [simpl in Hn; lia|]. simpl length in Hn.
    cbn [map fst snd]. rewrite interleave2_cons. cbn [app alternate expand_from].
    rewrite (IH e post n H3 ltac:(lia)). rewrite ends_last_cons.
    pose proof (gaps_ends_last r e H3) as HL.
    replace (S n - length ((s, e) :: r))%nat with (n - length r)%nat by (simpl length; lia).
    rewrite !app_assoc. f_equal.
    replace (ends_last e r - pos) with ((s - pos) + ((e - s) + (ends_last e r - e))) by lia.
    rewrite tabulate_app by lia. rewrite tabulate_app by lia.
    replace (pos + (s - pos)) with s by lia. replace (s + (e - s)) with e by lia.
    rewrite <- !app_assoc. f_equal; [|f_equal].
    + symmetry. apply tabulate_const. intros p Hp.
      apply (cover_at_before d s); [|lia].
      cbn [iv_recs map]. cbn [iv_recs map] in Hs.
      apply sorted_disjoint_cons in Hs. destruct Hs as (_ & _ & Hs3).
      cbn [sorted_disjoint]. rewrite Hs3, andb_true_r. apply andb_true_intro. split; [apply Z.leb_le|apply Z.ltb_lt]; lia.
    + symmetry. apply tabulate_const. intros p Hp. cbn [iv_recs map]. apply cover_at_head. lia.
    + apply tabulate_ext. intros p Hp. cbn [iv_recs map]. symmetry. apply cover_at_skip. lia.
Qed.

Lemma expand_from_firstn : forall ev pos vs (m : nat), (length ev <= m)%nat ->
  expand_from pos ev (firstn m vs) = expand_from pos ev vs.
Proof.
  induction ev as [|e ev IH]; intros pos vs m Hm; [destruct (firstn m vs); reflexivity|].
  destruct m as [|m]; [simpl in Hm; lia|]. destruct vs as [|v vs]; [reflexivity|].
  cbn [firstn expand_from]. f_equal. apply IH. simpl in Hm. lia.
Qed.
Lemma alternate_length {A} n (x y : A) : length (alternate n x y) = (2 * n)%nat.
Proof. induction n as [|n IH]; [reflexivity|]. cbn [alternate length]. rewrite IH. lia. Qed.
Lemma interleave2_length : forall (ivs : list (Z * Z)), length (interleave2 (map fst ivs) (map snd ivs)) = (2 * length ivs)%nat.
Proof. induction ivs as [|[s e] r IH]; [reflexivity|]. cbn [map fst snd]. rewrite interleave2_cons. cbn [length]. rewrite IH. lia. Qed.

(* the two assertions at the top of from_intervals *)
Lemma from_intervals_asserts : forall ivs pos, gaps pos ivs = true ->
  all_true (map2 Z.ltb (map fst ivs) (map snd ivs)) = true
  /\ all_true (map2 Z.leb (removelast (map snd ivs)) (tl (map fst ivs))) = true.
Proof.
  induction ivs as [|[s e] r IH]; intros pos H; [split; reflexivity|].
  apply gaps_cons in H. destruct H as (H1 & H2 & H3). destruct (IH e H3) as [I1 I2]. cbn [map fst snd]. split.
  - cbn [map2 all_true]. rewrite I1, andb_true_r. apply Z.ltb_lt. exact H2.
  - cbn [tl]. destruct r as [|[s2 e2] r']; [reflexivity|].
    apply gaps_cons in H3. destruct H3 as (G1 & _ & _).
    cbn [map fst snd] in *. rewrite removelast_cons. cbn [map2 all_true]. cbn [tl] in I2. rewrite I2, andb_true_r.
    apply Z.leb_le. lia.
Qed.
Lemma last_default_irrel {A} (l : list A) d d' : l <> [] -> last l d = last l d'.
Proof.
  induction l as [|x l IH]; intros H; [congruence|]. destruct l as [|y l']; [reflexivity|].
  change (last (x :: y :: l') d) with (last (y :: l') d). change (last (x :: y :: l') d') with (last (y :: l') d').
  apply IH. discriminate.
Qed.

Lemma last_interleave : forall r e post, gaps e r = true ->
  last (interleave2 (map fst r) (map snd r) ++ post) e = last (ends_last e r :: post) 0.
Proof.
  induction r as [|[s2 e2] r IH]; intros e post H3.
  - unfold ends_last. cbn [map interleave2 app]. change (last (@nil Z) e) with e. rewrite last_cons. reflexivity.
  - apply gaps_cons in H3. destruct H3 as (_ & _ & G). cbn [map fst snd]. rewrite interleave2_cons. cbn [app].
    rewrite !last_cons. rewrite (IH e2 post G). rewrite ends_last_cons, last_cons. reflexivity.
Qed.

Lemma tabulate_split3 {A} (f : Z -> A) a b c d : a <= b -> b <= c -> c <= d ->
  tabulate f a (d - a) = tabulate f a (b - a) ++ tabulate f b (c - b) ++ tabulate f c (d - c).
Proof.
  intros H1 H2 H3. replace (d - a) with ((b - a) + ((c - b) + (d - c))) by lia.
  rewrite tabulate_app by lia. rewrite tabulate_app by lia.
  replace (a + (b - a)) with b by lia. replace (b + (c - b)) with c by lia. reflexivity.
Qed.

Lemma last_stop_iv_recs value : forall ivs pos, ivs <> [] -> last_stop (iv_recs value ivs) = ends_last pos ivs.
Proof.
  induction ivs as [|[s e] r IH]; intros pos H; [congruence|].
  destruct r as [|[s2 e2] r']; [reflexivity|].
  cbn [iv_recs map]. rewrite last_stop_cons, ends_last_cons. apply (IH e). discriminate.
Qed.

(* first interval may start at 0 (no prefix event) or later *)
Definition ivs_ok (ivs : list (Z * Z)) : Prop :=
  match ivs with [] => True | (s, e) :: r => 0 <= s /\ s < e /\ gaps e r = true end.

Theorem from_intervals_dense : forall ivs size k value default,
  0 < size -> ivs_ok ivs -> ends_last 0 ivs <= size ->
  exists r, from_intervals_scalar_gen clean_pinned (map fst ivs) (map snd ivs) size k value default = Some (k, r)
    /\ wf_rle r = true /\ rle_len r = size
    /\ expand r = dense_of (cast_to k default) (iv_recs value ivs) size.
Proof.
  intros ivs size k value default Hsize Hok Hend.
  unfold from_intervals_scalar_gen, clean_pinned, from_intervals_events, iv_has_prefix, iv_has_postfix,
    m_iv_prefix, m_iv_postfix, m_iv_n_pairs, m_iv_keep. set (d := cast_to k default).
  (* the assertions hold *)
  assert (Hass : all_true (map2 Z.ltb (map fst ivs) (map snd ivs)) = true
                 /\ all_true (map2 Z.leb (removelast (map snd ivs)) (tl (map fst ivs))) = true).
  { destruct ivs as [|[s e] r]; [split; reflexivity|]. destruct Hok as (H1 & H2 & H3).
    apply (from_intervals_asserts ((s, e) :: r) (s - 1)). cbn [gaps]. rewrite H3, andb_true_r.
    apply andb_true_intro. split; apply Z.ltb_lt; lia. }
  destruct Hass as [A1 A2]. rewrite A1, A2. cbn [andb negb].
  (* postfix *)
  set (post := if match map snd ivs with [] => true | _ :: _ => negb (last (map snd ivs) 0 =? size) end then [size] else []).
  assert (Hpost : increasing_from (ends_last 0 ivs) post = true /\ last (ends_last 0 ivs :: post) 0 = size
                  /\ forall n, (1 <= n)%nat -> expand_from (ends_last 0 ivs) post (alternate n d value)
                                = repeat d (Z.to_nat (size - ends_last 0 ivs))).
  { unfold post, ends_last. destruct (map snd ivs) as [|e0 es] eqn:Ee.
    - cbn [last increasing_from]. repeat split; [rewrite andb_true_r; apply Z.ltb_lt; lia|].
      intros n Hn. destruct n; [lia|]. cbn [alternate expand_from]. apply app_nil_r.
    - unfold ends_last in Hend. rewrite Ee in Hend. destruct (Z.eqb_spec (last (e0 :: es) 0) size) as [E|E]; cbn [negb].
      + repeat split; [simpl; exact E|]. intros n Hn. destruct n; [lia|]. cbn [alternate expand_from].
        replace (Z.to_nat (size - last (e0 :: es) 0)) with O by lia. reflexivity.
      + cbn [increasing_from]. repeat split; [rewrite andb_true_r; apply Z.ltb_lt; lia|].
        intros n Hn. destruct n; [lia|]. cbn [alternate expand_from]. apply app_nil_r. }
  destruct Hpost as (P1 & P2 & P3).
  assert (Hpl : (length post <= 1)%nat) by (unfold post; destruct (match map snd ivs with [] => true | _ :: _ => _ end); simpl; lia).
  destruct ivs as [|[s e] r].
  - (* no interval: [0, size], one default run *)
    cbn [map app interleave2]. fold post. unfold ends_last in *. cbn [map last] in *.
    set (events := 0 :: post) in *.
    assert (W : wf_rle (events, firstn (Z.to_nat (len events - 1)) (alternate (Z.to_nat (len events / 2 + 1)) d value)) = true).
    { unfold wf_rle. cbn [fst snd]. unfold events. rewrite Z.eqb_refl, P1. cbn [andb].
      apply Z.eqb_eq. unfold len. rewrite firstn_length, alternate_length. simpl length. lia. }
    eexists. split; [rewrite mk_rle_wf; [reflexivity|exact W]|]. split; [exact W|]. split.
    + unfold rle_len. cbn [fst]. exact P2.
    + unfold expand. cbn [fst snd]. unfold events. rewrite expand_from_firstn by (unfold len; simpl length; lia).
      rewrite P3 by (unfold len; simpl length; lia).
      unfold dense_of. symmetry. replace (size - 0) with size by lia. apply tabulate_const. intros p Hp. reflexivity.
  - destruct Hok as (H1 & H2 & H3). cbn [map fst snd] in *.
    pose proof (gaps_ends_last r e H3) as HL. rewrite ends_last_cons in *.
    assert (Elen : length (interleave2 (s :: map fst r) (e :: map snd r)) = (2 * length r + 2)%nat).
    { rewrite interleave2_cons. cbn [length]. rewrite interleave2_length. lia. }
    destruct (Z.eqb_spec s 0) as [E0|E0]; cbn [negb app].
    + (* first interval starts at 0: no prefix event, first value dropped *)
      subst s. fold post. rewrite interleave2_cons. cbn [app].
      set (events := 0 :: e :: interleave2 (map fst r) (map snd r) ++ post) in *.
      assert (Hev : length events = (2 * length r + 2 + length post)%nat).
      { unfold events. cbn [length]. rewrite app_length, interleave2_length. lia. }
      set (n := Z.to_nat (len events / 2 + 1)).
      assert (Hn : (length r + 1 <= n)%nat /\ (length events <= 2 * n - 1)%nat).
      { unfold n, len. rewrite Hev. split; lia. }
      destruct n as [|n]; [lia|]. cbn [alternate tl].
      assert (Winc : increasing_from 0 (e :: interleave2 (map fst r) (map snd r) ++ post) = true).
      { cbn [increasing_from]. rewrite (from_intervals_inc r e post H3), P1, andb_true_r. apply Z.ltb_lt. lia. }
      assert (W : wf_rle (events, firstn (Z.to_nat (len events - 1)) (value :: alternate n d value)) = true).
      { unfold wf_rle. cbn [fst snd]. unfold events at 1. rewrite Z.eqb_refl, Winc. cbn [andb].
        apply Z.eqb_eq. unfold len. rewrite firstn_length. cbn [length]. rewrite alternate_length.
        assert (Hev2 : length events = S (S (length (interleave2 (map fst r) (map snd r) ++ post)))) by reflexivity.
        lia. }
      eexists. split; [rewrite mk_rle_wf; [reflexivity|exact W]|]. split; [exact W|]. split.
      * unfold rle_len. cbn [fst]. unfold events. rewrite last_cons, last_cons.
        rewrite (last_interleave r e post H3). exact P2.
      * unfold expand. cbn [fst snd]. unfold events.
        assert (Hev2 : length events = S (S (length (interleave2 (map fst r) (map snd r) ++ post)))) by reflexivity.
        rewrite expand_from_firstn by (unfold len; cbn [length]; lia).
        cbn [expand_from]. rewrite (from_intervals_expand d value r e post n H3 ltac:(lia)).
        rewrite P3 by lia.
        pose proof (gaps_sorted value r e H3) as Hs.
        assert (Hs0 : sorted_disjoint 0 (iv_recs value ((0, e) :: r)) = true).
        { cbn [iv_recs map sorted_disjoint]. fold (iv_recs value r). rewrite Hs, andb_true_r.
          apply andb_true_intro. split; [apply Z.leb_le|apply Z.ltb_lt]; lia. }
        unfold dense_of.
        replace (tabulate (cover_at d (iv_recs value ((0, e) :: r))) 0 size)
          with (tabulate (cover_at d (iv_recs value ((0, e) :: r))) 0 (size - 0)) by (f_equal; lia).
        rewrite (tabulate_split3 _ 0 e (ends_last e r) size) by lia.
        f_equal; [|f_equal].
        -- symmetry. apply tabulate_const. intros p Hp. cbn [iv_recs map]. apply cover_at_head. lia.
        -- apply tabulate_ext. intros p Hp. cbn [iv_recs map]. symmetry. apply cover_at_skip. lia.
        -- symmetry. apply tabulate_const. intros p Hp.
           apply (cover_at_after d 0); [exact Hs0| |discriminate].
           rewrite (last_stop_iv_recs value _ 0) by discriminate. rewrite ends_last_cons. lia.
    + (* prefix event 0, default run first *)
      fold post. rewrite interleave2_cons. cbn [app].
      set (events := 0 :: s :: e :: interleave2 (map fst r) (map snd r) ++ post) in *.
      assert (Hev : length events = (2 * length r + 3 + length post)%nat).
      { unfold events. cbn [length]. rewrite app_length, interleave2_length. lia. }
      set (n := Z.to_nat (len events / 2 + 1)).
      assert (Hn : (length r + 2 <= n)%nat /\ (length events <= 2 * n)%nat).
      { unfold n, len. rewrite Hev. split; lia. }
      assert (G0 : gaps 0 ((s, e) :: r) = true).
      { cbn [gaps]. rewrite H3, andb_true_r. apply andb_true_intro. split; apply Z.ltb_lt; lia. }
      assert (Winc : increasing_from 0 (s :: e :: interleave2 (map fst r) (map snd r) ++ post) = true).
      { pose proof (from_intervals_inc ((s, e) :: r) 0 post G0) as X. cbn [map fst snd] in X.
        rewrite interleave2_cons in X. cbn [app] in X. rewrite X, ends_last_cons. exact P1. }
      assert (W : wf_rle (events, firstn (Z.to_nat (len events - 1)) (alternate n d value)) = true).
      { unfold wf_rle. cbn [fst snd]. unfold events at 1. rewrite Z.eqb_refl, Winc. cbn [andb].
        apply Z.eqb_eq. unfold len. rewrite firstn_length, alternate_length.
        assert (Hev2 : length events = S (S (S (length (interleave2 (map fst r) (map snd r) ++ post))))) by reflexivity.
        cbn [length]. lia. }
      eexists. split; [rewrite mk_rle_wf; [reflexivity|exact W]|]. split; [exact W|]. split.
      * unfold rle_len. cbn [fst]. unfold events. rewrite !last_cons.
        rewrite (last_interleave r e post H3). exact P2.
      * unfold expand. cbn [fst snd]. unfold events.
        assert (Hev2 : length events = S (S (S (length (interleave2 (map fst r) (map snd r) ++ post))))) by reflexivity.
        rewrite expand_from_firstn by (unfold len; cbn [length]; lia).
        pose proof (from_intervals_expand d value ((s, e) :: r) 0 post n G0 ltac:(simpl length; lia)) as X.
        cbn [map fst snd] in X. rewrite interleave2_cons in X. cbn [app] in X. rewrite X. clear X.
        rewrite ends_last_cons. rewrite P3 by (simpl length; lia).
        pose proof (gaps_sorted value _ 0 G0) as Hs0.
        unfold dense_of.
        replace (tabulate (cover_at d (iv_recs value ((s, e) :: r))) 0 size)
          with (tabulate (cover_at d (iv_recs value ((s, e) :: r))) 0 (size - 0)) by (f_equal; lia).
        rewrite (tabulate_split3 _ 0 0 (ends_last e r) size) by lia.
        rewrite (tabulate_nil _ 0 (0 - 0)) by lia. cbn [app]. f_equal.
        symmetry. apply tabulate_const. intros p Hp.
        apply (cover_at_after d 0); [apply (sorted_disjoint_weaken 0); [lia|exact Hs0]| |discriminate].
        rewrite (last_stop_iv_recs value _ 0) by discriminate. rewrite ends_last_cons. lia.
Qed.

(* ---------- what the pinned from_intervals does not do ---------- *)
Theorem from_intervals_touching_refuted :
  exists starts ends size,
    all_true (map2 Z.ltb starts ends) = true /\ all_true (map2 Z.leb (removelast ends) (tl starts)) = true
    /\ from_intervals_scalar_gen clean_pinned starts ends size KB vone vzero = None
    /\ exists r, from_intervals_scalar_gen clean_fixed starts ends size KB vone vzero = Some (KB, r)
                 /\ expand r = dense_of vzero [(1, 3, vone); (3, 5, vone)] size.
Proof.
  exists [1; 3], [3; 5], 6. repeat split. eexists. split; vm_compute; reflexivity.
Qed.
Theorem from_intervals_array_refuted :
  forall starts ends size k values default, from_intervals_array_pinned starts ends size k values default = None.
Proof. reflexivity. Qed.

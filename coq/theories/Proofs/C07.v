(* Proofs/C07.v — part 1: bionumpy's flat-data-plus-offsets routines (strops.join / split / str_equal,
   util/ragged_slice) compute their list-of-strings meaning, for every input size. *)
From Coq Require Import ZArith List Bool Lia Arith.
From BNP Require Import Base.Prims Base.PrimsFacts Model.C07.
Import ListNotations.
Open Scope Z_scope.

(* ---------- small list facts ---------- *)
Lemma Z2N_len {A} (l : list A) : Z.to_nat (len l) = length l.
Proof. unfold len. lia. Qed.

Lemma nthZ_app_mid (pre : list Z) x post : nthZ (pre ++ x :: post) (len pre) = x.
Proof. unfold nthZ. rewrite Z2N_len. rewrite app_nth2 by lia. rewrite Nat.sub_diag. reflexivity. Qed.

Lemma map_nth_arange_from : forall (r pre post : list Z),
  map (nthZ (pre ++ r ++ post)) (arange_from (len pre) (length r)) = r.
Proof.
  induction r as [|x r IH]; intros pre post; [reflexivity|].
  simpl arange_from. simpl map. f_equal.
  - simpl. apply nthZ_app_mid.
  - simpl app.
    replace (pre ++ x :: r ++ post) with ((pre ++ [x]) ++ r ++ post) by (rewrite <- app_assoc; reflexivity).
    replace (len pre + 1) with (len (pre ++ [x])) by (rewrite len_app; reflexivity).
    apply IH.
Qed.

Lemma map_shift {B} (g : Z -> B) st : forall n a,
  map (fun k => g (st + k)) (arange_from a n) = map g (arange_from (st + a) n).
Proof.
  induction n as [|n IH]; intros a; [reflexivity|].
  simpl. f_equal. rewrite IH. f_equal. f_equal. lia.
Qed.

Lemma all_true_map2_eqb : forall r s, length r = length s -> all_true (map2 Z.eqb r s) = zlist_eqb r s.
Proof.
  induction r as [|x r IH]; intros [|y s] H; try discriminate; [reflexivity|].
  simpl. unfold zlist_eqb in *. simpl. f_equal. apply IH. simpl in H. lia.
Qed.
Lemma zlist_eqb_len_neq : forall r s, length r <> length s -> zlist_eqb r s = false.
Proof.
  unfold zlist_eqb.
  induction r as [|x r IH]; intros [|y s] H; simpl in *; try reflexivity; try congruence.
  rewrite IH by lia. apply andb_false_r.
Qed.
Lemma zlist_eqb_refl : forall r, zlist_eqb r r = true.
Proof. unfold zlist_eqb. induction r; simpl; [reflexivity|]. rewrite Z.eqb_refl, IHr. reflexivity. Qed.
Lemma zlist_eqb_eq : forall r s, zlist_eqb r s = true <-> r = s.
Proof.
  unfold zlist_eqb. induction r as [|x r IH]; intros [|y s]; simpl; split; intros H; try reflexivity; try discriminate.
  - apply andb_true_iff in H. destruct H as [H1 H2]. apply Z.eqb_eq in H1. apply IH in H2. subst. reflexivity.
  - inversion H. subst. rewrite Z.eqb_refl. simpl. apply IH. reflexivity.
Qed.

(* ---------- row starts ---------- *)
Fixpoint starts_from (a : Z) (lens : list Z) : list Z :=
  match lens with [] => [] | l :: r => a :: starts_from (a + l) r end.
Lemma removelast_cumsum : forall lens a, removelast (a :: cumsum_from a lens) = starts_from a lens.
Proof.
  induction lens as [|x r IH]; intros a; [reflexivity|].
  simpl cumsum_from. simpl starts_from. rewrite <- IH.
  change (removelast (a :: (a + x) :: cumsum_from (a + x) r)) with (a :: removelast ((a + x) :: cumsum_from (a + x) r)).
  reflexivity.
Qed.
Lemma starts_of_from lens : starts_of lens = starts_from 0 lens.
Proof. unfold starts_of, cumsum. apply removelast_cumsum. Qed.

(* ================= T2: str_equal ================= *)
Lemma streq_gen (s : list Z) : forall rows pre post,
  refine_mask (map (fun l => l =? len s) (map len rows))
    (map (fun row => all_true (map2 Z.eqb row s))
       (map (fun st => map (fun k => nthZ (pre ++ concat rows ++ post) (st + k)) (arange (len s)))
            (mask_select (map (fun l => l =? len s) (map len rows)) (starts_from (len pre) (map len rows)))))
  = map (fun r => zlist_eqb r s) rows.
Proof.
  induction rows as [|r rows IH]; intros pre post; [reflexivity|].
  simpl map. simpl starts_from. simpl concat.
  assert (E : pre ++ (r ++ concat rows) ++ post = (pre ++ r) ++ concat rows ++ post)
    by (rewrite <- !app_assoc; reflexivity).
  destruct (len r =? len s) eqn:Hl.
  - apply Z.eqb_eq in Hl. simpl mask_select. simpl map. simpl refine_mask. f_equal.
    + unfold arange. rewrite map_shift. rewrite Z.add_0_r.
      replace (Z.to_nat (len s)) with (length r) by (rewrite <- Hl; symmetry; apply Z2N_len).
      rewrite <- app_assoc. rewrite map_nth_arange_from.
      apply all_true_map2_eqb. unfold len in Hl. lia.
    + rewrite E. replace (len pre + len r) with (len (pre ++ r)) by apply len_app. apply IH.
  - apply Z.eqb_neq in Hl. simpl mask_select. simpl refine_mask. f_equal.
    + symmetry. apply zlist_eqb_len_neq. unfold len in Hl. lia.
    + rewrite E. replace (len pre + len r) with (len (pre ++ r)) by apply len_app. apply IH.
Qed.

Theorem str_equal_spec : forall rows s, m_streq rows s = s_streq rows s.
Proof.
  intros rows s. unfold m_streq, s_streq, m_streq_mask, m_streq_index. rewrite starts_of_from.
  pose proof (streq_gen s rows [] []) as H. simpl in H. rewrite app_nil_r in H. exact H.
Qed.

Theorem str_equal2_spec : forall rows l, m_streq2 rows l = s_streq2 rows l.
Proof.
  unfold m_streq2, s_streq2, m_streq_mask.
  induction rows as [|a rows IH]; intros [|b l]; try reflexivity.
  simpl map2. destruct (len a =? len b) eqn:Hl.
  - simpl. f_equal; [|apply IH]. apply all_true_map2_eqb. apply Z.eqb_eq in Hl. unfold len in Hl. lia.
  - simpl. f_equal; [|apply IH]. symmetry. apply zlist_eqb_len_neq. apply Z.eqb_neq in Hl. unfold len in Hl. lia.
Qed.

(* ================= T1b: split ================= *)
Lemma set_last_app {A} (v x : A) : forall l, set_last v (l ++ [x]) = l ++ [v].
Proof.
  induction l as [|y l IH]; [reflexivity|].
  simpl app. destruct (l ++ [x]) as [|a l0] eqn:E; [destruct l; discriminate|].
  transitivity (y :: set_last v (a :: l0)); [reflexivity|f_equal; exact IH].
Qed.
Lemma flatnonzero_from_succ : forall l i, flatnonzero_from (i + 1) l = map (fun k => k + 1) (flatnonzero_from i l).
Proof.
  induction l as [|b l IH]; intros i; [reflexivity|].
  simpl. rewrite map_app. rewrite IH. destruct b; reflexivity.
Qed.
Lemma diff_shift : forall l, diff (map (fun k => k + 1) l) = diff l.
Proof.
  induction l as [|a l IH]; [reflexivity|].
  destruct l as [|b l]; [reflexivity|].
  simpl map in *. simpl diff. simpl diff in IH. rewrite IH. f_equal. lia.
Qed.

(* lengths of the pieces (each counted with its terminating separator / the appended end mark) *)
Fixpoint seg_lens (sep : Z) (s : list Z) : list Z :=
  match s with
  | [] => [1]
  | x :: r => if x =? sep then 1 :: seg_lens sep r
              else match seg_lens sep r with l0 :: ls => (l0 + 1) :: ls | [] => [] end
  end.
Lemma seg_lens_pos sep : forall s, seg_lens sep s <> [] /\ Forall (fun l => 1 <= l) (seg_lens sep s).
Proof.
  induction s as [|x r [IH1 IH2]]; simpl.
  - split; [discriminate|repeat constructor; lia].
  - destruct (x =? sep).
    + split; [discriminate|constructor; [lia|assumption]].
    + destruct (seg_lens sep r) as [|l0 ls]; [congruence|].
      inversion IH2; subst. split; [discriminate|constructor; [lia|assumption]].
Qed.
Lemma split_lens sep : forall s,
  diff (-1 :: flatnonzero_from 0 (map (fun x => x =? sep) s ++ [true])) = seg_lens sep s.
Proof.
  induction s as [|x r IH]; [reflexivity|].
  simpl map. simpl app. simpl flatnonzero_from.
  rewrite (flatnonzero_from_succ _ 0).
  set (idx := flatnonzero_from 0 (map (fun x => x =? sep) r ++ [true])) in *.
  simpl seg_lens. destruct (x =? sep).
  - simpl app. change (diff (-1 :: 0 :: map (fun k => k + 1) idx)) with ((0 - -1) :: diff (0 :: map (fun k => k + 1) idx)).
    f_equal. rewrite <- IH. change (0 :: map (fun k => k + 1) idx) with (map (fun k => k + 1) (-1 :: idx)).
    apply diff_shift.
  - simpl app. rewrite <- IH. destruct idx as [|j0 js]; [reflexivity|].
    simpl map. change (diff (-1 :: j0 + 1 :: map (fun k => k + 1) js))
      with ((j0 + 1 - -1) :: diff (map (fun k => k + 1) (j0 :: js))).
    rewrite diff_shift. simpl diff. f_equal; try lia; try reflexivity.
Qed.
Lemma split_rows sep z : forall s,
  map (@removelast Z) (rows_by_lens (s ++ [z]) (seg_lens sep s)) = split_on sep s.
Proof.
  induction s as [|x r IH]; [reflexivity|].
  simpl seg_lens. simpl split_on. destruct (x =? sep) eqn:Hx.
  - simpl. rewrite IH. reflexivity.
  - destruct (seg_lens_pos sep r) as [Hne Hpos].
    destruct (seg_lens sep r) as [|l0 ls] eqn:Hs; [congruence|].
    inversion Hpos as [|? ? Hl0 _]; subst.
    rewrite <- IH. simpl rows_by_lens.
    replace (Z.to_nat (l0 + 1)) with (S (Z.to_nat l0)) by lia.
    simpl app. simpl firstn. simpl skipn. simpl map. f_equal.
    destruct (Z.to_nat l0) as [|n0] eqn:Hn; [lia|].
    destruct (r ++ [z]) as [|y d] eqn:Hd; [destruct r; discriminate|]. reflexivity.
Qed.

Theorem split_spec : forall s sep, m_split s sep = split_on sep s.
Proof.
  intros s sep. unfold m_split, m_split_first_len. rewrite map_app. cbn [map]. rewrite set_last_app.
  unfold flatnonzero.
  set (idx := flatnonzero_from 0 (map (fun x => x =? sep) s ++ [true])).
  assert (Hl : match diff (0 :: idx) with _ :: r => (nthZ idx 0 + 1) :: r | [] => [] end = diff (-1 :: idx)).
  { destruct idx as [|i0 rest]; [reflexivity|]. simpl. unfold nthZ. simpl. f_equal; try lia. }
  rewrite Hl. unfold idx. rewrite split_lens. apply split_rows.
Qed.

(* ================= T1a: join ================= *)
Lemma set_nth_app_r {A} (v : A) : forall (pre : list A) y rest,
  set_nth (length pre) v (pre ++ y :: rest) = pre ++ v :: rest.
Proof. induction pre as [|x pre IH]; intros y rest; [reflexivity|]. simpl. rewrite IH. reflexivity. Qed.
Lemma set_nth_comm {A} (a b : A) : forall l i j, i <> j ->
  set_nth i a (set_nth j b l) = set_nth j b (set_nth i a l).
Proof.
  induction l as [|x l IH]; intros i j H; [reflexivity|].
  destruct i, j; simpl; try reflexivity; try congruence. f_equal. apply IH. congruence.
Qed.
Lemma scatter_swap_single {A} (v : A) q : forall pos vals l,
  (forall p, In p pos -> Z.to_nat p <> q) ->
  scatter (set_nth q v l) pos vals = set_nth q v (scatter l pos vals).
Proof.
  induction pos as [|p pos IH]; intros vals l H; [reflexivity|].
  destruct vals as [|w vals]; [reflexivity|].
  simpl. rewrite set_nth_comm by (apply H; left; reflexivity).
  apply IH. intros p' Hp'. apply H. right. exact Hp'.
Qed.
Lemma scatter_app {A} : forall (p1 p2 : list Z) (v1 v2 l : list A), length p1 = length v1 ->
  scatter l (p1 ++ p2) (v1 ++ v2) = scatter (scatter l p1 v1) p2 v2.
Proof.
  induction p1 as [|p p1 IH]; intros p2 v1 v2 l H; destruct v1 as [|v v1]; try discriminate; [reflexivity|].
  simpl. apply IH. simpl in H. lia.
Qed.
Lemma scatter_arange {A} : forall (r pre rest : list A), (length r <= length rest)%nat ->
  scatter (pre ++ rest) (arange_from (len pre) (length r)) r = pre ++ r ++ skipn (length r) rest.
Proof.
  induction r as [|x r IH]; intros pre rest H; [reflexivity|].
  destruct rest as [|y rest]; [simpl in H; lia|].
  simpl arange_from. simpl scatter. rewrite Z2N_len. rewrite set_nth_app_r.
  replace (pre ++ x :: rest) with ((pre ++ [x]) ++ rest) by (rewrite <- app_assoc; reflexivity).
  replace (len pre + 1) with (len (pre ++ [x])) by (rewrite len_app; reflexivity).
  rewrite IH by (simpl in H; lia). rewrite <- app_assoc. reflexivity.
Qed.
Lemma length_arange_from : forall n a, length (arange_from a n) = n.
Proof. induction n; intros; simpl; [reflexivity|]. rewrite IHn. reflexivity. Qed.

(* flat indices of new_array[:, :-1] and of new_array[:, -1] when the rows start at offset a *)
Fixpoint idxA (a : Z) (rows : list (list Z)) : list Z :=
  match rows with [] => [] | r :: rest => arange_from a (length r) ++ idxA (a + len r + 1) rest end.
Fixpoint idxB (a : Z) (rows : list (list Z)) : list Z :=
  match rows with [] => [] | r :: rest => (a + len r) :: idxB (a + len r + 1) rest end.
Lemma idxA_unfold : forall rows a,
  concat (map2 (fun s l => arange_from s (Z.to_nat l))
               (starts_from a (map (fun l => l + 1) (map len rows))) (map len rows)) = idxA a rows.
Proof.
  induction rows as [|r rows IH]; intros a; [reflexivity|].
  simpl. rewrite Z2N_len. f_equal. replace (a + (len r + 1)) with (a + len r + 1) by lia. apply IH.
Qed.
Lemma idxB_unfold : forall rows a,
  map2 (fun s l => s + l) (starts_from a (map (fun l => l + 1) (map len rows))) (map len rows) = idxB a rows.
Proof.
  induction rows as [|r rows IH]; intros a; [reflexivity|].
  simpl. f_equal. replace (a + (len r + 1)) with (a + len r + 1) by lia. apply IH.
Qed.
Lemma idxA_ge : forall rows a p, In p (idxA a rows) -> a <= p.
Proof.
  induction rows as [|r rows IH]; intros a p H; [contradiction|].
  simpl in H. apply in_app_or in H. destruct H as [H|H].
  - apply In_arange_from in H. lia.
  - apply IH in H. pose proof (len_nonneg r). lia.
Qed.
Lemma length_idxA : forall rows a, length (idxA a rows) = length (concat rows).
Proof.
  induction rows as [|r rows IH]; intros a; [reflexivity|].
  simpl. rewrite !app_length, length_arange_from, IH. reflexivity.
Qed.
Lemma length_idxB : forall rows a, length (idxB a rows) = length rows.
Proof. induction rows; intros; simpl; [reflexivity|]. rewrite IHrows. reflexivity. Qed.

Lemma join_gen (sep : Z) : forall rows pre d,
  len d = sumZ (map (fun l => l + 1) (map len rows)) ->
  scatter (scatter (pre ++ d) (idxA (len pre) rows) (concat rows)) (idxB (len pre) rows) (repeat sep (length rows))
  = pre ++ concat (map (fun r => r ++ [sep]) rows).
Proof.
  induction rows as [|r rows IH]; intros pre d Hd.
  - simpl in *. destruct d; [reflexivity|]. unfold len in Hd. simpl in Hd. lia.
  - simpl map in Hd. simpl sumZ in Hd.
    pose proof (len_nonneg r) as Hr.
    assert (Hsum : 0 <= sumZ (map (fun l => l + 1) (map len rows))).
    { clear. induction rows as [|x rows IH]; simpl; [lia|]. pose proof (len_nonneg x). lia. }
    simpl idxA. simpl idxB. simpl concat. simpl repeat.
    rewrite scatter_app by (apply length_arange_from).
    rewrite scatter_arange by (unfold len in *; lia).
    simpl scatter.
    (* move the single write of this row's separator before the writes of the remaining rows *)
    rewrite <- scatter_swap_single.
    2:{ intros p Hp. apply idxA_ge in Hp. pose proof (len_nonneg pre). lia. }
    (* the separator lands right after the row *)
    destruct (skipn (length r) d) as [|z d'] eqn:Hsk.
    { exfalso. assert (length (skipn (length r) d) = 0%nat) by (rewrite Hsk; reflexivity).
      rewrite skipn_length in H. unfold len in *. lia. }
    replace (Z.to_nat (len pre + len r)) with (length (pre ++ r)) by (rewrite app_length; unfold len; lia).
    rewrite app_assoc. rewrite set_nth_app_r.
    assert (E1 : (pre ++ r) ++ sep :: d' = (pre ++ r ++ [sep]) ++ d').
    { rewrite <- !app_assoc. simpl. reflexivity. }
    rewrite E1.
    replace (len pre + len r + 1) with (len (pre ++ r ++ [sep])) by (rewrite !len_app; unfold len; simpl; lia).
    rewrite IH.
    + rewrite <- !app_assoc. reflexivity.
    + assert (length d' = (length d - length r - 1)%nat).
      { assert (length (skipn (length r) d) = S (length d')) by (rewrite Hsk; reflexivity).
        rewrite skipn_length in H. lia. }
      unfold len in *. lia.
Qed.

Theorem join_spec : forall fill rows sep keep_last,
  m_join_fill fill rows sep keep_last = s_join rows sep keep_last.
Proof.
  intros fill rows sep k. unfold m_join_fill, s_join, m_join_new_len, m_join_body_len, m_join_sep_pos, m_join_drop.
  rewrite starts_of_from, idxA_unfold, !idxB_unfold, length_idxB.
  set (total := sumZ (map (fun l => l + 1) (map len rows))).
  assert (Hsum : 0 <= total).
  { unfold total. clear. induction rows as [|x rows IH]; simpl; [lia|]. pose proof (len_nonneg x). lia. }
  set (d := firstn (Z.to_nat total) (fill ++ repeat 0 (Z.to_nat total))).
  assert (Hd : len d = total).
  { unfold d, len. rewrite firstn_length, app_length, repeat_length. lia. }
  pose proof (join_gen sep rows [] d Hd) as H. change (len (@nil Z)) with 0 in H. simpl app in H.
  rewrite H. destruct k; reflexivity.
Qed.

(* ================= ragged_slice ================= *)
Lemma gather_app {A} (l : list A) p1 p2 : gather l (p1 ++ p2) = gather l p1 ++ gather l p2.
Proof. unfold gather. apply flat_map_app. Qed.
Lemma skipn_nth_error {A} : forall (l : list A) n x, nth_error l n = Some x -> skipn n l = x :: skipn (S n) l.
Proof.
  induction l as [|y l IH]; intros [|n] x H; simpl in *; try discriminate.
  - inversion H. reflexivity.
  - apply IH. exact H.
Qed.
Lemma gather_arange_from {A} : forall n (l : list A) s, (s + n <= length l)%nat ->
  gather l (arange_from (Z.of_nat s) n) = firstn n (skipn s l).
Proof.
  induction n as [|n IH]; intros l s H; [reflexivity|].
  simpl arange_from. unfold gather. simpl flat_map. rewrite Nat2Z.id.
  destruct (nth_error l s) as [x|] eqn:E.
  - rewrite (skipn_nth_error l s x E). simpl. f_equal.
    replace (Z.of_nat s + 1) with (Z.of_nat (S s)) by lia. apply IH. lia.
  - apply nth_error_None in E. lia.
Qed.
Lemma rows_by_lens_app : forall (a rest : list Z) lens,
  rows_by_lens (a ++ rest) (len a :: lens) = a :: rows_by_lens rest lens.
Proof.
  intros. simpl. rewrite Z2N_len. rewrite firstn_app, Nat.sub_diag, firstn_all, skipn_app, Nat.sub_diag, skipn_all.
  simpl. rewrite app_nil_r. reflexivity.
Qed.
Lemma rslice_gen (flat : list Z) : forall starts es,
  Forall (fun s => 0 <= s <= len flat) starts -> Forall (fun e => e <= len flat) es ->
  rows_by_lens (gather flat (concat (map2 (fun s l => arange_from s (Z.to_nat l)) starts
                                          (map2 (fun s e => Z.max (e - s) 0) starts es))))
               (map2 (fun s e => Z.max (e - s) 0) starts es)
  = map2 (fun s e => slice s e flat) starts es.
Proof.
  induction starts as [|s starts IH]; intros [|e' es] Hs He; try reflexivity.
  inversion Hs as [|? ? Hs1 Hs2]; inversion He as [|? ? He1 He2]; subst.
  simpl map2. simpl concat. rewrite gather_app.
  assert (E : gather flat (arange_from s (Z.to_nat (Z.max (e' - s) 0))) = slice s e' flat).
  { replace s with (Z.of_nat (Z.to_nat s)) at 1 by lia.
    rewrite gather_arange_from by (unfold len in *; lia).
    unfold slice. f_equal. lia. }
  rewrite E.
  assert (L : Z.max (e' - s) 0 = len (slice s e' flat)).
  { unfold slice, len. rewrite firstn_length, skipn_length. unfold len in *. lia. }
  rewrite L. rewrite rows_by_lens_app. f_equal. apply IH; assumption.
Qed.
Lemma forallb_Forall_range T : forall starts,
  forallb (fun s => (0 <=? s) && (s <=? T)) starts = true -> Forall (fun s => 0 <= s <= T) starts.
Proof.
  induction starts as [|s r IH]; intros H; [constructor|].
  simpl in H. apply andb_true_iff in H. destruct H as [H1 H2]. apply andb_true_iff in H1. destruct H1 as [Ha Hb].
  constructor; [lia|apply IH; exact H2].
Qed.
Lemma map2_map_r {A B C D} (f : A -> C -> D) (g : B -> C) : forall a b, map2 f a (map g b) = map2 (fun x y => f x (g y)) a b.
Proof. induction a as [|x a IH]; intros [|y b]; simpl; try reflexivity. rewrite IH. reflexivity. Qed.

Theorem ragged_slice_spec : forall rows starts ends, m_rslice rows starts ends = s_rslice rows starts ends.
Proof.
  intros rows starts ends. unfold m_rslice, s_rslice.
  set (flat := concat rows). set (T := len flat).
  assert (Hl : forall es : list Z, len (map (fun e => if e <? 0 then T + e else Z.min e T) es) = len es)
    by (intros; unfold len; rewrite map_length; reflexivity).
  destruct ends as [es|].
  - rewrite Hl. destruct (negb (len es =? len starts)); [reflexivity|].
    destruct (negb (forallb (fun s => (0 <=? s) && (s <=? T)) starts)) eqn:Hf; [reflexivity|].
    apply negb_false_iff in Hf. apply forallb_Forall_range in Hf.
    f_equal. rewrite rslice_gen.
    + apply map2_map_r.
    + exact Hf.
    + apply Forall_forall. intros e He. apply in_map_iff in He. destruct He as [x [Hx _]]. subst e.
      pose proof (len_nonneg flat). fold T in H. destruct (x <? 0) eqn:E; [apply Z.ltb_lt in E|]; lia.
  - destruct (negb (len (map (fun _ : Z => T) starts) =? len starts)); [reflexivity|].
    destruct (negb (forallb (fun s => (0 <=? s) && (s <=? T)) starts)) eqn:Hf; [reflexivity|].
    apply negb_false_iff in Hf. apply forallb_Forall_range in Hf.
    f_equal. rewrite rslice_gen.
    + rewrite !map2_map_r.
      replace (if T <? 0 then T + T else Z.min T T) with T; [reflexivity|].
      pose proof (len_nonneg flat). fold T in H. destruct (T <? 0) eqn:E; [apply Z.ltb_lt in E|]; lia.
    + exact Hf.
    + apply Forall_forall. intros e He. apply in_map_iff in He. destruct He as [x [Hx _]]. subst e. lia.
Qed.

(* ================= split after join ================= *)
Lemma split_on_app_sep sep : forall r rest, ~ In sep r ->
  split_on sep (r ++ sep :: rest) = r :: split_on sep rest.
Proof.
  induction r as [|x r IH]; intros rest H.
  - simpl. rewrite Z.eqb_refl. reflexivity.
  - simpl. destruct (x =? sep) eqn:E.
    + apply Z.eqb_eq in E. exfalso. apply H. left. exact E.
    + rewrite IH by (intros Hin; apply H; right; exact Hin). reflexivity.
Qed.
Lemma split_on_nosep sep : forall r, ~ In sep r -> split_on sep r = [r].
Proof.
  induction r as [|x r IH]; intros H; [reflexivity|].
  simpl. destruct (x =? sep) eqn:E.
  - apply Z.eqb_eq in E. exfalso. apply H. left. exact E.
  - rewrite IH by (intros Hin; apply H; right; exact Hin). reflexivity.
Qed.
Lemma removelast_app_single {A} (l : list A) x : removelast (l ++ [x]) = l.
Proof. apply removelast_last. Qed.
Lemma split_join_gen sep : forall rows r, Forall (fun r => ~ In sep r) (r :: rows) ->
  split_on sep (removelast (concat (map (fun r => r ++ [sep]) (r :: rows)))) = r :: rows.
Proof.
  induction rows as [|r2 rows IH]; intros r H.
  - simpl. rewrite app_nil_r, removelast_app_single. apply split_on_nosep. inversion H; assumption.
  - inversion H as [|? ? H1 H2]; subst.
    change (concat (map (fun r => r ++ [sep]) (r :: r2 :: rows)))
      with ((r ++ [sep]) ++ concat (map (fun r => r ++ [sep]) (r2 :: rows))).
    rewrite removelast_app.
    + rewrite <- app_assoc. simpl app. rewrite split_on_app_sep by assumption. f_equal. apply IH. exact H2.
    + simpl. destruct r2; discriminate.
Qed.
Theorem split_join_inverse : forall fill rows sep, rows <> [] -> Forall (fun r => ~ In sep r) rows ->
  m_split (m_join_fill fill rows sep false) sep = rows.
Proof.
  intros fill rows sep Hne H. rewrite join_spec, split_spec. unfold s_join.
  destruct rows as [|r rows]; [congruence|]. apply split_join_gen. exact H.
Qed.

(* ================= split with a list of separators (any predicate on characters) ================= *)
Fixpoint seg_lens_p (p : Z -> bool) (s : list Z) : list Z :=
  match s with
  | [] => [1]
  | x :: r => if p x then 1 :: seg_lens_p p r
              else match seg_lens_p p r with l0 :: ls => (l0 + 1) :: ls | [] => [] end
  end.
Lemma seg_lens_p_pos p : forall s, seg_lens_p p s <> [] /\ Forall (fun l => 1 <= l) (seg_lens_p p s).
Proof.
  induction s as [|x r [IH1 IH2]]; simpl.
  - split; [discriminate|repeat constructor; lia].
  - destruct (p x).
    + split; [discriminate|constructor; [lia|assumption]].
    + destruct (seg_lens_p p r) as [|l0 ls]; [congruence|].
      inversion IH2; subst. split; [discriminate|constructor; [lia|assumption]].
Qed.
Lemma split_lens_p p : forall s,
  diff (-1 :: flatnonzero_from 0 (map p s ++ [true])) = seg_lens_p p s.
Proof.
  induction s as [|x r IH]; [reflexivity|].
  simpl map. simpl app. simpl flatnonzero_from.
  rewrite (flatnonzero_from_succ _ 0).
  set (idx := flatnonzero_from 0 (map p r ++ [true])) in *.
  simpl seg_lens_p. destruct (p x).
  - simpl app. change (diff (-1 :: 0 :: map (fun k => k + 1) idx)) with ((0 - -1) :: diff (0 :: map (fun k => k + 1) idx)).
    f_equal. rewrite <- IH. change (0 :: map (fun k => k + 1) idx) with (map (fun k => k + 1) (-1 :: idx)).
    apply diff_shift.
  - simpl app. rewrite <- IH. destruct idx as [|j0 js]; [reflexivity|].
    simpl map. change (diff (-1 :: j0 + 1 :: map (fun k => k + 1) js))
      with ((j0 + 1 - -1) :: diff (map (fun k => k + 1) (j0 :: js))).
    rewrite diff_shift. simpl diff. f_equal; try lia; try reflexivity.
Qed.
Lemma split_rows_p p z : forall s,
  map (@removelast Z) (rows_by_lens (s ++ [z]) (seg_lens_p p s)) = split_by p s.
Proof.
  induction s as [|x r IH]; [reflexivity|].
  simpl seg_lens_p. simpl split_by. destruct (p x) eqn:Hx.
  - simpl. rewrite IH. reflexivity.
  - destruct (seg_lens_p_pos p r) as [Hne Hpos].
    destruct (seg_lens_p p r) as [|l0 ls] eqn:Hs; [congruence|].
    inversion Hpos as [|? ? Hl0 _]; subst.
    rewrite <- IH. simpl rows_by_lens.
    replace (Z.to_nat (l0 + 1)) with (S (Z.to_nat l0)) by lia.
    simpl app. simpl firstn. simpl skipn. simpl map. f_equal.
    destruct (Z.to_nat l0) as [|n0] eqn:Hn; [lia|].
    destruct (r ++ [z]) as [|y d] eqn:Hd; [destruct r; discriminate|]. reflexivity.
Qed.
Theorem split_p_spec : forall p s, m_split_p p s = split_by p s.
Proof.
  intros p s. unfold m_split_p, m_split_first_len. rewrite map_app. cbn [map]. rewrite set_last_app.
  unfold flatnonzero.
  set (idx := flatnonzero_from 0 (map p s ++ [true])).
  assert (Hl : match diff (0 :: idx) with _ :: r => (nthZ idx 0 + 1) :: r | [] => [] end = diff (-1 :: idx)).
  { destruct idx as [|i0 rest]; [reflexivity|]. simpl. unfold nthZ. simpl. f_equal; try lia. }
  rewrite Hl. unfold idx. rewrite split_lens_p. apply split_rows_p.
Qed.
(* the order in which the separators are listed, and repetitions, do not matter: only membership does *)
Theorem split_list_spec : forall s seps, m_split_l s seps = split_by (fun x => memb x seps) s.
Proof. intros s seps. unfold m_split_l. apply split_p_spec. Qed.
Lemma split_by_ext p q : (forall x, p x = q x) -> forall s, split_by p s = split_by q s.
Proof. intros H. induction s as [|x r IH]; [reflexivity|]. simpl. rewrite H, IH. reflexivity. Qed.
Theorem split_by_single : forall sep s, split_by (fun x => memb x [sep]) s = split_on sep s.
Proof.
  intros sep. induction s as [|x r IH]; [reflexivity|].
  change (split_by (fun y => memb y [sep]) (x :: r))
    with (let rest := split_by (fun y => memb y [sep]) r in
          if memb x [sep] then [] :: rest else match rest with h :: t => (x :: h) :: t | [] => [[x]] end).
  cbv zeta. rewrite IH.
  replace (memb x [sep]) with (x =? sep) by (unfold memb; simpl; rewrite orb_false_r; reflexivity).
  reflexivity.
Qed.

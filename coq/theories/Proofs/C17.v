(* Proofs/C17.v — random access through the faidx arithmetic returns the substring. *)
From Coq Require Import ZArith List Bool Lia Arith.
From BNP Require Import Base.Prims Base.PrimsFacts Model.C17.
Import ListNotations.
Open Scope Z_scope.

Section Wrap.
Variable w : nat.
Hypothesis Hw : (1 <= w)%nat.
Variable eol : list Z.
Let W := Z.of_nat w.

Lemma wrap_fuel_irrel f1 : forall f2 s, (length s <= f1)%nat -> (length s <= f2)%nat ->
  wrap_fuel f1 w eol s = wrap_fuel f2 w eol s.
Proof.
  induction f1 as [|f1 IH]; intros f2 s H1 H2.
  - destruct s; [|simpl in H1; lia]. destruct f2; reflexivity.
  - destruct s as [|x s]; [destruct f2; reflexivity|].
    destruct f2 as [|f2]; [simpl in H2; lia|].
    cbn [wrap_fuel]. do 2 f_equal.
    apply IH; rewrite skipn_length; simpl length in *; lia.
Qed.

Lemma wrap_unfold s : s <> [] ->
  wrap W eol s = firstn w s ++ eol ++ wrap W eol (skipn w s).
Proof.
  intros Hs. unfold wrap, W. rewrite Nat2Z.id.
  destruct s as [|x s]; [congruence|].
  cbn [length wrap_fuel]. do 2 f_equal.
  apply wrap_fuel_irrel; rewrite skipn_length; simpl length; lia.
Qed.
Lemma wrap_nil : wrap W eol [] = [].
Proof. reflexivity. Qed.
End Wrap.

Ltac Zify.zify_post_hook ::= Z.to_euclidean_division_equations.

Section Interval.
Variable w : nat.
Hypothesis Hw : (1 <= w)%nat.
Let W := Z.of_nat w.

(* the byte offset, relative to the first base, at which base number a is stored *)
Definition phys (a : Z) : Z := (a / W) * (W + 1) + a mod W.
Definition dels (a b : Z) : list Z :=
  map (fun j => (W + 1) * (j + 1) - 1 - a mod W) (arange (b / W - a / W)).
(* fetch_interval with the index fields spelled out *)
Definition fi (off : Z) (file : list Z) (a b : Z) : list Z :=
  np_delete (read_at file (off + phys a) (phys b - phys a)) (dels a b).

Lemma fetch_interval_fi name rl off file a b :
  fetch_interval {| i_name := name; i_rlen := rl; i_offset := off; i_lenc := W; i_lenb := W + 1 |} file a b
  = fi off file a b.
Proof. reflexivity. Qed.

Lemma Wpos : 0 < W. Proof. unfold W. lia. Qed.
Lemma wrapW_unfold s : s <> [] -> wrap W [10] s = firstn w s ++ [10] ++ wrap W [10] (skipn w s).
Proof. exact (wrap_unfold w Hw [10] s). Qed.

Lemma div_shift a : (a - W) / W = a / W - 1.
Proof. pose proof Wpos. replace (a - W) with (a + (-1) * W) by ring. rewrite Z.div_add by lia. ring. Qed.
Lemma mod_shift a : (a - W) mod W = a mod W.
Proof. pose proof Wpos. replace (a - W) with (a + (-1) * W) by ring. apply Z_mod_plus_full. Qed.
Lemma phys_shift a : phys a = phys (a - W) + (W + 1).
Proof. unfold phys. rewrite div_shift, mod_shift. ring. Qed.
Lemma dels_shift a b : dels a b = dels (a - W) (b - W).
Proof. unfold dels. rewrite !div_shift, mod_shift. do 2 f_equal. ring. Qed.
Lemma phys_nonneg a : 0 <= a -> 0 <= phys a.
Proof.
  intros H. pose proof Wpos. unfold phys.
  pose proof (Z.div_pos a W H H0). pose proof (Z.mod_pos_bound a W H0). nia.
Qed.
Lemma phys_small a : 0 <= a < W -> phys a = a.
Proof. intros H. unfold phys. rewrite Z.div_small, Z.mod_small by lia. ring. Qed.

Lemma first_row_len (s : list Z) : W <= len s -> len (firstn w s) = W.
Proof. intros H. rewrite len_firstn. unfold W in *. lia. Qed.

(* step T: an interval that starts after the first line is an interval of the remaining lines *)
Lemma fi_shift s pre post a b :
  W <= a -> a <= b -> b <= len s ->
  fi (len pre) (pre ++ wrap W [10] s ++ post) a b
  = fi (len (pre ++ firstn w s ++ [10])) ((pre ++ firstn w s ++ [10]) ++ wrap W [10] (skipn w s) ++ post) (a - W) (b - W).
Proof.
  intros Ha Hab Hb. pose proof Wpos.
  assert (Hs : s <> []) by (intros ->; rewrite len_nil in Hb; lia).
  unfold fi. rewrite (dels_shift a b). f_equal.
  rewrite (wrapW_unfold s Hs).
  rewrite (phys_shift a), (phys_shift b).
  rewrite !len_app, first_row_len by lia.
  replace (len [10]) with 1 by reflexivity.
  rewrite <- !app_assoc. f_equal; ring.
Qed.

(* step S: an interval that starts in the first line and ends after it *)
Lemma fi_split s pre post a b :
  0 <= a < W -> W <= b -> b <= len s ->
  fi (len pre) (pre ++ wrap W [10] s ++ post) a b
  = skipn (Z.to_nat a) (firstn w s)
    ++ fi (len (pre ++ firstn w s ++ [10])) ((pre ++ firstn w s ++ [10]) ++ wrap W [10] (skipn w s) ++ post) 0 (b - W).
Proof.
  intros Ha Hb Hbs. pose proof Wpos.
  assert (Hs : s <> []) by (intros ->; rewrite len_nil in Hbs; lia).
  assert (Hr0 : len (firstn w s) = W) by (apply first_row_len; lia).
  unfold fi at 1. rewrite (wrapW_unfold s Hs).
  rewrite (phys_small a Ha), (phys_shift b).
  pose proof (phys_nonneg (b - W) ltac:(lia)) as Hpb.
  set (so := phys (b - W)) in *.
  set (rest := wrap W [10] (skipn w s) ++ post).
  unfold read_at.
  replace (pre ++ (firstn w s ++ [10] ++ wrap W [10] (skipn w s)) ++ post)
    with (pre ++ firstn w s ++ [10] ++ rest) by (unfold rest; rewrite <- !app_assoc; reflexivity).
  rewrite slice_app_r by lia.
  replace (len pre + a - len pre) with a by ring.
  replace (len pre + a + (so + (W + 1) - a) - len pre) with (W + (1 + so)) by ring.
  rewrite slice_app_split by lia.
  rewrite Hr0. replace (W + (1 + so) - W) with (1 + so) by ring.
  change ([10] ++ rest) with (10 :: rest). rewrite slice_cons0 by lia.
  (* now delete the line breaks *)
  unfold np_delete.
  change (10 :: slice 0 so rest) with ([10] ++ slice 0 so rest).
  rewrite delete_from_app, delete_from_app.
  assert (HlenA : len (skipn (Z.to_nat a) (firstn w s)) = W - a) by (rewrite len_skipn, Hr0; lia).
  rewrite HlenA. replace (len [10]) with 1 by reflexivity.
  assert (Hq : b / W = (b - W) / W + 1) by (rewrite div_shift; ring).
  assert (Hq0 : 0 <= (b - W) / W) by (apply Z.div_pos; lia).
  assert (Ha0 : a / W = 0) by (apply Z.div_small; lia).
  assert (Ham : a mod W = a) by (apply Z.mod_small; lia).
  (* first part: nothing deleted *)
  rewrite delete_from_none.
  2:{ intros j Hj. unfold dels in Hj. apply in_map_iff in Hj. destruct Hj as [k [Hk Hin]].
      apply In_arange in Hin. rewrite Ham in Hk. right. rewrite HlenA. nia. }
  f_equal.
  (* the line break itself *)
  assert (Hin : In (0 + (W - a)) (dels a b)).
  { unfold dels. apply in_map_iff. exists 0. split.
    - rewrite Ham. ring.
    - apply In_arange. lia. }
  rewrite (delete_from_hit _ _ 10 Hin).
  simpl app.
  (* the rest: shift the deletion indices *)
  unfold fi. rewrite (phys_small 0) by lia. unfold read_at.
  rewrite !len_app, Hr0. replace (len [10]) with 1 by reflexivity.
  rewrite slice_app_r by (rewrite !len_app, Hr0; replace (len [10]) with 1 by reflexivity; lia).
  rewrite !len_app, Hr0. replace (len [10]) with 1 by reflexivity.
  replace (len pre + (W + 1) + 0 - (len pre + (W + 1))) with 0 by ring.
  replace (len pre + (W + 1) + 0 + (phys (b - W) - 0) - (len pre + (W + 1))) with so by (unfold so; ring).
  fold rest. unfold np_delete.
  match goal with |- delete_from ?i _ _ = _ => replace i with (0 + (W - a + 1)) by ring end.
  rewrite (delete_from_shift 0 (W - a + 1)).
  apply delete_from_ext. intros j Hj.
  unfold dels. rewrite !in_map_iff. rewrite Ham, Ha0.
  replace (0 mod W) with 0 by (symmetry; apply Z.mod_0_l; lia).
  replace (0 / W) with 0 by (symmetry; apply Z.div_0_l; lia).
  split.
  - intros [x [Hx Hx2]]. apply in_map_iff in Hx2. destruct Hx2 as [k [Hk Hk2]]. apply In_arange in Hk2.
    exists (k - 1). split; [nia|]. apply In_arange. nia.
  - intros [k [Hk Hk2]]. apply In_arange in Hk2.
    exists ((W + 1) * (k + 2) - 1 - a). split; [nia|].
    apply in_map_iff. exists (k + 1). split; [ring|]. apply In_arange. lia.
Qed.

(* an interval inside the first line *)
Lemma fi_first_line s pre post a b :
  0 <= a -> a <= b -> b < W -> b <= len s ->
  fi (len pre) (pre ++ wrap W [10] s ++ post) a b = slice a b s.
Proof.
  intros Ha Hab Hb Hbs. pose proof Wpos.
  unfold fi. rewrite !phys_small by lia.
  unfold dels. rewrite !Z.div_small by lia. simpl arange. simpl map.
  unfold np_delete. rewrite delete_from_none by (intros j []).
  unfold read_at. rewrite slice_app_r by lia.
  replace (len pre + a - len pre) with a by ring.
  replace (len pre + a + (b - a) - len pre) with b by ring.
  destruct s as [|x s'] eqn:Es.
  - rewrite len_nil in Hbs. rewrite slice_empty by lia. rewrite slice_empty by lia. reflexivity.
  - rewrite <- Es in *. assert (Hs : s <> []) by (rewrite Es; discriminate).
    rewrite (wrapW_unfold s Hs).
    rewrite <- app_assoc. rewrite slice_app_l by (try rewrite len_firstn; fold W; lia).
    unfold slice. rewrite skipn_firstn_comm. rewrite firstn_firstn.
    f_equal. unfold W in *. lia.
Qed.

Lemma fi_from_zero : forall (n : nat) s pre post b,
  Z.to_nat (b / W) = n -> 0 <= b -> b <= len s ->
  fi (len pre) (pre ++ wrap W [10] s ++ post) 0 b = slice 0 b s.
Proof.
  pose proof Wpos as HW.
  induction n as [|n IH]; intros s pre post b Hn Hb Hbs.
  - assert (b < W) by (pose proof (Z.div_pos b W Hb HW); assert (b / W = 0) by lia; apply Z.div_small_iff in H0; lia).
    apply fi_first_line; lia.
  - assert (W <= b).
    { destruct (Z_lt_ge_dec b W) as [Hlt|Hge]; [|lia]. rewrite Z.div_small in Hn by lia. simpl in Hn. lia. }
    rewrite fi_split by lia.
    rewrite IH.
    + simpl skipn. unfold slice. simpl skipn.
      rewrite <- (firstn_skipn w s) at 3.
      assert (Hl : length (firstn w s) = w) by (apply firstn_length_le; unfold len, W in *; lia).
      rewrite firstn_app, Hl.
      rewrite (firstn_all2 (firstn w s) (n:=Z.to_nat (b - 0))) by (rewrite Hl; unfold W in *; lia). f_equal. f_equal. unfold W. lia.
    + rewrite div_shift. lia.
    + lia.
    + rewrite len_skipn. fold W. lia.
Qed.

Theorem fi_correct : forall (n : nat) s pre post a b,
  Z.to_nat (a / W) = n -> 0 <= a -> a <= b -> b <= len s ->
  fi (len pre) (pre ++ wrap W [10] s ++ post) a b = slice a b s.
Proof.
  pose proof Wpos as HW.
  induction n as [|n IH]; intros s pre post a b Hn Ha Hab Hbs.
  - assert (a < W) by (pose proof (Z.div_pos a W Ha HW); assert (a / W = 0) by lia; apply Z.div_small_iff in H0; lia).
    destruct (Z_lt_ge_dec b W) as [Hlt|Hge].
    + apply fi_first_line; lia.
    + rewrite fi_split by lia.
      rewrite (fi_from_zero (Z.to_nat ((b - W) / W))); try lia.
      * unfold slice. simpl skipn.
        rewrite <- (firstn_skipn w s) at 3.
        assert (Hl : length (firstn w s) = w) by (apply firstn_length_le; unfold len, W in *; lia).
        rewrite skipn_app, firstn_app.
        rewrite (firstn_all2 (skipn (Z.to_nat a) (firstn w s))) by (rewrite skipn_length, Hl; unfold W in *; lia).
        rewrite skipn_length, Hl.
        f_equal. replace (Z.to_nat a - w)%nat with O by (unfold W in *; lia). simpl skipn.
        f_equal. unfold W in *. lia.
      * rewrite len_skipn. fold W. lia.
  - assert (W <= a).
    { destruct (Z_lt_ge_dec a W) as [Hlt|Hge]; [|lia]. rewrite Z.div_small in Hn by lia. simpl in Hn. lia. }
    rewrite fi_shift by lia.
    rewrite IH.
    + rewrite slice_skipn by lia. fold W. f_equal; ring.
    + rewrite div_shift. lia.
    + lia.
    + lia.
    + rewrite len_skipn. fold W. lia.
Qed.
End Interval.

(* ---------- the statements used by Props/C17.v ---------- *)
Lemma fetch_interval_substring :
  forall (w : Z) (seq pre post name : list Z) (rl a b : Z),
    1 <= w -> 0 <= a -> a <= b -> b <= len seq ->
    fetch_interval {| i_name := name; i_rlen := rl; i_offset := len pre; i_lenc := w; i_lenb := w + 1 |}
                   (pre ++ wrap w [10] seq ++ post) a b
    = slice a b seq.
Proof.
  intros w seq pre post name rl a b Hw Ha Hab Hb.
  assert (Hw' : (1 <= Z.to_nat w)%nat) by lia.
  replace w with (Z.of_nat (Z.to_nat w)) by lia.
  rewrite fetch_interval_fi.
  apply (fi_correct (Z.to_nat w) Hw' (Z.to_nat (a / Z.of_nat (Z.to_nat w)))); try lia.
Qed.

(* ---------- whole-contig fetch ---------- *)
Section Contig.
Variable w : nat.
Hypothesis Hw : (1 <= w)%nat.
Variable eol : list Z.
Variable fill : list Z.
Let W := Z.of_nat w.
Let LB := W + len eol.

Definition n_rows (rlen : Z) := (rlen + W - 1) / W.
Definition btr (rlen : Z) := (n_rows rlen - 1) * LB + (rlen - (n_rows rlen - 1) * W).
(* the row matrix, first lenc columns, ravelled *)
Definition fc_body (off : Z) (file : list Z) (rlen : Z) : list Z :=
  concat (map (firstn w) (chunks_of (Z.to_nat LB)
     (read_at file off (btr rlen) ++ firstn (Z.to_nat (LB * n_rows rlen - btr rlen)) fill))).

Lemma fetch_contig_body name off file rlen :
  fetch_contig fill {| i_name := name; i_rlen := rlen; i_offset := off; i_lenc := W; i_lenb := LB |} file
  = firstn (Z.to_nat rlen) (fc_body off file rlen).
Proof. unfold fetch_contig, fc_body, n_rows, btr. cbn [i_lenb i_rlen i_lenc i_offset]. unfold W. rewrite Nat2Z.id. reflexivity. Qed.

Lemma WposC : 0 < W. Proof. unfold W. lia. Qed.
Lemma n_rows_small r : 1 <= r <= W -> n_rows r = 1.
Proof. intros H. unfold n_rows. pose proof WposC. symmetry. apply (Z.div_unique _ _ 1 (r - 1)); lia. Qed.
Lemma n_rows_shift r : n_rows r = n_rows (r - W) + 1.
Proof.
  unfold n_rows. pose proof WposC.
  replace (r + W - 1) with ((r - W + W - 1) + 1 * W) by ring. rewrite Z.div_add by lia. reflexivity.
Qed.
Lemma btr_shift r : btr r = btr (r - W) + LB.
Proof. unfold btr. rewrite (n_rows_shift r). ring. Qed.
Lemma wrapC_unfold s : s <> [] -> wrap W eol s = firstn w s ++ eol ++ wrap W eol (skipn w s).
Proof. exact (wrap_unfold w Hw eol s). Qed.

Theorem fc_correct : forall (n : nat) s pre post,
  length s = n -> s <> [] ->
  firstn (length s) (fc_body (len pre) (pre ++ wrap W eol s ++ post) (len s)) = s.
Proof.
  pose proof WposC as HW.
  induction n as [n IH] using lt_wf_ind. intros s pre post Hn Hs.
  assert (Hlen : 1 <= len s) by (unfold len; destruct s; [congruence|simpl; lia]).
  destruct (Z_le_gt_dec (len s) W) as [Hsmall|Hbig].
  - (* a single line *)
    unfold fc_body. rewrite (n_rows_small (len s)) by lia.
    unfold btr. rewrite (n_rows_small (len s)) by lia.
    replace ((1 - 1) * LB + (len s - (1 - 1) * W)) with (len s) by ring.
    unfold read_at. rewrite slice_app_r by lia.
    replace (len pre - len pre) with 0 by ring. replace (len pre + len s - len pre) with (len s) by ring.
    rewrite (wrapC_unfold s Hs).
    assert (Hf : firstn w s = s) by (apply firstn_all2; unfold len, W in *; lia).
    rewrite Hf. rewrite <- app_assoc. rewrite slice_app_l by lia. rewrite slice_full by lia.
    set (g := firstn _ fill).
    assert (Hg : (length g <= Z.to_nat (LB - len s))%nat).
    { unfold g. rewrite firstn_length. apply Nat.le_trans with (1 := Nat.le_min_l _ _). lia. }
    rewrite chunks_of_single.
    + simpl. rewrite app_nil_r. rewrite firstn_app.
      rewrite (firstn_all2 s (n:=w)) by (unfold len, W in *; lia).
      rewrite firstn_app. rewrite firstn_all, Nat.sub_diag. simpl. apply app_nil_r.
    + destruct s; [congruence|discriminate].
    + rewrite app_length. unfold LB, len in *. pose proof (len_nonneg eol). unfold len in *. lia.
  - (* more than one line: peel the first row *)
    assert (Hr0 : length (firstn w s) = w) by (apply firstn_length_le; unfold len, W in *; lia).
    assert (Hr0' : len (firstn w s) = W) by (unfold len; rewrite Hr0; reflexivity).
    assert (Hs' : skipn w s <> []).
    { intros E. assert (length (skipn w s) = 0%nat) by (rewrite E; reflexivity). rewrite skipn_length in H. unfold len, W in *. lia. }
    assert (Hls' : len (skipn w s) = len s - W) by (rewrite len_skipn; fold W; lia).
    unfold fc_body.
    rewrite (n_rows_shift (len s)), (btr_shift (len s)).
    replace (LB * (n_rows (len s - W) + 1) - (btr (len s - W) + LB)) with (LB * n_rows (len s - W) - btr (len s - W)) by ring.
    rewrite (wrapC_unfold s Hs).
    unfold read_at. rewrite slice_app_r by lia.
    replace (len pre - len pre) with 0 by ring.
    replace (len pre + (btr (len s - W) + LB) - len pre) with (btr (len s - W) + LB) by ring.
    assert (Hb0 : 0 <= btr (len s - W)).
    { unfold btr. assert (1 <= n_rows (len s - W)).
      { unfold n_rows. apply Z.div_le_lower_bound; lia. }
      assert ((n_rows (len s - W) - 1) * W <= len s - W - 1).
      { unfold n_rows. pose proof (Z.mul_div_le (len s - W + W - 1) W HW). nia. }
      pose proof (len_nonneg eol). unfold LB. nia. }
    replace ((firstn w s ++ eol ++ wrap W eol (skipn w s)) ++ post)
      with ((firstn w s ++ eol) ++ wrap W eol (skipn w s) ++ post) by (rewrite <- !app_assoc; reflexivity).
    assert (Hrow : len (firstn w s ++ eol) = LB) by (rewrite len_app, Hr0'; reflexivity).
    rewrite slice_app_split by (rewrite ?Hrow; pose proof (len_nonneg eol); unfold LB in *; lia).
    rewrite Hrow. simpl skipn.
    replace (btr (len s - W) + LB - LB) with (btr (len s - W)) by ring.
    rewrite <- app_assoc.
    rewrite chunks_of_app_exact.
    2:{ pose proof (len_nonneg eol). unfold LB. lia. }
    2:{ unfold len in Hrow. lia. }
    cbn [map concat].
    assert (Hfw : firstn w (firstn w s ++ eol) = firstn w s).
    { rewrite firstn_app, Hr0, Nat.sub_diag. simpl. rewrite app_nil_r. apply firstn_all2. rewrite Hr0. lia. }
    rewrite Hfw.
    rewrite firstn_app, Hr0.
    rewrite (firstn_all2 (firstn w s)) by (rewrite Hr0; unfold len, W in *; lia).
    transitivity (firstn w s ++ skipn w s); [|apply firstn_skipn]. f_equal.
    specialize (IH (length (skipn w s))).
    assert (Hlt : (length (skipn w s) < n)%nat) by (rewrite skipn_length; unfold len in Hlen; lia).
    specialize (IH Hlt (skipn w s) (pre ++ firstn w s ++ eol) post eq_refl Hs').
    unfold fc_body in IH. rewrite Hls' in IH. unfold read_at in IH.
    rewrite slice_app_r in IH by lia.
    replace (len (pre ++ firstn w s ++ eol) - len (pre ++ firstn w s ++ eol)) with 0 in IH by ring.
    replace (len (pre ++ firstn w s ++ eol) + btr (len s - W) - len (pre ++ firstn w s ++ eol)) with (btr (len s - W)) in IH by ring.
    rewrite skipn_length in IH. exact IH.
Qed.
End Contig.

Lemma fetch_contig_whole :
  forall (w : Z) (eol fill seq pre post name : list Z),
    1 <= w -> seq <> [] ->
    fetch_contig fill {| i_name := name; i_rlen := len seq; i_offset := len pre; i_lenc := w; i_lenb := w + len eol |}
                 (pre ++ wrap w eol seq ++ post)
    = seq.
Proof.
  intros w eol fill seq pre post name Hw Hs.
  assert (Hw' : (1 <= Z.to_nat w)%nat) by lia.
  replace w with (Z.of_nat (Z.to_nat w)) by lia.
  rewrite fetch_contig_body. unfold len at 1. rewrite Nat2Z.id.
  apply (fc_correct (Z.to_nat w) Hw' eol fill (length seq)); [reflexivity|assumption].
Qed.

(* ---------- whole files: every record of a laid-out FASTA is fetched through the format's index ---------- *)
Lemma wrap_min w eol s : 1 <= w -> s <> [] -> wrap w eol s = wrap (Z.min w (len s)) eol s.
Proof.
  intros Hw Hs. destruct (Z_le_gt_dec w (len s)) as [H|H].
  - rewrite Z.min_l by lia. reflexivity.
  - rewrite Z.min_r by lia.
    assert (Hl : 1 <= len s) by (unfold len; destruct s; [congruence|simpl; lia]).
    assert (E : forall v, len s <= v -> wrap v eol s = s ++ eol).
    { intros v Hv. replace v with (Z.of_nat (Z.to_nat v)) by lia.
      rewrite wrap_unfold by (try assumption; lia).
      rewrite firstn_all2 by (unfold len in *; lia).
      rewrite skipn_all2 by (unfold len in *; lia). unfold wrap. simpl. rewrite app_nil_r. reflexivity. }
    rewrite (E w) by lia. rewrite (E (len s)) by lia. reflexivity.
Qed.

Definition rec_ok (r : rec) : Prop := r_seq r <> [] /\ 1 <= r_width r.

Lemma spec_index_nth eol fill : forall rs pre k r,
  nth_error rs k = Some r -> rec_ok r ->
  exists ix, nth_error (spec_index_from (len pre) eol rs) k = Some ix
    /\ i_rlen ix = len (r_seq r) /\ i_name ix = r_name r
    /\ fetch_contig fill ix (pre ++ layout eol rs) = r_seq r
    /\ (eol = [10] -> forall a b, 0 <= a -> a <= b -> b <= len (r_seq r) ->
          fetch_interval ix (pre ++ layout eol rs) a b = slice a b (r_seq r)).
Proof.
  induction rs as [|r0 rs IH]; intros pre k r Hk Hok.
  - destruct k; discriminate.
  - destruct k as [|k].
    + injection Hk as ->. destruct Hok as [Hs Hw].
      eexists. split; [reflexivity|]. cbn [i_rlen i_name]. split; [reflexivity|]. split; [reflexivity|].
      unfold layout. cbn [map concat]. unfold layout_rec.
      set (post := concat (map _ rs)).
      replace (pre ++ ([62] ++ r_name r ++ eol ++ wrap (r_width r) eol (r_seq r)) ++ post)
        with ((pre ++ [62] ++ r_name r ++ eol) ++ wrap (r_width r) eol (r_seq r) ++ post)
        by (rewrite <- !app_assoc; reflexivity).
      replace (len pre + 1 + len (r_name r) + len eol) with (len (pre ++ [62] ++ r_name r ++ eol))
        by (rewrite !len_app; replace (len [62]) with 1 by reflexivity; ring).
      rewrite (wrap_min (r_width r) eol (r_seq r) Hw Hs).
      assert (Hm : 1 <= Z.min (r_width r) (len (r_seq r))).
      { assert (1 <= len (r_seq r)) by (unfold len; destruct (r_seq r); [congruence|simpl; lia]). lia. }
      split.
      * apply fetch_contig_whole; assumption.
      * intros -> a b Ha Hab Hb. replace (len [10]) with 1 by reflexivity.
        apply fetch_interval_substring; assumption.
    + cbn [nth_error] in Hk. cbn [spec_index_from].
      specialize (IH (pre ++ layout_rec eol r0) k r Hk Hok).
      destruct IH as [ix [Hn [Hrl [Hnm [Hc Hi]]]]].
      exists ix. rewrite len_app in Hn. split; [exact Hn|]. split; [exact Hrl|]. split; [exact Hnm|].
      unfold layout in *. cbn [map concat]. rewrite <- app_assoc in Hc.
      split; [exact Hc|]. intros He a b Ha Hab Hb. specialize (Hi He a b Ha Hab Hb).
      rewrite <- app_assoc in Hi. exact Hi.
Qed.

(* Proofs/C02_e2e.v — from the table to the parsed columns, and whole files through Model.C02.run:
   for every well-formed BED3 / chrom.sizes file (any header block, LF or CRLF, any widths) the model returns
   exactly the columns the specification assigns, one entry per record. *)
From Coq Require Import ZArith List Bool Lia Arith.
From BNP Require Import Base.Prims Base.PrimsFacts Base.C02Lib Model.C02 Proofs.C02_table Proofs.C02_int Proofs.C02_misc.
Import ListNotations.
Open Scope Z_scope.

Lemma mapM_option_map {A B C} (f : A -> option B) (g : B -> C) l :
  mapM (fun x => option_map g (f x)) l = option_map (map g) (mapM f l).
Proof.
  induction l as [|x l IH]; [reflexivity|]. simpl. rewrite IH.
  destruct (f x); [|reflexivity]. simpl. destruct (mapM f l); reflexivity.
Qed.

Lemma mapM_some {A B} (f : A -> B) l : mapM (fun x => Some (f x)) l = Some (map f l).
Proof. induction l as [|x l IH]; [reflexivity|]. simpl. rewrite IH. reflexivity. Qed.

(* column j of the table is column j of the records *)
Lemma texts_of_table t rows j :
  table_fields t = rows -> 0 <= j -> (forall r, In r rows -> j < len r) ->
  texts t j = map (fun r => field r j) rows.
Proof.
  intros Htf Hj Hlen. subst rows. unfold texts, bounds, col, table_fields in *.
  rewrite combine_map_both, !map_map.
  apply map_ext_in. intros se Hse. unfold text_at, field. cbn [fst snd].
  assert (Hl : j < len (map (fun p => slice (fst p) (snd p) (t_data t)) (combine (fst se) (snd se)))).
  { apply Hlen. apply in_map_iff. exists se. split; [reflexivity|exact Hse]. }
  unfold len in Hl. rewrite map_length, combine_length in Hl.
  unfold nthZ.
  rewrite (nth_map_combine _ (fst se) (snd se) (Z.to_nat j) 0 0 []) by lia. reflexivity.
Qed.

Record table_ok (t : table) (rows : list (list (list Z))) : Prop := {
  ok_fields : table_fields t = rows;
  ok_starts : forall row s, In row (t_starts t) -> In s row -> 0 <= s;
  ok_ends : forall row e, In row (t_ends t) -> In e row -> e < len (t_data t);
  ok_pos : 1 <= len (t_data t)
}.
Lemma bounds_ok t rows j se : table_ok t rows -> In se (bounds t j) -> 0 <= fst se /\ snd se < len (t_data t).
Proof.
  intros [_ Hs He Hpos] H. unfold bounds, col in H. rewrite combine_map_both in H.
  apply in_map_iff in H. destruct H as [p [E Hp]]. subst se. cbn [fst snd]. destruct p as [ps pe]. cbn [fst snd].
  apply in_combine_l in Hp as Hl. apply in_combine_r in Hp as Hr. split.
  - destruct (nthZ_In_or_0 ps j) as [Hin|H0]; [apply (Hs _ _ Hl Hin)|lia].
  - destruct (nthZ_In_or_0 pe j) as [Hin|H0]; [apply (He _ _ Hr Hin)|lia].
Qed.

(* string and identifier columns *)
Lemma str_col_correct t rows j : table_ok t rows -> 0 <= j -> (forall r, In r rows -> j < len r) ->
  typed_col t j TStr = spec_col rows (j, TStr).
Proof.
  intros Hok Hj Hl. unfold typed_col, spec_col. cbn [fst snd].
  rewrite (texts_of_table t rows j (ok_fields _ _ Hok) Hj Hl).
  unfold spec_cell. rewrite (mapM_option_map (fun r => Some (field r j)) CBytes).
  rewrite mapM_some. simpl. rewrite map_map. reflexivity.
Qed.
Lemma sid_col_correct t rows j : table_ok t rows -> 0 <= j -> (forall r, In r rows -> j < len r) ->
  typed_col t j TSid = spec_col rows (j, TSid).
Proof. intros Hok Hj Hl. transitivity (typed_col t j TStr); [reflexivity|apply str_col_correct; assumption]. Qed.
(* integer columns (T1 + T2) *)
Lemma int_col_correct t rows j : table_ok t rows -> 0 <= j -> (forall r, In r rows -> j < len r) ->
  (forall r, In r rows -> numeral (field r j) = true) ->
  typed_col t j TInt = spec_col rows (j, TInt).
Proof.
  intros Hok Hj Hl Hnum. unfold typed_col, spec_col. cbn [fst snd].
  pose proof (texts_of_table t rows j (ok_fields _ _ Hok) Hj Hl) as Ht.
  rewrite int_column_correct.
  - replace (mapM (fun se => int_of_text (text_at (t_data t) se)) (bounds t j)) with (mapM int_of_text (texts t j))
      by (unfold texts; rewrite mapM_map; reflexivity).
    rewrite Ht, mapM_map. unfold spec_cell. rewrite (mapM_option_map (fun r => int_of_text (field r j)) CInt).
    unfold opt_col. destruct (mapM (fun x => int_of_text (field x j)) rows); reflexivity.
  - intros se Hse. destruct (bounds_ok t rows j se Hok Hse) as [A B]. split; [exact A|]. split; [lia|].
    assert (Hin : In (text_at (t_data t) se) (texts t j)) by (unfold texts; apply in_map; exact Hse).
    rewrite Ht in Hin. apply in_map_iff in Hin. destruct Hin as [r [E Hr]]. rewrite <- E. apply Hnum. exact Hr.
Qed.
Lemma intm1_col_correct t rows j : table_ok t rows -> 0 <= j -> (forall r, In r rows -> j < len r) ->
  (forall r, In r rows -> numeral (field r j) = true) ->
  typed_col t j TIntM1 = spec_col rows (j, TIntM1).
Proof.
  intros Hok Hj Hl Hnum. rewrite vcf_position_shift, (int_col_correct t rows j Hok Hj Hl Hnum).
  unfold spec_col, spec_cell. cbn [fst snd].
  rewrite (mapM_option_map (fun r => int_of_text (field r j)) CInt).
  rewrite (mapM_option_map (fun r => int_of_text (field r j)) (fun v => CInt (v - 1))).
  destruct (mapM (fun r => int_of_text (field r j)) rows); [|reflexivity]. simpl. rewrite map_map. reflexivity.
Qed.

(* ---------- whole files ---------- *)
Definition body_of (crlf : bool) (rows : list (list (list Z))) : list Z := lay (eol_of crlf) (map (intercalate [9]) rows).

Lemma lay_len_pos crlf ls : ls <> [] -> 1 <= len (lay (eol_of crlf) ls).
Proof.
  destruct ls as [|l ls]; [congruence|]. intros _. unfold lay. simpl. rewrite !len_app.
  pose proof (len_nonneg l). pose proof (len_nonneg (concat (map (fun l0 => l0 ++ eol_of crlf) ls))).
  assert (1 <= len (eol_of crlf)) by (destruct crlf; unfold len; simpl; lia). lia.
Qed.
Lemma table_of_rows crlf n rows : 1 <= n -> rows <> [] ->
  (forall r, In r rows -> len r = n /\ forall f, In f r -> clean f) ->
  exists t, delim_table 9 (body_of crlf rows) = Some t /\ table_ok t rows /\ len (t_starts t) = len rows.
Proof.
  intros Hn Hne H. destruct (field_table_correct crlf n rows Hn Hne H) as [t [Ht [Hd [Hf [Hl [Hs He]]]]]].
  exists t. split; [exact Ht|]. split; [|exact Hl]. constructor; [exact Hf|exact Hs|rewrite Hd; exact He|].
  rewrite Hd. apply lay_len_pos. destruct rows; [congruence|discriminate].
Qed.

(* BED3: chromosome, start, stop.  Any leading '#' block, any number of records, any widths, LF or CRLF. *)
Theorem bed3_end_to_end : forall (crlf : bool) (hs : list (list Z)) (rows : list (list (list Z))),
  (forall h, In h hs -> hd0 h = 35 /\ ~ In 10 h) ->
  rows <> [] ->
  (forall r, In r rows -> len r = 3 /\ (forall f, In f r -> clean f)
                          /\ numeral (field r 1) = true /\ numeral (field r 2) = true) ->
  hd0 (body_of crlf rows) <> 35 ->
  run Fbed3 None (lay (eol_of crlf) hs ++ body_of crlf rows) = Obs (len rows) (spec_cols Fbed3 None rows) true.
Proof.
  intros crlf hs rows Hh Hne H Hb.
  unfold run. cbn [comment_byte]. rewrite skip_header_correct by (try assumption; lia).
  cbn [table_of].
  destruct (table_of_rows crlf 3 rows ltac:(lia) Hne (fun r Hr => conj (proj1 (H r Hr)) (proj1 (proj2 (H r Hr)))))
    as [t [Ht [Hok Hl]]].
  rewrite Ht. cbn [eager_format andb]. rewrite Hl. f_equal.
  unfold run_cols, spec_cols. cbn [schema bed3_cols has_geno map app fst snd].
  assert (L : forall j, j < 3 -> forall r, In r rows -> j < len r) by (intros j Hj r Hr; destruct (H r Hr) as [E _]; lia).
  rewrite (sid_col_correct t rows 0 Hok ltac:(lia) (L 0 ltac:(lia))).
  rewrite (int_col_correct t rows 1 Hok ltac:(lia) (L 1 ltac:(lia)) (fun r Hr => proj1 (proj2 (proj2 (H r Hr))))).
  rewrite (int_col_correct t rows 2 Hok ltac:(lia) (L 2 ltac:(lia)) (fun r Hr => proj2 (proj2 (proj2 (H r Hr))))).
  reflexivity.
Qed.

(* chrom.sizes: name, size *)
Theorem sizes_end_to_end : forall (crlf : bool) (rows : list (list (list Z))),
  rows <> [] ->
  (forall r, In r rows -> len r = 2 /\ (forall f, In f r -> clean f) /\ numeral (field r 1) = true) ->
  hd0 (body_of crlf rows) <> 35 ->
  run Fsizes None (body_of crlf rows) = Obs (len rows) (spec_cols Fsizes None rows) true.
Proof.
  intros crlf rows Hne H Hb.
  unfold run. cbn [comment_byte].
  pose proof (skip_header_correct 35 crlf [] (body_of crlf rows) ltac:(lia) (fun h Hh => match Hh with end) Hb) as Hs.
  simpl app in Hs. rewrite Hs. cbn [table_of].
  destruct (table_of_rows crlf 2 rows ltac:(lia) Hne (fun r Hr => conj (proj1 (H r Hr)) (proj1 (proj2 (H r Hr)))))
    as [t [Ht [Hok Hl]]].
  rewrite Ht. cbn [eager_format andb]. rewrite Hl. f_equal.
  unfold run_cols, spec_cols. cbn [schema has_geno map app fst snd].
  assert (L : forall j, j < 2 -> forall r, In r rows -> j < len r) by (intros j Hj r Hr; destruct (H r Hr) as [E _]; lia).
  rewrite (str_col_correct t rows 0 Hok ltac:(lia) (L 0 ltac:(lia))).
  rewrite (int_col_correct t rows 1 Hok ltac:(lia) (L 1 ltac:(lia)) (fun r Hr => proj2 (proj2 (H r Hr)))).
  reflexivity.
Qed.

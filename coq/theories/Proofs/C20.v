(* Proofs/C20.v — soundness of the effect-program checker of Model/C20.v, for all programs and all stores. *)
From Coq Require Import ZArith List Bool Arith Lia.
From BNP Require Import Base.Prims Model.C20.
Import ListNotations.
Open Scope nat_scope.

(* ---------------------------------------------------------------- list plumbing *)
Lemma set_nth_length : forall A n (x : A) l, length (set_nth n x l) = length l.
Proof. intros A n x l; revert n; induction l; intros [|n]; simpl; auto. Qed.

Lemma nth_set_nth_eq : forall A n (x d : A) l, n < length l -> nth n (set_nth n x l) d = x.
Proof. intros A n x d l; revert n; induction l; intros [|n] H; simpl in *; try lia; auto. apply IHl; lia. Qed.

Lemma nth_set_nth_neq : forall A n m (x d : A) l, n <> m -> nth m (set_nth n x l) d = nth m l d.
Proof.
  intros A n m x d l; revert n m; induction l; intros [|n] [|m] H; simpl; auto; try lia.
Qed.

Lemma map_nth_app_seq : forall A (d : A) m l,
  map (fun b => nth b (l ++ m) d) (seq (length l) (length m)) = m.
Proof.
  intros A d m; induction m as [|x m IH]; intros l; simpl; auto.
  f_equal.
  - rewrite app_nth2 by lia. replace (length l - length l) with 0 by lia. reflexivity.
  - specialize (IH (l ++ [x])). rewrite app_length in IH; simpl in IH.
    replace (length l + 1) with (S (length l)) in IH by lia.
    rewrite <- app_assoc in IH. simpl in IH. exact IH.
Qed.

Lemma nth_app_l : forall A (d : A) l m b, b < length l -> nth b (l ++ m) d = nth b l d.
Proof. intros; apply app_nth1; auto. Qed.

(* ---------------------------------------------------------------- protected buffers and the invariant *)
(* a buffer is protected when it existed before the call or belongs to an argument object now *)
Definition prot (n0 np : nat) (s : state) (b : nat) : Prop :=
  b < n0 \/ exists p, p < np /\ In b (r_blocks (get_reg s p)).
Definition unprot_reg (n0 np : nat) (s : state) (rg : reg) : Prop :=
  forall b, In b (r_blocks rg) -> ~ prot n0 np s b.

Record inv (n0 np : nat) (s0 s : state) (a : list areg) : Prop := {
  i_len : length a = length (s_regs s);
  i_np : np <= length a;
  i_rng : forall r b, In b (r_blocks (get_reg s r)) -> b < length (s_blocks s);
  i_n0 : n0 <= length (s_blocks s);
  i_par : forall i, i < np -> aget a i = a_param;
  i_bt : forall r, r < length a -> a_bt (aget a r) = false -> unprot_reg n0 np s (get_reg s r);
  i_wt : forall r, r < length a -> a_wt (aget a r) = false ->
           r_cow (get_reg s r) = true \/ unprot_reg n0 np s (get_reg s r);
  i_fl : forall r, r < length a -> a_fl (aget a r) = true ->
           r_cow (get_reg s r) = true \/ unprot_reg n0 np s (get_reg s r);
  i_frame : forall b, b < n0 -> blk s b = blk s0 b;
  i_cont : forall i, i < np -> content s (get_reg s i) = content s0 (get_reg s0 i)
}.

Lemma get_reg_out : forall s r, length (s_regs s) <= r -> get_reg s r = empty_reg.
Proof. intros; unfold get_reg; apply nth_overflow; auto. Qed.

(* prot depends on the argument registers only *)
Lemma prot_same_params : forall n0 np s s' b,
  (forall p, p < np -> get_reg s' p = get_reg s p) -> (prot n0 np s' b <-> prot n0 np s b).
Proof.
  intros n0 np s s' b H; unfold prot; split; intros [Hb | [p [Hp Hin]]]; auto; right; exists p; split; auto.
  - rewrite <- H; auto.
  - rewrite H; auto.
Qed.

(* ---------------------------------------------------------------- a step that appends one register *)
Lemma inv_append : forall n0 np s0 s a extra rg ar,
  inv n0 np s0 s a ->
  (forall b, In b (r_blocks rg) -> b < length (s_blocks s ++ extra)) ->
  (a_bt ar = false -> unprot_reg n0 np s rg) ->
  (a_wt ar = false -> r_cow rg = true \/ unprot_reg n0 np s rg) ->
  (a_fl ar = true -> r_cow rg = true \/ unprot_reg n0 np s rg) ->
  inv n0 np s0 {| s_blocks := s_blocks s ++ extra; s_regs := s_regs s ++ [rg] |} (a ++ [ar]).
Proof.
  intros n0 np s0 s a extra rg ar I Hrng Hbt Hwt Hfl.
  set (s' := {| s_blocks := s_blocks s ++ extra; s_regs := s_regs s ++ [rg] |}).
  pose proof (i_len _ _ _ _ _ I) as Hlen. pose proof (i_np _ _ _ _ _ I) as Hnp.
  assert (Hold : forall r, r < length a -> get_reg s' r = get_reg s r).
  { intros r Hr. unfold get_reg, s'; simpl. apply app_nth1. lia. }
  assert (Hnew : get_reg s' (length a) = rg).
  { unfold get_reg, s'; simpl. rewrite Hlen. apply nth_middle. }
  assert (Haold : forall r, r < length a -> aget (a ++ [ar]) r = aget a r).
  { intros r Hr. unfold aget. apply app_nth1; auto. }
  assert (Hanew : aget (a ++ [ar]) (length a) = ar).
  { unfold aget. apply nth_middle. }
  assert (Hprot : forall b, prot n0 np s' b <-> prot n0 np s b).
  { intros b. apply prot_same_params. intros p Hp. apply Hold. lia. }
  assert (Hun : forall rg0, unprot_reg n0 np s rg0 -> unprot_reg n0 np s' rg0).
  { intros rg0 H b Hb Hp. apply (H b Hb). apply Hprot; auto. }
  assert (Hblk : forall b, b < length (s_blocks s) -> blk s' b = blk s b).
  { intros b Hb. unfold blk, s'; simpl. apply app_nth1; auto. }
  assert (Hcases : forall r, r < length (a ++ [ar]) -> r < length a \/ r = length a).
  { intros r Hr. rewrite app_length in Hr; simpl in Hr. lia. }
  constructor.
  - simpl. rewrite !app_length; simpl. lia.
  - rewrite app_length; simpl; lia.
  - intros r b Hin. simpl.
    destruct (lt_dec r (length a)) as [Hr|Hr].
    + rewrite Hold in Hin by auto. apply (i_rng _ _ _ _ _ I) in Hin. rewrite app_length; lia.
    + destruct (Nat.eq_dec r (length a)) as [->|Hne].
      * rewrite Hnew in Hin. apply Hrng; auto.
      * rewrite get_reg_out in Hin; [destruct Hin|]. unfold s'; simpl. rewrite app_length; simpl. lia.
  - simpl. rewrite app_length. pose proof (i_n0 _ _ _ _ _ I). lia.
  - intros i Hi. rewrite Haold by lia. apply (i_par _ _ _ _ _ I); auto.
  - intros r Hr Hb. destruct (Hcases r Hr) as [Hr'| ->].
    + rewrite Haold in Hb by auto. rewrite Hold by auto. apply Hun. apply (i_bt _ _ _ _ _ I); auto.
    + rewrite Hanew in Hb. rewrite Hnew. apply Hun; auto.
  - intros r Hr Hb. destruct (Hcases r Hr) as [Hr'| ->].
    + rewrite Haold in Hb by auto. rewrite Hold by auto.
      destruct (i_wt _ _ _ _ _ I r Hr' Hb); auto.
    + rewrite Hanew in Hb. rewrite Hnew. destruct (Hwt Hb); auto.
  - intros r Hr Hb. destruct (Hcases r Hr) as [Hr'| ->].
    + rewrite Haold in Hb by auto. rewrite Hold by auto.
      destruct (i_fl _ _ _ _ _ I r Hr' Hb); auto.
    + rewrite Hanew in Hb. rewrite Hnew. destruct (Hfl Hb); auto.
  - intros b Hb. rewrite Hblk. apply (i_frame _ _ _ _ _ I); auto. pose proof (i_n0 _ _ _ _ _ I); lia.
  - intros i Hi. rewrite Hold by lia. rewrite <- (i_cont _ _ _ _ _ I i Hi).
    unfold content. apply map_ext_in. intros b Hb. apply Hblk. apply (i_rng _ _ _ _ _ I i); auto.
Qed.

(* a buffer created now is not protected *)
Lemma fresh_unprot : forall n0 np s0 s a b,
  inv n0 np s0 s a -> length (s_blocks s) <= b -> ~ prot n0 np s b.
Proof.
  intros n0 np s0 s a b I Hb [Hlt | [p [Hp Hin]]].
  - pose proof (i_n0 _ _ _ _ _ I). lia.
  - apply (i_rng _ _ _ _ _ I) in Hin. lia.
Qed.

Lemma existsb_false_in : forall A (f : A -> bool) l x, existsb f l = false -> In x l -> f x = false.
Proof.
  intros A f l x H Hin. destruct (f x) eqn:E; auto.
  assert (existsb f l = true) by (apply existsb_exists; exists x; auto). congruence.
Qed.

Lemma in_range_lt : forall a rs r, in_range a rs = true -> In r rs -> r < length a.
Proof.
  intros a rs r H Hin. unfold in_range in H. rewrite forallb_forall in H.
  apply Nat.ltb_lt. apply H; auto.
Qed.

Lemma unprot_flat_map : forall n0 np s rs,
  (forall r, In r rs -> unprot_reg n0 np s (get_reg s r)) ->
  unprot_reg n0 np s {| r_blocks := flat_map (fun r => r_blocks (get_reg s r)) rs; r_cow := false |}.
Proof.
  intros n0 np s rs H b Hb. simpl in Hb. apply in_flat_map in Hb. destruct Hb as [r [Hr Hin]].
  apply (H r Hr b Hin).
Qed.

(* ---------------------------------------------------------------- flatten *)
Lemma flatten_not_cow : forall s r, r_cow (get_reg (flatten s r) r) = false.
Proof.
  intros s r. unfold flatten. destruct (r_cow (get_reg s r)) eqn:E; auto.
  unfold get_reg; simpl.
  destruct (lt_dec r (length (s_regs s))) as [Hr|Hr].
  - rewrite nth_set_nth_eq by auto. reflexivity.
  - rewrite nth_overflow; [reflexivity|]. rewrite set_nth_length. lia.
Qed.

Lemma aget_a_flat_same : forall a r, a_wt (aget (a_flat a r) r) = a_wt (aget a r).
Proof.
  intros a r. unfold a_flat. destruct (a_fl (aget a r)) eqn:E; auto.
  unfold aget at 1. destruct (lt_dec r (length a)) as [Hr|Hr].
  - rewrite nth_set_nth_eq by auto. reflexivity.
  - rewrite nth_overflow by (rewrite set_nth_length; lia).
    unfold aget. rewrite nth_overflow by lia. reflexivity.
Qed.

Lemma inv_flatten : forall n0 np s0 s a r,
  inv n0 np s0 s a -> r < length a -> inv n0 np s0 (flatten s r) (a_flat a r).
Proof.
  intros n0 np s0 s a r I Hr.
  pose proof (i_len _ _ _ _ _ I) as Hlen. pose proof (i_np _ _ _ _ _ I) as Hnp.
  (* abstract side: what a_flat does *)
  assert (Hal : length (a_flat a r) = length a).
  { unfold a_flat. destruct (a_fl (aget a r)); auto. apply set_nth_length. }
  assert (Haq : forall q, q <> r -> aget (a_flat a r) q = aget a q).
  { intros q Hq. unfold a_flat. destruct (a_fl (aget a r)); auto. unfold aget. apply nth_set_nth_neq; auto. }
  assert (Har : a_fl (aget a r) = true ->
                aget (a_flat a r) r = {| a_wt := a_wt (aget a r); a_bt := false; a_fl := true |}).
  { intros E. unfold a_flat. rewrite E. unfold aget at 1. apply nth_set_nth_eq; auto. }
  assert (Har' : a_fl (aget a r) = false -> a_flat a r = a).
  { intros E. unfold a_flat. rewrite E. reflexivity. }
  assert (Hparr : r < np -> a_flat a r = a).
  { intros Hlt. apply Har'. rewrite (i_par _ _ _ _ _ I r Hlt). reflexivity. }
  unfold flatten. destruct (r_cow (get_reg s r)) eqn:Ecow.
  - (* the object copies itself *)
    set (n := length (s_blocks s)). set (rg := get_reg s r).
    set (k := length (r_blocks rg)).
    set (s' := {| s_blocks := s_blocks s ++ content s rg;
                  s_regs := set_nth r {| r_blocks := seq n k; r_cow := false |} (s_regs s) |}).
    assert (Hq : forall q, q <> r -> get_reg s' q = get_reg s q).
    { intros q Hq. unfold get_reg, s'; simpl. apply nth_set_nth_neq; auto. }
    assert (Hrr : get_reg s' r = {| r_blocks := seq n k; r_cow := false |}).
    { unfold get_reg, s'; simpl. apply nth_set_nth_eq. lia. }
    assert (Hblk : forall b, b < n -> blk s' b = blk s b).
    { intros b Hb. unfold blk, s'; simpl. apply app_nth1; auto. }
    assert (Hlenb : length (s_blocks s') = n + k).
    { unfold s'; simpl. rewrite app_length. unfold content. rewrite map_length. reflexivity. }
    (* protection of old buffers does not grow *)
    assert (Hprot : forall b, b < n -> prot n0 np s' b -> prot n0 np s b).
    { intros b Hb [Hlt | [p [Hp Hin]]]; [left; auto|].
      destruct (Nat.eq_dec p r) as [->|Hne].
      - rewrite Hrr in Hin; simpl in Hin. apply in_seq in Hin. lia.
      - rewrite Hq in Hin by auto. right; exists p; auto. }
    assert (Hunq : forall q, q <> r -> unprot_reg n0 np s (get_reg s q) -> unprot_reg n0 np s' (get_reg s' q)).
    { intros q Hq' H b Hb Hp. rewrite Hq in Hb by auto. apply (H b Hb). apply Hprot; auto.
      apply (i_rng _ _ _ _ _ I q); auto. }
    assert (Hunr : np <= r -> unprot_reg n0 np s' (get_reg s' r)).
    { intros Hge b Hb [Hlt | [p [Hp Hin]]].
      - rewrite Hrr in Hb; simpl in Hb. apply in_seq in Hb. pose proof (i_n0 _ _ _ _ _ I). unfold n in *. lia.
      - rewrite Hrr in Hb; simpl in Hb. apply in_seq in Hb.
        rewrite Hq in Hin by lia. apply (i_rng _ _ _ _ _ I) in Hin. unfold n in *. lia. }
    constructor.
    + rewrite Hal. unfold s'; simpl. rewrite set_nth_length. auto.
    + rewrite Hal; auto.
    + intros q b Hin. rewrite Hlenb. destruct (Nat.eq_dec q r) as [->|Hne].
      * rewrite Hrr in Hin; simpl in Hin. apply in_seq in Hin. lia.
      * rewrite Hq in Hin by auto. apply (i_rng _ _ _ _ _ I) in Hin. unfold n. lia.
    + rewrite Hlenb. pose proof (i_n0 _ _ _ _ _ I). unfold n. lia.
    + intros i Hi. destruct (Nat.eq_dec i r) as [->|Hne].
      * rewrite Hparr by auto. apply (i_par _ _ _ _ _ I); auto.
      * rewrite Haq by auto. apply (i_par _ _ _ _ _ I); auto.
    + intros q Hql Hb. rewrite Hal in Hql. destruct (Nat.eq_dec q r) as [->|Hne].
      * destruct (lt_dec r np) as [Hlt|Hge].
        -- rewrite Hparr in Hb by auto. rewrite (i_par _ _ _ _ _ I r Hlt) in Hb. discriminate.
        -- apply Hunr. lia.
      * rewrite Haq in Hb by auto. apply Hunq; auto. apply (i_bt _ _ _ _ _ I); auto.
    + intros q Hql Hb. rewrite Hal in Hql. destruct (Nat.eq_dec q r) as [->|Hne].
      * destruct (lt_dec r np) as [Hlt|Hge].
        -- rewrite aget_a_flat_same in Hb. rewrite (i_par _ _ _ _ _ I r Hlt) in Hb. discriminate.
        -- right. apply Hunr. lia.
      * rewrite Haq in Hb by auto. rewrite Hq by auto.
        destruct (i_wt _ _ _ _ _ I q Hql Hb) as [Hc|Hu]; auto.
        right. rewrite <- (Hq q Hne). apply Hunq; auto.
    + intros q Hql Hb. rewrite Hal in Hql. destruct (Nat.eq_dec q r) as [->|Hne].
      * destruct (lt_dec r np) as [Hlt|Hge].
        -- rewrite Hparr in Hb by auto. rewrite (i_par _ _ _ _ _ I r Hlt) in Hb. discriminate.
        -- right. apply Hunr. lia.
      * rewrite Haq in Hb by auto. rewrite Hq by auto.
        destruct (i_fl _ _ _ _ _ I q Hql Hb) as [Hc|Hu]; auto.
        right. rewrite <- (Hq q Hne). apply Hunq; auto.
    + intros b Hb. rewrite Hblk. apply (i_frame _ _ _ _ _ I); auto.
      pose proof (i_n0 _ _ _ _ _ I). unfold n. lia.
    + intros i Hi. rewrite <- (i_cont _ _ _ _ _ I i Hi).
      destruct (Nat.eq_dec i r) as [->|Hne].
      * rewrite Hrr. unfold content at 1; simpl. unfold blk, s'; simpl.
        unfold n, k. unfold content at 1 2.
        replace (length (r_blocks rg)) with (length (map (blk s) (r_blocks rg))) by apply map_length.
        apply map_nth_app_seq.
      * rewrite Hq by auto. unfold content. apply map_ext_in. intros b Hb. apply Hblk.
        apply (i_rng _ _ _ _ _ I i); auto.
  - (* already contiguous: nothing happens to the store *)
    constructor; try (rewrite Hal); try apply I.
    + intros i Hi. destruct (Nat.eq_dec i r) as [->|Hne].
      * rewrite Hparr by auto. apply (i_par _ _ _ _ _ I); auto.
      * rewrite Haq by auto. apply (i_par _ _ _ _ _ I); auto.
    + intros q Hql Hb. destruct (Nat.eq_dec q r) as [->|Hne].
      * destruct (a_fl (aget a r)) eqn:E.
        -- destruct (i_fl _ _ _ _ _ I r Hr E) as [Hc|Hu]; auto. congruence.
        -- rewrite Har' in Hb by auto. apply (i_bt _ _ _ _ _ I); auto.
      * rewrite Haq in Hb by auto. apply (i_bt _ _ _ _ _ I); auto.
    + intros q Hql Hb. destruct (Nat.eq_dec q r) as [->|Hne].
      * rewrite aget_a_flat_same in Hb. apply (i_wt _ _ _ _ _ I); auto.
      * rewrite Haq in Hb by auto. apply (i_wt _ _ _ _ _ I); auto.
    + intros q Hql Hb. destruct (Nat.eq_dec q r) as [->|Hne].
      * destruct (a_fl (aget a r)) eqn:E.
        -- apply (i_fl _ _ _ _ _ I); auto.
        -- rewrite Har' in Hb by auto. congruence.
      * rewrite Haq in Hb by auto. apply (i_fl _ _ _ _ _ I); auto.
Qed.

(* ---------------------------------------------------------------- write *)
Lemma inv_write : forall n0 np s0 s a b d,
  inv n0 np s0 s a -> ~ prot n0 np s b -> b < length (s_blocks s) ->
  inv n0 np s0 {| s_blocks := set_nth b d (s_blocks s); s_regs := s_regs s |} a.
Proof.
  intros n0 np s0 s a b d I Hnp Hb.
  set (s' := {| s_blocks := set_nth b d (s_blocks s); s_regs := s_regs s |}).
  assert (Hreg : forall q, get_reg s' q = get_reg s q) by reflexivity.
  assert (Hprot : forall c, prot n0 np s' c <-> prot n0 np s c).
  { intros c. apply prot_same_params. intros; apply Hreg. }
  assert (Hun : forall rg, unprot_reg n0 np s rg -> unprot_reg n0 np s' rg).
  { intros rg H c Hc Hp. apply (H c Hc). apply Hprot; auto. }
  assert (Hblk : forall c, c <> b -> blk s' c = blk s c).
  { intros c Hc. unfold blk, s'; simpl. apply nth_set_nth_neq; auto. }
  constructor.
  - apply I.
  - apply I.
  - intros q c Hin. simpl. rewrite set_nth_length. apply (i_rng _ _ _ _ _ I q); auto.
  - simpl. rewrite set_nth_length. apply I.
  - apply I.
  - intros q Hq Hbt. apply Hun. apply (i_bt _ _ _ _ _ I); auto.
  - intros q Hq Hwt. destruct (i_wt _ _ _ _ _ I q Hq Hwt); auto.
  - intros q Hq Hfl. destruct (i_fl _ _ _ _ _ I q Hq Hfl); auto.
  - intros c Hc. rewrite Hblk. apply (i_frame _ _ _ _ _ I); auto.
    intros ->. apply Hnp. left; auto.
  - intros i Hi. rewrite <- (i_cont _ _ _ _ _ I i Hi). rewrite Hreg.
    unfold content. apply map_ext_in. intros c Hc. apply Hblk.
    intros ->. apply Hnp. right. exists i; auto.
Qed.

(* ---------------------------------------------------------------- one step, whole programs *)
Lemma inv_step : forall n0 np s0 s a i a',
  inv n0 np s0 s a -> astep a i = Some a' -> inv n0 np s0 (step s i) a'.
Proof.
  intros n0 np s0 s a i a' I H.
  pose proof (i_len _ _ _ _ _ I) as Hlen.
  destruct i as [d | cow really rs | k rs | r | r k d]; simpl in H.
  - (* alloc *)
    inversion H; subst a'; clear H. simpl.
    assert (Hu : unprot_reg n0 np s {| r_blocks := [length (s_blocks s)]; r_cow := false |}).
    { intros b [<-|[]]. eapply fresh_unprot; eauto. }
    apply inv_append; auto.
    intros b [<-|[]]. rewrite app_length; simpl; lia.
  - (* view *)
    destruct (in_range a rs) eqn:Erng; [|discriminate]. inversion H; subst a'; clear H.
    set (bs := flat_map (fun r => r_blocks (get_reg s r)) rs).
    assert (Hbs : existsb (fun r => a_bt (aget a r)) rs = false ->
                  unprot_reg n0 np s {| r_blocks := bs; r_cow := false |}).
    { intros E. apply unprot_flat_map. intros r Hr.
      apply (i_bt _ _ _ _ _ I). eapply in_range_lt; eauto.
      apply (existsb_false_in _ (fun r => a_bt (aget a r)) rs r E Hr). }
    assert (Hbs' : forall c, existsb (fun r => a_bt (aget a r)) rs = false ->
                  unprot_reg n0 np s {| r_blocks := bs; r_cow := c |}).
    { intros c E b Hb. apply (Hbs E b Hb). }
    simpl. destruct really.
    + (* a real view *)
      replace (s_blocks s) with (s_blocks s ++ []) at 1 by apply app_nil_r.
      apply inv_append; auto.
      * intros b Hb. simpl in Hb. apply in_flat_map in Hb. destruct Hb as [r [Hr Hin]].
        rewrite app_nil_r. apply (i_rng _ _ _ _ _ I r); auto.
      * destruct cow; simpl; intros E; apply Hbs'; auto.
      * destruct cow; simpl; intros E; auto.
        apply orb_false_iff in E. destruct E as [_ E]. right. apply Hbs'; auto.
      * destruct cow; simpl; intros E; auto.
        apply negb_true_iff in E. right. apply Hbs'; auto.
    + (* the operation copied *)
      assert (Hu : unprot_reg n0 np s {| r_blocks := seq (length (s_blocks s)) (length bs); r_cow := false |}).
      { intros b Hb. simpl in Hb. apply in_seq in Hb. eapply fresh_unprot; eauto. lia. }
      apply inv_append; auto.
      intros b Hb. simpl in Hb. apply in_seq in Hb. rewrite app_length, map_length. lia.
  - (* pick *)
    destruct rs as [|r0 rs']; [discriminate|].
    destruct (in_range a (r0 :: rs')) eqn:Erng; [|discriminate]. inversion H; subst a'; clear H.
    set (rs := r0 :: rs') in *.
    cbn [step]. replace (s_blocks s) with (s_blocks s ++ []) at 1 by apply app_nil_r.
    set (q := nth k rs (length (s_regs s))).
    destruct (lt_dec k (length rs)) as [Hk|Hk].
    + assert (Hq : In q rs) by (apply nth_In; auto).
      assert (Hql : q < length a) by (eapply in_range_lt; eauto).
      apply inv_append; auto.
      * intros b Hb. rewrite app_nil_r. apply (i_rng _ _ _ _ _ I q); auto.
      * cbn [a_fl a_bt a_wt]. intros E. apply (i_bt _ _ _ _ _ I); auto.
        apply (existsb_false_in _ (fun r => a_bt (aget a r)) rs q E Hq).
      * cbn [a_fl a_bt a_wt]. intros E. apply (i_wt _ _ _ _ _ I); auto.
        apply (existsb_false_in _ (fun r => a_wt (aget a r)) rs q E Hq).
      * cbn [a_fl a_bt a_wt]. intros E. apply (i_fl _ _ _ _ _ I); auto.
        apply (proj1 (forallb_forall (fun r => a_fl (aget a r)) rs) E); auto.
    + assert (Eq : get_reg s q = empty_reg).
      { apply get_reg_out. unfold q. rewrite nth_overflow by lia. lia. }
      rewrite Eq.
      assert (Hu : unprot_reg n0 np s empty_reg) by (intros b []).
      apply inv_append; auto. intros b [].
  - (* flatten *)
    destruct (r <? length a) eqn:Er; [|discriminate]. inversion H; subst a'; clear H.
    apply Nat.ltb_lt in Er. apply inv_flatten; auto.
  - (* write *)
    destruct ((r <? length a) && negb (a_wt (aget a r))) eqn:E; [|discriminate].
    inversion H; subst a'; clear H.
    apply andb_true_iff in E. destruct E as [Er Ew]. apply Nat.ltb_lt in Er. apply negb_true_iff in Ew.
    pose proof (inv_flatten _ _ _ _ _ r I Er) as I1.
    simpl. destruct (nth_error (r_blocks (get_reg (flatten s r) r)) k) as [b|] eqn:Eb; auto.
    assert (Hin : In b (r_blocks (get_reg (flatten s r) r))) by (eapply nth_error_In; eauto).
    apply (inv_write n0 np s0 (flatten s r) (a_flat a r) b d I1).
    + assert (Hal : r < length (a_flat a r)).
      { unfold a_flat. destruct (a_fl (aget a r)); auto. rewrite set_nth_length; auto. }
      destruct (i_wt _ _ _ _ _ I1 r Hal) as [Hc|Hu].
      * rewrite aget_a_flat_same; auto.
      * rewrite flatten_not_cow in Hc. discriminate.
      * apply Hu; auto.
    + apply (i_rng _ _ _ _ _ I1 r); auto.
Qed.

Lemma inv_run : forall p n0 np s0 s a,
  inv n0 np s0 s a -> acheck a p = true -> exists a', inv n0 np s0 (run p s) a'.
Proof.
  induction p as [|i p IH]; intros n0 np s0 s a I H; simpl in *.
  - exists a; auto.
  - destruct (astep a i) as [a'|] eqn:E; [|discriminate].
    apply (IH n0 np s0 (step s i) a'); auto. eapply inv_step; eauto.
Qed.

Lemma aget_repeat : forall np i, aget (repeat a_param np) i = a_param.
Proof.
  intros np i. unfold aget. destruct (lt_dec i np).
  - apply nth_repeat.
  - apply nth_overflow. rewrite repeat_length. lia.
Qed.

Lemma inv_init : forall np s, wf_init np s -> inv (length (s_blocks s)) np s s (repeat a_param np).
Proof.
  intros np s [Hlen Hrng]. constructor; auto.
  - rewrite repeat_length; auto.
  - rewrite repeat_length; auto.
  - intros i _. apply aget_repeat.
  - intros r _ H. rewrite aget_repeat in H. discriminate.
  - intros r _ H. rewrite aget_repeat in H. discriminate.
  - intros r _ H. rewrite aget_repeat in H. discriminate.
Qed.

(* T1: checker soundness, for every program and every store *)
Theorem safe_prog_sound : forall np p s,
  wf_init np s -> safe_prog np p = true -> unchanged np s (run p s).
Proof.
  intros np p s Hwf Hsafe.
  destruct (inv_run p _ np s s _ (inv_init np s Hwf) Hsafe) as [a' I].
  split.
  - intros b Hb. apply (i_frame _ _ _ _ _ I); auto.
  - intros i Hi. apply (i_cont _ _ _ _ _ I); auto.
Qed.

(* the verdict depends on the shape of a program only (not on run-time data, nor on which candidate a
   one-of instruction picks, nor on whether a view operation happened to copy) *)
Lemma astep_shape : forall a i, astep a (shape_i i) = astep a i.
Proof. intros a [d|c r rs|k rs|r|r k d]; reflexivity. Qed.

Lemma acheck_shape : forall p a, acheck a (shape p) = acheck a p.
Proof.
  induction p as [|i p IH]; intros a; simpl; auto.
  rewrite astep_shape. destruct (astep a i); auto.
Qed.

Theorem safe_prog_shape : forall np p q, shape p = shape q -> safe_prog np p = safe_prog np q.
Proof.
  intros np p q H. unfold safe_prog. rewrite <- (acheck_shape p), <- (acheck_shape q), H. reflexivity.
Qed.

(* every run-time instance of a statically safe site program leaves the inputs unchanged *)
Theorem site_instance_sound : forall np site p s,
  safe_prog np site = true -> shape p = shape site -> wf_init np s -> unchanged np s (run p s).
Proof.
  intros np site p s Hs Hsh Hwf. apply safe_prog_sound; auto.
  rewrite (safe_prog_shape np p site); auto.
Qed.

(* T3: a function of the arguments' contents gives the same result when applied again after a safe call *)
Theorem twice_same : forall (R : Type) (f : list (list block) -> R) np p s,
  wf_init np s -> safe_prog np p = true ->
  f (map (fun i => content (run p s) (get_reg (run p s) i)) (seq 0 np))
  = f (map (fun i => content s (get_reg s i)) (seq 0 np)).
Proof.
  intros R f np p s Hwf Hsafe. f_equal. apply map_ext_in. intros i Hi. apply in_seq in Hi.
  destruct (safe_prog_sound np p s Hwf Hsafe) as [_ H]. apply H. lia.
Qed.

(* the decidable form agrees with the specification *)
Lemma list_eqb_refl : forall l, zlist_eqb l l = true.
Proof. induction l; simpl; auto. unfold zlist_eqb in *; simpl. rewrite Z.eqb_refl; auto. Qed.

Lemma zlist_eqb_eq : forall a b, zlist_eqb a b = true -> a = b.
Proof.
  unfold zlist_eqb. induction a; destruct b; simpl; intros H; auto; try discriminate.
  apply andb_true_iff in H. destruct H as [H1 H2]. apply Z.eqb_eq in H1. f_equal; auto.
Qed.

Lemma zll_eqb_eq : forall a b, zll_eqb a b = true -> a = b.
Proof.
  unfold zll_eqb. induction a; destruct b; simpl; intros H; auto; try discriminate.
  apply andb_true_iff in H. destruct H as [H1 H2]. f_equal; auto. apply zlist_eqb_eq; auto.
Qed.

Lemma zll_eqb_refl : forall l, zll_eqb l l = true.
Proof. unfold zll_eqb. induction l; simpl; auto. rewrite list_eqb_refl; auto. Qed.

Lemma firstn_nth : forall A (d : A) n l b, b < n -> nth b (firstn n l) d = nth b l d.
Proof.
  intros A d n; induction n; intros l b H; [lia|].
  destruct l; simpl; [destruct b; auto|]. destruct b; auto. apply IHn; lia.
Qed.

Theorem unchanged_b_sound : forall np s s',
  unchanged_b np s s' = true -> unchanged np s s'.
Proof.
  intros np s s' H. unfold unchanged_b in H. apply andb_true_iff in H. destruct H as [H1 H2].
  apply zll_eqb_eq in H1. split.
  - intros b Hb. unfold blk.
    transitivity (nth b (firstn (length (s_blocks s)) (s_blocks s')) []).
    + symmetry. apply firstn_nth; auto.
    + rewrite H1. reflexivity.
  - intros i Hi. rewrite forallb_forall in H2. apply zll_eqb_eq. apply H2. apply in_seq. lia.
Qed.

(* the model of a call: a safe site leaves the observed buffers and the argument's content as they were *)
Theorem model_call_unchanged : forall bufs target cow sid,
  Z.eqb sid 14 = false -> target < length bufs ->
  unchanged 1 (call_init bufs target cow) (run (model_prog sid (nth target bufs [])) (call_init bufs target cow)).
Proof.
  intros bufs target cow sid H Ht. unfold model_prog. rewrite H. simpl.
  split; auto.
Qed.

Theorem model_call_fixed_unchanged : forall bufs target cow sid,
  target < length bufs ->
  unchanged 1 (call_init bufs target cow)
            (run (model_prog_fixed sid (nth target bufs [])) (call_init bufs target cow)).
Proof.
  intros bufs target cow sid Ht.
  apply safe_prog_sound.
  - split; auto. intros r b Hin. unfold get_reg, call_init in Hin; simpl in *.
    destruct r as [|r]; simpl in Hin; [destruct Hin as [<-|[]]; auto|]. destruct r; destruct Hin.
  - unfold model_prog_fixed. destruct (Z.eqb sid 14); reflexivity.
Qed.

(* the code as it is: the genotype encoding model does change its argument whenever the text has a newline *)
Theorem genotype_model_refuted :
  exists bufs target cow,
    ~ unchanged 1 (call_init bufs target cow)
                  (run (model_prog 14 (nth target bufs [])) (call_init bufs target cow)).
Proof.
  exists [[48; 47; 49; 10]%Z], 0, false. intros [H _]. specialize (H 0). simpl in H.
  assert (E : 0 < 1) by lia. specialize (H E). vm_compute in H. discriminate.
Qed.

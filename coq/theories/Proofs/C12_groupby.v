(* Proofs/C12_groupby.v — the chunk-wise groupby (with its first-key==last-key fast path) followed by
   join_groupbys yields the runs of the whole data, whatever the chunking, provided the entries of one contig
   are contiguous in the data; and then the group names are pairwise distinct. *)
From Coq Require Import ZArith List Bool Lia.
From BNP Require Import Base.Prims Model.C12 Proofs.C12.
Import ListNotations.

Section Groupby.
Variable name : Type.
Variable neqb : name -> name -> bool.
Hypothesis neqb_eq : forall a b, neqb a b = true <-> a = b.
Notation runs := (runs name neqb).
Notation join_groups := (join_groups name neqb).
Notation group_chunk := (group_chunk name neqb).
Notation grouped := (grouped name neqb).
Notation keys := (map (@fst name Z)).
Notation gnames := (map (@fst name (list Z))).

(* entries of one contig are contiguous: between two occurrences of a key there is only that key *)
Definition contiguous (ks : list name) : Prop :=
  forall a n b c, ks = a ++ n :: b ++ n :: c -> forall x, In x b -> x = n.

Lemma contiguous_app_l k1 k2 : contiguous (k1 ++ k2) -> contiguous k1.
Proof.
  intros H a n b c E x Hx. apply (H a n b (c ++ k2)); auto. rewrite E.
  rewrite <- !app_assoc. simpl. rewrite <- !app_assoc. reflexivity.
Qed.
Lemma contiguous_app_r k1 k2 : contiguous (k1 ++ k2) -> contiguous k2.
Proof.
  intros H a n b c E x Hx. apply (H (k1 ++ a) n b c); auto. rewrite E. rewrite <- !app_assoc. reflexivity.
Qed.

Definition push (e : name * Z) (X : list (name * list Z)) : list (name * list Z) :=
  match X with
  | (n', ids) :: gs => if neqb (fst e) n' then (fst e, snd e :: ids) :: gs else (fst e, [snd e]) :: (n', ids) :: gs
  | [] => [(fst e, [snd e])]
  end.
Lemma runs_cons e r : runs (e :: r) = push e (runs r).
Proof. destruct e as [n i]. simpl. destruct (runs r) as [|[n' ids] gs]; reflexivity. Qed.

Lemma neqb_refl' a : neqb a a = true.
Proof. apply neqb_eq. reflexivity. Qed.

Lemma join_push e X Y : join_groups (push e X ++ Y) = push e (join_groups (X ++ Y)).
Proof.
  destruct e as [n i]. destruct X as [|[n1 ids1] gs1]; simpl.
  - destruct (join_groups Y) as [|[n' p'] r']; simpl; [reflexivity|]. destruct (neqb n n'); reflexivity.
  - destruct (neqb n n1) eqn:E; simpl.
    + apply neqb_eq in E. subst n1.
      destruct (join_groups (gs1 ++ Y)) as [|[n' p'] r']; simpl.
      * rewrite neqb_refl'. reflexivity.
      * destruct (neqb n n'); simpl; rewrite neqb_refl'; reflexivity.
    + destruct (join_groups (gs1 ++ Y)) as [|[n' p'] r']; simpl.
      * rewrite E. reflexivity.
      * destruct (neqb n1 n'); simpl; rewrite E; reflexivity.
Qed.

Lemma join_runs b : join_groups (runs b) = runs b.
Proof.
  induction b as [|e b IH]; [reflexivity|]. rewrite runs_cons.
  pose proof (join_push e (runs b) []) as H. rewrite !app_nil_r in H. rewrite H, IH. reflexivity.
Qed.
Lemma runs_app a b : runs (a ++ b) = join_groups (runs a ++ runs b).
Proof.
  induction a as [|e a IH].
  - symmetry. apply join_runs.
  - change ((e :: a) ++ b) with (e :: (a ++ b)). rewrite !runs_cons. rewrite join_push. rewrite IH. reflexivity.
Qed.
Lemma join_cons_ext g Z1 Z2 : join_groups Z1 = join_groups Z2 -> join_groups (g :: Z1) = join_groups (g :: Z2).
Proof. intros H. destruct g as [n p]. simpl. rewrite H. reflexivity. Qed.

Fixpoint adjd (X : list (name * list Z)) : Prop :=
  match X with
  | (n, _) :: (((n', _) :: _) as r) => n <> n' /\ adjd r
  | _ => True
  end.
Lemma adjd_join Y : adjd (join_groups Y).
Proof.
  induction Y as [|[n p] r IH]; simpl; [exact I|].
  destruct (join_groups r) as [|[n' p'] r'] eqn:E; simpl; [exact I|].
  destruct (neqb n n') eqn:En.
  - apply neqb_eq in En. subst n'. destruct r' as [|[n2 p2] r2]; simpl in *; [exact I|exact IH].
  - split; [|exact IH]. intros ->. rewrite neqb_refl' in En. discriminate.
Qed.
Lemma join_adjd X : adjd X -> join_groups X = X.
Proof.
  induction X as [|[n p] r IH]; intros H; [reflexivity|]. simpl.
  assert (Hr : adjd r). { destruct r as [|[n' p'] r']; [exact I|apply H]. }
  rewrite (IH Hr). destruct r as [|[n' p'] r']; [reflexivity|].
  destruct H as [Hne _]. destruct (neqb n n') eqn:E; [apply neqb_eq in E; contradiction|reflexivity].
Qed.
Lemma join_idem Y : join_groups (join_groups Y) = join_groups Y.
Proof. apply join_adjd. apply adjd_join. Qed.
Lemma join_app_join X Y : join_groups (X ++ join_groups Y) = join_groups (X ++ Y).
Proof.
  induction X as [|g X IH]; [apply join_idem|]. change ((g :: X) ++ join_groups Y) with (g :: (X ++ join_groups Y)).
  change ((g :: X) ++ Y) with (g :: (X ++ Y)). apply join_cons_ext. exact IH.
Qed.

Lemma join_flat_runs chunks : join_groups (flat_map runs chunks) = runs (concat chunks).
Proof.
  induction chunks as [|c cs IH]; [reflexivity|]. simpl.
  rewrite <- join_app_join. rewrite IH. symmetry. apply runs_app.
Qed.

(* fast path *)
Lemma runs_all_same n0 c : c <> [] -> (forall e, In e c -> fst e = n0) -> runs c = [(n0, map snd c)].
Proof.
  induction c as [|[n i] c IH]; intros Hne Hall; [congruence|].
  assert (n = n0) as -> by (apply (Hall (n, i)); left; reflexivity).
  destruct c as [|e c'].
  - reflexivity.
  - rewrite runs_cons. rewrite IH; [|discriminate|intros e' He'; apply Hall; right; exact He'].
    simpl. rewrite neqb_refl'. reflexivity.
Qed.
Lemma group_chunk_runs c : contiguous (keys c) -> group_chunk c = runs c.
Proof.
  intros Hc. destruct c as [|[n0 i0] c']; [reflexivity|].
  unfold C12.group_chunk. destruct (neqb (fst (last ((n0, i0) :: c') (n0, i0))) n0) eqn:E; [|reflexivity].
  apply neqb_eq in E. symmetry. apply runs_all_same; [discriminate|].
  destruct c' as [|e1 c1] using rev_ind.
  - intros e [<-|[]]. reflexivity.
  - clear IHc1. rewrite app_comm_cons in E. rewrite last_last in E.
    intros e [<-|He]; [reflexivity|]. apply in_app_iff in He. destruct He as [He|[<-|[]]]; [|exact E].
    apply (Hc [] n0 (keys c1) []).
    + simpl. rewrite map_app. simpl. rewrite E. reflexivity.
    + apply in_map. exact He.
Qed.

Theorem grouped_chunk_invariant chunks :
  Forall (fun c => c <> []) chunks -> contiguous (keys (concat chunks)) ->
  grouped chunks = runs (concat chunks).
Proof.
  intros _ Hc. unfold C12.grouped.
  assert (flat_map group_chunk chunks = flat_map runs chunks) as ->; [|apply join_flat_runs].
  induction chunks as [|c cs IH]; [reflexivity|]. simpl in *. rewrite map_app in Hc.
  rewrite group_chunk_runs by (eapply contiguous_app_l; exact Hc).
  rewrite IH by (eapply contiguous_app_r; exact Hc). reflexivity.
Qed.

(* the names of the runs of contiguous data are pairwise distinct (the hypothesis of the synchronisation theorems) *)
Lemma runs_names_incl es x : In x (gnames (runs es)) -> In x (keys es).
Proof.
  revert x. induction es as [|[n i] r IH]; intros x H; [exact H|]. rewrite runs_cons in H. simpl.
  destruct (runs r) as [|[n' ids] gs] eqn:E; simpl in H.
  - destruct H as [<-|[]]. left; reflexivity.
  - destruct (neqb n n') eqn:En; simpl in H.
    + apply neqb_eq in En. subst n'. destruct H as [<-|H]; [left; reflexivity|]. right. apply IH. right. exact H.
    + destruct H as [<-|H]; [left; reflexivity|]. right. apply IH. exact H.
Qed.
Lemma runs_head es n ids gs : runs es = (n, ids) :: gs -> exists i r, es = (n, i) :: r.
Proof.
  destruct es as [|[m i] r]; [discriminate|]. rewrite runs_cons. unfold push. simpl.
  destruct (runs r) as [|[n' ids'] gs']; [|destruct (neqb m n')]; intros H; inversion H; subst; eauto.
Qed.
Theorem runs_names_NoDup es : contiguous (keys es) -> NoDup (gnames (runs es)).
Proof.
  induction es as [|[n i] r IH]; intros Hc; [constructor|].
  assert (Hr : contiguous (keys r)). { apply (contiguous_app_r [n]). exact Hc. }
  specialize (IH Hr). rewrite runs_cons. unfold push. simpl fst. simpl snd.
  destruct (runs r) as [|[n' ids] gs] eqn:E.
  - simpl. constructor; [intros []|constructor].
  - destruct (neqb n n') eqn:En.
    + apply neqb_eq in En. subst n'. exact IH.
    + simpl. constructor; [|exact IH]. intros Hin.
      assert (Hne : n <> n'). { intros ->. rewrite neqb_refl' in En. discriminate. }
      change (In n (gnames ((n', ids) :: gs))) in Hin. rewrite <- E in Hin. apply runs_names_incl in Hin.
      destruct (runs_head _ _ _ _ E) as [i' [r' ->]]. simpl in Hin. destruct Hin as [Hin|Hin]; [congruence|].
      apply in_split in Hin. destruct Hin as [b [c Hs]].
      apply Hne. symmetry. apply (Hc [] n (n' :: b) c).
      * simpl. rewrite Hs. reflexivity.
      * left. reflexivity.
Qed.
End Groupby.

(* ---------- end to end on byte-string names: chunk stream -> groupby -> iter_chromosomes -> consumer ---------- *)
Definition bkeys (es : list (bname * Z)) : list bname := map fst es.

Lemma genome_end_to_end (fixed : bool) keepall genome extra chunks :
  NoDup genome -> Forall (fun c => c <> []) chunks -> contiguous bname (bkeys (concat chunks)) ->
  let incl := ctx_included bname zlist_eqb has_underscore keepall genome extra in
  let ign := ctx_ignored bname has_underscore keepall genome extra in
  let D := runs bname zlist_eqb (concat chunks) in
  (fixed = true \/ forallb (fun c => negb (has_underscore c)) incl = true) ->
  match spec_sync bname zlist_eqb ids [] incl ign D with
  | Some a => pull_all (genome_trace fixed false keepall genome extra chunks) = Done a
  | None => exists c, pull_all (genome_trace fixed false keepall genome extra chunks) = Err c
  end.
Proof.
  intros Hg Hne Hc incl ign D Hord. unfold genome_trace. fold incl. fold ign.
  rewrite (grouped_chunk_invariant bname zlist_eqb zlist_eqb_eq chunks Hne Hc). fold D.
  assert (Ho : (if fixed then chrom_order_fixed bname incl else chrom_order bname has_underscore incl) = incl).
  { destruct fixed; [reflexivity|]. destruct Hord as [H|H]; [discriminate|]. apply chrom_order_id. exact H. }
  rewrite Ho.
  apply (genome_exhaustive bname zlist_eqb zlist_eqb_eq ids [] incl ign D).
  - apply ctx_included_NoDup. exact Hg.
  - apply (runs_names_NoDup bname zlist_eqb zlist_eqb_eq). exact Hc.
Qed.

(* Proofs/C03_sam.v — buffers/sam.SAMBuffer.join_fields: masking out, through cumulative cell ends, the separator
   before every empty last cell of the join_columns buffer yields the SAM-standard lines. *)
From Coq Require Import ZArith List Bool Lia Arith.
From BNP Require Import Base.Prims Base.PrimsFacts Model.C03.
From BNP Require Import Proofs.C03_int Proofs.C03_scatter.
Import ListNotations.
Open Scope Z_scope.

(* ---------- generic facts ---------- *)
Lemma len_concat (B : list (list Z)) : len (concat B) = sumZ (map len B).
Proof. unfold sumZ in *. induction B as [|x B IH]; [reflexivity|]. cbn [concat map fold_right]. rewrite len_app, IH. reflexivity. Qed.
Lemma sumZ_app a b : sumZ (a ++ b) = sumZ a + sumZ b.
Proof. unfold sumZ. induction a as [|x a IH]; cbn [app fold_right]; [lia|]. rewrite IH. lia. Qed.
Lemma cumsum_from_app a x y : cumsum_from a (x ++ y) = cumsum_from a x ++ cumsum_from (a + sumZ x) y.
Proof.
  revert a; induction x as [|v x IH]; intros a; cbn [app cumsum_from sumZ fold_right].
  - f_equal. lia.
  - f_equal. rewrite IH. f_equal. f_equal. fold (sumZ x). lia.
Qed.
Lemma length_cumsum_from a l : length (cumsum_from a l) = length l.
Proof. revert a; induction l as [|x l IH]; intros a; cbn; [reflexivity|]. f_equal. apply IH. Qed.
Lemma nth_cumsum_from (j : nat) : forall a l, (j < length l)%nat ->
  nth j (cumsum_from a l) 0 = a + sumZ (firstn (S j) l).
Proof.
  induction j as [|j IH]; intros a l Hj; destruct l as [|x l]; cbn [length] in Hj; try lia.
  - cbn. lia.
  - cbn [cumsum_from nth]. rewrite IH by lia. cbn [firstn sumZ fold_right]. fold (sumZ (firstn (S j) l)). lia.
Qed.

Section Sam.
Variable n : nat.
Hypothesis Hn : (2 <= n)%nat.
Notation N := (Z.of_nat n).

(* a block = the n lines of one record *)
Definition block_ok (B : list (list Z)) : Prop := length B = n /\ Forall (fun l => 1 <= len l) B.
Definition bytes (B : list (list Z)) : Z := sumZ (map len B).
Definition tags_empty (B : list (list Z)) : bool := len (last B []) =? 1.
Definition head_len (B : list (list Z)) : Z := sumZ (map len (firstn (n - 1) B)).

Lemma bytes_blocks (L : list (list (list Z))) : sumZ (map len (concat L)) = sumZ (map bytes L).
Proof.
  induction L as [|B L IH]; [reflexivity|]. cbn [concat map sumZ fold_right]. fold (sumZ (map bytes L)).
  rewrite map_app, sumZ_app, IH. reflexivity.
Qed.

(* lens[n-1::n] picks the last line of every block *)
Lemma stride_sel_skip {A} (B : list A) : forall s rest, (length B <= s)%nat ->
  stride_sel s n (B ++ rest) = stride_sel (s - length B) n rest.
Proof.
  induction B as [|x B IH]; intros s rest H; [cbn; rewrite Nat.sub_0_r; reflexivity|].
  cbn [length] in H. destruct s; [lia|]. cbn [app stride_sel length Nat.sub]. apply IH. lia.
Qed.
Lemma stride_sel_blocks (L : list (list (list Z))) : Forall block_ok L ->
  stride_sel (n - 1) n (map len (concat L)) = map (fun B => len (last B [])) L.
Proof.
  induction 1 as [|B L [Hl _] _ IH]; [reflexivity|].
  cbn [concat map]. rewrite map_app.
  assert (E : B = firstn (n - 1) B ++ [last B []]).
  { rewrite <- (firstn_skipn (n - 1) B) at 1. f_equal.
    assert (Hs : length (skipn (n - 1) B) = 1%nat) by (rewrite skipn_length; lia).
    destruct (skipn (n - 1) B) as [|x [|y r]] eqn:Es; cbn in Hs; try lia. f_equal.
    rewrite <- (firstn_skipn (n - 1) B), Es. rewrite last_last. reflexivity. }
  rewrite E at 1. rewrite map_app, <- app_assoc.
  rewrite stride_sel_skip by (rewrite map_length, firstn_length; lia).
  rewrite map_length, firstn_length, Nat.min_l by lia. rewrite Nat.sub_diag.
  cbn [map app stride_sel]. f_equal. exact IH.
Qed.

(* cell_ends at index r*n + (n-2): bytes of the blocks before r + bytes of the first n-1 lines of block r, minus 1 *)
Lemma nth_cumsum_blocks (L : list (list (list Z))) : Forall block_ok L -> forall (r : nat) a, (r < length L)%nat ->
  nth (r * n + (n - 2)) (cumsum_from a (map len (concat L))) 0
  = a + sumZ (map bytes (firstn r L)) + head_len (nth r L []).
Proof.
  induction 1 as [|B L [Hl Hp] _ IH]; intros r a Hr; [cbn in Hr; lia|].
  cbn [concat]. rewrite map_app, cumsum_from_app.
  destruct r as [|r].
  - cbn [Nat.mul Nat.add firstn map sumZ fold_right nth].
    rewrite app_nth1 by (rewrite length_cumsum_from, map_length; lia).
    rewrite nth_cumsum_from by (rewrite map_length; lia).
    unfold head_len. replace (S (n - 2)) with (n - 1)%nat by lia. rewrite firstn_map. lia.
  - replace (S r * n + (n - 2))%nat with (length (cumsum_from a (map len B)) + (r * n + (n - 2)))%nat
      by (rewrite length_cumsum_from, map_length; lia).
    rewrite app_nth2_plus. cbn [length] in Hr. rewrite IH by lia.
    cbn [firstn map sumZ fold_right nth]. fold (sumZ (map bytes (firstn r L))). unfold bytes at 2. lia.
Qed.

(* the positions that are masked out, block by block *)
Fixpoint dpos (off : Z) (L : list (list (list Z))) : list Z :=
  match L with
  | [] => []
  | B :: L' => (if tags_empty B then [off + head_len B - 1] else []) ++ dpos (off + bytes B) L'
  end.

Lemma flatnonzero_from_range i l : forall x, In x (flatnonzero_from i l) -> i <= x < i + len l.
Proof.
  revert i; induction l as [|b l IH]; intros i x H; [contradiction|].
  cbn [flatnonzero_from] in H. rewrite len_cons. pose proof (len_nonneg l).
  apply in_app_or in H. destruct H as [H|H].
  - destruct b; [destruct H as [<-|[]]; lia|contradiction].
  - apply IH in H. lia.
Qed.

Lemma dropped_dpos (L : list (list (list Z))) : Forall block_ok L ->
  forall (g : Z -> Z),
    (forall r : nat, (r < length L)%nat -> g (Z.of_nat r) = sumZ (map bytes (firstn r L)) + head_len (nth r L []) - 1) ->
  forall L1 L2, L = L1 ++ L2 ->
    map g (flatnonzero_from (len L1) (map tags_empty L2)) = dpos (sumZ (map bytes L1)) L2.
Proof.
  intros HL g Hg L1 L2; revert L1. induction L2 as [|B L2 IH]; intros L1 E; [reflexivity|].
  cbn [map flatnonzero_from dpos]. rewrite map_app. f_equal.
  - destruct (tags_empty B); [|reflexivity]. cbn [map]. f_equal.
    unfold len. rewrite Hg by (rewrite E, app_length; cbn; lia).
    rewrite E, firstn_app, Nat.sub_diag, firstn_all. cbn [firstn]. rewrite app_nil_r.
    rewrite app_nth2, Nat.sub_diag by lia. reflexivity.
  - replace (len L1 + 1) with (len (L1 ++ [B])) by (rewrite len_app; reflexivity).
    replace (sumZ (map bytes L1) + bytes B) with (sumZ (map bytes (L1 ++ [B])))
      by (rewrite map_app, sumZ_app; cbn; lia).
    apply IH. rewrite E, <- app_assoc. reflexivity.
Qed.

(* ---------- masking the positions out ---------- *)
Definition std_bytes (B : list (list Z)) : list Z :=
  if tags_empty B then removelast (concat (firstn (n - 1) B)) ++ last B [] else concat B.

Lemma block_split (B : list (list Z)) : block_ok B -> B = firstn (n - 1) B ++ [last B []].
Proof.
  intros [Hl _]. rewrite <- (firstn_skipn (n - 1) B) at 1. f_equal.
  assert (Hs : length (skipn (n - 1) B) = 1%nat) by (rewrite skipn_length; lia).
  destruct (skipn (n - 1) B) as [|x [|y r]] eqn:Es; cbn in Hs; try lia. f_equal.
  rewrite <- (firstn_skipn (n - 1) B), Es. rewrite last_last. reflexivity.
Qed.
Lemma head_len_pos (B : list (list Z)) : block_ok B -> 1 <= head_len B <= bytes B - 1.
Proof.
  intros HB. pose proof (block_split B HB) as E. destruct HB as [Hl Hp].
  unfold head_len, bytes. rewrite E at 3. rewrite map_app, sumZ_app. cbn [map sumZ fold_right].
  assert (H1 : 1 <= len (last B [])).
  { rewrite Forall_forall in Hp. apply Hp.
    assert (Hin : In (last B []) (firstn (n - 1) B ++ [last B []])) by (apply in_or_app; right; left; reflexivity).
    rewrite <- E in Hin. exact Hin. }
  assert (H2 : 1 <= sumZ (map len (firstn (n - 1) B))).
  { destruct B as [|x B]; [cbn in Hl; lia|]. replace (n - 1)%nat with (S (n - 2)) by lia.
    cbn [firstn map sumZ fold_right]. fold (sumZ (map len (firstn (n - 2) B))).
    assert (0 <= sumZ (map len (firstn (n - 2) B))).
    { clear. induction (firstn (n - 2) B) as [|y l IH]; cbn [map sumZ fold_right]; [lia|].
      fold (sumZ (map len l)). pose proof (len_nonneg y). lia. }
    rewrite Forall_forall in Hp. specialize (Hp x (or_introl eq_refl)). lia. }
  lia.
Qed.
Lemma dpos_ge (L : list (list (list Z))) : Forall block_ok L -> forall off x, In x (dpos off L) -> off <= x.
Proof.
  induction 1 as [|B L HB _ IH]; intros off x H; [contradiction|].
  cbn [dpos] in H. pose proof (head_len_pos B HB). apply in_app_or in H. destruct H as [H|H].
  - destruct (tags_empty B); [destruct H as [<-|[]]; lia|contradiction].
  - apply IH in H. lia.
Qed.

Lemma delete_one off (P Q : list Z) (x : Z) :
  delete_from off [off + len P] (P ++ x :: Q) = P ++ Q.
Proof.
  rewrite delete_from_app. rewrite delete_from_none by (intros j [<-|[]]; pose proof (len_nonneg P); lia).
  f_equal. change (x :: Q) with ([x] ++ Q). rewrite delete_from_app.
  rewrite delete_from_hit by (left; reflexivity). cbn [app].
  apply delete_from_none. intros j [<-|[]]. cbn. lia.
Qed.

Lemma delete_blocks (L : list (list (list Z))) : Forall block_ok L -> forall off,
  delete_from off (dpos off L) (concat (concat L)) = concat (map std_bytes L).
Proof.
  induction 1 as [|B L HB HL IH]; intros off; [reflexivity|].
  cbn [concat map dpos]. rewrite concat_app, delete_from_app.
  pose proof (head_len_pos B HB) as Hh. pose proof (block_split B HB) as E.
  assert (Hb : len (concat B) = bytes B) by apply len_concat.
  f_equal.
  - (* the block itself: only its own position matters *)
    rewrite (delete_from_ext off _ (if tags_empty B then [off + head_len B - 1] else [])).
    2:{ intros j Hj. rewrite Hb in Hj. split; intros Hin.
        - apply in_app_or in Hin. destruct Hin as [Hin|Hin]; [exact Hin|].
          apply (dpos_ge L HL) in Hin. lia.
        - apply in_or_app. left. exact Hin. }
    unfold std_bytes. destruct (tags_empty B); [|apply delete_from_none; intros j []].
    rewrite E at 2. rewrite concat_app. cbn [concat]. rewrite app_nil_r.
    assert (Hne : concat (firstn (n - 1) B) <> []).
    { intros Ec. assert (Hz : len (concat (firstn (n - 1) B)) = 0) by (rewrite Ec; reflexivity).
      rewrite len_concat in Hz. unfold head_len in Hh. lia. }
    destruct (exists_last Hne) as [P [x EP]]. rewrite EP, removelast_last, <- app_assoc. cbn [app].
    replace (off + head_len B - 1) with (off + len P).
    + apply delete_one.
    + unfold head_len. rewrite <- len_concat, EP, len_app. cbn. lia.
  - rewrite Hb. rewrite (delete_from_ext (off + bytes B) _ (dpos (off + bytes B) L)); [apply IH|].
    intros j Hj. split; intros Hin.
    + apply in_app_or in Hin. destruct Hin as [Hin|Hin]; [|exact Hin].
      destruct (tags_empty B); [destruct Hin as [<-|[]]; lia|contradiction].
    + apply in_or_app. right. exact Hin.
Qed.

(* ---------- the whole of join_fields on the lines of a table ---------- *)
Theorem sam_mask_blocks (L : list (list (list Z))) : Forall block_ok L ->
  let lines := concat L in
  let lens := map len lines in
  np_delete (concat lines)
    (map (fun r => nthZ (map m_sam_cell_end (cumsum lens)) (m_sam_drop_index r N))
         (flatnonzero (map m_sam_no_tags (stride_sel (m_join_nl_start n) n lens))))
  = concat (map std_bytes L).
Proof.
  intros HL lines lens. unfold np_delete, flatnonzero, m_join_nl_start. subst lens lines.
  rewrite (stride_sel_blocks L HL), map_map.
  rewrite (map_ext_in _ (fun r => sumZ (map bytes (firstn (Z.to_nat r) L)) + head_len (nth (Z.to_nat r) L []) - 1)).
  - rewrite <- (delete_blocks L HL 0). f_equal.
    change (fun x : list (list Z) => m_sam_no_tags (len (last x []))) with tags_empty.
    rewrite <- (map_map Z.to_nat (fun r => sumZ (map bytes (firstn r L)) + head_len (nth r L []) - 1)) .
    set (g := fun z : Z => sumZ (map bytes (firstn (Z.to_nat z) L)) + head_len (nth (Z.to_nat z) L []) - 1).
    rewrite map_map. change (map (fun x => g x)) with (map g).
    apply (dropped_dpos L HL g) with (L1 := []); [|reflexivity].
    intros r Hr. unfold g. rewrite Nat2Z.id. reflexivity.
  - intros r Hr. apply flatnonzero_from_range in Hr. unfold len in Hr. rewrite map_length in Hr.
    unfold nthZ, m_sam_drop_index, m_sam_cell_end, cumsum.
    replace (Z.to_nat (r * N + N - 2)) with (Z.to_nat r * n + (n - 2))%nat by nia.
    assert (Hlt : (Z.to_nat r * n + (n - 2) < length (cumsum_from 0 (map len (concat L))))%nat).
    { rewrite length_cumsum_from, map_length.
      assert (length (concat L) = (length L * n)%nat).
      { clear -HL. induction HL as [|B L [Hl _] _ IH]; [reflexivity|]. cbn [concat length]. rewrite app_length, IH, Hl. lia. }
      nia. }
    set (F := fun c : Z => c - 1).
    transitivity (nth (Z.to_nat r * n + (n - 2)) (map F (cumsum_from 0 (map len (concat L)))) (F 0)).
    { apply nth_indep. rewrite map_length. exact Hlt. }
    rewrite map_nth. rewrite (nth_cumsum_blocks L HL) by lia. unfold F. lia.
Qed.
End Sam.

(* ---------- on the cells of a table ---------- *)
Definition sam_text_line (r : list (list Z)) : list Z :=
  match last r [0] with
  | [] => intercalate [9] (removelast r) ++ [10]
  | _ => intercalate [9] r ++ [10]
  end.

Lemma upd_snoc {A} (g : A -> A) d (front : list A) e :
  upd (length (front ++ [e]) - 1) g d (front ++ [e]) = front ++ [g e].
Proof.
  rewrite app_length. cbn [length]. replace (length front + 1 - 1)%nat with (length front) by lia.
  unfold upd. rewrite firstn_app, Nat.sub_diag, firstn_all. cbn [firstn]. rewrite app_nil_r.
  rewrite app_nth2, Nat.sub_diag by lia. cbn [nth].
  rewrite skipn_all2 by (rewrite app_length; cbn; lia). reflexivity.
Qed.
Lemma row_lines_snoc (front : list (list Z)) (e : list Z) :
  row_lines (front ++ [e]) = map (fun t => t ++ [9]) front ++ [e ++ [10]].
Proof.
  unfold row_lines. rewrite map_app. cbn [map].
  replace (length (front ++ [e])) with (length (map (fun t => t ++ [9]) front ++ [e ++ [9]]))
    by (rewrite !app_length, map_length; reflexivity).
  rewrite upd_snoc. rewrite set_last_snoc. reflexivity.
Qed.

Theorem sam_join_fields_rows (n : nat) (rows : list (list (list Z))) :
  (2 <= n)%nat -> Forall (fun r => length r = n) rows ->
  sam_join_fields (columns n rows) (length rows) = concat (map sam_text_line rows).
Proof.
  intros Hn Hrows. unfold sam_join_fields. rewrite columns_length.
  rewrite join_lines_rows by (try lia; assumption).
  assert (Hsplit : forall r, In r rows -> exists front e, r = front ++ [e] /\ length front = (n - 1)%nat).
  { intros r Hr. rewrite Forall_forall in Hrows. specialize (Hrows r Hr).
    destruct (exists_last (l := r)) as [front [e ->]]; [destruct r; [cbn in Hrows; lia|discriminate]|].
    exists front, e. split; [reflexivity|]. rewrite app_length in Hrows. cbn in Hrows. lia. }
  rewrite (sam_mask_blocks n Hn (map row_lines rows)).
  - rewrite map_map. f_equal. apply map_ext_in. intros r Hr.
    destruct (Hsplit r Hr) as [front [e [-> Hf]]].
    unfold std_bytes, tags_empty, sam_text_line. rewrite row_lines_snoc.
    rewrite !last_last.
    rewrite firstn_app. rewrite map_length, Hf, Nat.sub_diag. cbn [firstn]. rewrite app_nil_r.
    rewrite firstn_all2 by (rewrite map_length; lia).
    destruct e as [|x e].
    + cbn [app len length Z.of_nat Z.eqb Pos.eqb]. rewrite removelast_concat_sep. rewrite removelast_last. reflexivity.
    + destruct (Z.eqb_spec (len ((x :: e) ++ [10])) 1) as [E|_].
      { exfalso. rewrite len_app, len_cons in E. pose proof (len_nonneg e). change (len [10]) with 1 in E. lia. }
      rewrite <- row_lines_snoc. unfold row_lines. rewrite concat_upd_last by (destruct front; discriminate).
      reflexivity.
  - apply Forall_forall. intros B HB. apply in_map_iff in HB. destruct HB as [r [<- Hr]].
    destruct (Hsplit r Hr) as [front [e [-> Hf]]]. rewrite row_lines_snoc. split.
    + rewrite app_length, map_length. cbn. lia.
    + apply Forall_app. split.
      * apply Forall_forall. intros l Hl. apply in_map_iff in Hl. destruct Hl as [t [<- _]].
        rewrite len_app. pose proof (len_nonneg t). cbn. lia.
      * constructor; [|constructor]. rewrite len_app. pose proof (len_nonneg e). cbn. lia.
Qed.
